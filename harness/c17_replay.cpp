// C17 replayer (R): executes the histories TLC generates from spec/FileModel.tla on real File / TextFile objects and
// Directory::copy/move inside a private scratch directory, compares the results of the calls (read(), readLine loops,
// return values) with the ones in the history, and after the last call compares what fresh File/TextFile objects report
// for every path (exists, size, content, firstBytes, chunked read, text, lines, readLine loop) and what POSIX read()
// finds on disk with the specification's observation; when the specification says so (hq) the long-lived object itself
// is asked as well (size, isFile, exists, content, text, lines).  "hq" steps of a history are queries through the long-
// lived object between its own writes, closes and reopens (FileModel!HQuery).  Byte strings travel run-length coded.
#include "c17_common.h"
#include "vrun.h"

using vrun::Outcome;
using namespace c17;

static TmpDir* g_tmp = 0;

#define FAIL(...) do { char _b[900]; snprintf(_b, sizeof _b, __VA_ARGS__); return Outcome::fail("step " + std::to_string(step) + " " + opname + ": " + _b); } while (0)

static bool sameLines(const Array<String>& got, const vj::Value& want, std::string& why)
{
	if (got.length() != (int)want.size())
	{
		why = "returned " + std::to_string(got.length()) + " lines, specification says " + std::to_string(want.size());
		return false;
	}
	for (int i = 0; i < got.length(); i++)
		if (fromStr(got[i]) != unrle(want[(size_t)i]))
		{
			why = "line " + std::to_string(i) + " is " + show(fromStr(got[i])) + ", specification says " + show(unrle(want[(size_t)i]));
			return false;
		}
	return true;
}

static Outcome observe(const Paths& P, const vj::Value& e, size_t step)
{
	std::string opname = "observe " + e["x"].s();
	const std::string& path = P.of(e["x"].s());
	std::string want = unrle(e["c"]);
	bool ex = e["ex"].b;
	std::string disk;
	bool onDisk = posixRead(path, disk);
	if (!e["settled"].b)
	{
		// the handle still holds unflushed data: only what is certain is checked (nothing but a prefix can be on disk)
		if (!onDisk || disk.size() > want.size() || want.compare(0, disk.size(), disk) != 0)
			FAIL("file on disk %s is not a prefix of the specification's content %s", show(disk).c_str(), show(want).c_str());
		return Outcome();
	}
	if (onDisk != ex) FAIL("file %s on disk, specification says %s", onDisk ? "exists" : "does not exist", ex ? "exists" : "absent");
	if (File(toStr(path)).exists() != ex) FAIL("exists() = %d, specification says %d", (int)!ex, (int)ex);
	Long sz = File(toStr(path)).size();
	if (sz != e["size"].ll()) FAIL("size() = %lld, specification says %lld", (long long)sz, e["size"].ll());
	if (!ex)
	{
		if (File(toStr(path)).content().length() != 0) FAIL("content() of a missing file is not empty");
		if (TextFile(toStr(path)).text().length() != 0) FAIL("text() of a missing file is not empty");
		return Outcome();
	}
	if (disk != want) FAIL("file on disk holds %s, specification says %s", show(disk).c_str(), show(want).c_str());
	if (!File(toStr(path)).isFile()) FAIL("isFile() false");
	std::string got = fromBytes(File(toStr(path)).content());
	if (got != want) FAIL("content() = %s, specification says %s", show(got).c_str(), show(want).c_str());
	int n = (int)want.size();
	int ks[] = { 0, 1, n / 2, n - 1, n, n + 3 };
	for (int i = 0; i < 6; i++)
	{
		int k = ks[i];
		if (k < 0) continue;
		got = fromBytes(File(toStr(path)).firstBytes(k));
		std::string w = want.substr(0, (size_t)(k < n ? k : n));
		if (got != w) FAIL("firstBytes(%d) = %s, specification says %s", k, show(got).c_str(), show(w).c_str());
	}
	{
		// explicit open + read() in pieces, until a short read
		File f(toStr(path), File::READ);
		if (!f) FAIL("cannot open for reading");
		std::string all;
		int piece = n > 100000 ? 40000 : 7;
		std::string buf((size_t)piece, '\0');
		for (;;)
		{
			int k = f.read(&buf[0], piece);
			if (k < 0 || k > piece) FAIL("read() returned %d", k);
			all.append(buf.data(), (size_t)k);
			if (k < piece) break;
		}
		if (all != want) FAIL("read() in pieces of %d gives %s, specification says %s", piece, show(all).c_str(), show(want).c_str());
		if (!f.end()) FAIL("end() false after a short read");
	}
	if (e["tdef"].b)
	{
		std::string wt = unrle(e["text"]);
		got = fromStr(TextFile(toStr(path)).text());
		if (got != wt) FAIL("text() = %s, specification says %s", show(got).c_str(), show(wt).c_str());
	}
	if (e["txt"].b)
	{
		std::string why;
		if (!sameLines(TextFile(toStr(path)).lines(), e["lines"], why)) FAIL("lines() %s", why.c_str());
		Array<String> ls;
		TextFile f(toStr(path), File::READ);
		if (!f) FAIL("cannot open for reading");
		if (step & 1) while (!f.end()) ls << f.readLine();
		else while (!f.end()) { String s; f.readLine(s); ls << s; }
		if (!sameLines(ls, e["lines"], why)) FAIL("readLine() loop %s", why.c_str());
	}
	return Outcome();
}

static Outcome runCase(const vj::Value& c)
{
	const vj::Value& hist = c["hist"];
	Outcome res;
	res.nontrivial = hist.size() >= 2;
	Paths P(g_tmp->sub());
	TextFile h(toStr(P.p));
	size_t step = 0;
	std::string opname = "init";
	for (step = 0; step < hist.size(); step++)
	{
		const vj::Value& o = hist[step];
		opname = o["op"].s();
		const std::string& op = opname;
		std::string api = o["api"].s();
		std::string d = unrle(o["d"]);
		std::string px = o.has("x") ? P.of(o["x"].s()) : P.p;
		bool odd = ((step + d.size()) & 1) != 0;
		if (op == "put")
		{
			bool ok;
			if (api == "bin") ok = File(toStr(px)).put(toBytes(d));
			else if (api == "put") ok = TextFile(toStr(px)).put(toStr(d));
			else if (api == "write") ok = TextFile(toStr(px)).write(toStr(d));
			else if (api == "printf") ok = TextFile(toStr(px)).printf("%s", d.c_str());
			else if (api == "shl") { if (odd) TextFile(toStr(px)) << toStr(d); else TextFile(toStr(px)) << d.c_str(); ok = true; }
			else FAIL("harness: unknown api");
			if (!ok) FAIL("%s returned false", api.c_str());
		}
		else if (op == "append")
		{
			if (!TextFile(toStr(px)).append(toStr(d))) FAIL("append returned false");
		}
		else if (op == "stream")
		{
			std::string d2 = unrle(o["d2"]);
			if (odd) TextFile(toStr(px)) << toStr(d) << toStr(d2);
			else TextFile(toStr(px)) << d.c_str() << toStr(d2);
		}
		else if (op == "remove")
		{
			bool ok = odd ? File(toStr(px)).remove() : Directory::remove(toStr(px));
			if (!ok) FAIL("remove returned false");
		}
		else if (op == "copy" || op == "move")
		{
			std::string py = P.of(o["y"].s());
			bool ok;
			if (op == "copy") ok = (step & 1) ? Directory::copy(toStr(px), toStr(py)) : File(toStr(px)).copy(toStr(py));
			else ok = (step & 1) ? Directory::move(toStr(px), toStr(py)) : File(toStr(px)).move(toStr(py));
			if (!ok) FAIL("%s returned false", op.c_str());
		}
		else if (op == "open")
		{
			std::string m = o["m"].s();
			File::OpenMode mode = m == "r" ? File::READ : m == "w" ? File::WRITE : File::APPEND;
			bool ok = (step & 1) ? h.open(mode) : h.File::open(toStr(P.p), mode);
			if (ok != o["r"].b) FAIL("open(%s) returned %d, specification says %d", m.c_str(), (int)ok, (int)o["r"].b);
			if (ok != !!h) FAIL("operator! disagrees with the result of open");
		}
		else if (op == "hwrite")
		{
			if (api == "bin")
			{
				if (odd) { int k = h.File::write(d.data(), (int)d.size()); if (k != (int)d.size()) FAIL("write returned %d", k); }
				else static_cast<File&>(h) << toBytes(d);
			}
			else if (api == "write") { if (!h.write(toStr(d))) FAIL("write returned false"); }
			else if (api == "shl") { if (odd) h << toStr(d); else h << d.c_str(); }
			else if (api == "append") { if (!h.append(toStr(d))) FAIL("append returned false"); }
			else FAIL("harness: unknown api");
		}
		else if (op == "hput")
		{
			bool ok;
			if (api == "put") ok = h.File::put(toBytes(d));
			else if (api == "write") ok = odd ? h.write(toStr(d)) : (step & 2) ? h.put(toStr(d)) : h.printf("%s", d.c_str());
			else if (api == "append") ok = h.append(toStr(d));
			else FAIL("harness: unknown api");
			if (!ok) FAIL("%s on the closed object returned false", api.c_str());
			if (!h) FAIL("object not open after %s", api.c_str());
		}
		else if (op == "flush") h.flush();
		else if (op == "close") { h.close(); if (!!h) FAIL("still open after close()"); }
		else if (op == "hread")
		{
			int n = o["n"].i();
			std::string buf((size_t)n + 1, '\0');
			int k = h.read(&buf[0], n);
			std::string want = unrle(o["r"]);
			if (k != (int)want.size() || buf.compare(0, (size_t)(k < 0 ? 0 : k), want) != 0)
				FAIL("read(%d) returned %d bytes %s, specification says %s", n, k, show(buf.substr(0, (size_t)(k < 0 ? 0 : k))).c_str(), show(want).c_str());
		}
		else if (op == "hq")
		{
			// a query through the long-lived object itself; the specification's HQuery says what it returns and in which
			// state (open for reading or not) it leaves the object
			std::string what = o["k"].s();
			const vj::Value& r = o["r"];
			if (what == "size")
			{
				Long sz = h.size();
				if (sz != r[(size_t)0].ll()) FAIL("h.size() = %lld, specification says %lld", (long long)sz, r[(size_t)0].ll());
			}
			else if (what == "exists" || what == "isfile")
			{
				bool b = what == "exists" ? h.exists() : h.isFile();
				if ((int)b != r[(size_t)0].i()) FAIL("h.%s() = %d, specification says %d", what == "exists" ? "exists" : "isFile", (int)b, r[(size_t)0].i());
			}
			else if (what == "content" || what == "first" || what == "text")
			{
				std::string want = unrle(r);
				std::string got = what == "content" ? fromBytes(h.content()) : what == "first" ? fromBytes(h.firstBytes(o["n"].i())) : fromStr(h.text());
				if (got != want) FAIL("h.%s() = %s, specification says %s", what.c_str(), show(got).c_str(), show(want).c_str());
			}
			else if (what == "lines" || what == "loop")
			{
				Array<String> ls;
				if (what == "lines") ls = h.lines();
				else if (step & 1) while (!h.end()) ls << h.readLine();
				else while (!h.end()) { String s2; h.readLine(s2); ls << s2; }
				std::string why;
				if (!sameLines(ls, o["ls"], why)) FAIL("h.%s: %s", what.c_str(), why.c_str());
			}
			else FAIL("harness: unknown query");
		}
		else if (op == "hlines")
		{
			Array<String> ls;
			if (api == "lines") ls = h.lines();
			else if (step & 1) while (!h.end()) ls << h.readLine();
			else while (!h.end()) { String s; h.readLine(s); ls << s; }
			std::string why;
			if (!sameLines(ls, o["r"], why)) FAIL("%s", why.c_str());
		}
		else FAIL("harness: unknown op");
	}
	opname = "final";
	const vj::Value& exp = c["exp"];
	for (size_t i = 0; i < exp.size(); i++)
	{
		Outcome r = observe(P, exp[i], step);
		if (!r.ok) return r;
	}
	// the object must still agree with the specification's mode, and closing it must leave exactly the content
	std::string hm = c["hm"].s();
	if ((hm != "closed") != !!h) FAIL("object is %s, specification says mode %s", !!h ? "open" : "closed", hm.c_str());
	if (c["hq"].b)
	{
		// the specification says h is closed and may be asked about its path (HQuery enabled): the long-lived object itself,
		// with whatever it went through in this history, must report what the specification holds for p
		// (the steps are the transitions HQuery(size), HQuery(isfile), HQuery(content), HClose, HQuery(text), HClose,
		//  HQuery(lines), HClose, HQuery(size), HQuery(exists) of the specification; queries do not change the file, so the results are exp[p])
		const vj::Value& e = exp[(size_t)0];
		opname = "final query through h";
		bool ex = e["ex"].b;
		Long sz = h.size();
		if (sz != e["size"].ll()) FAIL("h.size() = %lld, specification says %lld", (long long)sz, e["size"].ll());
		if (h.isFile() != ex) FAIL("h.isFile() = %d, specification says %d", (int)!ex, (int)ex);
		std::string wantc = unrle(e["c"]);
		std::string got = fromBytes(h.content());
		if (got != wantc) FAIL("h.content() = %s, specification says %s", show(got).c_str(), show(wantc).c_str());
		if (ex != !!h) FAIL("h is %s after content() of %s file", !!h ? "open" : "closed", ex ? "an existing" : "a missing");
		h.close();
		if (e["tdef"].b)
		{
			std::string wt = unrle(e["text"]);
			got = fromStr(h.text());
			if (got != wt) FAIL("h.text() = %s, specification says %s", show(got).c_str(), show(wt).c_str());
			h.close();
		}
		if (e["txt"].b)
		{
			std::string why;
			if (!sameLines(h.lines(), e["lines"], why)) FAIL("h.lines() %s", why.c_str());
			h.close();
		}
		sz = h.size();
		if (sz != e["size"].ll()) FAIL("h.size() = %lld after the queries, specification says %lld", (long long)sz, e["size"].ll());
		if (h.exists() != ex) FAIL("h.exists() = %d, specification says %d", (int)!ex, (int)ex);   // (last: exists() looks the file up afresh)
		opname = "final";
	}
	h.close();
	std::string disk, want = unrle(exp[(size_t)0]["c"]);
	bool onDisk = posixRead(P.p, disk);
	if (onDisk != exp[(size_t)0]["ex"].b || (onDisk && disk != want))
		FAIL("after close() the file holds %s, specification says %s", show(disk).c_str(), show(want).c_str());
	return res;
}

int main(int argc, char** argv)
{
	TmpDir tmp("c17");
	g_tmp = &tmp;
	return vrun::run(argc, argv, runCase);
}
