// C16 recorder (V): seeded random driver of StreamBuffer/StreamBufferReader, File and Socket (socketpair) that writes up
// to 64 typed values per execution (scalars with arbitrary bit patterns incl. NaN payloads and integer extremes, arrays
// of length 0..100 of every element type, strings), switching the byte order at random points, and reads them back.
// One ndjson event per public call:
//   {"op":"reset","c":class,"wo":order,"ro":order}     documented initial byte orders of the objects used
//   {"op":"set","o":order}                              writer.setEndian
//   {"op":"w","t":type,"v":[msb..lsb],"d":[bytes]}      writer << value;   d = bytes that reached the sink (observed with
//   {"op":"wa","t":type,"a":[[..],..],"d":[bytes]}      writer << array       POSIX calls / buffer contents, not computed)
//   {"op":"ws","s":[chars],"d":[bytes]}                 writer << string
//   {"op":"rset","o":order}                             reader.setEndian
//   {"op":"r","t":type,"v":[msb..lsb]}                  reader >> value
//   {"op":"rs","n":n,"s":[bytes]}                       reader.read(n)
// The caller's long-lived objects (the specification's pool): scalar variables, Array<T> objects (with a second handle
// sharing the buffer) and Strings that are created once and written repeatedly:
//   {"op":"new","k":"w"|"wa"|"ws","t":type,"a":[[..],..]}   the caller creates object number (count so far)+1
//   {"op":"pset","i":i,"j":j,"v":[msb..lsb]}                 the caller assigns to element j of object i
//   {"op":"wp","i":i,"d":[bytes],"p":[[..],..]}              writer << object i; d as above, p = the value the object
//                                                            holds after the call (projected, not computed)
//   {"op":"pchk","i":i,"p":[[..],..]}                        the value object i holds now (after any other call)
// spec/Trace_EndianStream.tla validates the log against the EndianStream actions (expected bytes and values are
// computed by TLC from the logged arguments).
#include "c16_common.h"
#include "vrec.h"
#include <deque>

using namespace vrec;
using namespace c16;

static const char* TYPES[] = { "u8", "i8", "ch", "bool", "i16", "u16", "i32", "u32", "f32", "i64", "u64", "f64" };
static const char* ORDERS[] = { "BIG", "LITTLE", "NATIVE" };

static std::string pattern(Rng& rng, const std::string& t)
{
	int n = sizeOfType(t);
	std::string v((size_t)n, '\0');
	if (t == "bool") { v[0] = (char)rng.below(2); return v; }
	int k = rng.below(10);
	if (k == 0) {}                                                           // zero
	else if (k == 1) v.assign((size_t)n, (char)0xff);                        // all ones (-1 / max unsigned / NaN)
	else if (k == 2) v[0] = (char)0x80;                                      // minimum signed / -0.0
	else if (k == 3) { v.assign((size_t)n, (char)0xff); v[0] = 0x7f; }       // maximum signed / NaN
	else if (k == 4 && n >= 4)                                               // NaN / infinity patterns with payload
	{
		v[0] = (char)(rng.chance(50) ? 0x7f : 0xff);
		v[1] = (char)(n == 4 ? (rng.chance(50) ? 0x80 : 0xc0) : (rng.chance(50) ? 0xf0 : 0xf8));
		if (rng.chance(70)) v[(size_t)n - 1] = (char)rng.range(1, 255);
	}
	else if (k == 5) for (int i = 0; i < n; i++) v[(size_t)i] = (char)(i + 1);     // 01 02 03 ..
	else for (int i = 0; i < n; i++) v[(size_t)i] = (char)rng.below(256);
	return v;
}

static TmpDir* g_tmpdir = 0;
static void die(const std::string& msg)
{
	fprintf(stderr, "VREC-FAIL: %s\n", msg.c_str());
	fflush(stderr);
	if (g_tmpdir) g_tmpdir->~TmpDir(); // the scratch directory goes away; nothing else is destroyed
	_exit(3); // no leak report: the message is the finding
}

static std::string elemsJson(const std::vector<std::string>& el)
{
	std::string js = "[";
	for (size_t i = 0; i < el.size(); i++) js += (i ? "," : "") + vj::codes(el[i]);
	return js + "]";
}

struct Pending { int kind; std::string t; int n; std::string order; }; // kind 0 scalar, 1 array (n elements), 2 string (n bytes)

template <class S>
struct Exec
{
	Rng& rng;
	Log& log;
	S s;
	std::string wo, ro;
	std::deque<Pending> q;
	size_t seen; // bytes observed on the sink so far
	bool reading;
	bool avoidNative;
	Pool pool;

	void newObject()
	{
		int k = rng.below(100);
		std::string t = TYPES[rng.below(12)];
		std::string kind = k < 25 ? "w" : k < 85 ? "wa" : "ws";
		std::vector<std::string> el;
		if (kind == "w") el.push_back(pattern(rng, t));
		else if (kind == "wa")
		{
			int n = rng.chance(8) ? 0 : rng.chance(50) ? rng.range(1, 4) : rng.chance(70) ? rng.range(5, 24) : rng.range(90, 100);
			for (int i = 0; i < n; i++) el.push_back(pattern(rng, t));
		}
		else
		{
			t = "ch";
			int n = rng.chance(10) ? 0 : rng.range(1, 40);
			for (int i = 0; i < n; i++) el.push_back(std::string(1, (char)rng.range(1, 255)));
		}
		Obj* o = newObj(kind, t, el);
		if (!o) die("harness: cannot create an object");
		pool.objs.push_back(o);
		log.line("{\"op\":\"new\"," + ks("k", kind) + "," + ks("t", t) + ",\"a\":" + elemsJson(el) + "}");
	}

	void checkObject()
	{
		int i = rng.below((int)pool.objs.size());
		log.line("{\"op\":\"pchk\"," + kv("i", i + 1) + ",\"p\":" + elemsJson(pool.objs[(size_t)i]->elems(rng.below(2))) + "}");
	}

	void assignObject()
	{
		int i = rng.below((int)pool.objs.size());
		Obj* o = pool.objs[(size_t)i];
		if (o->size() == 0) return;
		int j = rng.chance(30) ? 0 : rng.chance(40) ? (int)o->size() - 1 : rng.below((int)o->size());
		std::string v = o->kind == "ws" ? std::string(1, (char)rng.range(1, 255)) : pattern(rng, o->type);
		o->set((size_t)j, v);
		log.line("{\"op\":\"pset\"," + kv("i", i + 1) + "," + kv("j", j + 1) + ",\"v\":" + vj::codes(v) + "}");
	}

	// writer << one of the long-lived objects; false if nothing was written
	bool writeObject()
	{
		int i = rng.below((int)pool.objs.size());
		Obj* o = pool.objs[(size_t)i];
		if (avoidNative && o->kind == "wa" && o->size() > 0 && sizeOfType(o->type) > 1 && wo != "BIG") return false; // open finding NativeOrderArrayLength
		putObj(s, o, rng.below(2));
		std::string d = delta();
		Pending p;
		p.order = wo;
		p.t = o->type;
		p.kind = o->kind == "w" ? 0 : o->kind == "wa" ? 1 : 2;
		p.n = (int)o->size();
		q.push_back(p);
		log.line("{\"op\":\"wp\"," + kv("i", i + 1) + ",\"d\":" + vj::codes(d) + ",\"p\":" + elemsJson(o->elems(rng.below(2))) + "}");
		return true;
	}

	Exec(Rng& r, Log& l, const TmpDir& d, bool av) : rng(r), log(l), s(d), seen(0), reading(false), avoidNative(av) {}

	std::string delta()
	{
		std::string all = s.written();
		std::string d = all.size() >= seen ? all.substr(seen) : std::string("?");
		seen = all.size();
		return d;
	}

	void writeOne()
	{
		if (rng.chance(25))
		{
			wo = ORDERS[rng.below(3)];
			s.wset(endianOf(wo));
			log.line("{\"op\":\"set\"," + ks("o", wo) + "}");
		}
		if (pool.objs.size() < 6 && rng.chance(pool.objs.empty() ? 40 : 4)) newObject();
		if (!pool.objs.empty())
		{
			if (rng.chance(10)) assignObject();
			bool done = rng.chance(40) && writeObject();
			if (rng.chance(15)) checkObject();
			if (done) return;
		}
		int k = rng.below(100);
		std::string t = TYPES[rng.below(12)];
		Pending p;
		p.order = wo;
		p.t = t;
		if (k < 50)
		{
			std::string v = pattern(rng, t);
			putScalar(s, t, v);
			p.kind = 0;
			p.n = 1;
			log.line("{\"op\":\"w\"," + ks("t", t) + ",\"v\":" + vj::codes(v) + ",\"d\":" + vj::codes(delta()) + "}");
		}
		else if (k < 85)
		{
			int n = rng.chance(15) ? 0 : rng.chance(50) ? rng.range(1, 4) : rng.chance(70) ? rng.range(5, 24) : rng.range(90, 100);
			if (avoidNative && n > 0 && sizeOfType(t) > 1 && wo != "BIG") n = 0; // open finding NativeOrderArrayLength
			std::vector<std::string> el;
			std::string js = "[";
			for (int i = 0; i < n; i++)
			{
				el.push_back(pattern(rng, t));
				js += (i ? "," : "") + vj::codes(el.back());
			}
			js += "]";
			putArray(s, t, el);
			p.kind = 1;
			p.n = n;
			log.line("{\"op\":\"wa\"," + ks("t", t) + ",\"a\":" + js + ",\"d\":" + vj::codes(delta()) + "}");
		}
		else
		{
			int n = rng.chance(20) ? 0 : rng.range(1, 40);
			std::string b;
			for (int i = 0; i < n; i++) b += (char)rng.range(1, 255);
			if (rng.chance(50)) s.putRaw(b.c_str());
			else s.put(String(b.c_str(), (int)b.size()));
			p.kind = 2;
			p.n = n;
			log.line("{\"op\":\"ws\",\"s\":" + vj::codes(b) + ",\"d\":" + vj::codes(delta()) + "}");
		}
		q.push_back(p);
		if (!pool.objs.empty() && rng.chance(10)) checkObject();
	}

	// reads the next written item back with its own types
	void readOne()
	{
		if (!reading) { s.startReading(); reading = true; }
		Pending p = q.front();
		q.pop_front();
		// never block (socket) or run past the end (buffer): the bytes must already be there
		int need = p.kind == 2 ? p.n : p.n * sizeOfType(p.t);
		if (s.unread() < need)
			die(std::string(S::name()) + ": the stream holds " + std::to_string(s.unread()) + " unread bytes, the next written item (" +
			    (p.kind == 2 ? "string" : p.t) + " x " + std::to_string(p.n) + ") needs " + std::to_string(need));
		if (p.kind == 2)
		{
			std::string b = s.getRaw(p.n, rng.below(2));
			log.line("{\"op\":\"rs\"," + kv("n", p.n) + ",\"s\":" + vj::codes(b) + "}");
			if (!pool.objs.empty() && rng.chance(5)) checkObject();
			return;
		}
		// mostly the byte order the item was written with (the property); sometimes another one (the specification
		// then expects the bytes assembled in that order)
		std::string want = rng.chance(88) ? p.order : ORDERS[rng.below(3)];
		if (want != ro || rng.chance(5))
		{
			ro = want;
			s.rset(endianOf(ro));
			log.line("{\"op\":\"rset\"," + ks("o", ro) + "}");
		}
		for (int i = 0; i < p.n; i++)
		{
			std::string v;
			getScalar(s, p.t, v);
			log.line("{\"op\":\"r\"," + ks("t", p.t) + ",\"v\":" + vj::codes(v) + "}");
		}
		if (!pool.objs.empty() && rng.chance(5)) checkObject();
	}

	void run(int items, bool interleave)
	{
		for (int i = 0; i < items; i++)
		{
			writeOne();
			if (interleave) while (!q.empty() && rng.chance(40)) readOne();
		}
		while (!q.empty()) readOne();
		for (size_t i = 0; i < pool.objs.size(); i++) // every object once more at the end
			log.line("{\"op\":\"pchk\"," + kv("i", (int)i + 1) + ",\"p\":" + elemsJson(pool.objs[i]->elems((int)(i & 1))) + "}");
		if (s.unread() != 0)
			die(std::string(S::name()) + ": " + std::to_string(s.unread()) + " bytes left in the stream after everything was read back");
	}
};

template <class S>
static void execution(Rng& rng, Log& log, const TmpDir& d, const char* cls, const char* wo, const char* ro, bool interleave, bool avoidNative)
{
	log.line(std::string("{\"op\":\"reset\",") + ks("c", cls) + "," + ks("wo", wo) + "," + ks("ro", ro) + "}");
	Exec<S> ex(rng, log, d, avoidNative);
	ex.wo = wo;
	ex.ro = ro;
	ex.run(rng.chance(10) ? 64 : rng.range(1, 64), interleave);
}

// default-constructed objects: StreamBuffer() and StreamBufferReader(data) are documented as ENDIAN_LITTLE
struct DefaultBufferStream : BufferStream
{
	explicit DefaultBufferStream(const TmpDir& d) : BufferStream(d) { w = StreamBuffer(); }
	void startReading()
	{
		data = (*w).clone();
		r = new StreamBufferReader(data.data(), data.length());
	}
};

int main(int argc, char** argv)
{
	Args args(argc, argv);
	if (!hostLittle()) { fprintf(stderr, "c16_record: Trace_EndianStream.cfg assumes Native = LITTLE\n"); return 2; }
	Rng rng(args.seed);
	Log log(args.out);
	TmpDir tmp;
	g_tmpdir = &tmp;
	bool av = args.avoid.count("NativeOrderArrayLength") > 0;
	int k = (int)(args.seed % 4);
	while (log.lines < args.events)
	{
		switch (k++ % 4)
		{
		case 0: execution<BufferStream>(rng, log, tmp, "StreamBuffer", "NATIVE", "NATIVE", false, av); break;
		case 1: execution<FileStream>(rng, log, tmp, "File", "NATIVE", "NATIVE", false, av); break;
		case 2: execution<SocketStream>(rng, log, tmp, "Socket", "NATIVE", "NATIVE", true, av); break;
		case 3: execution<DefaultBufferStream>(rng, log, tmp, "StreamBuffer()", "LITTLE", "LITTLE", false, av); break;
		}
	}
	return 0;
}
