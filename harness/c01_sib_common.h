// Helpers shared by the C01 sibling-container replayer and recorder (Array_<T,N>, Array2<T>).
#ifndef C01_SIB_COMMON_H
#define C01_SIB_COMMON_H
#include "c01_common.h"
#include <asl/Array_.h>
#include <asl/Array2.h>

template <class T>
Array2<T> a2FlatInit(int r, int c, const T* x, int n)
{
	C01_LIST_SWITCH(n, x,
		return Array2<T>(r, c, std::initializer_list<T>()),
		return Array2<T>(r, c, { x[0] }),
		return Array2<T>(r, c, { x[0], x[1] }),
		return Array2<T>(r, c, { x[0], x[1], x[2] }),
		return Array2<T>(r, c, { x[0], x[1], x[2], x[3] }),
		return Array2<T>(r, c, { x[0], x[1], x[2], x[3], x[4] }),
		return Array2<T>(r, c, { x[0], x[1], x[2], x[3], x[4], x[5] }))
	return Array2<T>();
}
// nested lists: one literal per shape (rows x cols, cols >= 1, rows * cols <= 6)
#define C01_NESTED(R, C) ((R) * 10 + (C))
template <class T>
bool a2Nested(Array2<T>& t, bool assign, int r, int c, const T* x)
{
	typedef std::initializer_list<T> IL;
	typedef std::initializer_list<IL> ILL;
#define C01_N2(...) { if (assign) t = ILL __VA_ARGS__; else t = Array2<T>(ILL __VA_ARGS__); return true; }
	switch (C01_NESTED(r, c))
	{
	case C01_NESTED(1, 1): C01_N2({ { x[0] } })
	case C01_NESTED(1, 2): C01_N2({ { x[0], x[1] } })
	case C01_NESTED(1, 3): C01_N2({ { x[0], x[1], x[2] } })
	case C01_NESTED(1, 4): C01_N2({ { x[0], x[1], x[2], x[3] } })
	case C01_NESTED(2, 1): C01_N2({ { x[0] }, { x[1] } })
	case C01_NESTED(2, 2): C01_N2({ { x[0], x[1] }, { x[2], x[3] } })
	case C01_NESTED(2, 3): C01_N2({ { x[0], x[1], x[2] }, { x[3], x[4], x[5] } })
	case C01_NESTED(3, 1): C01_N2({ { x[0] }, { x[1] }, { x[2] } })
	case C01_NESTED(3, 2): C01_N2({ { x[0], x[1] }, { x[2], x[3] }, { x[4], x[5] } })
	case C01_NESTED(4, 1): C01_N2({ { x[0] }, { x[1] }, { x[2] }, { x[3] } })
	}
	return false;
}
template <class T>
void a2AssignFlat(Array2<T>& a, const T* x, int n)
{
	C01_LIST_SWITCH(n, x,
		a = std::initializer_list<T>(),
		a = { x[0] },
		(a = { x[0], x[1] }),
		(a = { x[0], x[1], x[2] }),
		(a = { x[0], x[1], x[2], x[3] }),
		(a = { x[0], x[1], x[2], x[3], x[4] }),
		(a = { x[0], x[1], x[2], x[3], x[4], x[5] }))
}

#endif
