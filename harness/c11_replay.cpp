// C11 replayer (R): executes cases emitted by TLC on the real asl::WebSocket / WebSocketServer under ASan:
//   "ws"    spec/WsFrameStreams.tla  a raw frame stream (well-formed, cut, or hostile) -> the library as receiver (both roles)
//   "size"  spec/WsFrameSizes.tla    frames given as header bytes + (len, seed, key) payload descriptors -> receiver
//   "send"  spec/WsFrameSizes.tla    the library sends a (len, seed) message; the wire bytes must be the spec's header + payload
//   "hs"    spec/WsFrameHs.tla       upgrade request -> WebSocketServer::serve(Socket): accept key, then frames + echo
//   "hsc"   spec/WsFrameHs.tla       WebSocket::connect against a raw listener that answers with the spec's response
// Every expected value comes from the case; this file executes, projects and compares.
#include "c11_common.h"
#include "vrun.h"
#include "c11_conn_run.h"
#include <algorithm>

using namespace c11;

static std::string show(const std::string& s)
{
	std::string r = "\"";
	char b[8];
	for (size_t i = 0; i < s.size() && i < 120; i++)
	{
		unsigned char c = (unsigned char)s[i];
		if (c >= 32 && c < 127 && c != '"' && c != '\\') r += (char)c;
		else { snprintf(b, sizeof b, "\\x%02x", c); r += b; }
	}
	if (s.size() > 120) r += "...";
	char n[32];
	snprintf(n, sizeof n, "\"(%zu)", s.size());
	return r + n;
}

static std::vector<std::string> seqOfBytes(const vj::Value& v)
{
	std::vector<std::string> r;
	for (size_t i = 0; i < v.size(); i++) r.push_back(v[i].bytes());
	return r;
}

static std::string describe(const std::vector<std::string>& ms)
{
	std::string s = "[";
	for (size_t i = 0; i < ms.size() && i < 6; i++) s += (i ? ", " : "") + show(ms[i]);
	return s + "]";
}

static bool isPrefix(const std::vector<std::string>& a, const std::vector<std::string>& b)
{
	if (a.size() > b.size()) return false;
	for (size_t i = 0; i < a.size(); i++)
		if (a[i] != b[i]) return false;
	return true;
}

// ---- "ws": raw frame stream into the library's receiver -------------------------------------------------------------
static vrun::Outcome runWs(const vj::Value& c)
{
	std::string w = c["w"].bytes();
	bool libIsClient = c["role"].s() == "s2c";
	std::vector<std::string> out = seqOfBytes(c["out"]);
	bool hostile = c["hostile"].b, trunc = c["trunc"].b;
	Link link;
	link.open(w);
	Received rx;
	int code = 0;
	double t0 = nowSec();
	{
		WebSocket ws(Socket(link.libFd()), libIsClient);
		receiveAll(ws, rx);
		code = ws.code();
		ws.close();
	}
	double dt = nowSec() - t0;
	std::string reply = link.finish();
	vrun::Outcome o;
	o.nontrivial = !w.empty();
	char b[200];
	if (rx.negative) return vrun::Outcome::fail("receive() returned a message of negative length");
	if (rx.runaway) return vrun::Outcome::fail("receive loop did not end on a stream the peer had closed");
	if (dt > 8.0) return vrun::Outcome::fail("receive loop took too long");
	if (rx.badAlloc && !hostile) return vrun::Outcome::fail("std::bad_alloc on a well-formed stream");
	if (!hostile && !trunc)
	{
		std::vector<std::string> alt = out;
		std::string reason = c["reason"].bytes();
		if (c["closed"].b && !reason.empty()) alt.push_back(reason); // the library hands the close reason over as a last message
		if (rx.msgs != out && rx.msgs != alt)
		{
			snprintf(b, sizeof b, "received %zu message(s), expected %zu: ", rx.msgs.size(), out.size());
			return vrun::Outcome::fail(b + describe(rx.msgs) + " expected " + describe(out));
		}
		std::string expReply = c["reply"].bytes();
		if (!libIsClient)
		{
			if (reply != expReply) return vrun::Outcome::fail("bytes written back " + show(reply) + " expected the pongs " + show(expReply));
		}
		else if (reply.size() != expReply.size() + 4 * (size_t)c["npong"].i() &&
		         !(c["lastempty"].b && reply.size() + 6 == expReply.size() + 4 * (size_t)c["npong"].i()))
			return vrun::Outcome::fail("bytes written back " + show(reply) + ": length differs from the masked pongs expected");
		if (c["closed"].b && c["code"].i() != 1005 && code != c["code"].i())
		{
			snprintf(b, sizeof b, "close code %d expected %d", code, c["code"].i());
			return vrun::Outcome::fail(b);
		}
	}
	else
	{
		// the stream ends inside a frame / a message, or turns hostile: everything completed before must have been delivered
		// intact and in order; what the library makes of the rest is open (but see the universal clauses above)
		if (!isPrefix(out, rx.msgs))
		{
			snprintf(b, sizeof b, "messages completed before the %s were not delivered intact: ", hostile ? "hostile frame" : "cut");
			return vrun::Outcome::fail(b + describe(rx.msgs) + " expected to start with " + describe(out));
		}
		if (!hostile && rx.msgs.size() > out.size() + 1)
			return vrun::Outcome::fail("more than one delivery from a truncated tail: " + describe(rx.msgs));
	}
	return o;
}

// ---- "size": frames given as header bytes + payload descriptors ----------------------------------------------------
static vrun::Outcome runSize(const vj::Value& c)
{
	bool libIsClient = c["role"].s() == "s2c";
	const vj::Value& fr = c["frames"];
	std::string w, expect;
	for (size_t i = 0; i < fr.size(); i++)
	{
		w += fr[i]["hdr"].bytes();
		std::string p;
		expand(p, fr[i]["len"].ll(), fr[i]["seed"].ll());
		expect += p;
		std::string key = fr[i]["key"].bytes();
		if (key.size() == 4)
			for (size_t k = 0; k < p.size(); k++) p[k] = (char)(p[k] ^ key[k % 4]);
		w += p;
	}
	// followed by a close frame (code 1000), masked like the rest
	if (libIsClient) w += std::string("\x88\x02\x03\xe8", 4);
	else { const char cl[] = {(char)0x88, (char)0x82, 1, 2, 3, 4, 1 ^ 3, (char)(2 ^ 0xe8)}; w += std::string(cl, 8); }
	Link link;
	link.open(w);
	Received rx;
	{
		WebSocket ws(Socket(link.libFd()), libIsClient);
		receiveAll(ws, rx);
		ws.close();
	}
	link.finish();
	if (rx.negative) return vrun::Outcome::fail("receive() returned a message of negative length");
	if (rx.badAlloc || rx.runaway) return vrun::Outcome::fail("receive loop failed (bad_alloc / did not end)");
	char b[160];
	if (rx.msgs.size() != 1)
	{
		snprintf(b, sizeof b, "received %zu message(s), expected 1 of %d bytes", rx.msgs.size(), c["total"].i());
		return vrun::Outcome::fail(b);
	}
	if (rx.msgs[0] != expect)
	{
		size_t i = 0;
		while (i < expect.size() && i < rx.msgs[0].size() && expect[i] == rx.msgs[0][i]) i++;
		snprintf(b, sizeof b, "message of %zu bytes differs from the %zu bytes sent, first difference at offset %zu", rx.msgs[0].size(), expect.size(), i);
		return vrun::Outcome::fail(b);
	}
	return vrun::Outcome();
}

// ---- "send": the library as sender -------------------------------------------------------------------------------------
static vrun::Outcome runSend(const vj::Value& c)
{
	bool libIsClient = c["masked"].b;
	std::string payload;
	expand(payload, c["len"].ll(), c["seed"].ll());
	std::string hdr = c["hdr"].bytes();
	Link link;
	link.open("", false);
	{
		WebSocket ws(Socket(link.libFd()), libIsClient);
		if (c["op"].i() == 2) ws.send(ByteArray((const byte*)payload.data(), (int)payload.size()));
		else ws.send((const byte*)payload.data(), (int)payload.size(), WebSocket::FRAME_TEXT);
		ws.close();
	}
	std::string wire = link.finish();
	char b[200];
	size_t hl = hdr.size() + (libIsClient ? 4 : 0);
	if (wire.size() != hl + payload.size())
	{
		snprintf(b, sizeof b, "%zu bytes on the wire, expected %zu (header %zu + payload %zu)", wire.size(), hl + payload.size(), hl, payload.size());
		return vrun::Outcome::fail(b);
	}
	if (wire[0] != hdr[0]) return vrun::Outcome::fail("first header byte " + show(wire.substr(0, 1)) + " expected " + show(hdr.substr(0, 1)));
	if ((unsigned char)wire[1] != (unsigned char)((unsigned char)hdr[1] | (libIsClient ? 0x80 : 0)))
		return vrun::Outcome::fail("second header byte (mask bit, length code) " + show(wire.substr(1, 1)));
	if (wire.compare(2, hdr.size() - 2, hdr, 2, hdr.size() - 2) != 0) return vrun::Outcome::fail("extended length field " + show(wire.substr(2, hdr.size() - 2)) + " expected " + show(hdr.substr(2)));
	for (size_t i = 0; i < payload.size(); i++)
	{
		char x = wire[hl + i];
		if (libIsClient) x = (char)(x ^ wire[hdr.size() + i % 4]);
		if (x != payload[i])
		{
			snprintf(b, sizeof b, "payload byte %zu on the wire (after unmasking) differs from the byte sent", i);
			return vrun::Outcome::fail(b);
		}
	}
	return vrun::Outcome();
}

// ---- "hs": the library as server ------------------------------------------------------------------------------------------
struct EchoServer : public WebSocketServer
{
	Received rx;
	int served;
	EchoServer() : served(0) {}
	void serve(WebSocket& ws)
	{
		served++;
		try
		{
			while (!ws.closed())
			{
				if (++rx.calls > 100) { rx.runaway = true; break; }
				WebSocketMsg m = ws.receive();
				int n = m.length();
				if (n < 0) { rx.negative = true; break; }
				if (n > 0)
				{
					rx.msgs.push_back(std::string(*m, (size_t)n));
					if (!ws.closed()) ws.send((const byte*)*m, n, WebSocket::FRAME_TEXT);
				}
			}
		}
		catch (std::bad_alloc&) { rx.badAlloc = true; }
	}
};

static std::string lower(std::string s) { for (size_t i = 0; i < s.size(); i++) s[i] = (char)tolower((unsigned char)s[i]); return s; }

// splits an HTTP head into start line and (lower-cased name -> trimmed value); returns the offset after the blank line or npos
static size_t parseHead(const std::string& s, std::string& start, std::map<std::string, std::string>& hs)
{
	size_t end = s.find("\r\n\r\n");
	if (end == std::string::npos) return std::string::npos;
	size_t p = 0;
	bool first = true;
	while (p < end + 2)
	{
		size_t e = s.find("\r\n", p);
		std::string line = s.substr(p, e - p);
		if (first) { start = line; first = false; }
		else
		{
			size_t c = line.find(':');
			if (c != std::string::npos)
			{
				std::string v = line.substr(c + 1);
				while (!v.empty() && (v[0] == ' ' || v[0] == '\t')) v.erase(0, 1);
				while (!v.empty() && (v[v.size() - 1] == ' ' || v[v.size() - 1] == '\t')) v.erase(v.size() - 1);
				hs[lower(line.substr(0, c))] = v;
			}
		}
		p = e + 2;
	}
	return end + 4;
}

static vrun::Outcome runHs(const vj::Value& c)
{
	std::string req = c["req"].bytes(), w = c["w"].bytes(), upgrade = c["upgrade"].s();
	Link link;
	link.open(req + w);
	EchoServer srv;
	{
		Socket s(link.libFd());
		((SocketServer&)srv).serve(s);
		s.close();
	}
	std::string resp = link.finish();
	std::string start;
	std::map<std::string, std::string> hs;
	size_t body = parseHead(resp, start, hs);
	bool upgraded = start.compare(0, 12, "HTTP/1.1 101") == 0;
	if (srv.rx.negative || srv.rx.badAlloc || srv.rx.runaway) return vrun::Outcome::fail("receive loop failed after the handshake");
	if (upgrade == "no")
	{
		if (upgraded || srv.served) return vrun::Outcome::fail("a request that is no WebSocket upgrade was upgraded: " + show(resp));
		return vrun::Outcome();
	}
	if (upgrade == "any" && !upgraded)
	{
		if (srv.served) return vrun::Outcome::fail("serve(WebSocket&) called without a 101 response");
		return vrun::Outcome();
	}
	if (!upgraded || body == std::string::npos) return vrun::Outcome::fail("no 101 response to a valid upgrade request (" + c["variant"].s() + "): " + show(resp));
	if (hs["sec-websocket-accept"] != c["accept"].bytes())
		return vrun::Outcome::fail("Sec-WebSocket-Accept " + show(hs["sec-websocket-accept"]) + " expected " + show(c["accept"].bytes()) + " for key " + show(c["key"].bytes()) + " (" + c["variant"].s() + ")");
	if (lower(hs["upgrade"]) != "websocket" || lower(hs["connection"]).find("upgrade") == std::string::npos)
		return vrun::Outcome::fail("101 response without Upgrade: websocket / Connection: Upgrade");
	if (hs.count("sec-websocket-protocol"))
	{
		bool offered = false;
		for (size_t i = 0; i < c["offered"].size(); i++)
			if (c["offered"][i].bytes() == hs["sec-websocket-protocol"]) offered = true;
		if (!offered) return vrun::Outcome::fail("the server selected the sub-protocol " + show(hs["sec-websocket-protocol"]) + ", which the client did not offer");
	}
	if (srv.served != 1) return vrun::Outcome::fail("serve(WebSocket&) not called exactly once");
	if (srv.rx.msgs != seqOfBytes(c["out"])) return vrun::Outcome::fail("after the handshake received " + describe(srv.rx.msgs));
	if (resp.substr(body) != c["echo"].bytes()) return vrun::Outcome::fail("frames written after the handshake " + show(resp.substr(body)) + " expected " + show(c["echo"].bytes()));
	return vrun::Outcome();
}

// ---- "hsc": the library as client against a raw server -------------------------------------------------------------------------
// The response comes from the case; where it has the accept slot the raw server puts the accept value of the key the client
// sent (c11::acceptFor); "cut": the server closes after that many bytes; "refused": nobody listens on the port.
static vrun::Outcome runHsc(const vj::Value& c)
{
	std::string may = c["connect"].s(), variant = c["variant"].s();
	RawAcceptor* acc = theAcceptor();
	RawAcceptor::Job job;
	int port = acc->port;
	bool refused = variant == "refused";
	if (refused)
	{
		int p2 = 0, fd = listenLoopback(p2); // a port that was free a moment ago
		if (fd < 0) return vrun::Outcome::fail("harness: cannot find a free port");
		close(fd);
		port = p2;
	}
	else
	{
		job.response = c["resp"].bytes();
		job.cutAt = c["cut"].i();
		job.after = c["w"].bytes();
		job.drain = true;
		acc->start(job);
	}
	Received rx;
	bool ok, closedAfter = true;
	double t0 = nowSec();
	{
		WebSocket ws;
		char url[96];
		snprintf(url, sizeof url, "ws://127.0.0.1:%d%s", port, c["path"].bytes().c_str());
		ok = ws.connect(url);
		if (ok) receiveAll(ws, rx);
		else
		{
			closedAfter = ws.closed() && !ws.connected();
			ws.send("after a failed connect"); // must be a clean no-op
		}
		ws.close();
	}
	double dt = nowSec() - t0;
	if (!refused)
	{
		acc->join(job);
		if (job.fd >= 0) close(job.fd);
	}
	char b[160];
	if (may == "no" && ok)
	{
		snprintf(b, sizeof b, " (cut %d)", c["cut"].i());
		return vrun::Outcome::fail("connect() succeeded although the handshake failed: " + variant + b);
	}
	if (may == "yes" && !ok) return vrun::Outcome::fail("connect() failed on a valid 101 response with the accept value of its key");
	if (!ok && !closedAfter) return vrun::Outcome::fail("after a failed connect(), closed() is false or connected() is true");
	if (dt > 10.0) return vrun::Outcome::fail("connect() took more than 10 s against a server that had answered or closed");
	if (ok)
	{
		if (rx.negative || rx.badAlloc || rx.runaway) return vrun::Outcome::fail("receive loop failed after connect()");
		if (c["cut"].i() < 0 && rx.msgs != seqOfBytes(c["out"])) return vrun::Outcome::fail("after connect() received " + describe(rx.msgs));
	}
	if (refused) return vrun::Outcome();
	// the request the client wrote: start line and the headers RFC 6455 4.1 requires
	std::string start;
	std::map<std::string, std::string> hs;
	if (parseHead(job.request, start, hs) == std::string::npos) return vrun::Outcome::fail("client request incomplete: " + show(job.request));
	if (start != "GET " + c["path"].bytes() + " HTTP/1.1") return vrun::Outcome::fail("client request line " + show(start));
	if (lower(hs["upgrade"]) != "websocket" || lower(hs["connection"]).find("upgrade") == std::string::npos || hs["sec-websocket-version"] != "13" ||
	    hs["sec-websocket-key"].size() != 24 || hs["host"].empty())
		return vrun::Outcome::fail("client request lacks a required header: " + show(job.request));
	return vrun::Outcome();
}

// ---- "link": a WebSocketServer linked to an HttpServer --------------------------------------------------------------------------
struct LinkedHttp : public HttpServer
{
	int port;
	LinkedHttp() : HttpServer(-1), port(0) {}
	void serve(HttpRequest& req, HttpResponse& resp) { resp.put(String("ok:") + req.path()); }
};
struct LinkedPair
{
	LinkedHttp http;
	EchoServer ws;
};
static LinkedPair* theLinked()
{
	static LinkedPair* g = 0;
	if (!g)
	{
		g = new LinkedPair;
		g->http.link(g->ws);
		g->http.port = bindFreePort(&g->http);
		g->http.start(true); // only the HTTP server is started, as documented
	}
	return g;
}

static std::string plainExchange(int fd, const vj::Value& p, const char* what)
{
	int status = 0;
	std::string body;
	if (!writeAll(fd, p["req"].bytes()) || !readHttpResponse(fd, status, body)) return std::string("no HTTP response to an ordinary request ") + what;
	char b[200];
	if (status != p["status"].i()) { snprintf(b, sizeof b, "ordinary request %s: status %d, expected %d", what, status, p["status"].i()); return b; }
	if (body != p["body"].bytes()) return std::string("ordinary request ") + what + ": body " + show(body) + " expected " + show(p["body"].bytes());
	return "";
}

static vrun::Outcome runLink(const vj::Value& c)
{
	LinkedPair* L = theLinked();
	L->ws.rx = Received();
	int served0 = L->ws.served;
	int fd = connectLoopback(L->http.port);
	if (fd < 0) return vrun::Outcome::fail("harness: cannot connect to the HTTP port");
	std::string err;
	const vj::Value& pre = c["pre"];
	for (size_t i = 0; i < pre.size() && err.empty(); i++) err = plainExchange(fd, pre[i], "before the upgrade, on the same connection");
	std::string resp, head;
	if (err.empty() && c["upgrade"].b)
	{
		if (!writeAll(fd, c["req"].bytes()) || !readHead(fd, head)) err = "no response to an upgrade request on the HTTP port";
		else if (head.compare(0, 12, "HTTP/1.1 101") != 0) err = "the upgrade request on the HTTP port was not handed over: " + show(head);
		else if (headValue(head, "sec-websocket-accept") != c["accept"].bytes()) err = "Sec-WebSocket-Accept " + show(headValue(head, "sec-websocket-accept")) + " expected " + show(c["accept"].bytes());
		// while the WebSocket is open, the port still serves HTTP on other connections
		if (err.empty())
		{
			int fd2 = connectLoopback(L->http.port);
			if (fd2 < 0) err = "harness: second connection failed";
			else { err = plainExchange(fd2, c["post"], "on another connection while the WebSocket is open"); close(fd2); }
		}
		if (err.empty())
		{
			writeAll(fd, c["w"].bytes());
			shutdown(fd, SHUT_WR);
			char b[4096];
			for (;;)
			{
				struct pollfd pf;
				pf.fd = fd; pf.events = POLLIN; pf.revents = 0;
				if (poll(&pf, 1, 10000) <= 0) { err = "the server did not close the connection after the close frame"; break; }
				ssize_t n = read(fd, b, sizeof b);
				if (n <= 0) break;
				resp.append(b, (size_t)n);
			}
		}
		if (err.empty())
		{
			// serve(WebSocket&) has returned when the socket is closed
			if (L->ws.served != served0 + 1) err = "serve(WebSocket&) of the linked server was not called exactly once";
			else if (L->ws.rx.msgs != seqOfBytes(c["out"])) err = "the linked WebSocket server received " + describe(L->ws.rx.msgs);
			else if (resp != c["echo"].bytes()) err = "frames written by the linked server " + show(resp) + " expected " + show(c["echo"].bytes());
		}
	}
	close(fd);
	if (err.empty() && !c["upgrade"].b)
	{
		int fd2 = connectLoopback(L->http.port);
		if (fd2 < 0) err = "harness: second connection failed";
		else { err = plainExchange(fd2, c["post"], "on another connection"); close(fd2); }
		if (err.empty() && L->ws.served != served0) err = "serve(WebSocket&) called without an upgrade request";
	}
	if (!err.empty()) return vrun::Outcome::fail(err + " (" + c["variant"].s() + ")");
	return vrun::Outcome();
}

static vrun::Outcome runCase(const vj::Value& c)
{
	std::string k = c["k"].s();
	if (k == "ws") return runWs(c);
	if (k == "size") return runSize(c);
	if (k == "send") return runSend(c);
	if (k == "hs") return runHs(c);
	if (k == "hsc") return runHsc(c);
	if (k == "link") return runLink(c);
	if (k == "conn") return runConn(c);
	if (k == "hub") return runHub(c);
	return vrun::Outcome::fail("unknown case kind " + k);
}

int main(int argc, char** argv)
{
	signal(SIGPIPE, SIG_IGN);
	return vrun::run(argc, argv, runCase);
}
