// Element types and container-kind dispatch shared by the C01 replayer and recorder.
#ifndef C01_COMMON_H
#define C01_COMMON_H
#include <asl/Array.h>
#include <asl/Stack.h>
#include <asl/Queue.h>
#include <asl/String.h>
#include <string>
#include <cstring>
using namespace asl;

// ---- element types ----------------------------------------------------------------------------
struct Counted
{
	static long live, ctors, dtors;
	int v;
	int* p; // heap payload: must travel with the element and be released exactly once
	Counted() : v(0), p(new int(0 ^ 0x5a5a)) { live++; ctors++; }
	Counted(int x) : v(x), p(new int(x ^ 0x5a5a)) { live++; ctors++; }
	Counted(const Counted& o) : v(o.v), p(new int(*o.p)) { live++; ctors++; }
	Counted& operator=(const Counted& o) { v = o.v; *p = *o.p; return *this; }
	~Counted() { delete p; p = 0; live--; dtors++; }
	bool operator==(const Counted& o) const { return v == o.v; }
	bool operator!=(const Counted& o) const { return v != o.v; }
	bool operator<(const Counted& o) const { return v < o.v; }
	bool sane() const { return p && *p == (v ^ 0x5a5a); }
};
long Counted::live = 0, Counted::ctors = 0, Counted::dtors = 0;

struct ConvInt
{
	typedef int T;
	static int make(int v) { return v; }
	static bool same(const int& x, int v) { return x == v; }
	static const bool pod = true;
	static long live() { return -1; }
	static int value(const int& x) { return x; }
	static const int tt = 0; // join(): decimal text (ArraySeq.tla TextOf(0, v))
};
struct ConvCounted
{
	typedef Counted T;
	static Counted make(int v) { return Counted(v); }
	static bool same(const Counted& x, int v) { return x.v == v && x.sane(); }
	static const bool pod = false;
	static long live() { return Counted::live; }
	static int value(const Counted& x) { return x.v; }
	static const int tt = -1; // not convertible to String: no join()
};
// value -> String; two tables: short/long and 15/16 bytes (inline <-> heap boundary), ordered like the values
template <int TABLE>
struct ConvStr
{
	typedef String T;
	static const char* text(int v)
	{
		static const char* A[] = { "", "a", "bcdefghijklmnopqrstuvwxyz0123456789ABCD", "c23" };
		static const char* B[] = { "", "a23456789012345", "b234567890123456", "c2345678901234567890123" };
		return TABLE == 0 ? A[v & 3] : B[v & 3];
	}
	static String make(int v) { return String(text(v)); }
	static bool same(const String& x, int v)
	{
		return x.length() == (int)strlen(text(v)) && strcmp(*x, text(v)) == 0;
	}
	static const bool pod = false;
	static long live() { return -1; }
	static int value(const String& x)
	{
		for (int v = 0; v < 4; v++) if (same(x, v)) return v;
		return -1;
	}
	static const int tt = TABLE + 1; // join(): ArraySeq.tla TabA / TabB - keep the tables equal
};

// ---- container-kind dispatch -------------------------------------------------------------------
template <class T> void do_push(Array<T>& a, const T& x) { a << x; }
template <class T> void do_push(Stack<T>& a, const T& x) { a.push(x); }
template <class T> void do_push(Queue<T>& a, const T& x) { a.put(x); }
template <class T> T do_popget(Array<T>& a) { T y = a.last(); a.resize(a.length() - 1); return y; }
template <class T> T do_popget(Stack<T>& a) { if (a.length() & 1) { T y; a >> y; return y; } return a.popget(); }
template <class T> T do_popget(Queue<T>& a) { T y = a.last(); a.removeLast(); return y; }
template <class T> const T& do_top(const Array<T>& a, int i) { return a[a.length() - 1 - i]; }
template <class T> const T& do_top(const Stack<T>& a, int i) { return i == 0 ? a.top() : a.top(i); }
template <class T> T& do_top(Stack<T>& a, int i) { return i == 0 ? a.top() : a.top(i); }
template <class T> const T& do_top(const Queue<T>& a, int i) { return a[a.length() - 1 - i]; }
template <class T> void do_pop(Array<T>& a, int n) { a.resize(a.length() - n); }
template <class T> void do_pop(Stack<T>& a, int n) { if (n == 1) a.pop(); else a.pop(n); }
template <class T> void do_pop(Queue<T>& a, int n) { a.resize(a.length() - n); }
template <class T> T do_get(Array<T>& a) { T y = a[0]; a.remove(0); return y; }
template <class T> T do_get(Stack<T>& a) { T y = a[0]; a.remove(0, 1); return y; }
template <class T> T do_get(Queue<T>& a) { if (a.length() & 1) { T y; a >> y; return y; } return a.get(); }

template <class Cv>
struct SuccFn
{
	int nv;
	typename Cv::T operator()(const typename Cv::T& x) const
	{
		for (int v = 1; v <= nv; v++)
			if (Cv::same(x, v)) return Cv::make((v % nv) + 1);
		return Cv::make(0);
	}
};
template <class Cv>
struct NeFn
{
	typename Cv::T ref;
	bool operator()(const typename Cv::T& x) const { return x != ref; }
};
template <class Cv>
struct EqFn
{
	typename Cv::T ref;
	bool operator()(const typename Cv::T& x) const { return x == ref; }
};


// ---- the remaining Array surface (ArraySeq.tla, section "remaining public surface") ---------------
// element type used as the "other" type K of the converting constructor / with<K>() / map_<K>() / operator=(Array<K>)
template <class T>
struct Box
{
	T x;
	Box() : x() {}
	Box(const T& t) : x(t) {}
	operator T() const { return x; }
};
template <class T>
struct BoxFn
{
	Box<T> operator()(const T& x) const { return Box<T>(x); }
};
template <class Cv>
struct GreaterFn
{
	bool operator()(const typename Cv::T& x, const typename Cv::T& y) const { return y < x; }
};
template <class Cv>
struct KeyFn // ArraySeq.tla KeyOf
{
	int operator()(const typename Cv::T& x) const { return (2 * Cv::value(x)) % 5; }
};
template <class Cv>
struct ParFn // ArraySeq.tla ParOf
{
	int operator()(const typename Cv::T& x) const { return Cv::value(x) % 2; }
};
template <class Cv>
struct LtFn
{
	typename Cv::T ref;
	bool operator()(const typename Cv::T& x) const { return x < ref; }
};

// initializer lists have a compile-time length: one case per length (0..6)
#define C01_LIST_SWITCH(n, X, L0, L1, L2, L3, L4, L5, L6) \
	switch (n) { case 0: L0; break; case 1: L1; break; case 2: L2; break; case 3: L3; break; \
	case 4: L4; break; case 5: L5; break; default: L6; break; }

template <class T>
Array<T> listCtor(const T* x, int n)
{
	C01_LIST_SWITCH(n, x,
		return Array<T>(std::initializer_list<T>()),
		return Array<T>({ x[0] }),
		return Array<T>({ x[0], x[1] }),
		return Array<T>({ x[0], x[1], x[2] }),
		return Array<T>({ x[0], x[1], x[2], x[3] }),
		return Array<T>({ x[0], x[1], x[2], x[3], x[4] }),
		return Array<T>({ x[0], x[1], x[2], x[3], x[4], x[5] }))
	return Array<T>();
}
template <class T>
Array<T> listArrayInit(const T* x, int n)
{
	C01_LIST_SWITCH(n, x,
		return array<T>(std::initializer_list<T>()),
		return array({ x[0] }),
		return array({ x[0], x[1] }),
		return array({ x[0], x[1], x[2] }),
		return array({ x[0], x[1], x[2], x[3] }),
		return array({ x[0], x[1], x[2], x[3], x[4] }),
		return array({ x[0], x[1], x[2], x[3], x[4], x[5] }))
	return Array<T>();
}
template <class T>
Array<T> listArrayFn(const T* x, int n)
{
	C01_LIST_SWITCH(n, x,
		return Array<T>(),
		return array(x[0]),
		return array(x[0], x[1]),
		return array(x[0], x[1], x[2]),
		return array(x[0], x[1], x[2], x[3]),
		return array(x[0], x[1], x[2], x[3], x[4]),
		return array(x[0], x[1], x[2], x[3], x[4], x[5]))
	return Array<T>();
}
template <class T>
void listAssign(Array<T>& a, const T* x, int n)
{
	C01_LIST_SWITCH(n, x,
		a = std::initializer_list<T>(),
		a = { x[0] },
		(a = { x[0], x[1] }),
		(a = { x[0], x[1], x[2] }),
		(a = { x[0], x[1], x[2], x[3] }),
		(a = { x[0], x[1], x[2], x[3], x[4] }),
		(a = { x[0], x[1], x[2], x[3], x[4], x[5] }))
}
template <class T>
void listAppend(Array<T>& a, const T* x, int n)
{
	C01_LIST_SWITCH(n, x,
		a.append(std::initializer_list<T>()),
		a.append({ x[0] }),
		a.append({ x[0], x[1] }),
		a.append({ x[0], x[1], x[2] }),
		a.append({ x[0], x[1], x[2], x[3] }),
		a.append({ x[0], x[1], x[2], x[3], x[4] }),
		a.append({ x[0], x[1], x[2], x[3], x[4], x[5] }))
}

// join() exists only for element types convertible to String
template <class T> String joinOf(const Array<T>& a, const String& sep) { return a.join(sep); }
inline String joinOf(const Array<Counted>&, const String&) { return String(); }

// Array<T> -> Array<Box<T>> -> Array<T> by the three conversion routes
template <class T>
Array<T> convertVia(const Array<T>& a, const std::string& via)
{
	if (via == "with") { Array<Box<T> > b = a.template with<Box<T> >(); return b.template with<T>(); }
	if (via == "map_") { Array<Box<T> > b = a.template map_<Box<T> >(BoxFn<T>()); return Array<T>(b); }
	Array<Box<T> > b(a);
	return Array<T>(b);
}

#endif
