// Element types and container-kind dispatch shared by the C01 replayer and recorder.
#ifndef C01_COMMON_H
#define C01_COMMON_H
#include <asl/Array.h>
#include <asl/Stack.h>
#include <asl/Queue.h>
#include <asl/String.h>
#include <string>
#include <cstring>
using namespace asl;

// ---- element types ----------------------------------------------------------------------------
struct Counted
{
	static long live, ctors, dtors;
	int v;
	int* p; // heap payload: must travel with the element and be released exactly once
	Counted() : v(0), p(new int(0 ^ 0x5a5a)) { live++; ctors++; }
	Counted(int x) : v(x), p(new int(x ^ 0x5a5a)) { live++; ctors++; }
	Counted(const Counted& o) : v(o.v), p(new int(*o.p)) { live++; ctors++; }
	Counted& operator=(const Counted& o) { v = o.v; *p = *o.p; return *this; }
	~Counted() { delete p; p = 0; live--; dtors++; }
	bool operator==(const Counted& o) const { return v == o.v; }
	bool operator!=(const Counted& o) const { return v != o.v; }
	bool operator<(const Counted& o) const { return v < o.v; }
	bool sane() const { return p && *p == (v ^ 0x5a5a); }
};
long Counted::live = 0, Counted::ctors = 0, Counted::dtors = 0;

struct ConvInt
{
	typedef int T;
	static int make(int v) { return v; }
	static bool same(const int& x, int v) { return x == v; }
	static const bool pod = true;
	static long live() { return -1; }
};
struct ConvCounted
{
	typedef Counted T;
	static Counted make(int v) { return Counted(v); }
	static bool same(const Counted& x, int v) { return x.v == v && x.sane(); }
	static const bool pod = false;
	static long live() { return Counted::live; }
};
// value -> String; two tables: short/long and 15/16 bytes (inline <-> heap boundary), ordered like the values
template <int TABLE>
struct ConvStr
{
	typedef String T;
	static const char* text(int v)
	{
		static const char* A[] = { "", "a", "bcdefghijklmnopqrstuvwxyz0123456789ABCD", "c23" };
		static const char* B[] = { "", "a23456789012345", "b234567890123456", "c2345678901234567890123" };
		return TABLE == 0 ? A[v & 3] : B[v & 3];
	}
	static String make(int v) { return String(text(v)); }
	static bool same(const String& x, int v)
	{
		return x.length() == (int)strlen(text(v)) && strcmp(*x, text(v)) == 0;
	}
	static const bool pod = false;
	static long live() { return -1; }
};

// ---- container-kind dispatch -------------------------------------------------------------------
template <class T> void do_push(Array<T>& a, const T& x) { a << x; }
template <class T> void do_push(Stack<T>& a, const T& x) { a.push(x); }
template <class T> void do_push(Queue<T>& a, const T& x) { a.put(x); }
template <class T> T do_popget(Array<T>& a) { T y = a.last(); a.resize(a.length() - 1); return y; }
template <class T> T do_popget(Stack<T>& a) { return a.popget(); }
template <class T> T do_popget(Queue<T>& a) { T y = a.last(); a.removeLast(); return y; }
template <class T> void do_pop(Array<T>& a, int n) { a.resize(a.length() - n); }
template <class T> void do_pop(Stack<T>& a, int n) { if (n == 1) a.pop(); else a.pop(n); }
template <class T> void do_pop(Queue<T>& a, int n) { a.resize(a.length() - n); }
template <class T> T do_get(Array<T>& a) { T y = a[0]; a.remove(0); return y; }
template <class T> T do_get(Stack<T>& a) { T y = a[0]; a.remove(0, 1); return y; }
template <class T> T do_get(Queue<T>& a) { return a.get(); }

template <class Cv>
struct SuccFn
{
	int nv;
	typename Cv::T operator()(const typename Cv::T& x) const
	{
		for (int v = 1; v <= nv; v++)
			if (Cv::same(x, v)) return Cv::make((v % nv) + 1);
		return Cv::make(0);
	}
};
template <class Cv>
struct NeFn
{
	typename Cv::T ref;
	bool operator()(const typename Cv::T& x) const { return x != ref; }
};
template <class Cv>
struct EqFn
{
	typename Cv::T ref;
	bool operator()(const typename Cv::T& x) const { return x == ref; }
};

#endif
