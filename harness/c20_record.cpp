// C20 recorder (V): seeded random driver of the ASL matrix / quaternion templates instantiated over the prime field
// Z_32749 (c20_zp.h); logs one ndjson event per library call with its inputs and outputs.  spec/Trace_LinAlg.tla
// evaluates the algebraic postconditions of every event exactly (M inverse(M) = I, det by Laplace expansion,
// det(AB) = det(A) det(B), A solve(A, b) = b for nonsingular A under arbitrary pivot orders, normal equations, quaternion
// algebra).  Nothing here computes an expected value.
//
// Matrices are biased towards the shapes that need care: zero diagonal entries (row exchanges), sparse 0/+-1 entries,
// triangular and permutation-like matrices, duplicated rows (singular), sizes 1..12, several right-hand side columns.
#define C20_ZP_IMPL
#include "c20_zp.h"
#include <asl/Matrix.h>
#include <asl/Matrix3.h>
#include <asl/Matrix4.h>
#include <asl/Quaternion.h>
#include <asl/Complex.h>
#include "vrec.h"
#include <vector>

using namespace asl;
using namespace vrec;

static std::string arr(const std::vector<int>& v)
{
	std::string s = "[";
	char b[16];
	for (size_t i = 0; i < v.size(); i++) { snprintf(b, sizeof b, i ? ",%d" : "%d", v[i]); s += b; }
	return s + "]";
}
template <class M>
static std::vector<int> flat(const M& m, int r, int c)
{
	std::vector<int> v;
	for (int i = 0; i < r; i++)
		for (int j = 0; j < c; j++) v.push_back(m(i, j).v);
	return v;
}
static Matrix_<Zp> dense(const std::vector<int>& a, int r, int c)
{
	Matrix_<Zp> m(r, c);
	for (int i = 0; i < r; i++)
		for (int j = 0; j < c; j++) m(i, j) = Zp::raw(a[(size_t)(i * c + j)]);
	return m;
}

struct Gen
{
	Rng& rng;
	explicit Gen(Rng& r) : rng(r) {}
	int entry(int style)
	{
		switch (style)
		{
		case 0: return rng.below(Zp::P);
		case 1: { int r = rng.below(4); return r == 0 ? 1 : r == 1 ? Zp::P - 1 : 0; }        // sparse 0 / +-1
		case 2: return rng.chance(50) ? 0 : rng.below(Zp::P);
		default: return rng.below(7);                                                         // small numbers, many coincidences
		}
	}
	std::vector<int> matrix(int r, int c)
	{
		std::vector<int> a((size_t)(r * c));
		int style = rng.below(4);
		for (size_t i = 0; i < a.size(); i++) a[i] = entry(style);
		int shape = rng.below(10);
		if (r == c)
		{
			if (shape == 0) for (int i = 0; i < r; i++) a[(size_t)(i * c + i)] = 0;                         // zero diagonal
			else if (shape == 1) for (int i = 0; i < r; i++) for (int j = 0; j < i; j++) a[(size_t)(i * c + j)] = 0; // upper triangular
			else if (shape == 2) for (int i = 0; i < r; i++) for (int j = i + 1; j < c; j++) a[(size_t)(i * c + j)] = 0; // lower triangular
			else if (shape == 3)
			{
				// scaled permutation matrix
				std::vector<int> p((size_t)r);
				for (int i = 0; i < r; i++) p[(size_t)i] = i;
				for (int i = r - 1; i > 0; i--) { int j = rng.below(i + 1); int t = p[(size_t)i]; p[(size_t)i] = p[(size_t)j]; p[(size_t)j] = t; }
				for (size_t i = 0; i < a.size(); i++) a[i] = 0;
				for (int i = 0; i < r; i++) a[(size_t)(i * c + p[(size_t)i])] = 1 + rng.below(Zp::P - 1);
			}
			else if (shape == 4 && r > 1)
			{
				// singular: one row is a copy / multiple of another
				int i = rng.below(r), j = (i + 1 + rng.below(r - 1)) % r, k = 1 + rng.below(5);
				for (int q = 0; q < c; q++) a[(size_t)(i * c + q)] = (int)(((long long)a[(size_t)(j * c + q)] * k) % Zp::P);
			}
			else if (shape == 5 && r > 1) a[0] = 0;                                                        // first pivot must move
		}
		return a;
	}
};

int main(int argc, char** argv)
{
	Args args(argc, argv);
	Rng rng(args.seed);
	Log log(args.out);
	Gen gen(rng);
	Zp::P = 32749;
	bool affineOnly = args.avoid.count("Matrix3GeneralProduct") > 0;
	log.line("{\"e\":\"reset\",\"p\":32749}");
	for (long ev = 1; ev < args.events; ev++)
	{
		int r = rng.below(130);
		Zp::key = 1 + rng.below(Zp::P - 1);
		Zp::divzero = false;
		if (r < 14)
		{
			std::vector<int> a = gen.matrix(3, 3);
			std::vector<Zp> z;
			for (size_t i = 0; i < 9; i++) z.push_back(Zp::raw(a[i]));
			Matrix3_<Zp> m(&z[0]);
			int det = m.det().v;
			std::vector<int> inv = flat(m.inverse(), 3, 3);
			log.line("{\"e\":\"inv3\",\"a\":" + arr(a) + "," + kv("det", det) + ",\"r\":" + arr(inv) + "," + kv("dz", Zp::divzero ? 1 : 0) + "}");
		}
		else if (r < 30)
		{
			std::vector<int> a = gen.matrix(4, 4);
			std::vector<Zp> z;
			for (size_t i = 0; i < 16; i++) z.push_back(Zp::raw(a[i]));
			Matrix4_<Zp> m(&z[0]);
			int det = m.det().v;
			std::vector<int> inv = flat(m.inverse(), 4, 4);
			log.line("{\"e\":\"inv4\",\"a\":" + arr(a) + "," + kv("det", det) + ",\"r\":" + arr(inv) + "," + kv("dz", Zp::divzero ? 1 : 0) + "}");
		}
		else if (r < 40)
		{
			std::vector<int> a = gen.matrix(4, 4), b = gen.matrix(4, 4);
			std::vector<Zp> za, zb;
			for (size_t i = 0; i < 16; i++) { za.push_back(Zp::raw(a[i])); zb.push_back(Zp::raw(b[i])); }
			Matrix4_<Zp> ma(&za[0]), mb(&zb[0]);
			Matrix4_<Zp> p = ma * mb;
			log.line("{\"e\":\"mul4\",\"a\":" + arr(a) + ",\"b\":" + arr(b) + ",\"r\":" + arr(flat(p, 4, 4)) + "," + kv("deta", ma.det().v) + "," +
			         kv("detb", mb.det().v) + "," + kv("detr", p.det().v) + "}");
		}
		else if (r < 46)
		{
			// general 3 x 3 operands; only affine ones (last row 0 0 1) while Matrix3GeneralProduct is an open finding
			std::vector<int> a = gen.matrix(3, 3), b = gen.matrix(3, 3);
			if (affineOnly || rng.chance(30)) { b[6] = b[7] = 0; b[8] = 1; }
			if (rng.chance(30)) { a[6] = a[7] = 0; a[8] = 1; }
			std::vector<Zp> za, zb;
			for (size_t i = 0; i < 9; i++) { za.push_back(Zp::raw(a[i])); zb.push_back(Zp::raw(b[i])); }
			Matrix3_<Zp> ma(&za[0]), mb(&zb[0]);
			Matrix3_<Zp> p = ma * mb;
			log.line("{\"e\":\"mul3\",\"a\":" + arr(a) + ",\"b\":" + arr(b) + ",\"r\":" + arr(flat(p, 3, 3)) + "," + kv("deta", ma.det().v) + "," +
			         kv("detb", mb.det().v) + "," + kv("detr", p.det().v) + "}");
		}
		else if (r < 70)
		{
			int n = rng.chance(25) ? rng.range(9, 12) : rng.range(1, 8), c = rng.chance(70) ? 1 : rng.range(2, 3);
			std::vector<int> a = gen.matrix(n, n), b = gen.matrix(n, c);
			Matrix_<Zp> A = dense(a, n, n), B = dense(b, n, c);
			Matrix_<Zp> X = solve(A, B);
			log.line("{\"e\":\"solve\"," + kv("n", n) + "," + kv("c", c) + "," + kv("key", Zp::key) + ",\"a\":" + arr(a) + ",\"b\":" + arr(b) + ",\"a2\":" +
			         arr(flat(A, n, n)) + ",\"x\":" + arr(flat(X, X.rows(), X.cols())) + "," + kv("xr", X.rows()) + "," + kv("dz", Zp::divzero ? 1 : 0) + "}");
		}
		else if (r < 78)
		{
			int n = rng.range(1, 8);
			std::vector<int> a = gen.matrix(n, n);
			Matrix_<Zp> A = dense(a, n, n);
			Matrix_<Zp> R = A.inverse();
			log.line("{\"e\":\"minv\"," + kv("n", n) + "," + kv("key", Zp::key) + ",\"a\":" + arr(a) + ",\"r\":" + arr(flat(R, R.rows(), R.cols())) + "," +
			         kv("dz", Zp::divzero ? 1 : 0) + "}");
		}
		else if (r < 90)
		{
			int n = rng.range(1, 6), m = n + rng.range(1, 6), c = rng.chance(70) ? 1 : 2;
			std::vector<int> a = gen.matrix(m, n), b = gen.matrix(m, c);
			Matrix_<Zp> A = dense(a, m, n), B = dense(b, m, c);
			Matrix_<Zp> X = solve(A, B);
			log.line("{\"e\":\"lsq\"," + kv("m", m) + "," + kv("n", n) + "," + kv("c", c) + "," + kv("key", Zp::key) + ",\"a\":" + arr(a) + ",\"b\":" + arr(b) +
			         ",\"x\":" + arr(flat(X, X.rows(), X.cols())) + "," + kv("xr", X.rows()) + "," + kv("dz", Zp::divzero ? 1 : 0) + "}");
		}
		else if (r >= 100)
		{
			// growth (spec/LinAlgGeom.tla through Trace_LinAlg): vectors, affine transforms, Complex, general quaternions
			int style = rng.below(3);
			std::vector<int> x((size_t)40);
			for (size_t i = 0; i < x.size(); i++) x[i] = style == 0 ? rng.below(Zp::P) : style == 1 ? rng.below(3) : (rng.chance(40) ? 0 : rng.below(Zp::P));
			if (r < 108)
			{
				Vec3_<Zp> a(Zp::raw(x[0]), Zp::raw(x[1]), Zp::raw(x[2])), b(Zp::raw(x[3]), Zp::raw(x[4]), Zp::raw(x[5])), d(Zp::raw(x[6]), Zp::raw(x[7]), Zp::raw(x[8]));
				Vec4_<Zp> a4(Zp::raw(x[9]), Zp::raw(x[10]), Zp::raw(x[11]), Zp::raw(x[12])), b4 = a4;
				int same = rng.below(5); // the two Vec4 share their first `same` components
				if (same < 1) b4.x = Zp::raw(x[13]);
				if (same < 2) b4.y = Zp::raw(x[14]);
				if (same < 3) b4.z = Zp::raw(x[15]);
				if (same < 4) b4.w = Zp::raw(x[16]);
				Vec3_<Zp> cr = a ^ b, h = a4.h2c();
				Matrix3_<Zp> m(a.x, a.y, a.z, b.x, b.y, b.z, d.x, d.y, d.z);
				char buf[700];
				snprintf(buf, sizeof buf, "{\"e\":\"vec\",\"a\":[%d,%d,%d],\"b\":[%d,%d,%d],\"c\":[%d,%d,%d],\"cross\":[%d,%d,%d],\"dot\":%d,\"triple\":%d,\"det\":%d,"
				         "\"a4\":[%d,%d,%d,%d],\"b4\":[%d,%d,%d,%d],\"cmp4\":%d,\"eq4\":%d,\"h2c\":[%d,%d,%d],\"dz\":%d}",
				         a.x.v, a.y.v, a.z.v, b.x.v, b.y.v, b.z.v, d.x.v, d.y.v, d.z.v, cr.x.v, cr.y.v, cr.z.v, (a * b).v, (a * (b ^ d)).v, m.det().v,
				         a4.x.v, a4.y.v, a4.z.v, a4.w.v, b4.x.v, b4.y.v, b4.z.v, b4.w.v, compare(a4, b4), a4 == b4 ? 1 : 0, h.x.v, h.y.v, h.z.v, Zp::divzero ? 1 : 0);
				log.line(buf);
			}
			else if (r < 118)
			{
				std::vector<int> l(x.begin(), x.begin() + 9), t(x.begin() + 9, x.begin() + 12), l2(x.begin() + 12, x.begin() + 21), t2(x.begin() + 21, x.begin() + 24),
				                 p(x.begin() + 24, x.begin() + 27);
				if (rng.chance(15)) for (int j = 0; j < 3; j++) l[(size_t)(6 + j)] = l[(size_t)j]; // singular linear part
				Matrix4_<Zp> G(Zp::raw(l[0]), Zp::raw(l[1]), Zp::raw(l[2]), Zp::raw(t[0]), Zp::raw(l[3]), Zp::raw(l[4]), Zp::raw(l[5]), Zp::raw(t[1]), Zp::raw(l[6]), Zp::raw(l[7]),
				               Zp::raw(l[8]), Zp::raw(t[2]));
				Matrix4_<Zp> G2(Zp::raw(l2[0]), Zp::raw(l2[1]), Zp::raw(l2[2]), Zp::raw(t2[0]), Zp::raw(l2[3]), Zp::raw(l2[4]), Zp::raw(l2[5]), Zp::raw(t2[1]), Zp::raw(l2[6]),
				                Zp::raw(l2[7]), Zp::raw(l2[8]), Zp::raw(t2[2]));
				Vec3_<Zp> pv(Zp::raw(p[0]), Zp::raw(p[1]), Zp::raw(p[2]));
				Vec3_<Zp> gp = G * pv, gd = G % pv, comp = G * (G2 * pv), viaProd = (G * G2) * pv;
				int det = G.det().v;
				Zp::divzero = false;
				Matrix4_<Zp> inv = G.inverse();
				Vec3_<Zp> back = inv * gp;
				char buf[300];
				snprintf(buf, sizeof buf, ",\"gp\":[%d,%d,%d],\"gd\":[%d,%d,%d],\"comp\":[%d,%d,%d],\"viaprod\":[%d,%d,%d],\"back\":[%d,%d,%d],\"det\":%d,\"dz\":%d}", gp.x.v, gp.y.v,
				         gp.z.v, gd.x.v, gd.y.v, gd.z.v, comp.x.v, comp.y.v, comp.z.v, viaProd.x.v, viaProd.y.v, viaProd.z.v, back.x.v, back.y.v, back.z.v, det, Zp::divzero ? 1 : 0);
				log.line("{\"e\":\"aff\",\"l\":" + arr(l) + ",\"t\":" + arr(t) + ",\"l2\":" + arr(l2) + ",\"t2\":" + arr(t2) + ",\"p\":" + arr(p) + ",\"g\":" + arr(flat(G, 4, 4)) +
				         ",\"prod\":" + arr(flat(G * G2, 4, 4)) + ",\"inv\":" + arr(flat(inv, 4, 4)) + buf);
			}
			else if (r < 124)
			{
				Complex<Zp> z(Zp::raw(x[0]), Zp::raw(x[1])), y(Zp::raw(x[2]), Zp::raw(x[3]));
				Complex<Zp> prd = z * y, sum = z + y, cj = ~z;
				int mag2 = z.magnitude2().v;
				Zp::divzero = false;
				Complex<Zp> quo = z / y;
				char buf[400];
				snprintf(buf, sizeof buf, "{\"e\":\"cplx\",\"z\":[%d,%d],\"y\":[%d,%d],\"sum\":[%d,%d],\"prd\":[%d,%d],\"conj\":[%d,%d],\"mag2\":%d,\"quo\":[%d,%d],\"dz\":%d}", z.r.v, z.i.v,
				         y.r.v, y.i.v, sum.r.v, sum.i.v, prd.r.v, prd.i.v, cj.r.v, cj.i.v, mag2, quo.r.v, quo.i.v, Zp::divzero ? 1 : 0);
				log.line(buf);
			}
			else
			{
				Quaternion_<Zp> q1(Zp::raw(x[0]), Zp::raw(x[1]), Zp::raw(x[2]), Zp::raw(x[3])), q2(Zp::raw(x[4]), Zp::raw(x[5]), Zp::raw(x[6]), Zp::raw(x[7])),
				    q3(Zp::raw(x[8]), Zp::raw(x[9]), Zp::raw(x[10]), Zp::raw(x[11]));
				Quaternion_<Zp> p12 = q1 ^ q2, lft = (q1 ^ q2) ^ q3, rgt = q1 ^ (q2 ^ q3), cj = q1.conj();
				int n1 = q1.length2().v;
				Zp::divzero = false;
				Quaternion_<Zp> inv = q1.inverse();
				char buf[600];
				snprintf(buf, sizeof buf, "{\"e\":\"qalg\",\"q1\":[%d,%d,%d,%d],\"q2\":[%d,%d,%d,%d],\"q3\":[%d,%d,%d,%d],\"p12\":[%d,%d,%d,%d],\"lft\":[%d,%d,%d,%d],\"rgt\":[%d,%d,%d,%d],"
				         "\"conj\":[%d,%d,%d,%d],\"n1\":%d,\"inv\":[%d,%d,%d,%d],\"dz\":%d}",
				         q1.w.v, q1.x.v, q1.y.v, q1.z.v, q2.w.v, q2.x.v, q2.y.v, q2.z.v, q3.w.v, q3.x.v, q3.y.v, q3.z.v, p12.w.v, p12.x.v, p12.y.v, p12.z.v, lft.w.v, lft.x.v, lft.y.v,
				         lft.z.v, rgt.w.v, rgt.x.v, rgt.y.v, rgt.z.v, cj.w.v, cj.x.v, cj.y.v, cj.z.v, n1, inv.w.v, inv.x.v, inv.y.v, inv.z.v, Zp::divzero ? 1 : 0);
				log.line(buf);
			}
		}
		else
		{
			// quaternion algebra: u arbitrary non-zero, q = u^2 / |u|^2 has norm one
			Quaternion_<Zp> u(Zp::raw(rng.below(Zp::P)), Zp::raw(rng.below(Zp::P)), Zp::raw(rng.below(Zp::P)), Zp::raw(1 + rng.below(Zp::P - 1)));
			Quaternion_<Zp> v(Zp::raw(rng.below(Zp::P)), Zp::raw(rng.below(Zp::P)), Zp::raw(1 + rng.below(Zp::P - 1)), Zp::raw(rng.below(Zp::P)));
			if (u.length2().v == 0 || v.length2().v == 0) continue; // isotropic: cannot be normalised
			Quaternion_<Zp> q = (u ^ u) / u.length2(), p = (v ^ v) / v.length2();
			Quaternion_<Zp> pq = p ^ q, qi = q.inverse();
			Matrix4_<Zp> mq = q.matrix(), mp = p.matrix(), mpq = pq.matrix();
			Vec3_<Zp> w(Zp::raw(rng.below(Zp::P)), Zp::raw(rng.below(Zp::P)), Zp::raw(rng.below(Zp::P)));
			Vec3_<Zp> rw = q * w;
			char b[400];
			snprintf(b, sizeof b, "{\"e\":\"quat\",\"u\":[%d,%d,%d,%d],\"q\":[%d,%d,%d,%d],\"p\":[%d,%d,%d,%d],\"pq\":[%d,%d,%d,%d],\"qi\":[%d,%d,%d,%d],\"w\":[%d,%d,%d],\"qw\":[%d,%d,%d],",
			         u.w.v, u.x.v, u.y.v, u.z.v, q.w.v, q.x.v, q.y.v, q.z.v, p.w.v, p.x.v, p.y.v, p.z.v, pq.w.v, pq.x.v, pq.y.v, pq.z.v, qi.w.v, qi.x.v, qi.y.v, qi.z.v,
			         w.x.v, w.y.v, w.z.v, rw.x.v, rw.y.v, rw.z.v);
			log.line(std::string(b) + "\"mq\":" + arr(flat(mq, 4, 4)) + ",\"mp\":" + arr(flat(mp, 4, 4)) + ",\"mpq\":" + arr(flat(mpq, 4, 4)) + "," + kv("dz", Zp::divzero ? 1 : 0) + "}");
		}
	}
	return 0;
}
