// Shared by the C16 replayer and recorder: typed dispatch over the scalar types of spec/EndianStream.tla and the three
// stream classes (StreamBuffer+StreamBufferReader, File, Socket over socketpair(AF_UNIX)).
// Values travel between the specification and the harness as bit patterns: sizeof(T) bytes, most significant first.
#ifndef C16_COMMON_H
#define C16_COMMON_H
#include <asl/StreamBuffer.h>
#include <asl/File.h>
#include <asl/Socket.h>
#include <asl/Array.h>
#include <asl/String.h>
#include "vjson.h"
#include <string>
#include <vector>
#include <cstring>
#include <cstdio>
#include <cstdlib>
#include <unistd.h>
#include <fcntl.h>
#include <dirent.h>
#include <sys/socket.h>
#include <sys/ioctl.h>
#include <sys/stat.h>
using namespace asl;

namespace c16 {

inline bool hostLittle()
{
	unsigned x = 1;
	return *(unsigned char*)&x == 1;
}

inline Endian endianOf(const std::string& o)
{
	return o == "BIG" ? ENDIAN_BIG : o == "LITTLE" ? ENDIAN_LITTLE : ENDIAN_NATIVE;
}

// bit pattern (most significant byte first) -> object of type T in host memory order, and back (memcpy only)
template <class T>
inline T fromMsb(const std::string& b)
{
	unsigned char m[sizeof(T)];
	for (size_t i = 0; i < sizeof(T); i++)
		m[i] = (unsigned char)(hostLittle() ? b[sizeof(T) - 1 - i] : b[i]);
	T x;
	memcpy(&x, m, sizeof(T));
	return x;
}
template <>
inline bool fromMsb<bool>(const std::string& b) { return b[0] != 0; }

template <class T>
inline std::string toMsb(const T& x)
{
	unsigned char m[sizeof(T)];
	memcpy(m, &x, sizeof(T));
	std::string r(sizeof(T), '\0');
	for (size_t i = 0; i < sizeof(T); i++)
		r[i] = (char)(hostLittle() ? m[sizeof(T) - 1 - i] : m[i]);
	return r;
}

template <>
inline std::string toMsb<bool>(const bool& x)
{
	unsigned char m;
	memcpy(&m, &x, 1); // the stored byte, not the converted value: a reader must produce exactly 0 or 1
	return std::string(1, (char)m);
}

// private scratch directory below /verif/build/tmp (created by the parent process, inherited by forked children)
struct TmpDir
{
	std::string path;
	TmpDir()
	{
		// below the check's own scratch directory when it says so (removed by the check even if this process dies)
		const char* base = getenv("VERIF_TMP");
		std::string t = std::string(base && *base ? base : "/verif/build/tmp") + "/c16-XXXXXX";
		mkdir("/verif/build/tmp", 0755);
		std::vector<char> b(t.begin(), t.end());
		b.push_back(0);
		if (!mkdtemp(&b[0])) { perror("mkdtemp"); exit(2); }
		path = &b[0];
	}
	~TmpDir()
	{
		DIR* d = opendir(path.c_str());
		if (d)
		{
			while (dirent* e = readdir(d))
				if (e->d_name[0] != '.') unlink((path + "/" + e->d_name).c_str());
			closedir(d);
		}
		rmdir(path.c_str());
	}
	std::string file(const char* stem) const
	{
		static unsigned long n = 0;
		char b[96];
		snprintf(b, sizeof b, "/%s-%d-%lu.bin", stem, (int)getpid(), n++);
		return path + b;
	}
};

inline std::string posixRead(const std::string& path)
{
	std::string r;
	int fd = open(path.c_str(), O_RDONLY);
	if (fd < 0) return r;
	char buf[65536];
	ssize_t n;
	while ((n = read(fd, buf, sizeof buf)) > 0) r.append(buf, (size_t)n);
	close(fd);
	return r;
}

// ---- the three stream classes behind one interface (templates, no virtuals: the operators are templates) ------------
struct BufferStream
{
	StreamBuffer w;
	StreamBufferReader* r;
	ByteArray data;
	unsigned calls;
	explicit BufferStream(const TmpDir&) : w(ENDIAN_NATIVE), r(0), calls(0) {}
	~BufferStream() { delete r; }
	static const char* name() { return "StreamBuffer"; }
	bool ok() const { return true; }
	void wset(Endian e) { w.setEndian(e); }
	template <class T> void put(const T& x) { w << x; }
	void putRaw(const char* p) { w << p; }
	std::string written() { return std::string((const char*)w.data(), (size_t)w.length()); } // everything written so far
	void startReading()
	{
		data = (*w).clone();
		r = new StreamBufferReader(data, ENDIAN_NATIVE);
	}
	void rset(Endian e) { r->setEndian(e); }
	template <class T> void get(T& x) { if (++calls & 1) *r >> x; else x = r->read<T>(); }
	std::string getRaw(int n, int)
	{
		ByteArray a = r->read(n);
		return std::string((const char*)a.data(), (size_t)a.length());
	}
	int unread() { return r->length(); }
};

struct FileStream
{
	std::string path;
	File w, r;
	unsigned calls;
	explicit FileStream(const TmpDir& d) : path(d.file("f")), calls(0) { w.open(path.c_str(), File::WRITE); }
	~FileStream()
	{
		w.close();
		r.close();
		unlink(path.c_str());
	}
	static const char* name() { return "File"; }
	bool ok() const { return !!w; }
	void wset(Endian e) { w.setEndian(e); }
	template <class T> void put(const T& x) { w << x; }
	void putRaw(const char* p) { w << p; }
	std::string written()
	{
		w.flush();
		return posixRead(path);
	}
	void startReading()
	{
		w.close();
		r.open(path.c_str(), File::READ);
	}
	void rset(Endian e) { r.setEndian(e); }
	template <class T> void get(T& x) { if (++calls & 1) r >> x; else x = r.read<T>(); }
	std::string getRaw(int n, int)
	{
		std::string s((size_t)n, '\0');
		int m = n > 0 ? r.read(&s[0], n) : 0;
		s.resize((size_t)(m < 0 ? 0 : m));
		return s;
	}
	int unread() { return (int)(File(path.c_str()).size() - r.position()); }
};

struct SocketStream
{
	int fds[2];
	Socket* w;
	Socket* r;
	std::string all; // every byte seen on the wire so far
	size_t consumed;
	unsigned calls;
	explicit SocketStream(const TmpDir&) : w(0), r(0), consumed(0), calls(0)
	{
		fds[0] = fds[1] = -1;
		if (socketpair(AF_UNIX, SOCK_STREAM, 0, fds) != 0) return;
		int sz = 1 << 20;
		setsockopt(fds[0], SOL_SOCKET, SO_SNDBUF, &sz, sizeof sz);
		setsockopt(fds[1], SOL_SOCKET, SO_RCVBUF, &sz, sizeof sz);
		w = new Socket(fds[0]);
		r = new Socket(fds[1]);
	}
	~SocketStream()
	{
		delete w; // closes the descriptors (Socket_::~Socket_)
		delete r;
	}
	static const char* name() { return "Socket"; }
	bool ok() const { return w != 0; }
	void wset(Endian e) { w->setEndian(e); }
	template <class T> void put(const T& x) { *w << x; }
	void putRaw(const char* p) { *w << p; }
	// bytes on the wire, observed with plain POSIX calls on the receiving descriptor without consuming them
	std::string written()
	{
		int avail = 0;
		ioctl(fds[1], FIONREAD, &avail);
		std::string pending((size_t)avail, '\0');
		ssize_t n = avail > 0 ? recv(fds[1], &pending[0], (size_t)avail, MSG_PEEK) : 0;
		pending.resize((size_t)(n < 0 ? 0 : n));
		all.resize(consumed);
		all += pending;
		return all;
	}
	void startReading() {}
	void rset(Endian e) { r->setEndian(e); }
	template <class T> void get(T& x)
	{
		if (++calls & 1) *r >> x;
		else x = r->read<T>();
		consumed += sizeof(T);
	}
	std::string getRaw(int n, int variant)
	{
		consumed += (size_t)n;
		if (variant & 1)
		{
			ByteArray a = r->read(n);
			return std::string((const char*)a.data(), (size_t)a.length());
		}
		std::string s((size_t)n, '\0');
		int m = n > 0 ? r->read(&s[0], n) : 0;
		s.resize((size_t)(m < 0 ? 0 : m));
		return s;
	}
	int unread()
	{
		int avail = 0;
		ioctl(fds[1], FIONREAD, &avail);
		return avail;
	}
};

// ---- typed dispatch ------------------------------------------------------------------------------------------------
#define C16_TYPES(X) \
	X("u8", byte) X("i8", signed char) X("ch", char) X("bool", bool) X("i16", short) X("u16", unsigned short) \
	X("i32", int) X("u32", unsigned) X("f32", float) X("i64", Long) X("u64", ULong) X("f64", double)

inline int sizeOfType(const std::string& t)
{
#define X(N, T) if (t == N) return (int)sizeof(T);
	C16_TYPES(X)
#undef X
	return -1;
}

template <class S>
inline bool putScalar(S& s, const std::string& t, const std::string& msb)
{
#define X(N, T) if (t == N) { s.put(fromMsb<T>(msb)); return true; }
	C16_TYPES(X)
#undef X
	return false;
}

template <class S, class T>
inline void putArrayOf(S& s, const std::vector<std::string>& elems)
{
	Array<T> a;
	for (size_t i = 0; i < elems.size(); i++) a << fromMsb<T>(elems[i]);
	s.put(a);
}

template <class S>
inline bool putArray(S& s, const std::string& t, const std::vector<std::string>& elems)
{
#define X(N, T) if (t == N) { putArrayOf<S, T>(s, elems); return true; }
	C16_TYPES(X)
#undef X
	return false;
}

// ---- the caller's long-lived value objects (the `pool` of spec/EndianStream.tla) ---------------------------------------
// One real object per pool entry, kept for the whole history and written again and again: a scalar variable, an
// Array<T> together with a second handle sharing its buffer (Array copies are shallow and reference-counted), or a
// String together with a plain character buffer.  elems(h) projects the object's present value (seen through handle
// h) to bit patterns; the harnesses compare that with the specification's pool, they never compute what it should be.
struct Obj
{
	std::string kind, type;
	Obj(const std::string& k, const std::string& t) : kind(k), type(t) {}
	virtual ~Obj() {}
	virtual size_t size() const = 0;
	virtual void set(size_t j, const std::string& msb) = 0;          // the caller assigns to element j (0-based)
	virtual std::vector<std::string> elems(int handle) const = 0;    // handle 0: the object, 1: the sharing handle / raw buffer
};

template <class T>
struct ScalarObj : Obj
{
	T x;
	ScalarObj(const std::string& t, const std::vector<std::string>& el) : Obj("w", t), x(fromMsb<T>(el[0])) {}
	size_t size() const { return 1; }
	void set(size_t, const std::string& msb) { x = fromMsb<T>(msb); }
	std::vector<std::string> elems(int) const { return std::vector<std::string>(1, toMsb(x)); }
};

template <class T>
struct ArrayObj : Obj
{
	Array<T> a;      // the caller's array
	Array<T> share;  // another handle on the same buffer (what `Array<T> b = a;` gives)
	ArrayObj(const std::string& t, const std::vector<std::string>& el) : Obj("wa", t)
	{
		for (size_t i = 0; i < el.size(); i++) a << fromMsb<T>(el[i]);
		share = a;
	}
	size_t size() const { return (size_t)a.length(); }
	void set(size_t j, const std::string& msb)
	{
		a[(int)j] = fromMsb<T>(msb);
		share = a;
	}
	std::vector<std::string> elems(int handle) const
	{
		const Array<T>& h = handle ? share : a;
		std::vector<std::string> r;
		for (int i = 0; i < h.length(); i++) r.push_back(toMsb(h[i]));
		return r;
	}
};

struct StringObj : Obj
{
	String s;
	std::vector<char> raw; // the same characters, NUL-terminated, for operator<<(const char*)
	explicit StringObj(const std::vector<std::string>& el) : Obj("ws", "ch")
	{
		std::string b;
		for (size_t i = 0; i < el.size(); i++) b += el[i];
		s = String(b.c_str(), (int)b.size());
		raw.assign(b.begin(), b.end());
		raw.push_back(0);
	}
	size_t size() const { return (size_t)s.length(); }
	void set(size_t j, const std::string& msb)
	{
		s[(int)j] = msb[0];
		raw[j] = msb[0];
	}
	std::vector<std::string> elems(int handle) const
	{
		std::vector<std::string> r;
		if (handle) for (size_t i = 0; i + 1 < raw.size(); i++) r.push_back(std::string(1, raw[i]));
		else for (int i = 0; i < s.length(); i++) r.push_back(std::string(1, s[i]));
		return r;
	}
};

inline Obj* newObj(const std::string& k, const std::string& t, const std::vector<std::string>& el)
{
	if (k == "ws") return new StringObj(el);
#define X(N, T) if (t == N) return k == "w" ? (el.size() == 1 ? (Obj*)new ScalarObj<T>(t, el) : 0) : k == "wa" ? (Obj*)new ArrayObj<T>(t, el) : 0;
	C16_TYPES(X)
#undef X
	return 0;
}

// stream << object; `variant` picks the handle the value is passed through (the object itself / the sharing handle,
// String / const char*)
template <class S>
inline bool putObj(S& s, Obj* o, int variant)
{
	if (o->kind == "ws")
	{
		StringObj* so = static_cast<StringObj*>(o);
		if (variant & 1) s.putRaw(&so->raw[0]);
		else s.put(so->s);
		return true;
	}
#define X(N, T) if (o->type == N) { \
		if (o->kind == "w") s.put(static_cast<ScalarObj<T>*>(o)->x); \
		else if (variant & 1) s.put(static_cast<ArrayObj<T>*>(o)->share); \
		else s.put(static_cast<ArrayObj<T>*>(o)->a); \
		return true; }
	C16_TYPES(X)
#undef X
	return false;
}

struct Pool
{
	std::vector<Obj*> objs;
	~Pool() { for (size_t i = 0; i < objs.size(); i++) delete objs[i]; }
	Obj* at(long i) { return i >= 1 && (size_t)i <= objs.size() ? objs[(size_t)i - 1] : 0; } // 1-based, as in the specification
};

// reads one scalar of type t and returns its bit pattern (msb first)
template <class S>
inline bool getScalar(S& s, const std::string& t, std::string& msb)
{
#define X(N, T) if (t == N) { T x; memset(&x, 0x5c, sizeof x); s.get(x); msb = toMsb(x); return true; }
	C16_TYPES(X)
#undef X
	return false;
}

}
#endif
