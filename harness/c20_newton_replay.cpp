// C20 replayer (R) for spec/LinAlgNewton.tla: runs asl::solveZero (vector form: Newton / Gauss-Newton with a numerical
// Jacobian on top of solve_; scalar form: secant) on the polynomial systems TLC generated and compares the returned
// point with the root set and the thresholds published in the case:
//   {"k":"newton"|"secant","fam":..,"n":N,"eqs":[[[coef,e1,e2,e3],..],..],"roots":[[num_1..num_N,den],..],"ri":i,
//    "x0":[num_1..num_N,den],"mi":maxiter,"me":-log10(maxerr),"ty":"d"|"f","kx":KX,"kf":KF,"dl":0|1,"calls":budget}
// Required: distance to the nearest stated root <= KX * maxerr, that root is roots[ri], |f(x)| <= KF * maxerr, f was
// evaluated at most `calls` times, the result has N rows and one column.  The harness only evaluates the published
// polynomials (the functor handed to the library, and the residual of the returned point) and divides numerators by
// denominators; roots and thresholds come from the specification.
#include <asl/Matrix.h>
#include "vrun.h"
#include <cmath>
#include <stdarg.h>

using namespace asl;
using vrun::Outcome;

static std::string fm(const char* f, ...)
{
	char b[900];
	va_list ap;
	va_start(ap, f);
	vsnprintf(b, sizeof b, f, ap);
	va_end(ap);
	return b;
}

struct Mono { double c; int e[3]; };
typedef std::vector<Mono> Eq;

template <class T>
static T ipow(T x, int e) { T r = 1; for (int i = 0; i < e; i++) r *= x; return r; }

template <class T>
static T evalEq(const Eq& eq, const T* x, int n)
{
	T s = 0;
	for (size_t k = 0; k < eq.size(); k++)
	{
		T t = (T)eq[k].c;
		for (int j = 0; j < n; j++) t *= ipow(x[j], eq[k].e[j]);
		s += t;
	}
	return s;
}

template <class T>
struct Fun
{
	const std::vector<Eq>* eqs;
	int n;
	int* calls;
	Matrix_<T> operator()(const Matrix_<T>& x) const
	{
		++*calls;
		Matrix_<T> y((int)eqs->size(), 1);
		T v[3] = {0, 0, 0};
		for (int j = 0; j < n; j++) v[j] = x[j];
		for (size_t i = 0; i < eqs->size(); i++) y[(int)i] = evalEq<T>((*eqs)[i], v, n);
		return y;
	}
};

template <class T>
struct Fun1
{
	const Eq* eq;
	int* calls;
	T operator()(T x) const { ++*calls; return evalEq<T>(*eq, &x, 1); }
};

static std::vector<Eq> readEqs(const vj::Value& c)
{
	std::vector<Eq> eqs;
	for (size_t i = 0; i < c["eqs"].size(); i++)
	{
		Eq eq;
		const vj::Value& e = c["eqs"][i];
		for (size_t k = 0; k < e.size(); k++)
		{
			Mono m;
			m.c = (double)e[k][0].ll();
			for (int j = 0; j < 3; j++) m.e[j] = e[k][j + 1].i();
			eq.push_back(m);
		}
		eqs.push_back(eq);
	}
	return eqs;
}

static std::string showX(const double* x, int n)
{
	std::string s = "(";
	for (int j = 0; j < n; j++) s += fm(j ? ", %.12g" : "%.12g", x[j]);
	return s + ")";
}

// judge the returned point x (converted to double) against the case
static Outcome judge(const vj::Value& c, const std::vector<Eq>& eqs, const double* x, int n, int calls, const char* what)
{
	double maxerr = pow(10.0, -(double)c["me"].i());
	double tolx = c["kx"].i() * maxerr, tolf = c["kf"].i() * maxerr;
	for (int j = 0; j < n; j++)
		if (x[j] != x[j]) return Outcome::fail(fm("%s returned a NaN: %s", what, showX(x, n).c_str()));
	// nearest stated root
	const vj::Value& roots = c["roots"];
	int best = -1;
	double bd = 1e300;
	for (size_t i = 0; i < roots.size(); i++)
	{
		double den = (double)roots[i][n].ll(), d2 = 0;
		for (int j = 0; j < n; j++) { double d = x[j] - (double)roots[i][j].ll() / den; d2 += d * d; }
		if (d2 < bd) { bd = d2; best = (int)i + 1; }
	}
	bd = sqrt(bd);
	double r2 = 0;
	for (size_t i = 0; i < eqs.size(); i++) { double v = evalEq<double>(eqs[i], x, n); r2 += v * v; }
	double res = sqrt(r2);
	double st[3] = {0, 0, 0};
	for (int j = 0; j < n; j++) st[j] = (double)c["x0"][j].ll() / (double)c["x0"][n].ll();
	std::string head = fm("%s [%s, maxiter %d, maxerr 1e-%d, start %s] returned %s", what, c["fam"].s().c_str(), c["mi"].i(), c["me"].i(),
	                      showX(st, n).c_str(), showX(x, n).c_str());
	if (bd > tolx) return Outcome::fail(fm("%s: distance to the nearest root (#%d) is %.3g > %.3g", head.c_str(), best, bd, tolx));
	if (best != c["ri"].i() && !(c["fam"].s() == "lin" || c["fam"].s() == "linover"))
		return Outcome::fail(fm("%s: that is root #%d, the start was placed at root #%d", head.c_str(), best, c["ri"].i()));
	if (res > tolf) return Outcome::fail(fm("%s: residual |f(x)| = %.3g > %.3g", head.c_str(), res, tolf));
	if (calls > c["calls"].i()) return Outcome::fail(fm("%s: f was evaluated %d times, budget %d", head.c_str(), calls, c["calls"].i()));
	return Outcome();
}

template <class T>
static Outcome newtonT(const vj::Value& c, const std::vector<Eq>& eqs, const char* tn)
{
	int n = c["n"].i();
	double den = (double)c["x0"][n].ll();
	Matrix_<T> x0(n, 1);
	for (int j = 0; j < n; j++) x0[j] = (T)((double)c["x0"][j].ll() / den);
	Matrix_<T> keep = x0.clone();
	SolveParams p(c["mi"].i(), pow(10.0, -(double)c["me"].i()));
	int calls = 0;
	Fun<T> f = {&eqs, n, &calls};
	Matrix_<T> x = solveZero(f, x0, p);
	if (x.rows() != n || x.cols() != 1) return Outcome::fail(fm("%s solveZero: result is %d x %d, expected %d x 1", tn, x.rows(), x.cols(), n));
	if (!(x0 == keep)) return Outcome::fail(fm("%s solveZero modified its start argument", tn));
	double xd[3] = {0, 0, 0};
	for (int j = 0; j < n; j++) xd[j] = (double)x[j];
	Outcome o = judge(c, eqs, xd, n, calls, fm("%s solveZero(f, x0, SolveParams)", tn).c_str());
	if (!o.ok) return o;
	if (n == 2)
	{
		// the initializer-list overload
		calls = 0;
		Matrix_<T> y = solveZero(f, {x0[0], x0[1]}, p);
		if (y.rows() != 2 || y.cols() != 1) return Outcome::fail(fm("%s solveZero(f, {..}): result is %d x %d", tn, y.rows(), y.cols()));
		double yd[3] = {(double)y[0], (double)y[1], 0};
		o = judge(c, eqs, yd, n, calls, fm("%s solveZero(f, {x, y}, SolveParams)", tn).c_str());
	}
	return o;
}

static Outcome secant(const vj::Value& c, const std::vector<Eq>& eqs)
{
	double x0 = (double)c["x0"][0].ll() / (double)c["x0"][1].ll();
	SolveParams p(c["mi"].i(), pow(10.0, -(double)c["me"].i()), c["dl"].i() == 1 ? 1.0 / 1024 : 0.0);
	int calls = 0;
	Fun1<double> f = {&eqs[0], &calls};
	double x = solveZero(f, x0, p);
	return judge(c, eqs, &x, 1, calls, "double solveZero(f, x0, SolveParams) [scalar]");
}

static Outcome run(const vj::Value& c)
{
	const std::string& k = c["k"].s();
	std::vector<Eq> eqs = readEqs(c);
	if (k == "newton") return c["ty"].s() == "f" ? newtonT<float>(c, eqs, "float") : newtonT<double>(c, eqs, "double");
	if (k == "secant") return secant(c, eqs);
	return Outcome::fail("harness: unknown case kind " + k);
}

int main(int argc, char** argv)
{
	return vrun::run(argc, argv, run);
}
