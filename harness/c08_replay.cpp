// C08 replayer (R): runs the real UTF conversions, count(), chars(), code-point iteration and the case functions on
// the tables TLC printed from spec/MC_UtfScalars.tla (every scalar value, boundary sequences) and
// spec/MC_UtfBytes.tla (every byte string over the boundary alphabet), and compares with the specification's values.
//   {"k":"blk","e":[[c,[utf8],[utf16]] | [c,[utf8],[utf16],upper,lower] ...]}      one block of scalar values
//   {"k":"seq","cs":[..],"e8":[..],"e16":[..],"pl8":[..],"pl16":[..]}                a sequence and its prefixes
//   {"k":"bytes","z":[..],"wf":b,"cs":[..],"w":[..],"ascii":b,"up":[..],"lo":[..],"p":[..]}   arbitrary bytes
#include "c08_common.h"
#include "vrun.h"
#include <clocale>
#include <set>
#include <asl/JSON.h>
#include <asl/Xml.h>

using vrun::Outcome;

static std::string show(const std::string& s) { return vj::codes(s); }
static std::string show(const std::vector<int>& v) { return vj::intlist(v.begin(), v.end()); }

// Deviations.  UtfLax.tla / UtfCase.tla / UtfCaseData.tla also say what the *present* library returns where the property
// demands no particular value (ill-formed input; which letters have a case partner).  A difference there is not a
// violation: it is appended to the file named by C08_DEVLOG (one line per case and kind) and counted by checks/C08.py.
static std::set<std::string> g_caseDeviations; // kinds already noted for the current case (cleared by runCase)
static void deviation(const char* kind, const std::string& what)
{
	if (!g_caseDeviations.insert(kind).second) return;
	const char* path = getenv("C08_DEVLOG");
	if (!path || !*path) return;
	FILE* f = fopen(path, "a");
	if (!f) return;
	std::string line = std::string(kind) + "\t" + what.substr(0, 300) + "\n";
	fwrite(line.data(), 1, line.size(), f);
	fclose(f);
}
#define DEVIATE(kind, cond, ...) do { if (!(cond)) { char _b[600]; snprintf(_b, sizeof _b, __VA_ARGS__); deviation(kind, _b); return ""; } } while (0)

#define CHECK(cond, ...) do { if (!(cond)) { char _b[600]; snprintf(_b, sizeof _b, __VA_ARGS__); return std::string(_b); } } while (0)

// valid text: everything is determined.  Returns "" or the first disagreement.
static std::string checkValid(const std::vector<int>& cs, const std::string& e8, const std::vector<int>& e16, int placement)
{
	Obs o = observe(e8, placement);
	CHECK(o.err.empty(), "%s", o.err.c_str());
	CHECK(o.c32 == cs, "utf8toUtf32(%s) = %s, specification: %s", show(e8).c_str(), show(o.c32).c_str(), show(cs).c_str());
	CHECK(o.cs == cs, "chars() of %s = %s, specification: %s", show(e8).c_str(), show(o.cs).c_str(), show(cs).c_str());
	CHECK(o.it == cs, "iteration over %s gives %s, specification: %s", show(e8).c_str(), show(o.it).c_str(), show(cs).c_str());
	CHECK(o.n == (long)cs.size(), "count() of %s = %ld, specification: %d", show(e8).c_str(), o.n, (int)cs.size());
	CHECK(o.w == e16, "utf8toUtf16(%s) = %s, specification: %s", show(e8).c_str(), show(o.w).c_str(), show(e16).c_str());
	CHECK(o.b8 == e8, "utf16toUtf8(utf8toUtf16(%s)) = %s", show(e8).c_str(), show(o.b8).c_str());
	CHECK(o.dw == e16, "dataw() of %s = %s, specification: %s", show(e8).c_str(), show(o.dw).c_str(), show(e16).c_str());
	CHECK(o.wlen == (int)e16.size(), "wlength() of %s = %d, specification: %d", show(e8).c_str(), o.wlen, (int)e16.size());
	CHECK(o.up.size() <= e8.size(), "toUpperCase() of %s has %d bytes", show(e8).c_str(), (int)o.up.size());
	CHECK(o.lo.size() <= e8.size(), "toLowerCase() of %s has %d bytes", show(e8).c_str(), (int)o.lo.size());
	return "";
}

static std::string checkEncoders(const std::vector<int>& cs, const std::string& e8, const std::vector<int>& e16)
{
	std::string err;
	std::string a = encode32(cs, err);
	CHECK(err.empty(), "%s (code points %s)", err.c_str(), show(cs).c_str());
	CHECK(a == e8, "utf32toUtf8(%s) = %s, specification: %s", show(cs).c_str(), show(a).c_str(), show(e8).c_str());
	std::string b = fromWide(e16);
	CHECK(b == e8, "String(wchar_t* %s) = %s, specification: %s", show(e16).c_str(), show(b).c_str(), show(e8).c_str());
	// exact-size output buffers: one byte more than the specification's encoding would be an overflow
	{
		Flush<int> in(cs.size() + 1);
		for (size_t i = 0; i < cs.size(); i++) in.p[i] = cs[i];
		in.p[cs.size()] = 0;
		Flush<char> out(e8.size() + 1);
		int r = utf32toUtf8(in.p, out.p, (int)cs.size());
		CHECK(r == (int)e8.size() && memcmp(out.p, e8.data(), e8.size()) == 0 && out.p[r] == 0, "utf32toUtf8 into an exact buffer: returned %d", r);
	}
	{
		Flush<wchar_t> in(e16.size() + 1);
		for (size_t i = 0; i < e16.size(); i++) in.p[i] = (wchar_t)e16[i];
		in.p[e16.size()] = 0;
		Flush<char> out(e8.size() + 1);
		int r = utf16toUtf8(in.p, out.p, (int)e16.size());
		CHECK(r == (int)e8.size() && memcmp(out.p, e8.data(), e8.size()) == 0 && out.p[r] == 0, "utf16toUtf8 into an exact buffer: returned %d", r);
	}
	{
		Flush<char> in(e8.size() + 1);
		memcpy(in.p, e8.data(), e8.size());
		in.p[e8.size()] = 0;
		Flush<int> out(cs.size() + 1);
		int r = utf8toUtf32(in.p, out.p, (int)e8.size());
		CHECK(r == (int)cs.size() && out.p[r] == 0, "utf8toUtf32 into an exact buffer: returned %d", r);
		Flush<wchar_t> out2(e16.size() + 1);
		r = utf8toUtf16(in.p, out2.p, (int)e8.size());
		CHECK(r == (int)e16.size() && out2.p[r] == 0, "utf8toUtf16 into an exact buffer: returned %d", r);
	}
	return "";
}

// The two text decoders that turn escapes into UTF-8 go through the same encoders: JSON \uXXXX (one escape per UTF-16
// unit of the specification's Enc16(c), through utf16toUtf8) and XML numeric character references (utf32toUtf8).
// Expected value: the specification's Enc8(c), between two sentinels.
static std::string checkEscapes(int code, const std::string& e8, const std::vector<int>& e16)
{
	char b[80];
	std::string js = "\"x";
	for (size_t i = 0; i < e16.size(); i++) { snprintf(b, sizeof b, "\\u%04x", e16[i]); js += b; }
	js += "y\"";
	Var v = Json::decode(js.c_str());
	std::string want = "x" + e8 + "y";
	if (!v.is(Var::STRING)) return "Json::decode(" + js + ") is not a string";
	String t = v;
	if (std::string(*t, (size_t)t.length()) != want) return "Json::decode(" + js + ") = " + show(std::string(*t, (size_t)t.length())) + ", specification: x Enc8(c) y = " + show(want);
	for (int hex = 0; hex < 2; hex++)
	{
		snprintf(b, sizeof b, hex ? "<a>x&#x%X;y</a>" : "<a>x&#%d;y</a>", code);
		Xml x = Xml::decode(b);
		String u = x.text();
		if (std::string(*u, (size_t)u.length()) != want) return std::string("Xml::decode(") + b + ").text() = " + show(std::string(*u, (size_t)u.length())) + ", specification: x Enc8(c) y = " + show(want);
	}
	return "";
}

static Outcome doBlock(const vj::Value& c)
{
	const vj::Value& e = c["e"];
	Outcome res;
	for (size_t i = 0; i < e.size(); i++)
	{
		int code = e[i][0].i();
		std::string e8 = e[i][1].bytes();
		std::vector<int> e16 = e[i][2].ints();
		std::vector<int> cs(1, code);
		std::string m;
		if (code == 0)
		{
			// U+0000 is the terminator of this API: its one-byte encoding [0] is an empty C string
			if (e8 != std::string(1, '\0')) return Outcome::fail("specification: Enc8(0) should be [0]");
			String z = String::fromCode(0);
			if (z.length() != 0 || (*z)[0] != 0) return Outcome::fail("fromCode(0) is not the empty string");
			int in[1] = { 0 };
			char out[4] = { 1, 1, 1, 1 };
			if (utf32toUtf8(in, out, 1) != 0 || out[0] != 0) return Outcome::fail("utf32toUtf8 of the terminator alone");
			continue;
		}
		m = checkEncoders(cs, e8, e16);
		for (int pl = 0; pl < 3 && m.empty(); pl++) m = checkValid(cs, e8, e16, pl);
		if (m.empty() && e[i].size() >= 5)
		{
			// ASCII: C-locale case maps given by the specification
			String s(e8.c_str());
			String u = s.toUpperCase(), l = s.toLowerCase();
			if (u.length() != 1 || (unsigned char)u[0] != e[i][3].i() || l.length() != 1 || (unsigned char)l[0] != e[i][4].i())
				m = "case mapping of ASCII " + std::to_string(code) + " differs from the C locale";
			char sw[2] = { (char)(code ^ 0x20), 0 };
			bool letters = e[i][3].i() != e[i][4].i();
			if (m.empty() && String(sw).equalsNocase(s) != letters && (code ^ 0x20) != 0)
				m = "equalsNocase of ASCII " + std::to_string(code) + " with its case-flipped byte";
		}
		// (all code points below U+1000, then every eighth one and the ones at the ends of each low-surrogate range)
		if (m.empty() && (code < 0x1000 || code % 8 == 0 || (code & 0x3ff) == 0x3ff)) m = checkEscapes(code, e8, e16);
		if (m.empty() && c.has("cid") && c["cid"].b && code >= c["cut"].i())
		{
			// outside the present case table UtfCase.tla makes both mappings the identity; a library with a larger table
			// differs here without breaking the property (deviation); the length bound is judged in checkValid
			String s(e8.c_str());
			String u = s.toUpperCase(), l = s.toLowerCase();
			if (std::string(*u, (size_t)u.length()) != e8 || std::string(*l, (size_t)l.length()) != e8)
			{
				char h[64];
				snprintf(h, sizeof h, "U+%04X: has a case mapping, UtfCase: identity from %d on", code, c["cut"].i());
				deviation("case-table", h);
			}
		}
		if (m.empty())
		{
			// relation: equal ignoring case  <=>  lower-cased forms equal (partners: the two case-mapped forms, itself)
			String s(e8.c_str());
			String u = s.toUpperCase(), l = s.toLowerCase();
			if (!s.equalsNocase(s)) m = "equalsNocase(s, s) is false";
			else if (s.equalsNocase(u) != (l == u.toLowerCase())) m = "equalsNocase(s, upper(s)) disagrees with equality of the lower-cased forms";
			else if (s.equalsNocase(l) != (l == l.toLowerCase())) m = "equalsNocase(s, lower(s)) disagrees with equality of the lower-cased forms";
			if (!m.empty()) m += " for code point " + std::to_string(code);
		}
		if (!m.empty()) return Outcome::fail("U+" + std::to_string(code) + ": " + m);
	}
	return res;
}

static Outcome doSeq(const vj::Value& c)
{
	std::vector<int> cs = c["cs"].ints(), e16 = c["e16"].ints(), pl8 = c["pl8"].ints(), pl16 = c["pl16"].ints();
	std::string e8 = c["e8"].bytes();
	std::string m = checkEncoders(cs, e8, e16);
	for (int pl = 0; pl < 3 && m.empty(); pl++) m = checkValid(cs, e8, e16, pl);
	// the character limit n: exactly the first k characters are converted, into buffers of exactly that size
	for (size_t k = 1; k <= cs.size() && m.empty() && pl8.size() == cs.size(); k++)
	{
		Flush<int> in32(cs.size() + 1);
		for (size_t i = 0; i < cs.size(); i++) in32.p[i] = cs[i];
		in32.p[cs.size()] = 0;
		Flush<char> in8(e8.size() + 1);
		memcpy(in8.p, e8.data(), e8.size());
		in8.p[e8.size()] = 0;
		Flush<wchar_t> in16(e16.size() + 1);
		for (size_t i = 0; i < e16.size(); i++) in16.p[i] = (wchar_t)e16[i];
		in16.p[e16.size()] = 0;
		char b[200];
		{
			Flush<char> out((size_t)pl8[k - 1] + 1);
			int r = utf32toUtf8(in32.p, out.p, (int)k);
			if (r != pl8[k - 1] || memcmp(out.p, e8.data(), (size_t)r) != 0 || out.p[r] != 0) { snprintf(b, sizeof b, "utf32toUtf8 limited to %d characters returned %d, specification: %d", (int)k, r, pl8[k - 1]); m = b; break; }
		}
		{
			Flush<int> out(k + 1);
			int r = utf8toUtf32(in8.p, out.p, (int)k);
			if (r != (int)k || memcmp(out.p, in32.p, k * sizeof(int)) != 0 || out.p[r] != 0) { snprintf(b, sizeof b, "utf8toUtf32 limited to %d characters returned %d", (int)k, r); m = b; break; }
		}
		{
			Flush<wchar_t> out((size_t)pl16[k - 1] + 1);
			int r = utf8toUtf16(in8.p, out.p, (int)k);
			if (r != pl16[k - 1] || memcmp(out.p, in16.p, (size_t)r * sizeof(wchar_t)) != 0 || out.p[r] != 0) { snprintf(b, sizeof b, "utf8toUtf16 limited to %d characters returned %d, specification: %d", (int)k, r, pl16[k - 1]); m = b; break; }
		}
		{
			Flush<char> out((size_t)pl8[k - 1] + 1);
			int r = utf16toUtf8(in16.p, out.p, (int)k);
			if (r != pl8[k - 1] || memcmp(out.p, e8.data(), (size_t)r) != 0 || out.p[r] != 0) { snprintf(b, sizeof b, "utf16toUtf8 limited to %d characters returned %d, specification: %d", (int)k, r, pl8[k - 1]); m = b; break; }
		}
	}
	if (!m.empty()) return Outcome::fail("sequence " + show(cs) + ": " + m);
	Outcome res;
	res.nontrivial = cs.size() >= 2;
	return res;
}

static std::string checkBytes(const vj::Value& c, int placement)
{
	std::string z = c["z"].bytes(), p = c["p"].bytes();
	bool wf = c["wf"].b, ascii = c["ascii"].b;
	if (wf) return checkValid(c["cs"].ints(), z, c["w"].ints(), placement);
	Obs o = observe(z, placement);
	size_t len = z.size();
	CHECK(o.err.empty(), "%s", o.err.c_str());
	// ill-formed input: the specification only bounds the results (AnyBytesOK)
	CHECK(o.n >= 0 && (size_t)o.n <= len, "count() = %ld for %d bytes", o.n, (int)len);
	CHECK(o.cs.size() <= len && o.c32.size() <= len && o.it.size() <= len, "more code points than bytes");
	CHECK(o.w.size() <= len && o.dw.size() <= len, "more UTF-16 units than bytes");
	CHECK(o.b8.size() <= 4 * o.w.size(), "utf16toUtf8 wrote %d bytes for %d units", (int)o.b8.size(), (int)o.w.size());
	CHECK(o.up.size() <= len, "toUpperCase() produced %d bytes from %d", (int)o.up.size(), (int)len);
	CHECK(o.lo.size() <= len, "toLowerCase() produced %d bytes from %d", (int)o.lo.size(), (int)len);
	(void)ascii;
	return "";
}

// The transcription of the library's loops (spec/UtfLax.tla, spec/UtfCase.tla) against the real functions.  On well-formed
// input the decoders' results are the standard's and a difference is a failure (same values as checkValid); everything
// else - any result on ill-formed input, and which case partner the tables hold - is recorded as a deviation only.
// What the property demands on ill-formed input (bounds, termination, equalsNocase <=> equal lower-cased forms) is
// judged on the real results by checkBytes / doBytes.
static std::string checkLax(const vj::Value& c, int placement)
{
	if (!c.has("lx")) return "";
	const vj::Value& x = c["lx"];
	std::string z = c["z"].bytes();
	bool wf = c["wf"].b;
	Obs o = observe(z, placement);
	CHECK(o.err.empty(), "%s", o.err.c_str());
	String s(z.c_str());
	String back = String::fromCodes(s.chars());
	std::string rt(*back, (size_t)back.length());
	if (wf)
	{
		CHECK(o.it == x["it"].ints() && o.cs == x["c32"].ints() && o.c32 == x["c32"].ints() && o.w == x["w"].ints() && o.dw == x["dw"].ints() &&
		      o.wlen == (int)x["dw"].size() && o.b8 == x["b8"].bytes() && o.n == x["n"].i() && rt == x["rt"].bytes(),
		      "well-formed text %s: a decoder's result differs from the standard's (lx)", show(z).c_str());
	}
	else
	{
		DEVIATE("lax-decoders", o.it == x["it"].ints() && o.cs == x["c32"].ints() && o.c32 == x["c32"].ints() && o.w == x["w"].ints() &&
		        o.dw == x["dw"].ints() && o.wlen == (int)x["dw"].size() && o.b8 == x["b8"].bytes() && o.n == x["n"].i() && rt == x["rt"].bytes(),
		        "%s: it %s c32 %s w %s n %ld; UtfLax: it %s c32 %s w %s n %d", show(z).c_str(), show(o.it).c_str(), show(o.c32).c_str(), show(o.w).c_str(), o.n,
		        show(x["it"].ints()).c_str(), show(x["c32"].ints()).c_str(), show(x["w"].ints()).c_str(), x["n"].i());
	}
	std::string p = c["p"].bytes(), q = c["q"].bytes();
	DEVIATE(wf ? "case-table" : "lax-case", o.up == x["up"].bytes() && o.lo == x["lo"].bytes() && eqNocase(z, p, placement) == x["eqp"].b &&
	        eqNocase(z, q, placement) == x["eqq"].b && eqNocase(q, z, placement) == x["eqr"].b,
	        "%s: upper %s lower %s; UtfCase: upper %s lower %s (or an equalsNocase verdict)", show(z).c_str(), show(o.up).c_str(), show(o.lo).c_str(),
	        show(x["up"].bytes()).c_str(), show(x["lo"].bytes()).c_str());
	return "";
}

static Outcome doBytes(const vj::Value& c)
{
	std::string z = c["z"].bytes(), p = c["p"].bytes();
	std::string m;
	for (int pl = 0; pl < 3 && m.empty(); pl++) m = checkBytes(c, pl);
	for (int pl = 0; pl < 3 && m.empty(); pl++) m = checkLax(c, pl);
	if (m.empty() && c["ascii"].b)
	{
		Obs o = observe(z, 0);
		if (o.up != c["up"].bytes()) m = "toUpperCase() = " + show(o.up) + ", C locale: " + show(c["up"].bytes());
		else if (o.lo != c["lo"].bytes()) m = "toLowerCase() = " + show(o.lo) + ", C locale: " + show(c["lo"].bytes());
		else if (!eqNocase(z, p, 0)) m = "equalsNocase with the case-flipped string " + show(p) + " is false";
		else if (!z.empty() && (eqNocase(z, c["q"].bytes(), 0) || eqNocase(c["q"].bytes(), z, 0))) m = "equalsNocase with its own proper prefix " + show(c["q"].bytes()) + " is true";
	}
	for (int pl = 0; pl < 3 && m.empty(); pl++)
	{
		// equal ignoring case <=> lower-cased forms equal; partners: case-flipped string, itself, its own case-mapped forms
		std::string lz = lowerOf(z), lp = lowerOf(p);
		std::string q = c["q"].bytes(), lq = lowerOf(q);
		if (eqNocase(z, p, pl) != (lz == lp)) m = "equalsNocase(z, " + show(p) + ") disagrees with equality of the lower-cased forms";
		else if (eqNocase(z, q, pl) != (lz == lq) || eqNocase(q, z, pl) != (lz == lq)) m = "equalsNocase(z, prefix " + show(q) + ") disagrees with equality of the lower-cased forms";
		else if (!eqNocase(z, z, pl)) m = "equalsNocase(z, z) is false";
		else if (eqNocase(z, lz, pl) != (lz == lowerOf(lz)) && memchr(lz.data(), 0, lz.size()) == 0) m = "equalsNocase(z, lower(z)) disagrees with equality of the lower-cased forms";
	}
	if (!m.empty()) return Outcome::fail("bytes " + show(z) + ": " + m);
	Outcome res;
	res.nontrivial = !z.empty();
	return res;
}

// one code point of the case-table walk (spec/MC_UtfCase.tla).  Judged on the real functions (failures): no growth, ASCII =
// C locale, toLowerCase idempotent, and for every partner d in 1..hi  equalsNocase(c, d) = equalsNocase(d, c) =
// (toLowerCase(c) == toLowerCase(d)).  (That the results are well-formed UTF-8 is judged by TLC on the recorded walk,
// Trace_Utf "cp" events.)  Compared with the transcribed tables (deviations only): the mapped bytes and the set of
// accepted partners - a table made from another Unicode version differs there without breaking the property.
static Outcome doCp(const vj::Value& c)
{
	int code = c["c"].i(), hi = c["hi"].i();
	Outcome res;
	if (code == 0) return res; // the terminator: not expressible as text in this API
	std::string e8 = c["e8"].bytes(), up = c["up"].bytes(), lo = c["lo"].bytes();
	std::string m;
	bool tableDiff = false;
	std::string realLo;
	for (int pl = 0; pl < 3 && m.empty(); pl++)
	{
		Obs o = observe(e8, pl);
		if (!o.err.empty()) m = o.err;
		else if (o.up.size() > e8.size() || o.lo.size() > e8.size()) m = "case mapping longer than its input: upper " + show(o.up) + " lower " + show(o.lo);
		else if (code < 128 && (o.up != up || o.lo != lo)) m = "ASCII: upper " + show(o.up) + " lower " + show(o.lo) + ", C locale: " + show(up) + " " + show(lo);
		else if (lowerOf(o.lo) != o.lo && memchr(o.lo.data(), 0, o.lo.size()) == 0) m = "toLowerCase() is not idempotent: " + show(o.lo) + " -> " + show(lowerOf(o.lo));
		else if (pl > 0 && o.lo != realLo) m = "toLowerCase() depends on the storage placement";
		if (o.up != up || o.lo != lo) tableDiff = true;
		realLo = o.lo;
	}
	if (m.empty())
	{
		// the partners are encoded by String::fromCode, which R/UtfScalars compares with Enc8 for every scalar value
		static std::vector<String> partner, partnerLo;
		if ((int)partner.size() != hi + 1)
		{
			partner.clear();
			partnerLo.clear();
			for (int d = 0; d <= hi; d++) { partner.push_back(String::fromCode(d)); partnerLo.push_back(partner[d].toLowerCase()); }
		}
		std::vector<char> in(hi + 1, 0);
		std::vector<int> cls = c["cls"].ints();
		for (size_t i = 0; i < cls.size(); i++) if (cls[i] >= 1 && cls[i] <= hi) in[cls[i]] = 1;
		String s(e8.c_str());
		String sl = s.toLowerCase();
		for (int d = 1; d <= hi && m.empty(); d++)
		{
			bool a = s.equalsNocase(partner[d]), b = partner[d].equalsNocase(s);
			bool lowEq = sl == partnerLo[d];
			if (a != lowEq || b != lowEq)
			{
				char buf[200];
				snprintf(buf, sizeof buf, "equalsNocase(U+%04X, U+%04X) = %d / reversed %d, but equality of the lower-cased forms = %d", code, d, (int)a, (int)b, (int)lowEq);
				m = buf;
			}
			if (a != (in[d] != 0)) tableDiff = true;
		}
	}
	if (!m.empty()) { char h[32]; snprintf(h, sizeof h, "code point U+%04X: ", code); return Outcome::fail(h + m); }
	if (tableDiff)
	{
		char h[64];
		snprintf(h, sizeof h, "U+%04X: mapping or accepted partners differ from UtfCaseData", code);
		deviation("case-table", h);
	}
	res.nontrivial = up != e8 || lo != e8;
	return res;
}

// UTF-16 as the library reads it (spec/MC_UtfWide.tla, UtfLax.tla W8Seq): surrogates at the ends of the buffer, unpaired,
// reversed; embedded terminator.  Inputs flush against the end of their block (a high surrogate in last position makes
// the loop read the terminator: the next element would be outside).
// Well-formed UTF-16 (wf): the result is the standard's; outputs of exactly that size; any difference is a failure.
// Ill-formed UTF-16: the library documents nothing; required are termination, no access outside the input and outside
// an output of 4 bytes per unit + terminator (what the String constructors reserve), a terminated result whose
// length() is the position of the terminator.  A result other than UtfLax's (longest well-formed prefix) is a deviation.
static Outcome doWide(const vj::Value& c)
{
	std::vector<int> w = c["w"].ints(), back = c["back"].ints();
	std::string b8 = c["b8"].bytes();
	bool wf = c["wf"].b;
	size_t wl = 0;
	while (wl < w.size() && w[wl] != 0) wl++;   // the wide C string: up to the first 0 unit
	std::string m, dev;
	char buf[300];
	do
	{
		Flush<wchar_t> in(wl + 1);
		for (size_t i = 0; i < wl; i++) in.p[i] = (wchar_t)w[i];
		in.p[wl] = 0;
		{
			size_t cap = wf ? b8.size() : 4 * wl;
			Flush<char> out(cap + 1);
			int r = utf16toUtf8(in.p, out.p, (int)wl + 1);
			if (r < 0 || (size_t)r > cap || out.p[r] != 0) { snprintf(buf, sizeof buf, "utf16toUtf8 returned %d for %d units (room for %d bytes) or left the result unterminated", r, (int)wl, (int)cap); m = buf; break; }
			if (std::string(out.p, (size_t)r) != b8)
			{
				snprintf(buf, sizeof buf, "utf16toUtf8 = %s, specification (W8Seq): %s", show(std::string(out.p, (size_t)r)).c_str(), show(b8).c_str());
				if (wf) { m = buf; break; }
				dev = buf;
			}
		}
		const vj::Value& lim = c["lim"];
		for (size_t k = 1; k <= lim.size() && m.empty(); k++)
		{
			std::string e = lim[k - 1].bytes();
			size_t cap = wf ? e.size() : 4 * wl;
			Flush<char> out(cap + 1);
			int r = utf16toUtf8(in.p, out.p, (int)k);
			if (r < 0 || (size_t)r > cap || out.p[r] != 0) { snprintf(buf, sizeof buf, "utf16toUtf8 limited to %d rounds returned %d (room for %d bytes) or left the result unterminated", (int)k, r, (int)cap); m = buf; }
			else if (std::string(out.p, (size_t)r) != e)
			{
				snprintf(buf, sizeof buf, "utf16toUtf8 limited to %d rounds = %s, specification: %s", (int)k, show(std::string(out.p, (size_t)r)).c_str(), show(e).c_str());
				if (wf) m = buf; else dev = buf;
			}
		}
		if (!m.empty()) break;
		{
			String* s = new String(in.p);
			std::string got8(**s, (size_t)s->length());
			if ((**s)[s->length()] != 0 || strlen(**s) != (size_t)s->length() || (size_t)s->length() > 4 * wl)
				m = "String(const wchar_t*): length() " + std::to_string(s->length()) + " is not the position of the terminator / exceeds 4 bytes per unit";
			else if (got8 != b8)
			{
				snprintf(buf, sizeof buf, "String(const wchar_t*) = %s, specification (W8Seq): %s", show(got8).c_str(), show(b8).c_str());
				if (wf) m = buf; else dev = buf;
			}
			if (m.empty())
			{
				// and back
				const wchar_t* d = s->dataw();
				std::vector<int> got;
				for (size_t i = 0; d[i] != 0 && i <= 4 * wl; i++) got.push_back((int)d[i]);
				if (got.size() > 4 * wl) m = "dataw() of the converted string is longer than its bytes";
				else if (got != back || s->wlength() != (int)back.size())
				{
					snprintf(buf, sizeof buf, "dataw() of the converted string = %s, specification: %s", show(got).c_str(), show(back).c_str());
					if (wf) m = buf; else dev = buf;
				}
			}
			delete s;
		}
		if (!m.empty()) break;
		{
			Array<wchar_t> a;
			for (size_t i = 0; i < w.size(); i++) a << (wchar_t)w[i];   // all units, embedded 0 included
			String s(a);
			std::string got8(*s, (size_t)s.length());
			if (strlen(*s) != (size_t)s.length() || (size_t)s.length() > 4 * w.size()) m = "String(Array<wchar_t>): length() is not the position of the terminator / exceeds 4 bytes per unit";
			else if (got8 != b8)
			{
				snprintf(buf, sizeof buf, "String(Array<wchar_t>) = %s, specification (W8Seq): %s", show(got8).c_str(), show(b8).c_str());
				if (wf && wl == w.size()) m = buf; else dev = buf;
			}
		}
	} while (0);
	if (!m.empty()) return Outcome::fail("units " + show(w) + ": " + m);
	if (!dev.empty()) deviation("lax-utf16", show(w) + ": " + dev);
	Outcome res;
	res.nontrivial = wl > 0;
	return res;
}

// String::fromLocal / toLocal in the two locales modelled by spec/UtfLocal.tla.  The C library is the environment: its
// behaviour as assumed by the specification is verified first (once per process); the locale is set for the case and
// put back to "C" afterwards.  Undefined value (def = false): the call must return, in bounds, with a bounded result.
static std::string envCheck()
{
	static std::string verdict;
	static bool done = false;
	if (done) return verdict;
	done = true;
	wchar_t w[8];
	if (!setlocale(LC_ALL, "C")) return verdict = "environment: setlocale(\"C\") failed";
	if (mbstowcs(w, "\xc3\xa9", 4) != (size_t)-1 || mbstowcs(w, "Az", 4) != 2) return verdict = "environment: the C locale of this C library is not ASCII-only";
	if (!setlocale(LC_ALL, "C.utf8")) return verdict = "environment: no C.utf8 locale";
	if (mbstowcs(w, "\xc3\xa9", 4) != 1 || w[0] != 0xe9 || mbstowcs(w, "\xf0\x9f\x98\x80", 4) != 1 || w[0] != 0x1f600 ||
	    mbstowcs(w, "\xff", 4) != (size_t)-1 || mbstowcs(w, "\xed\xa0\x80", 4) != (size_t)-1 || mbstowcs(w, "\xc0\x80", 4) != (size_t)-1)
		verdict = "environment: C.utf8 is not strict UTF-8 <-> UTF-32 in this C library";
	setlocale(LC_ALL, "C");
	return verdict;
}

static Outcome doLocal(const vj::Value& c)
{
	std::string env = envCheck();
	if (!env.empty()) return Outcome::fail(env);
	std::string z = c["z"].bytes();
	static const char* locs[2] = { "C", "C.utf8" };
	std::string m;
	for (int li = 0; li < 2 && m.empty(); li++)
	{
		const vj::Value& r = c["r"][locs[li]];
		setlocale(LC_ALL, locs[li]);
		for (int pl = 0; pl < 3 && m.empty(); pl++)
		{
			int pad = padFor(z.size(), pl);
			std::string full = std::string((size_t)pad, PADC) + z;
			Flush<char> in(full.size() + 1);
			memcpy(in.p, full.c_str(), full.size() + 1);
			String* a = new String(in.p);
			String f = String::fromLocal(*a);
			String t = a->toLocal();
			std::string fs(*f, (size_t)f.length()), ts(*t, (size_t)t.length());
			if ((*f)[f.length()] != 0 || strlen(*f) != (size_t)f.length()) m = "fromLocal: length() is not the position of the terminator";
			else if ((*t)[t.length()] != 0 || strlen(*t) != (size_t)t.length()) m = "toLocal: length() is not the position of the terminator";
			else if (r["f"]["def"].b && fs != std::string((size_t)pad, PADC) + r["f"]["s"].bytes()) m = "fromLocal = " + show(fs.substr(std::min(fs.size(), (size_t)pad))) + ", specification: " + show(r["f"]["s"].bytes());
			else if (r["t"]["def"].b && ts != std::string((size_t)pad, PADC) + r["t"]["s"].bytes()) m = "toLocal() = " + show(ts.substr(std::min(ts.size(), (size_t)pad))) + ", specification: " + show(r["t"]["s"].bytes());
			else if (fs.size() > 4 * full.size() || ts.size() > 4 * full.size()) m = "result longer than four times the input";
			if (m.empty())
			{
				// the free functions with the same contract
				String f2 = localToUtf8(*a), t2 = utf8ToLocal(*a);
				if (r["f"]["def"].b && std::string(*f2, (size_t)f2.length()) != fs) m = "localToUtf8 = " + show(std::string(*f2, (size_t)f2.length())) + ", fromLocal = " + show(fs);
				else if (r["t"]["def"].b && std::string(*t2, (size_t)t2.length()) != ts) m = "utf8ToLocal = " + show(std::string(*t2, (size_t)t2.length())) + ", toLocal() = " + show(ts);
				else if (strlen(*f2) != (size_t)f2.length() || strlen(*t2) != (size_t)t2.length()) m = "localToUtf8 / utf8ToLocal: length() is not the position of the terminator";
			}
			if (!m.empty()) m = std::string("locale ") + locs[li] + ": " + m;
			delete a;
		}
	}
	setlocale(LC_ALL, "C");
	if (!m.empty()) return Outcome::fail("local text " + show(z) + ": " + m);
	Outcome res;
	res.nontrivial = !z.empty();
	return res;
}

static Outcome runCase(const vj::Value& c)
{
	const std::string& k = c["k"].s();
	g_caseDeviations.clear();
	if (k == "blk") return doBlock(c);
	if (k == "seq") return doSeq(c);
	if (k == "bytes") return doBytes(c);
	if (k == "cp") return doCp(c);
	if (k == "wide") return doWide(c);
	if (k == "local") return doLocal(c);
	return Outcome::fail("harness: unknown case kind");
}

int main(int argc, char** argv) { return vrun::run(argc, argv, runCase); }
