// C08 replayer (R): runs the real UTF conversions, count(), chars(), code-point iteration and the case functions on
// the tables TLC printed from spec/MC_UtfScalars.tla (every scalar value, boundary sequences) and
// spec/MC_UtfBytes.tla (every byte string over the boundary alphabet), and compares with the specification's values.
//   {"k":"blk","e":[[c,[utf8],[utf16]] | [c,[utf8],[utf16],upper,lower] ...]}      one block of scalar values
//   {"k":"seq","cs":[..],"e8":[..],"e16":[..],"pl8":[..],"pl16":[..]}                a sequence and its prefixes
//   {"k":"bytes","z":[..],"wf":b,"cs":[..],"w":[..],"ascii":b,"up":[..],"lo":[..],"p":[..]}   arbitrary bytes
#include "c08_common.h"
#include "vrun.h"

using vrun::Outcome;

static std::string show(const std::string& s) { return vj::codes(s); }
static std::string show(const std::vector<int>& v) { return vj::intlist(v.begin(), v.end()); }

#define CHECK(cond, ...) do { if (!(cond)) { char _b[600]; snprintf(_b, sizeof _b, __VA_ARGS__); return std::string(_b); } } while (0)

// valid text: everything is determined.  Returns "" or the first disagreement.
static std::string checkValid(const std::vector<int>& cs, const std::string& e8, const std::vector<int>& e16, int placement)
{
	Obs o = observe(e8, placement);
	CHECK(o.err.empty(), "%s", o.err.c_str());
	CHECK(o.c32 == cs, "utf8toUtf32(%s) = %s, specification: %s", show(e8).c_str(), show(o.c32).c_str(), show(cs).c_str());
	CHECK(o.cs == cs, "chars() of %s = %s, specification: %s", show(e8).c_str(), show(o.cs).c_str(), show(cs).c_str());
	CHECK(o.it == cs, "iteration over %s gives %s, specification: %s", show(e8).c_str(), show(o.it).c_str(), show(cs).c_str());
	CHECK(o.n == (long)cs.size(), "count() of %s = %ld, specification: %d", show(e8).c_str(), o.n, (int)cs.size());
	CHECK(o.w == e16, "utf8toUtf16(%s) = %s, specification: %s", show(e8).c_str(), show(o.w).c_str(), show(e16).c_str());
	CHECK(o.b8 == e8, "utf16toUtf8(utf8toUtf16(%s)) = %s", show(e8).c_str(), show(o.b8).c_str());
	CHECK(o.dw == e16, "dataw() of %s = %s, specification: %s", show(e8).c_str(), show(o.dw).c_str(), show(e16).c_str());
	CHECK(o.wlen == (int)e16.size(), "wlength() of %s = %d, specification: %d", show(e8).c_str(), o.wlen, (int)e16.size());
	CHECK(o.up.size() <= e8.size(), "toUpperCase() of %s has %d bytes", show(e8).c_str(), (int)o.up.size());
	CHECK(o.lo.size() <= e8.size(), "toLowerCase() of %s has %d bytes", show(e8).c_str(), (int)o.lo.size());
	return "";
}

static std::string checkEncoders(const std::vector<int>& cs, const std::string& e8, const std::vector<int>& e16)
{
	std::string err;
	std::string a = encode32(cs, err);
	CHECK(err.empty(), "%s (code points %s)", err.c_str(), show(cs).c_str());
	CHECK(a == e8, "utf32toUtf8(%s) = %s, specification: %s", show(cs).c_str(), show(a).c_str(), show(e8).c_str());
	std::string b = fromWide(e16);
	CHECK(b == e8, "String(wchar_t* %s) = %s, specification: %s", show(e16).c_str(), show(b).c_str(), show(e8).c_str());
	// exact-size output buffers: one byte more than the specification's encoding would be an overflow
	{
		Flush<int> in(cs.size() + 1);
		for (size_t i = 0; i < cs.size(); i++) in.p[i] = cs[i];
		in.p[cs.size()] = 0;
		Flush<char> out(e8.size() + 1);
		int r = utf32toUtf8(in.p, out.p, (int)cs.size());
		CHECK(r == (int)e8.size() && memcmp(out.p, e8.data(), e8.size()) == 0 && out.p[r] == 0, "utf32toUtf8 into an exact buffer: returned %d", r);
	}
	{
		Flush<wchar_t> in(e16.size() + 1);
		for (size_t i = 0; i < e16.size(); i++) in.p[i] = (wchar_t)e16[i];
		in.p[e16.size()] = 0;
		Flush<char> out(e8.size() + 1);
		int r = utf16toUtf8(in.p, out.p, (int)e16.size());
		CHECK(r == (int)e8.size() && memcmp(out.p, e8.data(), e8.size()) == 0 && out.p[r] == 0, "utf16toUtf8 into an exact buffer: returned %d", r);
	}
	{
		Flush<char> in(e8.size() + 1);
		memcpy(in.p, e8.data(), e8.size());
		in.p[e8.size()] = 0;
		Flush<int> out(cs.size() + 1);
		int r = utf8toUtf32(in.p, out.p, (int)e8.size());
		CHECK(r == (int)cs.size() && out.p[r] == 0, "utf8toUtf32 into an exact buffer: returned %d", r);
		Flush<wchar_t> out2(e16.size() + 1);
		r = utf8toUtf16(in.p, out2.p, (int)e8.size());
		CHECK(r == (int)e16.size() && out2.p[r] == 0, "utf8toUtf16 into an exact buffer: returned %d", r);
	}
	return "";
}

static Outcome doBlock(const vj::Value& c)
{
	const vj::Value& e = c["e"];
	Outcome res;
	for (size_t i = 0; i < e.size(); i++)
	{
		int code = e[i][0].i();
		std::string e8 = e[i][1].bytes();
		std::vector<int> e16 = e[i][2].ints();
		std::vector<int> cs(1, code);
		std::string m;
		if (code == 0)
		{
			// U+0000 is the terminator of this API: its one-byte encoding [0] is an empty C string
			if (e8 != std::string(1, '\0')) return Outcome::fail("specification: Enc8(0) should be [0]");
			String z = String::fromCode(0);
			if (z.length() != 0 || (*z)[0] != 0) return Outcome::fail("fromCode(0) is not the empty string");
			int in[1] = { 0 };
			char out[4] = { 1, 1, 1, 1 };
			if (utf32toUtf8(in, out, 1) != 0 || out[0] != 0) return Outcome::fail("utf32toUtf8 of the terminator alone");
			continue;
		}
		m = checkEncoders(cs, e8, e16);
		for (int pl = 0; pl < 3 && m.empty(); pl++) m = checkValid(cs, e8, e16, pl);
		if (m.empty() && e[i].size() >= 5)
		{
			// ASCII: C-locale case maps given by the specification
			String s(e8.c_str());
			String u = s.toUpperCase(), l = s.toLowerCase();
			if (u.length() != 1 || (unsigned char)u[0] != e[i][3].i() || l.length() != 1 || (unsigned char)l[0] != e[i][4].i())
				m = "case mapping of ASCII " + std::to_string(code) + " differs from the C locale";
			char sw[2] = { (char)(code ^ 0x20), 0 };
			bool letters = e[i][3].i() != e[i][4].i();
			if (m.empty() && String(sw).equalsNocase(s) != letters && (code ^ 0x20) != 0)
				m = "equalsNocase of ASCII " + std::to_string(code) + " with its case-flipped byte";
		}
		if (m.empty())
		{
			// relation: equal ignoring case  <=>  lower-cased forms equal (partners: the two case-mapped forms, itself)
			String s(e8.c_str());
			String u = s.toUpperCase(), l = s.toLowerCase();
			if (!s.equalsNocase(s)) m = "equalsNocase(s, s) is false";
			else if (s.equalsNocase(u) != (l == u.toLowerCase())) m = "equalsNocase(s, upper(s)) disagrees with equality of the lower-cased forms";
			else if (s.equalsNocase(l) != (l == l.toLowerCase())) m = "equalsNocase(s, lower(s)) disagrees with equality of the lower-cased forms";
			if (!m.empty()) m += " for code point " + std::to_string(code);
		}
		if (!m.empty()) return Outcome::fail("U+" + std::to_string(code) + ": " + m);
	}
	return res;
}

static Outcome doSeq(const vj::Value& c)
{
	std::vector<int> cs = c["cs"].ints(), e16 = c["e16"].ints(), pl8 = c["pl8"].ints(), pl16 = c["pl16"].ints();
	std::string e8 = c["e8"].bytes();
	std::string m = checkEncoders(cs, e8, e16);
	for (int pl = 0; pl < 3 && m.empty(); pl++) m = checkValid(cs, e8, e16, pl);
	// the character limit n: exactly the first k characters are converted, into buffers of exactly that size
	for (size_t k = 1; k <= cs.size() && m.empty() && pl8.size() == cs.size(); k++)
	{
		Flush<int> in32(cs.size() + 1);
		for (size_t i = 0; i < cs.size(); i++) in32.p[i] = cs[i];
		in32.p[cs.size()] = 0;
		Flush<char> in8(e8.size() + 1);
		memcpy(in8.p, e8.data(), e8.size());
		in8.p[e8.size()] = 0;
		Flush<wchar_t> in16(e16.size() + 1);
		for (size_t i = 0; i < e16.size(); i++) in16.p[i] = (wchar_t)e16[i];
		in16.p[e16.size()] = 0;
		char b[200];
		{
			Flush<char> out((size_t)pl8[k - 1] + 1);
			int r = utf32toUtf8(in32.p, out.p, (int)k);
			if (r != pl8[k - 1] || memcmp(out.p, e8.data(), (size_t)r) != 0 || out.p[r] != 0) { snprintf(b, sizeof b, "utf32toUtf8 limited to %d characters returned %d, specification: %d", (int)k, r, pl8[k - 1]); m = b; break; }
		}
		{
			Flush<int> out(k + 1);
			int r = utf8toUtf32(in8.p, out.p, (int)k);
			if (r != (int)k || memcmp(out.p, in32.p, k * sizeof(int)) != 0 || out.p[r] != 0) { snprintf(b, sizeof b, "utf8toUtf32 limited to %d characters returned %d", (int)k, r); m = b; break; }
		}
		{
			Flush<wchar_t> out((size_t)pl16[k - 1] + 1);
			int r = utf8toUtf16(in8.p, out.p, (int)k);
			if (r != pl16[k - 1] || memcmp(out.p, in16.p, (size_t)r * sizeof(wchar_t)) != 0 || out.p[r] != 0) { snprintf(b, sizeof b, "utf8toUtf16 limited to %d characters returned %d, specification: %d", (int)k, r, pl16[k - 1]); m = b; break; }
		}
		{
			Flush<char> out((size_t)pl8[k - 1] + 1);
			int r = utf16toUtf8(in16.p, out.p, (int)k);
			if (r != pl8[k - 1] || memcmp(out.p, e8.data(), (size_t)r) != 0 || out.p[r] != 0) { snprintf(b, sizeof b, "utf16toUtf8 limited to %d characters returned %d, specification: %d", (int)k, r, pl8[k - 1]); m = b; break; }
		}
	}
	if (!m.empty()) return Outcome::fail("sequence " + show(cs) + ": " + m);
	Outcome res;
	res.nontrivial = cs.size() >= 2;
	return res;
}

static std::string checkBytes(const vj::Value& c, int placement)
{
	std::string z = c["z"].bytes(), p = c["p"].bytes();
	bool wf = c["wf"].b, ascii = c["ascii"].b;
	if (wf) return checkValid(c["cs"].ints(), z, c["w"].ints(), placement);
	Obs o = observe(z, placement);
	size_t len = z.size();
	CHECK(o.err.empty(), "%s", o.err.c_str());
	// ill-formed input: the specification only bounds the results (AnyBytesOK)
	CHECK(o.n >= 0 && (size_t)o.n <= len, "count() = %ld for %d bytes", o.n, (int)len);
	CHECK(o.cs.size() <= len && o.c32.size() <= len && o.it.size() <= len, "more code points than bytes");
	CHECK(o.w.size() <= len && o.dw.size() <= len, "more UTF-16 units than bytes");
	CHECK(o.b8.size() <= 4 * o.w.size(), "utf16toUtf8 wrote %d bytes for %d units", (int)o.b8.size(), (int)o.w.size());
	CHECK(o.up.size() <= len, "toUpperCase() produced %d bytes from %d", (int)o.up.size(), (int)len);
	CHECK(o.lo.size() <= len, "toLowerCase() produced %d bytes from %d", (int)o.lo.size(), (int)len);
	(void)ascii;
	return "";
}

static Outcome doBytes(const vj::Value& c)
{
	std::string z = c["z"].bytes(), p = c["p"].bytes();
	std::string m;
	for (int pl = 0; pl < 3 && m.empty(); pl++) m = checkBytes(c, pl);
	if (m.empty() && c["ascii"].b)
	{
		Obs o = observe(z, 0);
		if (o.up != c["up"].bytes()) m = "toUpperCase() = " + show(o.up) + ", C locale: " + show(c["up"].bytes());
		else if (o.lo != c["lo"].bytes()) m = "toLowerCase() = " + show(o.lo) + ", C locale: " + show(c["lo"].bytes());
		else if (!eqNocase(z, p, 0)) m = "equalsNocase with the case-flipped string " + show(p) + " is false";
		else if (!z.empty() && (eqNocase(z, c["q"].bytes(), 0) || eqNocase(c["q"].bytes(), z, 0))) m = "equalsNocase with its own proper prefix " + show(c["q"].bytes()) + " is true";
	}
	for (int pl = 0; pl < 3 && m.empty(); pl++)
	{
		// equal ignoring case <=> lower-cased forms equal; partners: case-flipped string, itself, its own case-mapped forms
		std::string lz = lowerOf(z), lp = lowerOf(p);
		std::string q = c["q"].bytes(), lq = lowerOf(q);
		if (eqNocase(z, p, pl) != (lz == lp)) m = "equalsNocase(z, " + show(p) + ") disagrees with equality of the lower-cased forms";
		else if (eqNocase(z, q, pl) != (lz == lq) || eqNocase(q, z, pl) != (lz == lq)) m = "equalsNocase(z, prefix " + show(q) + ") disagrees with equality of the lower-cased forms";
		else if (!eqNocase(z, z, pl)) m = "equalsNocase(z, z) is false";
		else if (eqNocase(z, lz, pl) != (lz == lowerOf(lz)) && memchr(lz.data(), 0, lz.size()) == 0) m = "equalsNocase(z, lower(z)) disagrees with equality of the lower-cased forms";
	}
	if (!m.empty()) return Outcome::fail("bytes " + show(z) + ": " + m);
	Outcome res;
	res.nontrivial = !z.empty();
	return res;
}

static Outcome runCase(const vj::Value& c)
{
	const std::string& k = c["k"].s();
	if (k == "blk") return doBlock(c);
	if (k == "seq") return doSeq(c);
	if (k == "bytes") return doBytes(c);
	return Outcome::fail("harness: unknown case kind");
}

int main(int argc, char** argv) { return vrun::run(argc, argv, runCase); }
