// C18 replayer (R): executes the cases TLC generates from spec/IniCsv.tla on the real asl::IniFile / asl::TabularDataFile.
//   ini: the text is written to a scratch file, edited with IniFile::set (explicit write() + destructor, destructor only,
//        operator[] assignment), and a fresh IniFile must return the specification's value for every pre-existing and
//        every set key;
//   csv: the table is written with TabularDataFile and read back with a fresh one (cells must come back with their type
//        and text); the specification's own rendering of the table is read with the real reader as well.
// When the environment variable C18_LOG is set, every execution is also logged as an ndjson event (text, edits, file
// as rewritten, values returned / table, file as written, rows returned) to $C18_LOG.<pid>; checks/C18.py hands those
// logs to TLC (Trace_IniCsv), which evaluates the ordering requirement and the CSV reader on the real output.
#include "c18_common.h"
#include "vrun.h"

using vrun::Outcome;
using namespace c18;

static TmpDir* g_tmp = 0;
static FILE* g_log = 0;
static int g_logpid = 0;

static void logLine(const std::string& s)
{
	const char* base = getenv("C18_LOG");
	if (!base) return;
	if (!g_log || g_logpid != (int)getpid())
	{
		g_logpid = (int)getpid();
		g_log = fopen((std::string(base) + "." + std::to_string(g_logpid)).c_str(), "a");
		if (!g_log) return;
	}
	fputs(s.c_str(), g_log);
	fputc('\n', g_log);
	fflush(g_log);
}

static std::string pathFor(const char* stem)
{
	static unsigned long n = 0;
	return g_tmp->path + "/" + stem + "-" + std::to_string((int)getpid()) + "-" + std::to_string(n++);
}

static std::vector<Entry> entries(const vj::Value& v)
{
	std::vector<Entry> r;
	for (size_t i = 0; i < v.size(); i++)
	{
		Entry e;
		e.sec = v[i]["sec"].bytes();
		e.key = v[i]["key"].bytes();
		e.val = v[i]["val"].bytes();
		r.push_back(e);
	}
	return r;
}

static Outcome runIniCase(const vj::Value& c)
{
	std::string text = c["text"].bytes();
	std::vector<Entry> sets = entries(c["sets"]), exp = entries(c["exp"]);
	Outcome res;
	res.nontrivial = !sets.empty();
	// C18_HALF_INI set: two of the four ways of writing per case, chosen by a hash of the case
	bool half = getenv("C18_HALF_INI") != 0;
	unsigned pick = (unsigned)(vrun::fnv(text) >> 7) & 1;
	for (int how = 0; how < 4; how++)
	{
		if (half && ((unsigned)how & 1) != pick) continue;
		std::string path = pathFor("ini");
		IniResult r = runIni(path, text, sets, exp, how);
		unlink(path.c_str());
		logLine(iniEvent(text, sets, r, how));
		const char* hows[] = { "write()+destructor", "destructor", "operator[]=+destructor", "write(name)+destructor" };
		if (r.problem.compare(0, 8, "harness:") == 0) return Outcome::fail(r.problem);
		for (size_t i = 0; i < exp.size() && i < r.got.size(); i++)
			if (r.got[i].val != exp[i].val)
				return Outcome::fail(std::string("ini/") + hows[how] + ": a fresh IniFile returns " + vj::quote(r.got[i].val) + " for " + nameOf(exp[i]) +
				                     ", specification says " + vj::quote(exp[i].val) + "; file after the edit: " + vj::quote(r.w.substr(0, 300)));
		if (!r.problem.empty()) return Outcome::fail(std::string("ini/") + hows[how] + ": " + r.problem);
	}
	return res;
}

static Outcome runCsvCase(const vj::Value& c)
{
	int cols = c["cols"].i();
	std::vector<std::vector<Cell> > rows;
	for (size_t i = 0; i < c["rows"].size(); i++)
	{
		std::vector<Cell> row;
		for (size_t j = 0; j < c["rows"][i].size(); j++)
		{
			Cell cell;
			cell.num = c["rows"][i][j]["t"].s() == "n";
			cell.s = c["rows"][i][j]["s"].bytes();
			row.push_back(cell);
		}
		rows.push_back(row);
	}
	Outcome res;
	res.nontrivial = rows.size() * (size_t)cols >= 2;
	std::string why;
	for (int variant = 0; variant < 4; variant++)
	{
		if (getenv("C18_HALF_CSV") && ((unsigned)variant & 1) != ((unsigned)(vrun::fnv(c["file"].bytes()) >> 7) & 1)) continue;
		std::string path = pathFor("csv") + ".csv";
		CsvResult r = runCsv(path, cols, rows, variant);
		unlink(path.c_str());
		logLine(csvEvent(cols, rows, r));
		if (!r.problem.empty()) return Outcome::fail("csv: " + r.problem);
		if (!sameRows(r.got, rows, why))
			return Outcome::fail("csv (variant " + std::to_string(variant) + "): read back " + why + "; file written: " + vj::quote(r.file.substr(0, 300)));
	}
	// the specification's rendering of the table through the real reader
	std::string path = pathFor("csvspec") + ".csv", problem;
	posixWrite(path, c["file"].bytes());
	std::vector<std::vector<Cell> > got = readCsv(path, problem);
	unlink(path.c_str());
	if (!problem.empty()) return Outcome::fail("csv/spec text: " + problem);
	if (!sameRows(got, rows, why)) return Outcome::fail("csv: reading the specification's rendering " + vj::quote(c["file"].bytes().substr(0, 300)) + " gives " + why);
	return res;
}

static Outcome runCase(const vj::Value& c)
{
	if (c["k"].s() == "ini") return runIniCase(c);
	if (c["k"].s() == "csv") return runCsvCase(c);
	return Outcome::fail("harness: unknown case kind");
}

int main(int argc, char** argv)
{
	TmpDir tmp("c18");
	g_tmp = &tmp;
	return vrun::run(argc, argv, runCase);
}
