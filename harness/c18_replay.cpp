// C18 replayer (R): executes the cases TLC generates from spec/IniCsv.tla on the real asl::IniFile / asl::TabularDataFile.
//   ini: the text is written to a scratch file, edited with IniFile::set (explicit write() + destructor, destructor only,
//        operator[] assignment), and a fresh IniFile must return the specification's value for every pre-existing and
//        every set key;
//   csv: the table is written with TabularDataFile and read back with a fresh one (cells must come back with their type
//        and text); the specification's own rendering of the table is read with the real reader as well.
// When the environment variable C18_LOG is set, every execution is also logged as an ndjson event (text, edits, file
// as rewritten, values returned / table, file as written, rows returned) to $C18_LOG.<pid>; checks/C18.py hands those
// logs to TLC (Trace_IniCsv), which evaluates the ordering requirement and the CSV reader on the real output.
#include "c18_common.h"
#include "vrun.h"

using vrun::Outcome;
using namespace c18;

static TmpDir* g_tmp = 0;
static FILE* g_log = 0;
static int g_logpid = 0;

static void logLine(const std::string& s)
{
	const char* base = getenv("C18_LOG");
	if (!base) return;
	if (!g_log || g_logpid != (int)getpid())
	{
		g_logpid = (int)getpid();
		g_log = fopen((std::string(base) + "." + std::to_string(g_logpid)).c_str(), "a");
		if (!g_log) return;
	}
	fputs(s.c_str(), g_log);
	fputc('\n', g_log);
	fflush(g_log);
}

static std::string pathFor(const char* stem)
{
	static unsigned long n = 0;
	return g_tmp->path + "/" + stem + "-" + std::to_string((int)getpid()) + "-" + std::to_string(n++);
}

static std::vector<Entry> entries(const vj::Value& v)
{
	std::vector<Entry> r;
	for (size_t i = 0; i < v.size(); i++)
	{
		Entry e;
		e.sec = v[i]["sec"].bytes();
		e.key = v[i]["key"].bytes();
		e.val = v[i]["val"].bytes();
		r.push_back(e);
	}
	return r;
}

static Outcome runIniCase(const vj::Value& c)
{
	std::string text = c["text"].bytes();
	std::vector<Entry> sets = entries(c["sets"]), exp = entries(c["exp"]);
	Outcome res;
	res.nontrivial = !sets.empty();
	// C18_HALF_INI set: two of the four ways of writing per case, chosen by a hash of the case
	bool half = getenv("C18_HALF_INI") != 0;
	unsigned pick = (unsigned)(vrun::fnv(text) >> 7) & 1;
	for (int how = 0; how < 4; how++)
	{
		if (half && ((unsigned)how & 1) != pick) continue;
		std::string path = pathFor("ini");
		IniResult r = runIni(path, text, sets, exp, how);
		unlink(path.c_str());
		logLine(iniEvent(text, sets, r, how));
		const char* hows[] = { "write()+destructor", "destructor", "operator[]=+destructor", "write(name)+destructor" };
		if (r.problem.compare(0, 8, "harness:") == 0) return Outcome::fail(r.problem);
		for (size_t i = 0; i < exp.size() && i < r.got.size(); i++)
			if (r.got[i].val != exp[i].val)
				return Outcome::fail(std::string("ini/") + hows[how] + ": a fresh IniFile returns " + vj::quote(r.got[i].val) + " for " + nameOf(exp[i]) +
				                     ", specification says " + vj::quote(exp[i].val) + "; file after the edit: " + vj::quote(r.w.substr(0, 300)));
		if (!r.problem.empty()) return Outcome::fail(std::string("ini/") + hows[how] + ": " + r.problem);
	}
	return res;
}

static Outcome runCsvCase(const vj::Value& c)
{
	int cols = c["cols"].i();
	std::vector<std::vector<Cell> > rows;
	for (size_t i = 0; i < c["rows"].size(); i++)
	{
		std::vector<Cell> row;
		for (size_t j = 0; j < c["rows"][i].size(); j++)
		{
			Cell cell;
			cell.num = c["rows"][i][j]["t"].s() == "n";
			cell.s = c["rows"][i][j]["s"].bytes();
			row.push_back(cell);
		}
		rows.push_back(row);
	}
	Outcome res;
	res.nontrivial = rows.size() * (size_t)cols >= 2;
	std::string why;
	for (int variant = 0; variant < 4; variant++)
	{
		if (getenv("C18_HALF_CSV") && ((unsigned)variant & 1) != ((unsigned)(vrun::fnv(c["file"].bytes()) >> 7) & 1)) continue;
		std::string path = pathFor("csv") + ".csv";
		CsvResult r = runCsv(path, cols, rows, variant);
		unlink(path.c_str());
		logLine(csvEvent(cols, rows, r));
		if (!r.problem.empty()) return Outcome::fail("csv: " + r.problem);
		if (!sameRows(r.got, rows, why))
			return Outcome::fail("csv (variant " + std::to_string(variant) + "): read back " + why + "; file written: " + vj::quote(r.file.substr(0, 300)));
	}
	// the specification's rendering of the table through the real reader
	std::string path = pathFor("csvspec") + ".csv", problem;
	posixWrite(path, c["file"].bytes());
	std::vector<std::vector<Cell> > got = readCsv(path, problem);
	unlink(path.c_str());
	if (!problem.empty()) return Outcome::fail("csv/spec text: " + problem);
	if (!sameRows(got, rows, why)) return Outcome::fail("csv: reading the specification's rendering " + vj::quote(c["file"].bytes().substr(0, 300)) + " gives " + why);
	return res;
}

// api: a sequence of calls on one IniFile object (spec/IniCsv.tla, "the IniFile object"); results of the calls and the const
// queries at the end are compared with what TLC printed; every call is logged (with the bytes each write left) for Trace_IniCsv
static Outcome runApiCase(const vj::Value& c)
{
	Outcome res;
	res.nontrivial = c["steps"].size() > 0;
	std::string bad;
	std::vector<std::string> events;
	{
		ApiSession sess(g_tmp->path, (unsigned long)(vrun::fnv(c["text"].bytes()) >> 5) + c["steps"].size());
		sess.start(c["text"].bytes(), c["exists"].b);
		sess.open(c["sw"].b);
		for (size_t i = 0; i < c["steps"].size() && bad.empty(); i++)
		{
			const vj::Value& m = c["steps"][i]["c"];
			const vj::Value& r = c["steps"][i]["r"];
			const std::string& k = m["m"].s();
			if (k == "set") sess.set(m["sec"].bytes(), m["key"].bytes(), m["val"].bytes());
			else if (k == "get")
			{
				std::string got = sess.get(m["sec"].bytes(), m["key"].bytes());
				if (got != r.bytes()) bad = "operator[](" + vj::quote(ApiSession::fullName(m["sec"].bytes(), m["key"].bytes())) + ") is " + vj::quote(got) + ", specification says " + vj::quote(r.bytes());
			}
			else if (k == "cur") sess.cur(m["sec"].bytes());
			else if (k == "asize")
			{
				int n = sess.asize(m["sec"].bytes());
				if (n != r.i()) bad = "arraysize(" + vj::quote(m["sec"].bytes()) + ") is " + std::to_string(n) + ", specification says " + std::to_string(r.i());
			}
			else if (k == "aget")
			{
				std::string got = sess.aget(m["field"].bytes(), m["idx"].i());
				if (got != r.bytes()) bad = "array(" + vj::quote(m["field"].bytes()) + ", " + std::to_string(m["idx"].i()) + ") is " + vj::quote(got) + ", specification says " + vj::quote(r.bytes());
			}
			else if (k == "write") sess.write();
			else if (k == "writeTo") sess.writeTo();
			else if (k == "writeBad") sess.writeBad();
			else if (k == "reopen") { sess.close(); sess.open(true); }
			else bad = "harness: unknown call " + k;
		}
		if (bad.empty() && c["open"].b)
		{
			std::vector<Entry> probes;
			for (size_t i = 0; i < c["obs"]["q"].size(); i++)
			{
				Entry e;
				e.sec = c["obs"]["q"][i]["sec"].bytes();
				e.key = c["obs"]["q"][i]["key"].bytes();
				probes.push_back(e);
			}
			sess.observe(probes);
			bad = obsMismatch(c["obs"], vj::parse(sess.events.back()));
		}
		if (sess.ini) sess.close();
		events = sess.events;
	}
	for (size_t i = 0; i < events.size(); i++) logLine(events[i]);
	if (!bad.empty()) return Outcome::fail("api: " + bad + " (after " + std::to_string(events.size()) + " events)");
	return res;
}

// csvw: a table written by TabularDataFile with options; the file is judged by TLC (Trace_IniCsv, CsvWOK / ArffOK / snapshots); here:
// what a fresh object reads back (inferable dialects) and the specification's own rendering through the real reader
static Outcome runCsvWCase(const vj::Value& c)
{
	WOptions o;
	o.sep = c["sep"].i();
	o.dec = c["dec"].i();
	o.flush = c["flush"].i();
	o.quotes = c["q"].b;
	o.arff = c["arff"].b;
	for (size_t j = 0; j < c["names"].size(); j++) o.names.push_back(c["names"][j].bytes());
	for (size_t j = 0; j < c["types"].size(); j++) o.types.push_back(c["types"][j].bytes());
	std::vector<std::vector<Cell> > rows;
	std::vector<bool> early;
	size_t cells = 0;
	for (size_t i = 0; i < c["rows"].size(); i++)
	{
		std::vector<Cell> row;
		for (size_t j = 0; j < c["rows"][i].size(); j++)
		{
			Cell cell;
			cell.num = c["rows"][i][j]["t"].s() == "n";
			cell.s = c["rows"][i][j]["s"].bytes();
			row.push_back(cell);
			cells++;
		}
		rows.push_back(row);
		early.push_back(c["early"][i].b);
	}
	Outcome res;
	res.nontrivial = cells >= 2;
	bool readable = c["readable"].b;
	unsigned h = (unsigned)(vrun::fnv(c["file"].bytes() + (char)o.sep) >> 11);
	int nvar = getenv("C18_HALF_CSV") ? 1 : 3;
	for (int k = 0; k < nvar; k++)
	{
		std::string problem;
		std::string stem = o.arff ? g_tmp->path + "/t" : pathFor("csvw");
		std::string ev = runCsvW(stem, o, rows, early, readable, h + (unsigned)k * 5, problem);
		if (!problem.empty()) return Outcome::fail("csvw: " + problem);
		logLine(ev);
		if (!readable) continue;
		vj::Value e = vj::parse(ev);
		std::string why = rowsMismatch(c["back"], e["got"], false);
		if (!why.empty()) return Outcome::fail("csvw (sep " + std::to_string(o.sep) + ", dec " + std::to_string(o.dec) + (o.quotes ? ", quotes" : "") + "): read back " + why +
		                                       "; file written: " + vj::quote(e["file"].bytes().substr(0, 300)));
	}
	if (readable)
	{
		std::string path = pathFor("csvwspec") + ".csv";
		vj::Value e = vj::parse(runCsvR(path, c["file"].bytes(), ""));
		std::string why = rowsMismatch(c["back"], e["rows"], false);
		if (!why.empty()) return Outcome::fail("csvw: reading the specification's rendering " + vj::quote(c["file"].bytes().substr(0, 300)) + " gives " + why);
	}
	return res;
}

// csvr: a file of another tool through the real reader
static Outcome runCsvRCase(const vj::Value& c)
{
	Outcome res;
	std::string path = pathFor("csvr") + ".csv";
	std::string ev = runCsvR(path, c["file"].bytes(), c["types"].bytes());
	logLine(ev);
	if (c["unspec"].b) return res;
	vj::Value e = vj::parse(ev);
	std::string shown = vj::quote(c["file"].bytes().substr(0, 200));
	std::string why = rowsMismatch(c["rows"], e["rows"], true);
	if (!why.empty()) return Outcome::fail("csvr: " + shown + " read with nextRow(): " + why);
	why = rowsMismatch(c["rows"], e["data"], true);
	if (!why.empty()) return Outcome::fail("csvr: " + shown + " read with data(): " + why);
	if (!e["past"].b) return Outcome::fail("csvr: " + shown + ": operator[] outside the row or for an unknown column returns something, or nextRow() succeeds after the end");
	if (c["hdr"].b)
	{
		if (e["names"].size() != c["names"].size()) return Outcome::fail("csvr: " + shown + ": columns() has " + std::to_string(e["names"].size()) + " names, specification says " + std::to_string(c["names"].size()));
		for (size_t j = 0; j < c["names"].size(); j++)
			if (e["names"][j].bytes() != c["names"][j].bytes()) return Outcome::fail("csvr: " + shown + ": column " + std::to_string(j) + " is named " + vj::quote(e["names"][j].bytes()));
		if (e["ncols"].i() != (int)c["names"].size()) return Outcome::fail("csvr: " + shown + ": numColumns() is " + std::to_string(e["ncols"].i()));
		if (e["rows"].size() == c["rows"].size())
		{
			why = rowsMismatch(c["byname"], e["byname"], false);
			if (!why.empty()) return Outcome::fail("csvr: " + shown + " read with file[name]: " + why);
		}
	}
	return res;
}

static Outcome runCase(const vj::Value& c)
{
	if (c["k"].s() == "csvw") return runCsvWCase(c);
	if (c["k"].s() == "csvr") return runCsvRCase(c);
	if (c["k"].s() == "api") return runApiCase(c);
	if (c["k"].s() == "ini") return runIniCase(c);
	if (c["k"].s() == "csv") return runCsvCase(c);
	return Outcome::fail("harness: unknown case kind");
}

int main(int argc, char** argv)
{
	TmpDir tmp("c18");
	g_tmp = &tmp;
	return vrun::run(argc, argv, runCase);
}
