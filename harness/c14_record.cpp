// C14 recorder (V): runs a real asl::SocketServer (TCP on 127.0.0.1 and/or a Unix socket path, concurrent or
// sequential) against raw POSIX clients, with seeded jitter at the library's hook points, calls stop(true) at a
// seeded moment and destroys the server.  The hook/harness event log (one total order: the order of appending under
// the log lock) is validated by spec/Trace_SockServer.tla; AddressSanitizer watches for touches of freed objects.
#include <asl/SocketServer.h>
#include "vsched.h"
#include "vrec.h"
#include <sys/socket.h>
#include <sys/un.h>
#include <netinet/in.h>
#include <arpa/inet.h>
#include <poll.h>
#include <signal.h>
#include <fcntl.h>
#include <errno.h>
#include <vector>

using namespace asl;
using namespace vrec;

// harness event kinds (library kinds are listed in vsched.h)
enum { EV_CLIENT_CONNECTED = 200, EV_SERVE_BEGIN = 201, EV_SERVE_END = 202, EV_STOP_CALL = 203, EV_STOP_RETURNED = 204,
       EV_DESTROY_BEGIN = 205, EV_DESTROY_END = 206, EV_END = 207, EV_CLIENT_ECHO = 208, EV_CLIENT_EOF = 209, EV_START = 210 };

struct TestServer : public SocketServer
{
	int serveDelayUs;
	void serve(Socket client)
	{
		int fd = client.handle();
		vsched::userEvent(EV_SERVE_BEGIN, fd, 0);
		String line = client.readLine();      // "<token>\n" or empty when the client closed early
		long token = line.length() ? (long)atol(*line) : -1;
		if (serveDelayUs) usleep((useconds_t)serveDelayUs);
		if (token >= 0) client << String(line) + "\n";
		vsched::userEvent(EV_SERVE_END, fd, token);
	}
};

struct Client
{
	int id, port, mode, delayUs; // mode 0: full exchange, 1: connect and close at once, 2: send token then close without reading
	const char* path;
	volatile int result;         // 1 echo ok + eof seen, 2 closed early, 3 not served (refused / timed out), -1 error
};

static int connectTo(int port, const char* path)
{
	int fd;
	if (path)
	{
		fd = socket(AF_UNIX, SOCK_STREAM, 0);
		struct sockaddr_un a;
		memset(&a, 0, sizeof a);
		a.sun_family = AF_UNIX;
		strncpy(a.sun_path, path, sizeof a.sun_path - 1);
		if (connect(fd, (struct sockaddr*)&a, sizeof a) != 0) { close(fd); return -1; }
	}
	else
	{
		fd = socket(AF_INET, SOCK_STREAM, 0);
		struct sockaddr_in a;
		memset(&a, 0, sizeof a);
		a.sin_family = AF_INET;
		a.sin_port = htons((unsigned short)port);
		a.sin_addr.s_addr = htonl(INADDR_LOOPBACK);
		if (connect(fd, (struct sockaddr*)&a, sizeof a) != 0) { close(fd); return -1; }
	}
	return fd;
}

static int readAll(int fd, char* buf, int cap, int timeoutMs, bool* eof)
{
	int n = 0;
	*eof = false;
	for (;;)
	{
		struct pollfd p = { fd, POLLIN, 0 };
		int r = poll(&p, 1, timeoutMs);
		if (r <= 0) return n;
		int k = (int)read(fd, buf + n, (size_t)(cap - n));
		if (k == 0) { *eof = true; return n; }
		if (k < 0) return n;
		n += k;
		if (n >= cap) return n;
	}
}

static void* clientMain(void* p)
{
	Client& c = *(Client*)p;
	if (c.delayUs) usleep((useconds_t)c.delayUs);
	int fd = connectTo(c.port, c.path);
	if (fd < 0) { c.result = 3; return 0; }
	vsched::userEvent(EV_CLIENT_CONNECTED, c.id, 0);
	if (c.mode == 1) { close(fd); c.result = 2; return 0; }
	char msg[32];
	int n = snprintf(msg, sizeof msg, "%d\n", c.id);
	if (write(fd, msg, (size_t)n) != n) { close(fd); c.result = 2; return 0; }
	if (c.mode == 2) { close(fd); c.result = 2; return 0; }
	char buf[64];
	bool eof;
	int got = readAll(fd, buf, sizeof buf - 1, 6000, &eof);
	buf[got] = 0;
	if (got == 0 && !eof) { c.result = 3; close(fd); return 0; } // never accepted (server stopped first)
	if (got == 0 && eof) { c.result = 3; close(fd); return 0; }  // connection dropped without service (listener closed)
	if (atoi(buf) != c.id || !eof) { c.result = -1; close(fd); return 0; }
	vsched::userEvent(EV_CLIENT_ECHO, c.id, 0);
	close(fd);
	c.result = 1;
	return 0;
}

static std::string g_dir;

static bool scenario(Rng& rng, int idx)
{
	bool sequential = rng.chance(35);
	int listeners = rng.below(3); // 0 tcp, 1 unix, 2 both
	int n = rng.chance(10) ? 0 : rng.chance(15) ? rng.range(40, 200) : rng.range(1, 12);
	TestServer* srv = new TestServer;
	srv->serveDelayUs = rng.chance(40) ? rng.range(0, 20000) : rng.chance(30) ? rng.range(50000, 200000) : 0;
	srv->setSequential(sequential);
	int port = 0;
	std::string path;
	if (listeners != 1)
	{
		for (int tries = 0; tries < 50; tries++)
		{
			port = 20000 + rng.below(40000);
			if (srv->bind("127.0.0.1", port)) break;
			port = 0;
		}
		if (!port) { fprintf(stderr, "harness: no free port\n"); exit(2); }
	}
	if (listeners != 0)
	{
		path = g_dir + "/s" + std::to_string(idx) + "_" + std::to_string((int)getpid());
		unlink(path.c_str());
		if (!srv->bindPath(path.c_str())) { fprintf(stderr, "harness: bindPath failed\n"); exit(2); }
	}
	vsched::userEvent(EV_START, sequential ? 1 : 0, n);
	srv->start(true);
	std::vector<Client> cs((size_t)n);
	std::vector<pthread_t> th((size_t)n);
	bool burst = rng.chance(50);
	for (int i = 0; i < n; i++)
	{
		Client c = { i + 1, port, rng.chance(12) ? 1 : rng.chance(10) ? 2 : 0, burst ? rng.below(2000) : rng.below(150000), 0, 0 };
		if (listeners == 1 || (listeners == 2 && rng.chance(50))) c.path = path.c_str();
		cs[i] = c;
	}
	for (int i = 0; i < n; i++) pthread_create(&th[i], 0, clientMain, &cs[i]);
	// stop at a seeded moment: sometimes before the clients are through
	int wait = rng.chance(30) ? rng.below(20000) : rng.chance(50) ? rng.below(200000) : 0;
	if (wait) usleep((useconds_t)wait);
	else for (int i = 0; i < n; i++) { pthread_join(th[i], 0); th[i] = 0; }
	vsched::userEvent(EV_STOP_CALL, 0, 0);
	srv->stop(true);
	vsched::userEvent(EV_STOP_RETURNED, 0, srv->running() ? 1 : 0);
	if (rng.chance(50)) usleep((useconds_t)rng.below(3000));
	vsched::userEvent(EV_DESTROY_BEGIN, 0, 0);
	delete srv;
	vsched::userEvent(EV_DESTROY_END, 0, 0);
	for (int i = 0; i < n; i++) if (th[i]) pthread_join(th[i], 0);
	bool ok = true;
	for (int i = 0; i < n; i++)
		if (cs[i].result == -1) { fprintf(stderr, "VREC-FAIL: client %d received a wrong or unterminated reply\n", cs[i].id); ok = false; }
	usleep(20000); // let detached handler threads run their last instructions while the sanitizer is watching
	vsched::userEvent(EV_END, 0, 0);
	if (!path.empty()) unlink(path.c_str());
	return ok;
}

int main(int argc, char** argv)
{
	Args args(argc, argv);
	Rng rng(args.seed);
	signal(SIGPIPE, SIG_IGN);
	char tmpl[256];
	snprintf(tmpl, sizeof tmpl, "/verif/build/tmp/c14-XXXXXX");
	if (!mkdtemp(tmpl)) { perror("mkdtemp"); return 2; }
	g_dir = tmpl;
	vsched::install();
	FILE* f = fopen(args.out.c_str(), "w");
	if (!f) { perror("out"); return 2; }
	long events = 0;
	int idx = 0;
	bool ok = true;
	while (events < args.events && ok)
	{
		vsched::beginFree(rng.next(), rng.range(0, 40));
		// sometimes hold a library thread (without a cancellation point) right after a hand-over step, so that a
		// stop()/destructor that does not wait for it is caught touching freed memory:
		//   35 = accept thread just after running := false;  41 = handler thread just after --count;
		//   12 = any library thread at its very start, before run() (a slow thread start-up: a connection that is only counted
		//        by its handler thread would be invisible to stop(true) for that long - on an idle machine the window is a few us)
		if (rng.chance(45))
		{
			int r = rng.below(100);
			vsched::S().delayKind = r < 40 ? 35 : r < 70 ? 41 : 12;
			vsched::S().delayMs = rng.range(120, 300);
		}
		ok = scenario(rng, idx++);
		vsched::end();
		fprintf(f, "{\"k\":0,\"t\":0,\"o\":0,\"v\":0}\n");
		vsched::dumpLog(f);
		fflush(f);
		events += (long)vsched::S().log.size() + 1;
	}
	fclose(f);
	rmdir(g_dir.c_str());
	return ok ? 0 : 3;
}
