// C07 replayer (R): runs the documents, prefixes and faulty documents that TLC generates from spec/XmlText.tla through
// Xml::decode (and the generated trees through Xml::encode -> Xml::decode, compact and indented) under ASan.
//   kind "doc":    decode(text) must be the specification's normalized tree; every byte prefix of the text must decode
//                  to null or to a tree with consistent parent links; the tree built through the API and encoded
//                  (compact; indented when text occurs only as a sole child) must decode to the same normalized tree;
//                  so must the specification's own serializations of the tree.
//   kind "prefix"/"bad": decode(text) must terminate with null or a tree with consistent parent links.
#include "c07_common.h"
#include "vrun.h"

using vrun::Outcome;

#define FAIL(...) do { char _b[900]; snprintf(_b, sizeof _b, __VA_ARGS__); return Outcome::fail(_b); } while (0)

static std::string showText(const std::string& s)
{
	std::string r;
	char b[8];
	for (size_t i = 0; i < s.size() && i < 120; i++)
	{
		unsigned char ch = (unsigned char)s[i];
		if (ch >= 32 && ch < 127 && ch != '\\') r += (char)ch; else { snprintf(b, sizeof b, "\\x%02x", ch); r += b; }
	}
	return r;
}

// builds the tree through the public API (text children as separate text nodes, so adjacent text nodes exist)
static Xml build(const vj::Value& t, int variant)
{
	if (t["k"].s() == "t") return XmlText(toStr(t["n"].bytes()));
	const vj::Value& a = t["a"];
	const vj::Value& c = t["c"];
	Xml e;
	if (variant % 2 == 0)
	{
		e = Xml(toStr(t["n"].bytes()));
		for (size_t i = 0; i < a.size(); i++) e.setAttr(toStr(a[i][0].bytes()), toStr(a[i][1].bytes()));
	}
	else
	{
		Map<> m;
		for (size_t i = 0; i < a.size(); i++) m[toStr(a[i][0].bytes())] = toStr(a[i][1].bytes());
		e = Xml(toStr(t["n"].bytes()), m);
	}
	for (size_t i = 0; i < c.size(); i++)
	{
		if (c[i]["k"].s() == "t" && variant % 3 == 1 && (i == 0 || c[i - 1]["k"].s() != "t"))
			e << toStr(c[i]["n"].bytes());          // operator<<(String): a new text node here (the previous child is not text)
		else
			e << build(c[i], variant + 1);
	}
	return e;
}

static Outcome sameTree(const Xml& got, const PNode& want, const char* what, const std::string& text)
{
	if (isNull(got) || got.isText()) FAIL("%s: decode returned %s, specification says %s; text: %s", what, isNull(got) ? "null" : "a text node",
	                                      showNode(want).c_str(), showText(text).c_str());
	if (checkParents(got) < 0) FAIL("%s: a child's parent() is not the element that contains it; text: %s", what, showText(text).c_str());
	PNode p = project(got);
	if (p != want) FAIL("%s: decoded tree %s differs from the specification's %s; text: %s", what, showNode(p).c_str(), showNode(want).c_str(), showText(text).c_str());
	return Outcome();
}

static Outcome anyResult(const std::string& text, const char* what)
{
	Xml e = Xml::decode(toStr(text));
	if (!isNull(e))
	{
		if (checkParents(e) < 0) FAIL("%s: a child's parent() is not the element that contains it; text: %s", what, showText(text).c_str());
		PNode p = project(e);   // touches every node, attribute and text
		(void)p;
	}
	return Outcome();
}

static Outcome runCase(const vj::Value& c)
{
	std::string text = c["text"].bytes();
	const std::string& kind = c["kind"].s();
	Outcome o;
	if (kind != "doc")
	{
		o = anyResult(text, kind.c_str());
		o.nontrivial = text.size() >= 4;
		return o;
	}
	PNode want = expected(c["exp"]);
	o = sameTree(Xml::decode(toStr(text)), want, "decode(document)", text);
	if (!o.ok) return o;
	for (size_t k = 0; k < text.size(); k++)
	{
		o = anyResult(text.substr(0, k), "decode(prefix of a document)");
		if (!o.ok) return o;
	}
	unsigned variant = (unsigned)vrun::fnv(text) % 6;
	Xml x = build(c["tree"], (int)variant);
	String compact = Xml::encode(x, false);
	o = sameTree(Xml::decode(compact), want, "decode(encode(tree, compact))", fromStr(compact));
	if (!o.ok) return o;
	if (c["sole"].b)
	{
		String ind = Xml::encode(x, true);
		o = sameTree(Xml::decode(ind), want, "decode(encode(tree, indented))", fromStr(ind));
		if (!o.ok) return o;
		std::string enci = c["enci"].bytes();
		o = sameTree(Xml::decode(toStr(enci)), want, "decode(indented serialization of the specification)", enci);
		if (!o.ok) return o;
	}
	std::string enc = c["enc"].bytes();
	o = sameTree(Xml::decode(toStr(enc)), want, "decode(compact serialization of the specification)", enc);
	if (!o.ok) return o;
	{
		Xml y = x.clone();
		o = sameTree(Xml::decode(Xml::encode(y, false)), want, "decode(encode(clone of the tree))", fromStr(compact));
		if (!o.ok) return o;
	}
	o.nontrivial = want.c.size() + want.a.size() >= 1;
	return o;
}

int main(int argc, char** argv) { return vrun::run(argc, argv, runCase); }
