// X01 part "log", V direction: seeded random driver of the real asl::Log writing ndjson events for spec/Trace_LogFile.tla.
// Executions (each starts with a "reset" event, an empty private directory, the default configuration and file 1):
//   kind 0  configuration calls and short messages over four files (filters, file switching, categories, overloads)
//   kind 1  rotation: mostly 64 KiB messages into one or two files until the 1 MB rule fired up to three times
//   kind 2  concurrent phases of 2..4 free-running threads with short messages between sequential stretches
//   kind 3  concurrent phase of 64 KiB messages started just below the rotation threshold
// After every call the files are read back and summarized; "check" events carry the projection of every line.  Log events
// carry the clock before and after the call (t0, t1), concurrent phases also the number of different Log::instance()
// pointers the threads saw.  The first execution of a process relies on the documented defaults (no enable/setMaxLevel/
// useFile call), the later ones set them explicitly (Log is a singleton and keeps its configuration).
#include "x01_log_calls.h"
#include "vrec.h"
#include <pthread.h>
#include <sched.h>
#include <set>

using namespace xlog;

static const int NFILES = 4;
static const int BIG = 65536;

struct Call { int c, d, via, lv, id, n, jitter; };

static std::string callJson(const Call& k, bool withOp)
{
	char b[200];
	snprintf(b, sizeof b, "%s\"c\":%d,\"d\":%d,\"via\":%d,\"lv\":%d,\"id\":%d,\"n\":%d", withOp ? "\"op\":\"log\"," : "", k.c, k.d, k.via, k.lv, k.id, k.n);
	return b;
}

static std::string summaries(const Dir& dir)
{
	std::string s = "\"s\":[";
	for (int f = 1; f <= NFILES; f++) { if (f > 1) s += ","; s += summaryJson(dir, f); }
	return s + "]";
}

static void check(vrec::Log& out, const Dir& dir)
{
	std::string s = "{\"op\":\"check\",\"fs\":[";
	for (int f = 1; f <= NFILES; f++) { if (f > 1) s += ","; s += fullJson(dir, f); }
	char b[40];
	snprintf(b, sizeof b, "],\"stray\":%d}", dir.stray(NFILES));
	out.line(s + b);
}

static Call randomCall(vrec::Rng& rng, int id, int n)
{
	Call k;
	k.via = rng.below(3);
	k.c = k.via == 2 ? 3 : rng.range(1, 2);
	k.d = k.via == 2 ? 0 : rng.below(4);
	k.lv = rng.chance(15) ? 4 : rng.below(4);
	k.id = id;
	k.n = n;
	k.jitter = rng.chance(65) ? 0 : rng.below(200);
	return k;
}

static volatile int g_go = 0;
struct Worker { std::vector<Call> calls; pthread_t th; asl::Log* first; asl::Log* last; };
static void* workerMain(void* p)
{
	Worker* w = (Worker*)p;
	while (!__atomic_load_n(&g_go, __ATOMIC_ACQUIRE)) sched_yield();
	w->first = asl::Log::instance();
	for (size_t i = 0; i < w->calls.size(); i++)
	{
		const Call& k = w->calls[i];
		if (k.jitter == 1) sched_yield();
		else if (k.jitter > 1) usleep((useconds_t)k.jitter);
		logCall(k.c, k.d, k.via, k.lv, k.id, k.n);
	}
	w->last = asl::Log::instance();
	return 0;
}

struct Run
{
	vrec::Rng& rng;
	vrec::Log& out;
	Dir& dir;
	int cur, nmsg;
	bool first;
	Run(vrec::Rng& r, vrec::Log& o, Dir& d) : rng(r), out(o), dir(d), cur(1), nmsg(0), first(true) {}

	void reset()
	{
		dir.clear();
		resetLog(dir, first);       // the first execution of the process starts from the documented defaults
		first = false;
		cur = 1;
		nmsg = 0;
		out.line("{\"op\":\"reset\"}");
	}
	void logOne(int n)
	{
		Call k = randomCall(rng, ++nmsg, n);
		long t0 = nowSeconds();
		logCall(k.c, k.d, k.via, k.lv, k.id, k.n);
		long t1 = nowSeconds();
		char b[80];
		snprintf(b, sizeof b, ",\"t0\":%ld,\"t1\":%ld,", t0, t1);
		out.line("{" + callJson(k, true) + b + summaries(dir) + "}");
	}
	void setFile(int f)
	{
		char b[80];
		asl::Log::setFile(dir.file(f).c_str());
		cur = f;
		snprintf(b, sizeof b, "{\"op\":\"setFile\",\"f\":%d,", f);
		out.line(b + summaries(dir) + "}");
	}
	void configOne()
	{
		char b[80];
		switch (rng.below(5))
		{
		case 0: { int k = rng.below(5); asl::Log::setMaxLevel(k); snprintf(b, sizeof b, "{\"op\":\"setMaxLevel\",\"k\":%d,", k); break; }
		case 1: { int on = rng.chance(60); asl::Log::enable(on != 0); snprintf(b, sizeof b, "{\"op\":\"enable\",\"on\":%d,", on); break; }
		case 2: { int on = rng.chance(65); asl::Log::useFile(on != 0); snprintf(b, sizeof b, "{\"op\":\"useFile\",\"on\":%d,", on); break; }
		case 3: setFile(rng.range(1, NFILES)); return;
		default: { int r = asl::Log::maxLevel(); snprintf(b, sizeof b, "{\"op\":\"maxLevel\",\"r\":%d,", r); break; }
		}
		out.line(b + summaries(dir) + "}");
	}
	void concurrent(int nthreads, int percall, int n)
	{
		std::vector<Worker> ws((size_t)nthreads);
		std::string s = "{\"op\":\"conc\",\"th\":[";
		for (int t = 0; t < nthreads; t++)
		{
			int cnt = percall > 1 ? rng.range(percall / 2, percall) : 1;
			s += t ? ",[" : "[";
			for (int i = 0; i < cnt; i++)
			{
				Call k = randomCall(rng, ++nmsg, n);
				if (i == 0) k.jitter = 0;       // all threads arrive together
				ws[(size_t)t].calls.push_back(k);
				if (i) s += ",";
				s += "{" + callJson(k, false) + "}";
			}
			s += "]";
		}
		long t0 = nowSeconds();
		__atomic_store_n(&g_go, 0, __ATOMIC_RELEASE);
		for (int t = 0; t < nthreads; t++)
			if (pthread_create(&ws[(size_t)t].th, 0, workerMain, &ws[(size_t)t])) { perror("pthread_create"); exit(2); }
		usleep(500);
		__atomic_store_n(&g_go, 1, __ATOMIC_RELEASE);
		for (int t = 0; t < nthreads; t++) pthread_join(ws[(size_t)t].th, 0);
		// Singleton: how many different objects Log::instance() handed to the threads and to the main thread
		std::set<asl::Log*> inst;
		inst.insert(asl::Log::instance());
		for (int t = 0; t < nthreads; t++) { inst.insert(ws[(size_t)t].first); inst.insert(ws[(size_t)t].last); }
		char b[120];
		snprintf(b, sizeof b, "],\"t0\":%ld,\"t1\":%ld,\"inst\":%d,\"obs\":", t0, nowSeconds(), (int)inst.size());
		out.line(s + b + fullJson(dir, cur) + "}");
	}
};

int main(int argc, char** argv)
{
	vrec::Args args(argc, argv);
	vrec::Rng rng(args.seed);
	vrec::Log out(args.out);
	unsetenv("ASL_LOG");
	Dir dir;
	Run run(rng, out, dir);
	while (out.lines < args.events)
	{
		int pick = rng.below(100);
		int kind = args.mode > 0 ? args.mode - 1 : pick < 30 ? 0 : pick < 50 ? 1 : pick < 75 ? 2 : 3;
		run.reset();
		if (kind == 0)
		{
			int ops = rng.range(10, 40);
			for (int i = 0; i < ops; i++)
			{
				if (rng.chance(45)) run.configOne(); else run.logOne(rng.chance(80) ? rng.range(8, 60) : rng.range(200, 3000));
				if (rng.chance(12)) check(out, dir);
			}
		}
		else if (kind == 1)
		{
			int ops = rng.range(30, 62);
			asl::Log::setMaxLevel(4);
			out.line("{\"op\":\"setMaxLevel\",\"k\":4," + summaries(dir) + "}");
			run.setFile(rng.range(1, NFILES));
			for (int i = 0; i < ops; i++)
			{
				if (rng.chance(8)) run.configOne(); else run.logOne(rng.chance(85) ? BIG + rng.below(2000) : rng.range(8, 60));
				if (rng.chance(6)) check(out, dir);
			}
		}
		else if (kind == 2)
		{
			int phases = rng.range(1, 3);
			for (int p = 0; p < phases; p++)
			{
				int pre = rng.range(0, 6);
				for (int i = 0; i < pre; i++) { if (rng.chance(40)) run.configOne(); else run.logOne(rng.range(8, 60)); }
				run.concurrent(rng.range(2, 4), rng.range(4, 24), rng.chance(50) ? rng.range(8, 40) : rng.range(3000, 9000));
				check(out, dir);
			}
		}
		else
		{
			asl::Log::setMaxLevel(4);
			out.line("{\"op\":\"setMaxLevel\",\"k\":4," + summaries(dir) + "}");
			int pre = rng.range(13, 17);        // the phase starts around the point where the 1 MB rule fires
			for (int i = 0; i < pre; i++) run.logOne(BIG + rng.below(2000));
			run.concurrent(rng.range(3, 4), rng.range(2, 4), BIG + 100);
			check(out, dir);
		}
		check(out, dir);
	}
	return 0;
}
