// k = "seek": histories of spec/FileModelSeek.tla on one real TextFile object and temporaries (included by c17_fs_replay.cpp)
#ifndef C17_FS_SEEK_H
#define C17_FS_SEEK_H
#ifdef C17_FS_REPLAY

#define SFAIL(...) do { char _b[1200]; snprintf(_b, sizeof _b, __VA_ARGS__); return Outcome::fail(where + ": " + _b); } while (0)

struct TempFiles
{
	std::vector<std::string> made;
	~TempFiles() { for (size_t i = 0; i < made.size(); i++) if (made[i].compare(0, 5, "/tmp/") == 0 && made[i].size() > 8) unlink(made[i].c_str()); }
};

static Outcome runSeek(const vj::Value& c)
{
	const vj::Value& hist = c["hist"];
	Outcome res;
	res.nontrivial = hist.size() >= 2;
	std::string w = g_tmp->sub();
	struct Cleanup { std::string w; ~Cleanup() { rmTree(w); } } cleanup = { w };
	std::string p = w + "/p";
	String P = toStr(p);
	TempFiles temps;
	time_t t0 = time(0);
	TextFile h(P);
	std::string where = "init";
	for (size_t step = 0; step < hist.size(); step++)
	{
		const vj::Value& o = hist[step];
		const std::string& op = o["op"].s();
		where = "step " + std::to_string(step) + " " + op;
		bool odd = (step & 1) != 0;
		std::string d = o["d"].bytes();
		std::string api = o["api"].s();
		if (op == "open")
		{
			std::string m = o["m"].s();
			File::OpenMode mode = m == "r" ? File::READ : m == "w" ? File::WRITE : m == "a" ? File::APPEND : File::RW;
			bool ok = odd ? h.open(mode) : h.File::open(P, mode);
			if (ok != o["r"].b) SFAIL("open(%s) returned %d, specification says %d", m.c_str(), (int)ok, (int)o["r"].b);
			if (ok != !!h) SFAIL("operator! disagrees with the result of open");
		}
		else if (op == "write")
		{
			if (api == "bin") { int k = h.File::write(d.data(), (int)d.size()); if (k != o["r"].i()) SFAIL("write returned %d, specification says %d", k, o["r"].i()); }
			else if (api == "str") { if (!h.write(toStr(d))) SFAIL("write(String) returned false"); }
			else if (api == "shl") h << toStr(d);
			else if (api == "int") h << o["n"].i();
			else if (api == "printf") { if (!h.printf("%d;", o["n"].i())) SFAIL("printf returned false"); }
			else SFAIL("harness: unknown api");
		}
		else if (op == "read")
		{
			int n = o["n"].i();
			std::string buf((size_t)n + 1, '\0');
			int k = h.read(&buf[0], n);
			std::string want = o["r"].bytes();
			if (k != (int)want.size() || buf.compare(0, (size_t)(k < 0 ? 0 : k), want) != 0)
				SFAIL("read(%d) returned %d bytes %s, specification says %s", n, k, show(buf.substr(0, (size_t)(k < 0 ? 0 : k))).c_str(), show(want).c_str());
		}
		else if (op == "seek")
		{
			const std::string& from = o["from"].s();
			h.seek((Long)o["off"].ll(), from == "start" ? File::START : from == "here" ? File::HERE : File::END);
		}
		else if (op == "pos")
		{
			Long k = h.position();
			if (k != o["r"].ll()) SFAIL("position() = %lld, specification says %lld", (long long)k, o["r"].ll());
		}
		else if (op == "end")
		{
			bool e = odd ? h.File::end() : h.end();
			if (e != o["r"].b) SFAIL("end() = %d, specification says %d", (int)e, (int)o["r"].b);
		}
		else if (op == "tend")
		{
			bool e = h.end();
			if (e != o["r"].b) SFAIL("TextFile::end() of the closed object = %d, specification says %d", (int)e, (int)o["r"].b);
			if (!!h != !o["r"].b) SFAIL("object is %s after TextFile::end()", !!h ? "open" : "closed");
		}
		else if (op == "flush") h.flush();
		else if (op == "close") { h.close(); if (!!h) SFAIL("still open after close()"); }
		else if (op == "hsize")
		{
			Long sz = h.size();
			if (sz != o["r"].ll()) SFAIL("size() through the object = %lld, specification says %lld", (long long)sz, o["r"].ll());
		}
		else if (op == "readline")
		{
			std::string want = o["r"].bytes();
			String s;
			bool ok = true;
			if (odd) s = h.readLine();
			else ok = h.readLine(s);
			if (fromStr(s) != want) SFAIL("readLine gives %s, specification says %s", show(fromStr(s)).c_str(), show(want).c_str());
			if (!odd && o["okdef"].b && ok != o["ok"].b) SFAIL("readLine(String&) returned %d, specification says %d", (int)ok, (int)o["ok"].b);
		}
		else if (op == "oput")
		{
			bool ok = true;
			if (api == "bin") ok = File(P).put(toBytes(d));
			else if (api == "text") ok = TextFile(P).put(toStr(d));
			else if (api == "int") TextFile(P) << o["n"].i();
			else if (api == "printf") ok = TextFile(P).printf("%d;", o["n"].i());
			else SFAIL("harness: unknown api");
			if (!ok) SFAIL("%s through a temporary object returned false", api.c_str());
		}
		else if (op == "oappend") { if (!TextFile(P).append(toStr(d))) SFAIL("append returned false"); }
		else if (op == "oremove") { if (!(odd ? File(P).remove() : Directory::remove(P))) SFAIL("remove returned false"); }
		else if (op == "settime")
		{
			bool ok = File(P).setLastModified(Date((double)o["t"].ll()));
			if (ok != o["r"].b) SFAIL("setLastModified returned %d, specification says %d", (int)ok, (int)o["r"].b);
		}
		else if (op == "temp")
		{
			std::string ext = o["ext"].bytes();
			File f = File::temp(toStr(ext));
			std::string tp = fromStr(f.path());
			if (tp.empty()) SFAIL("File::temp returned no path");
			for (size_t i = 0; i < temps.made.size(); i++)
				if (temps.made[i] == tp) SFAIL("File::temp returned %s twice", tp.c_str());
			temps.made.push_back(tp);
			if (tp.size() < ext.size() || tp.compare(tp.size() - ext.size(), ext.size(), ext) != 0) SFAIL("File::temp(\"%s\") made %s", ext.c_str(), tp.c_str());
			struct stat st;
			if (stat(tp.c_str(), &st) != 0 || !S_ISREG(st.st_mode) || st.st_size != 0) SFAIL("File::temp: %s is not an empty regular file", tp.c_str());
			if (!File(toStr(tp)).exists() || !File(toStr(tp)).isFile() || File(toStr(tp)).size() != 0) SFAIL("File::temp: the library does not see %s as an empty file", tp.c_str());
		}
		else SFAIL("harness: unknown op");
	}
	time_t t1 = time(0);
	where = "final";
	std::string want = c["c"].bytes();
	bool ex = c["ex"].b;
	std::string hm = c["hm"].s();
	if ((hm != "closed") != !!h) SFAIL("object is %s, specification says mode %s", !!h ? "open" : "closed", hm.c_str());
	if (c["pos"].ll() >= 0)
	{
		Long k = h.position();
		if (k != c["pos"].ll()) SFAIL("position() = %lld, specification says %lld", (long long)k, c["pos"].ll());
	}
	if (hm != "closed" && h.File::end() != c["eof"].b) SFAIL("end() = %d, specification says %d", (int)h.File::end(), (int)c["eof"].b);
	std::string disk;
	bool onDisk = posixRead(p, disk);
	if (onDisk != ex) SFAIL("file %s on disk, specification says %s", onDisk ? "exists" : "does not exist", ex ? "exists" : "absent");
	if (File(P).exists() != ex) SFAIL("exists() = %d, specification says %d", (int)!ex, (int)ex);
	if (c["settled"].b)
	{
		if (ex && disk != want) SFAIL("file on disk holds %s, specification says %s", show(disk).c_str(), show(want).c_str());
		Long sz = File(P).size();
		if (sz != (ex ? (Long)want.size() : -1)) SFAIL("size() = %lld, specification says %lld", (long long)sz, ex ? (long long)want.size() : -1LL);
		std::string got = fromBytes(File(P).content());
		if (got != want) SFAIL("content() = %s, specification says %s", show(got).c_str(), show(want).c_str());
		// times: none / some moment of this execution (the file system's clock may lag the wall clock by a tick) / what setLastModified said
		long long mt = c["mt"].ll();
		double lm = File(P).lastModified().time(), cd = File(P).creationDate().time();
		if (mt == 0) { if (lm != 0 || cd != 0) SFAIL("a missing file has times %.0f / %.0f", lm, cd); }
		else
		{
			if (mt == 1) { if (lm < (double)t0 - 1 || lm > (double)t1 + 1) SFAIL("lastModified() = %.0f, the file was written between %lld and %lld", lm, (long long)t0, (long long)t1); }
			else if (lm != (double)mt) SFAIL("lastModified() = %.0f, specification says %lld (setLastModified)", lm, mt);
			if (cd < (double)t0 - 1 || cd > (double)t1 + 1) SFAIL("creationDate() = %.0f, the file was made between %lld and %lld", cd, (long long)t0, (long long)t1);
		}
	}
	h.close();
	onDisk = posixRead(p, disk);
	if (onDisk != ex || (onDisk && disk != want)) SFAIL("after close() the file holds %s, specification says %s", show(disk).c_str(), show(want).c_str());
	if ((size_t)c["temps"].i() != temps.made.size()) SFAIL("harness: temp count");
	return res;
}
#endif
#endif
