// C16 (growth): the real File object behind spec/EndianFile.tla and the replay of its histories (k = "file").
// FileObj makes the public calls and hands back what they returned; runFile compares with what the case says.
#ifndef C16_FILE_H
#define C16_FILE_H
#include "c16_obj.h"
#include "vrun.h"

namespace c16 {

struct FileObj
{
	std::string path;
	File h; // the long-lived object: File(path), byte order ENDIAN_NATIVE, not open
	unsigned calls;
	explicit FileObj(const TmpDir& d) : path(d.file("pf")), h(String(path.c_str())), calls(0) {}
	~FileObj()
	{
		h.close();
		unlink(path.c_str());
	}
	bool init(bool exists, const std::string& d)
	{
		unlink(path.c_str());
		if (!exists) return true;
		int fd = ::open(path.c_str(), O_WRONLY | O_CREAT | O_TRUNC, 0644);
		if (fd < 0) return false;
		bool ok = d.empty() || ::write(fd, d.data(), d.size()) == (ssize_t)d.size();
		::close(fd);
		return ok;
	}
	static File::OpenMode modeOf(const std::string& m) { return m == "r" ? File::READ : m == "w" ? File::WRITE : m == "a" ? File::APPEND : File::RW; }
	bool open(const std::string& m) { return h.open(modeOf(m)); }
	void close() { h.close(); }
	void wset(Endian e) { h.setEndian(e); }
	template <class T> void put(const T& x) { h << x; }
	void putRaw(const char* p) { h << p; }
	int writeRaw(const std::string& d) { return h.write(d.data(), (int)d.size()); }
	void writeBytes(const std::string& d) { h << ByteArray((const byte*)d.data(), (int)d.size()); }
	void writeLenString(const std::string& s) { h << (int)s.size() << String(s.c_str(), (int)s.size()); }
	template <class T> void get(T& x) { if (++calls & 1) h >> x; else x = h.read<T>(); }
	std::string readRaw(int n, int& count)
	{
		std::string s((size_t)n + 1, '\0');
		count = h.read(&s[0], n);
		s.resize((size_t)(count < 0 ? 0 : count));
		return s;
	}
	std::string readLenString(int& len)
	{
		String x;
		h >> x;
		len = x.length();
		return len < 0 || len > (1 << 20) ? std::string("?") : std::string(*x, (size_t)len); // (an absurd length is reported, not copied)
	}
	void seek(long long off, const std::string& from) { h.seek((Long)off, from == "start" ? File::START : from == "here" ? File::HERE : File::END); }
	long long pos() { return (long long)h.position(); }
	bool end() { return h.end(); }
	bool err() { return h.error(); }
	void flush() { h.flush(); }
	// other objects on the path
	std::string ocontent() const
	{
		ByteArray a = File(String(path.c_str())).content();
		return std::string((const char*)a.data(), (size_t)a.length());
	}
	long long osize() const { return (long long)File(String(path.c_str())).size(); }
	std::string ofirst(int n) const
	{
		ByteArray a = File(String(path.c_str())).firstBytes(n);
		return std::string((const char*)a.data(), (size_t)a.length());
	}
	bool oput(const std::string& d) const { return File(String(path.c_str())).put(ByteArray((const byte*)d.data(), (int)d.size())); }
	// a second object with a position and a byte order of its own: opened for reading, seek, >> x, end()
	struct Second
	{
		File g;
		unsigned calls;
		Second(const std::string& path, Endian e, long long off) : g(String(path.c_str()), File::READ), calls(0)
		{
			g.setEndian(e);
			g.seek((Long)off);
		}
		template <class T> void get(T& x) { if (++calls & 1) g >> x; else x = g.read<T>(); }
	};
	bool oread(long long off, const std::string& t, const std::string& o, std::string& v, bool& eof) const
	{
		Second s(path, endianOf(o), off);
		if (!s.g) return false;
		if (!getScalar(s, t, v)) return false;
		eof = s.g.end();
		return true;
	}
	bool onDisk() const { return access(path.c_str(), F_OK) == 0; }
};

#define FFAIL(...) do { char _b[700]; snprintf(_b, sizeof _b, __VA_ARGS__); return vrun::Outcome::fail("File: step " + std::to_string(step) + " " + opname + ": " + _b); } while (0)

inline vrun::Outcome runFile(const vj::Value& c, const TmpDir& tmp)
{
	const vj::Value& hist = c["hist"];
	size_t step = 0;
	std::string opname = "init";
	FileObj f(tmp);
	bool open = false;
	for (step = 0; step < hist.size(); step++)
	{
		const vj::Value& o = hist[step];
		opname = o["op"].s();
		if (opname == "init") { if (!f.init(o["x"].b, o["d"].bytes())) FFAIL("harness: cannot create the file"); }
		else if (opname == "open")
		{
			bool r = f.open(o["m"].s());
			if (r != o["r"].b) FFAIL("open(%s) = %d, specification says %d", o["m"].s().c_str(), (int)r, (int)o["r"].b);
			if (r != (bool)f.h) FFAIL("open(%s) = %d but operator bool = %d", o["m"].s().c_str(), (int)r, (int)(bool)f.h);
			open = r;
		}
		else if (opname == "close") { f.close(); open = false; }
		else if (opname == "set") f.wset(endianOf(o["o"].s()));
		else if (opname == "oput") { if (!f.oput(o["d"].bytes())) FFAIL("File(path).put() = false"); }
		else if (opname == "ocontent")
		{
			std::string v = f.ocontent();
			if (v != o["r"].bytes()) FFAIL("File(path).content() = %s, specification says %s", hexs(v).c_str(), hexs(o["r"].bytes()).c_str());
		}
		else if (opname == "osize")
		{
			if (f.osize() != o["r"].ll()) FFAIL("File(path).size() = %lld, specification says %lld", f.osize(), o["r"].ll());
		}
		else if (opname == "ofirst")
		{
			std::string v = f.ofirst(o["n"].i());
			if (v != o["r"].bytes()) FFAIL("File(path).firstBytes(%d) = %s, specification says %s", o["n"].i(), hexs(v).c_str(), hexs(o["r"].bytes()).c_str());
		}
		else if (opname == "oread")
		{
			std::string v;
			bool e = false;
			if (!f.oread(o["off"].ll(), o["t"].s(), o["o"].s(), v, e)) FFAIL("a second File object cannot open the path for reading");
			if (o["ok"].b && v != o["v"].bytes()) FFAIL("a second File object reads the %s at %lld (%s) as %s, specification says %s", o["t"].s().c_str(), o["off"].ll(), o["o"].s().c_str(), hexs(v).c_str(), hexs(o["v"].bytes()).c_str());
			if (e != o["eof"].b) FFAIL("end() of the second File object = %d after reading a %s at %lld, specification says %d", (int)e, o["t"].s().c_str(), o["off"].ll(), (int)o["eof"].b);
		}
		else if (!open) FFAIL("harness: the object is not open");
		else if (opname == "w") { if (!putScalar(f, o["t"].s(), o["v"].bytes())) FFAIL("harness: unknown type"); }
		else if (opname == "wa")
		{
			std::vector<std::string> el;
			for (size_t k = 0; k < o["a"].size(); k++) el.push_back(o["a"][k].bytes());
			if (!putArray(f, o["t"].s(), el)) FFAIL("harness: unknown type");
		}
		else if (opname == "ws")
		{
			std::string s = o["s"].bytes();
			if ((step & 1) && s.find('\0') == std::string::npos) f.putRaw(s.c_str());
			else f.put(String(s.c_str(), (int)s.size()));
		}
		else if (opname == "wr")
		{
			int n = f.writeRaw(o["d"].bytes());
			if (n != o["r"].i()) FFAIL("write(p, %d) = %d, specification says %d", (int)o["d"].size(), n, o["r"].i());
		}
		else if (opname == "wls") f.writeLenString(o["s"].bytes());
		else if (opname == "wdenied")
		{
			if (o["typed"].b) f.writeBytes(o["d"].bytes());
			else
			{
				int n = f.writeRaw(o["d"].bytes());
				if (n != o["r"].i()) FFAIL("write(p, %d) on a file opened for reading = %d, specification says %d", (int)o["d"].size(), n, o["r"].i());
			}
		}
		else if (opname == "r")
		{
			std::string v;
			if (!getScalar(f, o["t"].s(), v)) FFAIL("harness: unknown type");
			if (o["ok"].b && v != o["v"].bytes()) FFAIL("%s read as %s, specification says %s", o["t"].s().c_str(), hexs(v).c_str(), hexs(o["v"].bytes()).c_str());
			if (f.end() != o["eof"].b) FFAIL("end() = %d after reading a %s (%s), specification says %d", (int)f.end(), o["t"].s().c_str(), o["ok"].b ? "complete" : "fewer bytes were left", (int)o["eof"].b);
		}
		else if (opname == "rr")
		{
			int n = -2;
			std::string v = f.readRaw(o["n"].i(), n);
			if (n != (int)o["r"].size()) FFAIL("read(p, %d) = %d, specification says %d", o["n"].i(), n, (int)o["r"].size());
			if (v != o["r"].bytes()) FFAIL("read(p, %d) delivered %s, specification says %s", o["n"].i(), hexs(v).c_str(), hexs(o["r"].bytes()).c_str());
			if (f.end() != o["eof"].b) FFAIL("end() = %d after read(p, %d) = %d, specification says %d", (int)f.end(), o["n"].i(), n, (int)o["eof"].b);
		}
		else if (opname == "rls")
		{
			int len = -1;
			std::string v = f.readLenString(len);
			if (len != (int)o["r"].size() || v != o["r"].bytes()) FFAIL(">> String = %s (length() %d), specification says %s%s", hexs(v).c_str(), len, hexs(o["r"].bytes()).c_str(), o["wf"].b ? "" : " (the input is not a length followed by that many bytes)");
			if (f.end() != o["eof"].b) FFAIL("end() = %d after >> String, specification says %d", (int)f.end(), (int)o["eof"].b);
		}
		else if (opname == "rdenied")
		{
			if (o["typed"].b) { short x = 0x5c5c; f.get(x); }
			else
			{
				int n = -2;
				f.readRaw(o["n"].i(), n);
				if (n != o["r"].i()) FFAIL("read(p, %d) on a file opened for writing = %d, specification says %d", o["n"].i(), n, o["r"].i());
			}
		}
		else if (opname == "seek") f.seek(o["off"].ll(), o["from"].s());
		else if (opname == "pos") { if (f.pos() != o["r"].ll()) FFAIL("position() = %lld, specification says %lld", f.pos(), o["r"].ll()); }
		else if (opname == "end") { if (f.end() != o["r"].b) FFAIL("end() = %d, specification says %d", (int)f.end(), (int)o["r"].b); }
		else if (opname == "err") { if (f.err() != o["r"].b) FFAIL("error() = %d, specification says %d", (int)f.err(), (int)o["r"].b); }
		else if (opname == "flush") f.flush();
		else FFAIL("harness: unknown op");
	}
	opname = "bytes";
	f.close();
	if (f.onDisk() != c["x"].b) FFAIL("the path %s, specification says it %s", f.onDisk() ? "exists" : "does not exist", c["x"].b ? "exists" : "does not");
	std::string got = posixRead(f.path), expect = c["out"].bytes();
	if (got != expect) FFAIL("the file holds %s, specification says %s", hexs(got).c_str(), hexs(expect).c_str());
	vrun::Outcome r;
	r.nontrivial = hist.size() >= 3;
	return r;
}

}
#endif
