// C10 (growth) replayer: cases printed by TLC from spec/HttpRedirect.tla (kind "redir"), HttpServerRules.tla ("rules"),
// HttpStatic.tla ("static") and HttpTransferCases.tla ("upload", "download", "body", "text", "route") are executed between the
// library's HTTP client (or a raw socket) and real HttpServers; the observation is compared with the values in the case.
#include "c10_site.h"
#include "vrun.h"

static std::string num(long long v) { return std::to_string(v); }

// ---- (1) redirects --------------------------------------------------------------------------------------------------
static std::string cmpRedirect(const vj::Value& c, const RedirObs& o)
{
	const vj::Value& vs = c["visits"];
	if (o.visits.size() != vs.size())
	{
		std::string seen;
		for (size_t i = 0; i < o.visits.size(); i++) seen += " " + num(o.visits[i].node);
		return "the server received " + num((long long)o.visits.size()) + " requests (nodes" + seen + "), the specification says " + num((long long)vs.size());
	}
	for (size_t i = 0; i < vs.size(); i++)
	{
		const RedirObs::V& v = o.visits[i];
		std::string at = "request " + num((long long)i + 1) + ": ";
		if (v.node != vs[i]["node"].i()) return at + "reached node " + num(v.node) + ", the specification says node " + num(vs[i]["node"].i());
		if (v.method != vs[i]["method"].s()) return at + "method " + v.method + ", the specification says " + vs[i]["method"].s();
		if (v.blen != vs[i]["blen"].i()) return at + "body of " + num(v.blen) + " bytes, the specification says " + num(vs[i]["blen"].i());
		if (v.bh != sentBodyHash(vs[i]["blen"].i())) return at + "body bytes differ from the body of the call";
		if (v.q != vs[i]["q"].b || v.qbad) return at + "query of the Location " + (v.q ? (v.qbad ? "arrived changed" : "arrived") : "did not arrive") + ", the specification says " + (vs[i]["q"].b ? "it is part of the target" : "there is none");
	}
	const vj::Value& out = c["out"];
	if (out["any"].b) return "";
	if (o.code != out["code"].i()) return "the call returned status " + num(o.code) + ", the specification says " + num(out["code"].i());
	if (out["gaveup"].b) return "";
	int node = out["node"].i();
	if (o.node != node) return "the call returned the body of node " + num(o.node) + ", the specification says node " + num(node);
	const vj::Value& n = c["site"][node - 1];
	if (o.locForm != n["form"].s() || (n["form"].s() != "none" && (o.locTo != n["to"].i() || o.locQ != n["q"].b)))
		return "the Location header of the returned response is not the one node " + num(node) + " sent (" + o.locForm + " " + num(o.locTo) + ")";
	return "";
}

// ---- (2) built-ins --------------------------------------------------------------------------------------------------
static std::set<std::string> splitList(const std::string& s)
{
	std::set<std::string> r;
	size_t p = 0;
	while (p <= s.size())
	{
		size_t q = s.find(',', p);
		if (q == std::string::npos) q = s.size();
		std::string t = s.substr(p, q - p);
		while (!t.empty() && t[0] == ' ') t.erase(0, 1);
		while (!t.empty() && t[t.size() - 1] == ' ') t.erase(t.size() - 1);
		if (!t.empty()) r.insert(t);
		p = q + 1;
	}
	return r;
}
static std::string cmpRules(const vj::Value& c, const RulesObs& o)
{
	const vj::Value& hist = c["hist"];
	if (!o.note.empty()) return "harness: " + o.note;
	for (size_t i = 0; i < hist.size(); i++)
	{
		const vj::Value& r = hist[i]["req"];
		const vj::Value& a = hist[i]["ans"];
		std::string at = "request " + num((long long)i + 1) + " (" + r["method"].s() + " HTTP/" + r["ver"].s() + "): ";
		if (i >= o.xs.size() || o.xs[i].code < 0) return at + "no complete response";
		const RulesObs::X& x = o.xs[i];
		if (x.interim.size() != a["interim"].size()) return at + num((long long)x.interim.size()) + " interim responses, the specification says " + num((long long)a["interim"].size());
		for (size_t k = 0; k < x.interim.size(); k++)
			if (x.interim[k] != a["interim"][k].i()) return at + "interim response " + num(x.interim[k]) + ", the specification says " + num(a["interim"][k].i());
		if (x.code != a["code"].i()) return at + "status " + num(x.code) + ", the specification says " + num(a["code"].i());
		if (r["ver"].s() == "1.1" && x.proto != "HTTP/1.1") return at + "answered with protocol '" + x.proto + "'";
		if (x.proto != "HTTP/1.1" && x.proto != "HTTP/1.0") return at + "answered with protocol '" + x.proto + "'";
		if (x.unclosed) return at + "the response has no length and the server did not close the connection to end it";
		if (x.handlerRuns != (a["handler"].b ? 1 : 0)) return at + "the application's handler ran " + num(x.handlerRuns) + " times, the specification says " + (a["handler"].b ? "once" : "not at all");
		if (a["handler"].b)
		{
			if (x.hmethod != r["method"].s()) return at + "the handler saw method " + x.hmethod;
			if (x.hblen != r["blen"].i() || x.hbh != rulesReqBodyHash(r["blen"].i(), (int)i + 1)) return at + "the handler saw a body of " + num(x.hblen) + " bytes (or other bytes), sent " + num(r["blen"].i());
			if (x.blen != a["blen"].i() || x.bh != rulesRespBodyHash(a["blen"].i(), (int)i + 1)) return at + "response body of " + num(x.blen) + " bytes (or other bytes), the handler produced " + num(a["blen"].i());
		}
		else if (x.blen != a["blen"].i()) return at + "response body of " + num(x.blen) + " bytes, the specification says " + num(a["blen"].i());
		const vj::Value& must = a["must"];
		for (size_t k = 0; k < must.size(); k++)
		{
			std::string name = must[k]["name"].s();
			std::map<std::string, std::string>::const_iterator it = x.h.find(lower(name));
			if (it == x.h.end()) return at + "header " + name + " is missing";
			if (must[k]["kind"].s() == "text")
			{
				if (it->second != must[k]["v"].bytes()) return at + "header " + name + " is " + vj::quote(it->second) + ", the specification says " + vj::quote(must[k]["v"].bytes());
			}
			else
			{
				std::set<std::string> want, got = splitList(it->second);
				for (size_t j = 0; j < must[k]["l"].size(); j++) want.insert(must[k]["l"][j].s());
				if (want != got) return at + "header " + name + " lists " + vj::quote(it->second) + ", which is not the specification's set of methods";
			}
		}
		const vj::Value& mustnot = a["mustnot"];
		for (size_t k = 0; k < mustnot.size(); k++)
			if (x.h.count(lower(mustnot[k].s()))) return at + "header " + mustnot[k].s() + " is present, the specification says it must not be";
	}
	int wantOpen = c["open"].b ? 1 : 0;
	if (o.open != wantOpen)
		return std::string("after the last exchange the connection is ") + (o.open == 1 ? "still served" : o.open == 0 ? "closed by the server" : "neither closed nor served") +
		       ", the specification says " + (wantOpen ? "it stays open" : "the server closes it");
	return "";
}

// ---- (3) static files ---------------------------------------------------------------------------------------------
static std::string cmpStatic(const vj::Value& c, const StaticObs& o)
{
	const vj::Value& hist = c["hist"];
	size_t gi = 0;
	for (size_t i = 0; i < hist.size(); i++)
	{
		if (hist[i]["op"].s() != "get") continue;
		const vj::Value& r = hist[i]["req"];
		const vj::Value& e = hist[i]["res"];
		std::string at = "operation " + num((long long)i + 1) + " (" + r["method"].s() + " " + joinSegs(r["segs"]) + (r["slash"].b ? "/" : "") +
		                 (r["ims"].ll() >= 0 ? " If-Modified-Since " + num(r["ims"].ll()) : "") + "): ";
		if (gi >= o.gets.size()) return at + "not executed";
		const StaticObs::G& g = o.gets[gi++];
		if (g.code != e["code"].i()) return at + "status " + num(g.code) + ", the specification says " + num(e["code"].i());
		if (!e["ctype"].s().empty() && g.ctype != e["ctype"].s()) return at + "Content-Type '" + g.ctype + "', the specification says '" + e["ctype"].s() + "'";
		if (e["lm"].ll() >= 0)
		{
			if (!g.hasLM || !g.lmOk) return at + "Last-Modified is missing or not an HTTP date";
			if (g.lm != e["lm"].ll()) return at + "Last-Modified is " + num(g.lm) + ", the file's modification time is " + num(e["lm"].ll());
		}
		if (e["code"].i() == 301)
		{
			std::string want = joinSegs(e["loc"]) + "/";
			if (!g.hasLoc || !g.locHere || g.locPath != want) return at + "Location is '" + g.locPath + "', the specification says this host and '" + want + "'";
		}
		const vj::Value& b = e["body"];
		if (b["k"].s() == "none" && g.blen != 0) return at + "a body of " + num(g.blen) + " bytes, the specification says none";
		if (b["k"].s() == "file")
		{
			if (g.blen != b["len"].i()) return at + "a body of " + num(g.blen) + " bytes, the specification says " + num(b["len"].i());
			if (g.blen > 0 && (g.bf != b["f"].i() || g.bver != b["ver"].i() || g.bfrom != b["from"].i()))
				return at + "the body is content of file " + num(g.bf) + " version " + num(g.bver) + " from byte " + num(g.bfrom) + ", the specification says file " +
				       num(b["f"].i()) + " version " + num(b["ver"].i()) + " from byte " + num(b["from"].i());
			if (!g.hasDate || !g.dateOk) return at + "Date header missing or not an HTTP date";
			if (e["code"].i() == 206)
			{
				std::string want = "bytes " + num(b["from"].i()) + "-" + num(b["from"].i() + b["len"].i() - 1) + "/" + num(b["size"].i());
				if (g.crange != want) return at + "Content-Range '" + g.crange + "', the specification says '" + want + "'";
			}
		}
		std::string cc = e["cc"].s();
		if (cc == "*" && (!g.hasCC || g.cc.empty())) return at + "no Cache-Control";
		if (cc != "*" && !cc.empty() && g.cc != cc) return at + "Cache-Control '" + g.cc + "', the application set '" + cc + "'";
	}
	return "";
}

// ---- (4) transfers ------------------------------------------------------------------------------------------------
// matches `text` against parts (literals and holes); "boundary" holes must all have the same value, taken from the first one
static bool fillParts(const vj::Value& parts, const std::string& boundary, const std::string& file, std::string& out)
{
	out.clear();
	for (size_t i = 0; i < parts.size(); i++)
	{
		const std::string& h = parts[i]["hole"].s();
		if (h == "boundary") out += boundary;
		else if (h == "file") out += file;
		else out += parts[i]["lit"].bytes();
	}
	return true;
}
static std::string cmpTransfer(const vj::Value& c, const XferObs& o)
{
	std::string kind = c["kind"].s();
	const vj::Value& w = c["view"];
	if (kind == "upload")
	{
		if (o.ret != w["ret"].b) return std::string("upload() returned ") + (o.ret ? "true" : "false") + ", the specification says " + (w["ret"].b ? "true" : "false");
		if (o.calls != (w["called"].b ? 1 : 0)) return "the handler ran " + num(o.calls) + " times, the specification says " + (w["called"].b ? "once" : "not at all");
		if (!w["called"].b) return "";
		if (o.v.method != w["method"].s()) return "the handler saw method " + o.v.method;
		// Content-Type: literal prefix, then the boundary the library chose
		const vj::Value& ct = w["ctype"];
		std::string boundary;
		if (ct.size() == 2)
		{
			std::string pre = ct[0]["lit"].bytes();
			if (o.v.ctype.compare(0, pre.size(), pre) != 0) return "Content-Type is '" + o.v.ctype + "', the specification says it starts with '" + pre + "'";
			boundary = o.v.ctype.substr(pre.size());
			if (boundary.empty() || (int)boundary.size() > w["bmax"].i())
				return "the multipart boundary has " + num((long long)boundary.size()) + " characters, RFC 2046 allows 1.." + num(w["bmax"].i());
			std::vector<int> ok = w["bchars"].ints();
			for (size_t i = 0; i < boundary.size(); i++)
			{
				bool in = false;
				for (size_t k = 0; k < ok.size(); k++) in = in || ok[k] == (unsigned char)boundary[i];
				if (!in) return "the multipart boundary contains a character outside bchars";
			}
			if (boundary[boundary.size() - 1] == ' ') return "the multipart boundary ends with a blank";
		}
		else if (o.v.ctype != ct[0]["lit"].bytes()) return "Content-Type is '" + o.v.ctype + "', the caller set '" + ct[0]["lit"].bytes() + "'";
		std::string want;
		fillParts(w["body"], boundary, o.sent, want);
		if (o.v.body.size() != want.size()) return "the handler received " + num((long long)o.v.body.size()) + " body bytes, the envelope of the specification has " + num((long long)want.size());
		if (o.v.body != want) return "the body the handler received differs from the envelope of the specification";
		if (o.v.clen != num((long long)want.size())) return "Content-Length was '" + o.v.clen + "', the body has " + num((long long)want.size()) + " bytes";
		return "";
	}
	if (kind == "download")
	{
		if (o.ret != w["ret"].b) return std::string("download() returned ") + (o.ret ? "true" : "false") + ", the specification says " + (w["ret"].b ? "true" : "false");
		if (o.calls != 1) return "the handler ran " + num(o.calls) + " times";
		if (o.v.method != w["method"].s()) return "the handler saw method " + o.v.method;
		for (size_t i = 0; i < w["headers"].size(); i++)
			if (!o.v.hdr.count(w["headers"][i][0].bytes()) || o.v.hdr.find(w["headers"][i][0].bytes())->second != w["headers"][i][1].bytes())
				return "the handler did not see the header " + w["headers"][i][0].bytes() + " passed to download()";
		if (!w["file"]["any"].b)
		{
			const vj::Value& d = c["down"];
			int n = w["file"]["blen"].i();
			if (!o.fileExists) return "no file was written";
			if ((int)o.fileContent.size() != n) return "the downloaded file has " + num((long long)o.fileContent.size()) + " bytes, the specification says " + num(n);
			if (d["kind"].s() == "file")
			{
				for (int i = 0; i < n; i++)
					if ((unsigned char)o.fileContent[(size_t)i] != fileByte(n, i, 5)) return "downloaded byte " + num(i) + " differs";
			}
			else
			{
				ByteArray want = makeBody(n, d["bseed"].ll());
				if (memcmp(want.data(), o.fileContent.data(), (size_t)n) != 0) return "the downloaded file differs from the body the handler produced";
			}
			if (!o.progressMono) return "progress reports went backwards";
			if (n > 0 && (o.progressCalls == 0 || o.progressLast != w["progressEnd"].i())) return "the last progress report says " + num(o.progressLast) + " bytes received, the body has " + num(w["progressEnd"].i());
		}
		return "";
	}
	if (o.calls != 1) return "the handler ran " + num(o.calls) + " times";
	if (kind == "body")
	{
		if (o.v.ctype != w["ctype"].bytes()) return "Content-Type is '" + o.v.ctype + "', the specification says '" + w["ctype"].bytes() + "'";
		if (c["body"]["kind"].s() == "json") return o.v.jsonEq ? "" : "json() in the handler is not the value that was sent";
		for (size_t i = 0; i < w["bodies"].size(); i++)
			if (o.v.body == w["bodies"][i].bytes()) return "";
		return "the form body " + vj::quote(o.v.body) + " is none of the encodings the specification allows";
	}
	if (kind == "text")
	{
		const std::string& got = c["dir"].s() == "req" ? o.v.text : o.clientText;
		return got == w.bytes() ? "" : "text() gives " + vj::quote(got) + ", the body was " + vj::quote(w.bytes());
	}
	if (kind == "route")
	{
		if (o.v.route.size() != w.size()) return "routing calls not executed";
		for (size_t i = 0; i < w.size(); i++)
		{
			const vj::Value& call = c["route"]["calls"][i];
			std::string what = "is(" + (call["meth"].s().empty() ? "" : "\"" + call["meth"].s() + "\", ") + vj::quote(call["pat"].bytes()) + ") on " + c["route"]["method"].s() + " " + o.v.path + " ";
			if (o.v.route[i].first != w[i]["ok"].b) return what + "returned " + (o.v.route[i].first ? "true" : "false") + ", the specification says " + (w[i]["ok"].b ? "true" : "false");
			if (w[i]["sdef"].b && o.v.route[i].second != w[i]["suffix"].bytes()) return what + "gives suffix " + vj::quote(o.v.route[i].second) + ", the specification says " + vj::quote(w[i]["suffix"].bytes());
		}
		return "";
	}
	return "harness: unknown kind " + kind;
}

static vrun::Outcome runCase(const vj::Value& c)
{
	ensureSite(4711);
	std::string kind = c["kind"].s(), err;
	if (kind == "redir") err = cmpRedirect(c, runRedirect(c));
	else if (kind == "rules") err = cmpRules(c, runRules(c));
	else if (kind == "static") err = cmpStatic(c, runStatic(c, true));
	else err = cmpTransfer(c, runTransfer(c));
	if (!err.empty()) return vrun::Outcome::fail(kind + ": " + err);
	return vrun::Outcome();
}

int main(int argc, char** argv)
{
	return vrun::run(argc, argv, runCase);
}
