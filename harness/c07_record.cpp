// C07 recorder (V): seeded random driver of Xml::encode / Xml::decode.
//   "rt"  events: a random element tree (depth up to 12; well-formed names; attribute values and text with & < > " '
//         white space, control and non-ASCII bytes; adjacent, empty and whitespace-only text nodes) is built through the
//         API, encoded (compact, or indented when text occurs only as a sole child) and decoded again; both trees and the
//         encoder's text are logged.
//   "dec" events: documents assembled from encoder output plus prolog / DOCTYPE / comments / PIs / references, then
//         truncated or mutated, and random byte strings; the input and the decoded tree are logged.
// Trees are logged as node tables with the parent() link of every node.  spec/Trace_XmlText.tla judges every line.
#include "c07_common.h"
#include "vrec.h"

using namespace vrec;

static std::string randName(Rng& r)
{
	static const char start[] = "abcxyzABZ_:";
	static const char rest[] = "abcxyzABZ_:-.0189";
	std::string s;
	if (r.chance(12)) { s += (char)0xC3; s += (char)(0xA0 + r.below(30)); }   // non-ASCII letter
	else s += start[r.below((int)sizeof start - 1)];
	int n = r.below(7);
	for (int i = 0; i < n; i++)
	{
		if (r.chance(6)) { s += (char)(0x80 + r.below(0x80)); }
		else s += rest[r.below((int)sizeof rest - 1)];
	}
	return s;
}

static std::string randText(Rng& r, int maxLen)
{
	static const char special[] = "&<>\"' \t\n\r;#x=/!?-[]";
	std::string s;
	int n = r.below(maxLen + 1);
	int style = r.below(5);
	for (int i = 0; i < n; i++)
	{
		int b;
		if (style == 0) b = " \t\n\r"[r.below(4)];                                   // whitespace only
		else if (style == 1 || r.chance(25)) b = (unsigned char)special[r.below((int)sizeof special - 1)];
		else if (style == 2) b = 1 + r.below(255);                                  // anything but NUL
		else if (r.chance(15)) b = 0x80 + r.below(0x80);
		else b = 32 + r.below(95);
		s += (char)b;
	}
	return s;
}

struct Gen
{
	Rng& r;
	bool sole;      // text only as the sole child of its element
	int budget;     // remaining nodes
	Gen(Rng& rr, bool s, int b) : r(rr), sole(s), budget(b) {}
	Xml elem(int depth, int maxDepth)
	{
		budget--;
		Xml e(toStr(randName(r)));
		int na = r.chance(50) ? 0 : r.below(4);
		for (int i = 0; i < na; i++) e.setAttr(toStr(randName(r)), toStr(randText(r, 12)));
		if (depth >= maxDepth || budget <= 0) { if (r.chance(40)) e << (Xml)XmlText(toStr(randText(r, 20))); return e; }
		int shape = r.below(10);
		if (shape < 2) return e;                                     // empty element
		if (shape < 4) { e << (Xml)XmlText(toStr(randText(r, r.chance(4) ? 2500 : 40))); return e; }   // sole text (sometimes long)
		int nk = 1 + r.below(depth < 3 ? 5 : 3);
		for (int i = 0; i < nk && budget > 0; i++)
		{
			if (!sole && r.chance(35))
			{
				e << (Xml)XmlText(toStr(randText(r, 16)));
				if (r.chance(25)) e << (Xml)XmlText(toStr(randText(r, 6)));   // adjacent text node
			}
			else
				e << elem(depth + 1, maxDepth);
		}
		return e;
	}
};

// preorder table; p = id of the node that parent() designates (0 for the root, 999999 if it is none of the tree's nodes)
static void tableRec(const Xml& e, int id, int reportedParent, std::vector<std::string>& rows, std::vector<Xml>& nodes)
{
	std::string row = "{\"k\":\"";
	row += e.isText() ? "t" : "e";
	row += "\",\"n\":" + vj::codes(fromStr(e.isText() ? e.text() : e.tag())) + ",\"a\":[";
	if (!e.isText())
	{
		bool first = true;
		foreach2(String& k, const String& v, e.attribs())
		{
			row += (first ? "" : ",") + std::string("[") + vj::codes(fromStr(k)) + "," + vj::codes(fromStr(v)) + "]";
			first = false;
		}
	}
	row += "],\"c\":[";
	rows.push_back("");
	size_t me = rows.size() - 1;
	std::vector<int> kids;
	if (!e.isText())
		for (int i = 0; i < e.numChildren(); i++)
		{
			const Xml& c = e.child(i);
			int cid = (int)nodes.size() + 1;
			nodes.push_back(c);
			kids.push_back(cid);
			int rp = 999999;
			Xml par = c.parent();
			if (par == e) rp = id;
			else
				for (size_t k = 0; k < nodes.size(); k++)
					if (par == nodes[k]) { rp = (int)k + 1; break; }
			tableRec(c, cid, rp, rows, nodes);
		}
	row += vj::intlist(kids.begin(), kids.end()).substr(1);
	row += "," + kv("p", reportedParent) + "}";
	rows[me] = row;
}

static std::string table(const Xml& e)
{
	if (isNull(e)) return "[]";
	std::vector<std::string> rows;
	std::vector<Xml> nodes;
	nodes.push_back(e);
	tableRec(e, 1, 0, rows, nodes);
	std::string s = "[";
	for (size_t i = 0; i < rows.size(); i++) s += (i ? "," : "") + rows[i];
	return s + "]";
}

static std::string mutate(Rng& r, std::string t)
{
	static const char* toks[] = { "<", ">", "/", "&", ";", "\"", "'", "=", " ", "</", "/>", "<!--", "-->", "<?", "?>", "<!", "<![CDATA[", "]]>",
	                              "&#", "&#x", "&amp;", "&lt", "<a>", "</a>", "<b/>", "</>", "--", "\n", "\xc3", "\xff", "<!DOCTYPE x [", "]>", "x", "?" };
	int n = 1 + r.below(3);
	for (int k = 0; k < n; k++)
	{
		size_t p = t.empty() ? 0 : (size_t)r.below((int)t.size() + 1);
		switch (r.below(6))
		{
		case 0: t = t.substr(0, p); break;
		case 1: t.insert(p, toks[r.below((int)(sizeof toks / sizeof toks[0]))]); break;
		case 2: if (p < t.size()) t.erase(p, (size_t)(1 + r.below(4))); break;
		case 3: if (p < t.size()) t[p] = (char)(1 + r.below(255)); break;
		case 4: if (p < t.size()) t.insert(p, t.substr(p, (size_t)(1 + r.below(8)))); break;
		default: if (p < t.size()) { size_t q = (size_t)r.below((int)t.size()); std::swap(t[p], t[q]); } break;
		}
	}
	return t;
}

// a document with lexical variety around / inside encoder output (valid pieces only; mutation comes afterwards)
static std::string dress(Rng& r, const std::string& body)
{
	std::string d;
	if (r.chance(40)) d += r.chance(50) ? "<?xml version=\"1.0\"?>" : "<?xml version=\"1.0\" encoding=\"UTF-8\"?>\n";
	if (r.chance(30)) d += "<!-- head -->\n";
	if (r.chance(25)) d += r.chance(50) ? "<!DOCTYPE r [<!ELEMENT r (a|b)*> <!ATTLIST r x CDATA #IMPLIED>]>\n" : "<!DOCTYPE r SYSTEM 'r.dtd'>";
	if (r.chance(25)) d += "<?style href=\"a.css\" ?>";
	std::string b = body;
	// inside: comments / PIs / references at tag boundaries
	for (int k = r.below(4); k > 0; k--)
	{
		size_t p = b.find('>', (size_t)r.below((int)b.size() + 1));
		if (p == std::string::npos) break;
		static const char* ins[] = { "<!-- c -->", "<?pi x?>", "<!---->", "&#65;", "&#x263A;", "&amp;", "<!-- <x> & -->" };
		b.insert(p + 1, ins[r.below(7)]);
	}
	d += b;
	if (r.chance(30)) d += "\n<!-- tail -->";
	if (r.chance(30)) d += "\n";
	return d;
}

int main(int argc, char** argv)
{
	Args args(argc, argv);
	Rng rng(args.seed);
	Log log(args.out);
	bool avoidClose = args.avoid.count("CloseAnonymousRoot") > 0;
	log.line("{\"e\":\"reset\"}");
	for (long ev = 0; ev < args.events; ev++)
	{
		int kind = rng.below(100);
		bool sole = rng.chance(50);
		int maxDepth = rng.chance(20) ? 12 : rng.chance(50) ? 1 + rng.below(3) : 3 + rng.below(6);
		Gen g(rng, sole, 6 + rng.below(rng.chance(15) ? 120 : 40));
		Xml tree = g.elem(0, maxDepth);
		if (kind < 55)
		{
			int fmt = sole && rng.chance(60) ? 1 : 0;
			String text = Xml::encode(tree, fmt != 0);
			Xml dec = Xml::decode(text);
			log.line("{\"e\":\"rt\"," + kv("fmt", fmt) + ",\"orig\":" + table(tree) + ",\"text\":" + vj::codes(fromStr(text)) + "," +
			         kv("null", isNull(dec) ? 1 : 0) + ",\"dec\":" + table(dec) + "}");
		}
		else
		{
			std::string in;
			int how = rng.below(10);
			if (how < 3) in = dress(rng, fromStr(Xml::encode(tree, rng.chance(50))));                   // valid documents with lexical variety
			else if (how < 8) in = mutate(rng, dress(rng, fromStr(Xml::encode(tree, rng.chance(50)))));  // mutated / truncated
			else if (how < 9)
			{
				static const char al[] = "<>/=\"'&;#!?-ab x\n[]";
				int n = rng.below(60);
				for (int i = 0; i < n; i++) in += al[rng.below((int)sizeof al - 1)];
			}
			else
			{
				int n = rng.below(80);
				for (int i = 0; i < n; i++) in += (char)(1 + rng.below(255));
			}
			if (avoidClose && in.find("</>") != std::string::npos) { ev--; continue; }
			Xml dec = Xml::decode(toStr(in));
			log.line("{\"e\":\"dec\",\"text\":" + vj::codes(in) + "," + kv("null", isNull(dec) ? 1 : 0) + ",\"dec\":" + table(dec) + "}");
		}
	}
	return 0;
}
