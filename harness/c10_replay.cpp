// C10 replayer: each case (emitted by TLC from spec/HttpCases.tla) is one exchange between the library's HTTP client
// and a real HttpServer on loopback; the handler's and the client's observations are compared with the
// specification's HandlerView / ClientView.
#include "c10_common.h"
#include "vrun.h"

static vrun::Outcome runCase(const vj::Value& c)
{
	ensureServer(12345);
	std::string err = exchange(c, c["id"].ll());
	if (!err.empty()) return vrun::Outcome::fail(err);
	return vrun::Outcome();
}

int main(int argc, char** argv)
{
	return vrun::run(argc, argv, runCase);
}
