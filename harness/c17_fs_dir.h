// k = "dir": histories of spec/FileModelDir.tla on a real directory tree (included by c17_fs_replay.cpp and c17_fs_record.cpp)
#ifndef C17_FS_DIR_H
#define C17_FS_DIR_H

namespace c17 {

inline std::string joinSegs(const vj::Value& segs)
{
	std::string r;
	for (size_t i = 0; i < segs.size(); i++) r += (i ? "/" : "") + segs[i].bytes();
	return r;
}
// absolute path of a node (array of names) below the work directory w
inline std::string nodePath(const std::string& w, const vj::Value& n)
{
	return n.size() ? w + "/" + joinSegs(n) : w;
}
// the path string of a call argument: [abs, segs, sl]
inline std::string argPath(const std::string& w, const vj::Value& xp)
{
	std::string p = xp["abs"].b ? nodePath(w, xp["segs"]) : joinSegs(xp["segs"]);
	if (xp["sl"].b) p += "/";
	return p;
}

struct Found { char kind; std::string content; };
// what is really there, seen through POSIX only (relative names below w)
inline void walk(const std::string& w, const std::string& rel, std::map<std::string, Found>& out)
{
	std::string dir = rel.empty() ? w : w + "/" + rel;
	DIR* d = opendir(dir.c_str());
	if (!d) return;
	while (dirent* e = readdir(d))
	{
		if (!strcmp(e->d_name, ".") || !strcmp(e->d_name, "..")) continue;
		std::string r = rel.empty() ? e->d_name : rel + "/" + e->d_name;
		std::string p = w + "/" + r;
		struct stat st;
		Found f;
		f.kind = '?';
		if (lstat(p.c_str(), &st) == 0) f.kind = S_ISDIR(st.st_mode) ? 'd' : S_ISREG(st.st_mode) ? 'f' : '?';
		if (f.kind == 'f') posixRead(p, f.content);
		out[r] = f;
		if (f.kind == 'd') walk(w, r, out);
	}
	closedir(d);
}

inline std::string showSet(const std::set<std::string>& s)
{
	std::string r = "{";
	for (std::set<std::string>::const_iterator i = s.begin(); i != s.end(); ++i) r += (i == s.begin() ? "" : ", ") + *i;
	return r + "}";
}

}

#ifdef C17_FS_REPLAY
#define DFAIL(...) do { char _b[1400]; snprintf(_b, sizeof _b, __VA_ARGS__); return Outcome::fail(where + ": " + _b); } while (0)

// one listing compared with the specification's sets of names
static Outcome checkListing(const std::string& where, const std::string& dirpath, const std::string& patt, const char* what,
                            const Array<File>& got, const vj::Value& want, const std::map<std::string, Found>& tree, const std::string& rel)
{
	std::set<std::string> w, g;
	for (size_t i = 0; i < want.size(); i++) w.insert(want[i].bytes());
	for (int i = 0; i < got.length(); i++)
	{
		std::string nm = fromStr(got[i].name());
		if (!g.insert(nm).second) DFAIL("%s(\"%s\") of %s lists %s twice", what, patt.c_str(), dirpath.c_str(), nm.c_str());
		std::string full = dirpath + (dirpath.size() && dirpath[dirpath.size() - 1] == '/' ? "" : "/") + nm;
		if (fromStr(got[i].path()) != full) DFAIL("%s(\"%s\") of %s: item path %s, expected %s", what, patt.c_str(), dirpath.c_str(), *got[i].path(), full.c_str());
		std::map<std::string, Found>::const_iterator it = tree.find(rel.empty() ? nm : rel + "/" + nm);
		if (it != tree.end())
		{
			// the File objects handed out carry the information of the item
			File f = got[i];
			if (f.isDirectory() != (it->second.kind == 'd')) DFAIL("%s: item %s isDirectory() = %d", what, full.c_str(), (int)f.isDirectory());
			if (it->second.kind == 'f' && f.size() != (Long)it->second.content.size())
				DFAIL("%s: item %s size() = %lld, the file holds %zu bytes", what, full.c_str(), (long long)f.size(), it->second.content.size());
			if (f.lastModified().time() == 0 || f.creationDate().time() == 0) DFAIL("%s: item %s has no dates", what, full.c_str());
		}
	}
	if (g != w) DFAIL("%s(\"%s\") of %s lists %s, specification says %s", what, patt.c_str(), dirpath.c_str(), showSet(g).c_str(), showSet(w).c_str());
	return Outcome();
}

// compares the real tree below w (POSIX), every node query and every listing with the specification's observation
static Outcome observeTree(const std::string& where0, const std::string& w, const vj::Value& c, size_t salt)
{
	std::string where = where0 + " observe";
	std::map<std::string, Found> tree;
	walk(w, "", tree);
	const vj::Value& nodes = c["nodes"];
	std::set<std::string> expected;
	for (size_t i = 0; i < nodes.size(); i++)
	{
		std::string rel = joinSegs(nodes[i]["n"]);
		char k = nodes[i]["k"].s()[0];
		std::string want = nodes[i]["c"].bytes();
		expected.insert(rel);
		std::map<std::string, Found>::const_iterator it = tree.find(rel);
		if (it == tree.end()) DFAIL("%s is missing on disk, specification says it is a %s", rel.c_str(), k == 'd' ? "directory" : "file");
		if (it->second.kind != k) DFAIL("%s is of kind %c on disk, specification says %c", rel.c_str(), it->second.kind, k);
		if (k == 'f' && it->second.content != want) DFAIL("file %s holds %s on disk, specification says %s", rel.c_str(), show(it->second.content).c_str(), show(want).c_str());
		// the library's view of the node
		std::string p = w + "/" + rel;
		if (!File(toStr(p)).exists()) DFAIL("File(%s).exists() false", rel.c_str());
		if (File(toStr(p)).isFile() != (k == 'f')) DFAIL("File(%s).isFile() = %d for a %c", rel.c_str(), (int)(k != 'f'), k);
		if (File(toStr(p)).isDirectory() != (k == 'd')) DFAIL("File(%s).isDirectory() = %d for a %c", rel.c_str(), (int)(k != 'd'), k);
		if (Directory(toStr(p)).exists() != (k == 'd')) DFAIL("Directory(%s).exists() = %d for a %c", rel.c_str(), (int)(k != 'd'), k);
		{
			// one object asked everything (the information is looked up once)
			File f(toStr(p));
			if (f.creationDate().time() == 0 || f.lastModified().time() == 0) DFAIL("%s has no dates", rel.c_str());
			if (f.isDirectory() != (k == 'd') || f.isFile() != (k == 'f') || !f.exists()) DFAIL("File(%s): kind queries on one object disagree", rel.c_str());
		}
		if (k == 'f')
		{
			Long sz = File(toStr(p)).size();
			if (sz != (Long)want.size()) DFAIL("File(%s).size() = %lld, specification says %zu", rel.c_str(), (long long)sz, want.size());
			std::string got = fromBytes(File(toStr(p)).content());
			if (got != want) DFAIL("File(%s).content() = %s, specification says %s", rel.c_str(), show(got).c_str(), show(want).c_str());
		}
		else
		{
			if (!File(toStr(p + "/")).isDirectory()) DFAIL("File(%s/).isDirectory() false", rel.c_str());
			if (!Directory(toStr(p + "/")).exists()) DFAIL("Directory(%s/).exists() false", rel.c_str());
			if (File(toStr(p + "/")).isFile()) DFAIL("File(%s/).isFile() true", rel.c_str());
		}
	}
	for (std::map<std::string, Found>::const_iterator it = tree.begin(); it != tree.end(); ++it)
		if (!expected.count(it->first)) DFAIL("%s exists on disk (kind %c), specification says there is no such node", it->first.c_str(), it->second.kind);
	const vj::Value& miss = c["miss"];
	for (size_t i = 0; i < miss.size(); i++)
	{
		std::string rel = joinSegs(miss[i]);
		String p = toStr(w + "/" + rel);
		if (File(p).exists()) DFAIL("File(%s).exists() true for an absent node", rel.c_str());
		if (File(p).isFile()) DFAIL("File(%s).isFile() true for an absent node", rel.c_str());
		if (File(p).isDirectory()) DFAIL("File(%s).isDirectory() true for an absent node", rel.c_str());
		if (Directory(p).exists()) DFAIL("Directory(%s).exists() true for an absent node", rel.c_str());
		if (File(p).size() != -1) DFAIL("File(%s).size() = %lld for an absent node", rel.c_str(), (long long)File(p).size());
		if (File(p).content().length() != 0) DFAIL("File(%s).content() not empty for an absent node", rel.c_str());
		if (File(p).lastModified().time() != 0 || File(p).creationDate().time() != 0) DFAIL("File(%s) has dates though absent", rel.c_str());
	}
	const vj::Value& lists = c["lists"];
	for (size_t i = 0; i < lists.size(); i++)
	{
		const vj::Value& l = lists[i];
		std::string rel = joinSegs(l["n"]);
		std::string dirpath = nodePath(w, l["n"]);
		if (((i + salt) & 3) == 1) dirpath += "/";
		std::string patt = l["p"].bytes();
		Directory d(toStr(dirpath));
		Outcome r = checkListing(where, dirpath, patt, "items", d.items(toStr(patt)), l["a"], tree, rel);
		if (!r.ok) return r;
		r = checkListing(where, dirpath, patt, "files", d.files(toStr(patt)), l["f"], tree, rel);
		if (!r.ok) return r;
		r = checkListing(where, dirpath, patt, "subdirs", d.subdirs(toStr(patt)), l["d"], tree, rel);
		if (!r.ok) return r;
		if (patt == "*")
		{
			r = checkListing(where, dirpath, patt, "items (default pattern)", d.items(), l["a"], tree, rel);
			if (!r.ok) return r;
			r = checkListing(where, dirpath, patt, "files (default pattern)", d.files(), l["f"], tree, rel);
			if (!r.ok) return r;
			r = checkListing(where, dirpath, patt, "subdirs (default pattern)", d.subdirs(), l["d"], tree, rel);
			if (!r.ok) return r;
		}
	}
	std::string cur = fromStr(Directory::current()), wantCur = nodePath(w, c["cwd"]);
	if (cur != wantCur) DFAIL("Directory::current() = %s, specification says %s", cur.c_str(), wantCur.c_str());
	return Outcome();
}

// builds the initial tree with POSIX calls
static bool plantTree(const std::string& w, const vj::Value& init)
{
	for (size_t depth = 1; depth <= 8; depth++)
		for (size_t i = 0; i < init.size(); i++)
		{
			if (init[i]["n"].size() != depth) continue;
			std::string p = nodePath(w, init[i]["n"]);
			if (init[i]["k"].s() == "d") { if (mkdir(p.c_str(), 0755) != 0) return false; }
			else if (!posixWrite(p, init[i]["c"].bytes())) return false;
		}
	return true;
}

struct TempDirs
{
	std::vector<std::string> made;
	~TempDirs() { for (size_t i = 0; i < made.size(); i++) if (made[i].compare(0, 5, "/tmp/") == 0 && made[i].size() > 8) rmTree(made[i]); }
};

// one call of a history; `got` receives the boolean the call returned
static Outcome dirCall(const std::string& where, const std::string& w, const vj::Value& o, size_t step, TempDirs& temps, bool& got)
{
	const std::string& op = o["op"].s();
	bool odd = (step & 1) != 0;
	got = false;
	if (op == "temp")
	{
		std::string t = fromStr(Directory::createTemp());
		if (t.empty()) DFAIL("createTemp returned an empty path");
		for (size_t i = 0; i < temps.made.size(); i++)
			if (temps.made[i] == t) DFAIL("createTemp returned %s twice", t.c_str());
		temps.made.push_back(t);
		struct stat st;
		if (stat(t.c_str(), &st) != 0 || !S_ISDIR(st.st_mode)) DFAIL("createTemp: %s is not a directory", t.c_str());
		if (!Directory(toStr(t)).exists() || !File(toStr(t)).isDirectory()) DFAIL("createTemp: the library does not see %s as a directory", t.c_str());
		if (Directory(toStr(t)).items().length() != 0) DFAIL("createTemp: %s is not empty", t.c_str());
		got = true;
		return Outcome();
	}
	String x = toStr(argPath(w, o["xp"]));
	if (op == "create") got = Directory::create(x);
	else if (op == "createone") got = Directory::createOne(x);
	else if (op == "put")
	{
		std::string c = o["c"].bytes();
		got = odd ? File(x).put(toBytes(c)) : TextFile(x).put(toStr(c));
	}
	else if (op == "remove") got = odd ? File(x).remove() : Directory::remove(x);
	else if (op == "rmrec") got = Directory::removeRecursive(x);
	else if (op == "copy" || op == "move")
	{
		String y = toStr(argPath(w, o["yp"]));
		if (op == "copy") got = odd ? Directory::copy(x, y) : File(x).copy(y);
		else got = odd ? Directory::move(x, y) : File(x).move(y);
	}
	else if (op == "change") got = Directory::change(x);
	else DFAIL("harness: unknown op");
	return Outcome();
}

static Outcome runDir(const vj::Value& c)
{
	const vj::Value& hist = c["hist"];
	Outcome res;
	res.nontrivial = hist.size() >= 2;
	std::string w = g_tmp->sub();
	{
		char real[PATH_MAX];
		if (realpath(w.c_str(), real)) w = real;
	}
	struct Cleanup { std::string w; ~Cleanup() { if (chdir("/") != 0) {} rmTree(w); } } cleanup = { w };
	std::string where = "init";
	if (!plantTree(w, c["init"])) return Outcome::fail("harness: cannot build the initial tree");
	if (chdir(w.c_str()) != 0) return Outcome::fail("harness: cannot enter the work directory");
	TempDirs temps;
	for (size_t step = 0; step < hist.size(); step++)
	{
		const vj::Value& o = hist[step];
		where = "step " + std::to_string(step) + " " + o["op"].s() + (o.has("xp") ? " " + argPath(w, o["xp"]) : "") + (o.has("yp") ? " -> " + argPath(w, o["yp"]) : "");
		bool got;
		Outcome r = dirCall(where, w, o, step, temps, got);
		if (!r.ok) return r;
		if (o.has("r") && !(o.has("u") && o["u"].b) && got != o["r"].b)
			DFAIL("returned %d, specification says %d", (int)got, (int)o["r"].b);
	}
	where = "final";
	if ((size_t)c["temps"].i() != temps.made.size()) DFAIL("harness: %zu temporary directories made, specification counts %d", temps.made.size(), c["temps"].i());
	return observeTree(where, w, c, hist.size());
}
#endif

#endif
