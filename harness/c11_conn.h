// C11 (growth) harness: real connections over loopback TCP with the library's own threads.
//
//   ScriptServer   a WebSocketServer (bind + start(true): accept thread and one thread per connection, as documented) whose
//                  serve(WebSocket&) executes the commands the script thread posts to the connection's Session, one at a time
//   LibEnd         one library end of a connection: the client object (calls made directly) or the server-side object inside
//                  serve() (calls posted to its Session)
//   RawEnd         a scripted RFC 6455 peer on a plain socket: writes the frames a case prescribes (header bytes from the
//                  specification, payload expanded from (len, seed) and masked with the key the specification supplies), and a
//                  reader thread captures everything the library writes
//   accept value for the raw SERVER role: an independent SHA-1 + Base64 (trusted helper; validated against Codecs.tla by the
//   "chs" events of the recorder)
// Every expected value comes from the case (TLC); this file executes, projects and compares.
#ifndef C11_CONN_H
#define C11_CONN_H
#include "c11_common.h"
#include <asl/HttpServer.h>
#include <netinet/tcp.h>
#include <stdint.h>

namespace c11 {

// ---- independent SHA-1 / Base64 (raw server role only) ---------------------------------------------------------------------
inline std::string sha1(const std::string& in)
{
	uint32_t h[5] = {0x67452301u, 0xEFCDAB89u, 0x98BADCFEu, 0x10325476u, 0xC3D2E1F0u};
	std::string m = in;
	uint64_t bits = (uint64_t)in.size() * 8;
	m += (char)0x80;
	while (m.size() % 64 != 56) m += (char)0;
	for (int i = 7; i >= 0; i--) m += (char)((bits >> (8 * i)) & 255);
	for (size_t o = 0; o < m.size(); o += 64)
	{
		uint32_t w[80];
		for (int i = 0; i < 16; i++)
			w[i] = ((uint32_t)(unsigned char)m[o + 4 * i] << 24) | ((uint32_t)(unsigned char)m[o + 4 * i + 1] << 16) |
			       ((uint32_t)(unsigned char)m[o + 4 * i + 2] << 8) | (uint32_t)(unsigned char)m[o + 4 * i + 3];
		for (int i = 16; i < 80; i++) { uint32_t x = w[i - 3] ^ w[i - 8] ^ w[i - 14] ^ w[i - 16]; w[i] = (x << 1) | (x >> 31); }
		uint32_t a = h[0], b = h[1], c = h[2], d = h[3], e = h[4];
		for (int i = 0; i < 80; i++)
		{
			uint32_t f, k;
			if (i < 20) { f = (b & c) | (~b & d); k = 0x5A827999u; }
			else if (i < 40) { f = b ^ c ^ d; k = 0x6ED9EBA1u; }
			else if (i < 60) { f = (b & c) | (b & d) | (c & d); k = 0x8F1BBCDCu; }
			else { f = b ^ c ^ d; k = 0xCA62C1D6u; }
			uint32_t t = ((a << 5) | (a >> 27)) + f + e + k + w[i];
			e = d; d = c; c = (b << 30) | (b >> 2); b = a; a = t;
		}
		h[0] += a; h[1] += b; h[2] += c; h[3] += d; h[4] += e;
	}
	std::string r;
	for (int i = 0; i < 5; i++)
		for (int k = 3; k >= 0; k--) r += (char)((h[i] >> (8 * k)) & 255);
	return r;
}

inline std::string base64(const std::string& s)
{
	static const char T[] = "ABCDEFGHIJKLMNOPQRSTUVWXYZabcdefghijklmnopqrstuvwxyz0123456789+/";
	std::string r;
	size_t i = 0;
	for (; i + 2 < s.size(); i += 3)
	{
		unsigned v = ((unsigned char)s[i] << 16) | ((unsigned char)s[i + 1] << 8) | (unsigned char)s[i + 2];
		r += T[v >> 18]; r += T[(v >> 12) & 63]; r += T[(v >> 6) & 63]; r += T[v & 63];
	}
	if (i + 1 == s.size()) { unsigned v = (unsigned char)s[i] << 16; r += T[v >> 18]; r += T[(v >> 12) & 63]; r += "=="; }
	else if (i + 2 == s.size()) { unsigned v = ((unsigned char)s[i] << 16) | ((unsigned char)s[i + 1] << 8); r += T[v >> 18]; r += T[(v >> 12) & 63]; r += T[(v >> 6) & 63]; r += '='; }
	return r;
}

inline std::string acceptFor(const std::string& key) { return base64(sha1(key + "258EAFA5-E914-47DA-95CA-C5AB0DC85B11")); }

inline std::string lowerStr(std::string s) { for (size_t i = 0; i < s.size(); i++) s[i] = (char)tolower((unsigned char)s[i]); return s; }

// value of a header (name in lower case) in an HTTP head, "" if absent
inline std::string headValue(const std::string& head, const std::string& lname)
{
	size_t p = head.find("\r\n");
	while (p != std::string::npos && p + 2 < head.size())
	{
		size_t e = head.find("\r\n", p + 2);
		if (e == std::string::npos) e = head.size();
		std::string line = head.substr(p + 2, e - p - 2);
		size_t c = line.find(':');
		if (c != std::string::npos && lowerStr(line.substr(0, c)) == lname)
		{
			std::string v = line.substr(c + 1);
			while (!v.empty() && (v[0] == ' ' || v[0] == '\t')) v.erase(0, 1);
			while (!v.empty() && (v[v.size() - 1] == ' ' || v[v.size() - 1] == '\t')) v.erase(v.size() - 1);
			return v;
		}
		p = e;
	}
	return "";
}

// ---- plain sockets ---------------------------------------------------------------------------------------------------------------
inline void bigBuffers(int fd)
{
	int n = 1 << 20, one = 1;
	setsockopt(fd, SOL_SOCKET, SO_SNDBUF, &n, sizeof n);
	setsockopt(fd, SOL_SOCKET, SO_RCVBUF, &n, sizeof n);
	setsockopt(fd, IPPROTO_TCP, TCP_NODELAY, &one, sizeof one);
}

inline int listenLoopback(int& port)
{
	int fd = socket(AF_INET, SOCK_STREAM, 0);
	if (fd < 0) return -1;
	int one = 1;
	setsockopt(fd, SOL_SOCKET, SO_REUSEADDR, &one, sizeof one);
	bigBuffers(fd);
	sockaddr_in a;
	memset(&a, 0, sizeof a);
	a.sin_family = AF_INET;
	a.sin_addr.s_addr = htonl(INADDR_LOOPBACK);
	a.sin_port = 0;
	if (bind(fd, (sockaddr*)&a, sizeof a) != 0 || listen(fd, 64) != 0) { close(fd); return -1; }
	socklen_t n = sizeof a;
	getsockname(fd, (sockaddr*)&a, &n);
	port = ntohs(a.sin_port);
	return fd;
}

inline int connectLoopback(int port)
{
	int fd = socket(AF_INET, SOCK_STREAM, 0);
	if (fd < 0) return -1;
	bigBuffers(fd);
	sockaddr_in a;
	memset(&a, 0, sizeof a);
	a.sin_family = AF_INET;
	a.sin_addr.s_addr = htonl(INADDR_LOOPBACK);
	a.sin_port = htons((unsigned short)port);
	if (connect(fd, (sockaddr*)&a, sizeof a) != 0) { close(fd); return -1; }
	return fd;
}

inline bool writeAll(int fd, const std::string& s)
{
	size_t off = 0;
	while (off < s.size())
	{
		ssize_t n = send(fd, s.data() + off, s.size() - off, MSG_NOSIGNAL);
		if (n < 0) { if (errno == EINTR) continue; return false; }
		off += (size_t)n;
	}
	return true;
}

// reads an HTTP head byte by byte (nothing beyond the blank line is consumed); false on EOF / time-out
inline bool readHead(int fd, std::string& head, int timeoutMs = 5000)
{
	head.clear();
	while (head.size() < 4 || head.compare(head.size() - 4, 4, "\r\n\r\n") != 0)
	{
		struct pollfd pf;
		pf.fd = fd; pf.events = POLLIN; pf.revents = 0;
		if (poll(&pf, 1, timeoutMs) <= 0) return false;
		char c;
		ssize_t n = read(fd, &c, 1);
		if (n <= 0) return false;
		head += c;
		if (head.size() > 16000) return false;
	}
	return true;
}

// reads one HTTP response with a Content-Length body
inline bool readHttpResponse(int fd, int& status, std::string& body)
{
	std::string head;
	if (!readHead(fd, head)) return false;
	status = head.size() > 12 ? atoi(head.c_str() + 9) : 0;
	long n = atol(headValue(head, "content-length").c_str());
	body.clear();
	while ((long)body.size() < n)
	{
		struct pollfd pf;
		pf.fd = fd; pf.events = POLLIN; pf.revents = 0;
		if (poll(&pf, 1, 5000) <= 0) return false;
		char b[4096];
		size_t want = (size_t)n - body.size();
		ssize_t r = read(fd, b, want < sizeof b ? want : sizeof b);
		if (r <= 0) return false;
		body.append(b, (size_t)r);
	}
	return true;
}

// ---- the raw end -------------------------------------------------------------------------------------------------------------------
struct RawEnd
{
	int fd;
	bool wclosed, reading;
	pthread_t th;
	pthread_mutex_t mu;
	std::string cap;    // what the other end wrote (after the handshake)
	bool sawEof, sawErr;
	RawEnd() : fd(-1), wclosed(false), reading(false), sawEof(false), sawErr(false) { pthread_mutex_init(&mu, 0); }
	static void* run(void* p)
	{
		RawEnd* self = (RawEnd*)p;
		char b[65536];
		for (;;)
		{
			ssize_t n = read(self->fd, b, sizeof b);
			if (n > 0)
			{
				pthread_mutex_lock(&self->mu);
				self->cap.append(b, (size_t)n);
				pthread_mutex_unlock(&self->mu);
			}
			else if (n == 0) { self->sawEof = true; break; }
			else if (errno != EINTR) { self->sawErr = true; break; }
		}
		return 0;
	}
	void startReader()
	{
		if (pthread_create(&th, 0, run, this) != 0) { perror("pthread_create"); _exit(2); }
		reading = true;
	}
	bool writeBytes(const std::string& s) { return writeAll(fd, s); }
	void halfClose()
	{
		if (!wclosed && fd >= 0) shutdown(fd, SHUT_WR);
		wclosed = true;
	}
	// the other end has closed (or is about to): wait for the reader to see the end, return the capture
	std::string& finish()
	{
		if (reading) { pthread_join(th, 0); reading = false; }
		if (fd >= 0) { close(fd); fd = -1; }
		return cap;
	}
	size_t captured()
	{
		pthread_mutex_lock(&mu);
		size_t n = cap.size();
		pthread_mutex_unlock(&mu);
		return n;
	}
	~RawEnd() { finish(); pthread_mutex_destroy(&mu); }
};

// bytes of a frame descriptor of the case: {hdr, off, len, seed, key, pl, ctl}
inline std::string frameBytes(const vj::Value& f)
{
	std::string w = f["hdr"].bytes(), p;
	if (f["ctl"].b) p = f["pl"].bytes();
	else
	{
		long off = (long)f["off"].ll(), len = (long)f["len"].ll(), seed = (long)f["seed"].ll();
		p.resize((size_t)len);
		for (long i = 0; i < len; i++) p[(size_t)i] = (char)payloadByte(seed, off + i);
	}
	std::string key = f["key"].bytes();
	if (key.size() == 4)
		for (size_t k = 0; k < p.size(); k++) p[k] = (char)(p[k] ^ key[k % 4]);
	return w + p;
}

// compares what a library end wrote (cap) with the frames the specification says it wrote: {op, hdr (unmasked form), len, seed, pl}
// prefixOnly: the capture may stop early (connection reset); mayClose: one close frame may follow (a library that answers a close)
inline std::string matchWrote(const std::string& cap, const vj::Value& frames1, const vj::Value& frames2, bool libIsClient, bool prefixOnly, bool mayClose)
{
	size_t pos = 0;
	char b[200];
	struct Both
	{
		const vj::Value &a, &b;
		Both(const vj::Value& x, const vj::Value& y) : a(x), b(y) {}
		size_t size() const { return a.size() + b.size(); }
		const vj::Value& operator[](size_t i) const { return i < a.size() ? a[i] : b[i - a.size()]; }
	} frames(frames1, frames2);
	for (size_t i = 0; i < frames.size(); i++)
	{
		const vj::Value& f = frames[i];
		std::string hdr = f["hdr"].bytes(), payload;
		int op = f["op"].i();
		if (op >= 8) payload = f["pl"].bytes();
		else expand(payload, (long)f["len"].ll(), (long)f["seed"].ll());
		size_t hl = hdr.size() + (libIsClient ? 4 : 0);
		if (cap.size() < pos + hl + payload.size())
		{
			if (prefixOnly || (f["opt"].b && pos == cap.size())) return "";
			snprintf(b, sizeof b, "the library wrote %zu bytes; frame %zu of %zu expected (opcode %d, %zu payload bytes) is missing or cut", cap.size(), i + 1, frames.size(), op, payload.size());
			return b;
		}
		if (cap[pos] != hdr[0] || (unsigned char)cap[pos + 1] != (unsigned char)((unsigned char)hdr[1] | (libIsClient ? 0x80 : 0)) ||
		    cap.compare(pos + 2, hdr.size() - 2, hdr, 2, hdr.size() - 2) != 0)
		{
			snprintf(b, sizeof b, "frame %zu written by the library: header differs from the expected one (opcode %d, length %zu) at offset %zu", i + 1, op, payload.size(), pos);
			return b;
		}
		for (size_t k = 0; k < payload.size(); k++)
		{
			char x = cap[pos + hl + k];
			if (libIsClient) x = (char)(x ^ cap[pos + hdr.size() + k % 4]);
			if (x != payload[k])
			{
				snprintf(b, sizeof b, "frame %zu written by the library (opcode %d): payload byte %zu differs", i + 1, op, k);
				return b;
			}
		}
		pos += hl + payload.size();
	}
	if (pos < cap.size())
	{
		if (mayClose && ((unsigned char)cap[pos] & 0x8f) == 0x88) return "";
		snprintf(b, sizeof b, "the library wrote %zu bytes more than the %zu frames expected (first extra byte 0x%02x)", cap.size() - pos, frames.size(), (unsigned char)cap[pos]);
		return b;
	}
	return "";
}

// ---- commands executed on a library end --------------------------------------------------------------------------------------
struct Cmd
{
	enum Type { SEND, PING, SCLOSE, CLOSE, RECV, POLL, WAIT, HASINPUT, CLOSED, FINISH, END, NCLIENTS, BROADCAST } type;
	std::string data;   // payload to send
	int opc;            // 1 text, 2 binary
	int n;              // POLL: frames; RECV (partial): extra deliveries tolerated
	bool expect;        // WAIT / HASINPUT / CLOSED: expected value (decides which time-out is used)
	// results
	std::string msg;    // RECV: the message
	std::vector<std::string> msgs; // FINISH: everything delivered until the end
	bool flag;          // observers; RECV: true = a message, false = the connection ended
	bool closedAfter;
	int code;
	double secs;
	std::string err;    // harness-level failure (time-out, negative length, ...)
	Cmd(Type t) : type(t), opc(1), n(0), expect(false), flag(false), closedAfter(false), code(0), secs(0) {}
};

// receive() until a message or the end; control frames in front are handled on the way
inline void recvNext(WebSocket& ws, Cmd& c)
{
	for (int calls = 0; calls < 64; calls++)
	{
		if (ws.closed()) { c.flag = false; c.code = ws.code(); return; }
		if (!ws.wait(5.0)) { c.err = "wait(5) returned false although a message or the end of the connection was due"; return; }
		if (ws.closed()) { c.flag = false; c.code = ws.code(); return; }
		WebSocketMsg m = ws.receive();
		int n = m.length();
		if (n < 0) { c.err = "receive() returned a message of negative length"; return; }
		if (n > 0)
		{
			c.flag = true;
			c.msg = std::string(*m, (size_t)n);
			// (closed() has a side effect - it notices the peer's close - so it is only asked where the end of the connection is due)
			if (c.expect) { c.closedAfter = ws.closed(); c.code = ws.code(); }
			return;
		}
	}
	c.err = "64 receive() calls without a message or the end of the connection";
}

inline void execCmd(WebSocket& ws, Cmd& c)
{
	double t0 = nowSec();
	try
	{
		switch (c.type)
		{
		case Cmd::SEND:
			if (c.opc == 2) ws.send(ByteArray((const byte*)c.data.data(), (int)c.data.size()));
			else ws.send(String(c.data.data(), (int)c.data.size()));
			break;
		case Cmd::PING: ws.send((const byte*)c.data.data(), (int)c.data.size(), WebSocket::FRAME_PING); break;
		case Cmd::SCLOSE: ws.send((const byte*)c.data.data(), (int)c.data.size(), WebSocket::FRAME_CLOSE); break;
		case Cmd::CLOSE: ws.close(); c.flag = ws.closed(); break;
		case Cmd::RECV: recvNext(ws, c); break;
		case Cmd::POLL:
			for (int i = 0; i < c.n; i++)
			{
				if (!ws.wait(i == 0 ? 5.0 : 0.3)) { if (i == 0) c.err = "wait(5) returned false although a control frame was pending"; break; }
				if (ws.closed()) { c.err = "closed() became true while only control frames were pending"; break; }
				WebSocketMsg m = ws.receive();
				if (m.length() != 0) { c.err = "receive() returned a message although only control frames were pending"; break; }
			}
			break;
		case Cmd::WAIT: c.flag = ws.wait(c.expect ? 5.0 : 0.03); break;
		case Cmd::HASINPUT:
			if (c.expect) ws.wait(5.0);
			c.flag = ws.hasInput();
			break;
		case Cmd::CLOSED:
			if (c.expect) ws.wait(5.0);
			c.flag = ws.closed();
			if (ws.connected() == c.flag) c.err = "connected() is not the negation of closed()";
			break;
		case Cmd::FINISH:
		{
			Received r;
			receiveAll(ws, r, 100);
			c.msgs = r.msgs;
			if (r.negative) c.err = "receive() returned a message of negative length";
			else if (r.runaway) c.err = "the receive loop did not end although the peer had closed";
			else if (r.badAlloc) c.err = "std::bad_alloc in the receive loop";
			c.flag = ws.closed();
			c.code = ws.code();
			break;
		}
		default: break;
		}
	}
	catch (std::bad_alloc&) { c.err = "std::bad_alloc"; }
	c.secs = nowSec() - t0;
}

// ---- the server: serve(WebSocket&) runs the commands posted to the connection's session ----------------------------------
struct Session
{
	pthread_mutex_t mu;
	pthread_cond_t cv;
	Cmd* cmd;
	bool attached, ended;
	WebSocket* ws;
	Session() : cmd(0), attached(false), ended(false), ws(0) { pthread_mutex_init(&mu, 0); pthread_cond_init(&cv, 0); }
	~Session() { pthread_mutex_destroy(&mu); pthread_cond_destroy(&cv); }
	bool waitFlag(bool& f, double secs)
	{
		struct timespec ts;
		clock_gettime(CLOCK_REALTIME, &ts);
		long ns = ts.tv_nsec + (long)((secs - (long)secs) * 1e9);
		ts.tv_sec += (long)secs + ns / 1000000000L;
		ts.tv_nsec = ns % 1000000000L;
		pthread_mutex_lock(&mu);
		while (!f)
			if (pthread_cond_timedwait(&cv, &mu, &ts) == ETIMEDOUT) break;
		bool r = f;
		pthread_mutex_unlock(&mu);
		return r;
	}
	// called by the script thread: run c inside the connection's thread
	bool run(Cmd& c)
	{
		pthread_mutex_lock(&mu);
		if (ended) { pthread_mutex_unlock(&mu); c.err = "harness: the server-side connection thread has ended"; return false; }
		cmd = &c;
		pthread_cond_broadcast(&cv);
		while (cmd == &c) pthread_cond_wait(&cv, &mu);
		pthread_mutex_unlock(&mu);
		return true;
	}
};

struct ScriptServer : public WebSocketServer
{
	pthread_mutex_t pmu;
	std::vector<Session*> pending; // sessions waiting for their connection, in connection order
	int port;
	ScriptServer() : port(0) { pthread_mutex_init(&pmu, 0); }
	void expect(Session* s)
	{
		pthread_mutex_lock(&pmu);
		pending.push_back(s);
		pthread_mutex_unlock(&pmu);
	}
	void unexpect(Session* s)
	{
		pthread_mutex_lock(&pmu);
		for (size_t i = 0; i < pending.size(); i++)
			if (pending[i] == s) { pending.erase(pending.begin() + (long)i); break; }
		pthread_mutex_unlock(&pmu);
	}
	void serve(WebSocket& ws)
	{
		Session* s = 0;
		pthread_mutex_lock(&pmu);
		if (!pending.empty()) { s = pending[0]; pending.erase(pending.begin()); }
		pthread_mutex_unlock(&pmu);
		if (!s) return; // nobody waits for this connection
		pthread_mutex_lock(&s->mu);
		s->ws = &ws;
		s->attached = true;
		pthread_cond_broadcast(&s->cv);
		for (;;)
		{
			while (!s->cmd) pthread_cond_wait(&s->cv, &s->mu);
			Cmd* c = s->cmd;
			bool end = c->type == Cmd::END;
			pthread_mutex_unlock(&s->mu);
			if (!end) execCmd(ws, *c);
			pthread_mutex_lock(&s->mu);
			s->cmd = 0;
			if (end) s->ended = true;
			pthread_cond_broadcast(&s->cv);
			if (end) break;
		}
		pthread_mutex_unlock(&s->mu);
	}
	int numClients()
	{
		Lock l(mutex());
		return clients().length();
	}
	// what an application does to reach everybody: under mutex(), send to each of clients()
	int broadcast(const std::string& data, int opc)
	{
		Lock l(mutex());
		const Array<WebSocket*>& cs = clients();
		for (int i = 0; i < cs.length(); i++)
		{
			if (opc == 2) cs[i]->send(ByteArray((const byte*)data.data(), (int)data.size()));
			else cs[i]->send(String(data.data(), (int)data.size()));
		}
		return cs.length();
	}
};

inline int bindFreePort(SocketServer* s)
{
	static unsigned st = (unsigned)getpid() * 40503u + (unsigned)(nowSec() * 1000);
	for (int tries = 0; tries < 300; tries++)
	{
		st = st * 1103515245u + 12345u;
		int port = 20000 + (int)((st >> 8) % 40000);
		if (s->bind("127.0.0.1", port)) return port;
	}
	fprintf(stderr, "harness: no free port\n");
	_exit(2);
}

inline ScriptServer* theServer()
{
	static ScriptServer* g = 0;
	if (!g)
	{
		g = new ScriptServer;
		g->port = bindFreePort(g);
		g->start(true);
	}
	return g;
}

// ---- a raw server: accepts one connection per request, reads the upgrade request, answers with the accept value -----------
struct RawAcceptor
{
	int lfd, port;
	RawAcceptor() : lfd(-1), port(0) {}
	bool ensure() { if (lfd < 0) lfd = listenLoopback(port); return lfd >= 0; }
	struct Job
	{
		RawAcceptor* self;
		int fd;
		std::string request, key;
		std::string response; // if non-empty: sent instead of the 101 ("%ACCEPT%" or a run of 28 '%' is replaced by the accept value)
		int cutAt;            // >= 0: only this many bytes of the response, then the connection is closed
		std::string after;    // bytes sent after the response
		bool drain;           // then: half-close, read until the client closes, close (the fd is not handed over)
		pthread_t th;
		Job() : self(0), fd(-1), cutAt(-1), drain(false) {}
		static void* run(void* p)
		{
			Job* j = (Job*)p;
			struct pollfd pf;
			pf.fd = j->self->lfd; pf.events = POLLIN; pf.revents = 0;
			if (poll(&pf, 1, 10000) <= 0) return 0;
			j->fd = accept(j->self->lfd, 0, 0);
			if (j->fd < 0) return 0;
			bigBuffers(j->fd);
			if (!readHead(j->fd, j->request)) { close(j->fd); j->fd = -1; return 0; }
			j->key = headValue(j->request, "sec-websocket-key");
			std::string acc = acceptFor(j->key);
			std::string resp = j->response;
			if (resp.empty()) resp = "HTTP/1.1 101 Switching Protocols\r\nUpgrade: websocket\r\nConnection: Upgrade\r\nSec-WebSocket-Accept: %ACCEPT%\r\n\r\n";
			size_t a = resp.find("%ACCEPT%");
			if (a != std::string::npos) resp.replace(a, 8, acc);
			a = resp.find(std::string(28, '%'));
			if (a != std::string::npos) resp.replace(a, 28, acc);
			if (j->cutAt >= 0 && (size_t)j->cutAt < resp.size()) resp.resize((size_t)j->cutAt);
			writeAll(j->fd, resp);
			if (j->cutAt >= 0) { close(j->fd); j->fd = -1; return 0; }
			if (!j->after.empty()) writeAll(j->fd, j->after);
			if (j->drain)
			{
				shutdown(j->fd, SHUT_WR);
				char b[4096];
				for (;;)
				{
					struct pollfd pf;
					pf.fd = j->fd; pf.events = POLLIN; pf.revents = 0;
					if (poll(&pf, 1, 10000) <= 0) break;
					if (read(j->fd, b, sizeof b) <= 0) break;
				}
				close(j->fd);
				j->fd = -1;
			}
			return 0;
		}
	};
	void start(Job& j)
	{
		j.self = this;
		if (pthread_create(&j.th, 0, Job::run, &j) != 0) { perror("pthread_create"); _exit(2); }
	}
	void join(Job& j) { pthread_join(j.th, 0); }
};

inline RawAcceptor* theAcceptor()
{
	static RawAcceptor* g = 0;
	if (!g) { g = new RawAcceptor; if (!g->ensure()) { fprintf(stderr, "harness: cannot listen on 127.0.0.1\n"); _exit(2); } }
	return g;
}

// ---- one library end ---------------------------------------------------------------------------------------------------------------
struct LibEnd
{
	WebSocket* own;    // client object (calls made directly)
	Session* sess;     // or the server-side object inside serve()
	LibEnd() : own(0), sess(0) {}
	bool present() const { return own || (sess && sess->attached); }
	void run(Cmd& c)
	{
		if (own) execCmd(*own, c);
		else if (sess) sess->run(c);
		else c.err = "harness: no such end";
	}
};

}
#endif
