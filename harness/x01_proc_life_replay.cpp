// X01 replayer (R) for spec/ProcLifeGen.tla: every generated behaviour of ProcLife (a sequence of Process calls and user
// descriptor operations with the result the specification determines for each) is executed on a real asl::Process
// against the helper child; each call's result is compared with the expected one.
//   case: {"part":"proc","gen":"life","hist":[{"e":"new","ready":1},{"e":"run","m":"echo",..},{"e":"write",..,"ret":5},..]}
#include "x01_proc_common.h"
#include "vrun.h"

using namespace asl;

static std::string self;

static std::string bytesStr(const vj::Value& a)
{
	std::string s;
	for (size_t i = 0; i < a.size(); i++) s += (char)a[i].i();
	return s;
}
static std::string show(const std::string& s) { return vj::codes(s); }

struct Session
{
	Process* p;
	int pid, fd0;
	x01::FdMap fds;
	bool started;
	std::vector<int> ufds;
	Session() : p(0), pid(-1), started(false)
	{
		fds.init();
		fd0 = x01::countFds();
	}
	void destroy()
	{
		if (!p) return;
		delete p;
		p = 0;
		if (started && pid > 0) { int s; waitpid(pid, &s, 0); }
		started = false;
		pid = -1;
	}
	~Session()
	{
		if (p && started && pid > 0 && x01::isOurChild(pid) && x01::procState(pid) != 'Z') kill(pid, SIGKILL);
		destroy();
		for (size_t i = 0; i < ufds.size(); i++) { struct stat sb; if (fstat(ufds[i], &sb) == 0) close(ufds[i]); }
	}
	std::string readN(bool errs, int n)
	{
		std::string got;
		std::vector<char> b((size_t)n + 1);
		while ((int)got.size() < n)
		{
			int r = errs ? p->readErrors(b.data(), n - (int)got.size()) : p->readOutput(b.data(), n - (int)got.size());
			if (r <= 0) break;
			got.append(b.data(), (size_t)r);
		}
		return got;
	}
};

#define EXPECT_INT(what, got, exp) do { long g_ = (got), e_ = (exp); if (g_ != e_) return vrun::Outcome::fail(at + what + " = " + std::to_string(g_) + ", specification: " + std::to_string(e_)); } while (0)
#define EXPECT_BYTES(what, got, exp) do { std::string g_ = (got), e_ = (exp); if (g_ != e_) return vrun::Outcome::fail(at + what + " = " + show(g_) + ", specification: " + show(e_)); } while (0)

static vrun::Outcome runCase(const vj::Value& c)
{
	const vj::Value& h = c["hist"];
	Session s;
	for (size_t i = 0; i < h.size(); i++)
	{
		const vj::Value& e = h[i];
		std::string op = e["e"].s();
		std::string at = "call " + std::to_string(i + 1) + " (" + op + "): ";
		if (op == "new") { s.p = new Process; EXPECT_INT("ready()", s.p->ready() ? 1 : 0, e["ready"].i()); }
		else if (op == "detach") s.p->detach();
		else if (op == "run")
		{
			std::string m = e["m"].s();
			if (m == "echo") s.p->run(self.c_str(), array<String>("helper", "echo"));
			else if (m == "exit") s.p->run(self.c_str(), array<String>("helper", "exit", String((int)e["code"].i())));
			else s.p->run("/nonexistent/x01-no-such-program", array<String>("a"));
			s.started = true;
			s.pid = s.p->pid();
		}
		else if (op == "write")
		{
			std::string k = e["k"].s(), frame;
			if (k == "E" || k == "R") { std::string pl = bytesStr(e["p"]); frame = k + (char)pl.size() + pl; }
			else if (k == "S") { int n = (int)e["n"].i(); frame = std::string("S") + (char)2 + (char)(n / 256) + (char)(n % 256); }
			else frame = std::string("X") + (char)1 + (char)e["code"].i();
			EXPECT_INT("writeInput()", s.p->writeInput(frame.data(), (int)frame.size()), e["ret"].i());
		}
		else if (op == "rdout") EXPECT_BYTES("bytes read from stdout", s.readN(false, (int)e["n"].i()), bytesStr(e["r"]));
		else if (op == "rderr") EXPECT_BYTES("bytes read from stderr", s.readN(true, (int)e["n"].i()), bytesStr(e["r"]));
		else if (op == "rdline") { String l = s.p->readOutputLine(); EXPECT_BYTES("readOutputLine()", std::string(*l, (size_t)l.length()), bytesStr(e["r"])); }
		else if (op == "sync")
		{
			bool z = false;
			for (int k = 0; k < 200000 && !z; k++) { char st = x01::procState(s.pid); z = st == 'Z' || st == 0; if (!z) usleep(300); }
			if (!z) return vrun::Outcome::fail(at + "the child did not end");
		}
		else if (op == "avail") EXPECT_INT("outputAvailable()", s.p->outputAvailable(), e["r"].i());
		else if (op == "fin") EXPECT_INT("finished()", s.p->finished() ? 1 : 0, e["r"].i());
		else if (op == "wait") { int r = s.p->wait(); if (!e["any"].i()) EXPECT_INT("wait()", r, e["r"].i()); }
		else if (op == "status") EXPECT_INT("exitStatus()", s.p->exitStatus(), e["r"].i());
		else if (op == "started") EXPECT_INT("started()", s.p->started() ? 1 : 0, e["r"].i());
		else if (op == "success") EXPECT_INT("success()", s.p->success() ? 1 : 0, e["r"].i());
		else if (op == "kill") s.p->signal((int)e["sig"].i());
		else if (op == "del") s.destroy();
		else if (op == "uopen")
		{
			int fd = open("/dev/null", O_RDONLY);
			s.ufds.push_back(fd);
			EXPECT_INT("descriptor number the user got", s.fds.rel(fd), e["fd"].i());
		}
		else if (op == "uclose")
		{
			int fd = s.fds.abs((int)e["fd"].i());
			for (size_t k = 0; k < s.ufds.size(); k++) if (s.ufds[k] == fd) { s.ufds.erase(s.ufds.begin() + k); break; }
			struct stat sb;
			if (fstat(fd, &sb) == 0) close(fd);
		}
		else if (op == "ucheck")
		{
			struct stat nul, sb;
			stat("/dev/null", &nul);
			int ok = 1;
			for (size_t k = 0; k < s.ufds.size(); k++)
				if (fstat(s.ufds[k], &sb) != 0 || !S_ISCHR(sb.st_mode) || sb.st_rdev != nul.st_rdev) ok = 0;
			EXPECT_INT("user descriptors intact", ok, e["ok"].i());
			EXPECT_INT("open descriptors", x01::countFds() - s.fd0, e["nfd"].i());
		}
		else return vrun::Outcome::fail(at + "unknown call");
	}
	vrun::Outcome o;
	o.nontrivial = h.size() > 1;
	return o;
}

int main(int argc, char** argv)
{
	if (argc > 1 && !strcmp(argv[1], "helper")) return x01::helperMain(argc - 2, argv + 2);
	signal(SIGPIPE, SIG_IGN);
	self = x01::selfPath();
	return vrun::run(argc, argv, runCase);
}
