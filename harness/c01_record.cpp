// C01 recorder (V): seeded random driver of asl::Array / Stack / Queue that logs one ndjson event per public call;
// spec/Trace_ArraySeq.tla validates the log against the ArraySeq actions.  Lengths reach several hundred elements so
// that both growth paths of Array::reserve (malloc+memcpy below 2048 bytes, realloc above) and every capacity
// doubling are crossed.  The driver follows the documented API: in-range arguments only, and it never grows an array
// through one handle beyond cap() while other handles share it when that hazard is an open finding (--avoid).
#include "c01_common.h"
#include "vrec.h"
#include <map>
#include <vector>

using namespace vrec;

static const int NH = 8;
static const int NV = 3;

template <class Cv>
static int valueOf(const typename Cv::T& x)
{
	for (int v = 0; v <= NV; v++)
		if (Cv::same(x, v)) return v;
	return -1;
}

template <class C, class Cv>
struct Exec
{
	typedef typename Cv::T T;
	C* hs[NH + 1];
	Rng& rng;
	Log& log;
	bool avoidGrow;
	int maxLen;

	Exec(Rng& r, Log& l, bool ag, int ml) : rng(r), log(l), avoidGrow(ag), maxLen(ml)
	{
		for (int i = 0; i <= NH; i++) hs[i] = 0;
	}

	int pickLive()
	{
		int c[NH], n = 0;
		for (int i = 1; i <= NH; i++) if (hs[i]) c[n++] = i;
		return c[rng.below(n)];
	}
	int pickDead()
	{
		int c[NH], n = 0;
		for (int i = 1; i <= NH; i++) if (!hs[i]) c[n++] = i;
		return n ? c[rng.below(n)] : 0;
	}
	int nLive()
	{
		int n = 0;
		for (int i = 1; i <= NH; i++) if (hs[i]) n++;
		return n;
	}
	bool growHazard(C& a, int need) { return avoidGrow && need > a.cap() && a.rc() > 1; }

	std::string post(int h, int g = 0)
	{
		std::string s;
		if (hs[h]) s += "," + kv("len", hs[h]->length()) + "," + kv("rc", hs[h]->rc());
		else s += "," + kv("len", 0) + "," + kv("rc", 0);
		if (g && hs[g]) s += "," + kv("glen", hs[g]->length());
		return s + "}";
	}

	void check()
	{
		std::string s = "{\"op\":\"check\",\"obs\":[";
		std::map<const void*, int> blocks;
		bool first = true;
		for (int h = 1; h <= NH; h++)
		{
			if (!hs[h]) continue;
			blocks[(const void*)hs[h]->data()] = hs[h]->length();
			if (!first) s += ",";
			first = false;
			s += "{" + kv("h", h) + ",\"s\":[";
			char b[16];
			for (int i = 0; i < hs[h]->length(); i++)
			{
				snprintf(b, sizeof b, i ? ",%d" : "%d", valueOf<Cv>((*hs[h])[i]));
				s += b;
			}
			s += "]," + kv("rc", hs[h]->rc()) + "}";
		}
		long live = 0;
		for (std::map<const void*, int>::iterator it = blocks.begin(); it != blocks.end(); ++it) live += it->second;
		if (Cv::live() >= 0) live = Cv::live(); // counted elements: the real number of live instances
		s += "]," + kv("live", live) + "}";
		log.line(s);
	}

	void bindNew(int g, const Array<T>& t)
	{
		if (!hs[g]) hs[g] = new C();
		static_cast<Array<T>&>(*hs[g]) = t;
	}

	void run(long nevents)
	{
		hs[1] = new C();
		long done = 0;
		int burst = 0;
		while (done < nevents)
		{
			int h = pickLive();
			C& a = *hs[h];
			int len = a.length();
			int r = rng.below(118);
			if (burst > 0) { r = 0; burst--; }
			else if (rng.below(400) == 0) burst = rng.range(20, 300);
			std::string e;
			if (r < 25) // append
			{
				if (len >= maxLen || growHazard(a, len + 1)) continue;
				int v = rng.range(1, NV);
				do_push(a, Cv::make(v));
				e = "{\"op\":\"append\"," + kv("h", h) + "," + kv("v", v) + post(h);
			}
			else if (r < 31) // insert
			{
				if (len >= maxLen || growHazard(a, len + 1)) continue;
				int v = rng.range(1, NV), k = rng.below(len + 1);
				a.insert(k, Cv::make(v));
				e = "{\"op\":\"insert\"," + kv("h", h) + "," + kv("k", k) + "," + kv("v", v) + post(h);
			}
			else if (r < 34) // appendSelf
			{
				if (len == 0 || len >= maxLen || growHazard(a, len + 1)) continue;
				int i = rng.below(len);
				a << a[i];
				e = "{\"op\":\"appendSelf\"," + kv("h", h) + "," + kv("i", i) + post(h);
			}
			else if (r < 37) // insertSelf
			{
				if (len == 0 || len >= maxLen || growHazard(a, len + 1)) continue;
				int i = rng.below(len), k = rng.below(len + 1);
				a.insert(k, a[i]);
				e = "{\"op\":\"insertSelf\"," + kv("h", h) + "," + kv("k", k) + "," + kv("i", i) + post(h);
			}
			else if (r < 42) // set
			{
				if (len == 0) continue;
				int i = rng.below(len), v = rng.range(1, NV);
				a[i] = Cv::make(v);
				e = "{\"op\":\"set\"," + kv("h", h) + "," + kv("i", i) + "," + kv("v", v) + post(h);
			}
			else if (r < 48) // remove
			{
				if (len == 0) continue;
				int i = rng.below(len), n = rng.chance(70) ? 1 : rng.range(1, len - i);
				if (n == 1 && rng.chance(50)) a.remove(i); else a.remove(i, n);
				e = "{\"op\":\"remove\"," + kv("h", h) + "," + kv("i", i) + "," + kv("n", n) + post(h);
			}
			else if (r < 51) // removeOne
			{
				int v = rng.range(1, NV);
				bool res = a.removeOne(Cv::make(v));
				e = "{\"op\":\"removeOne\"," + kv("h", h) + "," + kv("v", v) + "," + kv("r", res ? 1 : 0) + post(h);
			}
			else if (r < 54) { a.removeLast(); e = "{\"op\":\"removeLast\"," + kv("h", h) + post(h); }
			else if (r < 56)
			{
				int v = rng.range(1, NV);
				EqFn<Cv> f = { Cv::make(v) };
				a.removeIf(f);
				e = "{\"op\":\"removeIf\"," + kv("h", h) + "," + kv("v", v) + post(h);
			}
			else if (r < 60) // resize
			{
				int m = rng.chance(15) ? rng.below(maxLen + 1) : rng.chance(50) ? rng.below(len + 1) : len + rng.below(12);
				if (m > maxLen || growHazard(a, m)) continue;
				a.resize(m);
				if (Cv::pod) for (int q = len; q < m; q++) a[q] = Cv::make(0);
				e = "{\"op\":\"resize\"," + kv("h", h) + "," + kv("m", m) + post(h);
			}
			else if (r < 63) // reserve
			{
				int m = rng.chance(30) ? a.cap() * 2 + rng.range(1, 40) : rng.below(a.cap() + 10);
				if (m > 3 * maxLen || growHazard(a, m)) continue;
				a.reserve(m);
				e = "{\"op\":\"reserve\"," + kv("h", h) + "," + kv("m", m) + post(h);
			}
			else if (r < 64) { if (rng.chance(70)) continue; a.clear(); e = "{\"op\":\"clear\"," + kv("h", h) + post(h); }
			else if (r < 66) { a.sort(); e = "{\"op\":\"sort\"," + kv("h", h) + post(h); }
			else if (r < 69) // appendArr
			{
				int g = pickLive();
				if (len + hs[g]->length() > maxLen || growHazard(a, len + hs[g]->length())) continue;
				a.append(*hs[g]);
				e = "{\"op\":\"appendArr\"," + kv("h", h) + "," + kv("g", g) + post(h);
			}
			else if (r < 71) // copyFrom
			{
				int g = pickLive();
				if (growHazard(a, hs[g]->length())) continue;
				a.copy(*hs[g]);
				e = "{\"op\":\"copyFrom\"," + kv("h", h) + "," + kv("g", g) + post(h);
			}
			else if (r < 87) // operations producing a new array bound to g
			{
				int g = rng.chance(50) ? (pickDead() ? pickDead() : pickLive()) : pickLive();
				if (r < 73) { bindNew(g, a.reversed()); e = "{\"op\":\"reversed\"," + kv("h", h) + "," + kv("g", g) + post(h, g); }
				else if (r < 76)
				{
					int i1 = rng.below(len + 1), i2 = rng.chance(20) ? 0 : rng.range(i1, len);
					if (i2 == 0 && rng.chance(50)) bindNew(g, a.slice(i1)); else bindNew(g, a.slice(i1, i2));
					e = "{\"op\":\"slice\"," + kv("h", h) + "," + kv("g", g) + "," + kv("i1", i1) + "," + kv("i2", i2) + post(h, g);
				}
				else if (r < 78)
				{
					int g2 = pickLive();
					if (len + hs[g2]->length() > maxLen) continue;
					if (rng.chance(50)) bindNew(g, a.concat(*hs[g2])); else bindNew(g, a | *hs[g2]);
					e = "{\"op\":\"concat\"," + kv("h", h) + "," + kv("g2", g2) + "," + kv("g", g) + post(h, g);
				}
				else if (r < 80)
				{
					int v = rng.range(1, NV);
					NeFn<Cv> f = { Cv::make(v) };
					bindNew(g, a.filter(f));
					e = "{\"op\":\"filter\"," + kv("h", h) + "," + kv("g", g) + "," + kv("v", v) + post(h, g);
				}
				else if (r < 82)
				{
					SuccFn<Cv> f = { NV };
					bindNew(g, a.map(f));
					e = "{\"op\":\"map\"," + kv("h", h) + "," + kv("g", g) + post(h, g);
				}
				else { bindNew(g, a.clone()); e = "{\"op\":\"clone\"," + kv("h", h) + "," + kv("g", g) + post(h, g); }
			}
			else if (r < 89) { a.dup(); e = "{\"op\":\"dup\"," + kv("h", h) + post(h); }
			else if (r < 94) // copyHandle
			{
				int g = pickDead();
				if (!g) continue;
				hs[g] = new C(a);
				e = "{\"op\":\"copyHandle\"," + kv("h", h) + "," + kv("g", g) + post(h, g);
			}
			else if (r < 98) // assignHandle
			{
				int g = pickLive();
				*hs[g] = a;
				e = "{\"op\":\"assignHandle\"," + kv("h", h) + "," + kv("g", g) + post(h, g);
			}
			else if (r < 103) // dropHandle
			{
				if (nLive() < 2) continue;
				delete hs[h];
				hs[h] = 0;
				e = "{\"op\":\"dropHandle\"," + kv("h", h) + "}";
			}
			else if (r < 106) // popget
			{
				if (len == 0) continue;
				T y = do_popget(a);
				e = "{\"op\":\"popget\"," + kv("h", h) + "," + kv("r", valueOf<Cv>(y)) + post(h);
			}
			else if (r < 108)
			{
				if (len == 0) continue;
				int n = rng.range(1, len < 3 ? len : 3);
				do_pop(a, n);
				e = "{\"op\":\"pop\"," + kv("h", h) + "," + kv("n", n) + post(h);
			}
			else if (r < 111)
			{
				if (len == 0) continue;
				T y = do_get(a);
				e = "{\"op\":\"get\"," + kv("h", h) + "," + kv("r", valueOf<Cv>(y)) + post(h);
			}
			else { check(); done++; continue; }
			log.line(e);
			done++;
		}
		check();
		for (int i = 1; i <= NH; i++) { delete hs[i]; hs[i] = 0; }
	}
};

template <class C, class Cv>
static void execution(Rng& rng, Log& log, long n, bool ag, int maxLen)
{
	long live0 = Cv::live();
	log.line("{\"op\":\"reset\"}");
	{
		Exec<C, Cv> ex(rng, log, ag, maxLen);
		ex.run(n);
	}
	if (Cv::live() >= 0 && Cv::live() != live0)
	{
		fprintf(stderr, "VREC-FAIL: %ld element instances still alive after all handles were dropped\n", Cv::live() - live0);
		exit(3);
	}
}

int main(int argc, char** argv)
{
	Args args(argc, argv);
	Rng rng(args.seed);
	Log log(args.out);
	bool ag = args.avoid.count("GrowWhileShared") > 0;
	long remaining = args.events;
	int k = (int)(args.seed % 8);
	while (remaining > 0)
	{
		long n = rng.range(200, 2500);
		if (n > remaining) n = remaining;
		switch (k++ % 8)
		{
		case 0: execution<Array<int>, ConvInt>(rng, log, n, ag, 700); break;
		case 1: execution<Array<Counted>, ConvCounted>(rng, log, n, ag, 300); break;
		case 2: execution<Array<String>, ConvStr<0> >(rng, log, n, ag, 120); break;
		case 3: execution<Array<String>, ConvStr<1> >(rng, log, n, ag, 120); break;
		case 4: execution<Stack<Counted>, ConvCounted>(rng, log, n, ag, 300); break;
		case 5: execution<Queue<String>, ConvStr<0> >(rng, log, n, ag, 120); break;
		case 6: execution<Stack<int>, ConvInt>(rng, log, n, ag, 700); break;
		case 7: execution<Queue<Counted>, ConvCounted>(rng, log, n, ag, 300); break;
		}
		remaining -= n;
	}
	return 0;
}
