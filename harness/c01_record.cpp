// C01 recorder (V): seeded random driver of asl::Array / Stack / Queue that logs one ndjson event per public call;
// spec/Trace_ArraySeq.tla validates the log against the ArraySeq actions.  Lengths reach several hundred elements so
// that both growth paths of Array::reserve (malloc+memcpy below 2048 bytes, realloc above) and every capacity
// doubling are crossed.  The driver follows the documented API: in-range arguments only, and it never grows an array
// through one handle beyond cap() while other handles share it when that hazard is an open finding (--avoid).
#include "c01_common.h"
#include "vrec.h"
#include <map>
#include <vector>

using namespace vrec;

static const int NH = 8;
static const int NV = 3;

template <class Cv>
static int valueOf(const typename Cv::T& x)
{
	for (int v = 0; v <= NV; v++)
		if (Cv::same(x, v)) return v;
	return -1;
}

template <class C, class Cv>
struct Exec
{
	typedef typename Cv::T T;
	C* hs[NH + 1];
	Rng& rng;
	Log& log;
	bool avoidGrow;
	int maxLen;

	Exec(Rng& r, Log& l, bool ag, int ml) : rng(r), log(l), avoidGrow(ag), maxLen(ml)
	{
		for (int i = 0; i <= NH; i++) hs[i] = 0;
	}

	int pickLive()
	{
		int c[NH], n = 0;
		for (int i = 1; i <= NH; i++) if (hs[i]) c[n++] = i;
		return c[rng.below(n)];
	}
	int pickDead()
	{
		int c[NH], n = 0;
		for (int i = 1; i <= NH; i++) if (!hs[i]) c[n++] = i;
		return n ? c[rng.below(n)] : 0;
	}
	int nLive()
	{
		int n = 0;
		for (int i = 1; i <= NH; i++) if (hs[i]) n++;
		return n;
	}
	bool growHazard(C& a, int need) { return avoidGrow && need > a.cap() && a.rc() > 1; }

	std::string post(int h, int g = 0)
	{
		std::string s;
		if (hs[h]) s += "," + kv("len", hs[h]->length()) + "," + kv("rc", hs[h]->rc());
		else s += "," + kv("len", 0) + "," + kv("rc", 0);
		if (g && hs[g]) s += "," + kv("glen", hs[g]->length());
		return s + "}";
	}

	void check()
	{
		std::string s = "{\"op\":\"check\",\"obs\":[";
		std::map<const void*, int> blocks;
		bool first = true;
		for (int h = 1; h <= NH; h++)
		{
			if (!hs[h]) continue;
			blocks[(const void*)hs[h]->data()] = hs[h]->length();
			if (!first) s += ",";
			first = false;
			s += "{" + kv("h", h) + ",\"s\":[";
			char b[16];
			for (int i = 0; i < hs[h]->length(); i++)
			{
				snprintf(b, sizeof b, i ? ",%d" : "%d", valueOf<Cv>((*hs[h])[i]));
				s += b;
			}
			s += "]," + kv("rc", hs[h]->rc()) + "}";
		}
		long live = 0;
		for (std::map<const void*, int>::iterator it = blocks.begin(); it != blocks.end(); ++it) live += it->second;
		if (Cv::live() >= 0) live = Cv::live(); // counted elements: the real number of live instances
		s += "]," + kv("live", live) + "}";
		log.line(s);
	}

	void bindNew(int g, const Array<T>& t)
	{
		if (!hs[g]) hs[g] = new C();
		static_cast<Array<T>&>(*hs[g]) = t;
	}

	void run(long nevents)
	{
		hs[1] = new C();
		long done = 0;
		int burst = 0;
		while (done < nevents)
		{
			int h = pickLive();
			C& a = *hs[h];
			int len = a.length();
			int r = rng.below(162);
			if (burst > 0) { r = 0; burst--; }
			else if (rng.below(400) == 0) burst = rng.range(20, 300);
			std::string e;
			if (r < 25) // append
			{
				if (len >= maxLen || growHazard(a, len + 1)) continue;
				int v = rng.range(1, NV);
				do_push(a, Cv::make(v));
				e = "{\"op\":\"append\"," + kv("h", h) + "," + kv("v", v) + post(h);
			}
			else if (r < 31) // insert
			{
				if (len >= maxLen || growHazard(a, len + 1)) continue;
				int v = rng.range(1, NV), k = rng.below(len + 1);
				a.insert(k, Cv::make(v));
				e = "{\"op\":\"insert\"," + kv("h", h) + "," + kv("k", k) + "," + kv("v", v) + post(h);
			}
			else if (r < 34) // appendSelf
			{
				if (len == 0 || len >= maxLen || growHazard(a, len + 1)) continue;
				int i = rng.below(len);
				a << a[i];
				e = "{\"op\":\"appendSelf\"," + kv("h", h) + "," + kv("i", i) + post(h);
			}
			else if (r < 37) // insertSelf
			{
				if (len == 0 || len >= maxLen || growHazard(a, len + 1)) continue;
				int i = rng.below(len), k = rng.below(len + 1);
				a.insert(k, a[i]);
				e = "{\"op\":\"insertSelf\"," + kv("h", h) + "," + kv("k", k) + "," + kv("i", i) + post(h);
			}
			else if (r < 42) // set
			{
				if (len == 0) continue;
				int i = rng.below(len), v = rng.range(1, NV);
				a[i] = Cv::make(v);
				e = "{\"op\":\"set\"," + kv("h", h) + "," + kv("i", i) + "," + kv("v", v) + post(h);
			}
			else if (r < 48) // remove
			{
				if (len == 0) continue;
				int i = rng.below(len), n = rng.chance(70) ? 1 : rng.range(1, len - i);
				if (n == 1 && rng.chance(50)) a.remove(i); else a.remove(i, n);
				e = "{\"op\":\"remove\"," + kv("h", h) + "," + kv("i", i) + "," + kv("n", n) + post(h);
			}
			else if (r < 51) // removeOne
			{
				int v = rng.range(1, NV);
				bool res = a.removeOne(Cv::make(v));
				e = "{\"op\":\"removeOne\"," + kv("h", h) + "," + kv("v", v) + "," + kv("r", res ? 1 : 0) + post(h);
			}
			else if (r < 54) { a.removeLast(); e = "{\"op\":\"removeLast\"," + kv("h", h) + post(h); }
			else if (r < 56)
			{
				int v = rng.range(1, NV);
				EqFn<Cv> f = { Cv::make(v) };
				a.removeIf(f);
				e = "{\"op\":\"removeIf\"," + kv("h", h) + "," + kv("v", v) + post(h);
			}
			else if (r < 60) // resize
			{
				int m = rng.chance(15) ? rng.below(maxLen + 1) : rng.chance(50) ? rng.below(len + 1) : len + rng.below(12);
				if (m > maxLen || growHazard(a, m)) continue;
				a.resize(m);
				if (Cv::pod) for (int q = len; q < m; q++) a[q] = Cv::make(0);
				e = "{\"op\":\"resize\"," + kv("h", h) + "," + kv("m", m) + post(h);
			}
			else if (r < 63) // reserve
			{
				int m = rng.chance(30) ? a.cap() * 2 + rng.range(1, 40) : rng.below(a.cap() + 10);
				if (m > 3 * maxLen || growHazard(a, m)) continue;
				a.reserve(m);
				e = "{\"op\":\"reserve\"," + kv("h", h) + "," + kv("m", m) + post(h);
			}
			else if (r < 64) { if (rng.chance(70)) continue; a.clear(); e = "{\"op\":\"clear\"," + kv("h", h) + post(h); }
			else if (r < 66) { a.sort(); e = "{\"op\":\"sort\"," + kv("h", h) + post(h); }
			else if (r < 69) // appendArr
			{
				int g = pickLive();
				if (len + hs[g]->length() > maxLen || growHazard(a, len + hs[g]->length())) continue;
				a.append(*hs[g]);
				e = "{\"op\":\"appendArr\"," + kv("h", h) + "," + kv("g", g) + post(h);
			}
			else if (r < 71) // copyFrom
			{
				int g = pickLive();
				if (growHazard(a, hs[g]->length())) continue;
				a.copy(*hs[g]);
				e = "{\"op\":\"copyFrom\"," + kv("h", h) + "," + kv("g", g) + post(h);
			}
			else if (r < 87) // operations producing a new array bound to g
			{
				int g = rng.chance(50) ? (pickDead() ? pickDead() : pickLive()) : pickLive();
				if (r < 73) { bindNew(g, a.reversed()); e = "{\"op\":\"reversed\"," + kv("h", h) + "," + kv("g", g) + post(h, g); }
				else if (r < 76)
				{
					int i1 = rng.below(len + 1), i2 = rng.chance(20) ? 0 : rng.range(i1, len);
					if (i2 == 0 && rng.chance(50)) bindNew(g, a.slice(i1)); else bindNew(g, a.slice(i1, i2));
					e = "{\"op\":\"slice\"," + kv("h", h) + "," + kv("g", g) + "," + kv("i1", i1) + "," + kv("i2", i2) + post(h, g);
				}
				else if (r < 78)
				{
					int g2 = pickLive();
					if (len + hs[g2]->length() > maxLen) continue;
					if (rng.chance(50)) bindNew(g, a.concat(*hs[g2])); else bindNew(g, a | *hs[g2]);
					e = "{\"op\":\"concat\"," + kv("h", h) + "," + kv("g2", g2) + "," + kv("g", g) + post(h, g);
				}
				else if (r < 80)
				{
					int v = rng.range(1, NV);
					NeFn<Cv> f = { Cv::make(v) };
					bindNew(g, a.filter(f));
					e = "{\"op\":\"filter\"," + kv("h", h) + "," + kv("g", g) + "," + kv("v", v) + post(h, g);
				}
				else if (r < 82)
				{
					SuccFn<Cv> f = { NV };
					bindNew(g, a.map(f));
					e = "{\"op\":\"map\"," + kv("h", h) + "," + kv("g", g) + post(h, g);
				}
				else { bindNew(g, a.clone()); e = "{\"op\":\"clone\"," + kv("h", h) + "," + kv("g", g) + post(h, g); }
			}
			else if (r < 89) { a.dup(); e = "{\"op\":\"dup\"," + kv("h", h) + post(h); }
			else if (r < 94) // copyHandle
			{
				int g = pickDead();
				if (!g) continue;
				hs[g] = new C(a);
				e = "{\"op\":\"copyHandle\"," + kv("h", h) + "," + kv("g", g) + post(h, g);
			}
			else if (r < 98) // assignHandle
			{
				int g = pickLive();
				*hs[g] = a;
				e = "{\"op\":\"assignHandle\"," + kv("h", h) + "," + kv("g", g) + post(h, g);
			}
			else if (r < 103) // dropHandle
			{
				if (nLive() < 2) continue;
				delete hs[h];
				hs[h] = 0;
				e = "{\"op\":\"dropHandle\"," + kv("h", h) + "}";
			}
			else if (r < 106) // popget
			{
				if (len == 0) continue;
				T y = do_popget(a);
				e = "{\"op\":\"popget\"," + kv("h", h) + "," + kv("r", valueOf<Cv>(y)) + post(h);
			}
			else if (r < 108)
			{
				if (len == 0) continue;
				int n = rng.range(1, len < 3 ? len : 3);
				do_pop(a, n);
				e = "{\"op\":\"pop\"," + kv("h", h) + "," + kv("n", n) + post(h);
			}
			else if (r < 111)
			{
				if (len == 0) continue;
				T y = do_get(a);
				e = "{\"op\":\"get\"," + kv("h", h) + "," + kv("r", valueOf<Cv>(y)) + post(h);
			}
			// ---- the remaining Array surface (ArraySeq.tla, "remaining public surface") ----
			else if (r >= 118 && r < 122) // constructors from a size / a size and a value
			{
				int g = rng.chance(50) ? (pickDead() ? pickDead() : pickLive()) : pickLive();
				int n = rng.chance(70) ? rng.below(12) : rng.below(maxLen / 2);
				if (rng.chance(50))
				{
					{
						Array<T> t(n);
						if (Cv::pod) for (int q = 0; q < n; q++) t[q] = Cv::make(0);
						bindNew(g, t);
					}
					e = "{\"op\":\"ctorN\"," + kv("h", g) + "," + kv("g", g) + "," + kv("n", n) + post(g);
				}
				else
				{
					int v = rng.range(1, NV);
					bindNew(g, Array<T>(n, Cv::make(v)));
					e = "{\"op\":\"ctorFill\"," + kv("h", g) + "," + kv("g", g) + "," + kv("n", n) + "," + kv("v", v) + post(g);
				}
			}
			else if (r >= 122 && r < 130) // list-taking calls
			{
				static const char* vias[] = { "ptr", "init", "arrayinit", "arrayfn", "comma" };
				int ln = rng.below(7);
				std::vector<T> x;
				std::string sv = "[";
				for (int q = 0; q < ln; q++)
				{
					int v = rng.range(1, NV);
					x.push_back(Cv::make(v));
					sv += (q ? "," : "") + std::to_string(v);
				}
				sv += "]";
				x.push_back(Cv::make(0));
				int what = rng.below(3);
				if (what == 0)
				{
					int g = rng.chance(50) ? (pickDead() ? pickDead() : pickLive()) : pickLive();
					std::string via = vias[rng.below(5)];
					if (via == "arrayfn" && ln == 0) continue;
					{
						Array<T> t;
						if (via == "ptr") { Array<T> u(&x[0], ln); t = u; }
						else if (via == "init") t = listCtor<T>(&x[0], ln);
						else if (via == "arrayinit") t = listArrayInit<T>(&x[0], ln);
						else if (via == "arrayfn") t = listArrayFn<T>(&x[0], ln);
						else { Array<T> u; for (int q = 0; q < ln; q++) (u, x[q]); t = u; }
						bindNew(g, t);
					}
					e = "{\"op\":\"fromList\"," + kv("h", g) + "," + kv("g", g) + ",\"s\":" + sv + "," + ks("via", via) + post(g);
				}
				else if (what == 1)
				{
					if (a.rc() != 1) continue; // a = {...} on a shared array: not specified
					listAssign<T>(a, &x[0], ln);
					e = "{\"op\":\"assignList\"," + kv("h", h) + ",\"s\":" + sv + post(h);
				}
				else
				{
					if (len + ln > maxLen || growHazard(a, len + ln)) continue;
					listAppend<T>(a, &x[0], ln);
					e = "{\"op\":\"appendList\"," + kv("h", h) + ",\"s\":" + sv + post(h);
				}
			}
			else if (r >= 130 && r < 139) // pointer-based calls, the pointer may point into the array itself
			{
				int g = rng.chance(50) ? h : pickLive();
				int gl = hs[g]->length();
				int i = rng.below(gl + 1), n = rng.chance(20) ? gl - i : rng.below(gl - i + 1);
				if (n > 40 && rng.chance(80)) n = rng.below(40);
				int what = rng.below(3);
				if (what == 0)
				{
					if (len + n > maxLen || growHazard(a, len + n)) continue;
					a.append(hs[g]->data() + i, n);
					e = "{\"op\":\"appendPtr\"," + kv("h", h) + "," + kv("g", g) + "," + kv("i", i) + "," + kv("n", n) + post(h);
				}
				else if (what == 1)
				{
					if (growHazard(a, n)) continue;
					a.copy(hs[g]->data() + i, n);
					e = "{\"op\":\"copyPtr\"," + kv("h", h) + "," + kv("g", g) + "," + kv("i", i) + "," + kv("n", n) + post(h);
				}
				else
				{
					int t = rng.chance(50) ? (pickDead() ? pickDead() : pickLive()) : pickLive();
					{
						Array<T> u(hs[g]->data() + i, n);
						bindNew(t, u);
					}
					e = "{\"op\":\"ctorPtr\"," + kv("h", g) + "," + kv("g", t) + "," + kv("i", i) + "," + kv("n", n) + post(g, t);
				}
			}
			else if (r >= 139 && r < 143) // conversions
			{
				static const char* vias[] = { "ctor", "with", "map_" };
				if (rng.chance(70))
				{
					int g = rng.chance(50) ? (pickDead() ? pickDead() : pickLive()) : pickLive();
					std::string via = vias[rng.below(3)];
					bindNew(g, convertVia<T>(a, via));
					e = "{\"op\":\"conv\"," + kv("h", h) + "," + kv("g", g) + "," + ks("via", via) + post(h, g);
				}
				else
				{
					int g = pickLive();
					if (a.rc() != 1) continue; // template operator= on a shared array: not specified
					Array<Box<T> > b(*hs[g]);
					static_cast<Array<T>&>(a) = b;
					e = "{\"op\":\"assignConv\"," + kv("h", h) + "," + kv("g", g) + post(h);
				}
			}
			else if (r >= 143 && r < 147) // sort(Less), sortBy(key)
			{
				int what = rng.below(3);
				if (what == 0) { a.sort(GreaterFn<Cv>()); e = "{\"op\":\"sortDesc\"," + kv("h", h) + post(h); }
				else if (what == 1)
				{
					int asc = rng.below(2);
					if (asc && rng.chance(50)) a.sortBy(KeyFn<Cv>()); else a.sortBy(KeyFn<Cv>(), asc == 1);
					e = "{\"op\":\"sortBy\"," + kv("h", h) + "," + kv("asc", asc) + post(h);
				}
				else
				{
					a.sortBy(ParFn<Cv>());
					std::string sv = "[";
					char b[16];
					for (int q = 0; q < a.length(); q++) { snprintf(b, sizeof b, q ? ",%d" : "%d", valueOf<Cv>(a[q])); sv += b; }
					e = "{\"op\":\"sortByPar\"," + kv("h", h) + ",\"s2\":" + sv + "]" + post(h);
				}
			}
			else if (r >= 147 && r < 151) // removal variants
			{
				int what = rng.below(3);
				if (what == 0)
				{
					int v = rng.below(NV + 1); // (the String tables have 4 entries)
					LtFn<Cv> f = { Cv::make(v) };
					a.removeIf(f);
					e = "{\"op\":\"removeIfLt\"," + kv("h", h) + "," + kv("v", v) + post(h);
				}
				else if (what == 1)
				{
					int v = rng.range(1, NV), i0 = rng.below(len + 1);
					bool res = a.removeOne(Cv::make(v), i0);
					e = "{\"op\":\"removeOneFrom\"," + kv("h", h) + "," + kv("v", v) + "," + kv("i", i0) + "," + kv("r", res ? 1 : 0) + post(h);
				}
				else
				{
					int i = rng.below(len + 1);
					a.remove(i, 0);
					e = "{\"op\":\"remove\"," + kv("h", h) + "," + kv("i", i) + "," + kv("n", 0) + post(h);
				}
			}
			else if (r >= 151 && r < 162) // calls that only read: the result is logged and TLC computes what it must be
			{
				int what = rng.below(6);
				char b[16];
				if (what == 0) // enumerators
				{
					static const char* vias[] = { "slice_", "slice_", "all", "for", "foreach" };
					std::string via = vias[rng.below(5)];
					int i1 = 0, i2 = 0;
					if (via == "slice_") { i1 = rng.below(len + 1); i2 = rng.chance(25) ? 0 : rng.range(i1, len); if (i2 - i1 > 60) i2 = i1 + rng.below(60); if (i2 == 0 && len - i1 > 60) continue; }
					else if (len > 80) continue;
					std::string rv = "[";
					int cnt = 0;
					if (via == "slice_" || via == "all")
					{
						typename Array<T>::Enumerator en = via == "all" ? a.all() : (i2 == 0 && rng.chance(50)) ? a.slice_(i1) : a.slice_(i1, i2);
						for (; en; ++en, cnt++) { snprintf(b, sizeof b, cnt ? ",%d" : "%d", valueOf<Cv>(*en)); rv += b; }
					}
					else if (via == "for") { for (T& x : a) { snprintf(b, sizeof b, cnt ? ",%d" : "%d", valueOf<Cv>(x)); rv += b; cnt++; } }
					else { foreach (T& x, a) { snprintf(b, sizeof b, cnt ? ",%d" : "%d", valueOf<Cv>(x)); rv += b; cnt++; } }
					e = "{\"op\":\"enum\"," + kv("h", h) + "," + kv("i1", i1) + "," + kv("i2", i2) + "," + ks("via", via) + ",\"r\":" + rv + "]" + post(h);
				}
				else if (what == 1)
				{
					int v = rng.range(1, NV), j = rng.below(len + 1);
					e = "{\"op\":\"indexOf\"," + kv("h", h) + "," + kv("v", v) + "," + kv("j", j) + "," + kv("r", a.indexOf(Cv::make(v), j) + 1) + post(h);
				}
				else if (what == 2)
				{
					if (len == 0) continue;
					int i = rng.chance(50) ? 0 : rng.below(len);
					e = "{\"op\":\"top\"," + kv("h", h) + "," + kv("i", i) + "," + kv("r", valueOf<Cv>(do_top(a, i))) + post(h);
				}
				else if (what < 5)
				{
					int g = pickLive();
					const C& bb = *hs[g];
					if ((a == bb) == (a != bb)) { fprintf(stderr, "VREC-FAIL: == and != agree\n"); exit(3); }
					e = "{\"op\":\"cmp\"," + kv("h", h) + "," + kv("g", g) + "," + kv("eq", a == bb ? 1 : 0) + "," + kv("lt", a < bb ? 1 : 0) + post(h);
				}
				else
				{
					if (Cv::tt < 0 || len > 40) continue;
					std::string sep = rng.chance(30) ? "" : rng.chance(50) ? ", " : "-+-";
					String j = joinOf(a, String(sep.c_str(), (int)sep.size()));
					e = "{\"op\":\"join\"," + kv("h", h) + "," + kv("tt", Cv::tt) + ",\"sep\":" + vj::codes(sep) + ",\"r\":" + vj::codes(std::string(*j, (size_t)j.length())) + post(h);
				}
			}
			else { check(); done++; continue; }
			log.line(e);
			done++;
		}
		check();
		for (int i = 1; i <= NH; i++) { delete hs[i]; hs[i] = 0; }
	}
};

template <class C, class Cv>
static void execution(Rng& rng, Log& log, long n, bool ag, int maxLen)
{
	long live0 = Cv::live();
	log.line("{\"op\":\"reset\"}");
	{
		Exec<C, Cv> ex(rng, log, ag, maxLen);
		ex.run(n);
	}
	if (Cv::live() >= 0 && Cv::live() != live0)
	{
		fprintf(stderr, "VREC-FAIL: %ld element instances still alive after all handles were dropped\n", Cv::live() - live0);
		exit(3);
	}
}

int main(int argc, char** argv)
{
	Args args(argc, argv);
	Rng rng(args.seed);
	Log log(args.out);
	bool ag = args.avoid.count("GrowWhileShared") > 0;
	long remaining = args.events;
	int k = (int)(args.seed % 8);
	while (remaining > 0)
	{
		long n = rng.range(200, 2500);
		if (n > remaining) n = remaining;
		switch (k++ % 8)
		{
		case 0: execution<Array<int>, ConvInt>(rng, log, n, ag, 700); break;
		case 1: execution<Array<Counted>, ConvCounted>(rng, log, n, ag, 300); break;
		case 2: execution<Array<String>, ConvStr<0> >(rng, log, n, ag, 120); break;
		case 3: execution<Array<String>, ConvStr<1> >(rng, log, n, ag, 120); break;
		case 4: execution<Stack<Counted>, ConvCounted>(rng, log, n, ag, 300); break;
		case 5: execution<Queue<String>, ConvStr<0> >(rng, log, n, ag, 120); break;
		case 6: execution<Stack<int>, ConvInt>(rng, log, n, ag, 700); break;
		case 7: execution<Queue<Counted>, ConvCounted>(rng, log, n, ag, 300); break;
		}
		remaining -= n;
	}
	return 0;
}
