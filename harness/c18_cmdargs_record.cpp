// C18 growth, CmdArgs recorder (V): seeded random sessions on real asl::CmdArgs objects, logged in the vocabulary of
// spec/Trace_CmdArgs.tla.  A session: a command line of 0..12 tokens (options -name, flags -name!, values: words,
// numbers, true/false/yes/no/0/1, empty strings, texts with = : / . and blanks, values of 100..400 bytes; sometimes a
// token the documentation says nothing about: "-", "--long", "-5", "--"), a specification string listing some names as
// flags / as options that need a value, then 0..8 queries of random kinds for names that are present, absent or already
// queried.  One session in four runs through CmdArgs(spec) in a re-executed process (its own arguments).
// Nothing is compared here: TLC decides (Trace_CmdArgs).
#include "c18_cmdargs.h"
#include "vrec.h"

using namespace vrec;
using namespace c18a;

static const char* NAMES[] = { "a", "b", "f", "q", "I", "name", "fast", "format", "v", "x1", "Long-name", "o_2" };

static std::string value(Rng& rng)
{
	int k = rng.below(100);
	static const char* WORDS[] = { "1", "0", "true", "false", "yes", "no", "jpeg", "85", "image1.png", "/usr/include", "a=b", "k:v", "two words", "v", "w", "TRUE", "No" };
	if (k < 55) return WORDS[rng.below(17)];
	if (k < 62) return "";
	std::string s;
	int n = k < 90 ? rng.range(1, 12) : rng.range(100, 400);
	static const char ALPHA[] = "abcxyzABC0189 =:/.,_-+!\\\"'%";
	for (int i = 0; i < n; i++) s += ALPHA[rng.below((int)sizeof(ALPHA) - 1)];
	if (s[0] == '-') s[0] = 'm';
	return s;
}

int main(int argc, char** argv)
{
	maybeSelfChild(argc, argv);
	Args args(argc, argv);
	Rng rng(args.seed);
	Log log(args.out);
	while (log.lines < args.events)
	{
		Strs toks, flags, vopts;
		for (int i = 0; i < 12; i++)
		{
			if (rng.chance(12)) flags.push_back(NAMES[i]);
			else if (rng.chance(10)) vopts.push_back(NAMES[i]);
		}
		int n = rng.chance(8) ? 0 : rng.chance(70) ? rng.range(1, 6) : rng.range(7, 12);
		for (int i = 0; i < n; i++)
		{
			int k = rng.below(100);
			if (k < 38) toks.push_back(std::string("-") + NAMES[rng.below(12)]);
			else if (k < 50) toks.push_back(std::string("-") + NAMES[rng.below(12)] + "!");
			else if (k < 97) toks.push_back(value(rng));
			else
			{
				static const char* ODD[] = { "-", "--long", "-5", "--", "-!", "--a!" };
				toks.push_back(ODD[rng.below(6)]);
			}
		}
		std::vector<Query> qs;
		int nq = rng.below(9);
		static const char* KINDS[] = { "has", "get", "dflt", "multi", "is" };
		for (int i = 0; i < nq; i++)
		{
			Query q;
			q.kind = KINDS[rng.below(5)];
			q.x = rng.chance(85) ? NAMES[rng.below(12)] : rng.chance(50) ? "zz" : "";
			qs.push_back(q);
		}
		Strs lines;
		size_t bytes = 0;
		for (size_t i = 0; i < toks.size(); i++) bytes += toks[i].size() + 1;
		bool noSelf = args.avoid.count("SelfArgsTruncated") > 0 && bytes > 200; // open finding: long command lines only through argc/argv
		if (rng.chance(25) && !noSelf)
		{
			std::string err;
			if (!viaSelf(toks, flags, vopts, qs, lines, err))
			{
				fprintf(stderr, "VREC-FAIL: %s\n", err.c_str());
				return 3;
			}
		}
		else lines = direct(toks, flags, vopts, qs);
		for (size_t i = 0; i < lines.size(); i++) log.line(lines[i]);
	}
	return 0;
}
