// C08: shared by the replayer and the recorder.  Runs every UTF conversion / counting / iteration / case function of
// asl::String on one byte string and returns the projection that spec/Utf.tla talks about.  No expectation is
// computed here: the values go to the comparison with TLC's expected values (R) or into the trace TLC validates (V).
//
// Placement: inputs of the free conversion functions are copied into malloc blocks of exactly the needed size, so the
// terminator is the last addressable byte and AddressSanitizer reports any read past it; String objects are built in
// three placements: plain, padded with 'x' to 15 bytes inside a heap-allocated String object (inline storage ends
// with the object), and padded to >= 19 bytes (String allocates exactly length+1 bytes from there on).
#ifndef C08_COMMON_H
#define C08_COMMON_H
#include <asl/String.h>
#include <asl/Array.h>
#include <string>
#include <vector>
#include <cstring>
#include <cstdlib>
#include <cwchar>
using namespace asl;

template <class T>
struct Flush // exactly n elements, end of block == end of data
{
	T* p;
	size_t n;
	explicit Flush(size_t k) : p((T*)malloc(k * sizeof(T) ? k * sizeof(T) : 1)), n(k) {}
	~Flush() { free(p); }
private:
	Flush(const Flush&);
	void operator=(const Flush&);
};

struct Obs
{
	long n;                       // count()
	std::vector<int> cs, c32, it; // chars(), utf8toUtf32, iteration
	std::vector<int> w;           // utf8toUtf16
	std::string b8;               // utf16toUtf8(w)
	std::string up, lo;           // toUpperCase / toLowerCase (bytes, length() of them)
	int wlen;                     // wlength()
	std::vector<int> dw;          // dataw()
	std::string err;              // harness-level finding (non-termination guard, pad damaged, length()/NUL mismatch)
	Obs() : n(0), wlen(0) {}
};

static const char PADC = 'x';

inline int padFor(size_t len, int placement)
{
	if (placement == 1) return len <= 15 ? (int)(15 - len) : 0;
	if (placement == 2) return len < 19 ? (int)(19 - len) : 0;
	return 0;
}

// the free functions on raw buffers (no String involved)
inline void observeRaw(const std::string& z, Obs& o)
{
	size_t len = z.size();
	Flush<char> in(len + 1);
	memcpy(in.p, z.data(), len);
	in.p[len] = 0;
	{
		Flush<int> out(len + 1);
		int r = utf8toUtf32(in.p, out.p, (int)len);
		if (r < 0 || (size_t)r > len) { o.err = "utf8toUtf32 returned " + std::to_string(r); return; }
		if (out.p[r] != 0) { o.err = "utf8toUtf32 output not terminated"; return; }
		o.c32.assign(out.p, out.p + r);
	}
	{
		Flush<wchar_t> out(len + 1);
		int r = utf8toUtf16(in.p, out.p, (int)len);
		if (r < 0 || (size_t)r > len) { o.err = "utf8toUtf16 returned " + std::to_string(r); return; }
		if (out.p[r] != 0) { o.err = "utf8toUtf16 output not terminated"; return; }
		for (int i = 0; i < r; i++) o.w.push_back((int)out.p[i]);
		// and back (the input is what the library itself produced; its terminator is the last element of a flush block)
		Flush<wchar_t> win((size_t)r + 1);
		memcpy(win.p, out.p, ((size_t)r + 1) * sizeof(wchar_t));
		Flush<char> back(4 * (size_t)r + 1);
		int m = utf16toUtf8(win.p, back.p, r);
		if (m < 0 || m > 4 * r) { o.err = "utf16toUtf8 returned " + std::to_string(m); return; }
		if (back.p[m] != 0) { o.err = "utf16toUtf8 output not terminated"; return; }
		o.b8.assign(back.p, (size_t)m);
	}
}

// String methods, in the given placement; the pad is verified and stripped from the projection
inline void observeString(const std::string& z, int placement, Obs& o)
{
	int pad = padFor(z.size(), placement);
	std::string full = std::string((size_t)pad, PADC) + z;
	size_t len = full.size();
	Flush<char> in(len + 1);
	memcpy(in.p, full.data(), len);
	in.p[len] = 0;
	String* ps = new String(in.p); // heap-allocated object: inline storage is flush with the end of its block
	const String& s = *ps;
	do
	{
		if (s.length() != (int)len || strlen(*s) != len) { o.err = "String(const char*) length"; break; }
		o.n = s.count() - pad;
		{
			Array<int> c = s.chars();
			if (c.length() < pad) { o.err = "chars() lost the padding"; break; }
			for (int i = 0; i < pad; i++) if (c[i] != PADC) o.err = "chars() damaged the padding";
			o.cs.assign(c.data() + pad, c.data() + c.length());
		}
		{
			const char* end = *s + len;
			size_t steps = 0;
			std::vector<int> it;
			for (String::Enumerator e = s.all(); e; ++e)
			{
				it.push_back(*e);
				if (++steps > len + 1) { o.err = "code point iteration does not terminate"; break; }
				if (e.u + e.n > end) { o.err = "code point iteration steps past the terminator"; break; }
			}
			if (!o.err.empty()) break;
			if ((int)it.size() < pad) { o.err = "iteration lost the padding"; break; }
			for (int i = 0; i < pad; i++) if (it[i] != PADC) o.err = "iteration damaged the padding";
			o.it.assign(it.begin() + pad, it.end());
		}
		{
			String u = s.toUpperCase();
			String l = s.toLowerCase();
			if (u.length() < pad || l.length() < pad) { o.err = "case mapping lost the padding"; break; }
			for (int i = 0; i < pad; i++) if (u[i] != 'X' || l[i] != 'x') o.err = "case mapping damaged the padding";
			if ((*u)[u.length()] != 0 || (*l)[l.length()] != 0) { o.err = "case-mapped string not terminated at length()"; break; }
			o.up.assign(*u + pad, (size_t)(u.length() - pad));
			o.lo.assign(*l + pad, (size_t)(l.length() - pad));
		}
		{
			String t = s; // wlength()/dataw() grow the buffer of the object they are called on
			o.wlen = t.wlength() - pad;
			const wchar_t* w = t.dataw();
			size_t wl = wcslen(w);
			if (wl < (size_t)pad) { o.err = "dataw() lost the padding"; break; }
			for (size_t i = (size_t)pad; i < wl; i++) o.dw.push_back((int)w[i]);
			if (t.length() != (int)len || memcmp(*t, full.data(), len + 1) != 0) { o.err = "dataw() changed the string"; break; }
		}
	} while (0);
	delete ps;
}

inline Obs observe(const std::string& z, int placement)
{
	Obs o;
	observeRaw(z, o);
	if (o.err.empty()) observeString(z, placement, o);
	return o;
}

// s.equalsNocase(t) with both operands in the given placement (padded alike)
inline bool eqNocase(const std::string& a, const std::string& b, int placement)
{
	std::string fa = std::string((size_t)padFor(a.size(), placement), PADC) + a;
	std::string fb = std::string((size_t)padFor(b.size(), placement), PADC) + b;
	// pads of different length would change the verdict: pad both with the longer pad
	if (fa.size() - a.size() != fb.size() - b.size())
	{
		size_t p = std::max(fa.size() - a.size(), fb.size() - b.size());
		fa = std::string(p, PADC) + a;
		fb = std::string(p, PADC) + b;
	}
	String* x = new String(fa.c_str());
	String* y = new String(fb.c_str());
	bool r = x->equalsNocase(*y);
	delete x;
	delete y;
	return r;
}

inline std::string lowerOf(const std::string& a)
{
	String s(a.c_str());
	String l = s.toLowerCase();
	return std::string(*l, (size_t)l.length());
}

// encoders: code points -> UTF-8 through the three entry points; "" + err on disagreement among them
inline std::string encode32(const std::vector<int>& cs, std::string& err)
{
	size_t n = cs.size();
	Flush<int> in(n + 1);
	for (size_t i = 0; i < n; i++) in.p[i] = cs[i];
	in.p[n] = 0;
	Flush<char> out(4 * n + 1);
	int r = utf32toUtf8(in.p, out.p, (int)n + 1);
	if (r < 0 || (size_t)r > 4 * n) { err = "utf32toUtf8 returned " + std::to_string(r); return ""; }
	if (out.p[r] != 0) { err = "utf32toUtf8 output not terminated"; return ""; }
	std::string a(out.p, (size_t)r);
	Array<int> arr;
	for (size_t i = 0; i < n; i++) arr << cs[i];
	String f = String::fromCodes(arr);
	if (f.length() != (int)strlen(*f)) { err = "fromCodes: length() differs from the position of the terminator"; return ""; }
	if (std::string(*f, (size_t)f.length()) != a) { err = "fromCodes and utf32toUtf8 disagree"; return ""; }
	if (n == 1)
	{
		String g = String::fromCode(cs[0]);
		if (std::string(*g, (size_t)g.length()) != a || g.length() != (int)strlen(*g)) { err = "fromCode and utf32toUtf8 disagree"; return ""; }
	}
	return a;
}

inline std::string fromWide(const std::vector<int>& w)
{
	Flush<wchar_t> in(w.size() + 1);
	for (size_t i = 0; i < w.size(); i++) in.p[i] = (wchar_t)w[i];
	in.p[w.size()] = 0;
	String s(in.p);
	return std::string(*s, (size_t)s.length());
}

#endif
