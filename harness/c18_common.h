// Shared by the C18 replayer and recorder: executing one INI edit case / one CSV table on the real asl::IniFile and
// asl::TabularDataFile inside a private scratch directory, and rendering what happened as one ndjson event in the
// vocabulary of spec/IniCsv.tla / Trace_IniCsv.tla (byte strings as arrays of codes).
#ifndef C18_COMMON_H
#define C18_COMMON_H
#include <asl/IniFile.h>
#include <asl/TabularDataFile.h>
#include <asl/Var.h>
#include "c17_common.h" // TmpDir, posixRead/posixWrite, toStr/fromStr
#include <cmath>
#include <map>
#include <set>

namespace c18 {
using namespace c17;

struct Entry { std::string sec, key, val; };
struct Cell { bool num; std::string s; }; // numbers: their "%.15g" text

inline std::string nameOf(const Entry& e) { return e.sec == "-" ? e.key : e.sec + "/" + e.key; }

inline std::string entriesJson(const std::vector<Entry>& es)
{
	std::string r = "[";
	for (size_t i = 0; i < es.size(); i++)
		r += std::string(i ? "," : "") + "{\"sec\":" + vj::codes(es[i].sec) + ",\"key\":" + vj::codes(es[i].key) + ",\"val\":" + vj::codes(es[i].val) + "}";
	return r + "]";
}
inline std::string rowsJson(const std::vector<std::vector<Cell> >& rows)
{
	std::string r = "[";
	for (size_t i = 0; i < rows.size(); i++)
	{
		r += i ? ",[" : "[";
		for (size_t j = 0; j < rows[i].size(); j++)
			r += std::string(j ? "," : "") + "{\"t\":\"" + (rows[i][j].num ? "n" : "s") + "\",\"s\":" + vj::codes(rows[i][j].s) + "}";
		r += "]";
	}
	return r + "]";
}

// ---- INI ------------------------------------------------------------------------------------------------------------
struct IniResult
{
	std::string w;              // the file after the edit (POSIX)
	std::vector<Entry> got;     // what a fresh IniFile returns for the queried keys
	std::string problem;        // non-empty: something observable directly went wrong (has() false for a present key, ...)
};

// how: 0 = explicit write() (the destructor then writes again), 1 = destructor only, 2 = operator[] assignment + destructor,
//      3 = write(otherName) + destructor (the other file is the one read back)
inline IniResult runIni(const std::string& path, const std::string& text, const std::vector<Entry>& sets,
                        const std::vector<Entry>& queries, int how)
{
	IniResult res;
	if (!posixWrite(path, text)) { res.problem = "harness: cannot write " + path; return res; }
	{
		IniFile ini(toStr(path));
		if (!ini.ok()) res.problem = "ok() false for an existing file";
		for (size_t i = 0; i < sets.size(); i++)
		{
			if (how == 2) ini[toStr(nameOf(sets[i]))] = toStr(sets[i].val);
			else ini.set(toStr(nameOf(sets[i])), toStr(sets[i].val));
		}
		if (how == 0) ini.write();
		if (how == 3) ini.write(toStr(path + ".copy"));
	}
	std::string rpath = path;
	if (how == 3)
	{
		// write(otherName) and the destructor's write to the own name must produce the same file
		std::string own, other;
		posixRead(path, own);
		bool wrote = posixRead(path + ".copy", other);
		if (wrote && own != other) res.problem = "write(name) and the destructor wrote different files";
		if (wrote) rpath = path + ".copy";
	}
	posixRead(rpath, res.w);
	{
		IniFile ini2(toStr(rpath));
		const IniFile& c = ini2;
		for (size_t i = 0; i < queries.size(); i++)
		{
			Entry g = queries[i];
			String name = toStr(nameOf(g));
			g.val = fromStr(c[name]);
			res.got.push_back(g);
			std::string viaDefault = fromStr(ini2(name, "\x01none"));
			if (viaDefault == "\x01none") viaDefault = "";
			if (viaDefault != g.val && res.problem.empty())
				res.problem = "operator() and operator[] disagree for " + nameOf(g);
			if (!g.val.empty() && !c.has(name) && res.problem.empty())
				res.problem = "has() false for " + nameOf(g) + " although a value is returned";
		}
	}
	std::string after;
	posixRead(rpath, after);
	if (after != res.w && res.problem.empty()) res.problem = "reading the file with a fresh IniFile (no set) rewrote it";
	unlink((path + ".copy").c_str());
	return res;
}

inline std::string iniEvent(const std::string& text, const std::vector<Entry>& sets, const IniResult& r, int how)
{
	return "{\"op\":\"ini\",\"how\":" + std::to_string(how) + ",\"text\":" + vj::codes(text) + ",\"sets\":" + entriesJson(sets) +
	       ",\"w\":" + vj::codes(r.w) + ",\"got\":" + entriesJson(r.got) + "}";
}

// ---- INI object sessions (growth; spec/IniCsv.tla "the IniFile object") ---------------------------------------------------
// One asl::IniFile object at a time on `path`; every call is rendered as one ndjson event ("a.*") carrying what the real
// object returned / the bytes a write left on disk.  A name whose section is the single byte 0 is a plain name (no "section/").
struct ApiSession
{
	std::string path;        // the object's own file
	std::string dir;         // scratch directory (path lives in it)
	IniFile* ini;
	std::vector<std::string> events;
	unsigned long via;       // rotates set() / operator[]= for "set"
	explicit ApiSession(const std::string& d, unsigned long salt = 0) : path(d + "/o-" + std::to_string((int)getpid()) + ".ini"), dir(d), ini(0), via(salt) {}
	~ApiSession()
	{
		if (ini) { delete ini; ini = 0; }
		unlink(path.c_str());
		unlink((path + ".copy").c_str());
	}
	static std::string fullName(const std::string& sec, const std::string& key) { return sec == std::string(1, '\0') ? key : sec + "/" + key; }
	static const char* bstr(bool b) { return b ? "true" : "false"; }
	std::string diskJson(const char* field = "w")
	{
		std::string w;
		bool ex = posixRead(path, w);
		return std::string("\"") + field + "\":" + vj::codes(w) + ",\"exists\":" + bstr(ex);
	}
	void start(const std::string& text, bool exists)
	{
		unlink(path.c_str());
		if (exists) posixWrite(path, text);
		events.push_back("{\"op\":\"a.new\",\"text\":" + vj::codes(text) + ",\"exists\":" + bstr(exists) + "}");
	}
	void open(bool sw)
	{
		ini = new IniFile(toStr(path), sw);
		events.push_back(std::string("{\"op\":\"a.open\",\"sw\":") + bstr(sw) + ",\"ok\":" + bstr(ini->ok()) +
		                 ",\"fname\":" + bstr(fromStr(ini->fileName()) == path) + "}");
	}
	void set(const std::string& sec, const std::string& key, const std::string& val)
	{
		int how = (int)(via++ % 2);
		if (how == 0) ini->set(toStr(fullName(sec, key)), toStr(val));
		else (*ini)[toStr(fullName(sec, key))] = toStr(val);
		events.push_back("{\"op\":\"a.set\",\"sec\":" + vj::codes(sec) + ",\"key\":" + vj::codes(key) + ",\"val\":" + vj::codes(val) +
		                 ",\"via\":" + std::to_string(how) + "}");
	}
	std::string get(const std::string& sec, const std::string& key)
	{
		std::string r = fromStr((*ini)[toStr(fullName(sec, key))]);
		events.push_back("{\"op\":\"a.get\",\"sec\":" + vj::codes(sec) + ",\"key\":" + vj::codes(key) + ",\"r\":" + vj::codes(r) + "}");
		return r;
	}
	void cur(const std::string& sec)
	{
		ini->section(toStr(sec));
		events.push_back("{\"op\":\"a.cur\",\"sec\":" + vj::codes(sec) + "}");
	}
	int asize(const std::string& sec)
	{
		int n = ini->arraysize(toStr(sec));
		events.push_back("{\"op\":\"a.asize\",\"sec\":" + vj::codes(sec) + ",\"r\":" + std::to_string(n) + "}");
		return n;
	}
	std::string aget(const std::string& field, int idx)
	{
		std::string r = fromStr(ini->array(toStr(field), idx));
		events.push_back("{\"op\":\"a.aget\",\"field\":" + vj::codes(field) + ",\"idx\":" + std::to_string(idx) + ",\"r\":" + vj::codes(r) + "}");
		return r;
	}
	void write()
	{
		ini->write();
		events.push_back("{\"op\":\"a.write\"," + diskJson() + "}");
	}
	void writeTo()
	{
		std::string other = path + ".copy", w;
		unlink(other.c_str());
		ini->write(toStr(other));
		bool made = posixRead(other, w);
		events.push_back("{\"op\":\"a.writeTo\",\"w\":" + vj::codes(w) + ",\"made\":" + bstr(made) + "}");
		unlink(other.c_str());
	}
	void writeBad()
	{
		// a path that cannot be written: its directory does not exist
		ini->write(toStr(dir + "/no-such-dir/x.ini"));
		events.push_back("{\"op\":\"a.writeBad\"," + diskJson() + "}");
	}
	void close()
	{
		delete ini;
		ini = 0;
		events.push_back("{\"op\":\"a.close\"," + diskJson() + "}");
	}
	// the const queries: operator[], has(), operator()(name, default) per probe name; sectionNames(); values(); values(section)
	void observe(const std::vector<Entry>& probes)
	{
		const IniFile& c = *ini;
		std::string e = "{\"op\":\"a.obs\",\"q\":[";
		for (size_t i = 0; i < probes.size(); i++)
		{
			String name = toStr(fullName(probes[i].sec, probes[i].key));
			e += std::string(i ? "," : "") + "{\"sec\":" + vj::codes(probes[i].sec) + ",\"key\":" + vj::codes(probes[i].key) + ",\"v\":" +
			     vj::codes(fromStr(c[name])) + ",\"has\":\"" + (c.has(name) ? "t" : "f") + "\",\"dflt\":" + vj::codes(fromStr(c(name, String("\x01" "D")))) + "}";
		}
		e += "],\"secs\":[";
		Array<String> secs = c.sectionNames();
		for (int i = 0; i < secs.length(); i++) e += (i ? "," : "") + vj::codes(fromStr(secs[i]));
		e += "],\"vals\":[";
		Dic<> vals = c.values();
		bool first = true;
		foreach2(String & k, String & v, vals)
		{
			e += std::string(first ? "" : ",") + "{\"name\":" + vj::codes(fromStr(k)) + ",\"val\":" + vj::codes(fromStr(v)) + "}";
			first = false;
		}
		e += "],\"vals2\":[";
		first = true;
		for (int i = 0; i < secs.length(); i++)
		{
			Dic<> sv = c.values(secs[i]);
			foreach2(String & k, String & v, sv)
			{
				e += std::string(first ? "" : ",") + "{\"name\":" + vj::codes(fromStr(secs[i]) + "/" + fromStr(k)) + ",\"val\":" + vj::codes(fromStr(v)) + "}";
				first = false;
			}
		}
		events.push_back(e + "]}");
	}
};

// compares an "a.obs" event with the expectation TLC printed for it (ApiObs): q[i].v exact, has unless "u", dflt one of the
// alternatives; sectionNames(): secs <= got <= secs + secsMay; values(): vals <= got, the rest without value and named in valsMay
// (top-level entries "-/key" are not compared: their spelling is not documented)
inline std::string obsMismatch(const vj::Value& exp, const vj::Value& got)
{
	if (exp["q"].size() != got["q"].size()) return "harness: probe count";
	for (size_t i = 0; i < exp["q"].size(); i++)
	{
		const vj::Value& e = exp["q"][i];
		const vj::Value& g = got["q"][i];
		std::string name = ApiSession::fullName(e["sec"].bytes(), e["key"].bytes());
		if (g["v"].bytes() != e["v"].bytes()) return "operator[](" + vj::quote(name) + ") const is " + vj::quote(g["v"].bytes()) + ", specification says " + vj::quote(e["v"].bytes());
		if (e["has"].s() != "u" && g["has"].s() != e["has"].s()) return "has(" + vj::quote(name) + ") is " + g["has"].s() + ", specification says " + e["has"].s();
		bool ok = false;
		for (size_t k = 0; k < e["dflt"].size(); k++) ok = ok || e["dflt"][k].bytes() == g["dflt"].bytes();
		if (!ok) return "operator()(" + vj::quote(name) + ", default) is " + vj::quote(g["dflt"].bytes()) + ", specification says " + vj::quote(e["dflt"][0].bytes());
	}
	std::set<std::string> must, may, have;
	for (size_t i = 0; i < exp["secs"].size(); i++) must.insert(exp["secs"][i].bytes());
	for (size_t i = 0; i < exp["secsMay"].size(); i++) may.insert(exp["secsMay"][i].bytes());
	for (size_t i = 0; i < got["secs"].size(); i++) have.insert(got["secs"][i].bytes());
	if (have.size() != got["secs"].size()) return "sectionNames() lists a section twice";
	for (std::set<std::string>::iterator it = must.begin(); it != must.end(); ++it)
		if (!have.count(*it)) return "sectionNames() lacks " + vj::quote(*it);
	for (std::set<std::string>::iterator it = have.begin(); it != have.end(); ++it)
		if (!must.count(*it) && !may.count(*it)) return "sectionNames() lists " + vj::quote(*it) + ", a section that is neither in the file nor set";
	static const char* WHICH[] = { "vals", "vals2" };
	for (int w = 0; w < 2; w++)
	{
		std::map<std::string, std::string> gv;
		for (size_t i = 0; i < got[WHICH[w]].size(); i++)
		{
			std::string n = got[WHICH[w]][i]["name"].bytes();
			if (n.compare(0, 2, "-/") == 0) continue;
			gv[n] = got[WHICH[w]][i]["val"].bytes();
		}
		std::string fn = w == 0 ? "values()" : "values(section)";
		std::set<std::string> mayv, mustv;
		for (size_t i = 0; i < exp["valsMay"].size(); i++) mayv.insert(exp["valsMay"][i].bytes());
		for (size_t i = 0; i < exp["vals"].size(); i++)
		{
			std::string n = exp["vals"][i]["name"].bytes();
			mustv.insert(n);
			if (!gv.count(n)) return fn + " lacks " + vj::quote(n);
			if (gv[n] != exp["vals"][i]["val"].bytes()) return fn + " has " + vj::quote(n) + " = " + vj::quote(gv[n]) + ", specification says " + vj::quote(exp["vals"][i]["val"].bytes());
		}
		for (std::map<std::string, std::string>::iterator it = gv.begin(); it != gv.end(); ++it)
			if (!mustv.count(it->first) && !(mayv.count(it->first) && it->second.empty()))
				return fn + " has " + vj::quote(it->first) + " = " + vj::quote(it->second) + ", a name that is neither in the file nor set";
	}
	return "";
}

// ---- CSV ------------------------------------------------------------------------------------------------------------
inline std::string g15(double x)
{
	char b[64];
	snprintf(b, sizeof b, "%.15g", x);
	return b;
}

struct CsvResult
{
	std::string file;                        // what TabularDataFile wrote (POSIX)
	std::vector<std::vector<Cell> > got;     // what a fresh TabularDataFile reads back
	std::string problem;
};

inline std::vector<std::vector<Cell> > readCsv(const std::string& path, std::string& problem, bool rowWise = false)
{
	std::vector<std::vector<Cell> > got;
	TabularDataFile in(toStr(path));
	Array<Array<Var> > data;
	if (!rowWise) data = in.data();
	else
	{
		// while (file.nextRow()) { file[i] ... file["name"] ... }
		Array<String> names = in.columns().clone();
		while (in.nextRow())
		{
			Array<Var> row;
			for (int j = 0; j < in.row().length(); j++)
				row << ((j & 1) && j < names.length() ? in[names[j]] : in[j]);
			data << row;
		}
	}
	for (int i = 0; i < data.length(); i++)
	{
		std::vector<Cell> row;
		for (int j = 0; j < data[i].length(); j++)
		{
			const Var& v = data[i][j];
			Cell c;
			if (v.is(Var::NUMBER)) { c.num = true; c.s = g15((double)v); }
			else if (v.is(Var::STRING)) { c.num = false; c.s = fromStr(v.toString()); }
			else { c.num = false; c.s = "?"; if (problem.empty()) problem = "cell read back is neither a number nor a string"; }
			row.push_back(c);
		}
		got.push_back(row);
	}
	return got;
}

// variant bit 0: integral numbers that fit an int are written as int; bit 1: whole rows are passed as one array Var
inline CsvResult runCsv(const std::string& path, int cols, const std::vector<std::vector<Cell> >& rows, int variant)
{
	CsvResult res;
	{
		Array<String> names;
		for (int j = 0; j < cols; j++) names << toStr(std::string(1, (char)('c' + j % 20)) + (j >= 20 ? "x" : ""));
		TabularDataFile out(toStr(path));
		out.columns(names);
		if (!out.ok()) { res.problem = "harness: cannot create " + path; return res; }
		for (size_t i = 0; i < rows.size(); i++)
		{
			Array<Var> whole;
			for (size_t j = 0; j < rows[i].size(); j++)
			{
				const Cell& c = rows[i][j];
				Var v;
				if (c.num)
				{
					double x = strtod(c.s.c_str(), 0);
					if (g15(x) != c.s) { res.problem = "harness: \"" + c.s + "\" is not the %.15g text of a double"; return res; }
					if ((variant & 1) && c.s.size() <= 9 && c.s.find_first_of(".e") == std::string::npos && c.s != "-0") v = (int)x;
					else v = x;
				}
				else v = toStr(c.s);
				if (variant & 2) whole << v;
				else out << v;
			}
			if (variant & 2) out << Var(whole);
		}
	}
	posixRead(path, res.file);
	res.got = readCsv(path, res.problem, (variant & 1) != 0);
	return res;
}

// ---- CSV growth: writer options and files of other tools (spec/IniCsv.tla "dialects") ---------------------------------------
// a cell as a JSON object: number (floating point or int) {"t":"n","s":%.15g text}, string {"t":"s","s":bytes},
// nothing {"t":"0","s":[]} (operator[] outside the row / unknown column)
inline std::string varJson(const Var& v)
{
	if (v.is(Var::NUMBER)) return "{\"t\":\"n\",\"s\":" + vj::codes(g15((double)v)) + "}";
	if (v.is(Var::INT)) return "{\"t\":\"n\",\"s\":" + vj::codes(g15((double)(int)v)) + "}";
	if (v.is(Var::STRING)) return "{\"t\":\"s\",\"s\":" + vj::codes(fromStr(v.toString())) + "}";
	if (!v.ok()) return "{\"t\":\"0\",\"s\":[]}";
	return "{\"t\":\"?\",\"s\":[]}";
}
inline std::string varRowJson(const Array<Var>& row)
{
	std::string r = "[";
	for (int j = 0; j < row.length(); j++) r += (j ? "," : "") + varJson(row[j]);
	return r + "]";
}
inline std::string namesJson(const Array<String>& a)
{
	std::string r = "[";
	for (int j = 0; j < a.length(); j++) r += (j ? "," : "") + vj::codes(fromStr(a[j]));
	return r + "]";
}
inline std::string namesJson(const std::vector<std::string>& a)
{
	std::string r = "[";
	for (size_t j = 0; j < a.size(); j++) r += (j ? "," : "") + vj::codes(a[j]);
	return r + "]";
}

struct WOptions
{
	int sep, dec, flush;
	bool quotes, arff;
	std::vector<std::string> names, types; // types: ARFF column types ("" numeric, "s" string, "a|b" nominal)
	WOptions() : sep(','), dec('.'), flush(0), quotes(false), arff(false) {}
};

// writes the table with the options, reads it back when asked; returns the "csvw" event.  variant rotates the ways of naming the
// columns (array / comma separated string / constructor) and of passing a row (cell by cell / one array)
inline std::string runCsvW(const std::string& stem, const WOptions& o, const std::vector<std::vector<Cell> >& rows, const std::vector<bool>& early,
                           bool readBack, unsigned variant, std::string& problem)
{
	std::string path = stem + (o.arff ? ".arff" : ".csv");
	std::string rel = "t";
	if (o.arff) { size_t p = stem.rfind('/'); rel = stem.substr(p == std::string::npos ? 0 : p + 1); }
	std::string snaps = "[";
	{
		Array<String> names;
		String joined;
		for (size_t j = 0; j < o.names.size(); j++)
		{
			String n = toStr(o.names[j] + (o.arff && j < o.types.size() && !o.types[j].empty() ? ":" + o.types[j] : ""));
			names << n;
			joined << (j ? "," : "") << n;
		}
		bool plain = o.sep == ',' && o.dec == '.' && !o.quotes && o.flush == 0;
		TabularDataFile* out;
		if (plain && variant % 3 == 2) out = new TabularDataFile(toStr(path), names);
		else
		{
			out = new TabularDataFile(toStr(path));
			if (o.sep != ',') out->setSeparator((char)o.sep);
			if (o.dec != '.') out->setDecimal((char)o.dec);
			if (o.quotes) out->useQuotes();
			if (o.flush > 0) out->flushEvery(o.flush);
			if (variant % 3 == 1) out->columns(joined);
			else out->columns(names);
		}
		if (!out->ok()) { problem = "harness: cannot create " + path; delete out; return ""; }
		for (size_t i = 0; i < rows.size(); i++)
		{
			Array<Var> whole;
			bool asArray = (variant / 3) % 2 == 1 && !early[i];
			for (size_t j = 0; j < rows[i].size(); j++)
			{
				const Cell& c = rows[i][j];
				Var v;
				if (c.num)
				{
					double x = strtod(c.s.c_str(), 0);
					if (g15(x) != c.s) { problem = "harness: \"" + c.s + "\" is not the %.15g text of a double"; delete out; return ""; }
					if ((variant & 1) && c.s.size() <= 9 && c.s.find_first_of(".e") == std::string::npos && c.s != "-0") v = (int)x;
					else v = x;
				}
				else v = toStr(c.s);
				if (asArray) whole << v;
				else *out << v;
			}
			if (asArray) *out << Var(whole);
			if (early[i]) *out << "\n";
			if (o.flush > 0)
			{
				std::string seen;
				posixRead(path, seen);
				snaps += std::string(snaps.size() > 1 ? "," : "") + "{\"r\":" + std::to_string(i + 1) + ",\"file\":" + vj::codes(seen) + "}";
			}
		}
		delete out;
	}
	snaps += "]";
	std::string file;
	posixRead(path, file);
	std::string e = "{\"op\":\"csvw\",\"sep\":" + std::to_string(o.sep) + ",\"dec\":" + std::to_string(o.dec) + ",\"q\":" + (o.quotes ? "true" : "false") +
	                ",\"flush\":" + std::to_string(o.flush) + ",\"arff\":" + (o.arff ? "true" : "false") + ",\"rel\":" + vj::codes(rel) +
	                ",\"names\":" + namesJson(o.names) + ",\"types\":" + namesJson(o.types) + ",\"rows\":" + rowsJson(rows) + ",\"file\":" + vj::codes(file) +
	                ",\"snaps\":" + snaps + ",\"readable\":" + (readBack ? "true" : "false");
	if (readBack)
	{
		TabularDataFile in(toStr(path));
		e += ",\"gotnames\":" + namesJson(in.columns().clone()) + ",\"got\":[";
		bool first = true;
		while (in.nextRow()) { e += (first ? "" : ",") + varRowJson(in.row()); first = false; }
		e += "]";
	}
	else e += ",\"gotnames\":[],\"got\":[]";
	unlink(path.c_str());
	return e + "}";
}

// a file produced by another tool: columns(), nextRow()/row(), file[name] for every column name, file[i] past the row and file[unknown
// name], then data() on a second object; returns the "csvr" event
inline std::string runCsvR(const std::string& path, const std::string& bytes, const std::string& types)
{
	posixWrite(path, bytes);
	std::string e = "{\"op\":\"csvr\",\"file\":" + vj::codes(bytes) + ",\"types\":" + vj::codes(types);
	bool past = true;
	{
		TabularDataFile in(toStr(path));
		if (!types.empty()) in.readAs(toStr(types));
		Array<String> names = in.columns().clone();
		e += ",\"names\":" + namesJson(names) + ",\"ncols\":" + std::to_string(in.numColumns());
		std::string rows = "[", byname = "[";
		bool first = true;
		while (in.nextRow())
		{
			rows += (first ? "" : ",") + varRowJson(in.row());
			Array<Var> bn;
			for (int j = 0; j < names.length(); j++) bn << in[names[j]];
			byname += (first ? "" : ",") + varRowJson(bn);
			if (in[in.row().length()].ok() || in[-1].ok() || in[String("\x01nope")].ok()) past = false;
			first = false;
		}
		if (in.nextRow()) past = false; // the end stays the end
		e += ",\"rows\":" + rows + "],\"byname\":" + byname + "]";
	}
	{
		TabularDataFile in2(toStr(path));
		if (!types.empty()) in2.readAs(toStr(types));
		Array<Array<Var> > data = in2.data();
		e += ",\"data\":[";
		for (int i = 0; i < data.length(); i++) e += (i ? "," : "") + varRowJson(data[i]);
		e += "]";
	}
	unlink(path.c_str());
	return e + ",\"past\":" + (past ? "true" : "false") + "}";
}

// projection compare of rows rendered as JSON (expected: printed by TLC; got: varRowJson); rows of one empty string are skipped
// on both sides when skipEmpty (whether an empty line is a row is not documented)
inline bool cellEq(const vj::Value& a, const vj::Value& b)
{
	if (a["t"].s() != b["t"].s()) return false;
	if (a["t"].s() == "i") return a["v"].ll() == b["v"].ll();
	return a["s"].bytes() == b["s"].bytes();
}
inline bool emptyRow(const vj::Value& r) { return r.size() == 1 && r[0]["t"].s() == "s" && r[0]["s"].size() == 0; }
inline std::string cellShow(const vj::Value& c)
{
	return c["t"].s() == "i" ? "int " + std::to_string(c["v"].ll()) : (c["t"].s() == "n" ? "number " : c["t"].s() == "s" ? "string " : "nothing ") + vj::quote(c["s"].bytes());
}
inline std::string rowsMismatch(const vj::Value& exp, const vj::Value& got, bool skipEmpty)
{
	std::vector<const vj::Value*> a, b;
	for (size_t i = 0; i < exp.size(); i++) if (!skipEmpty || !emptyRow(exp[i])) a.push_back(&exp[i]);
	for (size_t i = 0; i < got.size(); i++) if (!skipEmpty || !emptyRow(got[i])) b.push_back(&got[i]);
	if (a.size() != b.size()) return std::to_string(b.size()) + " rows instead of " + std::to_string(a.size());
	for (size_t i = 0; i < a.size(); i++)
	{
		if (a[i]->size() != b[i]->size()) return "row " + std::to_string(i) + " has " + std::to_string(b[i]->size()) + " cells instead of " + std::to_string(a[i]->size());
		for (size_t j = 0; j < a[i]->size(); j++)
			if (!cellEq((*a[i])[j], (*b[i])[j])) return "cell (" + std::to_string(i) + "," + std::to_string(j) + ") is " + cellShow((*b[i])[j]) + ", specification says " + cellShow((*a[i])[j]);
	}
	return "";
}

inline std::string csvEvent(int cols, const std::vector<std::vector<Cell> >& rows, const CsvResult& r)
{
	return "{\"op\":\"csv\",\"cols\":" + std::to_string(cols) + ",\"rows\":" + rowsJson(rows) + ",\"file\":" + vj::codes(r.file) +
	       ",\"got\":" + rowsJson(r.got) + "}";
}

inline bool sameRows(const std::vector<std::vector<Cell> >& a, const std::vector<std::vector<Cell> >& b, std::string& why)
{
	if (a.size() != b.size()) { why = std::to_string(a.size()) + " rows instead of " + std::to_string(b.size()); return false; }
	for (size_t i = 0; i < a.size(); i++)
	{
		if (a[i].size() != b[i].size()) { why = "row " + std::to_string(i) + " has " + std::to_string(a[i].size()) + " cells instead of " + std::to_string(b[i].size()); return false; }
		for (size_t j = 0; j < a[i].size(); j++)
			if (a[i][j].num != b[i][j].num || a[i][j].s != b[i][j].s)
			{
				why = "cell (" + std::to_string(i) + "," + std::to_string(j) + ") is " + (a[i][j].num ? "number " : "string ") + vj::quote(a[i][j].s) +
				      ", written " + (b[i][j].num ? "number " : "string ") + vj::quote(b[i][j].s);
				return false;
			}
	}
	return true;
}

}
#endif
