// Shared by the C18 replayer and recorder: executing one INI edit case / one CSV table on the real asl::IniFile and
// asl::TabularDataFile inside a private scratch directory, and rendering what happened as one ndjson event in the
// vocabulary of spec/IniCsv.tla / Trace_IniCsv.tla (byte strings as arrays of codes).
#ifndef C18_COMMON_H
#define C18_COMMON_H
#include <asl/IniFile.h>
#include <asl/TabularDataFile.h>
#include <asl/Var.h>
#include "c17_common.h" // TmpDir, posixRead/posixWrite, toStr/fromStr
#include <cmath>

namespace c18 {
using namespace c17;

struct Entry { std::string sec, key, val; };
struct Cell { bool num; std::string s; }; // numbers: their "%.15g" text

inline std::string nameOf(const Entry& e) { return e.sec == "-" ? e.key : e.sec + "/" + e.key; }

inline std::string entriesJson(const std::vector<Entry>& es)
{
	std::string r = "[";
	for (size_t i = 0; i < es.size(); i++)
		r += std::string(i ? "," : "") + "{\"sec\":" + vj::codes(es[i].sec) + ",\"key\":" + vj::codes(es[i].key) + ",\"val\":" + vj::codes(es[i].val) + "}";
	return r + "]";
}
inline std::string rowsJson(const std::vector<std::vector<Cell> >& rows)
{
	std::string r = "[";
	for (size_t i = 0; i < rows.size(); i++)
	{
		r += i ? ",[" : "[";
		for (size_t j = 0; j < rows[i].size(); j++)
			r += std::string(j ? "," : "") + "{\"t\":\"" + (rows[i][j].num ? "n" : "s") + "\",\"s\":" + vj::codes(rows[i][j].s) + "}";
		r += "]";
	}
	return r + "]";
}

// ---- INI ------------------------------------------------------------------------------------------------------------
struct IniResult
{
	std::string w;              // the file after the edit (POSIX)
	std::vector<Entry> got;     // what a fresh IniFile returns for the queried keys
	std::string problem;        // non-empty: something observable directly went wrong (has() false for a present key, ...)
};

// how: 0 = explicit write() (the destructor then writes again), 1 = destructor only, 2 = operator[] assignment + destructor,
//      3 = write(otherName) + destructor (the other file is the one read back)
inline IniResult runIni(const std::string& path, const std::string& text, const std::vector<Entry>& sets,
                        const std::vector<Entry>& queries, int how)
{
	IniResult res;
	if (!posixWrite(path, text)) { res.problem = "harness: cannot write " + path; return res; }
	{
		IniFile ini(toStr(path));
		if (!ini.ok()) res.problem = "ok() false for an existing file";
		for (size_t i = 0; i < sets.size(); i++)
		{
			if (how == 2) ini[toStr(nameOf(sets[i]))] = toStr(sets[i].val);
			else ini.set(toStr(nameOf(sets[i])), toStr(sets[i].val));
		}
		if (how == 0) ini.write();
		if (how == 3) ini.write(toStr(path + ".copy"));
	}
	std::string rpath = path;
	if (how == 3)
	{
		// write(otherName) and the destructor's write to the own name must produce the same file
		std::string own, other;
		posixRead(path, own);
		bool wrote = posixRead(path + ".copy", other);
		if (wrote && own != other) res.problem = "write(name) and the destructor wrote different files";
		if (wrote) rpath = path + ".copy";
	}
	posixRead(rpath, res.w);
	{
		IniFile ini2(toStr(rpath));
		const IniFile& c = ini2;
		for (size_t i = 0; i < queries.size(); i++)
		{
			Entry g = queries[i];
			String name = toStr(nameOf(g));
			g.val = fromStr(c[name]);
			res.got.push_back(g);
			std::string viaDefault = fromStr(ini2(name, "\x01none"));
			if (viaDefault == "\x01none") viaDefault = "";
			if (viaDefault != g.val && res.problem.empty())
				res.problem = "operator() and operator[] disagree for " + nameOf(g);
			if (!g.val.empty() && !c.has(name) && res.problem.empty())
				res.problem = "has() false for " + nameOf(g) + " although a value is returned";
		}
	}
	std::string after;
	posixRead(rpath, after);
	if (after != res.w && res.problem.empty()) res.problem = "reading the file with a fresh IniFile (no set) rewrote it";
	unlink((path + ".copy").c_str());
	return res;
}

inline std::string iniEvent(const std::string& text, const std::vector<Entry>& sets, const IniResult& r, int how)
{
	return "{\"op\":\"ini\",\"how\":" + std::to_string(how) + ",\"text\":" + vj::codes(text) + ",\"sets\":" + entriesJson(sets) +
	       ",\"w\":" + vj::codes(r.w) + ",\"got\":" + entriesJson(r.got) + "}";
}

// ---- CSV ------------------------------------------------------------------------------------------------------------
inline std::string g15(double x)
{
	char b[64];
	snprintf(b, sizeof b, "%.15g", x);
	return b;
}

struct CsvResult
{
	std::string file;                        // what TabularDataFile wrote (POSIX)
	std::vector<std::vector<Cell> > got;     // what a fresh TabularDataFile reads back
	std::string problem;
};

inline std::vector<std::vector<Cell> > readCsv(const std::string& path, std::string& problem, bool rowWise = false)
{
	std::vector<std::vector<Cell> > got;
	TabularDataFile in(toStr(path));
	Array<Array<Var> > data;
	if (!rowWise) data = in.data();
	else
	{
		// while (file.nextRow()) { file[i] ... file["name"] ... }
		Array<String> names = in.columns().clone();
		while (in.nextRow())
		{
			Array<Var> row;
			for (int j = 0; j < in.row().length(); j++)
				row << ((j & 1) && j < names.length() ? in[names[j]] : in[j]);
			data << row;
		}
	}
	for (int i = 0; i < data.length(); i++)
	{
		std::vector<Cell> row;
		for (int j = 0; j < data[i].length(); j++)
		{
			const Var& v = data[i][j];
			Cell c;
			if (v.is(Var::NUMBER)) { c.num = true; c.s = g15((double)v); }
			else if (v.is(Var::STRING)) { c.num = false; c.s = fromStr(v.toString()); }
			else { c.num = false; c.s = "?"; if (problem.empty()) problem = "cell read back is neither a number nor a string"; }
			row.push_back(c);
		}
		got.push_back(row);
	}
	return got;
}

// variant bit 0: integral numbers that fit an int are written as int; bit 1: whole rows are passed as one array Var
inline CsvResult runCsv(const std::string& path, int cols, const std::vector<std::vector<Cell> >& rows, int variant)
{
	CsvResult res;
	{
		Array<String> names;
		for (int j = 0; j < cols; j++) names << toStr(std::string(1, (char)('c' + j % 20)) + (j >= 20 ? "x" : ""));
		TabularDataFile out(toStr(path));
		out.columns(names);
		if (!out.ok()) { res.problem = "harness: cannot create " + path; return res; }
		for (size_t i = 0; i < rows.size(); i++)
		{
			Array<Var> whole;
			for (size_t j = 0; j < rows[i].size(); j++)
			{
				const Cell& c = rows[i][j];
				Var v;
				if (c.num)
				{
					double x = strtod(c.s.c_str(), 0);
					if (g15(x) != c.s) { res.problem = "harness: \"" + c.s + "\" is not the %.15g text of a double"; return res; }
					if ((variant & 1) && c.s.size() <= 9 && c.s.find_first_of(".e") == std::string::npos && c.s != "-0") v = (int)x;
					else v = x;
				}
				else v = toStr(c.s);
				if (variant & 2) whole << v;
				else out << v;
			}
			if (variant & 2) out << Var(whole);
		}
	}
	posixRead(path, res.file);
	res.got = readCsv(path, res.problem, (variant & 1) != 0);
	return res;
}

inline std::string csvEvent(int cols, const std::vector<std::vector<Cell> >& rows, const CsvResult& r)
{
	return "{\"op\":\"csv\",\"cols\":" + std::to_string(cols) + ",\"rows\":" + rowsJson(rows) + ",\"file\":" + vj::codes(r.file) +
	       ",\"got\":" + rowsJson(r.got) + "}";
}

inline bool sameRows(const std::vector<std::vector<Cell> >& a, const std::vector<std::vector<Cell> >& b, std::string& why)
{
	if (a.size() != b.size()) { why = std::to_string(a.size()) + " rows instead of " + std::to_string(b.size()); return false; }
	for (size_t i = 0; i < a.size(); i++)
	{
		if (a[i].size() != b[i].size()) { why = "row " + std::to_string(i) + " has " + std::to_string(a[i].size()) + " cells instead of " + std::to_string(b[i].size()); return false; }
		for (size_t j = 0; j < a[i].size(); j++)
			if (a[i][j].num != b[i][j].num || a[i][j].s != b[i][j].s)
			{
				why = "cell (" + std::to_string(i) + "," + std::to_string(j) + ") is " + (a[i][j].num ? "number " : "string ") + vj::quote(a[i][j].s) +
				      ", written " + (b[i][j].num ? "number " : "string ") + vj::quote(b[i][j].s);
				return false;
			}
	}
	return true;
}

}
#endif
