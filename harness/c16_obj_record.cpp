// C16 (growth) recorder (V): seeded random driver of
//   --mode 0   StreamBuffer + StreamBufferReader objects          -> spec/Trace_EndianBuffer.tla
//   --mode 1   one File object with a position + other File objects on the same path   -> spec/Trace_EndianFile.tla
// One ndjson event per public call with its arguments and what the call returned / what was observed (bytes by which the
// buffer grew, values as bit patterns msb first, counts, end(), position(), content seen by another object).  Nothing is
// computed here: TLC evaluates every event against the specification.  The driver keeps a little bookkeeping of its own
// (how many bytes a reader has left, where the file position is) only to stay inside the documented preconditions (never
// read past a StreamBufferReader's window; seek targets >= 0; reads and writes of an RW file alternate with a seek).
#include "c16_file.h"
#include "vrec.h"

using namespace vrec;
using namespace c16;

static const char* TYPES[] = { "u8", "i8", "ch", "bool", "i16", "u16", "i32", "u32", "f32", "i64", "u64", "f64" };
static const char* ORDERS[] = { "BIG", "LITTLE", "NATIVE" };
static const char* CTORS[] = { "DEFAULT", "BIG", "LITTLE", "NATIVE" };

static std::string pattern(Rng& rng, const std::string& t)
{
	int n = sizeOfType(t);
	std::string v((size_t)n, '\0');
	if (t == "bool") { v[0] = (char)rng.below(2); return v; }
	int k = rng.below(8);
	if (k == 0) {}
	else if (k == 1) v.assign((size_t)n, (char)0xff);
	else if (k == 2) v[0] = (char)0x80;
	else if (k == 3) { v.assign((size_t)n, (char)0xff); v[0] = 0x7f; }
	else if (k == 4) for (int i = 0; i < n; i++) v[(size_t)i] = (char)(i + 1);
	else for (int i = 0; i < n; i++) v[(size_t)i] = (char)rng.below(256);
	return v;
}

static std::string randomBytes(Rng& rng, int n, bool nulFree)
{
	std::string b;
	for (int i = 0; i < n; i++) b += (char)(nulFree ? rng.range(1, 255) : rng.below(256));
	return b;
}

static std::string elemsJson(const std::vector<std::string>& el)
{
	std::string js = "[";
	for (size_t i = 0; i < el.size(); i++) js += (i ? "," : "") + vj::codes(el[i]);
	return js + "]";
}

static const char* tf(bool b) { return b ? "true" : "false"; }

// ---- mode 0: StreamBuffer / StreamBufferReader -------------------------------------------------------------------------
struct BufRun
{
	Rng& rng;
	Log& log;
	BufObj b;
	size_t seen;   // length of the buffer when last looked at
	int left;      // bytes the reader has left (bookkeeping for the precondition)
	BufRun(Rng& r, Log& l) : rng(r), log(l), seen(0), left(-1) {}

	std::string grown(const void* before)
	{
		std::string all = b.raw();
		std::string g = all.size() >= seen ? all.substr(seen) : std::string("?");
		seen = all.size();
		return "\"g\":" + vj::codes(g) + ",\"mv\":" + tf(before != b.where());
	}

	void writerOp()
	{
		const void* at = b.where();
		int k = rng.below(100);
		if (k < 10)
		{
			std::string o = ORDERS[rng.below(3)];
			b.wset(endianOf(o));
			log.line("{\"op\":\"set\"," + ks("o", o) + "}");
		}
		else if (k < 40)
		{
			std::string t = TYPES[rng.below(12)], v = pattern(rng, t);
			putScalar(b, t, v);
			log.line("{\"op\":\"w\"," + ks("t", t) + ",\"v\":" + vj::codes(v) + "," + grown(at) + "}");
		}
		else if (k < 55)
		{
			std::string t = TYPES[rng.below(12)];
			int n = rng.chance(15) ? 0 : rng.chance(60) ? rng.range(1, 6) : rng.range(20, 100);
			std::vector<std::string> el;
			for (int i = 0; i < n; i++) el.push_back(pattern(rng, t));
			putArray(b, t, el);
			log.line("{\"op\":\"wa\"," + ks("t", t) + ",\"a\":" + elemsJson(el) + "," + grown(at) + "}");
		}
		else if (k < 65)
		{
			std::string s = randomBytes(rng, rng.chance(15) ? 0 : rng.range(1, 40), true);
			if (rng.chance(50)) b.putRaw(s.c_str());
			else b.put(String(s.c_str(), (int)s.size()));
			log.line("{\"op\":\"ws\",\"s\":" + vj::codes(s) + "," + grown(at) + "}");
		}
		else if (k < 85)
		{
			// raw blocks: small ones and ones that make the array grow in one step (past 2 KiB the array grows by realloc)
			int n = rng.chance(10) ? 0 : rng.chance(60) ? rng.range(1, 16) : rng.chance(70) ? rng.range(100, 700) : rng.range(1500, 2600);
			std::string d = randomBytes(rng, n, false);
			std::string api = rng.chance(50) ? "raw" : "bytes";
			b.writeRaw(d, api);
			log.line("{\"op\":\"wr\",\"d\":" + vj::codes(d) + "," + ks("api", api) + "," + grown(at) + "}");
		}
		else if (k < 91) log.line("{\"op\":\"len\"," + kv("r", b.length()) + "}");
		else if (k < 96) log.line("{\"op\":\"content\",\"r\":" + vj::codes(b.content()) + "}");
		else if (k < 98)
		{
			b.clear();
			seen = 0;
			log.line("{\"op\":\"clear\"}");
		}
		else
		{
			std::string d = randomBytes(rng, rng.chance(20) ? 0 : rng.range(1, 300), false);
			b.assign(d);
			seen = d.size();
			log.line("{\"op\":\"assign\",\"d\":" + vj::codes(d) + "}");
		}
	}

	void openReader()
	{
		int len = b.length();
		int lo = rng.chance(50) ? 0 : rng.below(len + 1);
		int n = rng.chance(50) ? len - lo : rng.below(len - lo + 1);
		std::string via = rng.chance(50) ? "array" : "ptr", o = CTORS[rng.below(4)];
		b.openReader(via, lo, n, o);
		left = n;
		log.line("{\"op\":\"ropen\"," + ks("via", via) + "," + kv("lo", lo) + "," + kv("n", n) + "," + ks("o", o) + "}");
	}

	void readerOp()
	{
		int k = rng.below(100);
		if (k < 12)
		{
			std::string o = ORDERS[rng.below(3)];
			b.rset(endianOf(o));
			log.line("{\"op\":\"rset\"," + ks("o", o) + "}");
		}
		else if (k < 60)
		{
			std::string t = TYPES[rng.below(12)];
			if (sizeOfType(t) > left) t = "u8";
			if (left < 1) return;
			std::string v;
			getScalar(b, t, v);
			left -= sizeOfType(t);
			log.line("{\"op\":\"r\"," + ks("t", t) + ",\"v\":" + vj::codes(v) + "}");
		}
		else if (k < 72)
		{
			int n = rng.chance(15) ? 0 : rng.chance(20) ? left : rng.below(left < 40 ? left + 1 : 40);
			std::string r = b.readBytes(n);
			left -= n;
			log.line("{\"op\":\"rb\"," + kv("n", n) + ",\"r\":" + vj::codes(r) + "}");
		}
		else if (k < 76)
		{
			std::string r = b.readAll();
			left = 0;
			log.line("{\"op\":\"rall\",\"r\":" + vj::codes(r) + "}");
		}
		else if (k < 86)
		{
			int n = rng.chance(15) ? 0 : rng.chance(10) ? left : rng.below(left < 20 ? left + 1 : 20);
			b.skip(n);
			left -= n;
			log.line("{\"op\":\"skip\"," + kv("n", n) + "}");
		}
		else
			log.line("{\"op\":\"rq\"," + kv("len", b.rlen()) + ",\"more\":" + tf(b.rmore()) + "," + kv("pos", b.rpos()) + "," + kv("toend", b.rtoend()) + "}");
	}

	void run()
	{
		std::string o = CTORS[rng.below(4)];
		b.ctor(o);
		log.line("{\"op\":\"reset\"," + ks("o", o) + "}");
		int ops = rng.chance(20) ? rng.range(150, 300) : rng.range(3, 80);
		for (int i = 0; i < ops; i++)
		{
			if (left >= 0 && rng.chance(70)) { readerOp(); continue; }
			if (rng.chance(12)) { openReader(); continue; }
			writerOp();
		}
		if (left >= 0)
			log.line("{\"op\":\"rq\"," + kv("len", b.rlen()) + ",\"more\":" + tf(b.rmore()) + "," + kv("pos", b.rpos()) + "," + kv("toend", b.rtoend()) + "}");
		log.line("{\"op\":\"content\",\"r\":" + vj::codes(b.content()) + "}");
	}
};

// ---- mode 1: File ------------------------------------------------------------------------------------------------------
struct FileRun
{
	Rng& rng;
	Log& log;
	FileObj f;
	// bookkeeping for the usage discipline (not an oracle: TLC decides every result)
	std::string mode, last, order;
	bool exists, posdef, dirty;
	long long pos, len;
	struct Ls { long long at; int n; std::string order; };
	std::vector<Ls> lens; // length-prefixed strings written and not overwritten since
	FileRun(Rng& r, Log& l, const TmpDir& d) : rng(r), log(l), f(d), mode("closed"), last("n"), order("NATIVE"), exists(false), posdef(true), dirty(false), pos(0), len(0) {}

	bool canWrite() const { return (mode == "w" || mode == "a" || mode == "rw") && !(mode == "rw" && last == "r") && (mode == "a" || posdef); }
	bool canRead() const { return (mode == "r" || mode == "rw") && !(mode == "rw" && last == "w") && posdef; }
	long long rest() const { return pos >= len ? 0 : len - pos; }
	void wrote(long long n)
	{
		if (n > 0)
		{
			long long at = mode == "a" ? len : pos;
			if (at + n > len) len = at + n;
			pos = at + n;
			posdef = true;
			dirty = true;
			lens.clear();
		}
		last = mode == "rw" ? "w" : "n";
	}
	void consumed(long long k) { pos += k; last = mode == "rw" ? "r" : "n"; }

	void openOp()
	{
		const char* ms[] = { "r", "w", "a", "rw" };
		std::string m = ms[rng.below(4)];
		if (!exists && rng.chance(70)) m = rng.chance(70) ? "w" : "a";
		bool r = f.open(m);
		log.line("{\"op\":\"open\"," + ks("m", m) + ",\"r\":" + tf(r) + "}");
		if (!r) return;
		mode = m;
		if (m == "w") { len = 0; lens.clear(); }
		exists = true;
		pos = 0;
		posdef = m != "a";
		dirty = false;
		last = "n";
	}

	void seekOp()
	{
		int k = rng.below(3);
		long long off, target;
		std::string from;
		if (k == 0 || !posdef) { from = "start"; off = rng.chance(15) ? len + rng.below(6) : rng.below((int)len + 1); target = off; }
		else if (k == 1) { from = "here"; off = rng.range(-(int)(pos < 12 ? pos : 12), 12); target = pos + off; }
		else { from = "end"; off = rng.chance(80) ? -rng.below((int)(len < 40 ? len : 40) + 1) : rng.below(5); target = len + off; }
		if (k == 0 && posdef == false && mode == "a") { from = "end"; off = 0; target = len; }
		if (target < 0) return;
		f.seek(off, from);
		pos = target;
		posdef = true;
		dirty = false;
		last = "n";
		log.line("{\"op\":\"seek\"," + kv("off", off) + "," + ks("from", from) + "}");
	}

	void writeOp()
	{
		int k = rng.below(100);
		if (k < 40)
		{
			std::string t = TYPES[rng.below(12)], v = pattern(rng, t);
			putScalar(f, t, v);
			wrote(sizeOfType(t));
			log.line("{\"op\":\"w\"," + ks("t", t) + ",\"v\":" + vj::codes(v) + "}");
		}
		else if (k < 55)
		{
			std::string t = TYPES[rng.below(12)];
			int n = rng.chance(15) ? 0 : rng.chance(70) ? rng.range(1, 6) : rng.range(20, 100);
			std::vector<std::string> el;
			for (int i = 0; i < n; i++) el.push_back(pattern(rng, t));
			putArray(f, t, el);
			wrote((long long)n * sizeOfType(t));
			log.line("{\"op\":\"wa\"," + ks("t", t) + ",\"a\":" + elemsJson(el) + "}");
		}
		else if (k < 65)
		{
			std::string s = randomBytes(rng, rng.chance(15) ? 0 : rng.range(1, 30), true);
			if (rng.chance(50)) f.putRaw(s.c_str());
			else f.put(String(s.c_str(), (int)s.size()));
			wrote((long long)s.size());
			log.line("{\"op\":\"ws\",\"s\":" + vj::codes(s) + "}");
		}
		else if (k < 80)
		{
			std::string d = randomBytes(rng, rng.chance(10) ? 0 : rng.chance(80) ? rng.range(1, 24) : rng.range(200, 5000), false);
			int r = f.writeRaw(d);
			wrote((long long)d.size());
			log.line("{\"op\":\"wr\",\"d\":" + vj::codes(d) + "," + kv("r", r) + "}");
		}
		else
		{
			std::string s = randomBytes(rng, rng.chance(15) ? 0 : rng.range(1, 30), true);
			long long at = mode == "a" ? len : pos;
			f.writeLenString(s);
			wrote((long long)s.size() + 4);
			Ls e = { at, (int)s.size(), order };
			lens.push_back(e);
			log.line("{\"op\":\"wls\",\"s\":" + vj::codes(s) + "}");
		}
	}

	void readOp()
	{
		int k = rng.below(100);
		if (k < 6)
		{
			// >> String wherever the position happens to be: whatever is there is taken for a length
			int n = -1;
			std::string s = f.readLenString(n);
			bool e = f.end();
			pos = f.pos(); // (where that left the position depends on the bytes: ask, the next event reports it too)
			last = mode == "rw" ? "r" : "n";
			log.line("{\"op\":\"rls\",\"r\":" + vj::codes(s) + "," + kv("len", n) + ",\"eof\":" + tf(e) + "}");
			log.line("{\"op\":\"pos\"," + kv("r", pos) + "}");
		}
		else if (k < 60)
		{
			std::string t = TYPES[rng.below(12)];
			std::string v;
			getScalar(f, t, v);
			bool e = f.end();
			consumed(sizeOfType(t) <= rest() ? sizeOfType(t) : rest());
			log.line("{\"op\":\"r\"," + ks("t", t) + ",\"v\":" + vj::codes(v) + ",\"eof\":" + tf(e) + "}");
		}
		else
		{
			int n = rng.chance(10) ? 0 : rng.chance(80) ? rng.range(1, 24) : rng.range(100, 6000);
			int c = -2;
			std::string r = f.readRaw(n, c);
			bool e = f.end();
			consumed(n <= rest() ? n : rest());
			log.line("{\"op\":\"rr\"," + kv("n", n) + "," + kv("c", c) + ",\"r\":" + vj::codes(r) + ",\"eof\":" + tf(e) + "}");
		}
	}

	// seek to a length-prefixed string written earlier (same byte order as then) and read it with >> String
	bool readLenStringOp()
	{
		if (lens.empty() || !(mode == "r" || mode == "rw")) return false;
		const Ls& e = lens[(size_t)rng.below((int)lens.size())];
		if (e.order != order)
		{
			order = e.order;
			f.wset(endianOf(order));
			log.line("{\"op\":\"set\"," + ks("o", order) + "}");
		}
		f.seek(e.at, "start");
		pos = e.at;
		posdef = true;
		dirty = false;
		last = "n";
		log.line("{\"op\":\"seek\"," + kv("off", e.at) + ",\"from\":\"start\"}");
		int n = -1;
		std::string s = f.readLenString(n);
		consumed(4 + e.n);
		log.line("{\"op\":\"rls\",\"r\":" + vj::codes(s) + "," + kv("len", n) + ",\"eof\":" + tf(f.end()) + "}");
		return true;
	}

	void observe()
	{
		int k = rng.below(4);
		if (k == 3 && exists)
		{
			std::string t = TYPES[rng.below(12)], o = ORDERS[rng.below(3)], v;
			long long off = rng.chance(15) ? len + rng.below(3) : rng.below((int)len + 1);
			bool e = false;
			if (!f.oread(off, t, o, v, e)) return;
			log.line("{\"op\":\"oread\"," + kv("off", off) + "," + ks("t", t) + "," + ks("o", o) + ",\"v\":" + vj::codes(v) + ",\"eof\":" + tf(e) + "}");
		}
		else if (k == 0 && exists) log.line("{\"op\":\"ocontent\",\"r\":" + vj::codes(f.ocontent()) + "}");
		else if (k == 1) log.line("{\"op\":\"osize\"," + kv("r", f.osize()) + "}");
		else if (exists)
		{
			int n = rng.chance(20) ? 0 : rng.range(1, 40);
			log.line("{\"op\":\"ofirst\"," + kv("n", n) + ",\"r\":" + vj::codes(f.ofirst(n)) + "}");
		}
	}

	void step()
	{
		int k = rng.below(100);
		if (k < 6)
		{
			order = ORDERS[rng.below(3)];
			f.wset(endianOf(order));
			log.line("{\"op\":\"set\"," + ks("o", order) + "}");
			return;
		}
		if (mode == "closed")
		{
			if (k < 25)
			{
				std::string d = randomBytes(rng, rng.chance(15) ? 0 : rng.range(1, 60), false);
				f.oput(d);
				exists = true;
				len = (long long)d.size();
				lens.clear();
				log.line("{\"op\":\"oput\",\"d\":" + vj::codes(d) + "}");
			}
			else if (k < 35) observe();
			else openOp();
			return;
		}
		if (k < 12)
		{
			f.close();
			mode = "closed";
			pos = 0;
			posdef = true;
			dirty = false;
			last = "n";
			log.line("{\"op\":\"close\"}");
		}
		else if (k < 30) seekOp();
		else if (k < 34 && posdef) log.line("{\"op\":\"pos\"," + kv("r", f.pos()) + "}");
		else if (k < 38) log.line("{\"op\":\"end\",\"r\":" + std::string(tf(f.end())) + "}");
		else if (k < 41) log.line("{\"op\":\"err\",\"r\":" + std::string(tf(f.err())) + "}");
		else if (k < 46)
		{
			if (mode != "r" && last != "r")
			{
				f.flush();
				dirty = false;
				last = "n";
				log.line("{\"op\":\"flush\"}");
			}
		}
		else if (k < 52) { if (!dirty) observe(); }
		else if (k < 56) { if (canRead()) readLenStringOp(); }
		else if (k < 59)
		{
			// the stream operators in the wrong mode
			if (mode == "r")
			{
				std::string d = randomBytes(rng, rng.range(1, 9), false);
				bool typed = rng.chance(50);
				int r = 0;
				if (typed) f.writeBytes(d);
				else r = f.writeRaw(d);
				log.line("{\"op\":\"wdenied\",\"d\":" + vj::codes(d) + ",\"typed\":" + tf(typed) + "," + kv("r", r) + "}");
			}
			else if (mode == "w" || mode == "a")
			{
				bool typed = rng.chance(50);
				int n = typed ? 2 : rng.range(1, 9), r = 0;
				if (typed) { short x = 0x5c5c; f.get(x); }
				else f.readRaw(n, r);
				log.line("{\"op\":\"rdenied\"," + kv("n", n) + ",\"typed\":" + tf(typed) + "," + kv("r", r) + "}");
			}
		}
		else if (k < 80)
		{
			if (canWrite()) writeOp();
			else if (canRead()) readOp();
			else seekOp();
		}
		else
		{
			if (canRead()) readOp();
			else if (canWrite()) writeOp();
			else seekOp();
		}
	}

	void run()
	{
		bool x = rng.chance(50);
		std::string d = x ? randomBytes(rng, rng.chance(20) ? 0 : rng.range(1, 80), false) : std::string();
		f.init(x, d);
		exists = x;
		len = (long long)d.size();
		log.line("{\"op\":\"reset\",\"x\":" + std::string(tf(x)) + ",\"d\":" + vj::codes(d) + "}");
		int ops = rng.chance(20) ? rng.range(100, 250) : rng.range(3, 60);
		for (int i = 0; i < ops; i++) step();
		if (mode != "closed")
		{
			f.close();
			mode = "closed";
			log.line("{\"op\":\"close\"}");
		}
		if (exists) log.line("{\"op\":\"ocontent\",\"r\":" + vj::codes(posixRead(f.path)) + "}"); // the bytes of the path, read with POSIX calls
	}
};

int main(int argc, char** argv)
{
	Args args(argc, argv);
	if (!hostLittle()) { fprintf(stderr, "c16_obj_record: the trace configurations assume Native = LITTLE\n"); return 2; }
	Rng rng(args.seed);
	Log log(args.out);
	TmpDir tmp;
	while (log.lines < args.events)
	{
		if (args.mode == 0) { BufRun r(rng, log); r.run(); }
		else { FileRun r(rng, log, tmp); r.run(); }
	}
	return 0;
}
