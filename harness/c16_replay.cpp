// C16 replayer (R): executes the histories TLC generates from spec/EndianStream.tla (set byte order / write scalar /
// write array / write string) on StreamBuffer+StreamBufferReader, File and Socket, compares the bytes that reached the
// buffer, the file (read with POSIX calls) and the wire (peeked on the peer descriptor) with the specification's `out`,
// then reads everything back with the same types and the same byte-order switch points and compares the values.
// Histories over the caller's long-lived objects (records "new", "pset" and writes with src > 0): one real object per
// entry of the specification's pool, created once, written as often as the history says (through the object or through
// a handle sharing its buffer), assigned to only where the history says; after the writes and again after the reads
// every object is compared with the specification's pool (operator<< must not change what it is given).
#include "c16_common.h"
#include "vrun.h"

using vrun::Outcome;
using namespace c16;

static TmpDir* g_tmp = 0;

static std::string hex(const std::string& s)
{
	std::string r;
	char b[4];
	for (size_t i = 0; i < s.size() && i < 48; i++) { snprintf(b, sizeof b, "%02x", (unsigned char)s[i]); r += b; }
	if (s.size() > 48) r += "...";
	return r + "(" + std::to_string(s.size()) + ")";
}

static std::string hexList(const std::vector<std::string>& v)
{
	std::string r = "[";
	for (size_t i = 0; i < v.size() && i < 8; i++) r += (i ? " " : "") + hex(v[i]);
	if (v.size() > 8) r += " ...";
	return r + "]x" + std::to_string(v.size());
}

static std::vector<std::string> elemsOf(const vj::Value& a)
{
	std::vector<std::string> el;
	for (size_t k = 0; k < a.size(); k++) el.push_back(a[k].bytes());
	return el;
}

// compares the real objects with the specification's pool; returns "" or the description of the first difference
static std::string poolDiff(Pool& pool, const vj::Value& want)
{
	if (pool.objs.size() != want.size()) return "harness: " + std::to_string(pool.objs.size()) + " objects, specification has " + std::to_string(want.size());
	for (size_t i = 0; i < want.size(); i++)
	{
		std::vector<std::string> w = elemsOf(want[i]["a"]);
		for (int h = 0; h < 2; h++)
		{
			std::vector<std::string> g = pool.objs[i]->elems(h);
			if (g != w)
				return "the caller's object " + std::to_string(i + 1) + " (" + (pool.objs[i]->kind == "w" ? "scalar " : pool.objs[i]->kind == "wa" ? "Array of " : "String ") +
				       pool.objs[i]->type + (h ? ", seen through the sharing handle" : "") + ") now holds " + hexList(g) + ", specification says " + hexList(w) +
				       " (operator<< must leave its argument unchanged)";
		}
	}
	return "";
}

#define FAIL(...) do { char _b[700]; snprintf(_b, sizeof _b, __VA_ARGS__); return Outcome::fail(std::string(S::name()) + ": step " + std::to_string(step) + " " + opname + ": " + _b); } while (0)

template <class S>
static Outcome runOn(const vj::Value& c)
{
	const vj::Value& hist = c["hist"];
	std::string expect = c["out"].bytes();
	size_t step = 0;
	std::string opname = "init";
	S s(*g_tmp);
	Pool pool;
	if (!s.ok()) FAIL("harness: cannot create the stream");
	for (step = 0; step < hist.size(); step++)
	{
		const vj::Value& o = hist[step];
		opname = o["op"].s();
		long src = o.has("src") ? (long)o["src"].ll() : 0;
		if (opname == "set") s.wset(endianOf(o["o"].s()));
		else if (opname == "new")
		{
			Obj* ob = newObj(o["k"].s(), o["t"].s(), elemsOf(o["a"]));
			if (!ob || (size_t)o["i"].ll() != pool.objs.size() + 1) FAIL("harness: bad object");
			pool.objs.push_back(ob);
		}
		else if (opname == "pset")
		{
			Obj* ob = pool.at((long)o["i"].ll());
			long j = (long)o["j"].ll();
			if (!ob || j < 1 || (size_t)j > ob->size()) FAIL("harness: bad assignment");
			ob->set((size_t)j - 1, o["v"].bytes());
		}
		else if (src != 0)
		{
			// stream << (long-lived object src): the value is whatever the object holds now
			Obj* ob = pool.at(src);
			if (!ob || ob->kind != opname) FAIL("harness: bad source object");
			if (!putObj(s, ob, (int)step)) FAIL("harness: unknown type");
		}
		else if (opname == "w")
		{
			if (!putScalar(s, o["t"].s(), o["v"].bytes())) FAIL("harness: unknown type");
		}
		else if (opname == "wa")
		{
			std::vector<std::string> el;
			for (size_t k = 0; k < o["a"].size(); k++) el.push_back(o["a"][k].bytes());
			if (!putArray(s, o["t"].s(), el)) FAIL("harness: unknown type");
		}
		else if (opname == "ws")
		{
			std::string b = o["s"].bytes();
			if ((step & 1) && b.find('\0') == std::string::npos) s.putRaw(b.c_str());
			else s.put(String(b.c_str(), (int)b.size()));
		}
		else FAIL("harness: unknown op");
	}
	opname = "bytes";
	std::string got = s.written();
	if (got != expect) FAIL("stream holds %s, specification says %s", hex(got).c_str(), hex(expect).c_str());
	opname = "inputs";
	{
		std::string d = poolDiff(pool, c["pool"]);
		if (!d.empty()) FAIL("%s", d.c_str());
	}
	// read back: same types, same switch points
	s.startReading();
	if (s.unread() != (int)expect.size()) FAIL("%d bytes available to the reader, specification says %d", s.unread(), (int)expect.size());
	for (step = 0; step < hist.size(); step++)
	{
		const vj::Value& o = hist[step];
		opname = "read-back of " + o["op"].s();
		if (o["op"].s() == "set") s.rset(endianOf(o["o"].s()));
		else if (o["op"].s() == "new" || o["op"].s() == "pset") continue;
		else if (o["op"].s() == "w")
		{
			std::string v;
			getScalar(s, o["t"].s(), v);
			if (v != o["v"].bytes()) FAIL("%s read back as %s, written %s", o["t"].s().c_str(), hex(v).c_str(), hex(o["v"].bytes()).c_str());
		}
		else if (o["op"].s() == "wa")
		{
			for (size_t k = 0; k < o["a"].size(); k++)
			{
				std::string v;
				getScalar(s, o["t"].s(), v);
				if (v != o["a"][k].bytes()) FAIL("element %d of %s array read back as %s, written %s", (int)k, o["t"].s().c_str(), hex(v).c_str(), hex(o["a"][k].bytes()).c_str());
			}
		}
		else
		{
			std::string b = o["s"].bytes();
			std::string v = s.getRaw((int)b.size(), (int)step);
			if (v != b) FAIL("string read back as %s, written %s", hex(v).c_str(), hex(b).c_str());
		}
	}
	opname = "end";
	if (s.unread() != 0) FAIL("%d bytes left after reading everything back", s.unread());
	{
		std::string d = poolDiff(pool, c["pool"]);
		if (!d.empty()) FAIL("%s", d.c_str());
	}
	return Outcome();
}

static Outcome runAll(const vj::Value& c)
{
	Outcome r = runOn<BufferStream>(c);
	if (!r.ok) return r;
	r = runOn<FileStream>(c);
	if (!r.ok) return r;
	r = runOn<SocketStream>(c);
	size_t calls = 0;
	for (size_t i = 0; i < c["hist"].size(); i++) calls += c["hist"][i]["op"].s() != "new";
	r.nontrivial = calls >= 2;
	return r;
}

int main(int argc, char** argv)
{
	if (!hostLittle()) { fprintf(stderr, "c16_replay: the configurations assume Native = LITTLE\n"); return 2; }
	TmpDir tmp;
	g_tmp = &tmp;
	return vrun::run(argc, argv, runAll);
}
