// C06 recorder (V) for the object API of asl::XdlParser: one real parser object lives through a seeded random sequence of
//   parse(chunk)   - chunks are random cuts of generated JSON documents (numbers, literals, strings with escapes and
//                    surrogate pairs, nested containers, white space), sometimes XDL / comment fragments or garbage
//   reset()        - at any moment: between documents, in the middle of a container, string, escape, comment, after an error
//   decode(text)   - on the used object
//   new            - the object is destroyed and a new one constructed
// After every call one ndjson line is written:
//   {"e":"call","op":..,"t":[bytes],"val":<projection of value()>,"fin":[bytes],"fresh":<projection>,"ret":<projection, decode only>}
// fin/fresh: the text the recorder believes was fed since the last reset/new, and value() of a brand-new parser given that
// text in one piece.  Nothing is compared here; spec/Trace_XdlParserApi.tla keeps its own account of the fed text and decides.
#include "c06_common.h"
#include "vrec.h"

using namespace vrec;
using namespace asl;

struct DocGen
{
	Rng& r;
	explicit DocGen(Rng& rr) : r(rr) {}
	std::string ws() { static const char* w[] = { "", "", "", " ", "\n", "\t", "\r\n", " \n" }; return w[r.below(8)]; }
	std::string number()
	{
		static const char* n[] = { "0", "-0", "1", "-1", "12", "123456789", "1234567890", "2147483647", "-2147483648", "4294967296", "0.5", "-2.25", "1e2", "1E+2",
		                           "25e-1", "1.25E-01", "0.1", "1e-7", "12345678901234567890", "1.7976931348623157e308", "5e-324", "3.141592653589793" };
		return n[r.below((int)(sizeof n / sizeof n[0]))];
	}
	std::string str()
	{
		std::string s = "\"";
		int n = r.below(6);
		for (int i = 0; i < n; i++)
		{
			int k = r.below(100);
			if (k < 50) s += (char)r.range('a', 'z');
			else if (k < 60) { static const char sp[] = "/*[]{},:= "; s += sp[r.below((int)sizeof sp - 1)]; }
			else if (k < 72) { static const char* e[] = { "\\\"", "\\\\", "\\/", "\\b", "\\f", "\\n", "\\r", "\\t" }; s += e[r.below(8)]; }
			else if (k < 82) { char b[8]; snprintf(b, sizeof b, "\\u%04x", (unsigned)r.range(1, 0xd7ff)); s += b; }
			else if (k < 90) { char b[16]; snprintf(b, sizeof b, "\\ud8%02x\\udc%02x", (unsigned)r.below(256), (unsigned)r.below(256)); s += b; }
			else if (k < 95) { s += (char)0xc3; s += (char)0xa9; }
			else { s += (char)0xf0; s += (char)0x9f; s += (char)0x98; s += (char)0x80; }
		}
		return s + "\"";
	}
	std::string value(int depth)
	{
		int k = r.below(100);
		if (depth <= 0 || k < 45)
		{
			int q = r.below(100);
			if (q < 40) return number();
			if (q < 70) return str();
			if (q < 80) return "true";
			if (q < 90) return "false";
			return "null";
		}
		std::string s;
		if (k < 75)
		{
			s = "[" + ws();
			int n = r.below(4);
			for (int i = 0; i < n; i++) s += (i ? "," + ws() : "") + value(depth - 1) + ws();
			return s + "]";
		}
		s = "{" + ws();
		int n = r.below(4);
		for (int i = 0; i < n; i++)
		{
			char key[16];
			snprintf(key, sizeof key, "\"k%d\"", i); // distinct keys
			s += (i ? "," + ws() : "") + (r.chance(20) ? str().insert(1, std::string(1, (char)('A' + i))) : std::string(key)) + ws() + ":" + ws() + value(depth - 1) + ws();
		}
		return s + "}";
	}
	std::string odd()
	{
		static const char* o[] = { "{a=1\nb=Y}", "T{x=[1 2]}", "//c\n", "/*c*/", "/*", "/", "]", "x ", "01 ", "\"\\ud83d", "\"\\u00", "\\", "{\"k\":", "[1,", "\x01", "+1", "1.", "nul" };
		return o[r.below((int)(sizeof o / sizeof o[0]))];
	}
};

int main(int argc, char** argv)
{
	Args args(argc, argv);
	Rng rng(args.seed);
	Log log(args.out);
	DocGen gen(rng);
	XdlParser* p = new XdlParser;
	std::string fed;
	long events = 0;
	log.line("{\"e\":\"reset\"}");
	struct L
	{
		static void call(Log& log, XdlParser& p, const char* op, const std::string& t, const std::string& fed, const Var* ret)
		{
			XdlParser fresh;
			fresh.parse(fed.c_str());
			std::string ln = "{\"e\":\"call\",\"op\":\"" + std::string(op) + "\",\"t\":" + vj::codes(t) + ",\"val\":" + jx::project(p.value()) + ",\"fin\":" + vj::codes(fed) +
			                 ",\"fresh\":" + jx::project(fresh.value());
			if (ret) ln += ",\"ret\":" + jx::project(*ret);
			log.line(ln + "}");
			if (fed.empty()) log.line("{\"e\":\"reset\"}"); // a new life of the parser object (counted as one execution)
		}
	};
	while (events < args.events)
	{
		// one document (or an odd fragment), cut into chunks
		std::string doc = rng.chance(80) ? gen.value(rng.range(0, 3)) + (rng.chance(85) ? (rng.chance(50) ? " " : "\n") : "") : gen.odd();
		size_t a = 0;
		while (a < doc.size() && events < args.events)
		{
			size_t n = 1 + (size_t)rng.below(rng.chance(50) ? 3 : 12);
			if (a + n > doc.size()) n = doc.size() - a;
			std::string chunk = doc.substr(a, n);
			a += n;
			p->parse(chunk.c_str());
			fed += chunk;
			L::call(log, *p, "parse", chunk, fed, 0);
			events++;
			int k = rng.below(100);
			if (k < 6)
			{
				p->reset();
				fed.clear();
				L::call(log, *p, "reset", "", fed, 0);
				events++;
				if (rng.chance(50)) break; // abandon the document
			}
			else if (k < 9)
			{
				std::string t = rng.chance(70) ? gen.value(1) : gen.odd();
				Var ret = p->decode(t.c_str());
				fed += t + "\n";
				L::call(log, *p, "decode", t, fed, &ret);
				events++;
			}
			else if (k < 10)
			{
				delete p;
				p = new XdlParser;
				fed.clear();
				L::call(log, *p, "new", "", fed, 0);
				events++;
			}
		}
		if (fed.size() > 400 || rng.chance(60)) // mostly one document per life of the accounted text; sometimes several values in a row
		{
			if (rng.chance(70)) { p->reset(); fed.clear(); L::call(log, *p, "reset", "", fed, 0); }
			else { delete p; p = new XdlParser; fed.clear(); L::call(log, *p, "new", "", fed, 0); }
			events++;
		}
	}
	delete p;
	return 0;
}
