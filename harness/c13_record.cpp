// C13 recorder (V): free-running, jittered executions of Semaphore / Mutex / Lock / Condition under the documented
// protocol; the hook-event log is validated by spec/Trace_SyncPrims.tla.  A lost post or signal shows up as a hang
// (the run is under a time limit) or as an unexplainable log.
#include <asl/Thread.h>
#include <asl/Mutex.h>
#include <asl/Queue.h>
#include <signal.h>
#include "vsched.h"
#include "vrec.h"

using namespace asl;
using namespace vrec;

struct Shared
{
	Semaphore sem;
	Mutex mutex;
	Queue<int> queue;
	Shared(int c) : sem(c) {}
};

struct Producer : public Thread
{
	Shared* s;
	int id, n, burst;
	void run()
	{
		for (int i = 0; i < n;)
		{
			int b = burst > 1 && i + burst <= n ? burst : 1;
			for (int k = 0; k < b; k++)
			{
				int item = id * 100000 + i + k;
				vsched::hook(103, 0, item);
				Lock _(s->mutex);
				s->queue.put(item);
			}
			if (b == 1) s->sem.post(); else s->sem.post(b);
			i += b;
		}
	}
};

struct Consumer : public Thread
{
	Shared* s;
	int n;
	void run()
	{
		for (int i = 0; i < n; i++)
		{
			s->sem.wait();
			int item;
			{
				Lock _(s->mutex);
				item = s->queue.get();
			}
			vsched::hook(104, 0, item);
		}
	}
};

static void semScenario(Rng& rng)
{
	int np = rng.range(1, 4), nc = rng.range(1, 4), per = rng.range(1, 40) * nc; // per producer, divisible by nc
	int initial = 0;
	Shared sh(initial);
	vsched::hook(101, &sh.sem, initial);
	Producer p[4];
	Consumer c[4];
	for (int i = 0; i < np; i++) { p[i].s = &sh; p[i].id = i + 1; p[i].n = per; p[i].burst = rng.chance(40) ? rng.range(2, 5) : 1; }
	for (int i = 0; i < nc; i++) { c[i].s = &sh; c[i].n = np * per / nc; }
	bool consFirst = rng.chance(50);
	if (consFirst) for (int i = 0; i < nc; i++) c[i].start();
	for (int i = 0; i < np; i++) p[i].start();
	if (!consFirst) for (int i = 0; i < nc; i++) c[i].start();
	for (int i = 0; i < np; i++) p[i].join();
	for (int i = 0; i < nc; i++) c[i].join();
	vsched::hook(105, 0, 0);
}

struct CondShared
{
	Mutex mutex;
	Condition cond;
	volatile bool flag;
	volatile int woken;
	CondShared() : cond(mutex), flag(false), woken(0) {}
};

static void condScenario(Rng& rng)
{
	int rounds = rng.range(1, 12), nw = rng.range(1, 3);
	for (int r = 0; r < rounds; r++)
	{
		CondShared cs;
		vsched::hook(102, &cs.cond, vsched::indexOf(&cs.mutex));
		Array<Thread*> ws;
		for (int i = 0; i < nw; i++)
			ws << new Thread([&cs]() {
				cs.mutex.lock();
				while (!cs.flag) cs.cond.wait();
				cs.woken++;
				cs.mutex.unlock();
			});
		if (rng.chance(50)) usleep(rng.below(300));
		cs.mutex.lock();
		cs.flag = true;
		cs.cond.signal();
		cs.mutex.unlock();
		for (int i = 0; i < nw; i++) { ws[i]->join(); delete ws[i]; }
		if (cs.woken != nw) { fprintf(stderr, "VREC-FAIL: %d of %d waiters proceeded\n", cs.woken, nw); exit(3); }
	}
	vsched::hook(105, 0, 0);
}

// start/join/finished() under scheduling noise, hooks silent (the window between pthread_create() and the creator's next
// instruction is too small to hit while every step is being logged): R rounds of subclassed and lambda threads whose
// bodies are empty or a single store; counts the rounds in which join() returned and finished() was false or the body
// had not run exactly once.  One summary event: {"k":121,"o":rounds,"v":failures}.
struct Quick : public Thread
{
	volatile int* n;
	void run() { if (n) (*n)++; }
};
static volatile bool g_noiseStop;
static void* noiseMain(void*)
{
	volatile unsigned x = 1;
	while (!g_noiseStop) { for (int i = 0; i < 20000; i++) x = x * 1664525u + 1013904223u; sched_yield(); }
	return 0;
}
static long startJoinRounds(Rng& rng, int rounds, long* failures)
{
	g_noiseStop = false;
	int nn = rng.range(2, 8);
	struct timespec t0, t1;
	clock_gettime(CLOCK_MONOTONIC, &t0);
	pthread_t noise[24];
	for (int i = 0; i < nn; i++) pthread_create(&noise[i], 0, noiseMain, 0);
	long bad = 0;
	int done = 0;
	for (int r = 0; r < rounds; r++, done++)
	{
		// bounded by time as well as by count: on a loaded machine a round can take milliseconds
		clock_gettime(CLOCK_MONOTONIC, &t1);
		if (t1.tv_sec - t0.tv_sec >= 3) break;
		int k = rng.below(3);
		volatile int n = 0;
		if (k == 0)
		{
			Quick t[4];
			volatile int cnt[4] = { 0, 0, 0, 0 }; // one counter per thread (a shared one would be the harness' own race)
			int m = rng.range(1, 4);
			for (int i = 0; i < m; i++) { t[i].n = rng.chance(50) ? &cnt[i] : 0; t[i].start(); }
			for (int i = 0; i < m; i++)
			{
				t[i].join();
				if (!t[i].finished()) bad++;
				if (t[i].n && cnt[i] != 1) bad++;
			}
		}
		else if (k == 1)
		{
			Thread t([&n]() { n++; });
			t.join();
			if (!t.finished() || n != 1) bad++;
		}
		else
		{
			Thread t([]() {});
			if (rng.chance(50)) sched_yield();
			t.join();
			if (!t.finished()) bad++;
			if (!t.finished()) bad++; // "true from then on"
		}
	}
	g_noiseStop = true;
	for (int i = 0; i < nn; i++) pthread_join(noise[i], 0);
	*failures = bad;
	return done;
}

// every scenario normally takes milliseconds; one that has not ended after 90 s is a lost post / signal / join
static void onWatchdog(int)
{
	const char m[] = "VREC-FAIL: a scenario did not terminate within 90 s (lost post, signal or join)\n";
	if (write(2, m, sizeof m - 1)) {}
	_exit(3);
}

int main(int argc, char** argv)
{
	signal(SIGALRM, onWatchdog);
	Args args(argc, argv);
	Rng rng(args.seed);
	vsched::install();
	FILE* f = fopen(args.out.c_str(), "w");
	if (!f) { perror("out"); return 2; }
	long events = 0;
	int round = 0;
	while (events < args.events)
	{
		alarm(90);
		if (round++ % 3 == 0)
		{
			long failures = 0;
			long n = startJoinRounds(rng, rng.range(300, 1500), &failures);
			fprintf(f, "{\"k\":0,\"t\":0,\"o\":0,\"v\":0}\n{\"k\":121,\"t\":0,\"o\":%ld,\"v\":%ld}\n", n, failures);
			events += 2;
			continue;
		}
		vsched::beginFree(rng.next(), rng.range(0, 60));
		if (rng.chance(65)) semScenario(rng); else condScenario(rng);
		vsched::end();
		fprintf(f, "{\"k\":0,\"t\":0,\"o\":0,\"v\":0}\n");
		vsched::dumpLog(f);
		fflush(f);
		events += (long)vsched::S().log.size() + 1;
	}
	fclose(f);
	return 0;
}
