// C13 recorder (V): free-running, jittered executions of Semaphore / Mutex / Lock / Condition / Atomic under the documented
// protocol, including the timed and non-blocking variants (wait(timeout), trywait, value, trylock, Condition::wait(timeout));
// the event log is validated by spec/Trace_SyncPrims.tla.  A lost post or signal shows up as a hang (the run is under a
// time limit) or as an unexplainable log.  Calls that have no hook inside the library are bracketed by recorder events:
// a "begin" event before the call, an "end" event after it returned (kinds 106..132, see Trace_SyncPrims.tla).
#include <asl/Thread.h>
#include <asl/Mutex.h>
#include <asl/Queue.h>
#include <signal.h>
#include <time.h>
#include "vsched.h"
#include "vrec.h"

using namespace asl;
using namespace vrec;

#define EV(kind, obj, val) vsched::hook(kind, obj, (long)(val))

static inline void tick(struct timespec& t) { clock_gettime(CLOCK_MONOTONIC, &t); }
static inline long usSince(const struct timespec& t0)
{
	struct timespec t1;
	clock_gettime(CLOCK_MONOTONIC, &t1);
	return (long)(t1.tv_sec - t0.tv_sec) * 1000000L + (t1.tv_nsec - t0.tv_nsec) / 1000;
}

struct Shared
{
	Semaphore sem;
	Mutex mutex;
	Queue<int> queue;
	Shared(int c) : sem(c) {}
};

struct Producer : public Thread
{
	Shared* s;
	int id, n, burst;
	void run()
	{
		for (int i = 0; i < n;)
		{
			int b = burst > 1 && i + burst <= n ? burst : 1;
			for (int k = 0; k < b; k++)
			{
				int item = id * 100000 + i + k;
				vsched::hook(103, 0, item);
				{
					Lock _(s->mutex);
					s->queue.put(item);
				}
				EV(114, &s->mutex, 0);
			}
			if (b == 1) s->sem.post(); else s->sem.post(b);
			EV(106, &s->sem, b);
			i += b;
		}
	}
};

struct Consumer : public Thread
{
	Shared* s;
	int n;
	void run()
	{
		for (int i = 0; i < n; i++)
		{
			s->sem.wait();
			int item;
			{
				Lock _(s->mutex);
				item = s->queue.get();
			}
			EV(114, &s->mutex, 0);
			vsched::hook(104, 0, item);
		}
	}
};

static void semScenario(Rng& rng)
{
	int np = rng.range(1, 4), nc = rng.range(1, 4), per = rng.range(1, 40) * nc; // per producer, divisible by nc
	int initial = 0;
	Shared sh(initial);
	vsched::hook(101, &sh.sem, initial);
	Producer p[4];
	Consumer c[4];
	for (int i = 0; i < np; i++) { p[i].s = &sh; p[i].id = i + 1; p[i].n = per; p[i].burst = rng.chance(40) ? rng.range(2, 5) : 1; }
	for (int i = 0; i < nc; i++) { c[i].s = &sh; c[i].n = np * per / nc; }
	bool consFirst = rng.chance(50);
	if (consFirst) for (int i = 0; i < nc; i++) c[i].start();
	for (int i = 0; i < np; i++) p[i].start();
	if (!consFirst) for (int i = 0; i < nc; i++) c[i].start();
	for (int i = 0; i < np; i++) p[i].join();
	for (int i = 0; i < nc; i++) c[i].join();
	vsched::hook(105, 0, 0);
}

struct CondShared
{
	Mutex mutex;
	Condition cond;
	volatile bool flag;
	volatile int woken;
	CondShared() : cond(mutex), flag(false), woken(0) {}
};

static void condScenario(Rng& rng)
{
	int rounds = rng.range(1, 12), nw = rng.range(1, 3);
	for (int r = 0; r < rounds; r++)
	{
		CondShared cs;
		vsched::hook(102, &cs.cond, vsched::indexOf(&cs.mutex));
		Array<Thread*> ws;
		for (int i = 0; i < nw; i++)
			ws << new Thread([&cs]() {
				cs.mutex.lock();
				while (!cs.flag) cs.cond.wait();
				cs.woken++;
				cs.mutex.unlock();
				EV(114, &cs.mutex, 0);
			});
		if (rng.chance(50)) usleep(rng.below(300));
		cs.mutex.lock();
		cs.flag = true;
		cs.cond.signal();
		cs.mutex.unlock();
		EV(114, &cs.mutex, 0);
		for (int i = 0; i < nw; i++) { ws[i]->join(); delete ws[i]; }
		if (cs.woken != nw) { fprintf(stderr, "VREC-FAIL: %d of %d waiters proceeded\n", cs.woken, nw); exit(3); }
	}
	vsched::hook(105, 0, 0);
}

// ---- timed and non-blocking variants -----------------------------------------------------------------------------
// Semaphore::wait(timeout), trywait(), value(): producers with pauses (so that time-outs do occur), consumers that block,
// wait with a time-out or poll; an observer reads value().  Every call is bracketed: 110/111 (v = time-out ms | 2*ms+result),
// 112/113 (value), 106 after post() returned.
struct TProducer : public Thread
{
	Shared* s;
	int id, n, burst, gapUs;
	uint64_t seed;
	void run()
	{
		Rng r(seed);
		for (int i = 0; i < n;)
		{
			if (gapUs && r.chance(40)) usleep(r.below(gapUs));
			int b = burst > 1 && i + burst <= n ? burst : 1;
			for (int k = 0; k < b; k++)
			{
				int item = id * 100000 + i + k;
				EV(103, 0, item);
				{
					Lock _(s->mutex);
					s->queue.put(item);
				}
				EV(114, &s->mutex, 0);
			}
			if (b == 1) s->sem.post(); else s->sem.post(b);
			EV(106, &s->sem, b);
			i += b;
		}
	}
};

struct TConsumer : public Thread
{
	Shared* s;
	int n, mode, timeoutMs; // mode 0 wait(), 1 wait(timeout), 2 trywait()
	uint64_t seed;
	long fails;
	void run()
	{
		Rng r(seed);
		fails = 0;
		for (int i = 0; i < n; i++)
		{
			if (mode == 0) s->sem.wait();
			else
				for (;;)
				{
					long w = mode == 1 ? timeoutMs : 0;
					struct timespec t0;
					EV(110, &s->sem, w);
					tick(t0);
					bool ok = mode == 1 ? s->sem.wait(w * 0.001) : s->sem.trywait();
					long ms = usSince(t0) / 1000;
					EV(111, &s->sem, 2 * ms + (ok ? 1 : 0));
					if (ok) break;
					fails++;
					if (mode == 2) usleep(r.range(50, 600));
				}
			int item;
			{
				Lock _(s->mutex);
				item = s->queue.get();
			}
			EV(114, &s->mutex, 0);
			EV(104, 0, item);
		}
	}
};

struct ValueObserver : public Thread
{
	Shared* s;
	volatile bool stop;
	void run()
	{
		while (!stop)
		{
			EV(112, &s->sem, 0);
			int v = s->sem.value();
			EV(113, &s->sem, v);
			usleep(150);
		}
	}
};

static void semTimedScenario(Rng& rng)
{
	int np = rng.range(1, 3), nc = rng.range(1, 4), per = rng.range(1, 12) * nc;
	int initial = rng.chance(30) ? rng.range(1, 3) * nc : 0; // items already published when the semaphore is created
	Shared sh(initial);
	EV(101, &sh.sem, initial);
	for (int k = 0; k < initial; k++)
	{
		int item = 9 * 100000 + k;
		EV(103, 0, item);
		{
			Lock _(sh.mutex);
			sh.queue.put(item);
		}
		EV(114, &sh.mutex, 0);
	}
	// quiescent: value() is exact, a non-blocking wait on an empty semaphore fails, on a posted one succeeds
	EV(112, &sh.sem, 0);
	int v0 = sh.sem.value();
	EV(113, &sh.sem, v0);
	if (initial == 0)
	{
		EV(110, &sh.sem, 0);
		bool ok = sh.sem.trywait();
		EV(111, &sh.sem, ok ? 1 : 0);
		struct timespec t0;
		EV(110, &sh.sem, 4);
		tick(t0);
		ok = sh.sem.wait(0.004);
		EV(111, &sh.sem, 2 * (usSince(t0) / 1000) + (ok ? 1 : 0));
	}
	TProducer p[3];
	TConsumer c[4];
	ValueObserver ob;
	ob.s = &sh;
	ob.stop = false;
	for (int i = 0; i < np; i++)
	{
		p[i].s = &sh; p[i].id = i + 1; p[i].n = per; p[i].burst = rng.chance(30) ? rng.range(2, 4) : 1;
		p[i].gapUs = rng.chance(70) ? rng.range(200, 3000) : 0; p[i].seed = rng.next();
	}
	for (int i = 0; i < nc; i++)
	{
		c[i].s = &sh; c[i].n = (np * per + initial) / nc; c[i].mode = rng.below(3); c[i].timeoutMs = rng.range(3, 6); c[i].seed = rng.next();
	}
	bool observe = rng.chance(60);
	if (observe) ob.start();
	bool consFirst = rng.chance(50);
	if (consFirst) for (int i = 0; i < nc; i++) c[i].start();
	for (int i = 0; i < np; i++) p[i].start();
	if (!consFirst) for (int i = 0; i < nc; i++) c[i].start();
	for (int i = 0; i < np; i++) p[i].join();
	for (int i = 0; i < nc; i++) c[i].join();
	ob.stop = true;
	if (observe) ob.join();
	EV(112, &sh.sem, 0);
	int v1 = sh.sem.value(); // quiescent again: exact
	EV(113, &sh.sem, v1);
	EV(105, 0, 0);
}

// Mutex lock / Lock scope / trylock around a plain (non-atomic) counter: 119 logs the value read inside the critical
// section, 117/118 bracket trylock, 114 follows every completed unlock / closed Lock scope.
struct MShared
{
	Mutex m[2];
	volatile long cnt[2];
	MShared() { cnt[0] = cnt[1] = 0; }
};
static void criticalSection(MShared* s, int j, Rng& r)
{
	long v = s->cnt[j];
	EV(119, &s->m[j], v);
	if (r.chance(10)) sched_yield();
	s->cnt[j] = v + 1;
}
struct MWorker : public Thread
{
	MShared* s;
	int n;
	uint64_t seed;
	void run()
	{
		Rng r(seed);
		for (int i = 0; i < n; i++)
		{
			int j = r.below(2), mode = r.below(3);
			Mutex& m = s->m[j];
			if (mode == 0)
			{
				{
					Lock _(m);
					criticalSection(s, j, r);
				}
				EV(114, &m, 0);
			}
			else if (mode == 1)
			{
				m.lock();
				criticalSection(s, j, r);
				m.unlock();
				EV(114, &m, 0);
			}
			else
			{
				EV(117, &m, 0);
				bool ok = m.trylock();
				EV(118, &m, ok ? 1 : 0);
				if (ok)
				{
					criticalSection(s, j, r);
					m.unlock();
					EV(114, &m, 0);
				}
			}
			if (r.chance(20)) usleep(r.below(200));
		}
	}
};
static void mutexScenario(Rng& rng)
{
	MShared sh;
	// alone: trylock on a free mutex succeeds, on a mutex held (by this thread, it is not recursive) fails
	for (int j = 0; j < 2; j++)
	{
		Mutex& m = sh.m[j];
		EV(117, &m, 0);
		bool ok = m.trylock();
		EV(118, &m, ok ? 1 : 0);
		if (ok)
		{
			criticalSection(&sh, j, rng);
			EV(117, &m, 0);
			bool again = m.trylock();
			EV(118, &m, again ? 1 : 0);
			m.unlock();
			EV(114, &m, 0);
			if (again) { m.unlock(); } // (a recursive success would be rejected by the trace specification)
		}
	}
	int nt = rng.range(2, 5);
	MWorker w[5];
	for (int i = 0; i < nt; i++) { w[i].s = &sh; w[i].n = rng.range(20, 120); w[i].seed = rng.next(); w[i].start(); }
	for (int i = 0; i < nt; i++) w[i].join();
	EV(105, 0, 0);
}

// Condition::wait(timeout) in the documented loop; the signaller sometimes comes late so that waits do time out.
static void condTimedScenario(Rng& rng)
{
	int rounds = rng.range(1, 6), nw = rng.range(1, 3);
	for (int r = 0; r < rounds; r++)
	{
		CondShared cs;
		EV(102, &cs.cond, vsched::indexOf(&cs.mutex));
		Array<Thread*> ws;
		for (int i = 0; i < nw; i++)
		{
			int w = rng.chance(30) ? rng.range(25, 40) : rng.range(1, 4); // long time-outs end by the signal, short ones mostly expire
			bool timed = rng.chance(75);
			ws << new Thread([&cs, w, timed]() {
				cs.mutex.lock();
				while (!cs.flag)
				{
					if (!timed) { cs.cond.wait(); continue; }
					struct timespec t0;
					EV(115, &cs.cond, w);
					tick(t0);
					bool timedOut = cs.cond.wait(w * 0.001);
					EV(116, &cs.cond, 2 * (usSince(t0) / 1000) + (timedOut ? 1 : 0));
				}
				cs.woken++;
				cs.mutex.unlock();
				EV(114, &cs.mutex, 0);
			});
		}
		if (rng.chance(70)) usleep(rng.below(7000));
		cs.mutex.lock();
		cs.flag = true;
		cs.cond.signal();
		cs.mutex.unlock();
		EV(114, &cs.mutex, 0);
		for (int i = 0; i < nw; i++) { ws[i]->join(); delete ws[i]; }
		if (cs.woken != nw) { fprintf(stderr, "VREC-FAIL: %d of %d waiters proceeded\n", cs.woken, nw); exit(3); }
	}
	EV(105, 0, 0);
}

// Atomic<T> with a Condition bound to the Atomic's own mutex (the documented "Lock _(atomic); *atomic ..." form), plus
// synchronized ++ on a second Atomic whose results must be 1..n (109).
static void atomicCondScenario(Rng& rng)
{
	Atomic<int> level(0), tickets(0);
	Condition cond;
	cond.use(level);
	EV(102, &cond, vsched::indexOf(&level.mutex()));
	int ninc = rng.range(1, 3), per = rng.range(2, 15), nw = rng.range(1, 3), total = ninc * per;
	Array<Thread*> ts;
	volatile int woken = 0;
	for (int i = 0; i < nw; i++)
	{
		int target = rng.range(1, total);
		ts << new Thread([&level, &cond, &woken, target]() {
			{
				Lock _(level);
				while (*level < target) cond.wait();
				woken++;
			}
			EV(114, &level.mutex(), 0);
		});
	}
	for (int i = 0; i < ninc; i++)
		ts << new Thread([&level, &tickets, &cond, per]() {
			for (int k = 0; k < per; k++)
			{
				{
					Lock _(level.mutex());
					++*level;
					cond.signal();
				}
				EV(114, &level.mutex(), 0);
				int v = ++tickets;
				EV(114, &tickets.mutex(), 0);
				EV(109, &tickets, v);
				int seen = ~level; // synchronized read
				EV(114, &level.mutex(), 0);
				if (seen < 1) { fprintf(stderr, "VREC-FAIL: Atomic read %d after an increment\n", seen); exit(3); }
			}
		});
	for (int i = 0; i < ts.length(); i++) { ts[i]->join(); delete ts[i]; }
	if (woken != nw || *level != total) { fprintf(stderr, "VREC-FAIL: atomic/condition: %d of %d waiters, level %d of %d\n", (int)woken, nw, *level, total); exit(3); }
	EV(105, 0, 0);
}

// A signal handler (installed without SA_RESTART) interrupts threads that are blocked in Semaphore::wait() /
// wait(timeout) while nothing has been posted: the wait must not return (SyncPrims Interrupt is a no-op).
// Hazard InterruptedSemWait.
static void onUsr1(int) {}
struct IConsumer : public Thread
{
	Semaphore* sem;
	int n, timeoutMs; // timeoutMs 0: blocking
	volatile pthread_t self;
	volatile bool up;
	void run()
	{
		self = pthread_self();
		up = true;
		for (int i = 0; i < n; i++)
		{
			if (timeoutMs == 0) { sem->wait(); continue; }
			for (;;)
			{
				struct timespec t0;
				EV(110, sem, timeoutMs);
				tick(t0);
				bool ok = sem->wait(timeoutMs * 0.001);
				EV(111, sem, 2 * (usSince(t0) / 1000) + (ok ? 1 : 0));
				if (ok) break;
			}
		}
	}
};
static void interruptScenario(Rng& rng)
{
	struct sigaction sa, old;
	memset(&sa, 0, sizeof sa);
	sa.sa_handler = onUsr1; // no SA_RESTART
	sigaction(SIGUSR1, &sa, &old);
	Semaphore sem;
	EV(101, &sem, 0);
	int nc = rng.range(1, 3), per = rng.range(1, 4);
	IConsumer c[3];
	for (int i = 0; i < nc; i++) { c[i].sem = &sem; c[i].n = per; c[i].timeoutMs = rng.chance(35) ? rng.range(20, 40) : 0; c[i].up = false; c[i].start(); }
	for (int i = 0; i < nc; i++) while (!c[i].up) sched_yield();
	for (int round = 0; round < nc * per; round++)
	{
		int kicks = rng.range(1, 4);
		for (int k = 0; k < kicks; k++)
		{
			usleep(rng.range(300, 1500));
			for (int i = 0; i < nc; i++) { EV(132, &sem, i); pthread_kill(c[i].self, SIGUSR1); }
		}
		usleep(rng.range(100, 600));
		sem.post();
		EV(106, &sem, 1);
	}
	for (int i = 0; i < nc; i++) c[i].join();
	sigaction(SIGUSR1, &old, 0);
	EV(112, &sem, 0);
	int v = sem.value();
	EV(113, &sem, v);
	EV(105, 0, 0);
}

// sleep(double) lasts at least as long as asked; numProcessors() is positive.
static void helperScenario(Rng& rng)
{
	for (int i = 0; i < 3; i++)
	{
		int tenths = rng.range(1, 40); // 0.1 .. 4 ms
		struct timespec t0;
		EV(129, 0, tenths);
		tick(t0);
		asl::sleep(tenths * 0.0001);
		EV(130, 0, usSince(t0) / 100);
	}
	EV(131, 0, Thread::numProcessors());
	EV(105, 0, 0);
}

// start/join/finished() under scheduling noise, hooks silent (the window between pthread_create() and the creator's next
// instruction is too small to hit while every step is being logged): R rounds of subclassed and lambda threads whose
// bodies are empty or a single store; counts the rounds in which join() returned and finished() was false or the body
// had not run exactly once.  One summary event: {"k":121,"o":rounds,"v":failures}.
struct Quick : public Thread
{
	volatile int* n;
	void run() { if (n) (*n)++; }
};
static volatile bool g_noiseStop;
static void* noiseMain(void*)
{
	volatile unsigned x = 1;
	while (!g_noiseStop) { for (int i = 0; i < 20000; i++) x = x * 1664525u + 1013904223u; sched_yield(); }
	return 0;
}
static long startJoinRounds(Rng& rng, int rounds, long* failures)
{
	g_noiseStop = false;
	int nn = rng.range(2, 8);
	struct timespec t0, t1;
	clock_gettime(CLOCK_MONOTONIC, &t0);
	pthread_t noise[24];
	for (int i = 0; i < nn; i++) pthread_create(&noise[i], 0, noiseMain, 0);
	long bad = 0;
	int done = 0;
	for (int r = 0; r < rounds; r++, done++)
	{
		// bounded by time as well as by count: on a loaded machine a round can take milliseconds
		clock_gettime(CLOCK_MONOTONIC, &t1);
		if (t1.tv_sec - t0.tv_sec >= 3) break;
		int k = rng.below(3);
		volatile int n = 0;
		if (k == 0)
		{
			Quick t[4];
			volatile int cnt[4] = { 0, 0, 0, 0 }; // one counter per thread (a shared one would be the harness' own race)
			int m = rng.range(1, 4);
			for (int i = 0; i < m; i++) { t[i].n = rng.chance(50) ? &cnt[i] : 0; t[i].start(); }
			for (int i = 0; i < m; i++)
			{
				t[i].join();
				if (!t[i].finished()) bad++;
				if (t[i].n && cnt[i] != 1) bad++;
			}
		}
		else if (k == 1)
		{
			Thread t([&n]() { n++; });
			t.join();
			if (!t.finished() || n != 1) bad++;
		}
		else
		{
			Thread t([]() {});
			if (rng.chance(50)) sched_yield();
			t.join();
			if (!t.finished()) bad++;
			if (!t.finished()) bad++; // "true from then on"
		}
	}
	g_noiseStop = true;
	for (int i = 0; i < nn; i++) pthread_join(noise[i], 0);
	*failures = bad;
	return done;
}

// every scenario normally takes milliseconds; one that has not ended after 90 s is a lost post / signal / join
static void onWatchdog(int)
{
	const char m[] = "VREC-FAIL: a scenario did not terminate within 90 s (lost post, signal or join)\n";
	if (write(2, m, sizeof m - 1)) {}
	_exit(3);
}

int main(int argc, char** argv)
{
	signal(SIGALRM, onWatchdog);
	Args args(argc, argv);
	Rng rng(args.seed);
	vsched::install();
	FILE* f = fopen(args.out.c_str(), "w");
	if (!f) { perror("out"); return 2; }
	long events = 0;
	int round = 0;
	while (events < args.events)
	{
		alarm(90);
		if (round++ % 3 == 0)
		{
			long failures = 0;
			long n = startJoinRounds(rng, rng.range(300, 1500), &failures);
			fprintf(f, "{\"k\":0,\"t\":0,\"o\":0,\"v\":0}\n{\"k\":121,\"t\":0,\"o\":%ld,\"v\":%ld}\n", n, failures);
			events += 2;
			continue;
		}
		vsched::beginFree(rng.next(), rng.range(0, 60));
		int pick = rng.below(100);
		if (pick < 25) semScenario(rng);
		else if (pick < 37) condScenario(rng);
		else if (pick < 57) semTimedScenario(rng);
		else if (pick < 70) mutexScenario(rng);
		else if (pick < 80) condTimedScenario(rng);
		else if (pick < 90) atomicCondScenario(rng);
		else if (pick < 97) { if (!args.avoid.count("InterruptedSemWait")) interruptScenario(rng); else semTimedScenario(rng); }
		else helperScenario(rng);
		vsched::end();
		fprintf(f, "{\"k\":0,\"t\":0,\"o\":0,\"v\":0}\n");
		vsched::dumpLog(f);
		fflush(f);
		events += (long)vsched::S().log.size() + 1;
	}
	fclose(f);
	return 0;
}
