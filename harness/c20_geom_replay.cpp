// C20 replayer (R) for spec/LinAlgGeom.tla: the geometry layer (Vec2_/Vec3_/Vec4_, Matrix4_/Matrix3_ as affine and
// projective transforms, Quaternion_, Pose_, Complex, the element-wise part of Matrix_) instantiated over the harness
// scalar Zp (c20_zp.h) and compared exactly with the values TLC computed.  Every expected value is a field of the case;
// an empty list means "undefined in the specification" (division by zero, singular matrix) and the result is not
// looked at.  Nothing here derives an expected value.
//   {"k":"vec", "p":P, "a","b","c":[3], "s":k, "e":[3], "add",...   (see VecCase in the module)}
//   {"k":"aff", ...}  {"k":"quat", ...}  {"k":"cplx", ...}  {"k":"dyn", "a":{"r","c","d"}, ...}
#define C20_ZP_IMPL
#include "c20_zp.h"
#include <asl/Matrix.h>
#include <asl/Matrix3.h>
#include <asl/Matrix4.h>
#include <asl/Quaternion.h>
#include <asl/Pose.h>
#include <asl/Complex.h>
#include "vrun.h"
#include <stdarg.h>

using namespace asl;
using vrun::Outcome;
typedef std::vector<int> IV;
typedef Vec2_<Zp> V2;
typedef Vec3_<Zp> V3;
typedef Vec4_<Zp> V4;
typedef Matrix3_<Zp> M3;
typedef Matrix4_<Zp> M4;
typedef Quaternion_<Zp> Q;
typedef Complex<Zp> C;
typedef Matrix_<Zp> MX;

static std::string show(const IV& v)
{
	std::string s = "[";
	for (size_t i = 0; i < v.size(); i++) s += (i ? "," : "") + std::to_string(v[i]);
	return s + "]";
}
static IV iv(const V2& a) { IV v; v.push_back(a.x.v); v.push_back(a.y.v); return v; }
static IV iv(const V3& a) { IV v; v.push_back(a.x.v); v.push_back(a.y.v); v.push_back(a.z.v); return v; }
static IV iv(const V4& a) { IV v; v.push_back(a.x.v); v.push_back(a.y.v); v.push_back(a.z.v); v.push_back(a.w.v); return v; }
static IV iv(const Q& a) { IV v; v.push_back(a.w.v); v.push_back(a.x.v); v.push_back(a.y.v); v.push_back(a.z.v); return v; }
static IV iv(const C& a) { IV v; v.push_back(a.r.v); v.push_back(a.i.v); return v; }
static IV iv(const M3& m) { IV v; for (int i = 0; i < 3; i++) for (int j = 0; j < 3; j++) v.push_back(m(i, j).v); return v; }
static IV iv(const M4& m) { IV v; for (int i = 0; i < 4; i++) for (int j = 0; j < 4; j++) v.push_back(m(i, j).v); return v; }
static IV iv(Zp a) { IV v; v.push_back(a.v); return v; }
static IV iv(int a) { IV v; v.push_back(a); return v; }
// a dynamic matrix as [rows, cols, entries...]
static IV iv(const MX& m)
{
	IV v;
	v.push_back(m.rows());
	v.push_back(m.cols());
	for (int i = 0; i < m.rows(); i++) for (int j = 0; j < m.cols(); j++) v.push_back(m(i, j).v);
	return v;
}
static IV dynOf(const vj::Value& d)
{
	IV v;
	v.push_back(d["r"].i());
	v.push_back(d["c"].i());
	IV e = d["d"].ints();
	v.insert(v.end(), e.begin(), e.end());
	return v;
}

static Zp Z(int x) { return Zp(x); }
static V2 v2(const IV& a) { return V2(Zp(a[0]), Zp(a[1])); }
static V3 v3(const IV& a) { return V3(Zp(a[0]), Zp(a[1]), Zp(a[2])); }
static V4 v4(const IV& a) { return V4(Zp(a[0]), Zp(a[1]), Zp(a[2]), Zp(a[3])); }
static Q q4(const IV& a) { return Q(Zp(a[0]), Zp(a[1]), Zp(a[2]), Zp(a[3])); }
static std::vector<Zp> zs(const IV& a) { std::vector<Zp> z; for (size_t i = 0; i < a.size(); i++) z.push_back(Zp(a[i])); return z; }
static M4 m4(const IV& a) { std::vector<Zp> z = zs(a); return M4(&z[0]); }
static M3 m3(const IV& a) { std::vector<Zp> z = zs(a); return M3(&z[0]); }

static IV expOf(const vj::Value& v)
{
	if (v.is(vj::Value::NUM)) return iv((int)v.inum);
	if (v.is(vj::Value::OBJ)) return dynOf(v);
	return v.ints();
}

struct Ck
{
	const vj::Value& c;
	std::string err;
	explicit Ck(const vj::Value& c_) : c(c_) {}
	// compare a result with the field `key` of the case; `what` names the library expression
	bool eq(const IV& got, const char* key, const char* what)
	{
		if (!err.empty()) return false;
		IV exp = expOf(c[key]);
		if (got != exp) { err = std::string(what) + " = " + show(got) + ", spec (" + key + ") " + show(exp); return false; }
		return true;
	}
	bool eqv(const IV& got, const IV& exp, const char* what)
	{
		if (!err.empty()) return false;
		if (got != exp) { err = std::string(what) + " = " + show(got) + ", spec " + show(exp); return false; }
		return true;
	}
	bool defined(const char* key) { return c[key].size() > 0; }
	void that(bool cond, const char* what) { if (err.empty() && !cond) err = std::string(what) + " does not hold"; }
};

#define EQ(expr, key) k.eq(iv(expr), key, #expr)
#define DONE() do { if (!k.err.empty()) return Outcome::fail(k.err + "  [case " + c["k"].s() + "]"); } while (0)

static Outcome doVec(const vj::Value& c)
{
	Ck k(c);
	V3 a = v3(c["a"].ints()), b = v3(c["b"].ints()), d = v3(c["c"].ints()), e = v3(c["e"].ints());
	Zp s(c["s"].i());
	EQ(a + b, "add"); EQ(a - b, "sub"); EQ(-a, "neg"); EQ(a * s, "scl"); EQ(s * a, "scl");
	EQ(a * b, "dot"); EQ(a ^ b, "cross"); EQ(a % b, "cw"); EQ(a.length2(), "len2");
	EQ(a * (b ^ d), "triple");
	{
		// the triple product is the determinant of the matrix with rows a, b, c
		M3 m(a.x, a.y, a.z, b.x, b.y, b.z, d.x, d.y, d.z);
		EQ(m.det(), "triple");
		EQ(m.transposed().det(), "triple");
	}
	if (k.defined("div")) { EQ(a / s, "div"); V3 t = a; t /= s; EQ(t, "div"); }
	{ V3 t = a; t += b; EQ(t, "add"); t = a; t -= b; EQ(t, "sub"); t = a; t *= s; EQ(t, "scl"); t = a; t %= b; EQ(t, "cw"); }
	EQ(compare(a, e), "cmp");
	k.that((a == e) == (c["cmp"].i() == 0), "Vec3: (a == e) <=> compare(a, e) == 0");
	k.that((a != e) == (c["cmp"].i() != 0), "Vec3: (a != e) <=> compare(a, e) != 0");
	if (k.defined("h2c")) EQ(a.h2c(), "h2c");
	k.eqv(iv(V3(a.xy(), a.z)), c["a"].ints(), "Vec3(a.xy(), a.z)");
	k.eqv(iv(a.zyx().zyx()), c["a"].ints(), "a.zyx().zyx()");
	{ const Zp* p = a; k.eqv(iv(V3(p)), c["a"].ints(), "Vec3((const T*)a)"); }
	k.eqv(iv(V3::zeros() + a), c["a"].ints(), "zeros() + a");
	DONE();
	// Vec4
	V4 a4 = v4(c["a4"].ints()), b4 = v4(c["b4"].ints()), e4 = v4(c["e4"].ints());
	EQ(a4 + b4, "add4"); EQ(a4 - b4, "sub4"); EQ(-a4, "neg4"); EQ(a4 * s, "scl4"); EQ(s * a4, "scl4");
	EQ(a4 * b4, "dot4"); EQ(a4 % b4, "cw4"); EQ(a4.length2(), "len24");
	if (k.defined("div4")) { EQ(a4 / s, "div4"); V4 t = a4; t /= s; EQ(t, "div4"); }
	{ V4 t = a4; t += b4; EQ(t, "add4"); t = a4; t -= b4; EQ(t, "sub4"); t = a4; t *= s; EQ(t, "scl4"); t = a4; t %= b4; EQ(t, "cw4"); }
	if (k.defined("h2c4")) EQ(a4.h2c(), "h2c4");
	k.eqv(iv(V4(a4.xyz(), a4.w)), c["a4"].ints(), "Vec4(a4.xyz(), a4.w)");
	{ const Zp* p = a4; k.eqv(iv(V4(p)), c["a4"].ints(), "Vec4((const T*)a4)"); }
	EQ(compare(a4, e4), "cmp4");
	k.that((a4 == e4) == (c["cmp4"].i() == 0), "Vec4: (a == e) <=> compare(a, e) == 0");
	k.that((a4 != e4) == (c["cmp4"].i() != 0), "Vec4: (a != e) <=> compare(a, e) != 0");
	DONE();
	// Vec2
	V2 u = v2(c["u"].ints()), w = v2(c["w"].ints()), e2 = v2(c["e2"].ints());
	EQ(u + w, "add2"); EQ(u - w, "sub2"); EQ(-u, "neg2"); EQ(u * s, "scl2"); EQ(s * u, "scl2");
	EQ(u * w, "dot2"); EQ(u ^ w, "crs2"); EQ(u.perpend(), "perp2"); EQ(u % w, "cw2"); EQ(u.length2(), "len22");
	if (k.defined("div2")) { EQ(u / s, "div2"); V2 t = u; t /= s; EQ(t, "div2"); }
	{ V2 t = u; t += w; EQ(t, "add2"); t = u; t -= w; EQ(t, "sub2"); t = u; t *= s; EQ(t, "scl2"); t = u; t %= w; EQ(t, "cw2"); }
	EQ(compare(u, e2), "cmp2");
	k.that((u == e2) == (c["cmp2"].i() == 0), "Vec2: (a == e) <=> compare(a, e) == 0");
	DONE();
	return Outcome();
}

static Outcome doAff(const vj::Value& c)
{
	Ck k(c);
	IV l = c["l"].ints(), t = c["t"].ints(), l2 = c["l2"].ints(), t2 = c["t2"].ints(), gf = c["g"].ints(), mf = c["m"].ints();
	V3 tv = v3(t), sv = v3(c["s"].ints()), pt = v3(c["pt"].ints());
	V4 h = v4(c["h"].ints());
	Zp f(c["f"].i());
	Zp::divzero = false;
	// the affine transform (L | t): 12-element constructor (last row defaults to 0 0 0 1), column constructor, setTranslation
	M4 G(Z(l[0]), Z(l[1]), Z(l[2]), Z(t[0]), Z(l[3]), Z(l[4]), Z(l[5]), Z(t[1]), Z(l[6]), Z(l[7]), Z(l[8]), Z(t[2]));
	EQ(G, "g");
	M4 Gc(V3(Z(l[0]), Z(l[3]), Z(l[6])), V3(Z(l[1]), Z(l[4]), Z(l[7])), V3(Z(l[2]), Z(l[5]), Z(l[8])), tv);
	EQ(Gc, "g");
	M4 Lm(V3(Z(l[0]), Z(l[3]), Z(l[6])), V3(Z(l[1]), Z(l[4]), Z(l[7])), V3(Z(l[2]), Z(l[5]), Z(l[8])));
	{ M4 x = Lm; x.setTranslation(tv); EQ(x, "g"); }
	M4 G2(Z(l2[0]), Z(l2[1]), Z(l2[2]), Z(t2[0]), Z(l2[3]), Z(l2[4]), Z(l2[5]), Z(t2[1]), Z(l2[6]), Z(l2[7]), Z(l2[8]), Z(t2[2]));
	M4 M = m4(mf);
	EQ(M, "m");
	{
		// column-major pointer constructor and the four-column constructor build the same matrix
		std::vector<Zp> cm(16);
		for (int i = 0; i < 4; i++) for (int j = 0; j < 4; j++) cm[(size_t)(j * 4 + i)] = Zp(mf[(size_t)(i * 4 + j)]);
		EQ(M4(&cm[0], true), "m");
		EQ(M4(V4(&cm[0]), V4(&cm[4]), V4(&cm[8]), V4(&cm[12])), "m");
		for (int j = 0; j < 4; j++)
		{
			k.eqv(iv(M.column(j)), iv(V4(&cm[(size_t)(4 * j)])), "M.column(j)");
			k.eqv(iv(M.column3(j)), iv(V3(&cm[(size_t)(4 * j)])), "M.column3(j)");
		}
		k.that(M.rows() == 4 && M.cols() == 4 && M.at(1, 2).v == mf[6] && M.data()[7].v == mf[7], "Matrix4 rows/cols/at/data");
	}
	EQ(M4::translate(tv), "tr"); EQ(M4::translate(tv.x, tv.y, tv.z), "tr");
	EQ(M4::scale(sv), "sc"); EQ(M4::scale(f), "scu");
	EQ(M4::translate(tv) * M4::scale(sv), "ts"); EQ(M4::scale(sv) * M4::translate(tv), "st");
	EQ(M4::translate(tv) * Lm * M4::scale(sv), "tls");
	EQ(G * G2, "gg2"); EQ(M * G, "mg");
	{ M4 x = M; x *= G; EQ(x, "mg"); }
	EQ(G * pt, "gp"); EQ(G % pt, "gd"); EQ(G * h, "gh");
	EQ(M * pt, "mp"); EQ(M % pt, "md"); EQ(M * h, "mh");
	if (k.defined("mproj")) EQ(M ^ pt, "mproj");
	EQ(G.translation(), "t");
	EQ(G.det(), "detg"); EQ(M.det(), "detm");
	DONE();
	k.that(!Zp::divzero, "no division by zero before inverse()");
	if (k.defined("ginv")) { Zp::divzero = false; EQ(G.inverse(), "ginv"); k.that(!Zp::divzero, "inverse() of a nonsingular affine transform without division by zero"); }
	if (k.defined("minv")) { Zp::divzero = false; EQ(M.inverse(), "minv"); k.that(!Zp::divzero, "inverse() of a nonsingular matrix without division by zero"); }
	EQ(M.transposed(), "mt"); EQ(M.t(), "mt"); EQ(M.trace(), "mtr"); EQ(M.normSq(), "mnsq");
	EQ(M + G, "msum"); EQ(M - G, "mdif"); EQ(M * f, "mscl"); EQ(f * M, "mscl");
	{ M4 x = M; x *= f; EQ(x, "mscl"); }
	EQ(M4() * M, "m"); EQ(M * M4::identity(), "m");
	DONE();
	// 2-D: Matrix3
	IV kk = c["kk"].ints(), tk = c["tk"].ints(), nf = c["n"].ints();
	V2 tkv = v2(tk), s2 = v2(c["s2"].ints()), p2 = v2(c["p2"].ints());
	M3 A(Z(kk[0]), Z(kk[1]), Z(tk[0]), Z(kk[2]), Z(kk[3]), Z(tk[1]));
	EQ(A, "a3");
	{ M3 x(Z(kk[0]), Z(kk[1]), Zp(0), Z(kk[2]), Z(kk[3]), Zp(0)); x.setTranslation(tkv); EQ(x, "a3"); }
	M3 N = m3(nf);
	EQ(N, "n");
	{
		std::vector<Zp> cm(9);
		for (int i = 0; i < 3; i++) for (int j = 0; j < 3; j++) cm[(size_t)(j * 3 + i)] = Zp(nf[(size_t)(i * 3 + j)]);
		EQ(M3(&cm[0], true), "n");
		for (int j = 0; j < 3; j++)
		{
			k.eqv(iv(N.column(j)), iv(V3(&cm[(size_t)(3 * j)])), "N.column(j)");
			k.eqv(iv(N.column2(j)), iv(V2(cm[(size_t)(3 * j)], cm[(size_t)(3 * j + 1)])), "N.column2(j)");
		}
		k.that(N.rows() == 3 && N.cols() == 3 && N.data()[5].v == nf[5], "Matrix3 rows/cols/data");
	}
	EQ(M3::translate(tkv), "tr3"); EQ(M3::translate(tkv.x, tkv.y), "tr3");
	EQ(M3::scale(s2.x, s2.y), "sc3"); EQ(M3::scale(f), "scu3");
	EQ(M3::translate(tkv) * M3::scale(s2.x, s2.y), "ts3");
	EQ(A * p2, "a3p"); EQ(A % p2, "a3d"); EQ(N * p2, "np"); EQ(N * pt, "nv");
	if (k.defined("nproj")) EQ(N ^ p2, "nproj");
	EQ(A.translation(), "tk");
	if (k.defined("a3inv")) { Zp::divzero = false; EQ(A.inverse(), "a3inv"); k.that(!Zp::divzero, "Matrix3::inverse() of a nonsingular affine transform without division by zero"); }
	EQ(N.trace(), "ntr"); EQ(N.normSq(), "nnsq"); EQ(N + A, "nsum"); EQ(N * f, "nscl"); EQ(f * N, "nscl");
	{ M3 x = N; x *= f; EQ(x, "nscl"); }
	EQ(N.transposed(), "nt"); EQ(N.t(), "nt");
	EQ(M3() * N, "n"); EQ(N * M3::identity(), "n");
	DONE();
	return Outcome();
}

static Outcome doQuat(const vj::Value& c)
{
	Ck k(c);
	Q q1 = q4(c["q1"].ints()), q2 = q4(c["q2"].ints()), q3 = q4(c["q3"].ints());
	V3 v = v3(c["v"].ints()), pos = v3(c["pos"].ints());
	Zp s(c["s"].i());
	Zp::divzero = false;
	EQ(q1 ^ q2, "p12"); EQ((q1 ^ q2) ^ q3, "p123"); EQ(q1 ^ (q2 ^ q3), "p123");
	EQ(q1.conj(), "conj"); EQ(q1.length2(), "n1"); EQ(q1 * q2, "dot"); EQ(q1 + q2, "sum"); EQ(q1 * s, "scl"); EQ(-q1, "neg");
	EQ(Q(q1.w, V3(q1.x, q1.y, q1.z)), "q1");
	k.eqv(iv(Q() ^ q1), c["q1"].ints(), "Quaternion() ^ q1");
	k.that(!Zp::divzero, "no division by zero in the ring operations");
	if (k.defined("inv")) { EQ(q1.inverse(), "inv"); k.that(!Zp::divzero, "inverse() of a quaternion of non-zero norm without division by zero"); }
	DONE();
	if (k.defined("u1"))
	{
		Q u1 = q4(c["u1"].ints()), u2 = q4(c["u2"].ints());
		EQ((q1 ^ q1) / q1.length2(), "u1");
		EQ(u1.matrix(), "m1"); EQ((u1 ^ u2).matrix(), "m12"); EQ(u1.matrix() * u2.matrix(), "m12");
		EQ(u1 * v, "rv"); EQ(u1.matrix() * v, "rv"); EQ(u1.matrix() % v, "rv");
		EQ(u1.inverse(), "u1c");
		EQ(u1.matrix().inverse(), "m1t");
		Pose_<Zp> ps(pos, u1);
		EQ(ps.matrix(), "pose"); EQ(ps.position(), "pos"); EQ(ps.orientation(), "u1");
		EQ(ps.matrix().translation(), "pos");
		k.that(!Zp::divzero, "no division by zero on unit quaternions");
	}
	DONE();
	Outcome o;
	o.nontrivial = k.defined("u1");
	return o;
}

static Outcome doCplx(const vj::Value& c)
{
	Ck k(c);
	IV zf = c["z"].ints(), yf = c["y"].ints(), ef = c["e"].ints();
	C z(Z(zf[0]), Z(zf[1])), y(Z(yf[0]), Z(yf[1])), e(Z(ef[0]), Z(ef[1]));
	Zp s(c["s"].i());
	Zp::divzero = false;
	EQ(z + y, "sum"); EQ(z - y, "dif"); EQ(z * y, "prd"); EQ(z.conj(), "conj"); EQ(~z, "conj"); EQ(z.magnitude2(), "mag2");
	EQ(z * s, "scl"); EQ(s * z, "scl"); EQ(-z, "neg");
	{ C t = z; t += y; EQ(t, "sum"); t = z; t -= y; EQ(t, "dif"); t = z; t *= s; EQ(t, "scl"); }
	k.that(!Zp::divzero, "no division by zero in the ring operations");
	if (k.defined("quo")) { EQ(z / y, "quo"); k.that(!Zp::divzero, "z / y with |y|^2 != 0 without division by zero"); }
	if (k.defined("dvs")) { EQ(z / s, "dvs"); C t = z; t /= s; EQ(t, "dvs"); }
	k.that((z == e) == (c["eq"].i() == 1), "Complex: operator== agrees with the spec");
	k.that((z != e) == (c["eq"].i() != 1), "Complex: operator!= agrees with the spec");
	{ C r(z.r); k.that(r.r == z.r && r.i.v == 0, "Complex(real) has imaginary part 0"); C cp(z); k.that(cp == z, "copy"); }
	DONE();
	return Outcome();
}

static MX dyn(const vj::Value& d)
{
	int r = d["r"].i(), cc = d["c"].i();
	std::vector<Zp> z = zs(d["d"].ints());
	return MX(r, cc, &z[0]);
}

static Outcome doDyn(const vj::Value& c)
{
	Ck k(c);
	const vj::Value& ad = c["a"];
	int r = ad["r"].i(), cc = ad["c"].i(), ri = c["ri"].i(), ci = c["ci"].i();
	IV af = ad["d"].ints();
	std::vector<Zp> z = zs(af);
	Zp s(c["s"].i());
	MX A = dyn(ad), B = dyn(c["b"]);
	EQ(A, "a");
	k.that(A.rows() == r && A.cols() == cc && A.length() == r * cc, "rows() / cols() / length()");
	{
		// the other constructors build the same matrix
		MX a2(r, cc);
		for (int i = 0; i < r; i++) for (int j = 0; j < cc; j++) a2(i, j) = z[(size_t)(i * cc + j)];
		EQ(a2, "a");
		k.that(a2 == A && !(a2 != A), "operator== on equal matrices");
		Array<Zp> arr(r * cc);
		for (int i = 0; i < r * cc; i++) arr[i] = z[(size_t)i];
		EQ(MX(r, cc, arr), "a");
		MX fill(r, cc, s);
		bool all = true;
		for (int i = 0; i < r * cc; i++) all = all && fill[i] == s;
		k.that(all && fill.rows() == r && fill.cols() == cc, "Matrix_(rows, cols, value)");
		if (r == 2 && cc == 2) { MX m = {{z[0], z[1]}, {z[2], z[3]}}; EQ(m, "a"); }
		if (r == 2 && cc == 3) { MX m = {{z[0], z[1], z[2]}, {z[3], z[4], z[5]}}; EQ(m, "a"); }
		if (r == 3 && cc == 2) { MX m = {{z[0], z[1]}, {z[2], z[3]}, {z[4], z[5]}}; EQ(m, "a"); }
		if (r == 3 && cc == 3) { MX m = {{z[0], z[1], z[2]}, {z[3], z[4], z[5]}, {z[6], z[7], z[8]}}; EQ(m, "a"); }
		if (r == 1 && cc == 3) { MX m = {{z[0], z[1], z[2]}}; EQ(m, "a"); }
		if (r == 3 && cc == 1) { MX m = {z[0], z[1], z[2]}; EQ(m, "a"); MX m2(3, 1, {z[0], z[1], z[2]}); EQ(m2, "a"); MX m3_(arr); EQ(m3_, "a"); }
		if (r == 2 && cc == 1) { MX m = {z[0], z[1]}; EQ(m, "a"); }
	}
	EQ(A * B, "prod"); EQ(A + B, "sum"); EQ(A - B, "dif");
	EQ(A.transposed(), "at"); EQ(A.transposed(B), "atb");
	EQ(A.trace(), "tra"); EQ(A.row(ri), "row"); EQ(A.col(ci), "col"); EQ(A.slice(ri, r, ci, cc), "sl");
	EQ(A.normSq(), "nsq"); EQ(A * s, "scl"); EQ(s * A, "scl"); EQ(-A, "neg"); EQ(MX::identity(r), "id");
	EQ(A, "a"); // none of the above changed A
	DONE();
	{
		// in-place operations on an independent copy; the original is unchanged
		MX t = A.clone();
		t += B;
		if (c["sum"]["r"].i() != 0) EQ(t, "sum"); else EQ(t, "a");
		t -= B;
		EQ(t, "a");
		t -= B;
		if (c["dif"]["r"].i() != 0) EQ(t, "dif"); else EQ(t, "a");
		t = A.clone(); t *= s; EQ(t, "scl");
		t = A.clone(); t.negate(); EQ(t, "neg");
		MX u; u.copy(A); EQ(u, "a"); u.negate(); EQ(u, "neg");
		EQ(A, "a");
		MX sh = A; // a shared handle: documented reference semantics of the containers
		k.that(sh == A, "shared handle equals the original");
	}
	DONE();
	return Outcome();
}

static Outcome run(const vj::Value& c)
{
	const std::string& kind = c["k"].s();
	Zp::P = c["p"].i();
	Zp::key = 1;
	if (kind == "vec") return doVec(c);
	if (kind == "aff") return doAff(c);
	if (kind == "quat") return doQuat(c);
	if (kind == "cplx") return doCplx(c);
	if (kind == "dyn") return doDyn(c);
	return Outcome::fail("harness: unknown case kind " + kind);
}

int main(int argc, char** argv)
{
	return vrun::run(argc, argv, run);
}
