// C18 recorder (V): seeded random executions of asl::IniFile and asl::TabularDataFile, one ndjson event per execution
// (preceded by a "reset" line), in the vocabulary of spec/Trace_IniCsv.tla.
//   ini: random texts of up to 40 lines built from section headers, key=value entries (identifier-like keys, optional
//        indentation and blanks around '=', values without leading/trailing blanks that may contain blanks, '=', '#', ';',
//        '[', quotes and bytes >= 128), '#' and ';' comments (also indented, also looking like entries), blank and
//        whitespace-only lines; LF or CR LF; with or without a final newline; then up to 20 set() calls on existing keys,
//        new keys in existing sections, new sections and (where a plain name addresses the top section) plain names;
//        written by write()+destructor, by the destructor, or through operator[]; every key is read back with a fresh
//        IniFile.
//   csv: random tables of up to 30 rows x 8 columns of numbers (1..15 significant digits, exponents mostly -30..30 and sometimes over the whole double range, integers,
//        zero, negative) and strings over letters , ; " ' and blanks.
// growth executions (half of the executions, all of them with --mode 1):
//   api:  a session on one IniFile object over a random text (also with a byte order mark, keys and sections given twice, a Qt
//         style array, lines of 900..2500 bytes; sometimes no file at all): 1..24 calls out of set() / operator[]= (existing keys,
//         new keys, new sections, plain names, values with blanks around them), operator[] reads of existing and missing names,
//         section(), arraysize()/array(), write(), write(name), a write to a path that cannot be written, destroying the object and
//         opening a new one (sometimes with shouldwrite = false), and the const queries (operator[], has(), operator()(name, default),
//         sectionNames(), values(), values(section)) on samples of the names; one event per call.
//   csvw: tables of 0..20 rows x 1..6 columns written with options (5 separator/decimal combinations, useQuotes, flushEvery 0..4, short
//         rows ended with "\n", numeric column names, ARFF with numeric/string/nominal columns), the file after every row, read back.
//   csvr: files as other tools write them (3 dialects, header or not, CR LF, byte order mark, last row without newline, ragged rows,
//         trailing separator, empty lines, quoted cells and quoted numbers) read with nextRow()/row(), file[name], data().
// Nothing is compared here: TLC decides (IniOK / CsvRows / the object state machine / CsvWOK / CsvRead on the logged bytes).
#include "c18_common.h"
#include "vrec.h"
#include <set>

using namespace vrec;
using namespace c18;

static std::string ident(Rng& rng, bool section)
{
	static const char* POOL[] = { "a", "b", "k", "s", "t", "name", "Size", "x1", "long_key_name", "Z", "n0", "path", "u", "v2" };
	if (rng.chance(75)) return POOL[rng.below(14)];
	std::string s;
	int n = rng.range(1, section ? 12 : 9);
	for (int i = 0; i < n; i++)
	{
		int k = rng.below(section ? 64 : 63);
		s += k < 26 ? (char)('a' + k) : k < 52 ? (char)('A' + k - 26) : k < 62 ? (char)('0' + k - 52) : k == 62 ? '_' : ' ';
	}
	if (section) { if (s[0] == ' ') s[0] = 'S'; if (s[s.size() - 1] == ' ') s[s.size() - 1] = 'e'; }
	return s;
}

static std::string value(Rng& rng)
{
	if (rng.chance(12)) return "";
	if (rng.chance(35)) return std::to_string(rng.below(100000));
	static const char ALPHA[] = "abcxyzABC019 =#;[]\"'/\\:.,-+_(){}<>!?*&%$@~|^`";
	std::string s;
	int n = rng.chance(10) ? rng.range(30, 300) : rng.range(1, 14);
	for (int i = 0; i < n; i++) s += rng.chance(4) ? (char)rng.range(128, 255) : ALPHA[rng.below((int)sizeof(ALPHA) - 1)];
	if (s[0] == ' ') s[0] = 'v';
	if (s[s.size() - 1] == ' ') s[s.size() - 1] = 'w';
	return s;
}

static void iniExecution(Rng& rng, Log& log, const TmpDir& tmp, bool avoidLast)
{
	std::vector<std::string> lines;
	std::vector<Entry> present;                   // entries of the text (section, key), in order
	std::set<std::pair<std::string, std::string> > seen;
	std::vector<std::string> sections;
	std::string cur = "-";
	bool anyHeader = false, topKeys = false;
	int nl = rng.chance(10) ? 0 : rng.chance(60) ? rng.range(1, 8) : rng.range(9, 40);
	for (int i = 0; i < nl; i++)
	{
		int k = rng.below(100);
		if (k < 18)
		{
			std::string name = ident(rng, true);
			if (name == "-") name = "m";
			lines.push_back("[" + name + "]" + (rng.chance(4) ? " " : ""));
			cur = name;
			anyHeader = true;
			sections.push_back(name);
		}
		else if (k < 68)
		{
			std::string key = ident(rng, false);
			if (seen.count(std::make_pair(cur, key))) continue; // no duplicate keys within a section
			seen.insert(std::make_pair(cur, key));
			std::string v = value(rng);
			std::string indent = rng.chance(25) ? (rng.chance(50) ? "  " : "\t") : "";
			std::string eq = rng.chance(20) ? " = " : rng.chance(10) ? " =" : rng.chance(10) ? "= " : "=";
			if (v.empty() && eq[eq.size() - 1] == ' ' && rng.chance(50)) eq = "=";
			lines.push_back(indent + key + eq + v);
			Entry e;
			e.sec = cur;
			e.key = key;
			e.val = v;
			present.push_back(e);
			if (cur == "-") topKeys = true;
		}
		else if (k < 84)
		{
			std::string c = rng.chance(50) ? "#" : ";";
			std::string body = rng.chance(30) ? " " + ident(rng, false) + "=" + value(rng) : rng.chance(20) ? "[" + ident(rng, true) + "]" : " " + value(rng);
			lines.push_back((rng.chance(15) ? "  " : "") + c + body);
		}
		else if (k < 96) lines.push_back("");
		else lines.push_back(rng.chance(50) ? " " : "\t ");
	}
	bool crlf = rng.chance(35);
	bool final = rng.chance(60);
	if (avoidLast && !final && !lines.empty())
	{
		// open finding LastLineNoNewline: a last entry line without newline is not generated
		const std::string& last = lines.back();
		size_t p = last.find_first_not_of(" \t");
		if (p != std::string::npos && last[p] != '#' && last[p] != ';' && last[0] != '[') final = true;
	}
	std::string text;
	for (size_t i = 0; i < lines.size(); i++)
	{
		text += lines[i];
		if (i + 1 < lines.size() || final) text += crlf ? "\r\n" : "\n";
	}
	bool plainOK = !anyHeader || topKeys;
	std::vector<Entry> sets;
	int ns = rng.chance(15) ? 0 : rng.chance(60) ? rng.range(1, 4) : rng.range(5, 20);
	std::vector<Entry> queries = present;
	for (int i = 0; i < ns; i++)
	{
		Entry e;
		int k = rng.below(100);
		if (k < 40 && !present.empty()) { e = present[(size_t)rng.below((int)present.size())]; if (e.sec == "-" && !plainOK) continue; }
		else if (k < 50 && !sets.empty()) e = sets[(size_t)rng.below((int)sets.size())];
		else if (k < 75 && !sections.empty()) { e.sec = sections[(size_t)rng.below((int)sections.size())]; e.key = ident(rng, false); }
		else if (k < 85 && plainOK) { e.sec = "-"; e.key = ident(rng, false); }
		else { e.sec = ident(rng, true); if (e.sec == "-") e.sec = "m"; e.key = ident(rng, false); }
		if (e.key.find(' ') != std::string::npos) continue;
		e.val = value(rng);
		// a new key set to "" is not persisted by design; without other top-level entries a plain name would then
		// address another section in the rewritten file
		if (e.sec == "-" && e.val.empty() && !topKeys) e.val = "0";
		sets.push_back(e);
		queries.push_back(e);
	}
	// each key queried once
	std::vector<Entry> q;
	std::set<std::pair<std::string, std::string> > qs;
	for (size_t i = 0; i < queries.size(); i++)
		if (qs.insert(std::make_pair(queries[i].sec, queries[i].key)).second) q.push_back(queries[i]);
	int how = rng.below(4);
	std::string path = tmp.path + "/rec.ini";
	IniResult r = runIni(path, text, sets, q, how);
	unlink(path.c_str());
	if (r.problem.compare(0, 8, "harness:") == 0) { fprintf(stderr, "%s\n", r.problem.c_str()); exit(2); }
	log.line("{\"op\":\"reset\"}");
	log.line(iniEvent(text, sets, r, how));
	if (!r.problem.empty())
	{
		fprintf(stderr, "VREC-FAIL: %s\n", r.problem.c_str());
		fflush(stderr);
		rmTree(tmp.path);
		_exit(3);
	}
}

static Cell randomCell(Rng& rng, bool avoidTiny)
{
	Cell c;
	int k = rng.below(100);
	if (k < 45)
	{
		c.num = true;
		double x;
		int m = rng.below(10);
		if (m == 0) x = 0;
		else if (m < 4) x = rng.range(-1000, 1000);
		else if (m < 6) x = (double)(long long)(rng.next() % 1000000000000000ULL) * (rng.chance(50) ? -1 : 1);
		else
		{
			int nd = rng.range(1, 15);
			std::string t = rng.chance(40) ? "-" : "";
			t += (char)('1' + rng.below(9));
			if (nd > 1) t += ".";
			for (int i = 1; i < nd; i++) t += (char)('0' + rng.below(10));
			// mostly moderate magnitudes; sometimes the whole double range (also subnormal) unless the open finding
			// TinyNumberScale is to be avoided
			int ex = rng.chance(75) ? rng.range(-30, 30) : rng.range(avoidTiny ? -290 : -323, 307);
			t += "e" + std::to_string(ex);
			x = strtod(t.c_str(), 0);
		}
		c.s = g15(x);
		if (c.s == "-0") c.s = "0";
		return c;
	}
	c.num = false;
	if (k < 55) return c; // empty string
	static const char ALPHA[] = "abcdeXYZ,,;;\"\"''   ";
	int n = rng.chance(15) ? rng.range(8, 40) : rng.range(1, 6);
	for (int i = 0; i < n; i++) c.s += ALPHA[rng.below((int)sizeof(ALPHA) - 1)];
	return c;
}

static void csvExecution(Rng& rng, Log& log, const TmpDir& tmp, bool avoidTiny)
{
	int cols = rng.chance(20) ? 1 : rng.range(2, 8);
	int nr = rng.chance(10) ? 0 : rng.chance(70) ? rng.range(1, 6) : rng.range(7, 30);
	std::vector<std::vector<Cell> > rows;
	for (int i = 0; i < nr; i++)
	{
		std::vector<Cell> row;
		for (int j = 0; j < cols; j++) row.push_back(randomCell(rng, avoidTiny));
		rows.push_back(row);
	}
	std::string path = tmp.path + "/rec.csv";
	CsvResult r = runCsv(path, cols, rows, rng.below(4));
	unlink(path.c_str());
	if (r.problem.compare(0, 8, "harness:") == 0) { fprintf(stderr, "%s\n", r.problem.c_str()); exit(2); }
	log.line("{\"op\":\"reset\"}");
	log.line(csvEvent(cols, rows, r));
	if (!r.problem.empty())
	{
		fprintf(stderr, "VREC-FAIL: %s\n", r.problem.c_str());
		fflush(stderr);
		rmTree(tmp.path);
		_exit(3);
	}
}

// ---- growth: sessions on one IniFile object -------------------------------------------------------------------------------
// a random INI text (as in iniExecution, plus: a byte order mark, keys given twice, sections given twice, a Qt style array, lines
// of more than 1000 bytes) and what the recorder has to know about it
struct IniText
{
	std::string text;
	std::vector<Entry> present;
	std::vector<std::string> sections;
	bool anyHeader, topKeys;
};
static IniText randomIniText(Rng& rng, bool avoidLast, bool avoidBom)
{
	IniText t;
	t.anyHeader = t.topKeys = false;
	std::vector<std::string> lines;
	std::string cur = "-";
	int nl = rng.chance(10) ? 0 : rng.chance(70) ? rng.range(1, 8) : rng.range(9, 30);
	for (int i = 0; i < nl; i++)
	{
		int k = rng.below(100);
		if (k < 18)
		{
			std::string name = rng.chance(15) && !t.sections.empty() ? t.sections[(size_t)rng.below((int)t.sections.size())] : ident(rng, true);
			if (name == "-") name = "m";
			lines.push_back("[" + name + "]");
			cur = name;
			t.anyHeader = true;
			t.sections.push_back(name);
		}
		else if (k < 22)
		{
			// Qt style array
			lines.push_back("[arr]");
			cur = "arr";
			t.anyHeader = true;
			t.sections.push_back("arr");
			int n = rng.range(0, 3);
			lines.push_back("size=" + std::to_string(n));
			Entry e;
			e.sec = cur; e.key = "size"; e.val = std::to_string(n);
			t.present.push_back(e);
			for (int j = 1; j <= n; j++)
			{
				e.key = std::to_string(j) + "\\f";
				e.val = value(rng);
				lines.push_back(e.key + "=" + e.val);
				t.present.push_back(e);
			}
		}
		else if (k < 70)
		{
			std::string key = ident(rng, false);
			if (key.find(' ') != std::string::npos) continue;
			std::string v = rng.chance(2) ? std::string((size_t)rng.range(900, 2500), 'L') : value(rng);
			std::string indent = rng.chance(25) ? (rng.chance(50) ? "  " : "\t") : "";
			std::string eq = rng.chance(20) ? " = " : rng.chance(10) ? " =" : rng.chance(10) ? "= " : "=";
			lines.push_back(indent + key + eq + v);
			Entry e;
			e.sec = cur; e.key = key; e.val = v;
			t.present.push_back(e);
			if (cur == "-") t.topKeys = true;
		}
		else if (k < 84)
		{
			std::string c = rng.chance(50) ? "#" : ";";
			lines.push_back((rng.chance(15) ? "  " : "") + c + (rng.chance(30) ? " " + ident(rng, false) + "=" + value(rng) : " " + value(rng)));
		}
		else if (k < 96) lines.push_back("");
		else lines.push_back(rng.chance(50) ? " " : "\t ");
	}
	bool crlf = rng.chance(35);
	bool final = rng.chance(70);
	if (avoidLast && !final && !lines.empty())
	{
		const std::string& last = lines.back();
		size_t p = last.find_first_not_of(" \t");
		if (p != std::string::npos && last[p] != '#' && last[p] != ';' && last[0] != '[') final = true;
	}
	if (!avoidBom && rng.chance(15)) t.text = "\xef\xbb\xbf";
	for (size_t i = 0; i < lines.size(); i++)
	{
		t.text += lines[i];
		if (i + 1 < lines.size() || final) t.text += crlf ? "\r\n" : "\n";
	}
	return t;
}

static void apiExecution(Rng& rng, Log& log, const TmpDir& tmp, bool avoidLast, bool avoidBom, bool avoidReadPersist, bool avoidFailedWrite)
{
	IniText t = randomIniText(rng, avoidLast, avoidBom);
	bool exists = !rng.chance(6);
	if (!exists) { t = IniText(); t.anyHeader = t.topKeys = false; }
	std::vector<Entry> known = t.present;                 // names worth asking for
	bool curKnown = !t.anyHeader || t.topKeys;            // plain names address the top section ...
	bool curNamed = false;                                // ... or the section named by section() / arraysize()
	bool otherSecSet = false;                             // a key outside the top section was set: a later file has a header
	const std::string PLAIN(1, '\0');
	ApiSession sess(tmp.path, (unsigned long)rng.below(2));
	size_t logged = 0;
	sess.start(t.text, exists);
	bool sw = !rng.chance(8);
	sess.open(sw);
	bool anySet = false;
	int nops = rng.range(1, 24);
	for (int i = 0; i < nops; i++)
	{
		while (logged < sess.events.size()) log.line(sess.events[logged++]); // (a crash must not lose the events that led to it)
		int k = rng.below(100);
		if (k < 34)
		{
			Entry e;
			int w = rng.below(100);
			if (w < 40 && !known.empty()) e = known[(size_t)rng.below((int)known.size())];
			else if (w < 65 && !t.sections.empty()) { e.sec = t.sections[(size_t)rng.below((int)t.sections.size())]; e.key = ident(rng, false); }
			else if (w < 80 && curKnown) { e.sec = PLAIN; e.key = ident(rng, false); }
			else { e.sec = ident(rng, true); if (e.sec == "-") e.sec = "m"; e.key = ident(rng, false); }
			if (e.key.find(' ') != std::string::npos) continue;
			if (e.sec == "-") e.sec = PLAIN;                                // top-level names are spelled without section
			if (e.sec == PLAIN && !curKnown) continue;
			e.val = value(rng);
			if (rng.chance(10)) e.val = (rng.chance(50) ? " " : "") + e.val + (rng.chance(50) ? "  " : "\t");
			// a new top-level key without value is not persisted; the first top-level entry decides what plain names mean later
			if (e.sec == PLAIN && e.val.find_first_not_of(" \t") == std::string::npos && !t.topKeys) e.val = "0";
			sess.set(e.sec, e.key, e.val);
			anySet = true;
			if (e.sec != PLAIN || curNamed) otherSecSet = true;
			known.push_back(e);
		}
		else if (k < 48)
		{
			Entry e;
			bool missing = !avoidReadPersist && rng.chance(45);
			if (!missing && !known.empty()) e = known[(size_t)rng.below((int)known.size())];
			else if (!missing) continue;
			else if (rng.chance(60) && !t.sections.empty()) { e.sec = t.sections[(size_t)rng.below((int)t.sections.size())]; e.key = ident(rng, false); }
			else { e.sec = ident(rng, true); if (e.sec == "-") e.sec = "m"; e.key = ident(rng, false); }
			if (e.key.find(' ') != std::string::npos) continue;
			if (e.sec == "-") e.sec = PLAIN;
			if (e.sec == PLAIN && !curKnown) continue;
			// (open finding ReadPersisted: only names the original file has under a section are certain to exist whatever happened since)
			if (avoidReadPersist)
			{
				std::vector<Entry> sure;
				for (size_t j = 0; j < t.present.size(); j++) if (t.present[j].sec != "-") sure.push_back(t.present[j]);
				if (sure.empty()) continue;
				e = sure[(size_t)rng.below((int)sure.size())];
			}
			sess.get(e.sec, e.key);
			if (missing) known.push_back(e);
		}
		else if (k < 54 && !t.sections.empty()) { sess.cur(t.sections[(size_t)rng.below((int)t.sections.size())]); curKnown = curNamed = true; }
		else if (k < 58) { sess.asize(rng.chance(70) ? "arr" : ident(rng, true)); curKnown = curNamed = true; }
		else if (k < 62 && curKnown) sess.aget("f", rng.below(4));
		else if (k < 76)
		{
			// the const queries: a sample of the known names, names nobody used, plain names when defined
			std::vector<Entry> probes;
			std::set<std::pair<std::string, std::string> > seen;
			for (size_t j = 0; j < known.size(); j++)
				if (rng.chance(known.size() > 12 ? 40 : 90))
				{
					Entry e = known[j];
					if (e.sec == "-") e.sec = PLAIN;
					if (e.sec == PLAIN && !curKnown) continue;
					if (seen.insert(std::make_pair(e.sec, e.key)).second) probes.push_back(e);
				}
			for (int j = 0; j < 2; j++)
			{
				Entry e;
				e.sec = rng.chance(30) && curKnown ? PLAIN : rng.chance(50) && !t.sections.empty() ? t.sections[(size_t)rng.below((int)t.sections.size())] : "nosuch";
				e.key = rng.chance(50) ? "nokey" : ident(rng, false);
				if (e.key.find(' ') != std::string::npos) continue;
				if (seen.insert(std::make_pair(e.sec, e.key)).second) probes.push_back(e);
			}
			sess.observe(probes);
		}
		else if (k < 82 && sw) sess.write();
		else if (k < 86 && sw && anySet) sess.writeTo();
		else if (k < 90 && !(avoidFailedWrite && anySet)) sess.writeBad();
		else if (k < 100)
		{
			sess.close();
			sw = !rng.chance(8);
			sess.open(sw);
			anySet = false;
			// what plain names mean on the new object: only certain when the top section had entries all along, or no header can exist
			curKnown = t.topKeys || (!t.anyHeader && !otherSecSet);
			curNamed = false;
		}
	}
	while (logged < sess.events.size()) log.line(sess.events[logged++]);
	sess.close();
	while (logged < sess.events.size()) log.line(sess.events[logged++]);
}

// ---- growth: TabularDataFile with options, files of other tools ------------------------------------------------------------
// a string that no dialect takes for a number
static std::string csvString(Rng& rng)
{
	if (rng.chance(12)) return "";
	static const char ALPHA[] = "abcdeXYZ,,;;\t\"\"''   .-5";
	std::string s;
	int n = rng.chance(15) ? rng.range(8, 40) : rng.range(1, 6);
	for (int i = 0; i < n; i++) s += ALPHA[rng.below((int)sizeof(ALPHA) - 1)];
	bool numeric = true;
	for (size_t i = 0; i < s.size(); i++) if (!strchr("0123456789-+.,eE", s[i])) numeric = false;
	if (numeric) s = "a" + s;
	return s;
}

static void csvwExecution(Rng& rng, Log& log, const TmpDir& tmp, bool avoidTiny, bool avoidQuotes, bool avoidLastRow)
{
	WOptions o;
	static const int DIALECT[5][2] = { { ',', '.' }, { ';', ',' }, { '\t', '.' }, { ';', '.' }, { '\t', ',' } };
	int d = rng.chance(40) ? 0 : rng.below(5);
	o.sep = DIALECT[d][0];
	o.dec = DIALECT[d][1];
	o.quotes = !avoidQuotes && rng.chance(25);
	o.flush = rng.chance(50) ? 0 : rng.range(1, 4);
	o.arff = rng.chance(10);
	if (o.arff) { o.sep = ','; o.dec = '.'; }
	int cols = rng.chance(20) ? 1 : rng.range(2, 6);
	bool numericName = !o.arff && rng.chance(12);
	for (int j = 0; j < cols; j++)
	{
		o.names.push_back(numericName && j == rng.below(cols) ? (rng.chance(50) ? "7" : "-3") : std::string(1, (char)('c' + j)) + (rng.chance(30) ? "ol" : ""));
		if (o.arff) o.types.push_back(rng.chance(50) ? "" : rng.chance(60) ? "s" : "x|y");
	}
	std::vector<std::vector<Cell> > rows;
	std::vector<bool> early;
	int nr = rng.chance(10) ? 0 : rng.chance(70) ? rng.range(1, 6) : rng.range(7, 20);
	if (nr == 0 && numericName && avoidLastRow) nr = 1; // (the names alone, read as a row, would be a last row without newline)
	for (int i = 0; i < nr; i++)
	{
		std::vector<Cell> row;
		bool shortRow = cols > 1 && rng.chance(15);
		int n = shortRow ? rng.range(1, cols - 1) : cols;
		for (int j = 0; j < n; j++)
		{
			Cell c = randomCell(rng, avoidTiny);
			if (!c.num) c.s = csvString(rng);
			row.push_back(c);
		}
		rows.push_back(row);
		early.push_back(shortRow);
	}
	bool readable = !o.arff && ((o.sep == ',' && o.dec == '.') || (cols >= 2 && ((o.sep == ';' && o.dec == ',') || (o.sep == '\t' && o.dec == '.'))));
	std::string problem;
	std::string ev = runCsvW(tmp.path + (o.arff ? "/rel" : "/recw"), o, rows, early, readable, (unsigned)rng.below(6), problem);
	if (!problem.empty()) { fprintf(stderr, "%s\n", problem.c_str()); exit(2); }
	log.line("{\"op\":\"reset\"}");
	log.line(ev);
}

static void csvrExecution(Rng& rng, Log& log, const TmpDir& tmp, bool avoidTiny, bool avoidLastRow)
{
	static const int DIALECT[3][2] = { { ',', '.' }, { ';', ',' }, { '\t', '.' } };
	int d = rng.chance(50) ? 0 : rng.below(3);
	char sep = (char)DIALECT[d][0], dec = (char)DIALECT[d][1];
	int cols = rng.chance(15) ? 1 : rng.range(2, 6);
	if (cols == 1) { sep = ','; dec = '.'; }
	std::vector<std::string> lines;
	if (rng.chance(75))
	{
		std::string h;
		for (int j = 0; j < cols; j++) h += std::string(j ? std::string(1, sep) : "") + (char)('c' + j) + (rng.chance(30) ? " x" : "");
		lines.push_back(h);
	}
	else
	{
		// no header line: the first row shows the dialect plainly (numbers and simple words, nothing quoted)
		std::string l;
		for (int j = 0; j < cols; j++)
		{
			if (j) l += sep;
			if (j == 0 || rng.chance(60))
			{
				std::string f = g15((double)rng.range(-999, 999) / (rng.chance(50) ? 1 : 8));
				for (size_t k = 0; k < f.size(); k++) if (f[k] == '.') f[k] = dec;
				l += f;
			}
			else l += rng.chance(50) ? "word" : "X y";
		}
		lines.push_back(l);
	}
	int nr = rng.chance(8) ? 0 : rng.chance(70) ? rng.range(1, 6) : rng.range(7, 25);
	for (int i = 0; i < nr; i++)
	{
		if (rng.chance(5)) { lines.push_back(""); continue; }
		int n = rng.chance(12) ? rng.range(1, cols + 2) : cols;
		std::string l;
		for (int j = 0; j < n; j++)
		{
			if (j) l += sep;
			Cell c = randomCell(rng, avoidTiny);
			std::string f;
			if (c.num) { f = c.s; for (size_t k = 0; k < f.size(); k++) if (f[k] == '.') f[k] = dec; if (rng.chance(10)) f = "\"" + f + "\""; }
			else
			{
				std::string v = csvString(rng);
				bool must = v.find(sep) != std::string::npos || v.find('"') != std::string::npos;
				if (must || rng.chance(20))
				{
					f = "\"";
					for (size_t k = 0; k < v.size(); k++) { f += v[k]; if (v[k] == '"') f += '"'; }
					f += "\"";
				}
				else f = v;
			}
			l += f;
		}
		if (rng.chance(6)) l += sep;
		lines.push_back(l);
	}
	bool crlf = rng.chance(40), final = avoidLastRow || rng.chance(65);
	std::string text = rng.chance(15) ? "\xef\xbb\xbf" : "";
	for (size_t i = 0; i < lines.size(); i++)
	{
		text += lines[i];
		if (i + 1 < lines.size() || final) text += crlf ? "\r\n" : "\n";
	}
	log.line("{\"op\":\"reset\"}");
	log.line(runCsvR(tmp.path + "/recr.csv", text, ""));
}

int main(int argc, char** argv)
{
	Args args(argc, argv);
	Rng rng(args.seed);
	Log log(args.out);
	TmpDir tmp("c18");
	bool avoidLast = args.avoid.count("LastLineNoNewline") > 0;
	bool avoidTiny = args.avoid.count("TinyNumberScale") > 0;
	bool avoidBom = args.avoid.count("BomFirstLine") > 0, avoidReadPersist = args.avoid.count("ReadPersisted") > 0;
	bool avoidQuotes = args.avoid.count("QuotesNotUsed") > 0, avoidLastRow = args.avoid.count("LastRowNoNewline") > 0;
	while (log.lines < args.events)
	{
		// --mode 1: only the growth executions (sessions on one IniFile object, tables written with options, files of other tools)
		int k = rng.below(100);
		if (args.mode == 1) k = 50 + k / 2;
		if (k < 33) iniExecution(rng, log, tmp, avoidLast);
		else if (k < 50) csvExecution(rng, log, tmp, avoidTiny);
		else if (k < 75) apiExecution(rng, log, tmp, avoidLast, avoidBom, avoidReadPersist, args.avoid.count("FailedWriteLines") > 0);
		else if (k < 88) csvwExecution(rng, log, tmp, avoidTiny, avoidQuotes, avoidLastRow);
		else csvrExecution(rng, log, tmp, avoidTiny, avoidLastRow);
	}
	return 0;
}
