// C18 recorder (V): seeded random executions of asl::IniFile and asl::TabularDataFile, one ndjson event per execution
// (preceded by a "reset" line), in the vocabulary of spec/Trace_IniCsv.tla.
//   ini: random texts of up to 40 lines built from section headers, key=value entries (identifier-like keys, optional
//        indentation and blanks around '=', values without leading/trailing blanks that may contain blanks, '=', '#', ';',
//        '[', quotes and bytes >= 128), '#' and ';' comments (also indented, also looking like entries), blank and
//        whitespace-only lines; LF or CR LF; with or without a final newline; then up to 20 set() calls on existing keys,
//        new keys in existing sections, new sections and (where a plain name addresses the top section) plain names;
//        written by write()+destructor, by the destructor, or through operator[]; every key is read back with a fresh
//        IniFile.
//   csv: random tables of up to 30 rows x 8 columns of numbers (1..15 significant digits, exponents mostly -30..30 and sometimes over the whole double range, integers,
//        zero, negative) and strings over letters , ; " ' and blanks.
// Nothing is compared here: TLC decides (IniOK / CsvRows on the logged bytes).
#include "c18_common.h"
#include "vrec.h"
#include <set>

using namespace vrec;
using namespace c18;

static std::string ident(Rng& rng, bool section)
{
	static const char* POOL[] = { "a", "b", "k", "s", "t", "name", "Size", "x1", "long_key_name", "Z", "n0", "path", "u", "v2" };
	if (rng.chance(75)) return POOL[rng.below(14)];
	std::string s;
	int n = rng.range(1, section ? 12 : 9);
	for (int i = 0; i < n; i++)
	{
		int k = rng.below(section ? 64 : 63);
		s += k < 26 ? (char)('a' + k) : k < 52 ? (char)('A' + k - 26) : k < 62 ? (char)('0' + k - 52) : k == 62 ? '_' : ' ';
	}
	if (section) { if (s[0] == ' ') s[0] = 'S'; if (s[s.size() - 1] == ' ') s[s.size() - 1] = 'e'; }
	return s;
}

static std::string value(Rng& rng)
{
	if (rng.chance(12)) return "";
	if (rng.chance(35)) return std::to_string(rng.below(100000));
	static const char ALPHA[] = "abcxyzABC019 =#;[]\"'/\\:.,-+_(){}<>!?*&%$@~|^`";
	std::string s;
	int n = rng.chance(10) ? rng.range(30, 300) : rng.range(1, 14);
	for (int i = 0; i < n; i++) s += rng.chance(4) ? (char)rng.range(128, 255) : ALPHA[rng.below((int)sizeof(ALPHA) - 1)];
	if (s[0] == ' ') s[0] = 'v';
	if (s[s.size() - 1] == ' ') s[s.size() - 1] = 'w';
	return s;
}

static void iniExecution(Rng& rng, Log& log, const TmpDir& tmp, bool avoidLast)
{
	std::vector<std::string> lines;
	std::vector<Entry> present;                   // entries of the text (section, key), in order
	std::set<std::pair<std::string, std::string> > seen;
	std::vector<std::string> sections;
	std::string cur = "-";
	bool anyHeader = false, topKeys = false;
	int nl = rng.chance(10) ? 0 : rng.chance(60) ? rng.range(1, 8) : rng.range(9, 40);
	for (int i = 0; i < nl; i++)
	{
		int k = rng.below(100);
		if (k < 18)
		{
			std::string name = ident(rng, true);
			if (name == "-") name = "m";
			lines.push_back("[" + name + "]" + (rng.chance(4) ? " " : ""));
			cur = name;
			anyHeader = true;
			sections.push_back(name);
		}
		else if (k < 68)
		{
			std::string key = ident(rng, false);
			if (seen.count(std::make_pair(cur, key))) continue; // no duplicate keys within a section
			seen.insert(std::make_pair(cur, key));
			std::string v = value(rng);
			std::string indent = rng.chance(25) ? (rng.chance(50) ? "  " : "\t") : "";
			std::string eq = rng.chance(20) ? " = " : rng.chance(10) ? " =" : rng.chance(10) ? "= " : "=";
			if (v.empty() && eq[eq.size() - 1] == ' ' && rng.chance(50)) eq = "=";
			lines.push_back(indent + key + eq + v);
			Entry e;
			e.sec = cur;
			e.key = key;
			e.val = v;
			present.push_back(e);
			if (cur == "-") topKeys = true;
		}
		else if (k < 84)
		{
			std::string c = rng.chance(50) ? "#" : ";";
			std::string body = rng.chance(30) ? " " + ident(rng, false) + "=" + value(rng) : rng.chance(20) ? "[" + ident(rng, true) + "]" : " " + value(rng);
			lines.push_back((rng.chance(15) ? "  " : "") + c + body);
		}
		else if (k < 96) lines.push_back("");
		else lines.push_back(rng.chance(50) ? " " : "\t ");
	}
	bool crlf = rng.chance(35);
	bool final = rng.chance(60);
	if (avoidLast && !final && !lines.empty())
	{
		// open finding LastLineNoNewline: a last entry line without newline is not generated
		const std::string& last = lines.back();
		size_t p = last.find_first_not_of(" \t");
		if (p != std::string::npos && last[p] != '#' && last[p] != ';' && last[0] != '[') final = true;
	}
	std::string text;
	for (size_t i = 0; i < lines.size(); i++)
	{
		text += lines[i];
		if (i + 1 < lines.size() || final) text += crlf ? "\r\n" : "\n";
	}
	bool plainOK = !anyHeader || topKeys;
	std::vector<Entry> sets;
	int ns = rng.chance(15) ? 0 : rng.chance(60) ? rng.range(1, 4) : rng.range(5, 20);
	std::vector<Entry> queries = present;
	for (int i = 0; i < ns; i++)
	{
		Entry e;
		int k = rng.below(100);
		if (k < 40 && !present.empty()) { e = present[(size_t)rng.below((int)present.size())]; if (e.sec == "-" && !plainOK) continue; }
		else if (k < 50 && !sets.empty()) e = sets[(size_t)rng.below((int)sets.size())];
		else if (k < 75 && !sections.empty()) { e.sec = sections[(size_t)rng.below((int)sections.size())]; e.key = ident(rng, false); }
		else if (k < 85 && plainOK) { e.sec = "-"; e.key = ident(rng, false); }
		else { e.sec = ident(rng, true); if (e.sec == "-") e.sec = "m"; e.key = ident(rng, false); }
		if (e.key.find(' ') != std::string::npos) continue;
		e.val = value(rng);
		// a new key set to "" is not persisted by design; without other top-level entries a plain name would then
		// address another section in the rewritten file
		if (e.sec == "-" && e.val.empty() && !topKeys) e.val = "0";
		sets.push_back(e);
		queries.push_back(e);
	}
	// each key queried once
	std::vector<Entry> q;
	std::set<std::pair<std::string, std::string> > qs;
	for (size_t i = 0; i < queries.size(); i++)
		if (qs.insert(std::make_pair(queries[i].sec, queries[i].key)).second) q.push_back(queries[i]);
	int how = rng.below(4);
	std::string path = tmp.path + "/rec.ini";
	IniResult r = runIni(path, text, sets, q, how);
	unlink(path.c_str());
	if (r.problem.compare(0, 8, "harness:") == 0) { fprintf(stderr, "%s\n", r.problem.c_str()); exit(2); }
	log.line("{\"op\":\"reset\"}");
	log.line(iniEvent(text, sets, r, how));
	if (!r.problem.empty())
	{
		fprintf(stderr, "VREC-FAIL: %s\n", r.problem.c_str());
		fflush(stderr);
		rmTree(tmp.path);
		_exit(3);
	}
}

static Cell randomCell(Rng& rng, bool avoidTiny)
{
	Cell c;
	int k = rng.below(100);
	if (k < 45)
	{
		c.num = true;
		double x;
		int m = rng.below(10);
		if (m == 0) x = 0;
		else if (m < 4) x = rng.range(-1000, 1000);
		else if (m < 6) x = (double)(long long)(rng.next() % 1000000000000000ULL) * (rng.chance(50) ? -1 : 1);
		else
		{
			int nd = rng.range(1, 15);
			std::string t = rng.chance(40) ? "-" : "";
			t += (char)('1' + rng.below(9));
			if (nd > 1) t += ".";
			for (int i = 1; i < nd; i++) t += (char)('0' + rng.below(10));
			// mostly moderate magnitudes; sometimes the whole double range (also subnormal) unless the open finding
			// TinyNumberScale is to be avoided
			int ex = rng.chance(75) ? rng.range(-30, 30) : rng.range(avoidTiny ? -290 : -323, 307);
			t += "e" + std::to_string(ex);
			x = strtod(t.c_str(), 0);
		}
		c.s = g15(x);
		if (c.s == "-0") c.s = "0";
		return c;
	}
	c.num = false;
	if (k < 55) return c; // empty string
	static const char ALPHA[] = "abcdeXYZ,,;;\"\"''   ";
	int n = rng.chance(15) ? rng.range(8, 40) : rng.range(1, 6);
	for (int i = 0; i < n; i++) c.s += ALPHA[rng.below((int)sizeof(ALPHA) - 1)];
	return c;
}

static void csvExecution(Rng& rng, Log& log, const TmpDir& tmp, bool avoidTiny)
{
	int cols = rng.chance(20) ? 1 : rng.range(2, 8);
	int nr = rng.chance(10) ? 0 : rng.chance(70) ? rng.range(1, 6) : rng.range(7, 30);
	std::vector<std::vector<Cell> > rows;
	for (int i = 0; i < nr; i++)
	{
		std::vector<Cell> row;
		for (int j = 0; j < cols; j++) row.push_back(randomCell(rng, avoidTiny));
		rows.push_back(row);
	}
	std::string path = tmp.path + "/rec.csv";
	CsvResult r = runCsv(path, cols, rows, rng.below(4));
	unlink(path.c_str());
	if (r.problem.compare(0, 8, "harness:") == 0) { fprintf(stderr, "%s\n", r.problem.c_str()); exit(2); }
	log.line("{\"op\":\"reset\"}");
	log.line(csvEvent(cols, rows, r));
	if (!r.problem.empty())
	{
		fprintf(stderr, "VREC-FAIL: %s\n", r.problem.c_str());
		fflush(stderr);
		rmTree(tmp.path);
		_exit(3);
	}
}

int main(int argc, char** argv)
{
	Args args(argc, argv);
	Rng rng(args.seed);
	Log log(args.out);
	TmpDir tmp("c18");
	bool avoidLast = args.avoid.count("LastLineNoNewline") > 0;
	bool avoidTiny = args.avoid.count("TinyNumberScale") > 0;
	while (log.lines < args.events)
	{
		if (rng.chance(65)) iniExecution(rng, log, tmp, avoidLast);
		else csvExecution(rng, log, tmp, avoidTiny);
	}
	return 0;
}
