// C07 DOM recorder (V): a seeded random edit script on asl::Xml handles (8 variables; building, sharing, moving and
// removing subtrees, text and attribute edits, navigation, clone, encode -> decode), one ndjson line per public call, plus
//   "check"  the complete projection of the implementation (every node the handles reach, with parent(), and the results
//            of all queries on every handle)
//   "enc"    the text Xml::encode produced for a handle.
// spec/Trace_XmlDom.tla judges every line.  The script only avoids what spec/XmlDom.tla does not generate either
// (cycles, indices out of range, encoding trees with nameless elements); what a call must do is decided by TLC alone.
#include "c07_dom.h"
#include "vrec.h"

using namespace vrec;

static const int NHR = 8;            // handles used
static const int MAXLIVE = 84;       // live nodes (Trace_XmlDom.cfg: MaxNodes = 96)
static const long MAXUNFOLD = 70;    // unfolded size of one handle's tree

static const char* TAGS[] = { "a", "b", "c:d", "_e-1" };
static const char* ANAMES[] = { "k", "x", "y:z" };

static std::string randText(Rng& r)
{
	static const char special[] = "&<>\"' \t\n;#x=/!?-[]";
	int style = r.below(6);
	if (style == 0) { static const char* ws[] = { " ", "\n\t", "  ", "" }; return ws[r.below(4)]; }
	if (style == 1) { static const char* nums[] = { "7", " 42 ", "\n123456\t", "007", " 9" }; return nums[r.below(5)]; }
	std::string s;
	int n = 1 + r.below(10);
	for (int i = 0; i < n; i++)
	{
		int b;
		if (style == 2 || r.chance(20)) b = (unsigned char)special[r.below((int)sizeof special - 1)];
		else if (style == 3) b = 1 + r.below(255);
		else if (r.chance(10)) b = 0x80 + r.below(0x80);
		else b = 'a' + r.below(26);
		s += (char)b;
	}
	return s;
}

static bool namedTree(const Xml& x)
{
	if (x.isText()) return true;
	if (!x.tag().ok()) return false;
	for (int i = 0; i < x.numChildren(); i++)
		if (!namedTree(x.child(i))) return false;
	return true;
}

static bool soleText(const Xml& x)
{
	if (x.isText()) return true;
	for (int i = 0; i < x.numChildren(); i++)
	{
		if (x.child(i).isText() && x.numChildren() != 1) return false;
		if (!soleText(x.child(i))) return false;
	}
	return true;
}

struct Rec
{
	World w;
	Rng& r;
	Log& log;
	bool noParent, noSelf, noEnumEmpty;
	Rec(Rng& rr, Log& l) : r(rr), log(l), noParent(false), noSelf(false), noEnumEmpty(false) {}

	int pickLive(bool elem)
	{
		int c[NHR], n = 0;
		for (int h = 1; h <= NHR; h++)
			if (w.hs[h] && (!elem || !w.hs[h]->isText())) c[n++] = h;
		return n ? c[r.below(n)] : 0;
	}
	int pickDead()
	{
		int c[NHR], n = 0;
		for (int h = 1; h <= NHR; h++)
			if (!w.hs[h]) c[n++] = h;
		return n ? c[r.below(n)] : 0;
	}
	int pickAny() { int g = r.chance(60) ? pickDead() : 0; return g ? g : 1 + r.below(NHR); }
	int liveNodes() { Snapshot s; s.build(w); return (int)s.nodes.size(); }
	long usize(int h) { return unfoldedSize(*w.hs[h], 100000); }

	std::string eqList(int g)
	{
		std::vector<int> v;
		if (w.hs[g])
			for (int x = 1; x <= NHR; x++)
				if (w.hs[x] && *w.hs[x] == *w.hs[g]) v.push_back(x);
		return vj::intlist(v.begin(), v.end());
	}

	void emit(Op& o, bool binds, bool edits)
	{
		std::string s = "{" + ks("op", o.op) + "," + kv("h", o.h) + "," + kv("g", o.g) + "," + kv("i", o.i) + "," + kv("h2", o.h2) + "," + kv("fmt", o.fmt) +
		                ",\"t\":" + vj::codes(o.t) + ",\"x\":" + vj::codes(o.x) + ",\"an\":" + vj::codes(o.an) + ",\"v\":" + vj::codes(o.v);
		if (o.found >= 0) s += "," + kv("found", o.found);
		if (binds) s += ",\"eq\":" + eqList(o.g);
		if (edits && w.live(o.h) && !w.hs[o.h]->isText()) s += "," + kv("len", w.hs[o.h]->numChildren());
		log.line(s + "}");
	}

	bool run(Op& o, bool binds, bool edits)
	{
		std::string err;
		if (!w.apply(o, err)) { fprintf(stderr, "recorder: %s\n", err.c_str()); exit(2); }
		emit(o, binds, edits);
		return true;
	}

	// one random call; false if the chosen call was not applicable (nothing executed, nothing logged)
	bool step()
	{
		int live = liveNodes();
		Op o;
		if (live > MAXLIVE) { o.op = "drop"; o.h = pickLive(false); return o.h && run(o, false, false); }
		int k = r.below(100);
		const std::string tag = TAGS[r.below(r.chance(70) ? 2 : 4)];
		o.t = tag;
		if (k < 8) { o.op = "newElem"; o.g = pickDead(); return o.g && run(o, true, false); }
		if (k < 11) { o.op = "newText"; o.g = pickDead(); o.x = randText(r); return o.g && run(o, true, false); }
		if (k < 15) { o.op = "newVal"; o.g = pickDead(); o.x = randText(r); return o.g && run(o, true, false); }
		if (k < 18) { o.op = "newAttr"; o.g = pickDead(); o.an = ANAMES[r.below(3)]; o.v = randText(r); return o.g && run(o, true, false); }
		if (k < 22)
		{
			o.op = "newKids"; o.g = pickDead(); o.h = pickLive(false); o.h2 = r.chance(50) ? pickLive(false) : 0;
			if (!o.g || !o.h) return false;
			if (usize(o.h) + (o.h2 ? usize(o.h2) : 0) + 1 > MAXUNFOLD) return false;
			return run(o, true, false);
		}
		if (k < 26) { o.op = "copy"; o.h = pickLive(false); o.g = pickDead(); return o.h && o.g && run(o, true, false); }
		if (k < 29)
		{
			o.op = "assign"; o.h = pickLive(false); o.g = pickLive(false);
			if (!o.h || (noSelf && o.g == o.h)) return false;
			return run(o, true, false);
		}
		if (k < 34) { o.op = "drop"; o.h = pickLive(false); return o.h && run(o, false, false); }
		if (k < 42)
		{
			o.op = "child"; o.h = pickLive(true); o.g = pickAny();
			if (!o.h || w.hs[o.h]->numChildren() == 0 || (noSelf && o.g == o.h)) return false;
			o.i = r.below(w.hs[o.h]->numChildren());
			return run(o, true, false);
		}
		if (k < 47)
		{
			if (noParent) return false;
			o.op = "parent"; o.h = pickLive(false); o.g = pickAny();
			return o.h && run(o, true, false);
		}
		if (k < 52)
		{
			o.op = "get"; o.h = pickLive(true); o.g = pickAny();
			if (!o.h) return false;
			o.i = r.below(2 + w.hs[o.h]->count(toStr(tag)));
			if (o.i > w.hs[o.h]->count(toStr(tag))) o.i = w.hs[o.h]->count(toStr(tag));
			return run(o, true, false);
		}
		if (k < 55) { o.op = "findOne"; o.h = pickLive(true); o.g = pickAny(); return o.h && run(o, true, false); }
		if (k < 66)
		{
			o.op = r.chance(70) ? "append" : "insert"; o.h = pickLive(true); o.g = pickLive(false);
			if (!o.h || !o.g) return false;
			if (reaches(*w.hs[o.g], *w.hs[o.h])) return false;                       // would create a cycle
			if (usize(o.h) + usize(o.g) > MAXUNFOLD) return false;
			for (int x = 1; x <= NHR; x++)                                           // h's node may occur below other handles
				if (w.hs[x] && usize(x) + usize(o.g) * 3 > 3 * MAXUNFOLD) return false;
			if (o.op == "insert")
			{
				if (w.hs[o.h]->numChildren() == 0) return false;
				o.i = r.below(w.hs[o.h]->numChildren());
			}
			return run(o, false, true);
		}
		if (k < 71) { o.op = "appendText"; o.h = pickLive(true); o.x = randText(r); return o.h && run(o, false, true); }
		if (k < 75)
		{
			o.op = "removeAt"; o.h = pickLive(true);
			if (!o.h || w.hs[o.h]->numChildren() == 0) return false;
			o.i = r.below(w.hs[o.h]->numChildren());
			return run(o, false, true);
		}
		if (k < 78) { o.op = "removeNode"; o.h = pickLive(true); o.g = pickLive(false); return o.h && o.g && run(o, false, true); }
		if (k < 80) { o.op = "clear"; o.h = pickLive(true); return o.h && run(o, false, true); }
		if (k < 83) { o.op = "putText"; o.h = pickLive(true); o.x = randText(r); return o.h && run(o, false, true); }
		if (k < 87) { o.op = "putNamed"; o.h = pickLive(true); o.x = randText(r); return o.h && usize(o.h) + 2 <= MAXUNFOLD && run(o, false, true); }
		if (k < 91) { o.op = "setAttr"; o.h = pickLive(true); o.an = ANAMES[r.below(3)]; o.v = randText(r); return o.h && run(o, false, true); }
		if (k < 93) { o.op = "removeAttr"; o.h = pickLive(true); o.an = ANAMES[r.below(3)]; return o.h && run(o, false, true); }
		if (k < 95) { o.op = "setTag"; o.h = pickLive(true); return o.h && run(o, false, true); }
		if (k < 97)
		{
			o.op = "clone"; o.h = pickLive(false); o.g = pickDead();
			if (!o.h || !o.g || live + usize(o.h) > MAXLIVE) return false;
			return run(o, true, false);
		}
		o.op = "reparse"; o.h = pickLive(true); o.g = pickDead();
		if (!o.h || !o.g || !namedTree(*w.hs[o.h]) || live + usize(o.h) > MAXLIVE) return false;
		o.fmt = soleText(*w.hs[o.h]) && r.chance(50) ? 1 : 0;
		// the encoder's text first, as its own event
		log.line("{" + ks("op", "enc") + "," + kv("h", o.h) + "," + kv("fmt", o.fmt) + ",\"text\":" + vj::codes(fromStr(Xml::encode(*w.hs[o.h], o.fmt != 0))) + "}");
		return run(o, true, false);
	}

	std::string ids(const Snapshot& s, const std::vector<Xml>& v)
	{
		std::vector<int> r2;
		for (size_t i = 0; i < v.size(); i++) r2.push_back(s.find(v[i]));
		return vj::intlist(r2.begin(), r2.end());
	}

	void check()
	{
		Snapshot s;
		s.build(w);
		std::string out = "{" + ks("op", "check") + ",\"nodes\":[";
		for (size_t n = 0; n < s.nodes.size(); n++)
		{
			const Xml& x = s.nodes[n];
			out += n ? ",{" : "{";
			out += ks("k", x.isText() ? "t" : "e") + ",\"n\":" + vj::codes(fromStr(x.isText() ? x.text() : x.tag())) + ",\"a\":[";
			bool first = true;
			std::vector<int> kids;
			if (!x.isText())
			{
				foreach2(String& k, const String& v, x.attribs())
				{
					out += (first ? "" : ",") + std::string("[") + vj::codes(fromStr(k)) + "," + vj::codes(fromStr(v)) + "]";
					first = false;
				}
				for (int i = 0; i < x.numChildren(); i++) kids.push_back(s.find(x.child(i)));
			}
			out += "],\"c\":" + vj::intlist(kids.begin(), kids.end());
			int p = 9997;                                   // not observed
			if (!noParent)
			{
				Xml par = x.parent();
				p = par.isnull() ? 0 : s.find(par) ? s.find(par) : 9998;
			}
			out += "," + kv("p", p) + "}";
		}
		out += "],\"hs\":[";
		bool firstH = true;
		for (int h = 1; h <= NHR; h++)
		{
			if (!w.hs[h]) continue;
			const Xml& x = *w.hs[h];
			out += firstH ? "{" : ",{";
			firstH = false;
			out += kv("h", h) + "," + kv("id", s.find(x)) + ",\"q\":{\"txt\":" + vj::codes(fromStr(x.text())) + "," + kv("iv", x.value<int>(77)) + ",\"tags\":[";
			for (int j = 0; j < 4 && !x.isText(); j++)
			{
				String t = TAGS[j];
				int cnt = x.count(t);
				std::vector<Xml> sel, kids, all;
				for (int i = 0; i < cnt; i++) sel.push_back(x(t, i));
				Xml miss = x(t, cnt);
				bool enumerated = x.numChildren() > 0 || !noEnumEmpty;
				if (enumerated)
					for (Xml::ChildrenEnumerator e = x.children(t); e && kids.size() < 1000; ++e) kids.push_back(*e);
				Array<Xml> f = x.find(TagIs(t));
				for (int i = 0; i < f.length(); i++) all.push_back(f[i]);
				Xml one = x.findOne(TagIs(t));
				out += (j ? ",{" : "{") + std::string("\"t\":") + vj::codes(TAGS[j]) + "," + kv("cnt", cnt) + ",\"sel\":" + ids(s, sel) + "," + kv("miss", miss ? 0 : 1) +
				       (enumerated ? ",\"kids\":" + ids(s, kids) : std::string()) + ",\"all\":" + ids(s, all) + "," + kv("one", one ? s.find(one) : 0) + "}";
			}
			out += "],\"at\":[";
			for (int j = 0; j < 3 && !x.isText(); j++)
			{
				String an = ANAMES[j];
				out += (j ? ",{" : "{") + std::string("\"an\":") + vj::codes(ANAMES[j]) + "," + kv("has", x.has(an) ? 1 : 0) + ",\"v\":" + vj::codes(fromStr(x[an])) + "}";
			}
			out += "],\"trav\":";
			std::vector<Xml> seen;
			if (!x.isText()) { Xml y = x; y.traverse(Visit(&seen)); }
			out += ids(s, seen) + "}}";
		}
		log.line(out + "]}");
	}
};

int main(int argc, char** argv)
{
	Args args(argc, argv);
	Rng rng(args.seed);
	Log log(args.out);
	Rec rec(rng, log);
	rec.noParent = args.avoid.count("ChildWithoutParent") || args.avoid.count("StaleParent") || args.avoid.count("DanglingParent");
	rec.noSelf = args.avoid.count("AssignFromOwnTree") > 0;
	rec.noEnumEmpty = args.avoid.count("EnumerateNoChildren") > 0;
	log.line("{\"op\":\"reset\"}");
	long since = 0;
	for (long ev = 0; ev < args.events; )
	{
		if (!rec.step()) continue;
		ev++;
		if (++since >= 6 || rng.chance(8) || ev == args.events) { rec.check(); since = 0; ev++; }
	}
	rec.w.clear();
	return 0;
}
