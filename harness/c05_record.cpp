// C05 recorder (V): seeded random Var trees (nulls, booleans, all int boundaries, doubles incl. denormals/+-DBL_MAX/-0,
// floats, NUL-free byte strings with control characters, quotes, backslashes, '/', UTF-8 and non-UTF-8 bytes; keys
// likewise, identifiers for XDL) are encoded by the real Json::encode / Xdl::encode in every mode, decoded again, and
// also written to / read from files (small ones of 1..n bytes, and ones padded so that the 16382-byte read chunk and
// the 16000-byte write flush cut the value's text).  One ndjson line per round trip with (tree, text, decoded);
// spec/Trace_JsonTextEnc.tla decides: the strict recognizer must accept text with value tree (doubles: half-ulp bignum
// test), and decoded must equal tree (bit patterns).  The tree is logged from the recorder's own structure, the text
// byte for byte, the decoded Var through the shared projection; nothing is compared here.
#include "c06_common.h"
#include "vrec.h"
#include <unistd.h>
#include <limits.h>
#include <float.h>
#include <math.h>

using namespace vrec;
using namespace asl;

struct Node
{
	char k; // z b i d f s a o p(padding string)
	int i;
	double d;
	float f;
	std::string s;
	std::vector<Node> a;
	std::vector<std::pair<std::string, Node> > o;
	Node() : k('z'), i(0), d(0), f(0) {}
};

static void logTree(const Node& n, std::string& out)
{
	switch (n.k)
	{
	case 'z': out += "{\"z\":0}"; break;
	case 'b': out += n.i ? "{\"b\":1}" : "{\"b\":0}"; break;
	case 'i': out += "{\"i\":" + jx::intLimbs(n.i) + "}"; break;
	case 'd': out += "{\"d\":" + jx::limbs64(n.d) + "}"; break;
	case 'f': out += "{\"f\":" + jx::limbs32(n.f) + "}"; break;
	case 's': out += "{\"s\":" + vj::codes(n.s) + "}"; break;
	case 'p': out += "{\"p\":[" + std::to_string(n.s.size()) + "," + std::to_string((int)(unsigned char)n.s[0]) + "]}"; break;
	case 'a':
		out += "{\"a\":[";
		for (size_t j = 0; j < n.a.size(); j++) { if (j) out += ","; logTree(n.a[j], out); }
		out += "]}";
		break;
	default:
		out += "{\"o\":[";
		for (size_t j = 0; j < n.o.size(); j++)
		{
			if (j) out += ",";
			out += "[" + vj::codes(n.o[j].first) + ",";
			logTree(n.o[j].second, out);
			out += "]";
		}
		out += "]}";
	}
}

static Var build(const Node& n)
{
	switch (n.k)
	{
	case 'z': return Var(Var::NUL);
	case 'b': return Var(n.i != 0);
	case 'i': return Var(n.i);
	case 'd': return Var(n.d);
	case 'f': return Var(n.f);
	case 's': case 'p': return Var(n.s.c_str());
	case 'a':
	{
		Var v(Var::ARRAY);
		for (size_t j = 0; j < n.a.size(); j++) v << build(n.a[j]);
		return v;
	}
	default:
	{
		Var v(Var::OBJ);
		for (size_t j = 0; j < n.o.size(); j++) v[String(n.o[j].first.c_str())] = build(n.o[j].second);
		return v;
	}
	}
}

struct TreeGen
{
	Rng& r;
	bool identKeys;
	explicit TreeGen(Rng& rr) : r(rr), identKeys(false) {}

	int anInt()
	{
		static const int edge[] = { 0, 1, -1, 9, 10, 99999999, 100000000, 999999999, -999999999, 1000000000, -1000000000,
		                            INT_MAX, INT_MIN, INT_MAX - 1, INT_MIN + 1, 65535, 65536, -65536, 123456789, 1234567890 };
		int k = r.below(100);
		if (k < 30) return edge[r.below((int)(sizeof edge / sizeof edge[0]))];
		if (k < 60) return r.range(-1000, 1000);
		return (int)(uint32_t)r.next();
	}
	double aDouble()
	{
		int k = r.below(100);
		double d;
		if (k < 12)
		{
			static const double edge[] = { 0.0, -0.0, DBL_MAX, -DBL_MAX, DBL_MIN, 4.9406564584124654e-324, 2.2250738585072009e-308,
			                               0.1, 0.2, 0.3, 1.0 / 3, 4.35, 1e15, 1e16, 1e17, 1e21, 1e22, 1e23, 123456789.0, 1234567890.0, 9007199254740992.0,
			                               9007199254740994.0, 1e-5, 1e-4, 0.0001234, 1.7976931348623155e308, 5e-324, 2.5, -6.0, 1e100, 1e-100 };
			return edge[r.below((int)(sizeof edge / sizeof edge[0]))];
		}
		if (k < 40) // decimal-looking
		{
			static const double p10[] = { 1, 10, 100, 1000, 1e4, 1e5, 1e6, 1e7, 1e8 };
			d = (double)(int64_t)(r.next() % 2000000000ULL) / p10[r.below(9)];
			return r.chance(30) ? -d : d;
		}
		if (k < 55) // integers stored as doubles
		{
			d = (double)(int64_t)(r.next() >> r.range(11, 60));
			return r.chance(30) ? -d : d;
		}
		uint64_t u;
		if (k < 85) // moderate exponent, random mantissa
			u = (r.next() & 0x800FFFFFFFFFFFFFULL) | ((uint64_t)r.range(1023 - 70, 1023 + 70) << 52);
		else        // any finite pattern (denormals included)
		{
			u = r.next();
			if (((u >> 52) & 0x7ff) == 0x7ff) u &= ~(1ULL << 62);
			if (r.chance(15)) u &= 0x800FFFFFFFFFFFFFULL; // denormal
		}
		memcpy(&d, &u, 8);
		return d;
	}
	float aFloat()
	{
		int k = r.below(100);
		if (k < 15)
		{
			static const float edge[] = { 0.0f, -0.0f, FLT_MAX, -FLT_MAX, FLT_MIN, 1.4e-45f, 0.1f, 0.3f, 1.5f, 3.0f, 16777216.0f, 1e10f, 1e-10f, 1.0f / 3 };
			return edge[r.below((int)(sizeof edge / sizeof edge[0]))];
		}
		if (k < 40) return (float)r.range(-100000, 100000) / (float)(1 << r.below(8));
		uint32_t u = (uint32_t)r.next();
		if (k < 80) u = (u & 0x807FFFFFu) | ((uint32_t)r.range(127 - 30, 127 + 30) << 23);
		if (((u >> 23) & 0xff) == 0xff) u &= ~(1u << 30);
		float f;
		memcpy(&f, &u, 4);
		return f;
	}
	void utf8(std::string& s, unsigned cp)
	{
		if (cp < 0x80) s += (char)cp;
		else if (cp < 0x800) { s += (char)(0xC0 | (cp >> 6)); s += (char)(0x80 | (cp & 63)); }
		else if (cp < 0x10000) { s += (char)(0xE0 | (cp >> 12)); s += (char)(0x80 | ((cp >> 6) & 63)); s += (char)(0x80 | (cp & 63)); }
		else { s += (char)(0xF0 | (cp >> 18)); s += (char)(0x80 | ((cp >> 12) & 63)); s += (char)(0x80 | ((cp >> 6) & 63)); s += (char)(0x80 | (cp & 63)); }
	}
	std::string bytes(bool allowBad)
	{
		std::string s;
		int k = r.below(100);
		int n = k < 10 ? 0 : k < 50 ? r.range(1, 6) : k < 70 ? r.range(7, 9) : k < 95 ? r.range(10, 30) : r.range(100, 300);
		for (int j = 0; j < n; j++)
		{
			int q = r.below(100);
			if (q < 50) s += (char)r.range('a', 'z');
			else if (q < 62) { static const char sp[] = "\"\\/ *[]{},:=#'\x7f"; s += sp[r.below((int)sizeof sp - 1)]; }
			else if (q < 75) s += (char)r.range(1, 31);
			else if (q < 95 || !allowBad)
			{
				unsigned cp;
				do { cp = r.chance(50) ? (unsigned)r.range(0x80, 0x7ff) : r.chance(70) ? (unsigned)r.range(0x800, 0xffff) : (unsigned)r.range(0x10000, 0x10ffff); } while (cp >= 0xd800 && cp <= 0xdfff);
				utf8(s, cp);
			}
			else s += (char)r.range(128, 255); // not UTF-8 in general
		}
		return s;
	}
	std::string ident(int salt)
	{
		std::string s;
		s += (char)(r.chance(70) ? r.range('a', 'z') : r.chance(50) ? r.range('A', 'Z') : '_');
		int n = r.below(8);
		for (int j = 0; j < n; j++) s += (char)(r.chance(60) ? r.range('a', 'z') : r.chance(50) ? r.range('0', '9') : r.chance(50) ? '_' : r.range('A', 'Z'));
		(void)salt;
		return s;
	}
	Node scalar(bool bad)
	{
		Node n;
		int k = r.below(100);
		if (k < 8) n.k = 'z';
		else if (k < 18) { n.k = 'b'; n.i = r.below(2); }
		else if (k < 38) { n.k = 'i'; n.i = anInt(); }
		else if (k < 62) { n.k = 'd'; n.d = aDouble(); }
		else if (k < 72) { n.k = 'f'; n.f = aFloat(); }
		else { n.k = 's'; n.s = bytes(bad); }
		return n;
	}
	Node tree(int depth, bool bad)
	{
		int k = r.below(100);
		if (depth <= 0 || k < 40) return scalar(bad);
		Node n;
		if (k < 72)
		{
			n.k = 'a';
			int q = r.below(100);
			int m = q < 10 ? 0 : q < 80 ? r.range(1, 5) : q < 95 ? r.range(9, 18) : r.range(30, 60);
			int homog = r.below(100); // < 15: all strings (pretty printer's 100-character rule), < 30: all numbers
			for (int j = 0; j < m; j++)
			{
				if (homog < 15) { Node x; x.k = 's'; x.s = bytes(bad); n.a.push_back(x); }
				else if (homog < 30) { Node x; x.k = r.chance(50) ? 'i' : 'd'; x.i = anInt(); x.d = aDouble(); n.a.push_back(x); }
				else n.a.push_back(tree(depth - 1, bad));
			}
			return n;
		}
		n.k = 'o';
		if (identKeys && r.chance(15)) // a typed object: Name{...} in XDL, an ordinary "$type" member in JSON
		{
			Node cls;
			cls.k = 's';
			do cls.s = ident(0); while (cls.s == "Y" || cls.s == "N" || cls.s == "true" || cls.s == "false" || cls.s == "null"); // not a literal word
			n.o.push_back(std::make_pair(std::string(ASL_XDLCLASS), cls));
		}
		int m = r.chance(10) ? 0 : r.range(1, 5);
		for (int j = 0; j < m; j++)
		{
			std::string key = identKeys ? ident(j) : (r.chance(40) ? ident(j) : bytes(bad));
			bool dup = false;
			for (size_t q = 0; q < n.o.size(); q++) dup = dup || n.o[q].first == key;
			if (dup) continue;
			n.o.push_back(std::make_pair(key, tree(depth - 1, bad)));
		}
		return n;
	}
};

static std::string slurp(const std::string& path)
{
	std::string s;
	FILE* f = fopen(path.c_str(), "rb");
	if (!f) return s;
	char buf[65536];
	size_t n;
	while ((n = fread(buf, 1, sizeof buf, f)) > 0) s.append(buf, n);
	fclose(f);
	return s;
}

struct Rec
{
	Log& log;
	long events;
	explicit Rec(Log& l) : log(l), events(0) {}
	void rt(const char* via, bool json, bool exact, int mode, const Node& tree, const std::string* text, const Var& dec)
	{
		std::string ln = "{\"e\":\"rt\",\"via\":\"" + std::string(via) + "\"," + kv("json", json ? 1 : 0) + "," + kv("exact", exact ? 1 : 0) + "," + kv("mode", mode) + ",\"tree\":";
		logTree(tree, ln);
		if (text) ln += ",\"text\":" + vj::codes(*text);
		ln += ",\"dec\":" + jx::project(dec) + "}";
		log.line(ln);
		events++;
	}
};

int main(int argc, char** argv)
{
	Args args(argc, argv);
	Rng rng(args.seed);
	Log log(args.out);
	TreeGen gen(rng);
	Rec rec(log);
	char name[512];
	std::string dir = args.out.substr(0, args.out.find_last_of('/'));
	snprintf(name, sizeof name, "%s/c05rec-%d.tmp", dir.c_str(), (int)getpid());
	String path(name);
	long round = 0;
	if (args.mode == 1)
	{
		// documents of one to several MB (nested arrays of numbers and strings, so that no level is longer than a few
		// hundred items): the whole text crosses the read-chunk boundary and the write flush hundreds of times
		while (rec.events < args.events)
		{
			log.line("{\"e\":\"reset\"}");
			gen.identKeys = true;
			Node doc;
			doc.k = 'a';
			int rows = rng.range(250, 500);
			for (int i = 0; i < rows; i++)
			{
				Node row;
				row.k = rng.chance(85) ? 'a' : 'o';
				int m = rng.range(150, 300);
				for (int j = 0; j < m; j++)
				{
					Node x = gen.scalar(false);
					if (row.k == 'a') row.a.push_back(x);
					else row.o.push_back(std::make_pair("k" + std::to_string(j) + "_" + gen.ident(j), x)); // distinct by construction
				}
				doc.a.push_back(row);
			}
			Var dv = build(doc);
			bool json = rng.chance(60);
			int mode = rng.chance(50) ? Json::NONE : Json::PRETTY;
			if (json) Json::write(dv, path, Json::Mode(mode)); else Xdl::write(dv, path, mode);
			Var back = json ? Json::read(path) : Xdl::read(path);
			std::string tx = slurp(name);
			rec.rt("hugefile", json, true, mode, doc, json ? &tx : 0, back);
		}
		unlink(name);
		return 0;
	}
	while (rec.events < args.events)
	{
		log.line("{\"e\":\"reset\"}");
		round++;
		gen.identKeys = rng.chance(45);
		bool bad = rng.chance(25); // strings that are not UTF-8
		Node t = gen.tree(rng.range(0, 5), bad);
		Var v = build(t);
		struct M { int mode; bool exact; };
		static const M modes[] = { { Json::NONE, true }, { Json::PRETTY, true }, { Json::SIMPLE, false }, { Json::NICE, false },
		                           { Json::SHORTF, false }, { Json::SHORTF | Json::PRETTY, false }, { Json::SHORTF | Json::NICE, false } };
		for (int m = 0; m < 7; m++)
		{
			if (m >= 2 && !rng.chance(m >= 4 ? 15 : 30)) continue;
			String text = Json::encode(v, Json::Mode(modes[m].mode));
			std::string tx(*text, (size_t)text.length());
			rec.rt("string", true, modes[m].exact, modes[m].mode, t, &tx, Json::decode(text));
			if (gen.identKeys)
			{
				String xt = Xdl::encode(v, modes[m].mode);
				std::string xs(*xt, (size_t)xt.length());
				rec.rt("string", false, modes[m].exact, modes[m].mode, t, &xs, Xdl::decode(xt));
			}
		}
		// files: the value alone (files from 1 byte on) ...
		if (rng.chance(50))
		{
			bool pretty = rng.chance(50);
			Json::write(v, path, pretty ? Json::PRETTY : Json::NONE);
			std::string tx = slurp(name);
			rec.rt("file", true, true, pretty ? Json::PRETTY : Json::NONE, t, &tx, Json::read(path));
			if (gen.identKeys)
			{
				Xdl::write(v, path, pretty ? Json::PRETTY : Json::NONE);
				std::string xs = slurp(name);
				rec.rt("file", false, true, pretty ? Json::PRETTY : Json::NONE, t, &xs, Xdl::read(path));
			}
		}
		// ... and behind / between padding so that the read chunk boundary (16382) and the write flush (16000) fall inside it
		if (round % 6 == 0)
		{
			Node doc;
			doc.k = 'a';
			Node pad;
			pad.k = 'p';
			int L = Json::encode(v).length();
			int target = rng.chance(70) ? 16382 * rng.range(1, 2) : 16000;
			int m = target - 4 - rng.range(-2, L + 2);
			if (m < 1) m = 1;
			pad.s = std::string((size_t)m, (char)rng.range('a', 'z'));
			doc.a.push_back(pad);
			doc.a.push_back(t);
			if (rng.chance(50)) doc.a.push_back(pad);
			Var dv = build(doc);
			bool json = !gen.identKeys || rng.chance(50);
			int mode = rng.chance(50) ? Json::NONE : Json::PRETTY;
			if (json) Json::write(dv, path, Json::Mode(mode)); else Xdl::write(dv, path, mode);
			Var back = json ? Json::read(path) : Xdl::read(path);
			std::string tx = slurp(name);
			rec.rt("bigfile", json, true, mode, doc, tx.size() < 40000 ? &tx : 0, back);
		}
	}
	unlink(name);
	return 0;
}
