// C03 replayer (R): executes on the real asl::String what TLC printed from the specifications
//   spec/ByteString.tla        {"hist":[calls],"exp":[[bytes of var 1],[bytes of var 2],..],"hz":[..],"cmp":c}   mutation histories
//   spec/MC_ByteStringBig.tla  the same, histories that end in large single jumps of strings of 1 KiB and more
//   spec/MC_ByteStringOps.tla  {"k":"ops","s":[..],"pats":[rows],"trimmed":..,"ws":..,"tabs":..,"sub":[..]}     pure operations
//   spec/MC_IntText.tla        {"k":"int","w":32|64,"x":[limbs],"st":[signed text],"ut":[unsigned text]}
//   spec/MC_ByteStringFmt.tla  {"k":"fmt","items":[..],"out":[..],"n0":[..]}                                     printf-style formats
// and compares every result with the specification's value.  After every call each String must have length() equal to
// the offset of its terminating NUL.  String objects live in their own heap blocks (inline storage ends with the block)
// and C-string arguments are copied flush against the end of a block, so AddressSanitizer sees any access outside.
#include <asl/String.h>
#include <asl/Array.h>
#include "vrun.h"
#include <string>
#include <vector>
#include <cstring>
using namespace asl;
using vrun::Outcome;

struct CBuf // NUL-terminated copy, terminator is the last byte of the block
{
	char* p;
	explicit CBuf(const std::string& s) : p((char*)malloc(s.size() + 1)) { memcpy(p, s.data(), s.size()); p[s.size()] = 0; }
	~CBuf() { free(p); }
	operator const char*() const { return p; }
private:
	CBuf(const CBuf&);
	void operator=(const CBuf&);
};

static std::string bytesOf(const String& s) { return std::string(*s, (size_t)s.length()); }
static std::string show(const std::string& s) { return s.size() > 80 ? vj::codes(s.substr(0, 80)) + "...(" + std::to_string(s.size()) + " bytes)" : vj::codes(s); }
static int sgn(int x) { return x < 0 ? -1 : x > 0 ? 1 : 0; }

// length() == offset of the terminating NUL, and the buffer is large enough
static std::string sane(const String& s)
{
	if (s.length() < 0) return "negative length()";
	if (s.cap() <= s.length()) return "cap() " + std::to_string(s.cap()) + " does not exceed length() " + std::to_string(s.length());
	size_t n = strlen(*s);
	if ((int)n != s.length()) return "length() = " + std::to_string(s.length()) + " but the terminating NUL is at offset " + std::to_string(n);
	return "";
}

#define FAIL(...) do { char _b[700]; snprintf(_b, sizeof _b, __VA_ARGS__); res = Outcome::fail("step " + std::to_string(step) + " " + opname + ": " + _b); goto done; } while (0)

// ------------------------------------------------------------------------------------------------------------------
static Outcome doHistory(const vj::Value& c)
{
	const int NVMAX = 8;
	const vj::Value& hist = c["hist"];
	const vj::Value& exp = c["exp"];
	int nv = (int)exp.size();
	String* v[NVMAX + 1];
	for (int i = 0; i <= NVMAX; i++) v[i] = 0;
	for (int i = 1; i <= nv && i <= NVMAX; i++) v[i] = new String();
	Outcome res;
	res.nontrivial = hist.size() >= 2;
	size_t step = 0;
	std::string opname = "init";
	for (step = 0; step < hist.size(); step++)
	{
		const vj::Value& o = hist[step];
		opname = o["op"].s();
		const std::string& op = opname;
		int x = o["x"].i(), y = o["y"].i(), z = o["z"].i(), k = o["k"].i(), i = o["i"].i(), j = o["j"].i(), n = o["n"].i();
		bool alt = (step & 1) != 0; // the two spellings of the same call alternate with the step number
		if (x < 1 || x > nv) FAIL("harness: no variable %d", x);
		String& s = *v[x];
		if (op == "assign")
		{
			CBuf b(o["s"].bytes());
			if (alt) s = String((const char*)b); else s = (const char*)b;
		}
		else if (op == "assignVar") s = *v[y];
		else if (op == "assignPiece") s = *s + k;
		else if (op == "assignSubstring") { if (alt) s = v[y]->substr(i, j - i); else s = v[y]->substring(i, j); }
		else if (op == "assignConcat") s = *v[y] + *v[z];
		else if (op == "assignReplace") { String a((const char*)CBuf(o["a"].bytes())), b((const char*)CBuf(o["b"].bytes())); s = s.replace(a, b); }
		else if (op == "append")
		{
			CBuf b(o["s"].bytes());
			if (alt) s << (const char*)b; else s += (const char*)b;
		}
		else if (op == "appendVar") { if (alt) s << *v[y]; else s += *v[y]; }
		else if (op == "appendPiece") s += *s + k;
		else if (op == "appendChar") { if (alt) s << (char)o["c"].i(); else s += (char)o["c"].i(); }
		else if (op == "appendInt") s << n;
		else if (op == "trim") s.trim();
		else if (op == "replaceme") s.replaceme((char)o["a"].i(), (char)o["b"].i());
		else if (op == "resize")
		{
			int n0 = s.length();
			s.resize(n);
			for (int q = n0; q < n; q++) s[q] = (char)o["c"].i(); // the grown part is the caller's to write
		}
		else if (op == "assignRepeat")
		{
			// copy assignment into the existing buffer (resize(n, false)); the other spelling moves the temporary in
			if (alt) s = String::repeat((char)o["c"].i(), n);
			else { String t = String::repeat((char)o["c"].i(), n); s = t; }
		}
		else if (op == "appendRepeat")
		{
			String t = String::repeat((char)o["c"].i(), n);
			if (step % 3 == 0) s += t; else if (step % 3 == 1) s << t; else s.append(*t, n);
		}
		else if (op == "assignN") { CBuf b(o["s"].bytes()); s.assign((const char*)b, n); }
		else if (op == "appendN") { CBuf b(o["s"].bytes()); s.append((const char*)b, n); }
		else if (op == "reserve") s.resize(n, true, false);
		else if (op == "clear") s.clear();
		else if (op == "fixAt") { s.data()[k] = 0; s.fix(); }
		else if (op == "splitJoin") { String sep((const char*)CBuf(o["a"].bytes())); s = s.split(sep).join(sep); }
		else FAIL("harness: unknown op");
		for (int q = 1; q <= nv; q++)
		{
			std::string m = sane(*v[q]);
			if (!m.empty()) FAIL("variable %d: %s", q, m.c_str());
		}
	}
	opname = "final";
	for (int q = 1; q <= nv; q++)
	{
		std::string want = exp[(size_t)q - 1].bytes();
		std::string got = bytesOf(*v[q]);
		if (got != want) FAIL("variable %d is %s, specification: %s", q, show(got).c_str(), show(want).c_str());
	}
	if (nv >= 2)
	{
		int cmp = c["cmp"].i();
		if (sgn(v[1]->compare(*v[2])) != cmp) FAIL("compare() = %d, specification: %d", v[1]->compare(*v[2]), cmp);
		if ((*v[1] == *v[2]) != (cmp == 0) || (*v[1] != *v[2]) != (cmp != 0)) FAIL("== / != disagree with the specification's comparison %d", cmp);
		if ((*v[1] < *v[2]) != (cmp < 0)) FAIL("operator< disagrees with the specification's comparison %d", cmp);
	}
done:
	for (int i = 1; i <= NVMAX; i++) delete v[i];
	return res;
}

// ------------------------------------------------------------------------------------------------------------------
#define CHK(cond, ...) do { if (!(cond)) { char _b[900]; snprintf(_b, sizeof _b, __VA_ARGS__); return Outcome::fail(std::string("s=") + show(sb) + ": " + _b); } } while (0)

static Outcome doOps(const vj::Value& c)
{
	std::string sb = c["s"].bytes();
	CBuf sbuf(sb);
	String* ps = new String((const char*)sbuf);
	struct Del { String* p; ~Del() { delete p; } } del = { ps };
	const String& S = *ps;
	int len = (int)sb.size();
	CHK(sane(S).empty(), "%s", sane(S).c_str());
	CHK(bytesOf(S) == sb, "construction from a C string gives %s", show(bytesOf(S)).c_str());
	{
		String t(sbuf, len), u = S, w = String::repeat('q', len);
		CHK(bytesOf(t) == sb && bytesOf(u) == sb && w.length() == len && sane(w).empty(), "String(const char*, n) / copy / repeat");
	}
	const vj::Value& pats = c["pats"];
	for (size_t pi = 0; pi < pats.size(); pi++)
	{
		const vj::Value& r = pats[pi];
		std::string pb = r["p"].bytes();
		CBuf pbuf(pb);
		String P((const char*)pbuf);
		const vj::Value& from = r["from"];
		for (int i0 = 0; i0 <= len; i0++)
		{
			int want = from[(size_t)i0].i();
			CHK(S.indexOf(P, i0) == want, "indexOf(%s, %d) = %d, specification: %d", show(pb).c_str(), i0, S.indexOf(P, i0), want);
			CHK(S.indexOf((const char*)pbuf, i0) == want, "indexOf(const char* %s, %d) = %d, specification: %d", show(pb).c_str(), i0, S.indexOf((const char*)pbuf, i0), want);
		}
		CHK(S.lastIndexOf((const char*)pbuf) == r["last"].i(), "lastIndexOf(%s) = %d, specification: %d", show(pb).c_str(), S.lastIndexOf((const char*)pbuf), r["last"].i());
		CHK(S.indexOf(pb[0]) == r["ic"].i(), "indexOf(char %d) = %d, specification: %d", pb[0], S.indexOf(pb[0]), r["ic"].i());
		CHK(S.lastIndexOf(pb[0]) == r["lc"].i(), "lastIndexOf(char %d) = %d, specification: %d", pb[0], S.lastIndexOf(pb[0]), r["lc"].i());
		CHK(S.startsWith(P) == r["sw"].b && S.startsWith((const char*)pbuf) == r["sw"].b, "startsWith(%s), specification: %d", show(pb).c_str(), (int)r["sw"].b);
		CHK(S.endsWith(P) == r["ew"].b && S.endsWith((const char*)pbuf) == r["ew"].b, "endsWith(%s), specification: %d", show(pb).c_str(), (int)r["ew"].b);
		CHK(S.contains(P) == r["has"].b && S.contains((const char*)pbuf) == r["has"].b, "contains(%s), specification: %d", show(pb).c_str(), (int)r["has"].b);
		if (pb.size() == 1)
		{
			CHK(S.contains(pb[0]) == r["has"].b, "contains(char)");
			CHK(S.endsWith(pb[0]) == r["ew"].b, "endsWith(char)");
			if (len > 0) CHK(S.startsWith(pb[0]) == r["sw"].b, "startsWith(char)");
		}
		{
			Array<String> parts = S.split(P);
			const vj::Value& want = r["parts"];
			CHK(parts.length() == (int)want.size(), "split(%s) gives %d parts, specification: %d", show(pb).c_str(), parts.length(), (int)want.size());
			for (int q = 0; q < parts.length(); q++)
			{
				CHK(sane(parts[q]).empty(), "split part %d: %s", q, sane(parts[q]).c_str());
				CHK(bytesOf(parts[q]) == want[(size_t)q].bytes(), "split(%s) part %d is %s", show(pb).c_str(), q, show(bytesOf(parts[q])).c_str());
			}
			String back = parts.join(P);
			CHK(sane(back).empty() && bytesOf(back) == sb, "split(%s) then join gives %s", show(pb).c_str(), show(bytesOf(back)).c_str());
		}
		const vj::Value& rep = r["rep"];
		for (size_t q = 0; q < rep.size(); q++)
		{
			std::string bb = rep[q]["b"].bytes();
			CBuf bbuf(bb);
			String B((const char*)bbuf);
			String out = S.replace(P, B);
			CHK(sane(out).empty(), "replace result: %s", sane(out).c_str());
			CHK(bytesOf(out) == rep[q]["r"].bytes(), "replace(%s, %s) = %s, specification: %s", show(pb).c_str(), show(bb).c_str(), show(bytesOf(out)).c_str(), show(rep[q]["r"].bytes()).c_str());
		}
		{
			String t = S;
			t.replaceme(pb[0], (char)(pb[pb.size() - 1] + 1));
			CHK(sane(t).empty() && bytesOf(t) == r["rc"].bytes(), "replaceme(%d, %d) = %s", pb[0], pb[pb.size() - 1] + 1, show(bytesOf(t)).c_str());
		}
		CHK(sgn(S.compare(P)) == r["cmp"].i() && sgn(S.compare((const char*)pbuf)) == r["cmp"].i(), "compare(%s) = %d, specification: %d", show(pb).c_str(), S.compare(P), r["cmp"].i());
		CHK((S == P) == (r["cmp"].i() == 0) && (S == (const char*)pbuf) == (r["cmp"].i() == 0) && (S < P) == (r["cmp"].i() < 0), "==/< with %s", show(pb).c_str());
		{
			String sx = S + P, sh = S + (char)200;
			CHK(sane(sx).empty() && bytesOf(sx) == r["cat"].bytes(), "s + %s = %s", show(pb).c_str(), show(bytesOf(sx)).c_str());
			String sy = S + (const char*)pbuf, sp = (const char*)pbuf + S, sq = S.concat(pbuf, (int)pb.size());
			CHK(bytesOf(sy) == r["cat"].bytes() && bytesOf(sq) == r["cat"].bytes(), "s + (const char*)%s / concat()", show(pb).c_str());
			CHK(sane(sp).empty() && bytesOf(sp) == r["pre"].bytes(), "(const char*)%s + s = %s", show(pb).c_str(), show(bytesOf(sp)).c_str());
			if (pb.size() == 1)
			{
				String c1 = pb[0] + S, c2 = S + pb[0];
				CHK(bytesOf(c1) == r["pre"].bytes() && bytesOf(c2) == r["cat"].bytes(), "char + s / s + char");
			}
			CHK(sgn(S.compare(sx)) == r["cmpx"].i(), "compare(s, s+p) = %d, specification: %d", S.compare(sx), r["cmpx"].i());
			CHK(sgn(sh.compare(sx)) == r["cmph"].i() && (sh < sx) == (r["cmph"].i() < 0), "compare(s+\\xC8, s+%s) = %d, specification: %d (bytes compare as unsigned)", show(pb).c_str(), sh.compare(sx), r["cmph"].i());
		}
	}
	{
		String t = S.trimmed(), u = S;
		u.trim();
		CHK(sane(t).empty() && sane(u).empty(), "trim result");
		CHK(bytesOf(t) == c["trimmed"].bytes(), "trimmed() = %s, specification: %s", show(bytesOf(t)).c_str(), show(c["trimmed"].bytes()).c_str());
		CHK(bytesOf(u) == c["trimmed"].bytes(), "trim() = %s, specification: %s", show(bytesOf(u)).c_str(), show(c["trimmed"].bytes()).c_str());
		String w = S;
		for (int i = 0; i < len; i++) if (w[i] == ' ') w[i] = ((i + 1) % 2 == 0) ? '\t' : '\n';
		String wt = w.trimmed();
		CHK(bytesOf(wt) == c["tabs"].bytes(), "trimmed() with tabs/newlines = %s, specification: %s", show(bytesOf(wt)).c_str(), show(c["tabs"].bytes()).c_str());
		Array<String> ws = S.split();
		const vj::Value& want = c["ws"];
		CHK(ws.length() == (int)want.size(), "split() gives %d words, specification: %d", ws.length(), (int)want.size());
		for (int q = 0; q < ws.length(); q++)
			CHK(sane(ws[q]).empty() && bytesOf(ws[q]) == want[(size_t)q].bytes(), "split() word %d is %s", q, show(bytesOf(ws[q])).c_str());
	}
	const vj::Value& sub = c["sub"];
	for (size_t q = 0; q < sub.size(); q++)
	{
		int i = sub[q]["i"].i(), j = sub[q]["j"].i();
		String a = S.substring(i, j);
		CHK(sane(a).empty() && bytesOf(a) == sub[q]["r"].bytes(), "substring(%d, %d) = %s", i, j, show(bytesOf(a)).c_str());
		if (j == len) { String a2 = S.substring(i); CHK(bytesOf(a2) == sub[q]["r"].bytes(), "substring(%d) = %s", i, show(bytesOf(a2)).c_str()); }
		String b = S.substr(i - len, j - i);
		CHK(sane(b).empty() && bytesOf(b) == sub[q]["q"].bytes(), "substr(%d, %d) = %s, specification: %s", i - len, j - i, show(bytesOf(b)).c_str(), show(sub[q]["q"].bytes()).c_str());
		String d = S.substr(i, j + 3);
		CHK(sane(d).empty() && bytesOf(d) == sub[q]["o"].bytes(), "substr(%d, %d) = %s, specification: %s", i, j + 3, show(bytesOf(d)).c_str(), show(sub[q]["o"].bytes()).c_str());
	}
	Outcome res;
	res.nontrivial = len > 0;
	return res;
}

// ------------------------------------------------------------------------------------------------------------------
#undef CHK
#define CHK(cond, ...) do { if (!(cond)) { char _b[600]; snprintf(_b, sizeof _b, __VA_ARGS__); return Outcome::fail(std::string("limbs ") + vj::intlist(limbs.begin(), limbs.end()) + ": " + _b); } } while (0)

static Outcome doInt(const vj::Value& c)
{
	std::vector<int> limbs = c["x"].ints();
	std::string st = c["st"].bytes(), ut = c["ut"].bytes();
	unsigned long long bits = 0;
	for (size_t i = 0; i < limbs.size(); i++) bits = (bits << 16) | (unsigned)limbs[i];
	CBuf sbuf(st), ubuf(ut);
	if (c["w"].i() == 32)
	{
		int xi = (int)(unsigned)bits;
		unsigned xu = (unsigned)bits;
		String a(xi), b(xu);
		CHK(sane(a).empty() && sane(b).empty(), "String(int)/String(unsigned): %s%s", sane(a).c_str(), sane(b).c_str());
		CHK(bytesOf(a) == st, "String(int %d) = \"%s\", specification: \"%s\"", xi, *a, st.c_str());
		CHK(bytesOf(b) == ut, "String(unsigned %u) = \"%s\", specification: \"%s\"", xu, *b, ut.c_str());
		String ps((const char*)sbuf), pu((const char*)ubuf);
		CHK((int)ps == xi, "(int)String(\"%s\") = %d", st.c_str(), (int)ps);
		CHK(ps.toInt() == xi, "String(\"%s\").toInt() = %d", st.c_str(), ps.toInt());
		CHK((unsigned)pu == xu, "(unsigned)String(\"%s\") = %u", ut.c_str(), (unsigned)pu);
		CHK((int)(Long)ps == xi && (Long)ps == (Long)xi, "(Long)String(\"%s\") = %lld", st.c_str(), (long long)(Long)ps);
		String app("n=");
		app << xi;
		CHK(bytesOf(app) == "n=" + st, "operator<<(int) gives \"%s\"", *app);
		String f1 = String::f("%i", xi), f2 = String::f("%u", xu), f3(0, "%d", xi);
		CHK(bytesOf(f1) == st && bytesOf(f3) == st && bytesOf(f2) == ut, "formatting %%i/%%u/%%d gives \"%s\" \"%s\" \"%s\"", *f1, *f2, *f3);
	}
	else
	{
		Long xl = (Long)bits;
		ULong xu = (ULong)bits;
		String a(xl), b(xu);
		CHK(sane(a).empty() && sane(b).empty(), "String(Long)/String(ULong): %s%s", sane(a).c_str(), sane(b).c_str());
		CHK(bytesOf(a) == st, "String(Long %lld) = %s, specification: \"%s\"", (long long)xl, show(bytesOf(a)).c_str(), st.c_str());
		CHK(bytesOf(b) == ut, "String(ULong %llu) = \"%s\", specification: \"%s\"", (unsigned long long)xu, *b, ut.c_str());
		String ps((const char*)sbuf), pu((const char*)ubuf);
		CHK((Long)ps == xl && ps.toLong() == xl, "(Long)String(\"%s\") = %lld", st.c_str(), (long long)(Long)ps);
		// there is no conversion to ULong: the way back is through the 64-bit signed conversion (same bit pattern)
		CHK((ULong)pu.toLong() == xu, "(ULong)String(\"%s\").toLong() = %llu", ut.c_str(), (unsigned long long)(ULong)pu.toLong());
		String app;
		app << xl;
		CHK(bytesOf(app) == st, "operator<<(Long) gives \"%s\"", *app);
	}
	return Outcome();
}

// ------------------------------------------------------------------------------------------------------------------
struct FArg { bool isStr; int i; const char* s; };

#define I(k) a[k].i
#define Z(k) a[k].s
#define DISPATCH(CALL) \
	switch ((int)a.size() * 8 + mask) { \
	case 0: CALL(fmt); break; \
	case 8: CALL(fmt, I(0)); break; case 9: CALL(fmt, Z(0)); break; \
	case 16: CALL(fmt, I(0), I(1)); break; case 17: CALL(fmt, Z(0), I(1)); break; case 18: CALL(fmt, I(0), Z(1)); break; case 19: CALL(fmt, Z(0), Z(1)); break; \
	case 24: CALL(fmt, I(0), I(1), I(2)); break; case 25: CALL(fmt, Z(0), I(1), I(2)); break; case 26: CALL(fmt, I(0), Z(1), I(2)); break; case 27: CALL(fmt, Z(0), Z(1), I(2)); break; \
	case 28: CALL(fmt, I(0), I(1), Z(2)); break; case 29: CALL(fmt, Z(0), I(1), Z(2)); break; case 30: CALL(fmt, I(0), Z(1), Z(2)); break; case 31: CALL(fmt, Z(0), Z(1), Z(2)); break; \
	default: return Outcome::fail("harness: more than 3 arguments"); }

static Outcome doFmt(const vj::Value& c)
{
	const vj::Value& items = c["items"];
	std::string fs;
	std::vector<FArg> a;
	std::vector<CBuf*> keep;
	int mask = 0;
	for (size_t k = 0; k < items.size(); k++)
	{
		const vj::Value& it = items[k];
		const std::string& t = it["t"].s();
		if (t == "lit") { fs += it["s"].bytes(); continue; }
		if (t == "pct") { fs += "%%"; continue; }
		fs += "%" + it["f"].s();
		if (it["w"].i() > 0) fs += std::to_string(it["w"].i());
		fs += t;
		FArg g = { false, 0, 0 };
		if (t == "s")
		{
			keep.push_back(new CBuf(it["s"].bytes()));
			g.isStr = true;
			g.s = *keep.back();
			mask |= 1 << a.size();
		}
		else g.i = it["n"].i();
		a.push_back(g);
	}
	std::string want = c["out"].bytes();
	CBuf fbuf(fs);
	const char* fmt = fbuf;
	Outcome res;
	res.nontrivial = items.size() >= 2;
	std::string m;
	{
		String r;
#define CALLF(...) r = String::f(__VA_ARGS__)
		DISPATCH(CALLF)
		m = sane(r);
		if (m.empty() && bytesOf(r) != want) m = "gives " + show(bytesOf(r)) + ", specification: " + show(want);
		if (!m.empty()) m = "String::f(\"" + fs + "\") " + m;
	}
	const vj::Value& n0 = c["n0"];
	for (size_t q = 0; q < n0.size() && m.empty(); q++)
	{
		int n = n0[q].i();
		String* r = 0;
#define CALLC(...) r = new String(n, __VA_ARGS__)
		DISPATCH(CALLC)
		m = sane(*r);
		if (m.empty() && bytesOf(*r) != want) m = "gives " + show(bytesOf(*r)) + ", specification: " + show(want);
		if (!m.empty()) m = "String(" + std::to_string(n) + ", \"" + fs + "\") " + m;
		delete r;
	}
	for (size_t k = 0; k < keep.size(); k++) delete keep[k];
	if (!m.empty()) return Outcome::fail(m);
	return res;
}

static Outcome runCase(const vj::Value& c)
{
	if (c.has("hist")) return doHistory(c);
	const std::string& k = c["k"].s();
	if (k == "ops") return doOps(c);
	if (k == "int") return doInt(c);
	if (k == "fmt") return doFmt(c);
	return Outcome::fail("harness: unknown case kind");
}

int main(int argc, char** argv) { return vrun::run(argc, argv, runCase); }
