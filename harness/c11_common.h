// C11 harness helpers: the library's WebSocket object is attached to one end of a socketpair through the public
// constructor WebSocket(const Socket&, bool isclient); the other end is fed / drained by a plain pthread (c09::Pump).
// No server threads are used.  Trusted helpers that are not derived from the specification (DESIGN.md 11): expansion of
// a payload descriptor (len, seed) into bytes with the formula of WsFrame!PayloadByte, masking of such a payload with the
// key the specification supplies, a 64-bit FNV hash.
#ifndef C11_COMMON_H
#define C11_COMMON_H
#include "c09_common.h"
#include <asl/WebSocket.h>
#include <netinet/in.h>
#include <arpa/inet.h>
#include <new>

namespace c11 {

using namespace asl;
using c09::Pump;
using c09::nowSec;

inline unsigned char payloadByte(long seed, long i) { return (unsigned char)((seed + 31 * i + 7 * (i / 256)) % 256); }

inline void expand(std::string& out, long len, long seed)
{
	size_t o = out.size();
	out.resize(o + (size_t)len);
	for (long i = 0; i < len; i++) out[o + (size_t)i] = (char)payloadByte(seed, i);
}

inline unsigned long long fnv64(const unsigned char* p, size_t n)
{
	unsigned long long h = 1469598103934665603ULL;
	for (size_t i = 0; i < n; i++) { h ^= p[i]; h *= 1099511628211ULL; }
	return h;
}

struct Received
{
	std::vector<std::string> msgs; // non-empty messages returned by receive(), in order
	bool negative;                 // a message of negative length was returned
	bool badAlloc;                 // receive() threw std::bad_alloc (absurd length refused by the allocator)
	bool runaway;                  // the receive loop did not end
	int calls;
	Received() : negative(false), badAlloc(false), runaway(false), calls(0) {}
};

// the documented receive loop: while (!ws.closed()) { msg = ws.receive(); ... }
inline void receiveAll(WebSocket& ws, Received& r, int maxCalls = 200)
{
	try
	{
		while (!ws.closed())
		{
			if (++r.calls > maxCalls) { r.runaway = true; break; }
			WebSocketMsg m = ws.receive();
			int n = m.length();
			if (n < 0) { r.negative = true; break; }
			if (n > 0) r.msgs.push_back(std::string(*m, (size_t)n));
		}
	}
	catch (std::bad_alloc&)
	{
		r.badAlloc = true;
	}
}

struct Link
{
	int sv[2];
	Pump pump;
	pthread_t th;
	std::string input;
	bool started;
	Link() : started(false) { sv[0] = sv[1] = -1; }
	// bytes the raw peer sends; small inputs are written (and the sending side shut down) before the library looks
	void open(const std::string& in, bool closeAfter = true, size_t piece = 0)
	{
		input = in;
		if (socketpair(AF_UNIX, SOCK_STREAM, 0, sv) != 0) { perror("socketpair"); _exit(2); }
		pump.fd = sv[0];
		pump.in = &input;
		pump.piece = piece;
		pump.pauseUs = 0;
		pump.keepOpen = !closeAfter;
		pump.off0 = 0;
		pump.preclosed = false;
		if (piece == 0 && input.size() <= 60000)
		{
			if (!input.empty() && send(sv[0], input.data(), input.size(), MSG_NOSIGNAL) != (ssize_t)input.size()) { perror("send"); _exit(2); }
			pump.off0 = input.size();
			if (closeAfter) { shutdown(sv[0], SHUT_WR); pump.preclosed = true; }
		}
		if (pthread_create(&th, 0, Pump::run, &pump) != 0) { perror("pthread_create"); _exit(2); }
		started = true;
	}
	int libFd() const { return sv[1]; }
	// to be called after the library side has closed its socket: returns what the library wrote
	std::string& finish()
	{
		if (started)
		{
			pthread_join(th, 0);
			close(sv[0]);
			started = false;
		}
		return pump.out;
	}
};

}
#endif
