// Shared by the C07 DOM harnesses (replayer c07_dom_replay.cpp, recorder c07_dom_record.cpp): a set of Xml handles, the
// execution of one public call of the editing API of asl::Xml described by an Op (the actions of spec/XmlDom.tla), and a
// snapshot of everything the handles reach (node identity = the handle comparison of the API, operator==).
// Nothing here knows what a call should do: expected states and values come from TLC (XmlDom.tla).
#ifndef C07_DOM_H
#define C07_DOM_H
#include "c07_common.h"
#include <asl/Array.h>
#include <map>
#include <set>

#define DOM_NH 12

struct Op
{
	std::string op;
	int h, g, i, h2, fmt;
	std::string t, x, an, v;
	int found;       // result reported by the call (get / findOne: 1 = a valid element came back), -1: none
	Op() : h(0), g(0), i(0), h2(0), fmt(0), found(-1) {}
};

struct TagIs
{
	String t;
	TagIs(const String& s) : t(s) {}
	bool operator()(const Xml& e) const { return e.tag() == t; }
};

struct Visit
{
	std::vector<Xml>* out;
	Visit(std::vector<Xml>* o) : out(o) {}
	void operator()(const Xml& e) const { out->push_back(e); }
};

struct World
{
	Xml* hs[DOM_NH + 1];
	World() { for (int i = 0; i <= DOM_NH; i++) hs[i] = 0; }
	~World() { clear(); }
	void clear() { for (int i = 0; i <= DOM_NH; i++) { delete hs[i]; hs[i] = 0; } }
	bool live(int h) const { return h >= 1 && h <= DOM_NH && hs[h] != 0; }
	// binds handle g to the value of an expression: assignment if the variable exists, construction if not;
	// a null object (parent() of a root) leaves the variable without a node
	void bind(int g, const Xml& v)
	{
		if (hs[g]) *hs[g] = v; else hs[g] = new Xml(v);
		if (hs[g]->isnull()) { delete hs[g]; hs[g] = 0; }
	}

	// executes the call; false + err if the descriptor cannot be executed (harness error, not a finding)
	bool apply(Op& o, std::string& err)
	{
		const std::string& op = o.op;
		bool needH = !(op == "newElem" || op == "newText" || op == "newVal" || op == "newAttr");
		if (needH && !live(o.h)) { err = "handle h not live in " + op; return false; }
		if (op == "newElem") bind(o.g, Xml(toStr(o.t)));
		else if (op == "newText") bind(o.g, XmlText(toStr(o.x)));
		else if (op == "newVal") bind(o.g, Xml(toStr(o.t), toStr(o.x)));
		else if (op == "newAttr") bind(o.g, Xml(toStr(o.t), Map<>(toStr(o.an), toStr(o.v))));
		else if (op == "newKids")
		{
			Array<Xml> kids;
			kids << *hs[o.h];
			if (o.h2) { if (!live(o.h2)) { err = "h2 not live"; return false; } kids << *hs[o.h2]; }
			bind(o.g, Xml(toStr(o.t), kids));
		}
		else if (op == "copy") { if (hs[o.g]) { err = "copy: g live"; return false; } hs[o.g] = new Xml(*hs[o.h]); }
		else if (op == "assign") { if (!live(o.g)) { err = "assign: g dead"; return false; } *hs[o.g] = *hs[o.h]; }
		else if (op == "drop") { delete hs[o.h]; hs[o.h] = 0; }
		else if (op == "child")
		{
			// child() returns a reference into the child array of h's node: assign it as user code would
			if (hs[o.g]) *hs[o.g] = hs[o.h]->child(o.i); else hs[o.g] = new Xml(hs[o.h]->child(o.i));
		}
		else if (op == "parent") bind(o.g, hs[o.h]->parent());
		else if (op == "get")
		{
			Xml r = (*hs[o.h])(toStr(o.t), o.i);
			o.found = r ? 1 : 0;
			bind(o.g, r);
		}
		else if (op == "findOne")
		{
			Xml r = hs[o.h]->findOne(TagIs(toStr(o.t)));
			o.found = r ? 1 : 0;
			bind(o.g, r);
		}
		else if (op == "append") { if (!live(o.g)) { err = "append: g dead"; return false; } *hs[o.h] << *hs[o.g]; }
		else if (op == "insert") { if (!live(o.g)) { err = "insert: g dead"; return false; } hs[o.h]->insert(o.i, *hs[o.g]); }
		else if (op == "appendText") *hs[o.h] << toStr(o.x);
		else if (op == "removeAt") hs[o.h]->remove(o.i);
		else if (op == "removeNode") { if (!live(o.g)) { err = "removeNode: g dead"; return false; } hs[o.h]->remove(*hs[o.g]); }
		else if (op == "clear") hs[o.h]->clear();
		else if (op == "putText") hs[o.h]->put(toStr(o.x));
		else if (op == "putNamed") hs[o.h]->put(toStr(o.t), toStr(o.x));
		else if (op == "setAttr") hs[o.h]->setAttr(toStr(o.an), toStr(o.v));
		else if (op == "removeAttr") hs[o.h]->removeAttr(toStr(o.an));
		else if (op == "setTag") hs[o.h]->setTag(toStr(o.t));
		else if (op == "clone") bind(o.g, hs[o.h]->clone());
		else if (op == "reparse") bind(o.g, Xml::decode(Xml::encode(*hs[o.h], o.fmt != 0)));
		else { err = "unknown op " + op; return false; }
		return true;
	}
};

// every node the handles reach, each once, in the order of discovery (document order from handle 1, 2, ...);
// identity is decided with the API's handle comparison
struct Snapshot
{
	std::vector<Xml> nodes;
	int find(const Xml& x) const
	{
		for (size_t i = 0; i < nodes.size(); i++)
			if (nodes[i] == x) return (int)i + 1;
		return 0;
	}
	int add(const Xml& x)
	{
		int id = find(x);
		if (id) return id;
		nodes.push_back(x);
		id = (int)nodes.size();
		if (!x.isText())
			for (int i = 0; i < x.numChildren(); i++) add(x.child(i));
		return id;
	}
	void build(const World& w)
	{
		for (int h = 1; h <= DOM_NH; h++)
			if (w.hs[h]) add(*w.hs[h]);
	}
};

static inline long unfoldedSize(const Xml& x, long limit)
{
	long n = 1;
	if (x.isText()) return n;
	for (int i = 0; i < x.numChildren() && n <= limit; i++) n += unfoldedSize(x.child(i), limit - n);
	return n;
}

static inline bool reaches(const Xml& from, const Xml& target)
{
	if (from == target) return true;
	if (from.isText()) return false;
	for (int i = 0; i < from.numChildren(); i++)
		if (reaches(from.child(i), target)) return true;
	return false;
}

#endif
