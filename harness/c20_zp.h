// C20: a scalar type for the prime field Z_p, over which the matrix templates of ASL (Matrix3_, Matrix4_, Matrix_,
// Quaternion_, Vec3_) are instantiated so that their algebra can be checked exactly (DESIGN.md 6, C20).
//
// The modulus is a run-time value (Zp::P: 2, 3, 5 for the cases TLC enumerates, 32749 for recorded traces - the
// largest prime whose products TLC's 32-bit integers can hold).  solve_() needs fabs() and '<' to choose pivots:
// fabs(x) maps x to (x * key) mod p, a bijection of Z_p that fixes 0, so "largest |entry|" picks *some* non-zero entry
// of the column and a different one for a different key - the property says the result must not depend on the choice.
// Division by zero does not trap: it sets Zp::divzero and yields 0 (the singular systems are decided by the spec).
#ifndef C20_ZP_H
#define C20_ZP_H
#include <math.h>

struct Zp
{
	static int P;
	static int key;
	static bool divzero;
	int v;
	Zp() : v(0) {}
	Zp(int x) : v(norm(x)) {}
	Zp(long long x) : v((int)(((x % P) + P) % P)) {}
	Zp(double x) : v(norm((int)x)) {}   // integral literals only (Complex::operator/ writes 1./x)
	static int norm(int x) { int r = x % P; return r < 0 ? r + P : r; }
	static Zp raw(int x) { Zp z; z.v = x; return z; }
	static int inv(int a)
	{
		if (a == 0) { divzero = true; return 0; }
		// extended Euclid
		long long t = 0, nt = 1, r = P, nr = a;
		while (nr != 0)
		{
			long long q = r / nr;
			long long x = t - q * nt; t = nt; nt = x;
			x = r - q * nr; r = nr; nr = x;
		}
		return (int)((t % P + P) % P);
	}
	Zp& operator+=(Zp b) { v = (v + b.v) % P; return *this; }
	Zp& operator-=(Zp b) { v = norm(v - b.v); return *this; }
	Zp& operator*=(Zp b) { v = (int)(((long long)v * b.v) % P); return *this; }
	Zp& operator/=(Zp b) { v = (int)(((long long)v * inv(b.v)) % P); return *this; }
	Zp operator-() const { return raw(v == 0 ? 0 : P - v); }
};

inline Zp operator+(Zp a, Zp b) { return a += b; }
inline Zp operator-(Zp a, Zp b) { return a -= b; }
inline Zp operator*(Zp a, Zp b) { return a *= b; }
inline Zp operator/(Zp a, Zp b) { return a /= b; }
inline bool operator==(Zp a, Zp b) { return a.v == b.v; }
inline bool operator!=(Zp a, Zp b) { return a.v != b.v; }
// an arbitrary total order (only solve_'s pivot search uses it)
inline bool operator<(Zp a, Zp b) { return a.v < b.v; }
inline bool operator>(Zp a, Zp b) { return a.v > b.v; }
inline bool operator<=(Zp a, Zp b) { return a.v <= b.v; }
inline bool operator>=(Zp a, Zp b) { return a.v >= b.v; }
inline Zp fabs(Zp a) { return Zp::raw((int)(((long long)a.v * Zp::key) % Zp::P)); }

#ifdef C20_ZP_IMPL
int Zp::P = 32749;
int Zp::key = 1;
bool Zp::divzero = false;
#endif
#endif
