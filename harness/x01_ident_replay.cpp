// X01 part `ident`, replayer (R): runs the cases TLC generates from spec/MC_Ident.tla on asl::Uuid under ASan.
//   fmt  bytes u -> expected text t (Uuid::operator*, operator String), Uuid(t) and Uuid(uppercase t) give u back
//   cmp  bytes u, w -> expected ==, !=, <
//   txt  text t -> ok (well-formed) with expected bytes and expected lowercase text; malformed texts are only executed
//        (Uuid.h does not say what the constructor makes of them)
// Every expected value in a case was computed by TLC from spec/Ident.tla; this program only executes, projects, compares.
#include <asl/Uuid.h>
#include <asl/String.h>
#include "vjson.h"
#include "vrun.h"
#include <string>

using namespace asl;
using vrun::Outcome;

#define FAIL(...) do { char _b[900]; snprintf(_b, sizeof _b, __VA_ARGS__); return Outcome::fail(_b); } while (0)

static String toStr(const std::string& s) { return String(s.data(), (int)s.size()); }
static std::string fromStr(const String& s) { return std::string(*s, (size_t)(s.length() > 0 ? s.length() : 0)); }
static std::string show(const std::string& s)
{
	std::string r = "[";
	char b[8];
	for (size_t i = 0; i < s.size() && i < 48; i++) { snprintf(b, sizeof b, i ? ",%d" : "%d", (int)(unsigned char)s[i]); r += b; }
	return r + "]";
}
static Uuid make(const std::string& b)
{
	Uuid u;
	for (int i = 0; i < 16; i++) u[i] = (byte)b[(size_t)i];
	return u;
}
static std::string bytesOf(const Uuid& u)
{
	std::string r;
	for (int i = 0; i < 16; i++) r += (char)u[i];
	return r;
}

static Outcome caseFmt(const vj::Value& c)
{
	std::string b = c["u"].bytes(), t = c["t"].bytes(), up = c["up"].bytes();
	if (b.size() != 16) FAIL("bad case: %d bytes", (int)b.size());
	Uuid u = make(b);
	if (bytesOf(u) != b) FAIL("operator[] does not read back the bytes written: %s", show(bytesOf(u)).c_str());
	std::string got = fromStr(*u);
	if (got != t) FAIL("Uuid::operator*: got \"%s\", specification says \"%s\"", got.c_str(), t.c_str());
	String s = u;
	if (fromStr(s) != t) FAIL("operator String: got \"%s\", specification says \"%s\"", (*s), t.c_str());
	if (s.length() != 36) FAIL("text length %d", s.length());
	Uuid p(toStr(t));
	if (bytesOf(p) != b) FAIL("Uuid(\"%s\") gives bytes %s, specification says %s", t.c_str(), show(bytesOf(p)).c_str(), show(b).c_str());
	if (!(p == u) || (p != u)) FAIL("Uuid(text of u) == u is false for \"%s\"", t.c_str());
	Uuid q(toStr(up));
	if (bytesOf(q) != b) FAIL("Uuid(\"%s\") (uppercase) gives bytes %s, specification says %s", up.c_str(), show(bytesOf(q)).c_str(), show(b).c_str());
	Uuid copy(u), assigned;
	assigned = u;
	if (bytesOf(copy) != b || bytesOf(assigned) != b) FAIL("copy/assignment changed the bytes");
	if (c["zero"].i() == 1 && !(Uuid() == u)) FAIL("Uuid() is not the all-zero value");
	if (c["zero"].i() == 0 && (Uuid() == u)) FAIL("Uuid() equals a non-zero value");
	Outcome o;
	o.nontrivial = c["zero"].i() == 0;
	return o;
}

static Outcome caseCmp(const vj::Value& c)
{
	std::string a = c["u"].bytes(), b = c["w"].bytes();
	Uuid u = make(a), w = make(b);
	int eq = c["eq"].i(), lt = c["lt"].i(), gt = c["gt"].i();
	if ((u == w) != (eq == 1)) FAIL("operator== gives %d, specification says %d for %s / %s", (int)(u == w), eq, show(a).c_str(), show(b).c_str());
	if ((u != w) != (eq == 0)) FAIL("operator!= gives %d, specification says %d for %s / %s", (int)(u != w), 1 - eq, show(a).c_str(), show(b).c_str());
	if ((u < w) != (lt == 1)) FAIL("operator< gives %d, specification says %d for %s / %s", (int)(u < w), lt, show(a).c_str(), show(b).c_str());
	if ((w < u) != (gt == 1)) FAIL("operator< (swapped) gives %d, specification says %d for %s / %s", (int)(w < u), gt, show(a).c_str(), show(b).c_str());
	// the same through the texts
	if ((fromStr(*u) == fromStr(*w)) != (eq == 1)) FAIL("texts equal = %d but specification says values equal = %d", (int)(fromStr(*u) == fromStr(*w)), eq);
	Outcome o;
	o.nontrivial = a != b;
	return o;
}

static Outcome caseTxt(const vj::Value& c)
{
	std::string t = c["t"].bytes();
	int ok = c["ok"].i();
	Uuid p(toStr(t));
	std::string back = fromStr(*p);   // always a text, whatever the input was
	if (back.size() != 36) FAIL("text of Uuid(\"%s\") has length %d", t.c_str(), (int)back.size());
	if (ok)
	{
		std::string v = c["v"].bytes(), low = c["low"].bytes();
		if (bytesOf(p) != v) FAIL("Uuid(\"%s\") gives bytes %s, specification says %s", t.c_str(), show(bytesOf(p)).c_str(), show(v).c_str());
		if (back != low) FAIL("text of Uuid(\"%s\") is \"%s\", specification says \"%s\"", t.c_str(), back.c_str(), low.c_str());
	}
	Outcome o;
	o.nontrivial = ok == 1 || t.size() > 0;
	return o;
}

static Outcome run(const vj::Value& c)
{
	const std::string& k = c["k"].s();
	if (k == "fmt") return caseFmt(c);
	if (k == "cmp") return caseCmp(c);
	if (k == "txt") return caseTxt(c);
	return Outcome::fail("unknown case kind " + k);
}

int main(int argc, char** argv) { return vrun::run(argc, argv, run); }
