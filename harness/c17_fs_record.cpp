// C17 recorder (V) for the file-system surface around File/TextFile (growth round).  Seeded random executions of the real
// library, one ndjson line per call with its arguments and results; TLC validates the log against
//   --mode 0  spec/Trace_FileModelDir.tla   Directory / File calls on a tree over 4 names x 3 levels in a private scratch directory
//   --mode 1  spec/Trace_FileModelSeek.tla  one TextFile object: open modes, seek/position/end/read/write/readLine/size, temporaries
//   --mode 2  spec/Trace_FileModelPath.tla  asl::Path on random paths from changing current directories
// The recorder keeps only what it needs to choose calls inside the usage discipline (which nodes exist - looked up with POSIX
// calls -, the mode of the long-lived object and where it stands); every expected value is computed by TLC from the log.
#include "c17_common.h"
#include "vrec.h"
#include <map>
#include <set>
#include <algorithm>
#include <limits.h>
#include <time.h>
#include "c17_fs_dir.h"

using namespace c17;
using vrec::Rng;
using vrec::Log;
using vrec::kv;

static std::string jbytes(const std::string& s) { return vj::codes(s); }
static std::string jb(const char* k, bool v) { return std::string("\"") + k + "\":" + (v ? "true" : "false"); }
static std::string jk(const char* k, const std::string& json) { return std::string("\"") + k + "\":" + json; }
static std::string jstr(const char* k, const char* v) { return std::string("\"") + k + "\":\"" + v + "\""; }

// ---------------------------------------------------------------------------------------------------------------------------
// mode 0: the directory tree
// ---------------------------------------------------------------------------------------------------------------------------
typedef std::vector<std::string> Node;
static const char* NAMES[] = { "a", "b", "a.b", ".x" };

static std::string jnode(const Node& n)
{
	std::string r = "[";
	for (size_t i = 0; i < n.size(); i++) r += (i ? "," : "") + jbytes(n[i]);
	return r + "]";
}
static std::string relOf(const Node& n)
{
	std::string r;
	for (size_t i = 0; i < n.size(); i++) r += (i ? "/" : "") + n[i];
	return r;
}
static Node nodeOf(const std::string& rel)
{
	Node n;
	size_t p = 0;
	while (p < rel.size())
	{
		size_t q = rel.find('/', p);
		if (q == std::string::npos) q = rel.size();
		n.push_back(rel.substr(p, q - p));
		p = q + 1;
	}
	return n;
}

struct DirExec
{
	Rng& rng;
	Log& log;
	std::string w;
	Node cwd;
	std::set<std::string> temps;

	DirExec(Rng& r, Log& l, const std::string& dir) : rng(r), log(l), w(dir)
	{
		char real[PATH_MAX];
		if (realpath(w.c_str(), real)) w = real;
	}
	~DirExec()
	{
		if (chdir("/") != 0) {}
		for (std::set<std::string>::iterator i = temps.begin(); i != temps.end(); ++i)
			if (i->compare(0, 5, "/tmp/") == 0 && i->size() > 8) rmTree(*i);
		rmTree(w);
	}
	std::string abs(const Node& n) const { return n.empty() ? w : w + "/" + relOf(n); }
	char kindOf(const Node& n) const
	{
		struct stat st;
		if (lstat(abs(n).c_str(), &st) != 0) return '-';
		return S_ISDIR(st.st_mode) ? 'd' : 'f';
	}
	bool under(const Node& x, const Node& n) const { return x.size() <= n.size() && std::equal(x.begin(), x.end(), n.begin()); }
	Node randomNode(int maxDepth = 3)
	{
		Node n;
		int d = rng.range(1, maxDepth);
		for (int i = 0; i < d; i++) n.push_back(NAMES[rng.below(4)]);
		return n;
	}
	// a node that exists (kind filter: 0 any, 'd', 'f'); falls back to a random one
	Node existing(char want = 0)
	{
		std::map<std::string, Found> tree;
		walk(w, "", tree);
		std::vector<std::string> c;
		for (std::map<std::string, Found>::iterator i = tree.begin(); i != tree.end(); ++i)
			if (!want || i->second.kind == want) c.push_back(i->first);
		if (c.empty()) return randomNode();
		return nodeOf(c[(size_t)rng.below((int)c.size())]);
	}
	Node pick(char want = 0) { return rng.chance(65) ? existing(want) : randomNode(); }
	// the path string a call is given: absolute, relative to the current directory, or with a trailing separator (directories)
	std::string spell(const Node& n, bool allowSlash = true)
	{
		int form = rng.below(3);
		if (form == 1)
		{
			size_t k = 0;
			while (k < cwd.size() && k < n.size() && cwd[k] == n[k]) k++;
			std::string r;
			for (size_t i = k; i < cwd.size(); i++) r += (r.empty() ? "" : "/") + std::string("..");
			for (size_t i = k; i < n.size(); i++) r += (r.empty() ? "" : "/") + n[i];
			return r.empty() ? "." : r;
		}
		std::string r = abs(n);
		if (form == 2 && allowSlash && !n.empty() && kindOf(n) == 'd') r += "/";
		return r;
	}
	std::string randomContent()
	{
		int len = rng.chance(20) ? 0 : rng.chance(10) ? rng.range(100, 300) : rng.range(1, 12);
		std::string s;
		for (int i = 0; i < len; i++) s += (char)(rng.chance(10) ? rng.below(256) : "abc\n\r x"[rng.below(7)]);
		return s;
	}
	void plant()
	{
		std::string tree = "[";
		int n = rng.chance(25) ? 0 : rng.range(1, 9);
		for (int i = 0; i < n; i++)
		{
			Node x = randomNode();
			Node par(x.begin(), x.end() - 1);
			if (kindOf(x) != '-' || kindOf(par) != 'd') continue;
			bool dir = rng.chance(55);
			std::string c = dir ? "" : randomContent();
			if (dir) mkdir(abs(x).c_str(), 0755);
			else posixWrite(abs(x), c);
			tree += (tree.size() > 1 ? "," : "") + std::string("{") + jk("n", jnode(x)) + "," + jstr("k", dir ? "d" : "f") + "," + jk("c", jbytes(c)) + "}";
		}
		log.line("{\"op\":\"reset\"," + jk("tree", tree + "]") + "}");
	}
	void disk()
	{
		std::map<std::string, Found> tree;
		walk(w, "", tree);
		std::string r = "[";
		for (std::map<std::string, Found>::iterator i = tree.begin(); i != tree.end(); ++i)
			r += (r.size() > 1 ? "," : "") + std::string("{") + jk("n", jnode(nodeOf(i->first))) + "," + jstr("k", i->second.kind == 'd' ? "d" : i->second.kind == 'f' ? "f" : "?") + "," +
			     jk("c", jbytes(i->second.kind == 'f' ? i->second.content : std::string())) + "}";
		log.line("{\"op\":\"disk\"," + jk("nodes", r + "]") + "}");
	}
	void list()
	{
		static const char* PATTS[] = { "*", "*", "a*", "*b", "*.b", "a*b", ".*", "*x", "a.b", "b", "a*a", "*a", "", "a.*", "*.x" };
		Node x = rng.chance(25) ? Node() : rng.chance(80) ? existing('d') : pick();
		std::string patt = PATTS[rng.below(15)];
		int t = rng.below(3);
		std::string path = spell(x);
		Directory d(toStr(path));
		Array<File> got = t == 0 ? (patt == "*" && rng.chance(50) ? d.items() : d.items(toStr(patt)))
		                : t == 1 ? (patt == "*" && rng.chance(50) ? d.files() : d.files(toStr(patt)))
		                : (patt == "*" && rng.chance(50) ? d.subdirs() : d.subdirs(toStr(patt)));
		std::string r = "[";
		for (int i = 0; i < got.length(); i++)
		{
			r += (i ? "," : "") + jbytes(fromStr(got[i].name()));
			// every item is the path of the directory as given + separator + name
			std::string full = path + (path.size() && path[path.size() - 1] == '/' ? "" : "/") + fromStr(got[i].name());
			if (fromStr(got[i].path()) != full) { fprintf(stderr, "item path %s, expected %s\n", *got[i].path(), full.c_str()); exit(1); }
		}
		log.line("{\"op\":\"list\"," + jk("x", jnode(x)) + "," + jk("p", jbytes(patt)) + "," + jstr("t", t == 0 ? "all" : t == 1 ? "files" : "dirs") + "," + jk("r", r + "]") + "}");
	}
	void query()
	{
		Node x = pick();
		std::string path = spell(x);
		String P = toStr(path);
		File f(P);
		bool ex = File(P).exists(), isf = File(P).isFile(), isd = File(P).isDirectory(), dex = Directory(P).exists();
		bool dated = f.lastModified().time() != 0 && f.creationDate().time() != 0;
		bool undated = f.lastModified().time() == 0 && f.creationDate().time() == 0;
		if (dated == undated) { fprintf(stderr, "lastModified and creationDate disagree about the existence of %s\n", path.c_str()); exit(1); }
		Long size = isd ? 0 : File(P).size();
		std::string c = isd ? "" : fromBytes(File(P).content());
		log.line("{\"op\":\"q\"," + jk("x", jnode(x)) + "," + jb("ex", ex) + "," + jb("isf", isf) + "," + jb("isd", isd) + "," + jb("dex", dex) + "," + jb("dated", dated) + "," +
		         kv("size", (long long)size) + "," + jk("c", jbytes(c)) + "}");
	}
	void current()
	{
		std::string cur = fromStr(Directory::current());
		if (cur.compare(0, w.size(), w) != 0 || (cur.size() > w.size() && cur[w.size()] != '/')) { fprintf(stderr, "current() = %s outside %s\n", cur.c_str(), w.c_str()); exit(1); }
		log.line("{\"op\":\"cur\"," + jk("x", jnode(nodeOf(cur.size() > w.size() ? cur.substr(w.size() + 1) : std::string()))) + "}");
	}
	void call()
	{
		int k = rng.below(100);
		bool odd = rng.chance(50);
		if (k < 14)
		{
			Node x = randomNode();
			bool r = Directory::create(toStr(spell(x)));
			log.line("{\"op\":\"create\"," + jk("x", jnode(x)) + "," + jb("r", r) + "}");
		}
		else if (k < 22)
		{
			Node x = pick();
			bool r = Directory::createOne(toStr(spell(x)));
			log.line("{\"op\":\"createone\"," + jk("x", jnode(x)) + "," + jb("r", r) + "}");
		}
		else if (k < 42)
		{
			Node x = rng.chance(40) ? existing('d') : pick();
			if (rng.chance(60)) x.push_back(NAMES[rng.below(4)]);
			if (x.size() > 3) x.resize(3);
			std::string c = randomContent();
			std::string path = spell(x, false);
			bool r = odd ? File(toStr(path)).put(toBytes(c)) : TextFile(toStr(path)).put(toStr(c));
			log.line("{\"op\":\"put\"," + jk("x", jnode(x)) + "," + jk("c", jbytes(c)) + "," + jb("r", r) + "}");
		}
		else if (k < 52)
		{
			Node x = pick();
			if (kindOf(x) == 'd' && under(x, cwd)) return;
			std::string path = spell(x);
			bool r = odd ? File(toStr(path)).remove() : Directory::remove(toStr(path));
			log.line("{\"op\":\"remove\"," + jk("x", jnode(x)) + "," + jb("r", r) + "}");
		}
		else if (k < 60)
		{
			Node x = rng.chance(80) ? pick('d') : pick();
			if (under(x, cwd)) return;
			bool r = Directory::removeRecursive(toStr(spell(x)));
			log.line("{\"op\":\"rmrec\"," + jk("x", jnode(x)) + "," + jb("r", r) + "}");
		}
		else if (k < 90)
		{
			bool copy = k < 75;
			Node x = pick(copy ? 'f' : 0);
			Node y = rng.chance(15) ? Node() : rng.chance(50) ? pick('d') : pick();
			if (copy && kindOf(x) == 'd') return;
			if (!copy && under(x, cwd)) return;
			Node t = y;
			if (kindOf(y) == 'd' && !x.empty()) t.push_back(x.back());
			if (t.size() > 3 || t.empty()) return;
			if (!copy && kindOf(x) == 'd')
			{
				// the moved tree must stay within three levels; the directory replaced (if any) must not be the current one
				std::map<std::string, Found> tree;
				walk(abs(x), "", tree);
				size_t deepest = 0;
				for (std::map<std::string, Found>::iterator i = tree.begin(); i != tree.end(); ++i) deepest = std::max(deepest, nodeOf(i->first).size());
				if (t.size() + deepest > 3 || under(t, cwd)) return;
			}
			std::string px = spell(x, false), py = spell(y);
			bool r;
			if (copy) r = odd ? Directory::copy(toStr(px), toStr(py)) : File(toStr(px)).copy(toStr(py));
			else r = odd ? Directory::move(toStr(px), toStr(py)) : File(toStr(px)).move(toStr(py));
			log.line(std::string("{\"op\":\"") + (copy ? "copy" : "move") + "\"," + jk("x", jnode(x)) + "," + jk("y", jnode(y)) + "," + jb("r", r) + "}");
		}
		else if (k < 97)
		{
			Node x = rng.chance(20) ? Node() : rng.chance(80) ? pick('d') : pick();
			bool r = Directory::change(toStr(spell(x)));
			if (r) cwd = x;
			log.line("{\"op\":\"change\"," + jk("x", jnode(x)) + "," + jb("r", r) + "}");
		}
		else
		{
			std::string t = fromStr(Directory::createTemp());
			struct stat st;
			bool fresh = !t.empty() && temps.insert(t).second && stat(t.c_str(), &st) == 0 && S_ISDIR(st.st_mode) && Directory(toStr(t)).items().length() == 0;
			log.line("{\"op\":\"temp\"," + jb("fresh", fresh) + "}");
		}
	}
	void run()
	{
		if (chdir(w.c_str()) != 0) { perror("chdir"); exit(2); }
		plant();
		int steps = rng.range(15, 60);
		for (int i = 0; i < steps; i++)
		{
			call();
			if (rng.chance(45)) list();
			if (rng.chance(45)) query();
			if (rng.chance(15)) current();
			if (rng.chance(12)) disk();
		}
		current();
		disk();
	}
};

// ---------------------------------------------------------------------------------------------------------------------------
// mode 1: one object with a position
// ---------------------------------------------------------------------------------------------------------------------------
struct SeekExec
{
	Rng& rng;
	Log& log;
	std::string w, p;
	String P;
	TextFile h;
	// what the recorder needs to stay inside the usage discipline
	std::string mode;      // closed r w a rw
	char last;             // RW: 'r' / 'w' since the last seek, else 'n'
	bool posdef, dirty, sizeAsked, text;
	long pos, len;         // position and length as far as the calls made determine them (to choose offsets that stay >= 0)
	std::set<std::string> temps;

	SeekExec(Rng& r, Log& l, const std::string& dir) : rng(r), log(l), w(dir), p(dir + "/p"), P(toStr(dir + "/p")), h(toStr(dir + "/p")),
		mode("closed"), last('n'), posdef(true), dirty(false), sizeAsked(false), text(false), pos(0), len(-1) {}
	~SeekExec()
	{
		h.close();
		for (std::set<std::string>::iterator i = temps.begin(); i != temps.end(); ++i)
			if (i->compare(0, 5, "/tmp/") == 0 && i->size() > 8) unlink(i->c_str());
		rmTree(w);
	}
	bool open() const { return mode != "closed"; }
	std::string chunk()
	{
		int n = rng.chance(10) ? 0 : rng.chance(8) ? rng.range(200, 600) : rng.range(1, 20);
		std::string s;
		for (int i = 0; i < n; i++)
		{
			if (text) s += (char)(rng.chance(12) ? '\n' : rng.chance(5) ? '\r' : 'a' + rng.below(26));
			else s += (char)(rng.chance(30) ? rng.below(256) : "xy\n\0z"[rng.below(5)]);
		}
		return s;
	}
	int number() { return rng.chance(30) ? 0 : rng.chance(50) ? rng.range(-99999, -1) : rng.range(1, 2000000000); }
	static std::string decimal(int n, bool semi) { char b[32]; snprintf(b, sizeof b, semi ? "%d;" : "%d", n); return b; }
	void obs()
	{
		std::string disk;
		bool ex = posixRead(p, disk);
		std::string c = dirty ? std::string() : fromBytes(File(P).content());
		Long size = dirty ? 0 : File(P).size();
		if (File(P).exists() != ex) { fprintf(stderr, "exists() disagrees with POSIX\n"); exit(1); }
		log.line("{\"op\":\"obs\"," + jb("ex", ex) + "," + jk("disk", jbytes(disk)) + "," + jk("c", jbytes(c)) + "," + kv("size", (long long)size) + "}");
	}
	void times()
	{
		if (dirty) return;
		double lm = File(P).lastModified().time(), cd = File(P).creationDate().time();
		log.line("{\"op\":\"times\"," + kv("lm", (long long)lm) + "," + kv("cd", (long long)cd) + "," + kv("t1", (long long)time(0)) + "}");
	}
	void step()
	{
		int k = rng.below(100);
		if (!open())
		{
			if (k < 30)
			{
				static const char* MS[] = { "r", "w", "a", "rw" };
				std::string m = MS[rng.below(4)];
				File::OpenMode om = m == "r" ? File::READ : m == "w" ? File::WRITE : m == "a" ? File::APPEND : File::RW;
				bool r = rng.chance(50) ? h.open(om) : h.File::open(P, om);
				log.line("{\"op\":\"open\"," + jstr("m", m.c_str()) + "," + jb("r", r) + "}");
				if (r)
				{
					mode = m; last = 'n'; dirty = false; pos = 0; posdef = m != "a";
					if (m == "w" || len < 0) len = 0;
				}
			}
			else if (k < 45)
			{
				int api = rng.below(4);
				std::string d = api < 2 ? chunk() : "";
				int n = api >= 2 ? number() : 0;
				if (api == 0) File(P).put(toBytes(d));
				else if (api == 1) TextFile(P).put(toStr(d));
				else if (api == 2) { TextFile(P) << n; d = decimal(n, false); }
				else { TextFile(P).printf("%d;", n); d = decimal(n, true); }
				log.line("{\"op\":\"oput\"," + jk("d", jbytes(d)) + "," + jstr("api", api == 0 ? "bin" : api == 1 ? "text" : api == 2 ? "int" : "printf") + "," + kv("n", n) + "}");
				len = (long)d.size();
			}
			else if (k < 60)
			{
				std::string d = chunk();
				if (!TextFile(P).append(toStr(d))) { fprintf(stderr, "append returned false\n"); exit(1); }
				log.line("{\"op\":\"oappend\"," + jk("d", jbytes(d)) + "}");
				len = (len < 0 ? 0 : len) + (long)d.size();
			}
			else if (k < 65)
			{
				if (len < 0) return;
				if (!File(P).remove()) { fprintf(stderr, "remove returned false\n"); exit(1); }
				log.line("{\"op\":\"oremove\"}");
				len = -1;
			}
			else if (k < 72)
			{
				bool e = h.end();
				log.line("{\"op\":\"tend\"," + jb("r", e) + "}");
				if (!!h) { mode = "r"; pos = 0; posdef = true; last = 'n'; }
			}
			else if (k < 84 && text) readLine();
			else if (k < 90) settime();
			else if (k < 94) hsize();
			else if (k < 97) temp();
			else { h.close(); sizeAsked = false; log.line("{\"op\":\"close\"}"); }   // (close() of a closed object: it forgets the file information)
			return;
		}
		bool canWrite = mode == "w" || mode == "a" || (mode == "rw" && last != 'r');
		bool canRead = (mode == "r" || (mode == "rw" && last != 'w')) && posdef;
		if (k < 30 && canWrite && (mode == "a" || posdef))
		{
			int api = rng.below(5);
			std::string d = api < 3 ? chunk() : "";
			int n = api >= 3 ? number() : 0;
			long long r = 0;
			if (api == 0) r = h.File::write(d.data(), (int)d.size());
			else if (api == 1) h.write(toStr(d));
			else if (api == 2) h << toStr(d);
			else if (api == 3) { h << n; d = decimal(n, false); }
			else { h.printf("%d;", n); d = decimal(n, true); }
			log.line("{\"op\":\"write\"," + jk("d", jbytes(d)) + "," + jstr("api", api == 0 ? "bin" : api == 1 ? "str" : api == 2 ? "shl" : api == 3 ? "int" : "printf") + "," + kv("n", n) + "," + kv("r", r) + "}");
			if (!d.empty())
			{
				if (mode == "a") { len += (long)d.size(); pos = len; posdef = true; }
				else { pos += (long)d.size(); if (pos > len) len = pos; }
				dirty = true;
			}
			if (mode == "rw") last = 'w';
		}
		else if (k < 50 && canRead)
		{
			int n = rng.chance(20) ? 0 : rng.chance(10) ? rng.range(300, 900) : rng.range(1, 30);
			std::string buf((size_t)n + 1, '\0');
			int got = h.read(&buf[0], n);
			if (got < 0 || got > n) { fprintf(stderr, "read(%d) returned %d\n", n, got); exit(1); }
			log.line("{\"op\":\"read\"," + kv("n", n) + "," + jk("r", jbytes(buf.substr(0, (size_t)got))) + "}");
			pos += got;
			if (mode == "rw") last = 'r';
		}
		else if (k < 68)
		{
			int from = rng.below(3);
			if (from == 1 && !posdef) from = 0;
			long base = from == 0 ? 0 : from == 1 ? pos : len;
			long target = rng.chance(15) ? base : rng.chance(20) ? len + rng.range(0, 5) : rng.range(0, (int)len + 2);
			if (target < 0) target = 0;
			if (text && target > len) target = len;   // (a gap would read as NUL bytes: not text)
			h.seek((Long)(target - base), from == 0 ? File::START : from == 1 ? File::HERE : File::END);
			log.line("{\"op\":\"seek\"," + kv("off", target - base) + "," + jstr("from", from == 0 ? "start" : from == 1 ? "here" : "end") + "}");
			pos = target; posdef = true; last = 'n'; dirty = false;
		}
		else if (k < 74 && posdef) log.line("{\"op\":\"pos\"," + kv("r", (long long)h.position()) + "}");
		else if (k < 80) log.line("{\"op\":\"end\"," + jb("r", rng.chance(50) ? h.File::end() : h.end()) + "}");
		else if (k < 86 && canWrite) { h.flush(); log.line("{\"op\":\"flush\"}"); dirty = false; last = 'n'; }
		else if (k < 90 && !dirty) hsize();
		else if (k < 94 && mode == "r" && text && posdef) readLine();
		else if (k < 100)
		{
			h.close();
			log.line("{\"op\":\"close\"}");
			mode = "closed"; dirty = false; last = 'n'; pos = 0; posdef = true; sizeAsked = false;
		}
	}
	void readLine()
	{
		bool asked = rng.chance(50);
		String s;
		bool ok = true;
		if (asked) ok = h.readLine(s);
		else s = h.readLine();
		log.line("{\"op\":\"readline\"," + jk("r", jbytes(fromStr(s))) + "," + jb("asked", asked) + "," + jb("ok", ok) + "}");
		if (!!h && mode == "closed") { mode = "r"; posdef = true; last = 'n'; }
		// (where the object stands now is not needed for choosing further calls: only START / END seeks follow in mode r)
		pos = 0;
		if (mode == "r") posHere();
	}
	void posHere() { pos = (long)h.position(); }   // (not logged: only used to keep seek targets sensible)
	void hsize()
	{
		if (dirty || sizeAsked) return;
		Long sz = h.size();
		sizeAsked = true;
		log.line("{\"op\":\"hsize\"," + kv("r", (long long)sz) + "}");
	}
	void settime()
	{
		if (dirty) return;
		long long t = rng.chance(50) ? 1000000000LL + rng.below(500000000) : rng.range(86400, 900000000);
		bool r = File(P).setLastModified(Date((double)t));
		log.line("{\"op\":\"settime\"," + kv("t", t) + "," + jb("r", r) + "}");
	}
	void temp()
	{
		static const char* EXTS[] = { ".tmp", "", ".a.b", ".x" };
		std::string ext = EXTS[rng.below(4)];
		std::string tp;
		bool fresh, empty, suffix;
		{
			File f = rng.chance(30) && ext == ".tmp" ? File::temp() : File::temp(toStr(ext));
			tp = fromStr(f.path());
			struct stat st;
			fresh = !tp.empty() && temps.insert(tp).second;
			empty = stat(tp.c_str(), &st) == 0 && S_ISREG(st.st_mode) && st.st_size == 0 && File(toStr(tp)).isFile() && File(toStr(tp)).size() == 0;
			suffix = tp.size() >= ext.size() && tp.compare(tp.size() - ext.size(), ext.size(), ext) == 0;
		}
		log.line("{\"op\":\"temp\"," + jk("ext", jbytes(ext)) + "," + jb("fresh", fresh) + "," + jb("empty", empty) + "," + jb("suffix", suffix) + "}");
	}
	void run()
	{
		text = rng.chance(50);
		log.line("{\"op\":\"reset\"," + kv("t0", (long long)time(0)) + "}");
		int steps = rng.range(20, 90);
		for (int i = 0; i < steps; i++)
		{
			step();
			if (rng.chance(25)) obs();
			if (rng.chance(12)) times();
		}
		if (open()) { h.close(); log.line("{\"op\":\"close\"}"); mode = "closed"; dirty = false; }
		obs();
		times();
	}
};

// ---------------------------------------------------------------------------------------------------------------------------
// mode 2: the path algebra
// ---------------------------------------------------------------------------------------------------------------------------
static std::string randomPath(Rng& rng)
{
	static const char* TOK[] = { "a", "b", ".", "..", "/", "a.b", ".x", "\\", "B", "ab", "c.tar.gz", "/", "/", ".." };
	int n = rng.chance(5) ? 0 : rng.range(1, 10);
	std::string s;
	for (int i = 0; i < n; i++) s += TOK[rng.below(14)];
	return s;
}

static void pathEvents(Rng& rng, Log& log, const std::string& root)
{
	// a few current directories of different depth
	std::string dirs[3] = { root, root + "/c", root + "/c/d.e" };
	mkdir(dirs[1].c_str(), 0755);
	mkdir(dirs[2].c_str(), 0755);
	std::string cwd = dirs[rng.below(3)];
	log.line("{\"op\":\"reset\"}");     // (one execution = one current directory)
	if (!Directory::change(toStr(cwd))) { fprintf(stderr, "change(%s) failed\n", cwd.c_str()); exit(1); }
	char real[PATH_MAX];
	if (!getcwd(real, sizeof real)) exit(2);
	cwd = real;
	for (int i = 0; i < 40; i++)
	{
		std::string raw = randomPath(rng);
		Path p(toStr(raw));
		if (rng.chance(60))
		{
			Path r2 = p;
			r2.removeDDots();
			log.line("{\"op\":\"path\"," + jk("cwd", jbytes(cwd)) + "," + jk("raw", jbytes(raw)) + "," + jk("str", jbytes(fromStr(p.string()))) + "," +
			         jk("name", jbytes(fromStr(p.name()))) + "," + jk("dir", jbytes(fromStr(p.directory().string()))) + "," + jk("ext", jbytes(fromStr(p.extension()))) + "," +
			         jk("noext", jbytes(fromStr(p.noExt().string()))) + "," + jk("nne", jbytes(fromStr(p.nameNoExt()))) + "," + jb("hasdir", p.hasDir()) + "," +
			         jb("hasdirectory", p.hasDirectory()) + "," + jb("isabs", p.isAbsolute()) + "," + jb("hasext", p.hasExtension("B|x")) + "," +
			         jk("abs", jbytes(fromStr(p.absolute().string()))) + "," + jk("absabs", jbytes(fromStr(p.absolute().absolute().string()))) + "," +
			         jk("rdd", jbytes(fromStr(r2.string()))) + "}");
		}
		else
		{
			std::string raw2 = randomPath(rng);
			Path q(toStr(raw2));
			Path j = rng.chance(50) ? p / q.string() : p / *q.string();
			log.line("{\"op\":\"pair\"," + jk("cwd", jbytes(cwd)) + "," + jk("raw", jbytes(raw)) + "," + jk("raw2", jbytes(raw2)) + "," + jk("join", jbytes(fromStr(j.string()))) + "," +
			         jb("eq", p.equals(q)) + "," + jb("same", p == toStr(raw2)) + "}");
		}
	}
	if (chdir("/") != 0) {}
}

int main(int argc, char** argv)
{
	vrec::Args args(argc, argv);
	Rng rng(args.seed);
	Log log(args.out);
	TmpDir tmp("c17fsv");
	while (log.lines < args.events)
	{
		if (args.mode == 0) { DirExec ex(rng, log, tmp.sub()); ex.run(); }
		else if (args.mode == 1) { SeekExec ex(rng, log, tmp.sub()); ex.run(); }
		else pathEvents(rng, log, tmp.sub());
	}
	if (chdir("/") != 0) {}
	return 0;
}
