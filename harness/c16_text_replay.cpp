// C16 text lane, replayer (R): executes the histories TLC generates from spec/TextStream.tla on real asl::TextFile
// objects: one object writes (operator<< for int / unsigned / double / float / String / const char* / char, printf,
// write, append, put), is closed; the bytes of the file are read with POSIX calls and compared with the specification's
// `text`; then another TextFile object performs the reader calls of the history (operator>> for int / unsigned /
// double / float / String / char, readLine(String&), scanf, end()) and every value, every "left unchanged" and the
// end-of-file indicator after every call are compared with what the specification computed.
//
// Projections (no oracle here):
//   32-bit integers  <-> <<hi, lo>> 16-bit limbs of the bit pattern
//   double / float   <-> decimal [neg, digs, exp]: to the library with strtod("d.ddde<exp>"), from the library with
//                        snprintf("%.14e") (double, 15 significant digits) / "%.5e" (float, 6) with trailing zeros dropped
//   "unchanged"      the variable is set to a sentinel before the call and must still hold it
//   >> String        the destination holds "?keep?" before the call; just before, a token of a scratch file is read through
//                    the same function so that the stack area operator>> uses holds a known non-empty text
// The recorder (c16_text_record.cpp) includes this file for the executor (C16_TEXT_NO_MAIN).
#include "c16_common.h"
#include <asl/TextFile.h>
#ifndef C16_TEXT_NO_MAIN
#include "vrun.h"
#endif
#include <stdint.h>
#include <math.h>

namespace c16t {

using c16::TmpDir;
using c16::posixRead;

struct Dec
{
	bool neg;
	std::string digs; // digit values 0..9
	int exp;
	Dec() : neg(false), exp(0) {}
	bool operator==(const Dec& o) const { return neg == o.neg && digs == o.digs && exp == o.exp; }
	std::string show() const
	{
		std::string r = neg ? "-" : "";
		if (digs.empty()) return r + "0";
		r += (char)('0' + digs[0]);
		if (digs.size() > 1) r += ".";
		for (size_t i = 1; i < digs.size(); i++) r += (char)('0' + digs[i]);
		return r + "e" + std::to_string(exp);
	}
	std::string json() const
	{
		return std::string("{\"neg\":") + (neg ? "true" : "false") + ",\"digs\":" + vj::codes(digs) + ",\"exp\":" + std::to_string(exp) + "}";
	}
};

inline Dec decOf(const vj::Value& v)
{
	Dec d;
	d.neg = v["neg"].b;
	d.digs = v["digs"].bytes();
	d.exp = v["exp"].i();
	return d;
}

inline double toDouble(const Dec& d) { return strtod(d.show().c_str(), 0); }

// the decimal with `sig` significant digits nearest to x, trailing zeros dropped
inline Dec fromDouble(double x, int sig)
{
	Dec d;
	char b[64];
	snprintf(b, sizeof b, "%.*e", sig - 1, x);
	const char* p = b;
	if (*p == '-') { d.neg = true; p++; }
	if (!(*p >= '0' && *p <= '9')) { d.digs = std::string(1, (char)99); return d; } // inf / nan: never equal to a decimal
	for (; *p && *p != 'e'; p++)
		if (*p != '.') d.digs += (char)(*p - '0');
	d.exp = *p ? atoi(p + 1) : 0;
	while (!d.digs.empty() && d.digs[d.digs.size() - 1] == 0) d.digs.erase(d.digs.size() - 1);
	if (d.digs.empty()) d.exp = 0;
	return d;
}

inline uint32_t u32Of(const vj::Value& v) { return ((uint32_t)v[0].ll() << 16) | (uint32_t)v[1].ll(); }
inline std::string limbs(uint32_t x) { return "[" + std::to_string(x >> 16) + "," + std::to_string(x & 0xffff) + "]"; }

struct Arg
{
	std::string k; // "n" integer, "s" string, "g" double, "c" char
	uint32_t v;
	std::string s;
	Dec d;
	int c;
	Arg() : v(0), c(0) {}
	std::string json() const
	{
		if (k == "n") return "{\"k\":\"n\",\"v\":" + limbs(v) + "}";
		if (k == "s") return "{\"k\":\"s\",\"s\":" + vj::codes(s) + "}";
		if (k == "g") return "{\"k\":\"g\",\"d\":" + d.json() + "}";
		return "{\"k\":\"c\",\"c\":" + std::to_string(c) + "}";
	}
	bool operator==(const Arg& o) const { return k == o.k && (k == "n" ? v == o.v : k == "s" ? s == o.s : k == "g" ? d == o.d : c == o.c); }
};

inline Arg argOf(const vj::Value& a)
{
	Arg r;
	r.k = a["k"].s();
	if (r.k == "n") r.v = u32Of(a["v"]);
	else if (r.k == "s") r.s = a["s"].bytes();
	else if (r.k == "g") r.d = decOf(a["d"]);
	else r.c = a["c"].i();
	return r;
}

struct Call
{
	std::string op, how, m, fmt, sig;
	uint32_t v;
	Dec d;
	std::string s;
	int c;
	std::vector<Arg> args;
	Call() : v(0), c(0) {}
};

inline std::string sigOf(const vj::Value& a)
{
	std::string r;
	for (size_t i = 0; i < a.size(); i++) r += a[i].s();
	return r;
}

inline Call callOf(const vj::Value& o)
{
	Call c;
	c.op = o["op"].s();
	if (o.has("how")) c.how = o["how"].s();
	if (o.has("m")) c.m = o["m"].s();
	if (o.has("rm")) c.m = o["rm"].s();
	if (o.has("f")) c.fmt = o["f"].bytes();
	if (o.has("sig")) c.sig = sigOf(o["sig"]);
	bool w = c.op[0] == 'w' || c.op == "pf";
	if (w && o.has("v")) c.v = u32Of(o["v"]);
	if (w && o.has("d")) c.d = decOf(o["d"]);
	if (w && o.has("s")) c.s = o["s"].bytes();
	if (w && o.has("c")) c.c = o["c"].i();
	if (c.op == "pf")
		for (size_t i = 0; i < o["a"].size(); i++) c.args.push_back(argOf(o["a"][i]));
	return c;
}

// what a reader call left behind (projected)
struct Result
{
	bool changed; // the caller's variable no longer holds the sentinel
	uint32_t v;
	Dec d;
	std::string s;
	int c;
	int n;        // scanf / readLine return value
	std::vector<Arg> outs;
	std::vector<bool> outChanged;
	bool eof;
	Result() : changed(false), v(0), c(0), n(0), eof(false) {}
};

static const uint32_t SENT_I = 0x5a5a5a5au;
static const double SENT_D = 12345.678;
static const float SENT_F = 12345.678f;
static const char* SENT_S = "?keep?";
static const char* PRIME = "~PRIME~PRIME~PRIME~PRIME~PRIME~PRIME~PRIME~PRIME~PRIME~PRIME~PRIME~PRIME~PRIME~PRIME~PRIME~PRIME~PRIME~";

__attribute__((noinline)) static void readToken(TextFile& f, String& x) { f >> x; }

struct Driver
{
	std::string path, primePath;
	TextFile* w;
	TextFile* r;
	TextFile* prime;
	std::string err;
	unsigned calls;

	explicit Driver(const TmpDir& d) : path(d.file("t")), primePath(d.file("p")), w(0), r(0), prime(0), calls(0)
	{
		unlink(path.c_str());
		FILE* f = fopen(primePath.c_str(), "w");
		if (f) { fputs(PRIME, f); fputs("\n", f); fclose(f); }
	}
	~Driver()
	{
		delete w;
		delete r;
		delete prime;
		unlink(path.c_str());
		unlink(primePath.c_str());
	}
	void openWriter(const std::string& m)
	{
		delete w; // the destructor closes
		w = 0;
		if (m == "W") w = new TextFile(String(path.c_str()), File::WRITE);
		else if (m == "A") w = new TextFile(String(path.c_str()), File::APPEND);
		else w = new TextFile(String(path.c_str()));
	}
	// closes the writer; the bytes of the file as the operating system has them
	std::string closeWriter()
	{
		if (w) { w->close(); delete w; w = 0; }
		return posixRead(path);
	}
	// bytes on disk while the writer stays open
	std::string peek()
	{
		if (w && *w) w->flush();
		return posixRead(path);
	}
	void openReader(const std::string& m)
	{
		delete r;
		r = m == "R" ? new TextFile(String(path.c_str()), File::READ) : new TextFile(String(path.c_str()));
	}

	bool doPrintf(const Call& c)
	{
		const char* f = c.fmt.c_str();
		const std::vector<Arg>& a = c.args;
		const std::string& g = c.sig;
		if (g.size() != a.size()) return false;
#define AI(i) ((int)a[i].v)
#define AU(i) ((unsigned)a[i].v)
#define AS(i) (a[i].s.c_str())
#define AG(i) (toDouble(a[i].d))
#define AC(i) ((char)a[i].c)
		if (g == "d") return w->printf(f, AI(0));
		if (g == "u") return w->printf(f, AU(0));
		if (g == "s") return w->printf(f, AS(0));
		if (g == "g") return w->printf(f, AG(0));
		if (g == "c") return w->printf(f, AC(0));
		if (g == "ds") return w->printf(f, AI(0), AS(1));
		if (g == "sd") return w->printf(f, AS(0), AI(1));
		if (g == "du") return w->printf(f, AI(0), AU(1));
		if (g == "dd") return w->printf(f, AI(0), AI(1));
		if (g == "dg") return w->printf(f, AI(0), AG(1));
		if (g == "sg") return w->printf(f, AS(0), AG(1));
		if (g == "cc") return w->printf(f, AC(0), AC(1));
		if (g == "dsg") return w->printf(f, AI(0), AS(1), AG(2));
		if (g == "sdg") return w->printf(f, AS(0), AI(1), AG(2));
		err = "harness: no printf caller for the argument types " + g;
		return false;
	}

	bool write(const Call& c)
	{
		if (!w) { err = "harness: no writer"; return false; }
		calls++;
		if (c.op == "wi") *w << (int)c.v;
		else if (c.op == "wu") *w << (unsigned)c.v;
		else if (c.op == "wd") *w << toDouble(c.d);
		else if (c.op == "wf") *w << (float)toDouble(c.d);
		else if (c.op == "wc") *w << (char)c.c;
		else if (c.op == "ws")
		{
			String s(c.s.c_str(), (int)c.s.size());
			bool ok = true;
			if (c.how == "str") *w << s;
			else if (c.how == "cstr") *w << c.s.c_str();
			else if (c.how == "write") ok = w->write(s);
			else if (c.how == "append") ok = w->append(s);
			else if (c.how == "put") ok = w->put(s);
			else { err = "harness: unknown string call " + c.how; return false; }
			if (!ok) { err = c.how + "() returned false"; return false; }
		}
		else if (c.op == "pf")
		{
			if (!doPrintf(c)) { if (err.empty()) err = "printf() returned false"; return false; }
		}
		else { err = "harness: unknown writer call " + c.op; return false; }
		return true;
	}

	bool read(const Call& c, Result& res)
	{
		if (!r) { err = "harness: no reader"; return false; }
		calls++;
		if (c.op == "ri") { int x = (int)SENT_I; *r >> x; res.v = (uint32_t)x; res.changed = res.v != SENT_I; }
		else if (c.op == "ru") { unsigned x = SENT_I; *r >> x; res.v = x; res.changed = res.v != SENT_I; }
		else if (c.op == "rd") { double x = SENT_D; *r >> x; res.changed = memcmp(&x, &SENT_D, sizeof x) != 0; res.d = fromDouble(x, 15); }
		else if (c.op == "rf") { float x = SENT_F; *r >> x; res.changed = memcmp(&x, &SENT_F, sizeof x) != 0; res.d = fromDouble((double)x, 6); }
		else if (c.op == "rs")
		{
			if (!prime) prime = new TextFile(String(primePath.c_str()), File::READ);
			prime->seek(0);
			String t;
			readToken(*prime, t);
			if (t != PRIME) { err = "harness: priming read failed"; return false; }
			String x = SENT_S;
			readToken(*r, x);
			res.s = std::string(*x, (size_t)x.length());
			res.changed = res.s != SENT_S;
			if ((int)strlen(*x) != x.length()) { err = "String with length() " + std::to_string(x.length()) + " but a NUL at " + std::to_string(strlen(*x)); return false; }
		}
		else if (c.op == "rc") { char x = 0x5a; *r >> x; res.c = (unsigned char)x; }
		else if (c.op == "rl")
		{
			String x = SENT_S;
			bool ok;
			if (calls & 1) ok = r->readLine(x);
			else { x = r->readLine(); ok = false; res.n = -2; } // the String-returning overload has no flag
			if (res.n != -2) res.n = ok ? 1 : 0;
			res.s = std::string(*x, (size_t)x.length());
		}
		else if (c.op == "end") {}
		else if (c.op == "sf")
		{
			int iv[3] = { (int)SENT_I, (int)SENT_I, (int)SENT_I };
			double dv[3] = { SENT_D, SENT_D, SENT_D };
			char sv[3][40];
			void* p[4] = { 0, 0, 0, 0 };
			if (c.sig.size() > 3) { err = "harness: too many scanf items"; return false; }
			for (size_t i = 0; i < c.sig.size(); i++)
			{
				strcpy(sv[i], SENT_S);
				p[i] = c.sig[i] == 'd' ? (void*)&iv[i] : c.sig[i] == 'g' ? (void*)&dv[i] : (void*)sv[i];
			}
			res.n = r->scanf(String(c.fmt.c_str()), p[0], p[1], p[2], p[3]);
			for (size_t i = 0; i < c.sig.size(); i++)
			{
				Arg a;
				bool ch;
				if (c.sig[i] == 'd') { a.k = "n"; a.v = (uint32_t)iv[i]; ch = a.v != SENT_I; }
				else if (c.sig[i] == 'g') { a.k = "g"; a.d = fromDouble(dv[i], 15); ch = memcmp(&dv[i], &SENT_D, sizeof(double)) != 0; }
				else { a.k = "s"; sv[i][39] = 0; a.s = sv[i]; ch = a.s != SENT_S; }
				res.outs.push_back(a);
				res.outChanged.push_back(ch);
			}
		}
		else { err = "harness: unknown reader call " + c.op; return false; }
		res.eof = r->end();
		return true;
	}
};

inline std::string show(const std::string& s)
{
	std::string r = "\"";
	char b[8];
	for (size_t i = 0; i < s.size() && i < 80; i++)
	{
		unsigned char ch = (unsigned char)s[i];
		if (ch >= 32 && ch < 127 && ch != '"' && ch != '\\') r += (char)ch;
		else { snprintf(b, sizeof b, "\\x%02x", ch); r += b; }
	}
	if (s.size() > 80) r += "...";
	return r + "\"(" + std::to_string(s.size()) + ")";
}

}

#ifndef C16_TEXT_NO_MAIN
using vrun::Outcome;
using namespace c16t;

static TmpDir* g_tmp = 0;

#define FAIL(...) do { char _b[900]; snprintf(_b, sizeof _b, __VA_ARGS__); return Outcome::fail("step " + std::to_string(step) + " " + opname + ": " + _b); } while (0)

static Outcome runCase(const vj::Value& c)
{
	const vj::Value& hist = c["hist"];
	std::string expect = c["text"].bytes();
	Driver dr(*g_tmp);
	size_t step = 0;
	std::string opname = "init";
	bool reading = false;
	size_t reads = 0, writes = 0;
	for (step = 0; step < hist.size(); step++)
	{
		const vj::Value& o = hist[step];
		Call call = callOf(o);
		opname = call.op;
		if (call.op == "open") { dr.openWriter(call.m); continue; }
		if (call.op == "close")
		{
			std::string got = dr.closeWriter();
			if (got != expect) FAIL("the file holds %s, specification says %s", show(got).c_str(), show(expect).c_str());
			dr.openReader(call.m);
			reading = true;
			continue;
		}
		if (!reading)
		{
			writes++;
			if (!dr.write(call)) FAIL("%s", dr.err.c_str());
			continue;
		}
		reads++;
		Result res;
		if (!dr.read(call, res)) FAIL("%s", dr.err.c_str());
		if (call.op == "ri" || call.op == "ru")
		{
			bool ok = o["ok"].b;
			if (!ok && res.changed) FAIL("nothing to convert, but the variable was changed to bit pattern 0x%08x", res.v);
			if (ok && res.v != u32Of(o["v"])) FAIL("read bit pattern 0x%08x, specification says 0x%08x", res.v, u32Of(o["v"]));
		}
		else if (call.op == "rd" || call.op == "rf")
		{
			bool ok = o["ok"].b;
			if (!ok && res.changed) FAIL("nothing to convert, but the variable was changed to %s", res.d.show().c_str());
			if (ok && !(res.d == decOf(o["d"]))) FAIL("read %s, specification says %s", res.d.show().c_str(), decOf(o["d"]).show().c_str());
		}
		else if (call.op == "rs")
		{
			bool ok = o["ok"].b;
			if (!ok && res.changed && !res.s.empty()) FAIL("no token left, but the String was set to %s (must be empty or unchanged)", show(res.s).c_str());
			if (ok && res.s != o["s"].bytes()) FAIL("read token %s, specification says %s", show(res.s).c_str(), show(o["s"].bytes()).c_str());
		}
		else if (call.op == "rc")
		{
			if (o["c"].i() >= 0 && res.c != o["c"].i()) FAIL("read character %d, specification says %d", res.c, o["c"].i());
		}
		else if (call.op == "rl")
		{
			if (res.s != o["s"].bytes()) FAIL("read line %s, specification says %s", show(res.s).c_str(), show(o["s"].bytes()).c_str());
			if (res.n != -2 && o["ok"].i() >= 0 && res.n != o["ok"].i()) FAIL("readLine returned %d, specification says %d", res.n, o["ok"].i());
		}
		else if (call.op == "sf")
		{
			if (res.n != o["n"].i()) FAIL("scanf(%s) returned %d, specification says %d", show(call.fmt).c_str(), res.n, o["n"].i());
			for (size_t i = 0; i < res.outs.size(); i++)
			{
				if (i < o["a"].size())
				{
					if (!(res.outs[i] == argOf(o["a"][i]))) FAIL("scanf(%s) item %d is %s, specification says %s", show(call.fmt).c_str(), (int)i + 1, res.outs[i].json().c_str(), argOf(o["a"][i]).json().c_str());
				}
				else if (res.outChanged[i]) FAIL("scanf(%s) changed item %d (%s) although it returned %d", show(call.fmt).c_str(), (int)i + 1, res.outs[i].json().c_str(), res.n);
			}
		}
		if (res.eof != o["eof"].b) FAIL("end() is %s after the call, specification says %s", res.eof ? "true" : "false", o["eof"].b ? "true" : "false");
	}
	if (!reading)
	{
		opname = "bytes";
		std::string got = dr.peek(); // flush() of the open writer, then POSIX read
		if (got != expect) FAIL("the file holds %s after flush(), specification says %s", show(got).c_str(), show(expect).c_str());
		got = dr.closeWriter();
		if (got != expect) FAIL("the file holds %s after close(), specification says %s", show(got).c_str(), show(expect).c_str());
	}
	Outcome r;
	r.nontrivial = writes + reads >= 2;
	return r;
}

int main(int argc, char** argv)
{
	TmpDir tmp;
	g_tmp = &tmp;
	return vrun::run(argc, argv, runCase);
}
#endif
