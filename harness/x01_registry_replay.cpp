// X01 part `registry`, replayer (R): runs the call histories TLC generates from spec/RegistryShared.tla (asl::Shared<T>)
// and spec/Registry.tla (asl::Factory<T>) on the real classes under ASan+LSan.
//   shared   hist = [{op, s, t, o, x, exp: {ptr, rc, alive, dt}}...] over slots (Shared<Base> / Shared<Derived>) and
//            instrumented objects that count constructor and destructor runs; after every call the referent of every slot,
//            refcount(), aliveness and destructor counts are compared with what the specification says
//   factory  hist = [{op, name, cls, ok, names, made, d}...]; Factory<Animal> is a process-wide singleton that cannot forget,
//            so the names a case registers at run time are made unique per case ("Bird" -> "Bird#17"; the statically
//            registered "Dog" and "Kitty" are never re-registered by the generated cases) and catalog() is projected on
//            the static names and the names of the case
// Expected values come from TLC; this program only executes, projects and compares.
#include <asl/Pointer.h>
#include <asl/Factory.h>
#include <asl/String.h>
#include <asl/Map.h>
#include "vjson.h"
#include "vrun.h"
#include <string>
#include <vector>
#include <set>
#include <cstring>

using namespace asl;
using vrun::Outcome;

#define FAIL(...) do { char _b[900]; snprintf(_b, sizeof _b, __VA_ARGS__); return Outcome::fail(_b); } while (0)

// ---------------------------------------------------------------------------------------------------------- Shared<T>
static int g_ctor[10], g_dtor[10];

struct Base
{
	int id;
	explicit Base(int i) : id(i) { g_ctor[i]++; }
	virtual ~Base() { g_dtor[id]++; id = -1; }
	virtual int kind() const { return 0; }
};
struct Derived : public Base
{
	int extra;
	explicit Derived(int i) : Base(i), extra(1000 + i) {}
	int kind() const { return 1; }
};

struct Slot
{
	bool derived;
	Shared<Base>* b;
	Shared<Derived>* d;
	Slot() : derived(false), b(0), d(0) {}
};

static bool inSet(const vj::Value& set, int x)
{
	for (size_t i = 0; i < set.size(); i++) if (set[i].i() == x) return true;
	return false;
}

static std::string observe(std::vector<Slot>& slots, const vj::Value& exp, int nobjs, size_t step, const char* op)
{
	char m[400];
	for (size_t s = 0; s < slots.size(); s++)
	{
		int want = exp["ptr"][s].i(), rc = exp["rc"][s].i();
		Slot& sl = slots[s];
		bool nonempty = sl.derived ? (bool)*sl.d : (bool)*sl.b;
		bool neg = sl.derived ? !*sl.d : !*sl.b;
		if (nonempty == neg) { snprintf(m, sizeof m, "step %d (%s): operator bool and operator! of slot %d disagree", (int)step, op, (int)s + 1); return m; }
		if (want == 0)
		{
			if (nonempty) { snprintf(m, sizeof m, "step %d (%s): slot %d refers to an object, specification says it is empty", (int)step, op, (int)s + 1); return m; }
			continue;
		}
		if (!nonempty) { snprintf(m, sizeof m, "step %d (%s): slot %d is empty, specification says it refers to object %d", (int)step, op, (int)s + 1, want); return m; }
		int id = sl.derived ? (*sl.d)->id : (*sl.b)->id;
		int id2 = sl.derived ? sl.d->get()->id : sl.b->get()->id;
		int id3 = sl.derived ? (**sl.d).id : (**sl.b).id;
		int got = sl.derived ? sl.d->refcount() : sl.b->refcount();
		if (id != want || id2 != want || id3 != want) { snprintf(m, sizeof m, "step %d (%s): slot %d refers to object %d/%d/%d, specification says %d", (int)step, op, (int)s + 1, id, id2, id3, want); return m; }
		if (got != rc) { snprintf(m, sizeof m, "step %d (%s): refcount() of slot %d is %d, specification says %d", (int)step, op, (int)s + 1, got, rc); return m; }
		if (sl.derived && (*sl.d)->extra != 1000 + want) { snprintf(m, sizeof m, "step %d (%s): slot %d: Derived part of object %d damaged", (int)step, op, (int)s + 1, want); return m; }
	}
	for (int o = 1; o <= nobjs; o++)
	{
		int alive = exp["alive"][o - 1].i(), dt = exp["dt"][o - 1].i();
		if (g_dtor[o] != dt) { snprintf(m, sizeof m, "step %d (%s): destructor of object %d ran %d time(s), specification says %d", (int)step, op, o, g_dtor[o], dt); return m; }
		if (g_ctor[o] - g_dtor[o] != alive) { snprintf(m, sizeof m, "step %d (%s): object %d alive = %d, specification says %d", (int)step, op, o, g_ctor[o] - g_dtor[o], alive); return m; }
	}
	return "";
}

static Outcome caseShared(const vj::Value& c)
{
	int nslots = c["nslots"].i(), nobjs = c["nobjs"].i();
	const vj::Value& hist = c["hist"];
	for (int i = 0; i < 10; i++) g_ctor[i] = g_dtor[i] = 0;
	std::vector<Slot> slots((size_t)nslots);
	for (int s = 0; s < nslots; s++)
	{
		slots[(size_t)s].derived = inSet(c["dslots"], s + 1);
		if (slots[(size_t)s].derived) slots[(size_t)s].d = new Shared<Derived>(); else slots[(size_t)s].b = new Shared<Base>();
	}
	std::string err;
	for (size_t k = 0; k < hist.size() && err.empty(); k++)
	{
		const vj::Value& h = hist[k];
		const std::string& op = h["op"].s();
		int s = h["s"].i(), t = h["t"].i(), o = h["o"].i(), x = h["x"].i();
		Slot* S = s ? &slots[(size_t)s - 1] : 0;
		Slot* T = t ? &slots[(size_t)t - 1] : 0;
		if (op == "new")
		{
			bool dobj = inSet(c["dobjs"], o);
			if (S->derived)
			{
				if (x == 1) *S->d = new Derived(o); else *S->d = Shared<Derived>(new Derived(o));
			}
			else
			{
				Base* p = dobj ? (Base*)new Derived(o) : new Base(o);
				if (x == 1) *S->b = p; else *S->b = Shared<Base>(p);
			}
		}
		else if (op == "assign")
		{
			if (S->derived && T->derived) *S->d = *T->d;
			else if (!S->derived && !T->derived) *S->b = *T->b;
			else if (!S->derived && T->derived) *S->b = *T->d;                  // converting operator=
			else *S->d = T->b->as<Derived>();
		}
		else if (op == "copy")
		{
			if (S->derived && T->derived) { Shared<Derived>* n = new Shared<Derived>(*T->d); delete S->d; S->d = n; }
			else if (!S->derived && !T->derived) { Shared<Base>* n = new Shared<Base>(*T->b); delete S->b; S->b = n; }
			else if (!S->derived && T->derived) { Shared<Base>* n = new Shared<Base>(*T->d); delete S->b; S->b = n; }   // converting constructor
			else { Shared<Derived>* n = new Shared<Derived>(T->b->as<Derived>()); delete S->d; S->d = n; }
		}
		else if (op == "release")
		{
			if (S->derived) *S->d = Shared<Derived>(); else *S->b = Shared<Base>();
		}
		else if (op == "temp")
		{
			int got = 0, got2 = 0;
			if (T->derived) { Shared<Derived> tmp(*T->d); if (x > 0) { got = tmp.refcount(); got2 = T->d->refcount(); } }
			else { Shared<Base> tmp(*T->b); if (x > 0) { got = tmp.refcount(); got2 = T->b->refcount(); } }
			if (x > 0 && (got != x || got2 != x))
			{
				char m[200];
				snprintf(m, sizeof m, "step %d (temp): refcount() while a temporary copy of slot %d lives is %d/%d, specification says %d", (int)k + 1, t, got, got2, x);
				err = m;
			}
		}
		else err = "unknown op " + op;
		if (err.empty()) err = observe(slots, h["exp"], nobjs, k + 1, op.c_str());
	}
	for (int s = 0; s < nslots; s++) { delete slots[(size_t)s].b; delete slots[(size_t)s].d; }
	if (!err.empty()) return Outcome::fail(err);
	for (int o = 1; o <= nobjs; o++)
		if (g_ctor[o] != g_dtor[o] || g_ctor[o] > 1)
			FAIL("after all pointers are gone object %d was constructed %d and destroyed %d time(s)", o, g_ctor[o], g_dtor[o]);
	Outcome r;
	r.nontrivial = hist.size() >= 2;
	return r;
}

// ---------------------------------------------------------------------------------------------------------- Factory<T>
static int g_animals = 0;
struct Animal
{
	Animal() { g_animals++; }
	virtual ~Animal() {}
	virtual const char* cls() const = 0;
};
struct Dog : public Animal { const char* cls() const { return "Dog"; } };
struct Cat : public Animal { const char* cls() const { return "Cat"; } };
struct Bird : public Animal { const char* cls() const { return "Bird"; } };

ASL_FACTORY_REGISTER(Animal, Dog)
ASL_FACTORY_REGISTER_AS(Animal, Cat, Kitty)
static Animal* makeBird() { return new Bird(); }

typedef Animal* (*Maker)();
static Maker makerOf(const std::string& c)
{
	if (c == "Dog") return createDog;
	if (c == "Cat") return createCat;
	return makeBird;
}

static bool isStatic(const std::string& n) { return n == "Dog" || n == "Kitty"; }

static Outcome caseFactory(const vj::Value& c)
{
	static int serial = 0;
	char suffix[32];
	snprintf(suffix, sizeof suffix, "#%d", ++serial);
	const vj::Value& hist = c["hist"];
	char m[500];
	std::vector<Animal*> made;
	std::string err;
	int base = g_animals;
	for (size_t k = 0; k < hist.size() && err.empty(); k++)
	{
		const vj::Value& h = hist[k];
		const std::string& op = h["op"].s();
		std::string lname = h["name"].s();
		if (!isStatic(lname)) lname += suffix;
		String name(lname.c_str());
		if (op == "add" && isStatic(h["name"].s())) return Outcome::fail("bad case: a statically registered name is registered again");
		if (op == "add")
			Factory<Animal>::add(name, makerOf(h["cls"].s()));
		else if (op == "create")
		{
			Animal* a = Factory<Animal>::create(name);
			const vj::Value& ok = h["ok"];
			if (ok.size() == 0)
			{
				if (a) { snprintf(m, sizeof m, "step %d: create(\"%s\") returned a %s, specification says null (name not registered)", (int)k + 1, *name, a->cls()); err = m; }
			}
			else if (!a) { snprintf(m, sizeof m, "step %d: create(\"%s\") returned null, specification says an object (name registered)", (int)k + 1, *name); err = m; }
			else
			{
				bool found = false;
				for (size_t i = 0; i < ok.size(); i++) if (ok[i].s() == a->cls()) found = true;
				if (!found) { snprintf(m, sizeof m, "step %d: create(\"%s\") returned a %s, which was never registered under that name", (int)k + 1, *name, a->cls()); err = m; }
				for (size_t i = 0; i < made.size(); i++) if (made[i] == a) { snprintf(m, sizeof m, "step %d: create(\"%s\") returned an object that already exists", (int)k + 1, *name); err = m; }
			}
			if (a) made.push_back(a);
			if (err.empty() && g_animals - base != h["made"].i()) { snprintf(m, sizeof m, "step %d: %d objects constructed so far, specification says %d", (int)k + 1, g_animals - base, h["made"].i()); err = m; }
		}
		else if (op == "has")
		{
			bool got = Factory<Animal>::has(name);
			if (got != (h["made"].i() == 1)) { snprintf(m, sizeof m, "step %d: has(\"%s\") = %d, specification says %d", (int)k + 1, *name, (int)got, h["made"].i()); err = m; }
		}
		else if (op == "catalog")
		{
			Array<String> cat = Factory<Animal>::catalog();
			std::set<std::string> got, want;
			std::set<std::string> all;
			for (int i = 0; i < cat.length(); i++)
			{
				std::string n = *cat[i];
				all.insert(n);
				if (isStatic(n) || (n.size() > strlen(suffix) && n.compare(n.size() - strlen(suffix), strlen(suffix), suffix) == 0)) got.insert(n);
			}
			for (size_t i = 0; i < h["names"].size(); i++) want.insert(isStatic(h["names"][i].s()) ? h["names"][i].s() : h["names"][i].s() + suffix);
			if ((int)all.size() != cat.length()) { snprintf(m, sizeof m, "step %d: catalog() lists a name twice (%d entries, %d distinct)", (int)k + 1, cat.length(), (int)all.size()); err = m; }
			else if (got != want)
			{
				std::string g, w;
				for (std::set<std::string>::iterator i = got.begin(); i != got.end(); ++i) g += *i + " ";
				for (std::set<std::string>::iterator i = want.begin(); i != want.end(); ++i) w += *i + " ";
				snprintf(m, sizeof m, "step %d: catalog() = { %s}, specification says { %s}", (int)k + 1, g.c_str(), w.c_str());
				err = m;
			}
		}
		else if (op == "setinfo" || op == "info")
		{
			const vj::Value& d = c["dicts"][(size_t)h["d"].i() - 1];
			if (op == "setinfo")
			{
				Dic<> dic;
				for (size_t i = 0; i < d.size(); i++) dic[String(d[i]["k"].s().c_str())] = String(d[i]["v"].s().c_str());
				Factory<Animal>::setClassInfo(name, dic);
			}
			else
			{
				Dic<> got = Factory<Animal>::classInfo(name);
				if (got.length() != (int)d.size()) { snprintf(m, sizeof m, "step %d: classInfo(\"%s\") has %d entries, specification says %d", (int)k + 1, *name, got.length(), (int)d.size()); err = m; }
				for (size_t i = 0; i < d.size() && err.empty(); i++)
				{
					String key(d[i]["k"].s().c_str());
					if (!got.has(key) || got[key] != String(d[i]["v"].s().c_str()))
					{
						snprintf(m, sizeof m, "step %d: classInfo(\"%s\")[\"%s\"] = \"%s\", specification says \"%s\"", (int)k + 1, *name, *key, got.has(key) ? *got[key] : "(missing)", d[i]["v"].s().c_str());
						err = m;
					}
				}
			}
		}
		else err = "unknown op " + op;
	}
	for (size_t i = 0; i < made.size(); i++) delete made[i];
	if (!err.empty()) return Outcome::fail(err);
	Outcome r;
	r.nontrivial = hist.size() >= 2;
	return r;
}

static Outcome run(const vj::Value& c)
{
	const std::string& k = c["k"].s();
	if (k == "shared") return caseShared(c);
	if (k == "factory") return caseFactory(c);
	return Outcome::fail("unknown case kind " + k);
}

int main(int argc, char** argv) { return vrun::run(argc, argv, run); }
