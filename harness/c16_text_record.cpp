// C16 text lane, recorder (V): seeded random driver of asl::TextFile.  Each session: a writer object (opened for
// writing, for appending, or given only the path) writes up to ~30 items - ints and unsigneds with arbitrary bit
// patterns, doubles with 1..15 significant decimal digits, floats k/2^j with 1..6 digits, words (also longer than 255 bytes),
// characters, printf calls - with random whitespace separators (or none) in between, written by the caller with the
// string-writing calls; writer objects are replaced now and then; after close a reader object (opened for reading or
// given only the path) reads with random calls, mostly the one matching the item ahead.
// One ndjson event per public call; values are observed (projected), never computed:
//   {"op":"reset","m":mode}                          new session: no file, first writer object
//   {"op":"open","m":mode,"all":[bytes]}             the writer object is destroyed, a new one made; all = the file (POSIX read)
//   {"op":"wi"|"wu","v":[hi,lo],"all":[..]}          w << int / unsigned       (all = the file after flush())
//   {"op":"wd"|"wf","d":{neg,digs,exp},"all":[..]}   w << double / float (the decimal was converted with strtod)
//   {"op":"ws","s":[..],"how":h,"all":[..]}          w << String / << const char* / write / append / put
//   {"op":"wc","c":n,"all":[..]}                     w << char
//   {"op":"pf","f":[pieces],"fs":[format bytes],"a":[args],"all":[..]}    w.printf
//   {"op":"close","rm":mode,"all":[..]}              writer closed, reader object made
//   {"op":"ri"|"ru","ch":changed,"v":[hi,lo],"eof":end()}      r >> int / unsigned (variable held a sentinel before)
//   {"op":"rd"|"rf","ch":..,"d":{..},"eof":..}       r >> double / float  (projected with "%.14e" / "%.5e")
//   {"op":"rs","ch":..,"s":[..],"eof":..}            r >> String
//   {"op":"rc","c":n,"eof":..}                       r >> char
//   {"op":"rl","s":[..],"r":1|0|-2,"eof":..}         r.readLine(String&) (r = return value) / r.readLine() (r = -2)
//   {"op":"end","eof":..}                            r.end()
//   {"op":"sf","f":[pieces],"fs":[format bytes],"n":ret,"a":[items assigned],"x":changed beyond n,"eof":..}   r.scanf
// spec/Trace_TextStream.tla validates the log: TLC computes the expected bytes/values from the logged arguments.
// The recorder only picks numeric reads where the specification constrains them (a complete number written by the
// recorder ahead, a word that cannot start a number, or the end of the file): input selection, not an oracle.
#define C16_TEXT_NO_MAIN
#include "c16_text_replay.cpp"
#include "vrec.h"

using namespace vrec;
using namespace c16t;

static TmpDir* g_tmpdir = 0;
static void die(const std::string& msg)
{
	fprintf(stderr, "VREC-FAIL: %s\n", msg.c_str());
	fflush(stderr);
	if (g_tmpdir) g_tmpdir->~TmpDir();
	_exit(3);
}

struct Item { size_t off, len; char kind; };

static const char WSCH[] = { ' ', '\t', '\n', '\r', '\v', '\f' };
static bool isWs(char c) { return c == ' ' || (c >= 9 && c <= 13); }

struct Piece { std::string k; std::string s; int w; int c; };
static std::string piecesJson(const std::vector<Piece>& ps)
{
	std::string r = "[";
	for (size_t i = 0; i < ps.size(); i++)
	{
		r += i ? "," : "";
		if (ps[i].k == "lit" && ps[i].c >= 0) r += "{\"k\":\"lit\",\"c\":" + std::to_string(ps[i].c) + "}";
		else if (ps[i].k == "lit") r += "{\"k\":\"lit\",\"s\":" + vj::codes(ps[i].s) + "}";
		else if (ps[i].k == "dw") r += "{\"k\":\"dw\",\"w\":" + std::to_string(ps[i].w) + "}";
		else r += "{\"k\":\"" + ps[i].k + "\"}";
	}
	return r + "]";
}
static Piece P(const char* k) { Piece p; p.k = k; p.w = 0; p.c = -1; return p; }
static Piece L(const char* s) { Piece p; p.k = "lit"; p.s = s; p.w = 0; p.c = -1; return p; }
static Piece LC(char c) { Piece p; p.k = "lit"; p.w = 0; p.c = (unsigned char)c; return p; }
static Piece W(int w) { Piece p; p.k = "dw"; p.w = w; p.c = -1; return p; }

struct Session
{
	Rng& rng;
	Log& log;
	Driver dr;
	std::string content; // the file as last observed
	std::vector<Item> items;
	bool readerUsed;

	Session(Rng& r, Log& l, const TmpDir& t) : rng(r), log(l), dr(t), readerUsed(false) {}

	uint32_t pattern()
	{
		int k = rng.below(10);
		if (k == 0) return 0;
		if (k == 1) return 0xffffffffu;
		if (k == 2) return 0x80000000u;
		if (k == 3) return 0x7fffffffu;
		if (k == 4) return (uint32_t)rng.below(100);
		if (k == 5) return (uint32_t)(-rng.range(1, 100000));
		return (uint32_t)rng.next();
	}
	Dec decimal(int maxdig, int maxexp)
	{
		Dec d;
		d.neg = rng.chance(35);
		if (rng.chance(4)) return d; // zero (or minus zero)
		int n = rng.chance(50) ? rng.range(1, 3) : rng.range(1, maxdig);
		for (int i = 0; i < n; i++) d.digs += (char)rng.below(10);
		if (d.digs[0] == 0) d.digs[0] = (char)rng.range(1, 9);
		if (d.digs[(size_t)n - 1] == 0) d.digs[(size_t)n - 1] = (char)rng.range(1, 9);
		d.exp = rng.chance(70) ? rng.range(-6, 17) : rng.chance(80) ? rng.range(-maxexp / 10, maxexp / 10) : rng.range(-maxexp, maxexp);
		return d;
	}
	// a decimal that a float holds exactly (String(float) prints 7 digits, one more than a float guarantees):
	// n / 2^j with at most 6 significant digits, computed as the decimal (n * 5^j) / 10^j
	Dec floatExact()
	{
		Dec d;
		d.neg = rng.chance(35);
		int j = rng.below(4);
		long n = j == 0 ? rng.range(0, 999999) : j == 1 ? rng.range(1, 99999) : j == 2 ? rng.range(1, 9999) : rng.range(1, 999);
		if (rng.chance(30)) n = rng.range(0, 20);
		long N = n;
		for (int i = 0; i < j; i++) N *= 5;
		std::string ds = std::to_string(N);
		if (N == 0) return d;
		d.exp = (int)ds.size() - 1 - j;
		for (size_t i = 0; i < ds.size(); i++) d.digs += (char)(ds[i] - '0');
		while (!d.digs.empty() && d.digs[d.digs.size() - 1] == 0) d.digs.erase(d.digs.size() - 1);
		return d;
	}
	std::string word(bool glued)
	{
		int n = rng.chance(4) ? rng.range(250, 600) : rng.range(1, 12);
		std::string s;
		for (int i = 0; i < n; i++)
		{
			int c;
			do c = rng.chance(90) ? rng.range(33, 126) : rng.range(128, 255); while (isWs((char)c));
			s += (char)c;
		}
		// the first character never starts a number; an 'i' only directly after another item
		static const char FIRST[] = "abcdfghjklmopqrstuvwyzABCDXYZ_#~/(";
		s[0] = FIRST[rng.below((int)sizeof FIRST - 1)];
		if (glued && rng.chance(40)) s[0] = 'i';
		return s;
	}

	void observe(const std::string& ev, bool isItem, char kind)
	{
		std::string now = dr.peek();
		if (isItem)
		{
			size_t before = content.size();
			if (now.size() < before || now.compare(0, before, content) != 0) { items.clear(); before = 0; } // the file was truncated by this call
			Item it = { before, now.size() - before, kind };
			items.push_back(it);
		}
		else if (now.size() < content.size()) items.clear();
		content = now;
		log.line(ev + ",\"all\":" + vj::codes(now) + "}");
	}

	void writeString(const std::string& s, bool isItem)
	{
		static const char* HOWS[] = { "str", "cstr", "write", "append", "put" };
		Call c;
		c.op = "ws";
		c.s = s;
		c.how = HOWS[rng.below(5)];
		if (!dr.write(c)) die(dr.err);
		observe("{\"op\":\"ws\",\"s\":" + vj::codes(s) + "," + ks("how", c.how), isItem, 'w');
	}

	void writeItem(bool glued)
	{
		int k = rng.below(100);
		Call c;
		if (k < 22) { c.op = "wi"; c.v = pattern(); if (!dr.write(c)) die(dr.err); observe("{\"op\":\"wi\",\"v\":" + limbs(c.v), true, 'i'); }
		else if (k < 34) { c.op = "wu"; c.v = pattern(); if (!dr.write(c)) die(dr.err); observe("{\"op\":\"wu\",\"v\":" + limbs(c.v), true, 'u'); }
		else if (k < 56) { c.op = "wd"; c.d = decimal(15, 300); if (!dr.write(c)) die(dr.err); observe("{\"op\":\"wd\",\"d\":" + c.d.json(), true, 'd'); }
		else if (k < 66) { c.op = "wf"; c.d = floatExact(); if (!dr.write(c)) die(dr.err); observe("{\"op\":\"wf\",\"d\":" + c.d.json(), true, 'f'); }
		else if (k < 84) writeString(word(glued), true);
		else if (k < 88)
		{
			c.op = "wc";
			do c.c = rng.range(33, 126); while (strchr("+-.0123456789iInN", c.c));
			if (!dr.write(c)) die(dr.err);
			observe("{\"op\":\"wc\",\"c\":" + std::to_string(c.c), true, 'w');
		}
		else
		{
			// printf with one of a few fixed formats
			std::vector<Piece> ps;
			int f = rng.below(7);
			c.op = "pf";
			Arg a;
			if (f == 0) { ps.push_back(P("d")); ps.push_back(L(" ")); ps.push_back(P("s")); ps.push_back(L("\n")); }
			else if (f == 1) { ps.push_back(P("g")); }
			else if (f == 2) { ps.push_back(P("s")); ps.push_back(L("=")); ps.push_back(W(rng.range(1, 12))); ps.push_back(L(";")); }
			else if (f == 3) { ps.push_back(P("i")); ps.push_back(L("\t")); ps.push_back(P("u")); ps.push_back(L("\r\n")); }
			else if (f == 4) { ps.push_back(P("d")); ps.push_back(L(" ")); ps.push_back(P("s")); ps.push_back(L(" ")); ps.push_back(P("g")); }
			else if (f == 5) { ps.push_back(P("c")); ps.push_back(P("c")); }
			else { ps.push_back(L("n=")); ps.push_back(P("u")); }
			std::string args = "[";
			for (size_t i = 0; i < ps.size(); i++)
			{
				const std::string& pk = ps[i].k;
				if (pk == "lit") { c.fmt += ps[i].s; continue; }
				if (pk == "dw") c.fmt += "%" + std::to_string(ps[i].w) + "d"; else c.fmt += "%" + pk;
				Arg g;
				if (pk == "d" || pk == "i" || pk == "dw") { g.k = "n"; g.v = pattern(); c.sig += "d"; }
				else if (pk == "u") { g.k = "n"; g.v = pattern(); c.sig += "u"; }
				else if (pk == "s") { g.k = "s"; g.s = word(false); if (g.s.size() > 40) g.s.resize(40); c.sig += "s"; }
				else if (pk == "g") { g.k = "g"; g.d = decimal(6, 300); c.sig += "g"; }
				else { g.k = "c"; g.c = rng.range(48, 57); c.sig += "c"; }
				c.args.push_back(g);
				args += (c.args.size() > 1 ? "," : "") + g.json();
			}
			args += "]";
			if (!dr.write(c)) die(dr.err);
			observe("{\"op\":\"pf\",\"f\":" + piecesJson(ps) + ",\"fs\":" + vj::codes(c.fmt) + ",\"a\":" + args, false, 'p');
		}
	}

	// ---- reading ----
	size_t skipWs(size_t p) const { while (p < content.size() && isWs(content[p])) p++; return p; }
	size_t tokEnd(size_t p) const { while (p < content.size() && !isWs(content[p])) p++; return p; }
	// may a numeric read of kind k ('i','u','d','f') be tried on what follows position p?  (where the specification speaks)
	bool safeFor(char k, size_t p) const
	{
		size_t a = skipWs(p), b = tokEnd(a);
		if (a >= content.size()) return true;
		if (!strchr("+-.0123456789iInN", content[a])) return true;
		for (size_t i = 0; i < items.size(); i++)
		{
			const Item& it = items[i];
			if (it.off != a || it.len == 0) continue;
			size_t e = it.off + it.len;
			if (e > b) return false;
			if (e < b && !(isalpha((unsigned char)content[e]) && !strchr("eExX", content[e]))) return false;
			if (k == 'i') return it.kind == 'i';
			if (k == 'u') return it.kind == 'u' || (it.kind == 'i' && content[a] != '-');
			if (k == 'd') return it.kind == 'i' || it.kind == 'u' || it.kind == 'd' || it.kind == 'f';
			return it.kind == 'f';
		}
		return false;
	}
	char kindAhead(size_t p) const
	{
		size_t a = skipWs(p);
		for (size_t i = 0; i < items.size(); i++)
			if (items[i].off == a) return items[i].kind;
		return 0;
	}

	void readOne()
	{
		size_t pos = readerUsed ? (size_t)dr.r->position() : 0;
		readerUsed = true;
		char ahead = kindAhead(pos);
		std::vector<std::string> cand;
		const char* ALWAYS[] = { "rs", "rc", "rl", "end", "sfS" };
		for (int i = 0; i < 5; i++) cand.push_back(ALWAYS[i]);
		if (safeFor('i', pos)) { cand.push_back("ri"); cand.push_back("sfd"); cand.push_back("sfd,d"); cand.push_back("sfd_"); }
		if (safeFor('u', pos)) cand.push_back("ru");
		if (safeFor('d', pos)) { cand.push_back("rd"); cand.push_back("sfF"); }
		if (safeFor('f', pos)) cand.push_back("rf");
		std::string pick;
		const char* match = ahead == 'i' ? "ri" : ahead == 'u' ? "ru" : ahead == 'd' ? "rd" : ahead == 'f' ? "rf" : ahead == 'w' ? "rs" : "";
		if (*match && rng.chance(65))
			for (size_t i = 0; i < cand.size(); i++) if (cand[i] == match) pick = match;
		if (pick.empty()) pick = cand[(size_t)rng.below((int)cand.size())];
		// two-item formats need the token after the next one to be safe as well
		if (pick == "sfd" && rng.chance(50) && safeFor('i', tokEnd(skipWs(pos))) && kindAhead(pos) == 'i') pick = "sfd d";
		if (pick == "sfS" && rng.chance(50) && safeFor('d', tokEnd(skipWs(pos))) && tokEnd(skipWs(pos)) - skipWs(pos) <= 31) pick = "sfS F";

		Call c;
		Result res;
		std::vector<Piece> ps;
		if (pick.compare(0, 2, "sf") == 0)
		{
			c.op = "sf";
			for (size_t i = 2; i < pick.size(); i++)
			{
				char ch = pick[i];
				if (ch == 'd') { ps.push_back(P("d")); c.fmt += "%d"; c.sig += "d"; }
				else if (ch == 'F') { ps.push_back(P("F")); c.fmt += "%lf"; c.sig += "g"; }
				else if (ch == 'S') { ps.push_back(P("S")); c.fmt += "%31s"; c.sig += "s"; }
				else if (ch == ' ' || ch == '_') { ps.push_back(P("ws")); c.fmt += " "; }
				else { ps.push_back(LC(ch)); c.fmt += ch; }
			}
		}
		else c.op = pick;
		if (!dr.read(c, res)) die(dr.err);
		std::string e = "{" + ks("op", c.op) + ",";
		if (c.op == "ri" || c.op == "ru") e += std::string("\"ch\":") + (res.changed ? "true" : "false") + ",\"v\":" + limbs(res.v) + ",";
		else if (c.op == "rd" || c.op == "rf") e += std::string("\"ch\":") + (res.changed ? "true" : "false") + ",\"d\":" + res.d.json() + ",";
		else if (c.op == "rs") e += std::string("\"ch\":") + (res.changed ? "true" : "false") + ",\"s\":" + vj::codes(res.s) + ",";
		else if (c.op == "rc") e += "\"c\":" + std::to_string(res.c) + ",";
		else if (c.op == "rl") e += "\"s\":" + vj::codes(res.s) + ",\"r\":" + std::to_string(res.n) + ",";
		else if (c.op == "sf")
		{
			std::string a = "[";
			bool extra = false;
			for (size_t i = 0; i < res.outs.size(); i++)
			{
				if ((int)i < res.n) a += (i ? "," : "") + res.outs[i].json();
				else if (res.outChanged[i]) extra = true;
			}
			e += "\"f\":" + piecesJson(ps) + ",\"fs\":" + vj::codes(c.fmt) + ",\"n\":" + std::to_string(res.n) + ",\"a\":" + a + "],\"x\":" + (extra ? "true" : "false") + ",";
		}
		log.line(e + "\"eof\":" + (res.eof ? "true" : "false") + "}");
	}

	void run(long budget)
	{
		static const char* WM[] = { "W", "A", "L" };
		std::string m = WM[rng.below(3)];
		dr.openWriter(m);
		log.line("{\"op\":\"reset\"," + ks("m", m) + "}");
		int nw = rng.range(1, 30);
		if (nw > budget) nw = (int)budget;
		bool first = true;
		for (int i = 0; i < nw; i++)
		{
			if (rng.chance(6))
			{
				m = WM[rng.below(3)];
				dr.openWriter(m);
				std::string now = posixRead(dr.path);
				if (now.size() < content.size()) items.clear();
				content = now;
				log.line("{\"op\":\"open\"," + ks("m", m) + ",\"all\":" + vj::codes(now) + "}");
			}
			bool glued = false;
			if (!first || !content.empty())
			{
				if (rng.chance(88))
				{
					std::string sep;
					int n = rng.chance(60) ? 1 : rng.range(2, 4);
					for (int j = 0; j < n; j++) sep += rng.chance(12) ? std::string("\r\n") : std::string(1, WSCH[rng.below(rng.chance(90) ? 3 : 6)]);
					if (sep.size() == 1 && rng.chance(30))
					{
						Call c;
						c.op = "wc";
						c.c = (unsigned char)sep[0];
						if (!dr.write(c)) die(dr.err);
						observe("{\"op\":\"wc\",\"c\":" + std::to_string(c.c), false, 0);
					}
					else writeString(sep, false);
				}
				else glued = true;
			}
			first = false;
			writeItem(glued);
		}
		if (rng.chance(50)) writeString(rng.chance(50) ? "\n" : " \r\n", false);
		std::string all = dr.closeWriter();
		content = all;
		std::string rm = rng.chance(50) ? "R" : "L";
		dr.openReader(rm);
		log.line("{\"op\":\"close\"," + ks("rm", rm) + ",\"all\":" + vj::codes(all) + "}");
		int after = 0;
		for (int i = 0; i < 3 * nw + 8 && after < 4; i++)
		{
			readOne();
			if (dr.r->end()) after++;
		}
	}
};

int main(int argc, char** argv)
{
	Args args(argc, argv);
	if (args.out.empty()) { fprintf(stderr, "usage: c16_text_record --seed N --events N --out FILE\n"); return 2; }
	TmpDir tmp;
	g_tmpdir = &tmp;
	Rng rng(args.seed);
	Log log(args.out);
	while (log.lines < args.events)
	{
		Session s(rng, log, tmp);
		s.run(args.events - log.lines);
	}
	return 0;
}
