// C11 (growth) replayer parts (R), included by c11_replay.cpp:
//   "conn"  spec/WsConn.tla  a script of calls on the two ends of one connection (library <-> raw, library <-> library over a
//           real WebSocketServer with its own threads), each with the result the specification prescribes, followed by the
//           epilogue (everything still owed is delivered, the documented receive loop ends, the bytes a library end wrote are
//           exactly the frames the specification lists)
//   "hub"   spec/WsHub.tla   N clients of one WebSocketServer: isolation, clients(), broadcast, close from either side
//   "hsx"   spec/WsFrameHs.tla  connect() failure modes and a WebSocketServer linked to an HttpServer
#ifndef C11_CONN_RUN_H
#define C11_CONN_RUN_H
#include "c11_conn.h"
#include "vrun.h"

namespace c11 {

static std::vector<Session*> g_sessions; // (kept reachable: a connection thread may still be leaving serve())
inline Session* newSession() { Session* s = new Session; g_sessions.push_back(s); return s; }

static std::string showB(const std::string& s)
{
	std::string r = "\"";
	char b[8];
	for (size_t i = 0; i < s.size() && i < 60; i++)
	{
		unsigned char c = (unsigned char)s[i];
		if (c >= 32 && c < 127 && c != '"' && c != '\\') r += (char)c;
		else { snprintf(b, sizeof b, "\\x%02x", c); r += b; }
	}
	if (s.size() > 60) r += "...";
	char n[32];
	snprintf(n, sizeof n, "\"(%zu)", s.size());
	return r + n;
}

struct ConnRun
{
	bool libC, libS;
	WebSocket* client;      // library client object
	Session* sess;          // library server end
	RawEnd raw;             // the raw end (at most one)
	bool rawIsClient;
	bool opened;
	std::string err;
	char buf[256];
	ConnRun() : libC(false), libS(false), client(0), sess(0), rawIsClient(false), opened(false) {}
	~ConnRun() { delete client; }

	LibEnd end(const std::string& side)
	{
		LibEnd e;
		if (side == "c") e.own = client;
		else e.sess = sess;
		return e;
	}
	bool isLib(const std::string& side) const { return side == "c" ? libC : libS; }

	bool open(const vj::Value& op)
	{
		if (libS)
		{
			ScriptServer* srv = theServer();
			sess = newSession();
			srv->expect(sess);
			if (libC)
			{
				char url[64];
				snprintf(url, sizeof url, "ws://127.0.0.1:%d/chat", srv->port);
				if (!client->connect(url)) { srv->unexpect(sess); err = "connect() to a WebSocketServer on loopback failed"; return false; }
			}
			else
			{
				raw.fd = connectLoopback(srv->port);
				if (raw.fd < 0) { srv->unexpect(sess); err = "harness: cannot connect to the server"; return false; }
				rawIsClient = true;
				std::string head;
				if (!raw.writeBytes(op["req"].bytes()) || !readHead(raw.fd, head)) { srv->unexpect(sess); err = "no response to the upgrade request"; return false; }
				if (head.compare(0, 12, "HTTP/1.1 101") != 0) { srv->unexpect(sess); err = "upgrade request refused: " + showB(head); return false; }
				if (headValue(head, "sec-websocket-accept") != op["accept"].bytes())
				{
					err = "Sec-WebSocket-Accept " + showB(headValue(head, "sec-websocket-accept")) + " expected " + showB(op["accept"].bytes());
					return false;
				}
				raw.startReader();
			}
			if (!sess->waitFlag(sess->attached, 10.0)) { srv->unexpect(sess); err = "serve(WebSocket&) was not called within 10 s of the handshake"; return false; }
		}
		else
		{
			RawAcceptor* acc = theAcceptor();
			RawAcceptor::Job job;
			acc->start(job);
			char url[64];
			snprintf(url, sizeof url, "ws://127.0.0.1:%d/chat", acc->port);
			bool ok = client->connect(url);
			if (!ok)
			{
				acc->join(job);
				if (job.fd >= 0) close(job.fd);
				err = "connect() failed against a server that answered with a valid 101 response";
				return false;
			}
			acc->join(job);
			if (job.fd < 0) { err = "harness: raw server did not get the connection"; return false; }
			raw.fd = job.fd;
			rawIsClient = false;
			raw.startReader();
		}
		opened = true;
		return true;
	}

	// that was the last input in front of the peer's close: the loop's closed() must now be true
	bool endsCheck(const vj::Value& op, LibEnd& e, const std::string& side)
	{
		if (!op["ends"].b) return true;
		Cmd q(Cmd::CLOSED);
		q.expect = true;
		e.run(q);
		if (!q.err.empty()) { err = "closed (" + side + "): " + q.err; return false; }
		if (!q.flag) { err = "closed() is false although the peer has closed and everything it sent has been read (" + side + ")"; return false; }
		return true;
	}
	// one step of the script; returns false and sets err on a mismatch
	bool step(const vj::Value& op)
	{
		std::string o = op["op"].s(), side = op["side"].s();
		if (o == "open") return open(op);
		if (o == "raw")
		{
			const vj::Value& fs = op["frames"];
			std::string w;
			for (size_t i = 0; i < fs.size(); i++) w += frameBytes(fs[i]);
			raw.writeBytes(w); // (fails when the library end has closed already: whatever is wrong then shows elsewhere)
			return true;
		}
		if (o == "close" && !isLib(side)) { raw.halfClose(); return true; }
		LibEnd e = end(side);
		if (!opened && side == "s") { err = "harness: server end used before open"; return false; }
		if (o == "send")
		{
			Cmd c(Cmd::SEND);
			expand(c.data, (long)op["len"].ll(), (long)op["seed"].ll());
			c.opc = op["opc"].i();
			e.run(c);
			if (!c.err.empty()) { err = "send: " + c.err; return false; }
			return true; // (what was written is compared at the end; a no-op send must have written nothing)
		}
		if (o == "ping" || o == "sclose")
		{
			Cmd c(o == "ping" ? Cmd::PING : Cmd::SCLOSE);
			c.data = op["pl"].bytes();
			e.run(c);
			if (!c.err.empty()) { err = o + ": " + c.err; return false; }
			return true;
		}
		if (o == "close")
		{
			Cmd c(Cmd::CLOSE);
			e.run(c);
			if (!c.err.empty()) { err = "close: " + c.err; return false; }
			if (!c.flag) { err = "closed() is false right after close()"; return false; }
			return true;
		}
		if (o == "recv")
		{
			Cmd c(Cmd::RECV);
			std::string res = op["res"].s();
			c.expect = res != "msg"; // the end of the connection is due
			e.run(c);
			if (!c.err.empty()) { err = "receive (" + side + "): " + c.err; return false; }
			if (res == "msg")
			{
				std::string want;
				expand(want, (long)op["len"].ll(), (long)op["seed"].ll());
				if (!c.flag) { err = "the connection ended (closed() true) although a complete message of " + std::to_string(want.size()) + " bytes sent before the close was due (" + side + ")"; return false; }
				if (c.msg != want)
				{
					size_t i = 0;
					while (i < want.size() && i < c.msg.size() && want[i] == c.msg[i]) i++;
					snprintf(buf, sizeof buf, "message of %zu bytes differs from the %zu bytes sent (first difference at offset %zu)", c.msg.size(), want.size(), i);
					err = buf;
					return false;
				}
				return endsCheck(op, e, side);
			}
			// the end of the connection is due: close frame (code, reason) or the peer's TCP close
			std::string reason = op["reason"].bytes();
			int extra = 0;
			while (c.flag) // a delivery instead of the end: the close reason handed over as a message, or one torn message
			{
				bool isReason = !reason.empty() && c.msg == reason;
				if (!isReason && !(op["partial"].b && extra == 0)) { err = "a message " + showB(c.msg) + " was delivered where the end of the connection was due (" + side + ")"; return false; }
				if (!isReason) extra++;
				if (c.closedAfter) { c.flag = false; break; }
				Cmd d(Cmd::RECV);
				d.expect = true;
				e.run(d);
				if (!d.err.empty()) { err = "receive (" + side + "): " + d.err; return false; }
				c = d;
			}
			int code = op["code"].i();
			if (code != 0 && c.code != code) { snprintf(buf, sizeof buf, "code() = %d after a close frame with status code %d", c.code, code); err = buf; return false; }
			Cmd q(Cmd::CLOSED);
			q.expect = false;
			e.run(q);
			if (!q.flag) { err = "closed() is false after the receive loop ended"; return false; }
			return true;
		}
		if (o == "poll")
		{
			Cmd c(Cmd::POLL);
			c.n = op["n"].i();
			e.run(c);
			if (!c.err.empty()) { err = "poll (" + side + "): " + c.err; return false; }
			return endsCheck(op, e, side);
		}
		if (o == "wait" || o == "hasinput" || o == "closed")
		{
			Cmd c(o == "wait" ? Cmd::WAIT : o == "hasinput" ? Cmd::HASINPUT : Cmd::CLOSED);
			c.expect = op["exp"].b;
			e.run(c);
			if (!c.err.empty()) { err = o + " (" + side + "): " + c.err; return false; }
			if (c.flag != c.expect)
			{
				if (o == "wait" && c.expect) err = "wait() returned false although input (or the peer's close) was pending: lost wake-up (" + side + ")";
				else if (o == "wait") err = "wait() returned true although nothing had happened (" + side + ")";
				else err = o + "() returned " + (c.flag ? "true" : "false") + ", expected " + (c.expect ? "true" : "false") + " (" + side + ")";
				return false;
			}
			if (o == "wait" && !c.expect && c.secs < 0.02) { err = "wait(0.03) returned false before the time-out"; return false; }
			if (o == "wait" && c.expect && c.secs > 4.0) { err = "wait() noticed pending input only after seconds"; return false; }
			return true;
		}
		err = "harness: unknown op " + o;
		return false;
	}

	// deliveries still owed to a library end, then the end of the connection
	bool drain(const std::string& side, const vj::Value& left)
	{
		LibEnd e = end(side);
		for (size_t i = 0; i < left.size(); i++)
		{
			Cmd c(Cmd::RECV);
			e.run(c);
			std::string want;
			expand(want, (long)left[i]["len"].ll(), (long)left[i]["seed"].ll());
			if (!c.err.empty()) { err = "epilogue receive (" + side + "): " + c.err; return false; }
			if (!c.flag)
			{
				snprintf(buf, sizeof buf, "message %zu of %zu still owed to end %s (%zu bytes) was lost: the connection counts as closed", i + 1, left.size(), side.c_str(), want.size());
				err = buf;
				return false;
			}
			if (c.msg != want) { snprintf(buf, sizeof buf, "message %zu still owed to end %s differs from what was sent (%zu bytes, expected %zu)", i + 1, side.c_str(), c.msg.size(), want.size()); err = buf; return false; }
		}
		return true;
	}
	bool finishLoop(const std::string& side, bool tolerant, int extraAllowed, const std::string& reason, const vj::Value& left)
	{
		LibEnd e = end(side);
		Cmd c(Cmd::FINISH);
		e.run(c);
		if (!c.err.empty()) { err = "receive loop (" + side + "): " + c.err; return false; }
		if (tolerant)
		{
			// connection reset under this end: what it still gets must be a prefix of what was sent
			size_t k = 0;
			for (size_t i = 0; i < c.msgs.size(); i++)
			{
				std::string want;
				if (k < left.size()) expand(want, (long)left[k]["len"].ll(), (long)left[k]["seed"].ll());
				if (k < left.size() && c.msgs[i] == want) { k++; continue; }
				if (i + 1 == c.msgs.size()) break; // one torn / reason delivery at the very end
				err = "after a reset, end " + side + " received something that was not sent in this order: " + showB(c.msgs[i]);
				return false;
			}
			return true;
		}
		int extra = 0;
		for (size_t i = 0; i < c.msgs.size(); i++)
		{
			if (!reason.empty() && c.msgs[i] == reason) continue;
			if (++extra > extraAllowed) { err = "the receive loop of end " + side + " delivered a message nobody sent: " + showB(c.msgs[i]); return false; }
		}
		if (!c.flag) { err = "closed() is false after the receive loop ended (" + side + ")"; return false; }
		return true;
	}
};

static bool live(const std::string& st) { return st == "OPEN" || st == "CLOSING"; }

static vrun::Outcome runConn(const vj::Value& c)
{
	ConnRun R;
	R.libC = c["kc"].s() == "lib";
	R.libS = c["ks"].s() == "lib";
	if (R.libC) R.client = new WebSocket;
	const vj::Value& hist = c["hist"];
	vrun::Outcome out;
	out.nontrivial = hist.size() > 1;
	for (size_t i = 0; i < hist.size(); i++)
	{
		if (!R.step(hist[i]))
		{
			char b[64];
			snprintf(b, sizeof b, "step %zu (%s): ", i + 1, hist[i]["op"].s().c_str());
			if (R.sess) { Cmd e(Cmd::END); R.sess->run(e); }
			if (R.raw.fd >= 0) R.raw.halfClose();
			if (R.client) R.client->close();
			return vrun::Outcome::fail(b + R.err);
		}
	}
	// ---- epilogue ----
	std::string stc = c["st"]["c"].s(), sts = c["st"]["s"].s();
	bool rstc = c["rst"]["c"].b, rsts = c["rst"]["s"].b;
	std::string fail;
	if (R.opened)
	{
		const char* sides[2] = {"c", "s"};
		for (int k = 0; k < 2 && fail.empty(); k++)
		{
			std::string S = sides[k];
			if (R.isLib(S) && live(c["st"][S.c_str()].s()) && !c["rst"][S.c_str()].b)
				if (!R.drain(S, c["left"][S.c_str()])) fail = R.err;
		}
		if (fail.empty())
		{
			if (!R.libC || !R.libS)
			{
				std::string L = R.libC ? "c" : "s";
				R.raw.halfClose();
				bool lrst = c["rst"][L.c_str()].b;
				if (live(c["st"][L.c_str()].s()))
				{
					static vj::Value none;
					int extra = (c["torn"][L.c_str()].b ? 1 : 0);
					if (!R.finishLoop(L, lrst, extra, c["creason"][L.c_str()].bytes(), none)) fail = R.err;
				}
			}
			else
			{
				// both ends are the library: the client closes first (if it still can), the server's loop must end; or the other way round
				if (live(stc) && live(sts))
				{
					static vj::Value none;
					if (c["cpend"]["c"].b)
					{
						// a close frame is on its way to the client: its loop ends there
						if (!R.finishLoop("c", rstc, 0, c["creason"]["c"].bytes(), none)) fail = R.err;
					}
					else
					{
						// the client reads what is left (control frames), then closes with nothing unread: no reset
						Cmd pl(Cmd::POLL);
						pl.n = c["trail"]["c"].i();
						if (pl.n > 0) R.end("c").run(pl);
						if (!pl.err.empty()) fail = "epilogue poll (c): " + pl.err;
						Cmd cl(Cmd::CLOSE);
						R.end("c").run(cl);
					}
					if (fail.empty() && !R.finishLoop("s", rsts, 0, c["creason"]["s"].bytes(), none)) fail = R.err;
				}
				else if (live(sts))
				{
					if (!R.finishLoop("s", rsts, 0, c["creason"]["s"].bytes(), c["left"]["s"])) fail = R.err;
				}
				else if (live(stc))
				{
					if (!R.finishLoop("c", rstc, 0, c["creason"]["c"].bytes(), c["left"]["c"])) fail = R.err;
				}
			}
		}
	}
	// release the ends
	if (R.sess && R.sess->attached) { Cmd e(Cmd::END); R.sess->run(e); }
	if (R.client) R.client->close();
	if (fail.empty() && R.opened && (!R.libC || !R.libS))
	{
		std::string L = R.libC ? "c" : "s", W = R.libC ? "s" : "c";
		std::string& cap = R.raw.finish();
		fail = matchWrote(cap, c["wrote"][L.c_str()], c["owed"][L.c_str()], R.libC, c["rst"][W.c_str()].b, true);
	}
	if (!fail.empty()) return vrun::Outcome::fail(fail);
	return out;
}

// ---- "hub": N library clients of one WebSocketServer ------------------------------------------------------------------------
static bool waitCount(ScriptServer* srv, int want, int& got)
{
	static bool broken = false; // once clients() has been found wrong there is no point in waiting 5 s in every later case
	double t0 = nowSec();
	for (;;)
	{
		got = srv->numClients();
		if (got == want) return true;
		if (broken || nowSec() - t0 > 5.0) { broken = true; return false; }
		usleep(200);
	}
}

static vrun::Outcome runHub(const vj::Value& c)
{
	ScriptServer* srv = theServer();
	int n = c["n"].i();
	std::vector<WebSocket*> cl((size_t)n + 1, (WebSocket*)0);
	std::vector<Session*> se((size_t)n + 1, (Session*)0);
	std::vector<bool> ended((size_t)n + 1, false);
	const vj::Value& hist = c["hist"];
	std::string fail;
	char b[256];
	int base = 0;
	if (!waitCount(srv, 0, base)) fail = "clients() still lists connections whose serve() returned in an earlier case";
	for (size_t i = 0; i < hist.size() && fail.empty(); i++)
	{
		const vj::Value& op = hist[i];
		std::string o = op["op"].s();
		int k = op["c"].i();
		LibEnd e;
		if (o[0] == 'c' && o != "connect" && o != "count") e.own = cl[(size_t)k];
		else if (o[0] == 's') e.sess = se[(size_t)k];
		if (o == "connect")
		{
			se[(size_t)k] = newSession();
			srv->expect(se[(size_t)k]);
			cl[(size_t)k] = new WebSocket;
			char url[64];
			snprintf(url, sizeof url, "ws://127.0.0.1:%d/hub%d", srv->port, k);
			if (!cl[(size_t)k]->connect(url)) { srv->unexpect(se[(size_t)k]); fail = "connect() to the WebSocketServer failed"; break; }
			if (!se[(size_t)k]->waitFlag(se[(size_t)k]->attached, 10.0)) { srv->unexpect(se[(size_t)k]); fail = "serve(WebSocket&) was not called within 10 s"; break; }
			int got = 0;
			if (!waitCount(srv, op["count"].i(), got)) { snprintf(b, sizeof b, "clients().length() = %d after connection %d, expected %d", got, k, op["count"].i()); fail = b; }
		}
		else if (o == "csend" || o == "ssend")
		{
			Cmd cmd(Cmd::SEND);
			expand(cmd.data, (long)op["m"]["len"].ll(), (long)op["m"]["seed"].ll());
			cmd.opc = op["m"]["n"].i() % 2 ? 1 : 2;
			e.run(cmd);
			if (!cmd.err.empty()) fail = o + ": " + cmd.err;
		}
		else if (o == "broadcast")
		{
			std::string data;
			expand(data, (long)op["len"].ll(), (long)op["seed"].ll());
			int got = srv->broadcast(data, 1);
			if (got != op["count"].i()) { snprintf(b, sizeof b, "broadcast went to %d entries of clients(), expected %d", got, op["count"].i()); fail = b; }
		}
		else if (o == "crecv" || o == "srecv")
		{
			Cmd cmd(Cmd::RECV);
			e.run(cmd);
			std::string want;
			expand(want, (long)op["m"]["len"].ll(), (long)op["m"]["seed"].ll());
			if (!cmd.err.empty()) fail = o + ": " + cmd.err;
			else if (!cmd.flag) { snprintf(b, sizeof b, "%s on connection %d: the connection counts as closed although message %d (%zu bytes) is due", o.c_str(), k, op["m"]["n"].i(), want.size()); fail = b; }
			else if (cmd.msg != want)
			{
				snprintf(b, sizeof b, "%s on connection %d: received %zu bytes that are not message %d of this connection and direction (%zu bytes): ", o.c_str(), k, cmd.msg.size(), op["m"]["n"].i(), want.size());
				fail = b + showB(cmd.msg);
			}
		}
		else if (o == "cclose" || o == "sclose")
		{
			Cmd cmd(Cmd::CLOSE);
			e.run(cmd);
			if (!cmd.err.empty()) fail = o + ": " + cmd.err;
			else if (!cmd.flag) fail = "closed() is false right after close()";
		}
		else if (o == "csees" || o == "ssees")
		{
			Cmd cmd(Cmd::CLOSED);
			cmd.expect = op["exp"].b;
			e.run(cmd);
			if (!cmd.err.empty()) fail = o + ": " + cmd.err;
			else if (cmd.flag != cmd.expect) { snprintf(b, sizeof b, "closed() on the %s end of connection %d returned %s, expected %s", o[0] == 'c' ? "client" : "server", k, cmd.flag ? "true" : "false", cmd.expect ? "true" : "false"); fail = b; }
		}
		else if (o == "send_")
		{
			Cmd cmd(Cmd::END);
			e.run(cmd);
			ended[(size_t)k] = true;
			int got = 0;
			if (!waitCount(srv, op["count"].i(), got)) { snprintf(b, sizeof b, "clients().length() = %d after serve() of connection %d returned, expected %d", got, k, op["count"].i()); fail = b; }
		}
		else if (o == "count")
		{
			int got = srv->numClients();
			if (got != op["count"].i()) { snprintf(b, sizeof b, "clients().length() = %d, expected %d", got, op["count"].i()); fail = b; }
		}
		else fail = "harness: unknown op " + o;
		if (!fail.empty()) { snprintf(b, sizeof b, "step %zu (%s): ", i + 1, o.c_str()); fail = b + fail; }
	}
	// epilogue: everything still queued is delivered on its own connection; then the clients close and every serve() loop ends
	for (int k = 1; k <= n && fail.empty(); k++)
	{
		if (!cl[(size_t)k] || !se[(size_t)k] || !se[(size_t)k]->attached) continue;
		const vj::Value& left = c["left"][(size_t)(k - 1)];
		for (int d = 0; d < 2 && fail.empty(); d++)
		{
			const vj::Value& ms = left[d ? "sc" : "cs"];
			bool open = (d ? c["cst"] : c["sst"])[(size_t)(k - 1)].s() == "open";
			if (!open || (d == 0 && ended[(size_t)k])) continue;
			LibEnd e;
			if (d) e.own = cl[(size_t)k]; else e.sess = se[(size_t)k];
			for (size_t i = 0; i < ms.size() && fail.empty(); i++)
			{
				Cmd cmd(Cmd::RECV);
				e.run(cmd);
				std::string want;
				expand(want, (long)ms[i]["len"].ll(), (long)ms[i]["seed"].ll());
				if (!cmd.err.empty()) fail = "epilogue receive: " + cmd.err;
				else if (!cmd.flag || cmd.msg != want)
				{
					snprintf(b, sizeof b, "connection %d, direction %s: message %d still queued was %s", k, d ? "server to client" : "client to server", ms[i]["n"].i(), cmd.flag ? "not the one delivered" : "lost");
					fail = b;
				}
			}
		}
	}
	for (int k = 1; k <= n; k++)
	{
		if (cl[(size_t)k]) cl[(size_t)k]->close();
		if (se[(size_t)k] && se[(size_t)k]->attached && !ended[(size_t)k])
		{
			Cmd fin(Cmd::FINISH);
			se[(size_t)k]->run(fin);
			if (fail.empty() && !fin.err.empty()) fail = "server end of connection " + std::to_string(k) + ": " + fin.err;
			if (fail.empty() && !fin.msgs.empty()) fail = "server end of connection " + std::to_string(k) + " received a message nobody sent: " + showB(fin.msgs[0]);
			Cmd end(Cmd::END);
			se[(size_t)k]->run(end);
		}
		delete cl[(size_t)k];
	}
	int got = 0;
	if (!waitCount(srv, 0, got) && fail.empty()) { snprintf(b, sizeof b, "clients().length() = %d after every serve() returned", got); fail = b; }
	if (!fail.empty()) return vrun::Outcome::fail(fail);
	vrun::Outcome out;
	out.nontrivial = hist.size() > 1;
	return out;
}

}
#endif
