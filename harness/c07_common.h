// Shared by the C07 harnesses: projection of an asl::Xml tree to a plain structure, parent-link check, conversions.
// The projection implements only the equivalence the property names (adjacent text merged, whitespace-only text
// dropped, attributes as a set); expected trees always come from TLC (spec/XmlText.tla).
#ifndef C07_COMMON_H
#define C07_COMMON_H
#include <asl/Xml.h>
#include <asl/String.h>
#include <asl/Map.h>
#include "vjson.h"
#include <string>
#include <vector>
#include <algorithm>

using namespace asl;

static inline String toStr(const std::string& s) { return String(s.data(), (int)s.size()); }
static inline std::string fromStr(const String& s) { return std::string(*s, (size_t)(s.length() > 0 ? s.length() : 0)); }

struct PNode
{
	bool text;
	std::string n;                                            // tag or text
	std::vector<std::pair<std::string, std::string> > a;      // sorted
	std::vector<PNode> c;
	PNode() : text(false) {}
	bool operator==(const PNode& o) const { return text == o.text && n == o.n && a == o.a && c == o.c; }
	bool operator!=(const PNode& o) const { return !(*this == o); }
};

static inline bool wsOnly(const std::string& s)
{
	for (size_t i = 0; i < s.size(); i++)
		if (s[i] != ' ' && s[i] != '\t' && s[i] != '\n' && s[i] != '\r') return false;
	return true;
}

// normalized projection of a real tree
static PNode project(const Xml& e)
{
	PNode p;
	if (e.isText()) { p.text = true; p.n = fromStr(e.text()); return p; }
	p.n = fromStr(e.tag());
	foreach2(String& k, const String& v, e.attribs())
		p.a.push_back(std::make_pair(fromStr(k), fromStr(v)));
	std::sort(p.a.begin(), p.a.end());
	for (int i = 0; i < e.numChildren(); i++)
	{
		const Xml& c = e.child(i);
		if (c.isText() && !p.c.empty() && p.c.back().text) p.c.back().n += fromStr(c.text());
		else p.c.push_back(project(c));
	}
	std::vector<PNode> kept;
	for (size_t i = 0; i < p.c.size(); i++)
		if (!(p.c[i].text && wsOnly(p.c[i].n))) kept.push_back(p.c[i]);
	p.c.swap(kept);
	return p;
}

// expected (already normalized) tree from TLC: {"k":"e"|"t","n":[codes],"a":[[name,value],...],"c":[...]}
static PNode expected(const vj::Value& v)
{
	PNode p;
	p.text = v["k"].s() == "t";
	p.n = v["n"].bytes();
	const vj::Value& a = v["a"];
	for (size_t i = 0; i < a.size(); i++) p.a.push_back(std::make_pair(a[i][0].bytes(), a[i][1].bytes()));
	std::sort(p.a.begin(), p.a.end());
	const vj::Value& c = v["c"];
	for (size_t i = 0; i < c.size(); i++) p.c.push_back(expected(c[i]));
	return p;
}

static std::string showNode(const PNode& p, int depth = 0)
{
	std::string r;
	char b[8];
	if (p.text) r = "\"";
	else r = "<";
	for (size_t i = 0; i < p.n.size() && i < 24; i++)
	{
		unsigned char ch = (unsigned char)p.n[i];
		if (ch >= 33 && ch < 127 && ch != '\\') r += (char)ch; else { snprintf(b, sizeof b, "\\x%02x", ch); r += b; }
	}
	if (p.text) return r + "\"";
	for (size_t i = 0; i < p.a.size(); i++)
	{
		r += " " + p.a[i].first + "=[";
		for (size_t k = 0; k < p.a[i].second.size() && k < 12; k++) { snprintf(b, sizeof b, k ? ",%d" : "%d", (int)(unsigned char)p.a[i].second[k]); r += b; }
		r += "]";
	}
	r += ">";
	if (depth < 4)
		for (size_t i = 0; i < p.c.size(); i++) r += showNode(p.c[i], depth + 1);
	return r + "</>";
}

// every child's parent() is the element that contains it; returns the number of nodes, or -1 at the first broken link
static long checkParents(const Xml& e)
{
	long n = 1;
	if (e.isText()) return n;
	for (int i = 0; i < e.numChildren(); i++)
	{
		const Xml& c = e.child(i);
		if (!(c.parent() == e)) return -1;
		long k = checkParents(c);
		if (k < 0) return -1;
		n += k;
	}
	return n;
}

// "null element" in the sense of the API: operator! (no tag) and not a text node
static inline bool isNull(const Xml& e) { return !e && !e.isText(); }

#endif
