// C09 recorder (V): seeded random driver.  Builds request streams far outside TLC's exhaustive scope (longer targets,
// more headers, bodies of several hundred bytes with CR/LF/NUL, 1-3 pipelined requests), mutates and cuts them, feeds them
// to the real HttpServer request reader over a socketpair (all at once or dribbled in small pieces) and logs one ndjson
// line per stream: the bytes sent and everything the application handler was given.  It also calls Url(), Url::decode
// and Url::parseQuery on random URL-ish strings.  spec/Trace_HttpRequest.tla decides whether each line is allowed.
#include "c09_common.h"
#include "vrec.h"
#include <signal.h>

using namespace c09;
using namespace vrec;

static Rng* R;

static std::string pickS(const char* const* a, int n) { return a[R->below(n)]; }

static std::string randCase(std::string s)
{
	int mode = R->below(4);
	for (size_t i = 0; i < s.size(); i++)
	{
		if (mode == 0) s[i] = (char)tolower((unsigned char)s[i]);
		else if (mode == 1) s[i] = (char)toupper((unsigned char)s[i]);
		else if (mode == 2 && R->chance(50)) s[i] = (char)(isupper((unsigned char)s[i]) ? tolower((unsigned char)s[i]) : toupper((unsigned char)s[i]));
	}
	return s;
}

static std::string genTarget()
{
	static const char* const toks[] = {"a", "b", "c", "x", "index", ".", "..", "/", "/", "%2e", "%2E", "%2f", "%25", "%41", "+", "-", "_", "~", "%7e", "%00", "%"};
	static const char* const fixed[] = {"/", "/f", "/a", "/a/b/c", "/index.html"};
	std::string t;
	if (R->chance(20)) t = pickS(fixed, 5);
	else
	{
		t = "/";
		int n = R->below(20);
		for (int i = 0; i < n; i++)
		{
			int k = R->below(21);
			if (k >= 19 && !R->chance(15)) k = R->below(19); // %00 and a lone % are rare
			t += toks[k];
		}
	}
	if (R->chance(40))
	{
		static const char* const qt[] = {"a", "b", "k", "1", "v", "=", "=", "&", "+", "%26", "%3d", "%20", "x"};
		t += "?";
		if (R->chance(70))
		{
			int n = R->range(1, 4);
			for (int i = 0; i < n; i++)
			{
				if (i) t += "&";
				char kb[8];
				snprintf(kb, sizeof kb, "k%d", i);
				t += kb;
				t += "=";
				int m = R->below(6);
				for (int j = 0; j < m; j++)
				{
					int q = R->below(13);
					if (q == 5 || q == 6 || q == 7) q = 0;
					t += qt[q];
				}
			}
		}
		else
		{
			int n = R->below(10);
			for (int i = 0; i < n; i++) t += qt[R->below(13)];
		}
	}
	if (R->chance(12))
	{
		t += "#";
		t += R->chance(50) ? "frag" : "f?x=1";
	}
	return t;
}

static std::string genValue()
{
	static const char pool[] = "abcdefghijklmnopqrstuvwxyzABCXYZ0123456789 :;,=/*-_.()\"'<>@";
	std::string v;
	int n = R->below(24);
	for (int i = 0; i < n; i++) v += pool[R->below((int)sizeof pool - 1)];
	return v;
}

static std::string genBody(int maxLen)
{
	std::string b;
	int n = R->chance(15) ? 0 : R->chance(50) ? R->below(20) : R->below(maxLen);
	if (R->chance(2)) n = R->chance(50) ? R->range(15990, 16010) : R->range(30000, 40000); // around / beyond the 16000-byte receive block
	int mode = R->below(3);
	for (int i = 0; i < n; i++)
	{
		if (mode == 0) b += (char)R->below(256);
		else if (mode == 1) b += "GET / HTTP/1.1\r\n\r\n0\r\n"[R->below(21)];
		else b += (char)('a' + R->below(26));
	}
	return b;
}

static std::string genRequest()
{
	static const char* const methods[] = {"GET", "GET", "POST", "POST", "PUT", "DELETE", "PATCH", "HEAD", "X-y"};
	static const char* const names[] = {"Host", "Accept", "X-Long-Name", "User-Agent", "Cookie", "Accept-Language", "X-a", "Referer"};
	static const char* const seps[] = {" ", " ", " ", "", "  ", "\t"};
	std::string m = pickS(methods, 9);
	std::string s = m + " " + genTarget() + " HTTP/1." + (R->chance(88) ? "1" : "0") + "\r\n";
	bool used[8] = {false, false, false, false, false, false, false, false};
	int nh = R->below(6);
	for (int i = 0; i < nh; i++)
	{
		int k = R->below(8);
		if (used[k]) continue;
		used[k] = true;
		std::string v = genValue();
		while (!v.empty() && (v[0] == ' ')) v.erase(0, 1);
		s += randCase(names[k]) + ":" + pickS(seps, 6) + v + (R->chance(10) ? "  " : "") + "\r\n";
	}
	if (R->chance(12)) s += std::string("Connection: ") + (R->chance(50) ? "close" : R->chance(50) ? "keep-alive" : "Keep-Alive") + "\r\n";
	if (R->chance(6)) s += "Expect: 100-continue\r\n";
	if (R->chance(6)) s += "Upgrade: websocket\r\n";
	if (R->chance(10))
	{
		static const char* const ranges[] = {"bytes=2-5", "bytes=5", "bytes=-3", "bytes=7-", "bytes=a-b", "bytes=1-2,4-5", "bytes=5-2", "bytes=0-99", "bytes=", "lines=1-2", "bytes=2-5-7"};
		s += std::string("Range: ") + pickS(ranges, 11) + "\r\n";
	}
	int fr = R->below(10);
	if (m == "GET" || m == "HEAD" || m == "DELETE") fr = R->chance(80) ? 0 : fr;
	char b[64];
	if (fr < 5)
		s += "\r\n";
	else if (fr < 8)
	{
		std::string body = genBody(600);
		snprintf(b, sizeof b, "%s:%s%d\r\n\r\n", randCase("Content-Length").c_str(), R->chance(85) ? " " : "", (int)body.size());
		s += b + body;
	}
	else
	{
		std::string body = genBody(600);
		s += randCase("Transfer-Encoding") + ": chunked\r\n\r\n";
		size_t off = 0;
		while (off < body.size())
		{
			size_t n = 1 + (size_t)R->below(R->chance(50) ? 20 : 300);
			if (n > body.size() - off) n = body.size() - off;
			snprintf(b, sizeof b, R->chance(50) ? "%zx\r\n" : "%zX\r\n", n);
			s += b;
			s.append(body, off, n);
			s += "\r\n";
			off += n;
		}
		s += "0\r\n\r\n";
	}
	return s;
}

static void mutate(std::string& s)
{
	static const char meta[] = {' ', ':', '\r', '\n', '%', '.', '\0', '/', '?', '#', '-', '0', '9', 'f'};
	int n = 1 + R->below(3);
	for (int i = 0; i < n && !s.empty(); i++)
	{
		size_t p = (size_t)R->below((int)s.size());
		switch (R->below(6))
		{
		case 0: s.erase(p, 1); break;
		case 1: s[p] = meta[R->below((int)sizeof meta)]; break;
		case 2: s.insert(p, 1, meta[R->below((int)sizeof meta)]); break;
		case 3: // drop the CR of some line end
		{
			size_t q = s.find("\r\n", p);
			if (q != std::string::npos) s.erase(q, 1);
			break;
		}
		case 4: // change a Content-Length value
		{
			size_t q = s.find("ength:");
			if (q == std::string::npos) q = s.find("ENGTH:");
			if (q != std::string::npos)
			{
				size_t e = s.find("\r\n", q);
				if (e != std::string::npos)
				{
					static const char* const vals[] = {" 0", " 1", " 99999", " -5", " abc", " 2147483647", " 4294967301", " 00", " 7 ", "", " 1e3"};
					s.replace(q + 6, e - (q + 6), pickS(vals, 11));
				}
			}
			break;
		}
		case 5: // duplicate a stretch
		{
			size_t len = 1 + (size_t)R->below(12);
			if (p + len > s.size()) len = s.size() - p;
			s.insert(p, s.substr(p, len));
			break;
		}
		}
	}
}

static std::string jdispatch(const Dispatch& d)
{
	std::string s = "{\"m\":" + vj::codes(d.method) + ",\"res\":" + vj::codes(d.res) + ",\"path\":" + vj::codes(d.path) +
	                "," + kv("plen", d.pathLen) + "," + kv("cplen", (long long)strlen(d.path.c_str())) + ",\"qs\":" + vj::codes(d.qs);
	int ver = d.proto == "HTTP/1.1" ? 1 : d.proto == "HTTP/1.0" ? 0 : -1;
	s += "," + kv("v", ver) + ",\"qp\":[";
	for (size_t i = 0; i < d.query.size(); i++)
		s += std::string(i ? "," : "") + "{\"k\":" + vj::codes(d.query[i].first) + ",\"v\":" + vj::codes(d.query[i].second) + "}";
	s += "],\"hs\":[";
	bool probeok = true;
	for (size_t i = 0; i < d.headers.size(); i++)
	{
		s += std::string(i ? "," : "") + "{\"n\":" + vj::codes(d.headers[i].first) + ",\"v\":" + vj::codes(d.headers[i].second) + "}";
		std::string lo = d.headers[i].first, up = lo;
		for (size_t k = 0; k < lo.size(); k++) { lo[k] = (char)tolower((unsigned char)lo[k]); up[k] = (char)toupper((unsigned char)up[k]); }
		std::map<std::string, std::string>::const_iterator a = d.probes.find(lo), b = d.probes.find(up);
		if (a == d.probes.end() || b == d.probes.end() || a->second != d.headers[i].second || b->second != d.headers[i].second) probeok = false;
	}
	s += std::string("],\"probeok\":") + (probeok ? "true" : "false") + ",\"body\":" + vj::codes(d.body) + "}";
	return s;
}

// a handler that looks every header it is given up again in lower and upper case
struct ProbingServer : public RecServer
{
	void serve(HttpRequest& req, HttpResponse& res)
	{
		probeNames.clear();
		const Dic<>& h = req.headers();
		foreach2(String & k, const String& v, h)
		{
			(void)v;
			std::string n = ss(k), lo = n, up = n;
			for (size_t i = 0; i < n.size(); i++) { lo[i] = (char)tolower((unsigned char)n[i]); up[i] = (char)toupper((unsigned char)n[i]); }
			probeNames.push_back(lo);
			probeNames.push_back(up);
		}
		RecServer::serve(req, res);
	}
};

static std::string g_current; // the stream being served (printed if serve() hangs)
static void onAlarm(int)
{
	const char m[] = "\nc09_record: serve() did not return within 10 s on a stream the peer had closed:\n";
	if (write(2, m, sizeof m - 1)) {}
	if (write(2, g_current.data(), g_current.size())) {}
	if (write(2, "\n", 1)) {}
	_exit(96);
}

static std::string genUrlish(int kind)
{
	static const char* const ut[] = {"http", "ws", "a", "b-c", "example.org", "127.0.0.1", "localhost", ":", ":", "/", "/", "://", "://", "[", "]", "::1", "8080", "80", "0", ".", "@", "?", "#", "%", "%41", "x=1", "99999", "65536"};
	static const char* const dt[] = {"%", "%4", "%41", "%2e", "%2E", "%zz", "%00", "+", "a", "b", " ", "/", "%25", "%e2%82%ac", "G", "0"};
	static const char* const qt[] = {"a", "b", "key", "v", "=", "=", "&", "&", "+", "%26", "%3D", "%20", "%", "1", "long-value"};
	std::string s;
	int n = R->below(kind == 0 ? 9 : 12);
	for (int i = 0; i < n; i++)
		s += kind == 0 ? ut[R->below(28)] : kind == 1 ? dt[R->below(16)] : qt[R->below(15)];
	if (kind == 0 && R->chance(50))
	{
		// a well-formed URL most of the time
		static const char* const sch[] = {"http://", "https://", "ws://", ""};
		static const char* const hosts[] = {"example.org", "localhost", "a.b-c.d", "127.0.0.1", "h"};
		static const char* const ports[] = {"", ":80", ":8080", ":0", ":65535"};
		static const char* const paths[] = {"", "/", "/a/b", "/a:b/c?x=1#f", "/x//y"};
		s = std::string(pickS(sch, 4)) + pickS(hosts, 5) + pickS(ports, 5) + pickS(paths, 5);
	}
	if (kind == 2 && R->chance(50))
	{
		s.clear();
		int m = R->range(1, 4);
		for (int i = 0; i < m; i++)
		{
			char kb[8];
			snprintf(kb, sizeof kb, "k%d", i);
			s += std::string(i ? "&" : "") + kb + "=";
			int l = R->below(5);
			for (int j = 0; j < l; j++) { int q = R->below(15); if (q >= 4 && q <= 7) q = 0; if (q == 12) q = 11; s += qt[q]; }
		}
	}
	return s;
}

int main(int argc, char** argv)
{
	Args args(argc, argv);
	Rng rng(args.seed);
	R = &rng;
	Log log(args.out);
	signal(SIGPIPE, SIG_IGN);
	signal(SIGALRM, onAlarm);
	std::string fbs = args.out + ".f10"; // a 10-byte file served for "/f" (next to the trace: the caller's scratch directory)
	const char* fb = fbs.c_str();
	{
		FILE* f = fopen(fb, "wb");
		if (f) { fputs("0123456789", f); fclose(f); }
	}
	log.line("{\"e\":\"reset\"}");
	for (long ev = 1; ev < args.events; ev++)
	{
		int kind = rng.below(100);
		if (kind < 70)
		{
			std::string w;
			int nreq = rng.chance(70) ? 1 : rng.range(2, 3);
			for (int i = 0; i < nreq; i++) w += genRequest();
			bool mutated = rng.chance(30);
			if (mutated) mutate(w);
			if (rng.chance(35) && !w.empty()) w.resize((size_t)rng.below((int)w.size() + 1));
			size_t piece = rng.chance(60) ? 0 : (size_t)rng.range(1, 64);
			ProbingServer srv;
			srv.filePath = fb;
			std::string resp;
			g_current = vj::codes(w);
			alarm(10);
			double dt = runStream(srv, w, resp, piece, 100);
			alarm(0);
			std::string s = "{\"e\":\"stream\",\"w\":" + vj::codes(w) + "," + kv("piece", (long long)piece) + "," + kv("ms", (long long)(dt * 1000)) + ",\"d\":[";
			for (size_t i = 0; i < srv.seen.size(); i++) s += (i ? "," : "") + jdispatch(srv.seen[i]);
			s += "]}";
			log.line(s);
		}
		else if (kind < 80)
		{
			std::string u = genUrlish(0);
			Url url(String(u.c_str(), (int)u.size()));
			log.line("{\"e\":\"url\",\"u\":" + vj::codes(u) + ",\"scheme\":" + vj::codes(ss(url.protocol)) + ",\"host\":" + vj::codes(ss(url.host)) +
			         "," + kv("port", url.port) + ",\"path\":" + vj::codes(ss(url.path)) + "}");
		}
		else if (kind < 90)
		{
			std::string u = genUrlish(1);
			String d = Url::decode(String(u.c_str(), (int)u.size()));
			log.line("{\"e\":\"dec\",\"u\":" + vj::codes(u) + ",\"out\":" + vj::codes(ss(d)) + "," + kv("len", d.length()) + "}");
		}
		else
		{
			std::string u = genUrlish(2);
			Dic<> q = Url::parseQuery(String(u.c_str(), (int)u.size()));
			std::string s = "{\"e\":\"pq\",\"u\":" + vj::codes(u) + ",\"qp\":[";
			bool first = true;
			foreach2(String & k, const String& v, q)
			{
				s += std::string(first ? "" : ",") + "{\"k\":" + vj::codes(ss(k)) + ",\"v\":" + vj::codes(ss(v)) + "}";
				first = false;
			}
			log.line(s + "]}");
		}
	}
	unlink(fb);
	return 0;
}
