// Key / value conversions and container-kind adapters shared by the C02 replayer and recorder.
// The specification (spec/FiniteMap.tla) speaks of key ids and value ids; the adapters map them onto concrete keys
// (monotonically, so that ascending ids are ascending keys for the ordered containers) chosen for hash collisions,
// long common prefixes and integer extremes, and give the five container classes one calling convention - including
// (spec/FiniteMapExt.tla, MapBuild.tla) Enumerator objects in both forms (all() and what range-based for uses), the
// foreach2 / range-based for loops, construction with a size argument and from key/value lists, writes through find().
#ifndef C02_COMMON_H
#define C02_COMMON_H
#include <asl/Map.h>
#include <asl/HashMap.h>
#include <asl/Set.h>
#include <asl/String.h>
#include <string>
#include <vector>
#include <algorithm>
#include <cstring>
using namespace asl;

// ---- value types --------------------------------------------------------------------------------
struct Counted
{
	static long live;
	int v;
	int* p; // heap payload: must travel with the element and be released exactly once
	Counted() : v(0), p(new int(0 ^ 0x5a5a)) { live++; }
	Counted(int x) : v(x), p(new int(x ^ 0x5a5a)) { live++; }
	Counted(const Counted& o) : v(o.v), p(new int(*o.p)) { live++; }
	Counted& operator=(const Counted& o) { v = o.v; *p = *o.p; return *this; }
	~Counted() { delete p; p = 0; live--; }
	bool operator==(const Counted& o) const { return v == o.v; }
	bool operator!=(const Counted& o) const { return v != o.v; }
	bool sane() const { return p && *p == (v ^ 0x5a5a); }
};
long Counted::live = 0;

struct VInt
{
	typedef int T;
	static int make(int v) { return v; }
	static int idOf(const int& x) { return x; }
	static long live() { return -1; }
};
struct VCounted
{
	typedef Counted T;
	static Counted make(int v) { return Counted(v); }
	static int idOf(const Counted& x) { return x.sane() ? x.v : -1000; }
	static long live() { return Counted::live; }
};
struct VStr
{
	typedef String T;
	static const char* text(int v)
	{
		static const char* A[] = { "", "a23456789012345", "b234567890123456", "c23", "d", "e", "f", "g", "h", "nine_is_the_default_given_to_get()" };
		return A[v < 0 || v > 9 ? 4 : v];
	}
	static String make(int v) { return String(text(v)); }
	static int idOf(const String& x)
	{
		for (int v = 0; v <= 9; v++)
			if (x.length() == (int)strlen(text(v)) && !strcmp(*x, text(v))) return v;
		return -1000;
	}
	static long live() { return -1; }
};

// ---- key universes (ids 1..NKMAX, ascending) -----------------------------------------------------
static const int NKMAX = 8;
// U=0: 1,257,513,2049,... share one of the 256 initial buckets; 1 and 2049 still collide after growth to 2048
// U=1: integer extremes and negatives
// U>=2 (recorder): id itself / spread multiples
template <int U>
struct KInt
{
	typedef int T;
	static int make(int id)
	{
		static const int A[NKMAX + 1] = { 0, 1, 2, 257, 513, 2049, 2050, 4097, 65537 };
		static const int B[NKMAX + 1] = { 0, -2147483647 - 1, -256, -1, 0, 255, 256, 2147483646, 2147483647 };
		if (U == 0) return A[id];
		if (U == 1) return B[id];
		if (U == 2) return id;              // dense
		if (U == 3) return id * 256 + 7;    // every key in one initial bucket
		return id * 2048 - 5000000;         // one bucket up to 2048 bins, negative and positive
	}
	static int idOf(const int& k)
	{
		if (U == 2) return k;
		if (U == 3) return (k - 7) % 256 == 0 ? (k - 7) / 256 : -1;
		if (U == 4) return (k + 5000000) % 2048 == 0 ? (k + 5000000) / 2048 : -1;
		for (int id = 1; id <= NKMAX; id++)
			if (make(id) == k) return id;
		return -1;
	}
};
// U=0: "Ab", "BA", "C " have the same 33h+c hash; U=1: keys sharing a long prefix; U=2 (recorder): generated text
template <int U>
struct KStr
{
	typedef String T;
	static std::string text(int id)
	{
		static const char* A[NKMAX + 1] = { "", "", "Ab", "BA", "C ", "zz", "zzz", "zzzz", "~" };
		static const char* P = "common-prefix/common-prefix/";
		static const char* B[NKMAX + 1] = { "", "", "a", "b", "ba", "c", "ca", "cb", "d" };
		if (U == 0) return A[id];
		if (U == 1) return std::string(P) + B[id];
		// generated: fixed width so that the order of the ids is the lexicographic order; long ids get a long prefix
		char b[64];
		snprintf(b, sizeof b, (id % 3 == 0) ? "key/%07d/with-a-long-tail-beyond-inline" : "key/%07d", id);
		return b;
	}
	static String make(int id) { return String(text(id).c_str()); }
	static int idOf(const String& k)
	{
		if (U >= 2)
		{
			if (k.length() < 11 || strncmp(*k, "key/", 4)) return -1;
			int id = atoi(*k + 4);
			return text(id) == *k ? id : -1;
		}
		for (int id = 1; id <= NKMAX; id++)
			if (text(id) == *k && (int)text(id).size() == k.length()) return id;
		return -1;
	}
};

struct Entry { int k, v; };
inline bool operator<(const Entry& a, const Entry& b) { return a.k < b.k; }


// ---- enumerator objects (spec/FiniteMapExt.tla) -----------------------------------------------------
// One calling convention for the explicit Enumerator objects of every container class.  Form A is the class's
// all() enumerator, form B the enumerator that range-based for is built on (begin(container)).
struct EnumIface
{
	virtual ~EnumIface() {}
	virtual bool more() = 0;        // operator bool
	virtual int key() = 0;          // ~e   (id of the key)
	virtual int val() = 0;          // *e   (id of the value)
	virtual void next() = 0;        // ++e
	virtual void assign(int v) = 0; // *e = value
};

// key/value lists (FromList): the braced-list constructors need the length at compile time
#define C02_LIST_CASES(MK) \
	switch (es.size()) { \
	case 0: return new C(std::initializer_list<typename Base::KeyVal>()); \
	case 1: return new C({ MK(0) }); \
	case 2: return new C({ MK(0), MK(1) }); \
	case 3: return new C({ MK(0), MK(1), MK(2) }); \
	case 4: return new C({ MK(0), MK(1), MK(2), MK(3) }); \
	case 5: return new C({ MK(0), MK(1), MK(2), MK(3), MK(4) }); \
	default: return 0; }

template <class T>
bool dicAssignList(Dic<T>& d, const std::vector<std::string>& ks, const std::vector<T>& vs)
{
	typedef typename Dic<T>::KV KV;
	switch (ks.size())
	{
	case 0: d = std::initializer_list<KV>(); return true;
	case 1: d = { KV{ ks[0].c_str(), vs[0] } }; return true;
	case 2: d = { KV{ ks[0].c_str(), vs[0] }, KV{ ks[1].c_str(), vs[1] } }; return true;
	case 3: d = { KV{ ks[0].c_str(), vs[0] }, KV{ ks[1].c_str(), vs[1] }, KV{ ks[2].c_str(), vs[2] } }; return true;
	case 4: d = { KV{ ks[0].c_str(), vs[0] }, KV{ ks[1].c_str(), vs[1] }, KV{ ks[2].c_str(), vs[2] }, KV{ ks[3].c_str(), vs[3] } }; return true;
	case 5: d = { KV{ ks[0].c_str(), vs[0] }, KV{ ks[1].c_str(), vs[1] }, KV{ ks[2].c_str(), vs[2] }, KV{ ks[3].c_str(), vs[3] }, KV{ ks[4].c_str(), vs[4] } }; return true;
	}
	return false;
}
template <class K, class T>
bool dicAssignList(Map<K, T>&, const std::vector<std::string>&, const std::vector<T>&) { return false; }
inline std::string keyText(const String& k) { return std::string(*k, k.length()); }
inline std::string keyText(int) { return ""; }

// ---- container kinds -------------------------------------------------------------------------------
// Every kind offers: create(), put, index, remove, clear, cloneInto, dup, add, enumerate, has/find/get/cindex,
// rc, and the two hazard predicates evaluated on the real object.

// ordered containers: C = Map<K,T> or Dic<T>
template <class C_, class KC_, class VC_>
struct OrdKind
{
	typedef C_ C;
	typedef KC_ KC;
	typedef VC_ VC;
	static const bool ordered = true, isSet = false, removeReturns = true;
	static C* create() { return new C(); }
	static void put(C& m, int k, int v, bool alt) { if (alt) m[KC::make(k)] = VC::make(v); else m.set(KC::make(k), VC::make(v)); }
	static int index(C& m, int k) { return VC::idOf(m[KC::make(k)]); }
	static int remove(C& m, int k, bool) { return m.remove(KC::make(k)) ? 1 : 0; }
	static void clear(C& m) { m.clear(); }
	static void assignClone(C& dst, const C& src) { dst = src.clone(); }
	static void dup(C& m) { m.dup(); }
	static void add(C& m, const C& g) { m.add(g); }
	static void enumerate(const C& m, std::vector<Entry>& out)
	{
		for (typename C::Enumerator e = m.all(); e; ++e) { Entry x = { KC::idOf(~e), VC::idOf(*e) }; out.push_back(x); }
	}
	static void keys(const C& m, std::vector<int>& out)
	{
		Array<typename KC::T> ks = m.keys();
		for (int i = 0; i < ks.length(); i++) out.push_back(KC::idOf(ks[i]));
	}
	static bool has(const C& m, int k) { return m.has(KC::make(k)); }
	static int find(const C& m, int k) { const typename VC::T* p = m.find(KC::make(k)); return p ? VC::idOf(*p) + 1 : 0; }
	static int get(const C& m, int k, int d) { return VC::idOf(m.get(KC::make(k), VC::make(d))); }
	static int cindex(const C& m, int k) { return VC::idOf(m[KC::make(k)]); }
	static int rc(const C& m) { return m.kv().rc(); }
	static bool eq(const C& a, const C& b) { return a == b; }
	static bool ne(const C& a, const C& b) { return a != b; }
	// GrowWhileShared: the call stores `extra` new entries into storage that other handles share and that is full
	static const char* hazardName() { return "GrowWhileShared"; }
	static bool hazardPut(C& m, int k)
	{
		return rc(m) > 1 && !has(m, k) && m.length() + 1 > m.kv().cap();
	}
	static bool hazardAdd(C& m, const C& g)
	{
		if (rc(m) <= 1) return false;
		int extra = 0;
		for (typename C::Enumerator e = g.all(); e; ++e) if (!m.has(~e)) extra++;
		return extra > 0 && m.length() + extra > m.kv().cap();
	}
	static void warm() { C m; const C& c = m; (void)c[KC::make(1)]; }
	static bool shapeIs(const C&, int, const std::vector<int>&) { return true; }
	// ---- wider surface (spec/FiniteMapExt.tla) ----
	typedef Map<typename KC::T, typename VC::T> Base;
	static C* createSized(int n) { C* m = new C(); m->reserve(n); return m; }
	static const void* block(const C& m) { return (const void*)m.kv().data(); } // storage identity: handles sharing a block
	// form 0: braced list, form 1: Map(k, v)(k, v)..., form 2: Dic: d = { {k, v}, ... } (else as form 0)
	static C* fromListBraced(const std::vector<Entry>& es)
	{
#define C02_MK(i) typename Base::KeyVal(KC::make(es[i].k), VC::make(es[i].v))
		C02_LIST_CASES(C02_MK)
#undef C02_MK
	}
	static C* fromList(const std::vector<Entry>& es, int form)
	{
		if (form % 3 == 1 && es.size() >= 1)
		{
			C* m = new C(KC::make(es[0].k), VC::make(es[0].v));
			for (size_t i = 1; i < es.size(); i++) (*m)(KC::make(es[i].k), VC::make(es[i].v));
			return m;
		}
		if (form % 3 == 2)
		{
			std::vector<std::string> ks;
			std::vector<typename VC::T> vs;
			for (size_t i = 0; i < es.size(); i++) { ks.push_back(keyText(KC::make(es[i].k))); vs.push_back(VC::make(es[i].v)); }
			C* m = new C();
			m->set(KC::make(NKMAX), VC::make(3)); // the assignment replaces what the Dic held
			if (dicAssignList(*m, ks, vs)) return m;
			delete m;
		}
		return fromListBraced(es);
	}
	static bool poke(C& m, int k, int v) { typename VC::T* p = m.find(KC::make(k)); if (p) *p = VC::make(v); return p != 0; }
	struct EnumA : EnumIface
	{
		typename C::Enumerator e;
		EnumA(const C& m) : e(m.all()) {}
		bool more() { return (bool)e; }
		int key() { return KC::idOf(~e); }
		int val() { return VC::idOf(*e); }
		void next() { ++e; }
		void assign(int v) { *e = VC::make(v); }
	};
	struct EnumB : EnumIface
	{
		typename Array<typename Base::KeyVal>::Enumerator e;
		EnumB(const C& m) : e(begin(m)) {}
		bool more() { return e != e; } // what range-based for asks
		int key() { return KC::idOf((*e).key); }
		int val() { return VC::idOf(e->value); }
		void next() { ++e; }
		void assign(int v) { (*e).value = VC::make(v); }
	};
	static EnumIface* openEnum(const C& m, int form) { if (form & 1) return new EnumB(m); return new EnumA(m); }
	// the loop forms: foreach2 and range-based for
	static void enumerate2(const C& m, std::vector<Entry>& out)
	{
		foreach2 (typename KC::T& k, const typename VC::T& v, m) { Entry x = { KC::idOf(k), VC::idOf(v) }; out.push_back(x); }
	}
	static void enumerate3(const C& m, std::vector<Entry>& out)
	{
		for (auto& e : m) { Entry x = { KC::idOf(e.key), VC::idOf(e.value) }; out.push_back(x); }
	}
	static bool truth(const C& m) { return (bool)(const void*)m && !!m; }
};

// hash containers: C = HashMap<K,T> or HashDic<T>; NB = initial table size argument (0: default constructor, 256 bins)
template <class C_, class KC_, class VC_, int NB>
struct HashKind
{
	typedef C_ C;
	typedef KC_ KC;
	typedef VC_ VC;
	static const bool ordered = false, isSet = false, removeReturns = false;
	static C* create() { return NB ? new C(NB) : new C(); }
	static void put(C& m, int k, int v, bool alt) { if (alt) m[KC::make(k)] = VC::make(v); else m.set(KC::make(k), VC::make(v)); }
	static int index(C& m, int k) { return VC::idOf(m[KC::make(k)]); }
	static int remove(C& m, int k, bool) { m.remove(KC::make(k)); return -1; }
	static void clear(C& m) { m.clear(); }
	static void assignClone(C& dst, const C& src) { dst = src.clone(); }
	static void dup(C& m) { m.dup(); }
	// HashMap has no merge call of its own: enumerate g and assign into m (what Map::add does)
	static void add(C& m, const C& g)
	{
		for (typename C::Enumerator e = g.all(); e; ++e) m[~e] = *e;
	}
	static void enumerate(const C& m, std::vector<Entry>& out)
	{
		for (typename C::Enumerator e = m.all(); e; ++e) { Entry x = { KC::idOf(~e), VC::idOf(*e) }; out.push_back(x); }
	}
	static void keys(const C&, std::vector<int>&) {}
	static bool has(const C& m, int k) { return m.has(KC::make(k)); }
	static int find(const C& m, int k) { const typename VC::T* p = m.find(KC::make(k)); return p ? VC::idOf(*p) + 1 : 0; }
	static int get(const C& m, int k, int d) { return VC::idOf(m.get(KC::make(k), VC::make(d))); }
	static int cindex(const C& m, int k) { return VC::idOf(m[KC::make(k)]); }
	static int rc(const C& m) { return (int)const_cast<C&>(m)._rc(); }
	static bool eq(const C& a, const C& b) { return a == b; }
	static bool ne(const C& a, const C& b) { return a != b; }
	// RehashWhileShared: a non-const operator[] call finds the table 7/8 full (it then rebuilds it) while other
	// handles share it
	static const char* hazardName() { return "RehashWhileShared"; }
	static bool pending(const C& m, int n) { return n >= m.a.length() * 7 / 8 && m.a.length() <= 280000; }
	static bool hazardPut(C& m, int) { return rc(m) > 1 && pending(m, m.length()); }
	static bool hazardAdd(C& m, const C& g)
	{
		if (rc(m) <= 1) return false;
		int n = m.length();
		for (typename C::Enumerator e = g.all(); e; ++e)
		{
			if (pending(m, n)) return true;
			if (!m.has(~e)) n++;
		}
		return false;
	}
	static void warm() { C m; const C& c = m; (void)c[KC::make(1)]; }
	// implementation shape (spec/HashChains.tla): number of bins and enumeration order
	static bool shapeIs(const C& m, int nb, const std::vector<int>& order)
	{
		if (m.a.length() - ASL_HMAP_SKIP != nb) return false;
		size_t i = 0;
		for (typename C::Enumerator e = m.all(); e; ++e, ++i)
			if (i >= order.size() || KC::idOf(~e) != order[i]) return false;
		return i == order.size();
	}
	// ---- wider surface (spec/FiniteMapExt.tla) ----
	static C* createSized(int n) { return new C(n); }
	static const void* block(const C& m) { return (const void*)m.a.data(); }
	// no list constructor: a new container filled with set() / operator[] in the order of the list
	static C* fromList(const std::vector<Entry>& es, int form)
	{
		C* m = create();
		for (size_t i = 0; i < es.size(); i++) put(*m, es[i].k, es[i].v, (form & 1) != 0);
		return m;
	}
	static bool poke(C& m, int k, int v) { typename VC::T* p = m.find(KC::make(k)); if (p) *p = VC::make(v); return p != 0; }
	struct EnumA : EnumIface
	{
		typename C::Enumerator e;
		EnumA(const C& m) : e(m.all()) {}
		bool more() { return (bool)e; }
		int key() { return KC::idOf(~e); }
		int val() { return VC::idOf(*e); }
		void next() { ++e; }
		void assign(int v) { *e = VC::make(v); }
	};
	struct EnumB : EnumIface
	{
		typename C::FEnumerator e;
		EnumB(const C& m) : e(begin(m)) {}
		bool more() { return e != e; }
		int key() { return KC::idOf((*e).key); }
		int val() { return VC::idOf((*e).value); }
		void next() { ++e; }
		void assign(int v) { (*e).value = VC::make(v); }
	};
	static EnumIface* openEnum(const C& m, int form) { if (form & 1) return new EnumB(m); return new EnumA(m); }
	static void enumerate2(const C& m, std::vector<Entry>& out)
	{
		foreach2 (typename KC::T& k, const typename VC::T& v, m) { Entry x = { KC::idOf(k), VC::idOf(v) }; out.push_back(x); }
	}
	static void enumerate3(const C& m, std::vector<Entry>& out)
	{
		for (auto& e : m) { Entry x = { KC::idOf(e.key), VC::idOf(e.value) }; out.push_back(x); }
	}
	static bool truth(const C& m) { return m.length() != 0; }
};

// sets: values are all 1
template <class KC_, int NB>
struct SetKind
{
	typedef Set<typename KC_::T> C;
	typedef KC_ KC;
	typedef VInt VC;
	static const bool ordered = false, isSet = true, removeReturns = false;
	static C* create() { return NB ? new C(NB) : new C(); }
	static void put(C& m, int k, int, bool) { m << KC::make(k); }
	static int index(C&, int) { return 0; }
	static int remove(C& m, int k, bool alt) { typename KC::T x = KC::make(k); if (alt) m >> x; else m.remove(x); return -1; }
	static void clear(C& m) { m.clear(); }
	static void assignClone(C& dst, const C& src) { C t(src); t.dup(); dst = t; }
	static void dup(C& m) { m.dup(); }
	static void add(C& m, const C& g) { m << g; }
	static void enumerate(const C& m, std::vector<Entry>& out)
	{
		for (typename C::Enumerator e = m.all(); e; ++e) { Entry x = { KC::idOf(*e), 1 }; out.push_back(x); }
	}
	static void keys(const C& m, std::vector<int>& out)
	{
		Array<typename KC::T> ks = m.array();
		for (int i = 0; i < ks.length(); i++) out.push_back(KC::idOf(ks[i]));
	}
	static bool has(const C& m, int k) { bool r = m.contains(KC::make(k)); return r; }
	static int find(const C& m, int k) { const int* p = m.find(KC::make(k)); return p ? *p + 1 : 0; }
	static int get(const C& m, int k, int d) { return m.get(KC::make(k), d); }
	static int cindex(const C& m, int k) { return m[KC::make(k)]; }
	static int rc(const C& m) { return (int)const_cast<C&>(m)._rc(); }
	static bool eq(const C& a, const C& b) { return a == b; }
	static bool ne(const C& a, const C& b) { return a != b; }
	static const char* hazardName() { return "RehashWhileShared"; }
	static bool pending(const C& m, int n) { return n >= m.a.length() * 7 / 8 && m.a.length() <= 280000; }
	static bool hazardPut(C& m, int) { return rc(m) > 1 && pending(m, m.length()); }
	static bool hazardAdd(C& m, const C& g)
	{
		if (rc(m) <= 1) return false;
		int n = m.length();
		for (typename C::Enumerator e = g.all(); e; ++e)
		{
			if (pending(m, n)) return true;
			if (!m.has(*e)) n++;
		}
		return false;
	}
	static void warm() {}
	static bool shapeIs(const C& m, int nb, const std::vector<int>& order)
	{
		if (m.a.length() - ASL_HMAP_SKIP != nb) return false;
		size_t i = 0;
		for (typename C::Enumerator e = m.all(); e; ++e, ++i)
			if (i >= order.size() || KC::idOf(*e) != order[i]) return false;
		return i == order.size();
	}
	// ---- wider surface (spec/FiniteMapExt.tla) ----
	typedef typename KC_::T KT;
	static C* createSized(int n) { return new C(n); }
	static const void* block(const C& m) { return (const void*)m.a.data(); }
	// form 0: braced list, form 1: Set(Array), form 2: Set(Array) from the array() of a braced-list set
	static C* fromList(const std::vector<Entry>& es, int form)
	{
		if (form % 3 != 0)
		{
			Array<KT> a;
			for (size_t i = 0; i < es.size(); i++) a << KC::make(es[i].k);
			if (form % 3 == 1) return new C(a);
			C t(a);
			Array<KT> b = t; // operator Array<T>()
			return new C(b);
		}
#define C02_MK(i) KC::make(es[i].k)
		switch (es.size())
		{
		case 0: return new C(std::initializer_list<KT>());
		case 1: return new C({ C02_MK(0) });
		case 2: return new C({ C02_MK(0), C02_MK(1) });
		case 3: return new C({ C02_MK(0), C02_MK(1), C02_MK(2) });
		case 4: return new C({ C02_MK(0), C02_MK(1), C02_MK(2), C02_MK(3) });
		case 5: return new C({ C02_MK(0), C02_MK(1), C02_MK(2), C02_MK(3), C02_MK(4) });
		}
#undef C02_MK
		return 0;
	}
	static bool poke(C&, int, int) { return false; }
	struct EnumA : EnumIface
	{
		typename C::Enumerator e;
		EnumA(const C& m) : e(m.all()) {}
		bool more() { return (bool)e; }
		int key() { return KC::idOf(*e); }
		int val() { return 1; }
		void next() { ++e; }
		void assign(int) {}
	};
	struct EnumB : EnumIface // the enumerator of the underlying map: key and the value 1
	{
		typename HashMap<KT, int>::Enumerator e;
		EnumB(const C& m) : e(((const HashMap<KT, int>&)m).all()) {}
		bool more() { return (bool)e; }
		int key() { return KC::idOf(~e); }
		int val() { return *e; }
		void next() { ++e; }
		void assign(int) {}
	};
	static EnumIface* openEnum(const C& m, int form) { if (form & 1) return new EnumB(m); return new EnumA(m); }
	static void enumerate2(const C& m, std::vector<Entry>& out)
	{
		foreach (const KT& x, m) { Entry y = { KC::idOf(x), 1 }; out.push_back(y); }
	}
	static void enumerate3(const C& m, std::vector<Entry>& out)
	{
		for (auto& x : m) { Entry y = { KC::idOf(x), 1 }; out.push_back(y); }
	}
	static bool truth(const C& m) { return !m.empty(); }
};

#endif
