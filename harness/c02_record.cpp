// C02 recorder (V): seeded random driver of asl::Map / Dic / HashMap / HashDic / Set that logs one ndjson event per
// public call; spec/Trace_FiniteMap.tla validates the log against the FiniteMap actions and lookup operators.
// Sizes reach a few thousand entries, so the hash tables cross the 225- and 1793-entry growth thresholds (and the
// small initial tables many more), chains get long (universes whose keys share one initial bucket), ordered maps
// run their binary search over large arrays, and maps are rebuilt in shuffled insertion order before being compared.
// The driver follows the documented API and never triggers an open finding listed in --avoid (it detaches the
// handle with dup() first, or leaves the call out).
// Wider surface (spec/FiniteMapExt.tla): containers constructed with a size argument and from key lists, m = m,
// writes through find(), whole loops (foreach2 / range-based for), Set::array(), and enumerator sessions: an
// Enumerator object is stepped through a container (often a fresh clone, or the source of one) while the other
// handles keep being modified, values are assigned through the enumerator, and the loop is sometimes left early.
#include "c02_common.h"
#include "vrec.h"
#include <map>

using namespace vrec;

static const int NH = 6;
static const int NV = 8;

template <class Kd>
struct Exec
{
	typedef typename Kd::C C;
	C* hs[NH + 1];
	Rng& rng;
	Log& log;
	bool avoid;
	int maxKeys, window;

	Exec(Rng& r, Log& l, bool av, int mk) : rng(r), log(l), avoid(av), maxKeys(mk), window(40)
	{
		for (int i = 0; i <= NH; i++) hs[i] = 0;
	}
	int pickLive()
	{
		int c[NH], n = 0;
		for (int i = 1; i <= NH; i++) if (hs[i]) c[n++] = i;
		return c[rng.below(n)];
	}
	int pickDead()
	{
		int c[NH], n = 0;
		for (int i = 1; i <= NH; i++) if (!hs[i]) c[n++] = i;
		return n ? c[rng.below(n)] : 0;
	}
	int nLive()
	{
		int n = 0;
		for (int i = 1; i <= NH; i++) if (hs[i]) n++;
		return n;
	}
	int pickKey() { return rng.chance(85) ? rng.range(1, window) : rng.range(1, maxKeys); }
	// a key that is present (or 0)
	int presentKey(const C& m)
	{
		if (m.length() == 0) return 0;
		std::vector<Entry> es;
		Kd::enumerate(m, es);
		return es[rng.below((int)es.size())].k;
	}
	// after the call: length and reference count of the handle it went through (and of the result handle g)
	std::string post(int h, int g = 0)
	{
		std::string s = "," + kv("len", hs[h] ? hs[h]->length() : 0) + "," + kv("rc", hs[h] ? Kd::rc(*hs[h]) : 0);
		if (g && hs[g]) s += "," + kv("glen", hs[g]->length()) + "," + kv("grc", Kd::rc(*hs[g]));
		return s + "}";
	}
	void check()
	{
		std::string s = "{\"op\":\"check\",\"obs\":[";
		bool first = true;
		long live = 0;
		std::map<const void*, int> blocks;
		for (int h = 1; h <= NH; h++)
		{
			if (!hs[h]) continue;
			if (!first) s += ",";
			first = false;
			std::vector<Entry> es;
			bool full = hs[h]->length() <= 300;
			s += "{" + kv("h", h) + "," + kv("n", hs[h]->length()) + "," + kv("rc", Kd::rc(*hs[h])) + "," + kv("full", full ? 1 : 0) + ",\"kv\":[";
			if (full)
			{
				Kd::enumerate(*hs[h], es);
				if (!Kd::ordered) std::stable_sort(es.begin(), es.end());
				for (size_t i = 0; i < es.size(); i++)
					s += (i ? ",{" : "{") + kv("k", es[i].k) + "," + kv("v", es[i].v) + "}";
			}
			s += "]}";
		}
		s += "]}";
		log.line(s);
	}
	bool hazardPut(C& m, int k) { return avoid && Kd::hazardPut(m, k); }

	void run(long nevents)
	{
		hs[1] = Kd::create();
		log.line("{\"op\":\"reset\"}");
		long done = 0;
		int burst = 0, burstKey = 0, burstH = 0;
		while (done < nevents)
		{
			int h = pickLive();
			if (burst > 0 && hs[burstH]) h = burstH; else burst = 0;
			C& m = *hs[h];
			int r = rng.below(130);
			if (burst > 0) { r = 0; burst--; }
			else if (rng.below(350) == 0 && m.length() < maxKeys - 500) { burst = rng.chance(30) ? rng.range(900, 2000) : rng.range(100, 900); if (burst > maxKeys - 100) burst = maxKeys - 100; burstKey = rng.range(1, maxKeys - burst); burstH = h; }
			if (rng.below(300) == 0) window = rng.chance(50) ? rng.range(3, 60) : rng.range(60, maxKeys);
			std::string e;
			if (r < 30) // set
			{
				int k = burst > 0 ? burstKey++ : pickKey(), v = rng.range(1, NV);
				if (hazardPut(m, k))
				{
					if (rng.chance(50)) continue;
					Kd::dup(m);
					e = "{\"op\":\"dup\"," + kv("h", h) + post(h);
				}
				else
				{
					bool alt = rng.chance(50);
					if (Kd::isSet) v = 1;
					Kd::put(m, k, v, alt);
					e = "{\"op\":\"set\"," + kv("h", h) + "," + kv("k", k) + "," + kv("v", v) + post(h);
				}
			}
			else if (r < 38) // non-const operator[]
			{
				if (Kd::isSet) continue;
				int k = pickKey();
				if (hazardPut(m, k)) continue;
				int got = Kd::index(m, k);
				e = "{\"op\":\"index\"," + kv("h", h) + "," + kv("k", k) + "," + kv("r", got) + post(h);
			}
			else if (r < 52) // remove
			{
				int k = rng.chance(60) ? presentKey(m) : pickKey();
				if (k == 0) continue;
				int res = Kd::remove(m, k, rng.chance(50));
				e = "{\"op\":\"remove\"," + kv("h", h) + "," + kv("k", k) + "," + kv("r", res) + post(h);
			}
			else if (r < 53) { if (rng.chance(60)) continue; Kd::clear(m); e = "{\"op\":\"clear\"," + kv("h", h) + post(h); }
			else if (r < 57) // merge
			{
				int g = pickLive();
				if (m.length() + hs[g]->length() > maxKeys) continue;
				if (avoid && Kd::hazardAdd(m, *hs[g])) continue;
				Kd::add(m, *hs[g]);
				e = "{\"op\":\"add\"," + kv("h", h) + "," + kv("g", g) + post(h);
			}
			else if (r < 62) // clone
			{
				int g = rng.chance(50) && pickDead() ? pickDead() : pickLive();
				if (!hs[g]) hs[g] = Kd::create();
				Kd::assignClone(*hs[g], m);
				e = "{\"op\":\"clone\"," + kv("h", h) + "," + kv("g", g) + post(h, g);
			}
			else if (r < 64) { Kd::dup(m); e = "{\"op\":\"dup\"," + kv("h", h) + post(h); }
			else if (r < 69) // copyHandle
			{
				int g = pickDead();
				if (!g) continue;
				hs[g] = new C(m);
				e = "{\"op\":\"copyHandle\"," + kv("h", h) + "," + kv("g", g) + post(h, g);
			}
			else if (r < 72) // assignHandle
			{
				int g = pickLive();
				if (g == h) continue;
				*hs[g] = m;
				e = "{\"op\":\"assignHandle\"," + kv("h", h) + "," + kv("g", g) + post(h, g);
			}
			else if (r < 76) // dropHandle
			{
				if (nLive() < 2) continue;
				delete hs[h];
				hs[h] = 0;
				e = "{\"op\":\"dropHandle\"," + kv("h", h) + "}";
			}
			else if (r < 78) // rebuild g from h's entries in shuffled insertion order, then compare
			{
				if (m.length() > 80) continue;
				int g = pickDead() ? pickDead() : pickLive();
				if (g == h) continue;
				std::vector<Entry> es;
				Kd::enumerate(m, es);
				for (size_t i = es.size(); i > 1; i--) std::swap(es[i - 1], es[rng.below((int)i)]);
				delete hs[g];
				hs[g] = Kd::create();
				log.line("{\"op\":\"new\"," + kv("h", g) + "," + kv("g", g) + post(g));
				done++;
				for (size_t i = 0; i < es.size(); i++)
				{
					Kd::put(*hs[g], es[i].k, es[i].v, (i & 1) != 0);
					log.line("{\"op\":\"set\"," + kv("h", g) + "," + kv("k", es[i].k) + "," + kv("v", es[i].v) + post(g));
					done++;
				}
				bool eq = Kd::eq(m, *hs[g]), ne = Kd::ne(*hs[g], m);
				e = "{\"op\":\"eq\"," + kv("h", h) + "," + kv("g", g) + "," + kv("r", eq ? 1 : 0) + "," + kv("nr", ne ? 0 : 1) + post(h);
			}
			else if (r < 92) // lookups
			{
				int k = rng.chance(50) ? presentKey(m) : pickKey();
				if (k == 0) k = pickKey();
				int w = rng.below(4);
				if (w == 0) e = "{\"op\":\"has\"," + kv("h", h) + "," + kv("k", k) + "," + kv("r", Kd::has(m, k) ? 1 : 0) + post(h);
				else if (w == 1) e = "{\"op\":\"find\"," + kv("h", h) + "," + kv("k", k) + "," + kv("r", Kd::find(m, k)) + post(h);
				else if (w == 2) { int d = Kd::isSet ? 7 : 9; e = "{\"op\":\"get\"," + kv("h", h) + "," + kv("k", k) + "," + kv("d", d) + "," + kv("r", Kd::get(m, k, d)) + post(h); }
				else e = "{\"op\":\"cindex\"," + kv("h", h) + "," + kv("k", k) + "," + kv("r", Kd::cindex(m, k)) + post(h);
			}
			else if (r < 98) // ==
			{
				int g = pickLive();
				bool eq = Kd::eq(m, *hs[g]), ne = Kd::ne(m, *hs[g]);
				e = "{\"op\":\"eq\"," + kv("h", h) + "," + kv("g", g) + "," + kv("r", eq ? 1 : 0) + "," + kv("nr", ne ? 0 : 1) + post(h);
			}
			else if (r < 112) // set algebra
			{
				if (!Kd::isSet) continue;
				int g2 = pickLive();
				e = setEvent(h, g2, r);
				if (e.empty()) continue;
			}
			else if (r < 114) { check(); done++; continue; }
			else if (r < 116) // a container constructed with a size argument
			{
				int g = pickDead() ? pickDead() : pickLive();
				if (g == h && nLive() > 1 && rng.chance(50)) continue;
				static const int NS[] = { 0, 0, 1, 2, 3, 5, 8, 9, 100, 257, 1000 };
				int n = NS[rng.below(11)];
				delete hs[g];
				hs[g] = Kd::createSized(n);
				e = "{\"op\":\"new\"," + kv("h", g) + "," + kv("g", g) + "," + kv("n", n) + post(g);
			}
			else if (r < 118) // a container built from a key/value list
			{
				int g = pickDead() ? pickDead() : pickLive();
				std::vector<Entry> es;
				int n = rng.below(6);
				for (int i = 0; i < n; i++) { Entry x = { rng.chance(70) ? rng.range(1, 6) : pickKey(), Kd::isSet ? 1 : rng.range(1, NV) }; es.push_back(x); }
				delete hs[g];
				hs[g] = Kd::fromList(es, rng.below(3));
				e = "{\"op\":\"list\"," + kv("h", g) + "," + kv("g", g) + ",\"kv\":[";
				for (size_t i = 0; i < es.size(); i++) e += (i ? ",{" : "{") + kv("k", es[i].k) + "," + kv("v", es[i].v) + "}";
				e += "]" + post(g);
			}
			else if (r < 120) { C& same = *hs[h]; *hs[h] = same; e = "{\"op\":\"assignSelf\"," + kv("h", h) + post(h); }
			else if (r < 123) // write through the pointer find() returns
			{
				if (Kd::isSet) continue;
				int k = rng.chance(70) ? presentKey(m) : pickKey();
				if (k == 0) k = pickKey();
				int v = rng.range(1, NV);
				bool found = Kd::poke(m, k, v);
				e = "{\"op\":\"poke\"," + kv("h", h) + "," + kv("k", k) + "," + kv("v", v) + "," + kv("r", found ? 1 : 0) + post(h);
			}
			else if (r < 125) // a whole loop
			{
				if (m.length() > 300) continue;
				std::vector<Entry> es;
				if (rng.chance(50)) Kd::enumerate2(m, es); else Kd::enumerate3(m, es);
				e = "{\"op\":\"enum\"," + kv("h", h) + "," + kv("ord", Kd::ordered ? 1 : 0) + ",\"kv\":[";
				for (size_t i = 0; i < es.size(); i++) e += (i ? ",{" : "{") + kv("k", es[i].k) + "," + kv("v", es[i].v) + "}";
				e += "]" + post(h);
			}
			else if (r < 126) // Set::array() / Map::keys()
			{
				if (m.length() > 300 || !(Kd::isSet || Kd::ordered)) continue;
				std::vector<int> ks;
				Kd::keys(m, ks);
				e = "{\"op\":\"array\"," + kv("h", h) + ",\"ks\":" + vj::intlist(ks.begin(), ks.end()) + post(h);
			}
			else if (r < 129) { done += session(h); continue; }
			else continue;
			log.line(e);
			done++;
		}
		check();
		// drain: every entry of one handle is looked up and removed, one by one, in shuffled order
		{
			int h = pickLive();
			C& m = *hs[h];
			Kd::dup(m);
			log.line("{\"op\":\"dup\"," + kv("h", h) + post(h));
			std::vector<Entry> es;
			Kd::enumerate(m, es);
			for (size_t i = es.size(); i > 1; i--) std::swap(es[i - 1], es[rng.below((int)i)]);
			for (size_t i = 0; i < es.size(); i++)
			{
				log.line("{\"op\":\"find\"," + kv("h", h) + "," + kv("k", es[i].k) + "," + kv("r", Kd::find(m, es[i].k)) + post(h));
				int res = Kd::remove(m, es[i].k, (i & 1) != 0);
				log.line("{\"op\":\"remove\"," + kv("h", h) + "," + kv("k", es[i].k) + "," + kv("r", res) + post(h));
			}
		}
		check();
		for (int i = 1; i <= NH; i++) { delete hs[i]; hs[i] = 0; }
	}

	// An enumerator session on handle h0: optionally on a fresh clone of it (or with a fresh clone as the one that
	// keeps changing), stepped entry by entry; between the steps the other handles are modified, values are
	// assigned through the enumerator and through find(), handles are copied and dropped.  Nothing in here changes
	// the key set of the enumerated block or rebinds the enumerated handle object.
	long session(int h0)
	{
		long n = 0;
		int h = h0;
		if (rng.chance(60))
		{
			int g = pickDead() ? pickDead() : 0;
			if (g)
			{
				hs[g] = Kd::create();
				Kd::assignClone(*hs[g], *hs[h0]);
				log.line("{\"op\":\"clone\"," + kv("h", h0) + "," + kv("g", g) + post(h0, g));
				n++;
				if (rng.chance(50)) h = g; // enumerate the clone while the source changes - or the source while the clone changes
			}
		}
		if (hs[h]->length() > 400 && rng.chance(70)) return n;
		const int form = rng.below(2);
		EnumIface* en = Kd::openEnum(*hs[h], form);
		int maxSteps = rng.chance(70) ? 1 << 30 : rng.range(0, 40);
		int steps = 0;
		std::string ev = "ebegin";
		for (;;)
		{
			int k = en->more() ? en->key() : 0;
			log.line("{\"op\":\"" + ev + "\"," + kv("h", h) + "," + kv("k", k) + "," + kv("r", k ? en->val() : 0) + "," + kv("ord", Kd::ordered ? 1 : 0) + post(h));
			n++;
			if (k == 0 || steps++ >= maxSteps) break;
			// between two steps
			int acts = rng.chance(50) ? 0 : rng.range(1, 3);
			for (int a = 0; a < acts; a++)
			{
				int w = rng.below(10);
				int g = pickLive();
				bool sameBlock = Kd::block(*hs[g]) == Kd::block(*hs[h]);
				if (w < 2 && !Kd::isSet) // *e = v
				{
					int v = rng.range(1, NV);
					en->assign(v);
					log.line("{\"op\":\"eassign\"," + kv("h", h) + "," + kv("k", k) + "," + kv("v", v) + post(h));
					n++;
				}
				else if (w < 4 && !Kd::isSet) // write through find(), any handle
				{
					int kk = rng.chance(70) ? presentKey(*hs[g]) : pickKey();
					if (kk == 0) continue;
					int v = rng.range(1, NV);
					bool found = Kd::poke(*hs[g], kk, v);
					log.line("{\"op\":\"poke\"," + kv("h", g) + "," + kv("k", kk) + "," + kv("v", v) + "," + kv("r", found ? 1 : 0) + post(g));
					n++;
				}
				else if (w < 7) // insert / remove through a handle of another block
				{
					if (sameBlock) continue;
					if (rng.chance(60))
					{
						int kk = pickKey(), v = Kd::isSet ? 1 : rng.range(1, NV);
						if (hazardPut(*hs[g], kk)) continue;
						Kd::put(*hs[g], kk, v, rng.chance(50));
						log.line("{\"op\":\"set\"," + kv("h", g) + "," + kv("k", kk) + "," + kv("v", v) + post(g));
					}
					else
					{
						int kk = rng.chance(70) ? presentKey(*hs[g]) : pickKey();
						if (kk == 0) continue;
						int res = Kd::remove(*hs[g], kk, rng.chance(50));
						log.line("{\"op\":\"remove\"," + kv("h", g) + "," + kv("k", kk) + "," + kv("r", res) + post(g));
					}
					n++;
				}
				else if (w < 8) // lookups through any handle
				{
					int kk = rng.chance(50) ? presentKey(*hs[g]) : pickKey();
					if (kk == 0) continue;
					log.line("{\"op\":\"find\"," + kv("h", g) + "," + kv("k", kk) + "," + kv("r", Kd::find(*hs[g], kk)) + post(g));
					n++;
				}
				else if (w < 9) // another handle on the enumerated block
				{
					int d = pickDead();
					if (!d) continue;
					hs[d] = new C(*hs[h]);
					log.line("{\"op\":\"copyHandle\"," + kv("h", h) + "," + kv("g", d) + post(h, d));
					n++;
				}
				else // drop a handle other than the enumerated one
				{
					if (g == h || nLive() < 3) continue;
					delete hs[g];
					hs[g] = 0;
					log.line("{\"op\":\"dropHandle\"," + kv("h", g) + "}");
					n++;
				}
			}
			en->next();
			ev = "estep";
		}
		delete en;
		log.line("{\"op\":\"eend\"," + kv("h", h) + post(h));
		return n + 1;
	}

	template <class T>
	std::string setEv(Set<T>& a, Set<T>& b, int h, int g2, int r)
	{
		if (r < 101) return "{\"op\":\"sub\"," + kv("h", h) + "," + kv("g", g2) + "," + kv("r", a.contains(b) ? 1 : 0) + post(h);
		if (r < 103) return "{\"op\":\"any\"," + kv("h", h) + "," + kv("g", g2) + "," + kv("r", a.containsAny(b) ? 1 : 0) + post(h);
		int g = rng.chance(50) && pickDead() ? pickDead() : pickLive();
		const char* op = r < 106 ? "union" : r < 109 ? "inter" : "diff";
		if (!hs[g]) hs[g] = Kd::create();
		{
			Set<T> t = r < 106 ? a + b : r < 109 ? (rng.chance(50) ? a.in(b) : (a & b)) : (rng.chance(50) ? a.notIn(b) : (a - b));
			*hs[g] = t; // a and b stay valid: hs[] holds pointers; the temporary goes away before the state is logged
		}
		return std::string("{\"op\":\"") + op + "\"," + kv("h", h) + "," + kv("g2", g2) + "," + kv("g", g) + post(h, g);
	}
	template <class X>
	std::string setEv(X&, X&, int, int, int) { return ""; }
	std::string setEvent(int h, int g2, int r) { return setEv(*hs[h], *hs[g2], h, g2, r); }
};

template <class Kd>
static void execution(Rng& rng, Log& log, long n, bool avoid, int maxKeys)
{
	long live0 = Kd::VC::live();
	{
		Exec<Kd> ex(rng, log, avoid, maxKeys);
		ex.run(n);
	}
	if (Kd::VC::live() >= 0 && Kd::VC::live() != live0)
	{
		fprintf(stderr, "VREC-FAIL: %ld value instances still alive after all handles were dropped\n", Kd::VC::live() - live0);
		exit(3);
	}
}

typedef OrdKind<Map<int, int>, KInt<2>, VInt> R_MapII;
typedef OrdKind<Dic<String>, KStr<2>, VStr> R_DicS;
typedef OrdKind<Dic<Counted>, KStr<2>, VCounted> R_DicC;
typedef HashKind<HashMap<int, int>, KInt<3>, VInt, 0> R_HashBucket;   // every key in one of the 256 initial bins
typedef HashKind<HashMap<int, int>, KInt<4>, VInt, 0> R_HashBucket2k; // ... and still after the growth to 2048 bins
typedef HashKind<HashMap<int, Counted>, KInt<2>, VCounted, 1> R_HashTiny; // grows 1 -> 8 -> 64 -> 512 -> 4096 bins
typedef HashKind<HashDic<String>, KStr<2>, VStr, 0> R_HDicS;
typedef HashKind<HashMap<String, Counted>, KStr<2>, VCounted, 16> R_HashSC;
typedef SetKind<KInt<3>, 0> R_SetI;
typedef SetKind<KStr<2>, 2> R_SetS;
typedef SetKind<KInt<2>, 1> R_SetTiny;

int main(int argc, char** argv)
{
	Args args(argc, argv);
	Rng rng(args.seed);
	Log log(args.out);
	bool aG = args.avoid.count("GrowWhileShared") > 0, aR = args.avoid.count("RehashWhileShared") > 0;
	R_DicC::warm(); R_HashTiny::warm(); R_HashSC::warm();
	long remaining = args.events;
	int k = (int)(args.seed % 11);
	while (remaining > 0)
	{
		long n = rng.range(800, 3000);
		if (n > remaining) n = remaining;
		switch (k++ % 11)
		{
		case 0: execution<R_MapII>(rng, log, n, aG, 2600); break;
		case 1: execution<R_HashBucket>(rng, log, n, aR, 2600); break;
		case 2: execution<R_DicS>(rng, log, n, aG, 1200); break;
		case 3: execution<R_HashTiny>(rng, log, n, aR, 2600); break;
		case 4: execution<R_SetI>(rng, log, n, aR, 2600); break;
		case 5: execution<R_HDicS>(rng, log, n, aR, 2600); break;
		case 6: execution<R_DicC>(rng, log, n, aG, 1200); break;
		case 7: execution<R_HashBucket2k>(rng, log, n, aR, 2600); break;
		case 8: execution<R_SetS>(rng, log, n, aR, 2000); break;
		case 9: execution<R_HashSC>(rng, log, n, aR, 2000); break;
		case 10: execution<R_SetTiny>(rng, log, n, aR, 2600); break;
		}
		remaining -= n;
	}
	return 0;
}
