// C08 recorder (V): drives the real UTF conversions / count / chars / iteration / case functions and logs what they
// return, one ndjson event per input; spec/Trace_Utf.tla validates every event against the operators of spec/Utf.tla.
//   --mode 0   random valid text (sequences of scalar values, boundary-biased, up to ~300 code points)
//              {"e":"text","cs":[..],"s":[bytes from the encoders],"o":{observation}}
//   --mode 1   random byte strings (well-formed pieces, truncations, overlong forms, surrogates, stray bytes)
//              {"e":"bytes","s":[..],"pl":placement,"o":{..},"t":[partner],"tlo":[lower(partner)],"eq":0/1}
//   --mode 2   exhaustive: every byte string of length --len L whose first byte is in shard --shard k/N of 1..255, or in
//              the list --first b,b,... (bytes 1..255 elsewhere; 0 is the terminator).  --full 1: one "bytes" event per string;
//              otherwise one {"e":"agg",...} event per first byte: number of strings, maxima of (result size - bound),
//              number of disagreements of equalsNocase with equality of the lower-cased forms
//   --mode 3   the case walk: every code point 1..--hi H (surrogates left out): {"e":"cp","c":c,"s":[utf-8],"up":[..],"lo":[..],"ll":[lower of lo]}
// Every input is stored flush against the end of its allocation (c08_common.h), in all three String placements.
#include "c08_common.h"
#include "vrec.h"
#include <algorithm>

using namespace vrec;

static std::string ints(const std::vector<int>& v) { return vj::intlist(v.begin(), v.end()); }

static std::string obsJson(const Obs& o)
{
	return "{" + kv("n", o.n) + ",\"cs\":" + ints(o.cs) + ",\"c32\":" + ints(o.c32) + ",\"it\":" + ints(o.it) + ",\"w\":" + ints(o.w) +
	       ",\"b8\":" + vj::codes(o.b8) + ",\"up\":" + vj::codes(o.up) + ",\"lo\":" + vj::codes(o.lo) + ",\"dw\":" + ints(o.dw) + "," + kv("wl", o.wlen) + "}";
}

// open finding CountTruncatedLead (--avoid): count() must not be called on a string that ends in the lead byte of a
// two-byte sequence; such inputs are not generated / are counted as skipped
static bool g_avoidLead = false;
static bool hazardous(const std::string& s) { return g_avoidLead && !s.empty() && ((unsigned char)s[s.size() - 1] & 0xe0) == 0xc0; }

static void die(const std::string& what, const std::string& s)
{
	fprintf(stderr, "c08_record: %s on input %s\n", what.c_str(), vj::codes(s).c_str());
	exit(3);
}

static int randomScalar(Rng& r)
{
	static const int B[] = { 1, 0x41, 0x5a, 0x61, 0x7a, 0x7f, 0x80, 0xff, 0x586, 0x587, 0x588, 0x7ff, 0x800, 0xfff, 0x1000, 0xd7ff, 0xe000,
	                         0xfffd, 0xffff, 0x10000, 0x1ffff, 0xfffff, 0x100000, 0x10ffff };
	switch (r.below(8))
	{
	case 0: return B[r.below((int)(sizeof B / sizeof B[0]))];
	case 1: case 2: return r.range(1, 0x7f);
	case 3: return r.range(0x80, 0x7ff);
	case 4: { int c = r.range(0x800, 0xffff); return (c >= 0xd800 && c <= 0xdfff) ? 0xfffd : c; }
	case 5: return r.range(0x10000, 0x10ffff);
	case 6: return r.range(0x41, 0x24f);   // cased letters: Latin-1, Latin Extended-A/B
	default: return r.range(0x370, 0x58f); // Greek, Cyrillic, Armenian: around the 1415 cut-over of the case tables
	}
}

static void enc(std::string& s, int c)
{
	if (c < 0x80) s += (char)c;
	else if (c < 0x800) { s += (char)(0xc0 | (c >> 6)); s += (char)(0x80 | (c & 63)); }
	else if (c < 0x10000) { s += (char)(0xe0 | (c >> 12)); s += (char)(0x80 | ((c >> 6) & 63)); s += (char)(0x80 | (c & 63)); }
	else { s += (char)(0xf0 | (c >> 18)); s += (char)(0x80 | ((c >> 12) & 63)); s += (char)(0x80 | ((c >> 6) & 63)); s += (char)(0x80 | (c & 63)); }
}

// input generator only (what comes out is judged by TLC): a byte soup made of pieces
static std::string randomBytes(Rng& r, int maxlen)
{
	static const unsigned char A[] = { 0x7f, 0x80, 0xbf, 0xc0, 0xc2, 0xdf, 0xe0, 0xef, 0xf0, 0xf4, 0xf7, 0xf8, 0xff, 0x41, 0x61, 0xc1, 0xed, 0xa0, 0x9f, 0x90, 0x8f, 0xf5 };
	std::string s;
	int target = r.below(10) == 0 ? r.range(0, maxlen) : r.range(0, std::min(maxlen, 40));
	while ((int)s.size() < target)
	{
		switch (r.below(10))
		{
		case 0: case 1: case 2: enc(s, randomScalar(r)); break;                       // well-formed
		case 3: { std::string t; enc(t, randomScalar(r)); s += t.substr(0, (size_t)r.below((int)t.size() + 1)); break; } // truncated
		case 4: s += (char)A[r.below((int)sizeof A)]; break;                          // boundary byte
		case 5: s += (char)r.range(1, 255); break;
		case 6: { static const char* O[] = { "\xc0\x80", "\xc1\xbf", "\xe0\x80\x80", "\xe0\x9f\xbf", "\xf0\x80\x80\x80", "\xf0\x8f\xbf\xbf", "\xed\xa0\x80", "\xed\xbf\xbf", "\xf4\x90\x80\x80", "\xf7\xbf\xbf\xbf", "\xf8\x88\x80\x80\x80" };
		          s += O[r.below(11)]; break; }
		case 7: s += (char)r.range(0x80, 0xbf); break;                                // stray continuation
		case 8: s += (char)r.range(0x41, 0x7a); break;
		default: s += (char)r.range(0xc2, 0xf4); break;                               // lead without its tail
		}
	}
	if ((int)s.size() > maxlen) s.resize((size_t)maxlen);
	return s;
}

static std::string flipAscii(const std::string& s)
{
	std::string t = s;
	for (size_t i = 0; i < t.size(); i++)
		if ((t[i] >= 'a' && t[i] <= 'z') || (t[i] >= 'A' && t[i] <= 'Z')) t[i] ^= 0x20;
	return t;
}

static std::string partner(Rng& r, const std::string& s, const Obs& o)
{
	switch (r.below(6))
	{
	case 0: return flipAscii(s);
	case 1: return o.lo.find('\0') == std::string::npos ? o.lo : s;
	case 2: return o.up.find('\0') == std::string::npos ? o.up : s;
	case 3: return s;
	case 4: { std::string t = flipAscii(s); if (!t.empty()) t[(size_t)r.below((int)t.size())] = (char)r.range(1, 255); return t; }
	default: return s.substr(0, (size_t)r.below((int)s.size() + 1));
	}
}

static void bytesEvent(Log& log, const std::string& s, int pl, const std::string& t)
{
	Obs o = observe(s, pl);
	if (!o.err.empty()) die(o.err, s);
	bool eq = eqNocase(s, t, pl);
	std::string tlo = lowerOf(t);
	log.line("{\"e\":\"bytes\",\"s\":" + vj::codes(s) + "," + kv("pl", pl) + ",\"o\":" + obsJson(o) + ",\"t\":" + vj::codes(t) + ",\"tlo\":" + vj::codes(tlo) + "," + kv("eq", eq ? 1 : 0) + "}");
}

int main(int argc, char** argv)
{
	Args a(argc, argv);
	int shardK = 0, shardN = 1, len = 3, full = 0, hi = 2100;
	std::set<int> first;
	for (int i = 1; i + 1 < argc; i++)
	{
		if (!strcmp(argv[i], "--shard")) sscanf(argv[i + 1], "%d/%d", &shardK, &shardN);
		else if (!strcmp(argv[i], "--len")) len = atoi(argv[i + 1]);
		else if (!strcmp(argv[i], "--full")) full = atoi(argv[i + 1]);
		else if (!strcmp(argv[i], "--hi")) hi = atoi(argv[i + 1]);
		else if (!strcmp(argv[i], "--first"))
			for (const char* q = argv[i + 1]; *q;)
			{
				first.insert(atoi(q));
				while (*q && *q != ',') q++;
				if (*q) q++;
			}
	}
	Rng rng(a.seed);
	Log log(a.out);
	g_avoidLead = a.avoid.count("CountTruncatedLead") != 0;
	log.line("{\"e\":\"reset\"}");
	if (a.mode == 0)
	{
		for (long ev = 0; ev < a.events; ev++)
		{
			int n = rng.below(12) == 0 ? rng.range(0, 300) : rng.range(0, 24);
			std::vector<int> cs;
			for (int i = 0; i < n; i++) cs.push_back(randomScalar(rng));
			std::string err;
			std::string s = encode32(cs, err);
			if (!err.empty()) die(err, s);
			Obs o = observe(s, (int)(ev % 3));
			if (!o.err.empty()) die(o.err, s);
			log.line("{\"e\":\"text\",\"cs\":" + ints(cs) + ",\"s\":" + vj::codes(s) + ",\"o\":" + obsJson(o) + "}");
		}
	}
	else if (a.mode == 3)
	{
		for (int c = 1; c <= hi; c++)
		{
			if (c >= 0xd800 && c <= 0xdfff) continue;
			std::string s;
			enc(s, c);
			Obs o = observe(s, c % 3);
			if (!o.err.empty()) die(o.err, s);
			std::string ll = o.lo.find('\0') == std::string::npos ? lowerOf(o.lo) : o.lo;
			log.line("{\"e\":\"cp\"," + kv("c", c) + ",\"s\":" + vj::codes(s) + ",\"up\":" + vj::codes(o.up) + ",\"lo\":" + vj::codes(o.lo) + ",\"ll\":" + vj::codes(ll) + "}");
		}
	}
	else if (a.mode == 1)
	{
		for (long ev = 0; ev < a.events; ev++)
		{
			std::string s = randomBytes(rng, 300);
			if (hazardous(s)) s += 'k';
			int pl = (int)(ev % 3);
			Obs o = observe(s, pl);
			if (!o.err.empty()) die(o.err, s);
			bytesEvent(log, s, pl, partner(rng, s, o));
		}
	}
	else
	{
		// exhaustive strings of exactly `len` bytes (len 0: the empty string, reported by shard 0)
		if (len == 0)
		{
			if (shardK == 0) bytesEvent(log, "", 0, "");
			return 0;
		}
		for (int b0 = 1; b0 <= 255; b0++)
		{
			if (first.empty() ? b0 % shardN != shardK : !first.count(b0)) continue;
			long count = 0, neq = 0, skipped = 0;
			long mx[8] = { -1000, -1000, -1000, -1000, -1000, -1000, -1000, -1000 };
			std::string s((size_t)len, (char)1);
			s[0] = (char)b0;
			for (;;)
			{
				if (hazardous(s)) skipped++;
				else
				for (int pl = 0; pl < 3; pl++)
				{
					if (full)
					{
						if (pl == (int)(count % 3)) bytesEvent(log, s, pl, flipAscii(s));
						continue;
					}
					Obs o = observe(s, pl);
					if (!o.err.empty()) die(o.err, s);
					long L = (long)s.size();
					long d[8] = { o.n - L, (long)o.cs.size() - L, (long)o.c32.size() - L, (long)o.it.size() - L, (long)o.w.size() - L,
					              (long)o.b8.size() - 4 * (long)o.w.size(), (long)o.up.size() - L, (long)o.lo.size() - L };
					for (int q = 0; q < 8; q++) mx[q] = std::max(mx[q], d[q]);
					std::string t = flipAscii(s);
					if (eqNocase(s, t, pl) != (o.lo == lowerOf(t))) neq++;
				}
				if (!hazardous(s)) count++;
				// next string with the same first byte, bytes 1..255
				int p = len - 1;
				while (p >= 1 && (unsigned char)s[(size_t)p] == 255) { s[(size_t)p] = (char)1; p--; }
				if (p < 1) break;
				s[(size_t)p] = (char)((unsigned char)s[(size_t)p] + 1);
			}
			if (!full)
				log.line("{\"e\":\"agg\"," + kv("b0", b0) + "," + kv("len", len) + "," + kv("count", count) + "," + kv("skipped", skipped) + ",\"mx\":{" + kv("n", mx[0]) + "," + kv("cs", mx[1]) + "," +
				         kv("c32", mx[2]) + "," + kv("it", mx[3]) + "," + kv("w", mx[4]) + "," + kv("b8", mx[5]) + "," + kv("up", mx[6]) + "," + kv("lo", mx[7]) + "}," + kv("neq", neq) + "}");
		}
	}
	return 0;
}
