// Shared helpers of the C15 harnesses: conversions between harness byte strings (std::string) and asl values.
// No expected values are computed here - they come from TLC (spec/Codecs.tla).
#ifndef C15_COMMON_H
#define C15_COMMON_H
#include <asl/String.h>
#include <asl/Array.h>
#include <asl/Map.h>
#include <asl/util.h>
#include <asl/Http.h>
#include <asl/SHA1.h>
#include "vjson.h"
#include <string>
#include <vector>
#include <algorithm>

using namespace asl;

static inline ByteArray toBytes(const std::string& s)
{
	ByteArray a(s.size() > 0 ? (int)s.size() : 0);
	for (size_t i = 0; i < s.size(); i++) a[(int)i] = (byte)s[i];
	return a;
}
static inline String toStr(const std::string& s) { return String(s.data(), (int)s.size()); }
static inline std::string fromBytes(const ByteArray& a)
{
	std::string r;
	for (int i = 0; i < a.length(); i++) r += (char)a[i];
	return r;
}
static inline std::string fromStr(const String& s) { return std::string(*s, (size_t)(s.length() > 0 ? s.length() : 0)); }
static inline bool hasNul(const std::string& s) { return s.find('\0') != std::string::npos; }

static inline std::string show(const std::string& s, size_t max = 48)
{
	std::string r = "[";
	char b[8];
	for (size_t i = 0; i < s.size() && i < max; i++) { snprintf(b, sizeof b, i ? ",%d" : "%d", (int)(unsigned char)s[i]); r += b; }
	if (s.size() > max) r += ",...";
	snprintf(b, sizeof b, "]#%d", (int)s.size());
	return r + b;
}

typedef std::vector<std::pair<std::string, std::string> > Pairs;
static inline Pairs fromDic(const Dic<>& d)
{
	Pairs r;
	foreach2(String& k, const String& v, d)
		r.push_back(std::make_pair(fromStr(k), fromStr(v)));
	std::sort(r.begin(), r.end());
	return r;
}
static inline Pairs pairsOf(const vj::Value& v)   // [[key codes, value codes], ...]
{
	Pairs r;
	for (size_t i = 0; i < v.size(); i++) r.push_back(std::make_pair(v[i][0].bytes(), v[i][1].bytes()));
	std::sort(r.begin(), r.end());
	return r;
}
static inline std::string showPairs(const Pairs& p)
{
	std::string r = "{";
	for (size_t i = 0; i < p.size() && i < 6; i++) r += (i ? "," : "") + show(p[i].first, 12) + ":" + show(p[i].second, 12);
	return r + "}";
}
#endif
