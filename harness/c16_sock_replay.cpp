// C16 socket lane, replayer (R): executes the histories TLC generates from spec/EndianSocket.tla.  A case is a history:
//   {"op":"init","tr":transport,"steps":[{"k":"send","d":[bytes]}|{"k":"close","d":[]} ...]}   the peer's whole schedule
//   {"op":"peer","st":step}                       the peer takes its next step at a quiescent point
//   {"op":"set","o":order}                        sock.setEndian
//   {"op":"rclose","got":discarded}               sock.close() by the reader
//   {"op":"r","t":type,"o":order,"k":k,"full":b,"got":g,"v":[msb..lsb]}    sock >> x / sock.read<T>() while the peer takes its next k steps
//   {"op":"rp"|"rb"|"rstr"|"skip","n":n,"k":k,"got":g,"d":[bytes]}         read(p,n) / read(n) / readString(n) / skip(n), likewise
//   {"op":"rall","got":g,"d":[bytes]}             read()
//   {"op":"avail","r":n}  {"op":"disc","r":b}     available(); disconnected() and connected()
//   {"op":"wi"|"wd","to":sec,"k":k,"r":b}         waitInput(to) / waitData(to) while the peer takes its next k steps
// every reader record carries "e": error() != 0 after the call.  All expected values come from the case; the peer is
// plain POSIX; a blocking call runs while a helper thread performs the k scheduled steps with short pauses, and a call
// that does not return is caught by the per-case time limit of vrun.h (hang).  At the end what the specification says
// is still undelivered to the reader (`avail`) is taken off the wire with POSIX calls and compared.
#include "c16_sock_common.h"
#include "vrun.h"

using vrun::Outcome;
using namespace c16s;

static TmpDir* g_tmp = 0;

#define FAIL(...) do { char _b[600]; snprintf(_b, sizeof _b, __VA_ARGS__); \
	return Outcome::fail(c.how + ": step " + std::to_string(step) + " " + opname + ": " + _b); } while (0)

static Step stepOf(const vj::Value& v)
{
	Step st;
	st.close = v["k"].s() == "close";
	st.d = v["d"].bytes();
	return st;
}

static Outcome runCase(const vj::Value& cs)
{
	const vj::Value& hist = cs["hist"];
	Conn c;
	size_t step = 0;
	std::string opname = "init";
	if (hist.size() == 0 || hist[0]["op"].s() != "init") FAIL("harness: no init record");
	std::vector<Step> sched;
	for (size_t i = 0; i < hist[0]["steps"].size(); i++) sched.push_back(stepOf(hist[0]["steps"][i]));
	size_t next = 0; // next scheduled step
	int variant = (int)(hist.size() + sched.size());
	std::string why = c.open(hist[0]["tr"].s(), variant, *g_tmp);
	if (!why.empty()) { c.how = hist[0]["tr"].s(); FAIL("harness: %s", why.c_str()); }
	Socket& s = *c.s;
	size_t calls = 0;
	for (step = 1; step < hist.size(); step++)
	{
		const vj::Value& o = hist[step];
		opname = o["op"].s();
		if (opname == "peer")
		{
			if (next >= sched.size()) FAIL("harness: schedule exhausted");
			if (!c.doStep(sched[next++])) FAIL("harness: the peer could not send");
			if (!c.settle()) FAIL("%d bytes pending on the reader's descriptor, the peer has sent %lld and the reader has taken %lld",
			                      c.unread(), c.sentTotal, c.takenTotal);
			continue;
		}
		calls++;
		bool wantErr = o["e"].b;
		int k = o.has("k") ? o["k"].i() : 0;
		Helper h(&c, 1 + (int)((step + sched.size()) % 3));
		for (int i = 0; i < k; i++)
		{
			if (next >= sched.size()) FAIL("harness: schedule exhausted");
			h.steps.push_back(sched[next++]);
		}
		if (opname == "set") s.setEndian(endianOf(o["o"].s()));
		else if (opname == "rclose")
		{
			s.close();
			c.readerClosed = true;
		}
		else if (opname == "r")
		{
			if (!h.start()) FAIL("harness: no thread");
			std::string v;
			bool known = readScalar(s, o["t"].s(), (step & 1) != 0, v);
			h.join();
			if (!known) FAIL("harness: unknown type");
			c.takenTotal += o["got"].ll();
			if (o["full"].b && v != o["v"].bytes())
				FAIL("%s read as %s, specification says %s (byte order %s)", o["t"].s().c_str(), hexs(v).c_str(), hexs(o["v"].bytes()).c_str(), o["o"].s().c_str());
		}
		else if (opname == "rp" || opname == "rb" || opname == "rstr" || opname == "skip" || opname == "rall")
		{
			if (!h.start()) FAIL("harness: no thread");
			int n = opname == "rall" ? -1 : o["n"].i();
			RawResult r = readRaw(s, opname, n);
			h.join();
			c.takenTotal += o["got"].ll();
			if (!r.note.empty()) FAIL("%s", r.note.c_str());
			std::string d = o["d"].bytes();
			if (opname == "rp" && r.count != o["got"].i()) FAIL("read(p, %d) returned %d, specification says %d", n, r.count, o["got"].i());
			if (opname != "skip" && r.d != d) FAIL("(n = %d) produced %s, specification says %s", n, hexs(r.d).c_str(), hexs(d).c_str());
		}
		else if (opname == "avail")
		{
			int a = s.available();
			if (a != o["r"].i()) FAIL("available() = %d, specification says %d", a, o["r"].i());
		}
		else if (opname == "disc")
		{
			bool d = s.disconnected();
			bool cn = s.connected();
			if (d != o["r"].b) FAIL("disconnected() = %d, specification says %d", (int)d, (int)o["r"].b);
			if (cn == o["r"].b) FAIL("connected() = %d although disconnected() = %d", (int)cn, (int)d);
		}
		else if (opname == "wi" || opname == "wd")
		{
			if (!h.start()) FAIL("harness: no thread");
			double to = (double)o["to"].i();
			bool r = opname == "wi" ? s.waitInput(to) : s.waitData(to);
			h.join();
			if (r != o["r"].b) FAIL("returned %d, specification says %d (timeout %g s)", (int)r, (int)o["r"].b, to);
		}
		else
			FAIL("harness: unknown op");
		if (!h.ok) FAIL("harness: the peer could not send");
		bool isErr = s.error() != 0;
		if (isErr != wantErr) FAIL("error() = %d afterwards, specification says error() %s 0", s.error(), wantErr ? "!=" : "==");
		if (k > 0 && !c.settle()) FAIL("%d bytes pending on the reader's descriptor afterwards, the peer has sent %lld and the reader has taken %lld",
		                                 c.unread(), c.sentTotal, c.takenTotal);
	}
	opname = "end";
	// nothing lost, nothing invented: what the specification says is delivered and unconsumed is what POSIX finds on the wire
	if (!c.settle()) FAIL("%d bytes pending on the reader's descriptor, the peer has sent %lld and the reader has taken %lld", c.unread(), c.sentTotal, c.takenTotal);
	std::string rest = c.drainRaw(), want = cs["avail"].bytes();
	if (rest != want) FAIL("left on the wire: %s, specification says %s", hexs(rest).c_str(), hexs(want).c_str());
	Outcome ok;
	ok.nontrivial = calls >= 1 && hist.size() >= 3;
	return ok;
}

int main(int argc, char** argv)
{
	if (!hostLittle()) { fprintf(stderr, "c16_sock_replay: the configurations assume Native = LITTLE\n"); return 2; }
	signal(SIGPIPE, SIG_IGN);
	TmpDir tmp;
	g_tmp = &tmp;
	return vrun::run(argc, argv, runCase);
}
