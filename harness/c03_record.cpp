// C03 recorder (V): seeded random driver of asl::String that logs one ndjson event per public call;
// spec/Trace_ByteString.tla validates the log against the actions of ByteString.tla and the operators of
// ByteStringOps.tla / IntText.tla.
//   --mode 0  four String variables under random in-place calls (the ones of ByteString.tla, aliasing calls included)
//             mixed with pure queries whose results are logged; values grow to ~1200 bytes so that the inline limit,
//             every doubling and the malloc->realloc switch of resize() at 1 KiB are crossed many times
//   --mode 1  integers: boundary and random 32/64-bit patterns (logged as 16-bit limbs) -> text -> back
//   --mode 2  large single jumps: four String variables whose buffers are at and beyond the 1 KiB growth-policy switch
//             of resize() receive one call that asks for much more (or less) than they hold - append of a long literal /
//             run / variable / of itself / of a piece of itself, append(buf, n), resize up and down, assignment of a long
//             value into an existing buffer, reserve, String(n0, "%s", ..) with a too small n0 >= 1 KiB.  The requested
//             lengths are aimed at cap(): just beyond it, both sides of 1.5x, 2x, 3x, 4x and random factors up to 6x;
//             values up to 12 000 bytes (--mode 3: 30 000).  Buffers never shrink, so a variable is now and then replaced by a
//             newly constructed String (logged as the assignment of that value).
// In-range arguments only, non-empty patterns, no NUL bytes (the property's quantifier).  --avoid lists open findings
// whose shapes must not be generated (SelfAppend, AssignOverlap, LongMin).
#include <asl/String.h>
#include <asl/Array.h>
#include "vrec.h"
#include <vector>
#include <string>
using namespace asl;
using namespace vrec;

static const int NV = 4;
static const int MAXLEN = 1300;

static std::string bytesOf(const String& s) { return std::string(*s, (size_t)s.length()); }
static std::string kb(const char* k, const std::string& v) { return std::string("\"") + k + "\":" + vj::codes(v); }

struct CBuf
{
	char* p;
	explicit CBuf(const std::string& s) : p((char*)malloc(s.size() + 1)) { memcpy(p, s.data(), s.size()); p[s.size()] = 0; }
	~CBuf() { free(p); }
	operator const char*() const { return p; }
private:
	CBuf(const CBuf&);
	void operator=(const CBuf&);
};

static char randByte(Rng& r)
{
	static const char A[] = { 'a', 'b', 'c', ',', ' ', ' ', '\t', '\n', 'x', 'a', 'b', ',' };
	int k = r.below(20);
	if (k < 16) return A[r.below((int)sizeof A)];
	if (k < 18) return (char)r.range(33, 126);
	return (char)r.range(1, 255);
}
static std::string randBytes(Rng& r, int n)
{
	std::string s;
	for (int i = 0; i < n; i++) s += randByte(r);
	return s;
}
static int randLen(Rng& r)
{
	static const int B[] = { 0, 1, 2, 14, 15, 16, 17, 19, 20, 23, 24, 31, 32, 33, 47, 48, 63, 64, 65, 127, 128, 255, 256, 511, 512, 1022, 1023, 1024, 1025 };
	switch (r.below(6))
	{
	case 0: return B[r.below((int)(sizeof B / sizeof B[0]))];
	case 1: return r.range(0, 1100);
	default: return r.range(0, 40);
	}
}
// a non-empty pattern that has a fair chance to occur in s
static std::string randPattern(Rng& r, const std::string& s)
{
	if (!s.empty() && r.below(3) != 0)
	{
		int n = r.range(1, 3);
		int i = r.below((int)s.size());
		return s.substr((size_t)i, (size_t)n);
	}
	return randBytes(r, r.range(1, 3));
}

static void die(const std::string& m)
{
	fprintf(stderr, "c03_record: %s\n", m.c_str());
	exit(3);
}

static void checkSane(const String& s, const char* where)
{
	if (s.length() < 0 || s.cap() <= s.length() || (int)strlen(*s) != s.length())
		die(std::string(where) + ": length() = " + std::to_string(s.length()) + ", terminating NUL at offset " + std::to_string(strlen(*s)) + ", cap() = " + std::to_string(s.cap()));
}

static std::string partsJson(const Array<String>& a)
{
	std::string s = "[";
	for (int i = 0; i < a.length(); i++)
	{
		checkSane(a[i], "split part");
		if (i) s += ",";
		s += vj::codes(bytesOf(a[i]));
	}
	return s + "]";
}

static void limbsOf(unsigned long long bits, int k, std::string& out)
{
	out = "[";
	for (int i = k - 1; i >= 0; i--)
	{
		out += std::to_string((unsigned)((bits >> (16 * i)) & 0xffff));
		if (i) out += ",";
	}
	out += "]";
}

static void runInts(Rng& rng, Log& log, long events, bool avoidLongMin)
{
	static const unsigned long long B64[] = { 0ULL, 1ULL, 9ULL, 10ULL, 0x7fffffffULL, 0x80000000ULL, 0xffffffffULL, 0x100000000ULL, 0x7fffffffffffffffULL,
	                                          0x8000000000000000ULL, 0x8000000000000001ULL, 0xffffffffffffffffULL, 999999999999999ULL, 1000000000000000ULL,
	                                          (unsigned long long)-99999999999999LL, (unsigned long long)-100000000000000LL, 9999999999999999999ULL, 10000000000000000000ULL };
	for (long ev = 0; ev < events; ev++)
	{
		unsigned long long bits;
		int kind = rng.below(10);
		if (kind == 0) bits = B64[rng.below((int)(sizeof B64 / sizeof B64[0]))];
		else if (kind < 4) { int sh = rng.below(64); bits = rng.next() >> sh; if (rng.chance(50)) bits = 0 - bits; }   // every magnitude
		else if (kind < 6) { bits = 1; int d = rng.below(20); for (int i = 0; i < d; i++) bits *= 10; bits += (unsigned long long)(rng.below(3) - 1); if (rng.chance(50)) bits = 0 - bits; }
		else bits = rng.next();
		std::string lx, st, ut, ps, pu;
		if (rng.chance(40))
		{
			unsigned xu = (unsigned)bits;
			int xi = (int)xu;
			limbsOf(xu, 2, lx);
			String a(xi), b(xu);
			checkSane(a, "String(int)");
			checkSane(b, "String(unsigned)");
			limbsOf((unsigned)(int)a, 2, ps);
			limbsOf((unsigned)b, 2, pu);
			log.line("{\"op\":\"int\"," + kv("w", 32) + ",\"x\":" + lx + "," + kb("st", bytesOf(a)) + "," + kb("ut", bytesOf(b)) + ",\"ps\":" + ps + ",\"pu\":" + pu + "}");
		}
		else
		{
			if (avoidLongMin && bits == 0x8000000000000000ULL) continue;
			Long xl = (Long)bits;
			ULong xu = (ULong)bits;
			limbsOf(bits, 4, lx);
			String a(xl), b(xu);
			checkSane(a, "String(Long)");
			checkSane(b, "String(ULong)");
			limbsOf((unsigned long long)(Long)a, 4, ps);
			limbsOf((unsigned long long)b.toLong(), 4, pu);
			log.line("{\"op\":\"int\"," + kv("w", 64) + ",\"x\":" + lx + "," + kb("st", bytesOf(a)) + "," + kb("ut", bytesOf(b)) + ",\"ps\":" + ps + ",\"pu\":" + pu + "}");
		}
	}
}

// ------------------------------------------------------------------------------------------------------------------
// mode 2/3: large single jumps around the growth policy of resize()
static int jumpTarget1(Rng& r, int cap);
static int jumpTarget(Rng& r, int cap, int maxlen)
{
	int n = 0;
	for (int i = 0; i < 12; i++) // prefer a request that is still allowed
	{
		n = jumpTarget1(r, cap);
		if (n <= maxlen) break;
	}
	return n;
}
static int jumpTarget1(Rng& r, int cap)
{
	// requested length n such that n + 1 (bytes + NUL) relates to the buffer size as the growth policy's cases do
	static const int NUM[] = { 2, 3, 3, 4, 4, 4, 5, 6, 8, 12 }; // in halves of cap(): 1x 1.5x 2x 2.5x 3x 4x 6x (+-2)
	int k = r.below(12);
	int need;
	if (k == 0) need = cap + r.range(1, 3);
	else if (k <= 8) need = (int)((long long)cap * NUM[r.below(10)] / 2) + r.range(-2, 2);
	else need = cap + r.range(1, 5 * cap);
	if (need <= cap) need = cap + 1;
	return need - 1;
}
static int crossLen(Rng& r)
{
	static const int B[] = { 0, 1, 15, 16, 23, 24, 511, 1021, 1022, 1023, 1024, 1025, 2046, 2047, 2048, 4094, 4095, 4096, 4097 };
	return r.chance(70) ? B[r.below((int)(sizeof B / sizeof B[0]))] : r.range(0, 5000);
}

static void runBig(Rng& rng, Log& log, long events, int maxlen, bool avoidSelfAppend, bool avoidOverlap)
{
	String* v[NV + 1];
	for (int i = 1; i <= NV; i++) v[i] = new String();
	v[0] = 0;
	long done = 0;
	long guard = 0;
	int renew = 0;
	while (done < events)
	{
		if (++guard > 200 * events + 100000) die("big mode: generator makes no progress");
		int x = rng.range(1, NV), y = rng.range(1, NV);
		int r = rng.below(100);
		if (renew) { x = renew; r = 94; renew = 0; } // the jump drawn for this variable was not possible any more
		String& s = *v[x];
		int len = s.length(), cap = s.cap();
		std::string e;
		bool inplace = true;
		if (cap < 600 && r < 64) r = 94;                               // small buffer: give it a long value first
		else if (cap + cap / 2 > maxlen && r < 64 && rng.chance(70)) r = 94; // no room for another jump: renew the buffer
		if (r < 24) // ---- one append that needs much more than the buffer holds
		{
			int n = jumpTarget(rng, cap, maxlen);
			int m = n - len;
			if (m <= 0 || n > maxlen) { renew = x; continue; }
			int how = rng.below(5);
			if (how == 0)
			{
				std::string t = randBytes(rng, m);
				CBuf b(t);
				if (rng.chance(50)) s += (const char*)b; else s << (const char*)b;
				e = "{\"op\":\"append\"," + kv("x", x) + "," + kb("s", t);
			}
			else if (how == 1)
			{
				std::string t = randBytes(rng, m + rng.range(0, 40));
				CBuf b(t);
				s.append((const char*)b, m);
				e = "{\"op\":\"appendN\"," + kv("x", x) + "," + kb("s", t) + "," + kv("n", m);
			}
			else
			{
				char c = (char)rng.range(33, 126);
				String t = String::repeat(c, m);
				if (how == 2) s += t; else if (how == 3) s << t; else s.append(*t, m);
				e = "{\"op\":\"appendRepeat\"," + kv("x", x) + "," + kv("c", (unsigned char)c) + "," + kv("n", m);
			}
		}
		else if (r < 36) // ---- resize up to a length aimed at the buffer size
		{
			int n = jumpTarget(rng, cap, maxlen);
			if (n > maxlen) { renew = x; continue; }
			char c = (char)rng.range(33, 126);
			s.resize(n);
			for (int q = len; q < n; q++) s[q] = c;
			e = "{\"op\":\"resize\"," + kv("x", x) + "," + kv("n", n) + "," + kv("c", (unsigned char)c);
		}
		else if (r < 42) // ---- resize up or down across 1024 / 2048 / 4096
		{
			int n = crossLen(rng);
			if (n > maxlen) continue;
			char c = randByte(rng);
			s.resize(n);
			for (int q = len; q < n; q++) s[q] = c;
			e = "{\"op\":\"resize\"," + kv("x", x) + "," + kv("n", n) + "," + kv("c", (unsigned char)c);
		}
		else if (r < 50) // ---- the string appended to itself / a piece of itself / another (long) variable
		{
			int how = rng.below(3);
			if (how == 0)
			{
				if (2 * len > maxlen || len == 0 || avoidSelfAppend) continue;
				if (rng.chance(50)) s += s; else s << s;
				e = "{\"op\":\"appendVar\"," + kv("x", x) + "," + kv("y", x);
			}
			else if (how == 1)
			{
				int k = rng.chance(50) ? rng.range(0, len < 3 ? len : 3) : rng.range(0, len);
				if (2 * len - k > maxlen) continue;
				if (avoidSelfAppend && k < len) continue;
				s += *s + k;
				e = "{\"op\":\"appendPiece\"," + kv("x", x) + "," + kv("k", k);
			}
			else
			{
				if (len + v[y]->length() > maxlen) continue;
				if (avoidSelfAppend && x == y && len > 0) continue;
				if (rng.chance(50)) s += *v[y]; else s << *v[y];
				e = "{\"op\":\"appendVar\"," + kv("x", x) + "," + kv("y", y);
			}
		}
		else if (r < 60) // ---- a long value assigned into the existing buffer
		{
			int n = rng.chance(70) ? jumpTarget(rng, cap, maxlen) : crossLen(rng);
			if (n > maxlen) continue;
			int how = rng.below(4);
			if (how == 0)
			{
				std::string t = randBytes(rng, n);
				CBuf b(t);
				s = (const char*)b;
				e = "{\"op\":\"assign\"," + kv("x", x) + "," + kb("s", t);
			}
			else if (how == 1)
			{
				std::string t = randBytes(rng, n + rng.range(0, 40));
				CBuf b(t);
				s.assign((const char*)b, n);
				e = "{\"op\":\"assignN\"," + kv("x", x) + "," + kb("s", t) + "," + kv("n", n);
			}
			else if (how == 2)
			{
				char c = (char)rng.range(33, 126);
				String t = String::repeat(c, n);
				s = t;
				e = "{\"op\":\"assignRepeat\"," + kv("x", x) + "," + kv("c", (unsigned char)c) + "," + kv("n", n);
			}
			else { s = *v[y]; e = "{\"op\":\"assignVar\"," + kv("x", x) + "," + kv("y", y); }
		}
		else if (r < 64) // ---- room without a new length
		{
			int n = rng.chance(70) ? jumpTarget(rng, cap, maxlen) : crossLen(rng);
			if (n > maxlen) continue;
			s.resize(n, true, false);
			e = "{\"op\":\"reserve\"," + kv("x", x) + "," + kv("n", n);
		}
		else if (r < 78) // ---- small calls between the jumps
		{
			int how = rng.below(8);
			if (how <= 1)
			{
				if (len + 1 > maxlen) continue;
				char c = randByte(rng);
				if (rng.chance(50)) s += c; else s << c;
				e = "{\"op\":\"appendChar\"," + kv("x", x) + "," + kv("c", (unsigned char)c);
			}
			else if (how == 2)
			{
				std::string t = randBytes(rng, rng.range(0, 30));
				if (len + (int)t.size() > maxlen) continue;
				CBuf b(t);
				s += (const char*)b;
				e = "{\"op\":\"append\"," + kv("x", x) + "," + kb("s", t);
			}
			else if (how == 3) { s.clear(); e = "{\"op\":\"clear\"," + kv("x", x); }
			else if (how == 4)
			{
				int k = rng.range(0, len);
				s.data()[k] = 0;
				s.fix();
				e = "{\"op\":\"fixAt\"," + kv("x", x) + "," + kv("k", k);
			}
			else if (how == 5)
			{
				int k = rng.chance(30) ? (rng.chance(50) ? 0 : len) : rng.range(0, len);
				if (avoidOverlap && k > 0 && k < len) continue;
				s = *s + k;
				e = "{\"op\":\"assignPiece\"," + kv("x", x) + "," + kv("k", k);
			}
			else if (how == 6) { s.trim(); e = "{\"op\":\"trim\"," + kv("x", x); }
			else
			{
				if (len + 12 > maxlen) continue;
				int n = rng.chance(50) ? -2147483647 : (int)(rng.next() >> rng.range(33, 63));
				s << n;
				e = "{\"op\":\"appendInt\"," + kv("x", x) + "," + kv("n", n);
			}
		}
		else if (r < 94) // ---- queries (those that stay cheap for TLC on values of this size)
		{
			inplace = false;
			int how = rng.below(3);
			if (how == 0)
			{
				// comparison, when it is decided early (the specification's Compare recurses byte by byte)
				const String& t = *v[y];
				int d = 0, lim = len < t.length() ? len : t.length();
				while (d < lim && s[d] == t[d]) d++;
				if (d > 300) continue;
				int c = s.compare(t);
				e = "{\"op\":\"compare\"," + kv("x", x) + "," + kv("y", y) + "," + kv("r", c < 0 ? -1 : c > 0 ? 1 : 0) + "," + kv("eq", s == t ? 1 : 0) + "," + kv("lt", s < t ? 1 : 0);
			}
			else if (how == 1)
			{
				int i = rng.range(-len, len), n = rng.chance(20) ? len + 5 : rng.range(0, len);
				String t = s.substr(i, n);
				checkSane(t, "substr");
				e = "{\"op\":\"substr\"," + kv("x", x) + "," + kv("i", i) + "," + kv("n", n) + "," + kb("r", bytesOf(t));
			}
			else
			{
				// printf-style constructor whose first buffer (n0 >= 1 KiB) is too small for the text: its retry loop resizes
				if (len < 1100) continue;
				int n0 = rng.chance(50) ? rng.range(1023, 1026) : rng.range(1023, len);
				int n = (int)(rng.next() >> rng.range(33, 63));
				int shape = rng.below(2);
				String t = shape == 0 ? String(n0, "%s", *s) : String(n0, "[%d] %s", n, *s);
				checkSane(t, "String(n0, fmt, ..)");
				e = "{\"op\":\"fmt\"," + kv("x", x) + "," + kv("shape", shape) + "," + kv("n", n) + "," + kv("w", 0) + "," + kb("r", bytesOf(t));
			}
		}
		else // ---- a new object (buffers never shrink): exact fit for a value around the switch and its doublings
		{
			static const int F[] = { 600, 1000, 1021, 1022, 1023, 1024, 1100, 1500, 2046, 2047, 2048, 3000 };
			int n = rng.chance(60) ? F[rng.below((int)(sizeof F / sizeof F[0]))] : rng.range(900, 2200);
			if (n > maxlen) continue;
			int how = rng.below(3);
			String* fresh = 0;
			if (how == 0)
			{
				std::string t = randBytes(rng, n);
				CBuf b(t);
				fresh = rng.chance(50) ? new String((const char*)b) : new String((const char*)b, n);
				e = "{\"op\":\"assign\"," + kv("x", x) + "," + kb("s", t);
			}
			else if (how == 1)
			{
				char c = (char)rng.range(33, 126);
				fresh = new String(String::repeat(c, n));
				e = "{\"op\":\"assignRepeat\"," + kv("x", x) + "," + kv("c", (unsigned char)c) + "," + kv("n", n);
			}
			else
			{
				int ly = v[y]->length();
				if (ly < 1000) continue;
				int i = rng.range(0, ly - 1000), j = rng.range(i + 1000, ly);
				fresh = rng.chance(50) ? new String(v[y]->substring(i, j)) : new String(v[y]->substr(i, j - i));
				e = "{\"op\":\"assignSubstring\"," + kv("x", x) + "," + kv("y", y) + "," + kv("i", i) + "," + kv("j", j);
			}
			delete v[x];
			v[x] = fresh;
			for (int q = 1; q <= NV; q++) checkSane(*v[q], "after a call");
			log.line(e + "," + kb("v", bytesOf(*fresh)) + "}");
			done++;
			continue;
		}
		for (int q = 1; q <= NV; q++) checkSane(*v[q], "after a call");
		if (inplace) e += "," + kb("v", bytesOf(s));
		log.line(e + "}");
		done++;
	}
	for (int i = 1; i <= NV; i++) delete v[i];
}

int main(int argc, char** argv)
{
	Args a(argc, argv);
	Rng rng(a.seed);
	Log log(a.out);
	bool avoidSelfAppend = a.avoid.count("SelfAppend") != 0, avoidOverlap = a.avoid.count("AssignOverlap") != 0, avoidLongMin = a.avoid.count("LongMin") != 0;
	log.line("{\"op\":\"reset\"}");
	if (a.mode == 1)
	{
		runInts(rng, log, a.events, avoidLongMin);
		return 0;
	}
	if (a.mode == 2 || a.mode == 3)
	{
		runBig(rng, log, a.events, a.mode == 2 ? 12000 : 30000, avoidSelfAppend, avoidOverlap);
		return 0;
	}
	String* v[NV + 1];
	for (int i = 1; i <= NV; i++) v[i] = new String();
	v[0] = 0;
	long done = 0;
	while (done < a.events)
	{
		int x = rng.range(1, NV), y = rng.range(1, NV), z = rng.range(1, NV);
		String& s = *v[x];
		int len = s.length();
		std::string e;
		std::string head;
		int r = rng.below(100);
		bool inplace = true;
		if (r < 8) // assign literal
		{
			std::string t = randBytes(rng, randLen(rng));
			CBuf b(t);
			if (rng.chance(50)) s = (const char*)b; else s = String((const char*)b);
			e = "{\"op\":\"assign\"," + kv("x", x) + "," + kb("s", t);
		}
		else if (r < 12) { s = *v[y]; e = "{\"op\":\"assignVar\"," + kv("x", x) + "," + kv("y", y); }
		else if (r < 17)
		{
			int k = rng.chance(30) ? (rng.chance(50) ? 0 : len) : rng.range(0, len);
			if (avoidOverlap && k > 0 && k < len) continue;
			s = *s + k;
			e = "{\"op\":\"assignPiece\"," + kv("x", x) + "," + kv("k", k);
		}
		else if (r < 22)
		{
			int ly = v[y]->length();
			int i = rng.range(0, ly), j = rng.range(i, ly);
			if (rng.chance(50)) s = v[y]->substring(i, j); else s = v[y]->substr(i, j - i);
			e = "{\"op\":\"assignSubstring\"," + kv("x", x) + "," + kv("y", y) + "," + kv("i", i) + "," + kv("j", j);
		}
		else if (r < 26)
		{
			if (v[y]->length() + v[z]->length() > MAXLEN) continue;
			s = *v[y] + *v[z];
			e = "{\"op\":\"assignConcat\"," + kv("x", x) + "," + kv("y", y) + "," + kv("z", z);
		}
		else if (r < 31)
		{
			std::string pa = randPattern(rng, bytesOf(s)), pb = randBytes(rng, rng.below(5));
			if (len / (int)pa.size() * (int)pb.size() + len > 2 * MAXLEN) continue;
			String A((const char*)CBuf(pa)), B((const char*)CBuf(pb));
			s = s.replace(A, B);
			e = "{\"op\":\"assignReplace\"," + kv("x", x) + "," + kb("a", pa) + "," + kb("b", pb);
		}
		else if (r < 41) // append literal (bursts of small appends walk through every capacity)
		{
			std::string t = randBytes(rng, rng.chance(70) ? rng.range(0, 9) : randLen(rng));
			if (len + (int)t.size() > MAXLEN) continue;
			CBuf b(t);
			if (rng.chance(50)) s += (const char*)b; else s << (const char*)b;
			e = "{\"op\":\"append\"," + kv("x", x) + "," + kb("s", t);
		}
		else if (r < 46)
		{
			if (len + v[y]->length() > MAXLEN) continue;
			if (avoidSelfAppend && x == y && len > 0) continue;
			if (rng.chance(50)) s += *v[y]; else s << *v[y];
			e = "{\"op\":\"appendVar\"," + kv("x", x) + "," + kv("y", y);
		}
		else if (r < 50)
		{
			int k = rng.range(0, len);
			if (2 * len - k > MAXLEN) continue;
			if (avoidSelfAppend && k < len) continue;
			s += *s + k;
			e = "{\"op\":\"appendPiece\"," + kv("x", x) + "," + kv("k", k);
		}
		else if (r < 55)
		{
			if (len + 1 > MAXLEN) continue;
			char c = randByte(rng);
			if (rng.chance(50)) s += c; else s << c;
			e = "{\"op\":\"appendChar\"," + kv("x", x) + "," + kv("c", (unsigned char)c);
		}
		else if (r < 58)
		{
			if (len + 12 > MAXLEN) continue;
			int n = rng.chance(30) ? (rng.chance(50) ? 2147483647 : -2147483647) : (int)(rng.next() >> rng.range(33, 63)) * (rng.chance(50) ? 1 : -1);
			s << n;
			e = "{\"op\":\"appendInt\"," + kv("x", x) + "," + kv("n", n);
		}
		else if (r < 61) { s.trim(); e = "{\"op\":\"trim\"," + kv("x", x); }
		else if (r < 63)
		{
			char ca = len > 0 && rng.chance(70) ? s[rng.below(len)] : randByte(rng), cb = randByte(rng);
			s.replaceme(ca, cb);
			e = "{\"op\":\"replaceme\"," + kv("x", x) + "," + kv("a", (unsigned char)ca) + "," + kv("b", (unsigned char)cb);
		}
		else if (r < 68)
		{
			int n = randLen(rng);
			char c = randByte(rng);
			s.resize(n);
			for (int q = len; q < n; q++) s[q] = c;
			e = "{\"op\":\"resize\"," + kv("x", x) + "," + kv("n", n) + "," + kv("c", (unsigned char)c);
		}
		else if (r < 69) { s.clear(); e = "{\"op\":\"clear\"," + kv("x", x); }
		else if (r < 71)
		{
			int k = rng.range(0, len);
			s.data()[k] = 0;
			s.fix();
			e = "{\"op\":\"fixAt\"," + kv("x", x) + "," + kv("k", k);
		}
		else if (r < 74)
		{
			std::string sep = randPattern(rng, bytesOf(s));
			String S((const char*)CBuf(sep));
			s = s.split(S).join(S);
			e = "{\"op\":\"splitJoin\"," + kv("x", x) + "," + kb("a", sep);
		}
		else
		{
			// pure queries: results are logged, nothing changes
			inplace = false;
			std::string sb = bytesOf(s);
			std::string p = randPattern(rng, sb);
			CBuf pbuf(p);
			String P((const char*)pbuf);
			switch (r - 74)
			{
			case 0: case 1: case 2:
			{
				int i0 = rng.range(0, len);
				int res = rng.chance(50) ? s.indexOf(P, i0) : s.indexOf((const char*)pbuf, i0);
				e = "{\"op\":\"indexOf\"," + kv("x", x) + "," + kb("p", p) + "," + kv("i0", i0) + "," + kv("r", res);
				break;
			}
			case 3: case 4: e = "{\"op\":\"lastIndexOf\"," + kv("x", x) + "," + kb("p", p) + "," + kv("r", s.lastIndexOf((const char*)pbuf)); break;
			case 5:
			{
				int i0 = rng.range(0, len);
				e = "{\"op\":\"indexOfChar\"," + kv("x", x) + "," + kv("c", (unsigned char)p[0]) + "," + kv("i0", i0) + "," + kv("r", s.indexOf(p[0], i0)) + "," + kv("l", s.lastIndexOf(p[0]));
				break;
			}
			case 6: case 7: case 8: e = "{\"op\":\"split\"," + kv("x", x) + "," + kb("p", p) + ",\"r\":" + partsJson(s.split(P)); break;
			case 9: case 10: e = "{\"op\":\"splitWs\"," + kv("x", x) + ",\"r\":" + partsJson(s.split()); break;
			case 11: { String t = s.trimmed(); checkSane(t, "trimmed"); e = "{\"op\":\"trimmed\"," + kv("x", x) + "," + kb("r", bytesOf(t)); break; }
			case 12: case 13:
			{
				int i = rng.range(-len, len), n = rng.chance(20) ? len + 5 : rng.range(0, len);
				String t = s.substr(i, n);
				checkSane(t, "substr");
				e = "{\"op\":\"substr\"," + kv("x", x) + "," + kv("i", i) + "," + kv("n", n) + "," + kb("r", bytesOf(t));
				break;
			}
			case 14: case 15:
				e = "{\"op\":\"tests\"," + kv("x", x) + "," + kb("p", p) + "," + kv("sw", s.startsWith(P) ? 1 : 0) + "," + kv("ew", s.endsWith((const char*)pbuf) ? 1 : 0) + "," + kv("has", s.contains(P) ? 1 : 0);
				break;
			case 16: case 17: case 18:
			{
				int c = s.compare(*v[y]);
				e = "{\"op\":\"compare\"," + kv("x", x) + "," + kv("y", y) + "," + kv("r", c < 0 ? -1 : c > 0 ? 1 : 0) + "," + kv("eq", s == *v[y] ? 1 : 0) + "," + kv("lt", s < *v[y] ? 1 : 0);
				break;
			}
			case 19: case 20:
			{
				std::string pb = randBytes(rng, rng.below(4));
				if (len / (int)p.size() * (int)pb.size() + len > 3 * MAXLEN) continue;
				String B((const char*)CBuf(pb));
				String t = s.replace(P, B);
				checkSane(t, "replace");
				e = "{\"op\":\"replace\"," + kv("x", x) + "," + kb("a", p) + "," + kb("b", pb) + "," + kb("r", bytesOf(t));
				break;
			}
			default:
			{
				// formatting with this value as the %s argument (sizes around the 255/256-byte buffer of String::f and its retry)
				int n = (int)(rng.next() >> rng.range(33, 63)) * (rng.chance(50) ? 1 : -1), w = rng.chance(50) ? 0 : rng.range(1, 300);
				int shape = rng.below(4);
				std::string fs = shape == 0 ? "%s" : shape == 1 ? "[%d] %s" : shape == 2 ? "%-*s|%05d" : "%*s%%%x";
				String t;
				const char* cs = *s;
				if (shape == 0) t = rng.chance(50) ? String::f("%s", cs) : String(rng.chance(50) ? 0 : rng.range(1, 40), "%s", cs);
				else if (shape == 1) t = rng.chance(50) ? String::f("[%d] %s", n, cs) : String(rng.chance(50) ? 0 : rng.range(1, 40), "[%d] %s", n, cs);
				else if (shape == 2) t = String::f("%-*s|%05d", w, cs, n);
				else { if (n < 0) n = -(n + 1); t = String::f("%*s%%%x", w, cs, (unsigned)n); }
				checkSane(t, "format");
				e = "{\"op\":\"fmt\"," + kv("x", x) + "," + kv("shape", shape) + "," + kv("n", n) + "," + kv("w", w) + "," + kb("r", bytesOf(t));
				break;
			}
			}
		}
		for (int q = 1; q <= NV; q++) checkSane(*v[q], "after a call");
		if (inplace) e += "," + kb("v", bytesOf(s));
		log.line(e + "}");
		done++;
	}
	for (int i = 1; i <= NV; i++) delete v[i];
	return 0;
}
