--------------------------- MODULE MC_EndianSocket ---------------------------
(* Constant definitions for model checking EndianSocket (configuration files cannot spell tuples).
   A plan = transport + scalar types offered + the peer's schedule: a chunking of a prefix of Bytes12 into 1..3 chunks
   (every composition) or into single bytes (dribble), optionally followed by the peer's close.  A prefix that ends
   inside a value followed by close is the "orderly close in the middle of a value". *)
EXTENDS EndianSocket, SequencesExt

\* asymmetric bytes (every position distinguishable), a NUL (readString truncation) and bytes >= 128
Bytes12 == <<1, 130, 0, 4, 255, 6, 7, 136, 9, 10, 11, 140>>

Comps(L, maxc) == {<<L>>} \cup (IF maxc >= 2 THEN {<<a, L - a>> : a \in 1..(L - 1)} ELSE {})
                  \cup (IF maxc >= 3 THEN {<<ab[1], ab[2], L - ab[1] - ab[2]>> : ab \in {x \in (1..L) \X (1..L) : x[1] + x[2] < L}} ELSE {})
Dribble(L) == [i \in 1..L |-> 1]
RECURSIVE Offs(_, _)
Offs(c, i) == IF i = 1 THEN 0 ELSE Offs(c, i - 1) + c[i - 1]
Sends(L, c) == [i \in 1..Len(c) |-> [k |-> "send", d |-> SubSeq(Bytes12, Offs(c, i) + 1, Offs(c, i) + c[i])]]
CloseStep == [k |-> "close", d |-> <<>>]
\* schedules over a prefix of L bytes: with and without close
Scheds(L, maxc, closes) == {IF cl THEN Append(Sends(L, c), CloseStep) ELSE Sends(L, c) : c \in Comps(L, maxc) \cup {Dribble(L)}, cl \in closes}
CloseOnly == {<<CloseStep>>}

Fam1 == {"u8", "i16", "f32", "i64"}
Fam2 == {"i8", "u16", "u32", "f64"}
Fam3 == {"ch", "bool", "i32", "u64"}
Fams == <<Fam1, Fam2, Fam3>>
Raw1 == {<<"rp", 0>>, <<"rp", 3>>, <<"rp", 8>>}
Raw2 == {<<"rb", 0>>, <<"rb", 3>>, <<"rstr", 5>>, <<"skip", 8>>}
Raw3 == {<<"skip", 0>>, <<"skip", 2>>, <<"rstr", 0>>, <<"rstr", 8>>, <<"rb", 5>>}
Raws == <<Raw1, Raw2, Raw3>>
RawAll == {"rp", "rb", "rstr", "skip"} \X {0, 1, 3, 5, 8, 12}
Trs  == <<"pair", "tcp", "local">>

\* one plan per schedule; transports, type families and raw-call menus rotate so that all combinations occur;
\* every `deep`-th plan is explored to 3 events, the others to 2
Rotate(S, base, deep) ==
    LET q == SetToSeq(S) IN
    {[id |-> base + i, tr |-> Trs[(i % 3) + 1], fam |-> Fams[((i \div 3) % 3) + 1], raw |-> Raws[((i + (i \div 3)) % 3) + 1],
      depth |-> IF i % deep = 0 THEN 3 ELSE 2, steps |-> q[i]] : i \in 1..Len(q)}
\* every schedule on every transport with every scalar type
Cross(S, base, d, raw) ==
    LET q == SetToSeq(S) IN
    {[id |-> base + i, tr |-> t, fam |-> AllTypes, raw |-> raw, depth |-> d, steps |-> q[i]] : i \in 1..Len(q), t \in Transports}

Of(L, comps, closes) == {IF cl THEN Append(Sends(L, c), CloseStep) ELSE Sends(L, c) : c \in comps, cl \in closes}
\* whole stream in one chunk / byte by byte / a split inside every multi-byte value followed by close after 11 of 12 bytes
CrossScheds == Of(12, {<<12>>, Dribble(12)}, {FALSE}) \cup Of(11, {<<1, 2, 3, 5>>}, {TRUE})

QuickScheds == Scheds(8, 2, {TRUE, FALSE}) \cup Scheds(3, 2, {TRUE}) \cup Scheds(5, 2, {TRUE}) \cup CloseOnly
PlansQuick  == Rotate(QuickScheds, 0, 7) \cup Cross(CrossScheds, 1000, 1, RawAll)
ThoroughScheds == Scheds(8, 3, {TRUE}) \cup Scheds(8, 2, {FALSE}) \cup Scheds(12, 2, {FALSE}) \cup Scheds(3, 3, {TRUE})
                  \cup Scheds(5, 3, {TRUE}) \cup Scheds(7, 2, {TRUE}) \cup CloseOnly
PlansThorough == Rotate(ThoroughScheds, 0, 2) \cup Cross(CrossScheds, 1000, 2, Raw1)
===============================================================================
