SPECIFICATION Spec
CONSTANTS
 Lens = {1, 2, 3, 4, 5, 7, 8, 9, 123, 124, 125, 126, 127, 128, 129, 131, 300, 1000, 4096, 16000, 16001, 65533, 65534, 65535, 65536, 65537, 65538, 70000}
ACTION_CONSTRAINT Emit
INVARIANTS HeaderClass HeaderDecodes SmallRoundTrip PartsOK
CHECK_DEADLOCK FALSE
