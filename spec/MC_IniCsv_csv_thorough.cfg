SPECIFICATION Spec
CONSTANTS
 Part = "csv"
 IniLines <- NoLines
 MaxLines = 0
 SetNames <- NoNames
 SetValues <- Values
 MaxSets = 0
 Cells <- CellsT
 MaxCols = 3
 MaxCells = 3
ACTION_CONSTRAINT Emit
INVARIANTS CsvRoundTrip CellsOK
CHECK_DEADLOCK FALSE
