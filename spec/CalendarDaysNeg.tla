--------------------------- MODULE CalendarDaysNeg -----------------------------
(* C19 (growth) - CalendarDays over years before year 1 (astronomical numbering: year 0 = 1 BC, leap; -4, -8, .. leap,
   -100 not, -400 leap).  TLC configuration files cannot spell negative numbers, hence the definitions here.      *)
EXTENDS CalendarDays
NegLoQuick == -800
NegLoThorough == -4800
===============================================================================
