SPECIFICATION FairSpec
CONSTANTS
 Flavour = "lambda"
 MaxOps = 4
 MaxRuns = 2
 DestroyRunning = FALSE
 ReadAfterFin = FALSE
INVARIANTS RunsOnce JoinAfterBody FinishedAfterJoin FinishedMeansDone HandleConserved NoDeadAccess
PROPERTY Terminates
ACTION_CONSTRAINT Emit
CHECK_DEADLOCK FALSE
