---------------------------- MODULE Trace_Array2D -----------------------------
(* V binding for the Array2 part of C01: validates executions recorded from the real asl::Array2
   (harness/c01_sib_record.cpp) against the actions of Array2D (ArraySeq actions on the underlying sequence + the
   dimensions).  One ndjson line per public call with its arguments and, after the call, rows(), cols(), the length and
   the reference count of the underlying array; "check" events carry the complete projection of every live object. *)
EXTENDS Array2D, IOUtils

T == ndJsonDeserialize(IOEnv.TRACE)
VARIABLE l
tvars == <<vars2, l>>

TInit == Init2 /\ l = 1

Post2(e) == /\ hb'[e.h] # 0 => /\ Len(blk'[hb'[e.h]]) = e.len
                                /\ Cardinality({x \in H : hb'[x] = hb'[e.h]}) = e.rc
                                /\ dims'[e.h] = [r |-> e.pr, c |-> e.pc]
            /\ ("glen" \in DOMAIN e) => /\ Len(blk'[hb'[e.g]]) = e.glen
                                        /\ dims'[e.g] = [r |-> e.gr, c |-> e.gc]
Check2(e) == /\ {e.obs[i].h : i \in 1..Len(e.obs)} = Live
             /\ \A i \in 1..Len(e.obs) : /\ S(e.obs[i].h) = e.obs[i].s
                                         /\ dims[e.obs[i].h] = [r |-> e.obs[i].r, c |-> e.obs[i].c]
                                         /\ RC(hb[e.obs[i].h]) = e.obs[i].rc
             /\ e.live = LiveElems(hb, blk)
D(e) == [r |-> e.r, c |-> e.c]
LastRec == hist'[Len(hist')]

TStep ==
  /\ l <= Len(T)
  /\ l' = l + 1
  /\ LET e == T[l] IN
     \/ /\ e.op = "reset"
        /\ hb' = [h \in H |-> IF h = 1 THEN 1 ELSE 0]
        /\ blk' = [b \in 1..(NH+1) |-> <<>>]
        /\ hist' = <<>> /\ hz' = {}
        /\ dims' = [h \in H |-> D0] /\ dh' = <<>>
     \/ /\ e.op = "check" /\ Check2(e) /\ UNCHANGED vars2
     \/ /\ e.op = "ctorN" /\ New2N(e.g, D(e)) /\ Post2(e)
     \/ /\ e.op = "ctorFill" /\ New2Fill(e.g, D(e), e.v) /\ Post2(e)
     \/ /\ e.op = "fromList" /\ New2List(e.g, D(e), e.s, e.via) /\ Post2(e)
     \/ /\ e.op = "set" /\ Set2(e.h, e.i, e.j, e.v) /\ Post2(e)
     \/ /\ e.op = "fill" /\ Fill2(e.h, e.v) /\ Post2(e)
     \/ /\ e.op = "resize" /\ Resize2(e.h, D(e)) /\ Post2(e)
     \/ /\ e.op = "assignList" /\ AssignList2(e.h, D(e), e.s, e.nested) /\ Post2(e)
     \/ /\ e.op = "clone" /\ Clone2(e.h, e.g) /\ Post2(e)
     \/ /\ e.op = "conv" /\ With2(e.h, e.g) /\ Post2(e)
     \/ /\ e.op = "copyHandle" /\ Copy2(e.h, e.g) /\ Post2(e)
     \/ /\ e.op = "assignHandle" /\ Assign2(e.h, e.g) /\ Post2(e)
     \/ /\ e.op = "dropHandle" /\ Drop2(e.h)
     \/ /\ e.op = "slice2" /\ Slice2(e.h, e.g, e.i1, e.i2, e.j1, e.j2) /\ Post2(e)
     \/ /\ e.op = "cmp2" /\ Cmp2(e.h, e.g) /\ LastRec.eq = e.eq /\ Post2(e)
     \/ /\ e.op = "idx2" /\ Indices2(e.h) /\ LastRec.ij = e.ij /\ Post2(e)
     \/ /\ e.op = "enum" /\ Enum2(e.h) /\ LastRec.r = e.r /\ Post2(e)
     \/ /\ e.op = "get2" /\ Get2(e.h, e.i, e.j) /\ LastRec.r = e.r /\ Post2(e)

TraceSpec == TInit /\ [][TStep]_tvars
TraceAccepted == TLCGet("stats").diameter - 1 = Len(T)
===============================================================================
