SPECIFICATION Spec
CONSTANTS
 Thorough = FALSE
 Sites <- SitesQuick
 Calls <- CallsQuick
 CallOK <- Deterministic
ACTION_CONSTRAINT Emit
INVARIANTS TypeOK BoundedRequests PathInSite NoFollowOneRequest GiveUpOnlyAtLimit DeliveredIsLast StrictCodesKeepMethod
CHECK_DEADLOCK TRUE
