SPECIFICATION Spec
CONSTANTS
 PairHi = 4200
INVARIANTS TableOK PairsOK BeyondOK
ACTION_CONSTRAINT Emit
CHECK_DEADLOCK FALSE
