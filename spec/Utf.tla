--------------------------------- MODULE Utf ---------------------------------
(* C08 - UTF-8 / UTF-16 / UTF-32 as executable definitions (The Unicode Standard, chapter 3, D90-D92 and
   table 3-7 "Well-Formed UTF-8 Byte Sequences").

   Pure operators only (no variables): the encoders, the *strict* decoders, well-formedness of byte strings and of
   code-unit strings, the ASCII case maps of the C locale, and the bounds the property demands of every
   conversion on arbitrary (ill-formed, truncated, overlong) input.  The model-checked walkers live in
   MC_UtfScalars.tla (every scalar value, boundary pairs/triples) and MC_UtfBytes.tla (every byte string over the
   boundary alphabet); Trace_Utf.tla validates recorded executions of the real code against the same operators.

   Grown around it: UtfLax.tla (what the library's loops return on ANY bytes, transcribed, with termination and
   bound laws), UtfCase.tla + UtfCaseData.tla (the case tables as data under laws; toUpperCase / toLowerCase /
   equalsNocase as functions), UtfLocal.tla (fromLocal / toLocal with the C library as environment) and their
   walkers MC_UtfCase / MC_UtfWide / MC_UtfLocal.

   Bytes and code units are naturals; text is a sequence of them.  A "C string" is the part of a byte sequence
   before its first 0 (the library's API is NUL-terminated).                                                    *)
EXTENDS Naturals, Sequences

MaxScalar == 1114111                      \* 0x10FFFF
IsSurrogate(c) == c >= 55296 /\ c <= 57343
IsScalar(c) == c >= 0 /\ c <= MaxScalar /\ ~IsSurrogate(c)
NumScalars == 1112064

-------------------------------------------------------------------------------
(* UTF-8 *)
Len8(c) == IF c < 128 THEN 1 ELSE IF c < 2048 THEN 2 ELSE IF c < 65536 THEN 3 ELSE 4

Enc8(c) ==
    IF c < 128 THEN <<c>>
    ELSE IF c < 2048 THEN <<192 + (c \div 64), 128 + (c % 64)>>
    ELSE IF c < 65536 THEN <<224 + (c \div 4096), 128 + ((c \div 64) % 64), 128 + (c % 64)>>
    ELSE <<240 + (c \div 262144), 128 + ((c \div 4096) % 64), 128 + ((c \div 64) % 64), 128 + (c % 64)>>

Cont(b) == b >= 128 /\ b <= 191
NoChar == [ok |-> FALSE, c |-> 0, n |-> 0]

\* strict decoder of the sequence that starts at position p (1-based) of s: table 3-7, nothing else is accepted
Dec8At(s, p) ==
    IF p > Len(s) THEN NoChar
    ELSE LET b1 == s[p]
             Has(k) == p + k <= Len(s)
             B(k) == s[p + k]
         IN IF b1 < 128 THEN [ok |-> TRUE, c |-> b1, n |-> 1]
            ELSE IF b1 >= 194 /\ b1 <= 223
                 THEN IF Has(1) THEN (IF Cont(B(1)) THEN [ok |-> TRUE, c |-> (b1 - 192) * 64 + (B(1) - 128), n |-> 2] ELSE NoChar)
                      ELSE NoChar
            ELSE IF b1 >= 224 /\ b1 <= 239
                 THEN IF Has(2)
                      THEN LET lo == IF b1 = 224 THEN 160 ELSE 128
                               hi == IF b1 = 237 THEN 159 ELSE 191
                           IN IF B(1) >= lo /\ B(1) <= hi /\ Cont(B(2))
                              THEN [ok |-> TRUE, c |-> (b1 - 224) * 4096 + (B(1) - 128) * 64 + (B(2) - 128), n |-> 3]
                              ELSE NoChar
                      ELSE NoChar
            ELSE IF b1 >= 240 /\ b1 <= 244
                 THEN IF Has(3)
                      THEN LET lo == IF b1 = 240 THEN 144 ELSE 128
                               hi == IF b1 = 244 THEN 143 ELSE 191
                           IN IF B(1) >= lo /\ B(1) <= hi /\ Cont(B(2)) /\ Cont(B(3))
                              THEN [ok |-> TRUE, c |-> (b1 - 240) * 262144 + (B(1) - 128) * 4096 + (B(2) - 128) * 64 + (B(3) - 128), n |-> 4]
                              ELSE NoChar
                      ELSE NoChar
            ELSE NoChar

Dec8(s) == LET r == Dec8At(s, 1) IN IF r.ok /\ r.n = Len(s) THEN r.c ELSE 0 - 1

RECURSIVE Dec8From(_, _, _)
\* [ok, cs]: the scalar values of a well-formed byte string, or ok = FALSE
Dec8From(s, p, acc) ==
    IF p > Len(s) THEN [ok |-> TRUE, cs |-> acc]
    ELSE LET r == Dec8At(s, p) IN
         IF r.ok THEN Dec8From(s, p + r.n, Append(acc, r.c)) ELSE [ok |-> FALSE, cs |-> <<>>]
Dec8Seq(s) == Dec8From(s, 1, <<>>)
WellFormed8(s) == Dec8Seq(s).ok

RECURSIVE Enc8Seq(_)
Enc8Seq(cs) == IF cs = <<>> THEN <<>> ELSE Enc8(Head(cs)) \o Enc8Seq(Tail(cs))

-------------------------------------------------------------------------------
(* UTF-16 *)
Enc16(c) == IF c < 65536 THEN <<c>> ELSE <<55296 + ((c - 65536) \div 1024), 56320 + ((c - 65536) % 1024)>>
Len16(c) == IF c < 65536 THEN 1 ELSE 2

Dec16At(w, p) ==
    IF p > Len(w) THEN NoChar
    ELSE LET u == w[p] IN
         IF u < 55296 \/ (u > 57343 /\ u < 65536) THEN [ok |-> TRUE, c |-> u, n |-> 1]
         ELSE IF u >= 55296 /\ u <= 56319
              THEN IF p + 1 <= Len(w)
                   THEN (IF w[p + 1] >= 56320 /\ w[p + 1] <= 57343
                         THEN [ok |-> TRUE, c |-> 65536 + (u - 55296) * 1024 + (w[p + 1] - 56320), n |-> 2]
                         ELSE NoChar)
                   ELSE NoChar
         ELSE NoChar
Dec16(w) == LET r == Dec16At(w, 1) IN IF r.ok /\ r.n = Len(w) THEN r.c ELSE 0 - 1

RECURSIVE Dec16From(_, _, _)
Dec16From(w, p, acc) ==
    IF p > Len(w) THEN [ok |-> TRUE, cs |-> acc]
    ELSE LET r == Dec16At(w, p) IN
         IF r.ok THEN Dec16From(w, p + r.n, Append(acc, r.c)) ELSE [ok |-> FALSE, cs |-> <<>>]
Dec16Seq(w) == Dec16From(w, 1, <<>>)

RECURSIVE Enc16Seq(_)
Enc16Seq(cs) == IF cs = <<>> THEN <<>> ELSE Enc16(Head(cs)) \o Enc16Seq(Tail(cs))

-------------------------------------------------------------------------------
(* C strings, ASCII, case maps of the C locale *)
RECURSIVE FirstZero(_, _)
FirstZero(s, p) == IF p > Len(s) THEN p ELSE IF s[p] = 0 THEN p ELSE FirstZero(s, p + 1)
CStr(s) == SubSeq(s, 1, FirstZero(s, 1) - 1)

IsAscii(s) == \A i \in 1..Len(s) : s[i] < 128
UpB(b) == IF b >= 97 /\ b <= 122 THEN b - 32 ELSE b
LoB(b) == IF b >= 65 /\ b <= 90 THEN b + 32 ELSE b
AsciiUpper(s) == [i \in 1..Len(s) |-> UpB(s[i])]
AsciiLower(s) == [i \in 1..Len(s) |-> LoB(s[i])]

-------------------------------------------------------------------------------
(* What the property demands of one observation of the library on the C string s (any bytes without NUL).
   An observation o is a record with the fields the harness logs:
      n   = count()                       cs  = chars()                  it = code points seen by the iterator
      w   = utf8toUtf16 (code units)      b8  = utf16toUtf8(w)           c32 = utf8toUtf32 (= chars through the free function)
      up  = toUpperCase()  lo = toLowerCase()   (bytes)
   Valid text: everything is determined by the standard.  Any bytes: only the bounds.                          *)
ValidTextOK(s, o) ==
    LET d == Dec8Seq(s) IN
    d.ok => /\ o.cs = d.cs
            /\ o.c32 = d.cs
            /\ o.it = d.cs
            /\ o.n = Len(d.cs)
            /\ o.w = Enc16Seq(d.cs)
            /\ o.b8 = s

AnyBytesOK(s, o) ==
    /\ o.n <= Len(s)
    /\ Len(o.cs) <= Len(s)
    /\ Len(o.c32) <= Len(s)
    /\ Len(o.it) <= Len(s)
    /\ Len(o.w) <= Len(s)
    /\ Len(o.b8) <= 4 * Len(o.w)
    /\ Len(o.up) <= Len(s)
    /\ Len(o.lo) <= Len(s)

AsciiCaseOK(s, o) == IsAscii(s) => (o.up = AsciiUpper(s) /\ o.lo = AsciiLower(s))

\* case-insensitive equality of a and b (observed eq) coincides with equality of the lower-cased forms (observed)
NoCaseOK(eq, loA, loB) == eq = (loA = loB)

ObsOK(s, o) == ValidTextOK(s, o) /\ AnyBytesOK(s, o) /\ AsciiCaseOK(s, o)
===============================================================================
