----------------------------- MODULE LinAlgNewton -----------------------------
(* C20 (growth) - solveZero (include/asl/Matrix.h): the iterative root finders built on solve_
     solveZero(f, x0, SolveParams)   Newton / Gauss-Newton with a forward-difference Jacobian (vector argument)
     solveZero(f, x0, SolveParams)   secant iteration (scalar argument)
   specified on systems of polynomial equations with integer coefficients whose complete root set is rational and
   is stated here.  TLC has no reals: it does not run the iteration.  It generates the systems, *proves on each of
   them* what makes the requirement meaningful - every stated root is a root (exact integer arithmetic, denominators
   cleared), the stated set is the complete set of common zeros (as many distinct roots as the Bezout bound allows,
   resp. the roots of a complete square sub-system filtered by the remaining equations), the roots are simple (the
   Jacobian has full column rank at each of them) and at least 1 apart - and publishes, per case, the start point and
   the acceptance thresholds.  harness/c20_newton_replay.cpp builds the functor from the published monomials, runs the
   real solveZero in double and float and compares against the published root set and thresholds.

   Requirement on the returned x (for the starts generated here: anywhere for linear systems - Newton's step is exact
   on them -, within 1/32 per coordinate of a simple root otherwise - the neighbourhood of local quadratic
   convergence for these families: coefficients, roots and inverse Jacobians are bounded by small constants):
     Near      dist(x, nearest stated root) <= KX * maxerr       (the method stops when the residual *or* the step
     Residual  |f(x)|_2 <= KF * maxerr                             is below maxerr, hence the condition-number factors)
     Budget    f is evaluated at most 1 + maxiter * (n + 1) times (vector form), 1 + maxiter times (scalar form)
     Same root the root found is the one the start was placed at
   maxiter = 1 is enough for a linear system (one Newton step from any start), and a start that is already a root
   (or one difference step away from one) is returned as the root.
   Not constrained (undocumented): starts outside the neighbourhoods, singular Jacobians, non-converging inputs.  *)
EXTENDS Integers, Sequences, FiniteSets, TLC, Json

VARIABLES c, phase
vars == <<c, phase>>

-------------------------------------------------------------------------------
(* polynomials: an equation is a sequence of monomials <<coefficient, e1, e2, e3>> in the unknowns x1 x2 x3;
   rational points are <<numerator_1, ..., numerator_n, denominator>> with a positive denominator *)
RECURSIVE Pow(_, _)
Pow(b, e) == IF e = 0 THEN 1 ELSE b * Pow(b, e - 1)
RECURSIVE SumSeq(_, _)
SumSeq(s, k) == IF k > Len(s) THEN 0 ELSE s[k] + SumSeq(s, k + 1)
DegM(m) == m[2] + m[3] + m[4]
Deg(eq) == CHOOSE d \in {DegM(eq[k]) : k \in 1..Len(eq)} : \A k \in 1..Len(eq) : DegM(eq[k]) <= d
Coord(r, j) == IF j < Len(r) THEN r[j] ELSE 0          \* numerator of coordinate j (0 for unknowns the point does not have)
Den(r) == r[Len(r)]
\* value of the equation at the point, times Den^Deg
EvalEq(eq, r) ==
    LET D == Deg(eq)
        term(m) == m[1] * Pow(Coord(r, 1), m[2]) * Pow(Coord(r, 2), m[3]) * Pow(Coord(r, 3), m[4]) * Pow(Den(r), D - DegM(m))
    IN SumSeq([k \in 1..Len(eq) |-> term(eq[k])], 1)
\* partial derivative with respect to unknown j at the point, times Den^(Deg - 1)
DEq(eq, j, r) ==
    LET D == Deg(eq)
        term(m) == IF m[j + 1] = 0 THEN 0
                   ELSE LET e == [q \in 1..3 |-> IF q = j THEN m[q + 1] - 1 ELSE m[q + 1]] IN
                        m[1] * m[j + 1] * Pow(Coord(r, 1), e[1]) * Pow(Coord(r, 2), e[2]) * Pow(Coord(r, 3), e[3]) * Pow(Den(r), D - DegM(m))
    IN SumSeq([k \in 1..Len(eq) |-> term(eq[k])], 1)
Det2(M) == M[1][1] * M[2][2] - M[1][2] * M[2][1]
Det3(M) == M[1][1] * (M[2][2] * M[3][3] - M[2][3] * M[3][2]) - M[1][2] * (M[2][1] * M[3][3] - M[2][3] * M[3][1])
           + M[1][3] * (M[2][1] * M[3][2] - M[2][2] * M[3][1])
DetN(M) == IF Len(M) = 1 THEN M[1][1] ELSE IF Len(M) = 2 THEN Det2(M) ELSE Det3(M)
\* the Jacobian (scaled rows) restricted to the equations rows (a sequence of equation indices)
Jac(eqs, rows, n, r) == [a \in 1..Len(rows) |-> [j \in 1..n |-> DEq(eqs[rows[a]], j, r)]]
RowChoices(m, n) == IF n = 1 THEN {<<a>> : a \in 1..m}
                    ELSE IF n = 2 THEN {<<a, b>> : a \in 1..m, b \in 1..m} \ {<<a, a>> : a \in 1..m}
                    ELSE {<<1, 2, 3>>}
FullRank(eqs, n, r) == \E rows \in RowChoices(Len(eqs), n) : DetN(Jac(eqs, rows, n, r)) # 0
\* two rational points are at least 1 apart in some coordinate
Apart(r, s, n) == \E j \in 1..n : LET d == r[j] * Den(s) - s[j] * Den(r) IN
                                  (IF d < 0 THEN -d ELSE d) >= Den(r) * Den(s)
Norm(r) == IF Den(r) < 0 THEN [j \in 1..Len(r) |-> -r[j]] ELSE r

-------------------------------------------------------------------------------
(* the families *)
Lin(A, b) == [i \in 1..Len(A) |->
                [j \in 1..(Len(A[i]) + 1) |-> IF j <= Len(A[i]) THEN <<A[i][j], IF j = 1 THEN 1 ELSE 0, IF j = 2 THEN 1 ELSE 0, IF j = 3 THEN 1 ELSE 0>>
                                                ELSE <<-b[i], 0, 0, 0>>]]
ReplCol(A, j, b) == [i \in 1..Len(A) |-> [q \in 1..Len(A) |-> IF q = j THEN b[i] ELSE A[i][q]]]
Cramer(A, b) == Norm([j \in 1..(Len(A) + 1) |-> IF j <= Len(A) THEN DetN(ReplCol(A, j, b)) ELSE DetN(A)])

A1s == { << <<3>> >>, << <<-7>> >> }
A2s == { << <<2, 1>>, <<1, 3>> >>, << <<0, 4>>, <<-3, 1>> >>, << <<1, 2>>, <<3, 4>> >>, << <<5, -2>>, <<7, 3>> >>, << <<1, 1>>, <<1, -1>> >> }
A3s == { << <<2, 1, 0>>, <<1, 3, 1>>, <<0, 1, 4>> >>, << <<0, 2, 1>>, <<1, 0, 3>>, <<4, 1, 0>> >>, << <<1, 2, 3>>, <<2, 5, 3>>, <<1, 0, 8>> >> }
B1s == { <<5>>, <<-2>> }
B2s == { <<5, 1>>, <<0, 7>>, <<-3, -4>> }
B3s == { <<1, 2, 3>>, <<0, -5, 7>> }
\* consistent over-determined systems: the equations of a square system plus (row 1 + 2 row 2)
Over(A, b) == [A |-> Append(A, [j \in 1..Len(A) |-> A[1][j] + 2 * A[2][j]]), b |-> Append(b, b[1] + 2 * b[2])]

LinSystems ==
    {[fam |-> "lin", n |-> Len(A), eqs |-> Lin(A, b), roots |-> <<Cramer(A, b)>>, sq |-> Len(A)] :
        A \in A1s, b \in B1s}
    \cup {[fam |-> "lin", n |-> 2, eqs |-> Lin(A, b), roots |-> <<Cramer(A, b)>>, sq |-> 2] : A \in A2s, b \in B2s}
    \cup {[fam |-> "lin", n |-> 3, eqs |-> Lin(A, b), roots |-> <<Cramer(A, b)>>, sq |-> 3] : A \in A3s, b \in B3s}
    \cup {[fam |-> "linover", n |-> 2, eqs |-> Lin(Over(A, b).A, Over(A, b).b), roots |-> <<Cramer(A, b)>>, sq |-> 2] : A \in A2s, b \in B2s}

\* one unknown: products of distinct integer linear factors
Quad(r, s) == << << <<1, 2, 0, 0>>, <<-(r + s), 1, 0, 0>>, <<r * s, 0, 0, 0>> >> >>
Cubic(r, s, t) == << << <<1, 3, 0, 0>>, <<-(r + s + t), 2, 0, 0>>, <<r * s + r * t + s * t, 1, 0, 0>>, <<-(r * s * t), 0, 0, 0>> >> >>
RootRange == -3..3
Poly1Systems ==
    {[fam |-> "quad", n |-> 1, eqs |-> Quad(p[1], p[2]), roots |-> << <<p[1], 1>>, <<p[2], 1>> >>, sq |-> 1] :
        p \in {q \in RootRange \X RootRange : q[1] < q[2]}}
    \cup {[fam |-> "cubic", n |-> 1, eqs |-> Cubic(r, r + 2, t), roots |-> << <<r, 1>>, <<r + 2, 1>>, <<t, 1>> >>, sq |-> 1] :
            r \in {-3, -1}, t \in {2, 3}}

\* circle x^2 + y^2 = 25 and the line through two of its lattice points
Lattice == << <<3, 4>>, <<4, 3>>, <<-3, 4>>, <<-4, 3>>, <<3, -4>>, <<4, -3>>, <<-3, -4>>, <<-4, -3>>, <<5, 0>>, <<0, 5>>, <<-5, 0>>, <<0, -5>> >>
CircleLine(p, q) == << << <<1, 2, 0, 0>>, <<1, 0, 2, 0>>, <<-25, 0, 0, 0>> >>,
                       << <<p[2] - q[2], 1, 0, 0>>, <<q[1] - p[1], 0, 1, 0>>, <<-((p[2] - q[2]) * p[1] + (q[1] - p[1]) * p[2]), 0, 0, 0>> >> >>
\* x y = r s, x + y = r + s
SumProd(r, s) == << << <<1, 1, 1, 0>>, <<-(r * s), 0, 0, 0>> >>, << <<1, 1, 0, 0>>, <<1, 0, 1, 0>>, <<-(r + s), 0, 0, 0>> >> >>
\* x^2 = a^2, y^2 = b^2
Squares(a, b) == << << <<1, 2, 0, 0>>, <<-(a * a), 0, 0, 0>> >>, << <<1, 0, 2, 0>>, <<-(b * b), 0, 0, 0>> >> >>
\* over-determined and consistent: x^2 = a^2, y = b, x y = a b   (common zero: (a, b) only)
OverPoly(a, b) == << << <<1, 2, 0, 0>>, <<-(a * a), 0, 0, 0>> >>, << <<1, 0, 1, 0>>, <<-b, 0, 0, 0>> >>, << <<1, 1, 1, 0>>, <<-(a * b), 0, 0, 0>> >> >>
\* three unknowns: x + y + z = s, x - y = d, z^2 = 4   (roots with denominator 2)
Three(s, d) == << << <<1, 1, 0, 0>>, <<1, 0, 1, 0>>, <<1, 0, 0, 1>>, <<-s, 0, 0, 0>> >>,
                  << <<1, 1, 0, 0>>, <<-1, 0, 1, 0>>, <<-d, 0, 0, 0>> >>,
                  << <<1, 0, 0, 2>>, <<-4, 0, 0, 0>> >> >>
Poly2Systems ==
    {[fam |-> "circle", n |-> 2, eqs |-> CircleLine(Lattice[i], Lattice[j]),
      roots |-> << Lattice[i] \o <<1>>, Lattice[j] \o <<1>> >>, sq |-> 2] : <<i, j>> \in {q \in (1..Len(Lattice)) \X (1..Len(Lattice)) : q[1] < q[2]}}
    \cup {[fam |-> "sumprod", n |-> 2, eqs |-> SumProd(p[1], p[2]), roots |-> << <<p[1], p[2], 1>>, <<p[2], p[1], 1>> >>, sq |-> 2] :
            p \in {q \in (-3..3) \X (-3..4) : q[1] < q[2]}}
    \cup {[fam |-> "squares", n |-> 2, eqs |-> Squares(a, b),
           roots |-> << <<a, b, 1>>, <<-a, b, 1>>, <<a, -b, 1>>, <<-a, -b, 1>> >>, sq |-> 2] : a \in 1..3, b \in 1..3}
    \cup {[fam |-> "overpoly", n |-> 2, eqs |-> OverPoly(a, b), roots |-> << <<a, b, 1>> >>, sq |-> 2] : a \in {-3, -1, 2}, b \in {-2, 1, 3}}
    \cup {[fam |-> "three", n |-> 3, eqs |-> Three(s, d),
           roots |-> << <<s - 2 + d, s - 2 - d, 4, 2>>, <<s + 2 + d, s + 2 - d, -4, 2>> >>, sq |-> 3] : s \in {0, 3}, d \in {-1, 2}}

Systems == LinSystems \cup Poly1Systems \cup Poly2Systems
IsLinear(sys) == sys.fam \in {"lin", "linover"}

\* start points: integer points for linear systems, root + offset / 32 otherwise
Offsets(n) == IF n = 1 THEN {<<o>> : o \in {-1, 0, 1}}
              ELSE IF n = 2 THEN {<<o, q>> : o \in {-1, 0, 1}, q \in {-1, 0, 1}}
              ELSE {<<0, 0, 0>>, <<1, -1, 1>>, <<-1, 0, 1>>, <<1, 1, -1>>, <<-1, -1, -1>>}
LinStarts(n) == IF n = 1 THEN {<<0, 1>>, <<-6, 1>>} ELSE IF n = 2 THEN {<<0, 0, 1>>, <<7, -5, 1>>, <<-1, 8, 1>>}
                ELSE {<<0, 0, 0, 1>>, <<3, -4, 5, 1>>}
StartAt(r, off) == [j \in 1..Len(r) |-> IF j < Len(r) THEN 32 * r[j] + off[j] * Den(r) ELSE 32 * Den(r)]

\* parameter sets <<maxiter, -log10(maxerr), scalar type>>; "d1": maxiter = 1 (linear systems only)
Params == {<<15, 6, "d">>, <<30, 9, "d">>, <<15, 5, "f">>}
LinParams == Params \cup {<<1, 6, "d">>, <<2, 6, "d">>}        \* (double only: in float the Jacobian is too coarse for "one step")
\* float: the forward-difference Jacobian (step 1e-5) carries a relative error of a few percent in single precision, so the
\* requirement is made only where the system is well conditioned (3 x 3 linear systems: |det A| >= 10 for these entries)
FloatOK(sys) == ~(IsLinear(sys) /\ sys.n = 3 /\ Den(sys.roots[1]) < 10)
ParamsOf(sys) == {p \in (IF IsLinear(sys) THEN LinParams ELSE Params) : p[3] = "f" => FloatOK(sys)}
KX == 100
KF == 100

Init == /\ phase = "gen"
        /\ \/ \E sys \in Systems : \E ri \in 1..Len(sys.roots) : \E par \in ParamsOf(sys) :
                \E x0 \in (IF IsLinear(sys) THEN LinStarts(sys.n) ELSE {StartAt(sys.roots[ri], off) : off \in Offsets(sys.n)}) :
                  c = [k |-> "newton", sys |-> sys, ri |-> ri, x0 |-> x0, par |-> par]
           \* the scalar (secant) form on the one-unknown systems; dl = 1: the difference step is 1/1024 and the start is
           \* placed exactly one step below the root
           \/ \E sys \in {s \in Systems : s.n = 1} : \E ri \in 1..Len(sys.roots) : \E par \in {p \in Params : p[3] = "d"} :
                \E off \in {-1, 0, 1} :
                  c = [k |-> "secant", sys |-> sys, ri |-> ri, x0 |-> StartAt(sys.roots[ri], <<off>>), par |-> par, dl |-> 0]
           \/ \E sys \in {s \in Systems : s.n = 1} : \E ri \in 1..Len(sys.roots) :
                  c = [k |-> "secant", sys |-> sys, ri |-> ri, par |-> <<15, 6, "d">>, dl |-> 1,
                       x0 |-> LET r == sys.roots[ri] IN <<1024 * r[1] - Den(r), 1024 * Den(r)>>]

Case(q) ==
    LET sys == q.sys IN
    [k |-> q.k, fam |-> sys.fam, n |-> sys.n, eqs |-> sys.eqs, roots |-> sys.roots, ri |-> q.ri, x0 |-> q.x0,
     mi |-> q.par[1], me |-> q.par[2], ty |-> q.par[3], kx |-> KX, kf |-> KF,
     dl |-> IF q.k = "secant" THEN q.dl ELSE 0,
     calls |-> IF q.k = "newton" THEN 1 + q.par[1] * (sys.n + 1) ELSE 1 + q.par[1],
     sq |-> sys.sq]
Gen == phase = "gen" /\ phase' = "done" /\ c' = Case(c)
Spec == Init /\ [][Gen]_vars

-------------------------------------------------------------------------------
Pub == phase = "done"
\* every stated root is a common zero of all equations
RootsAreRoots == Pub => \A i \in 1..Len(c.roots) : \A e \in 1..Len(c.eqs) : EvalEq(c.eqs[e], c.roots[i]) = 0 /\ Den(c.roots[i]) > 0
\* the stated set is complete: the first sq equations form a square system with as many distinct roots as the Bezout
\* bound (product of the degrees) allows; the stated roots are exactly those of them that satisfy the other equations
Bezout(eqs, m) == LET RECURSIVE Pr(_)  Pr(k) == IF k > m THEN 1 ELSE Deg(eqs[k]) * Pr(k + 1) IN Pr(1)
SquareRoots(q) ==            \* the complete root set of the square sub-system (stated roots plus the ones the extra equations exclude)
    IF q.fam = "overpoly" THEN {q.roots[1], <<-q.roots[1][1], q.roots[1][2], 1>>} ELSE {q.roots[i] : i \in 1..Len(q.roots)}
Complete == Pub =>
    /\ Cardinality(SquareRoots(c)) = Bezout(c.eqs, c.sq)
    /\ \A r \in SquareRoots(c) : \A e \in 1..c.sq : EvalEq(c.eqs[e], r) = 0
    /\ {r \in SquareRoots(c) : \A e \in 1..Len(c.eqs) : EvalEq(c.eqs[e], r) = 0} = {c.roots[i] : i \in 1..Len(c.roots)}
\* simple and separated roots: the local convergence theory applies, and "the root the start was placed at" is well defined
SimpleRoots == Pub => \A i \in 1..Len(c.roots) : FullRank(c.eqs, c.n, c.roots[i])
Separated == Pub => \A i, j \in 1..Len(c.roots) : i # j => Apart(c.roots[i], c.roots[j], c.n)
\* the start is within 1/32 per coordinate of root ri (non-linear systems)
StartNear == (Pub /\ c.fam \notin {"lin", "linover"}) =>
    LET r == c.roots[c.ri] IN \A j \in 1..c.n :
        LET d == c.x0[j] * Den(r) - r[j] * Den(c.x0) IN 32 * (IF d < 0 THEN -d ELSE d) <= Den(r) * Den(c.x0)

Emit == PrintT(ToJson(c'))
===============================================================================
