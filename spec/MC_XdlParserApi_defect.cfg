SPECIFICATION ASpec
CONSTANTS
 MaxCalls = 3
 ResetClearsAll = FALSE
 QKeySlashIsComment = FALSE
INVARIANTS ApiNoUnderflow
CHECK_DEADLOCK FALSE
