---------------------------- MODULE HttpTransferCases ----------------------------
(* C10 (growth) - case generator for HttpTransfer.tla (same scheme as HttpCases.tla): walks a table of uploads, downloads,
   structured bodies, text bodies and routing calls and prints each with the view HttpTransfer prescribes.
   Thorough = TRUE adds the 128 000-byte send-block boundary and megabyte files.                                  *)
EXTENDS HttpTransfer

CONSTANT Thorough

NAME1 == <<97, 46, 116, 120, 116>>   \* a.txt
NAME2 == <<112, 104, 111, 116, 111, 32, 49, 46, 106, 112, 103>>   \* photo 1.jpg
NAME3 == <<120>>   \* x
S_API == <<97, 112, 105>>   \* api
S_CLIENTS == <<99, 108, 105, 101, 110, 116, 115>>   \* clients
S_N17 == <<49, 55>>   \* 17
S_AB == <<97, 32, 98>>   \* a b
S_C == <<99>>   \* c
S_CLIENTSX == <<99, 108, 105, 101, 110, 116, 115, 88>>   \* clientsX
S_EACC == <<195, 169>>   \* é
S_OTHER == <<111, 116, 104, 101, 114>>   \* other
S_OTHERS == <<111, 116, 104, 101, 114, 115>>   \* others
PAT1 == <<47, 97, 112, 105, 47, 99, 108, 105, 101, 110, 116, 115, 47, 42>>   \* /api/clients/*
PAT2 == <<47, 97, 112, 105, 47, 42>>   \* /api/*
PAT3 == <<47, 42>>   \* /*
PAT4 == <<42>>   \* *
PAT5 == <<47, 97, 112, 105, 47, 99, 108, 105, 101, 110, 116, 115>>   \* /api/clients
PAT6 == <<47, 97, 112, 105, 47, 99, 108, 105, 101, 110, 116, 115, 47>>   \* /api/clients/
PAT7 == <<47, 97, 112, 105, 47, 99, 108, 105, 101, 110, 116, 115, 47, 49, 55>>   \* /api/clients/17
PAT8 == <<47>>   \* /
PAT9 == <<47, 111, 116, 104, 101, 114, 42>>   \* /other*
PAT10 == <<47, 97, 112, 105, 47, 99, 108, 105, 101, 110, 116, 115, 47, 97, 32, 98, 47, 42>>   \* /api/clients/a b/*
PAT11 == <<47, 97, 112, 105, 47, 99, 108, 105, 101, 110, 116, 115, 47, 49, 55, 42>>   \* /api/clients/17*
TXT1 == <<104, 101, 108, 108, 111, 44, 32, 119, 111, 114, 108, 100>>
TXT2 == <<108, 105, 110, 101, 49, 13, 10, 108, 105, 110, 101, 50, 9, 116, 97, 98, 32, 34, 113, 34, 32, 195, 169>>
TXT3 == <<>>
K == <<107>>   V == <<118>>   XY == <<120, 32, 121>>   UUML == <<195, 188>>   AMP == <<49, 38, 50, 61, 51>>
PLUS == <<97, 43, 98>>   PCT == <<97, 37, 98>>   K1 == <<107, 49>>   K2 == <<107, 50>>   K3 == <<107, 51>>
HXTEST == <<88, 45, 84, 101, 115, 116>>   HVAL1 == <<104, 101, 108, 108, 111, 32, 119, 111, 114, 108, 100>>

Map(seq, G(_)) == [i \in 1..Len(seq) |-> G(seq[i])]
SizesQ == <<0, 1, 10, 15999, 16000, 16001, 70000, 300000>>
SizesT == SizesQ \o <<127999, 128000, 128001, 255999, 256000, 1000000, 4194304>>
Sizes == IF Thorough THEN SizesT ELSE SizesQ

BaseUp == [fsize |-> 10, fvar |-> 1, fname |-> NAME1, ctype |-> <<>>, exists |-> TRUE, hcode |-> 200]
\* (hazard tag of the finding this specification exposed in the pinned code: its boundary has 75 characters)
Up(u) == [kind |-> "upload", up |-> u, view |-> UploadView(u),
          hz |-> IF u.ctype = <<>> /\ u.exists THEN {"MultipartBoundaryTooLong"} ELSE {}]
Uploads ==
     Map(Sizes, LAMBDA n : Up([BaseUp EXCEPT !.fsize = n, !.fvar = 2]))
  \o Map(Sizes, LAMBDA n : Up([BaseUp EXCEPT !.fsize = n, !.fvar = 3, !.ctype = OCTET]))
  \o Map(<<NAME1, NAME2, NAME3>>, LAMBDA nm : Up([BaseUp EXCEPT !.fname = nm]))
  \o Map(<<200, 201, 204, 301, 404, 500>>, LAMBDA c : Up([BaseUp EXCEPT !.hcode = c]))
  \o Map(<<200, 404>>, LAMBDA c : Up([BaseUp EXCEPT !.hcode = c, !.ctype = OCTET]))
  \o <<Up([BaseUp EXCEPT !.exists = FALSE]), Up([BaseUp EXCEPT !.exists = FALSE, !.ctype = OCTET])>>

BaseDown == [kind |-> "bytes", blen |-> 5, bseed |-> 7, code |-> 200, headers |-> <<>>]
Down(d) == [kind |-> "download", down |-> d, view |-> DownloadView(d)]
Downloads ==
     Map(Sizes, LAMBDA n : Down([BaseDown EXCEPT !.blen = n, !.bseed = n + 5]))
  \o Map(<<0, 10, 16000, 70000>>, LAMBDA n : Down([BaseDown EXCEPT !.kind = "file", !.blen = n]))
  \o Map(<<200, 201, 404, 500>>, LAMBDA c : Down([BaseDown EXCEPT !.code = c]))
  \o <<Down([BaseDown EXCEPT !.headers = << <<HXTEST, HVAL1>> >>])>>

Bd(x) == [kind |-> "body", body |-> x, view |-> BodyView(x)]
Bodies ==
     Map(<<1, 2, 3, 4, 5>>, LAMBDA j : Bd([kind |-> "json", json |-> j, pairs |-> <<>>]))
  \o Map(<< << <<K, V>> >>, << <<K, XY>> >>, << <<XY, AMP>> >>, << <<K1, UUML>>, <<K2, PLUS>> >>, << <<K1, PCT>>, <<K2, <<>> >>, <<K3, XY>> >> >>,
         LAMBDA p : Bd([kind |-> "form", json |-> 0, pairs |-> p]))

Tx(dir, t) == [kind |-> "text", dir |-> dir, text |-> t, view |-> t]
Texts == <<Tx("req", TXT1), Tx("req", TXT2), Tx("resp", TXT1), Tx("resp", TXT2), Tx("resp", TXT3)>>

Pats == <<PAT1, PAT2, PAT3, PAT4, PAT5, PAT6, PAT7, PAT8, PAT9, PAT10, PAT11>>
RPaths == << <<S_API, S_CLIENTS, S_N17>>, <<S_API, S_CLIENTS, S_AB, S_C>>, <<S_API, S_CLIENTS>>, <<S_API, S_CLIENTS, <<>> >>,
             <<S_API, S_CLIENTSX>>, <<S_API>>, <<>>, <<S_API, S_CLIENTS, S_EACC>>, <<S_OTHER>>, <<S_OTHERS, S_N17>> >>
CallsFwd == [i \in 1..(3 * Len(Pats)) |-> [meth |-> <<"", "GET", "POST">>[((i - 1) % 3) + 1], pat |-> Pats[((i - 1) \div 3) + 1]]]
CallsRev == [i \in 1..Len(CallsFwd) |-> CallsFwd[Len(CallsFwd) + 1 - i]]
Rt(m, p, calls) == LET r == [method |-> m, segs |-> p, query |-> <<>>, calls |-> calls] IN
                   [kind |-> "route", route |-> r, target |-> Target(r), view |-> RouteView(r)]
Routes == Map(RPaths, LAMBDA p : Rt("GET", p, CallsFwd)) \o Map(RPaths, LAMBDA p : Rt("POST", p, CallsRev))

Cases == Uploads \o Downloads \o Bodies \o Texts \o Routes

\* sanity of the operators themselves, checked while walking
B0 == <<45, 45, 98, 48>>      \* a sample boundary "--b0"
OpsOK ==
    /\ \A c \in {Cases[k] : k \in 1..Len(Cases)} :
           c.kind = "route" => \A k \in 1..Len(c.view) : Defined(c.route.calls[k].pat) /\ (c.view[k].sdef => c.view[k].ok)
    /\ Envelope(B0, NAME1, <<1, 2, 3>>) = EnvelopeHead(B0, NAME1) \o <<1, 2, 3>> \o EnvelopeTail(B0)
    /\ Len(Envelope(B0, NAME1, <<1, 2, 3>>)) = Len(EnvelopeHead(B0, NAME1)) + 3 + Len(B0) + 8
    /\ BoundaryOK(B0) /\ ~BoundaryOK(<<>>) /\ ~BoundaryOK(<<98, 32>>) /\ ~BoundaryOK([k \in 1..71 |-> 48]) /\ BoundaryOK([k \in 1..70 |-> 48])
    /\ Occurs(<<2, 3>>, <<1, 2, 3>>) /\ ~Occurs(<<3, 2>>, <<1, 2, 3>>)
    /\ Cardinality(FormBodies(<< <<K1, V>>, <<K2, V>>, <<K3, V>> >>)) = 6
ASSUME OpsOK

VARIABLE i
Init == i = 1
Next == i <= Len(Cases) /\ i' = i + 1
Spec == Init /\ [][Next]_i
Emit == IF i <= Len(Cases) THEN PrintT(ToJson([id |-> i] @@ Cases[i])) ELSE TRUE
=============================================================================
