SPECIFICATION FairSpec
CONSTANTS
 NC = 2
 Sequential = FALSE
 SelfDeleteFirst = FALSE
 JoinInDtor = FALSE
INVARIANTS ServedAtMostOnce ValidWhileServing ClosedOnlyAfterServe StopIsClean NoTouchAfterFree
PROPERTIES NoServeAfterStop EveryAcceptedServed StopReturns
CHECK_DEADLOCK FALSE
