SPECIFICATION FairSpec
CONSTANTS
 Flavour = "subclass"
 MaxOps = 4
 MaxRuns = 2
 DestroyRunning = FALSE
 ReadAfterFin = TRUE
INVARIANTS RunsOnce JoinAfterBody FinishedAfterJoin FinishedMeansDone HandleConserved NoDeadAccess
PROPERTY Terminates
CHECK_DEADLOCK FALSE
