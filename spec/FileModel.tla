------------------------------- MODULE FileModel -------------------------------
(* C17 - asl::File / asl::TextFile / Directory::copy,move: "what is written is what is read".

   State: a file system of three paths (p, q and r = the place where p lands when it is copied/moved INTO the
   directory d), each absent or a byte sequence, and one long-lived File/TextFile object h bound to p (closed, or
   open for reading / writing / appending, with a read position).  All other calls go through temporary objects
   (TextFile(x).put(s), File(x).content(), ...), which open and close the file within the call.

   The library writes through stdio: what a still-open object has written need not be on disk yet.  The ghost
   `dirty` records that; the usage discipline of the documented API (read back through a fresh object or after
   close()/flush()) is expressed by guards: observations of p are only made when ~dirty, and other objects only
   write p while h is closed.

   The object h also remembers what it was told about its file: size(), isFile(), content() and text() look the file
   information up once and keep it until close() (exists() looks it up afresh).  The ghost `hknown` is the size h
   remembers (-1: nothing).  A query through h that relies on the remembered information is within the discipline
   only while that information still describes the file (InfoOK): after close() - of an open or of a closed
   object - h knows nothing and every query through it must again reflect the bytes of the path.  `hlast` is the
   size h learned last, ever (a history variable: it keeps behaviours apart that differ in what an object that
   never forgets would still hold, so that every query - mutate - close - query order is generated and replayed).

   The property:  after any history of put / write / append / stream calls the content of the path is the bytes
   the model holds; content(), firstBytes(), read(), size() return them; lines()/readLine() return
   Lines(content) = split at LF with one CR removed before each LF; text() returns TextOf(content) (BOM sniffing:
   UTF-8 / UTF-16LE / UTF-16BE files come back as UTF-8); copy and move preserve the bytes.

   R: MC_FileModel_*.cfg emit one case per transition (history, results of the calls, expected observation of all
      paths, and whether h itself may be asked in the state reached)  -> harness/c17_replay;
      MC_FileModel_handle_*.cfg: histories on p alone with every kind of query through h between its own writes,
      closes, reopens and the writes of temporaries
   V: Trace_FileModel validates recorded executions of the real classes (large sizes, long lines, BOM texts)
      -> harness/c17_record.
   The implementation-shaped line reader (255-byte fgets chunks) is FileModelLineReader.tla, checked against Lines. *)
EXTENDS Integers, Sequences, FiniteSets, TLC, Json, SequencesExt

CONSTANTS BinChunks,     \* byte sequences written with the binary calls (token sequences, see Expand)
          TextChunks,    \* NUL-free byte sequences written with the text calls (token sequences)
          ReadSizes,     \* arguments of read(n) through the open handle
          ShapeRuns,     \* run lengths of the generated line shapes (empty: no shapes)
          ShapeSegs,     \* maximal number of segments of a line shape
          EncScalars,    \* Unicode scalar values of the generated BOM texts (empty: none)
          EncMaxLen,     \* maximal number of scalars of a generated BOM text
          MaxLen,        \* appends are generated only up to this file length
          MaxOps,        \* bound on the history length
          TmpPaths,      \* paths the generated calls through temporary objects work on ({"p", "q"}; {"p"}: handle histories)
          QueryKinds,    \* kinds of queries through the long-lived object that are generated (empty: none)
          KeepHist       \* TRUE: whole history (model checking / replay); FALSE: last call only (trace validation)

VARIABLES fs,       \* path -> NoFile or the bytes
          hmode,    \* "closed", "r", "w", "a"
          hpos,     \* read position of h (bytes consumed), meaningful in mode "r"
          heof,     \* the stream of h has hit the end (a read asked for more than there was)
          dirty,    \* h has written data that was neither flushed nor closed
          hknown,   \* the file size h remembers from an earlier query (-1: nothing remembered)
          hlast,    \* the file size h learned last, ever (-1: never; history variable, see above)
          hist, hz
vars == <<fs, hmode, hpos, heof, dirty, hknown, hlast, hist, hz>>

Paths   == {"p", "q", "r"}
NoFile  == <<-1>>
Exists(x) == fs[x] # NoFile
Byte    == 0..255
LF == 10
CR == 13

-------------------------------------------------------------------------------
(* byte sequences are written in the configurations as token sequences: 0..255 a literal byte,
   1000+n a run of n bytes 'a' (97), 2000+n a run of n bytes 'b' (98) *)
\* concatenation of a sequence of sequences (balanced recursion: depth log n, so long run lists do not exhaust the stack)
RECURSIVE FlatR(_, _, _)
FlatR(ss, lo, hi) == IF lo > hi THEN <<>> ELSE IF lo = hi THEN ss[lo]
                     ELSE LET mid == (lo + hi) \div 2 IN FlatR(ss, lo, mid) \o FlatR(ss, mid + 1, hi)
Flat(ss) == FlatR(ss, 1, Len(ss))
Run(b, n) == [i \in 1..n |-> b]
Expand(toks) == Flat([i \in 1..Len(toks) |-> IF toks[i] < 256 THEN <<toks[i]>>
                                              ELSE IF toks[i] < 2000 THEN Run(97, toks[i] - 1000) ELSE Run(98, toks[i] - 2000)])
\* run-length coding used by the recorded traces for long contents: <<b1, n1, b2, n2, ...>>
Unrle(z) == Flat([i \in 1..(Len(z) \div 2) |-> Run(z[2 * i - 1], z[2 * i])])

-------------------------------------------------------------------------------
(* the reference semantics of the text calls *)
\* positions of byte b in t, ascending
Positions(t, b) == SetToSortSeq({i \in 1..Len(t) : t[i] = b}, <)
\* split at LF; one CR directly before an LF is dropped; the piece after the last LF (possibly empty) is the last line
Lines(t) == LET ps == Positions(t, LF)
                n == Len(ps)
                From(k) == IF k = 1 THEN 1 ELSE ps[k - 1] + 1
                To(k) == IF k = n + 1 THEN Len(t)
                         ELSE IF ps[k] > From(k) /\ t[ps[k] - 1] = CR THEN ps[k] - 2 ELSE ps[k] - 1
            IN [k \in 1..(n + 1) |-> SubSeq(t, From(k), To(k))]

(* UTF-8 / UTF-16 (Unicode chapter 3, D91/D92); scalars are naturals *)
Enc8(c) == IF c < 128 THEN <<c>>
           ELSE IF c < 2048 THEN <<192 + (c \div 64), 128 + (c % 64)>>
           ELSE IF c < 65536 THEN <<224 + (c \div 4096), 128 + ((c \div 64) % 64), 128 + (c % 64)>>
           ELSE <<240 + (c \div 262144), 128 + ((c \div 4096) % 64), 128 + ((c \div 64) % 64), 128 + (c % 64)>>
Enc16(c) == IF c < 65536 THEN <<c>> ELSE <<55296 + ((c - 65536) \div 1024), 56320 + ((c - 65536) % 1024)>>
Utf8Of(scalars)  == Flat([i \in 1..Len(scalars) |-> Enc8(scalars[i])])
Utf16Of(scalars) == Flat([i \in 1..Len(scalars) |-> Enc16(scalars[i])])
UnitsLE(us) == Flat([i \in 1..Len(us) |-> <<us[i] % 256, us[i] \div 256>>])
UnitsBE(us) == Flat([i \in 1..Len(us) |-> <<us[i] \div 256, us[i] % 256>>])
\* the bytes of a text file holding the scalars in encoding enc, with its byte-order mark
EncodeFile(enc, scalars) == IF enc = "utf8" THEN <<239, 187, 191>> \o Utf8Of(scalars)
                            ELSE IF enc = "utf16le" THEN <<255, 254>> \o UnitsLE(Utf16Of(scalars))
                            ELSE <<254, 255>> \o UnitsBE(Utf16Of(scalars))

\* decoding side, written independently of the encoders: every code unit that is not the trail half of a pair
\* starts a scalar (well-formed input is all the property speaks about)
IsLead(u)  == u >= 55296 /\ u <= 56319
IsTrail(u) == u >= 56320 /\ u <= 57343
Dec16(us) == LET starts == SetToSortSeq({i \in 1..Len(us) : ~(IsTrail(us[i]) /\ i > 1 /\ IsLead(us[i - 1]))}, <)
             IN [k \in 1..Len(starts) |->
                    LET i == starts[k] IN
                    IF IsLead(us[i]) /\ i < Len(us) /\ IsTrail(us[i + 1])
                    THEN 65536 + (us[i] - 55296) * 1024 + (us[i + 1] - 56320)
                    ELSE us[i]]
\* text() folds CR LF to LF in UTF-16 files only
FoldCRLF(us) == LET keep == SetToSortSeq({i \in 1..Len(us) : ~(us[i] = CR /\ i < Len(us) /\ us[i + 1] = LF)}, <)
                IN [k \in 1..Len(keep) |-> us[keep[k]]]
Units16(b, le) == [i \in 1..((Len(b) - 2) \div 2) |-> IF le THEN b[2 * i + 1] + 256 * b[2 * i + 2] ELSE 256 * b[2 * i + 1] + b[2 * i + 2]]
TextOf(b) == IF Len(b) >= 2 /\ b[1] = 255 /\ b[2] = 254 THEN Utf8Of(Dec16(FoldCRLF(Units16(b, TRUE))))
             ELSE IF Len(b) >= 2 /\ b[1] = 254 /\ b[2] = 255 THEN Utf8Of(Dec16(FoldCRLF(Units16(b, FALSE))))
             ELSE IF Len(b) >= 3 /\ b[1] = 239 /\ b[2] = 187 /\ b[3] = 191 THEN SubSeq(b, 4, Len(b))
             ELSE b
\* (written as a set equation, not as \A: TLC unfolds a bounded \A that stands as a conjunct of an action into one nested
\*  evaluation per element, which exhausts the Java stack for contents of a few thousand bytes)
NulFree(b) == {i \in 1..Len(b) : b[i] = 0} = {}
IsUtf16(b) == Len(b) >= 2 /\ ((b[1] = 255 /\ b[2] = 254) \/ (b[1] = 254 /\ b[2] = 255))
\* text() is specified for NUL-free texts: no zero byte, or no zero code unit in a UTF-16 file
\* and, in a UTF-16 file, well-formed: every lead surrogate is followed by a trail surrogate and vice versa
\* (the property speaks of encodings of scalar-value sequences)
WellFormed16(us) == {i \in 1..Len(us) : \/ (IsLead(us[i]) /\ ~(i < Len(us) /\ IsTrail(us[i + 1])))
                                         \/ (IsTrail(us[i]) /\ ~(i > 1 /\ IsLead(us[i - 1])))} = {}
TextDefined(b) == IF IsUtf16(b) THEN LET us == Units16(b, b[1] = 255) IN {i \in 1..Len(us) : us[i] = 0} = {} /\ WellFormed16(us)
                  ELSE NulFree(b)

\* "text files carrying a UTF-8, UTF-16LE or UTF-16BE byte-order mark are returned as the same text in UTF-8":
\* the decoder applied to the encoder's output is the UTF-8 form, for every generated text (no CR LF pair, the
\* library folds those in UTF-16 files deliberately)
Encodings == {"utf8", "utf16le", "utf16be"}
RECURSIVE SeqsUpTo(_, _)
SeqsUpTo(S, n) == IF n = 0 THEN {<<>>} ELSE LET R == SeqsUpTo(S, n - 1) IN R \cup {Append(s, x) : s \in {y \in R : Len(y) = n - 1}, x \in S}
NoCRLF(s) == \A i \in 1..(Len(s) - 1) : ~(s[i] = CR /\ s[i + 1] = LF)
EncTexts == {s \in SeqsUpTo(EncScalars, EncMaxLen) : NoCRLF(s)}
ASSUME \A enc \in Encodings : \A s \in EncTexts : TextOf(EncodeFile(enc, s)) = Utf8Of(s)

-------------------------------------------------------------------------------
Init == /\ fs = [x \in Paths |-> NoFile]
        /\ hmode = "closed" /\ hpos = 0 /\ heof = FALSE /\ dirty = FALSE
        /\ hknown = -1 /\ hlast = -1
        /\ hist = <<>> /\ hz = {}

Log(rec) == /\ hist' = IF KeepHist THEN Append(hist, rec) ELSE <<rec>>
            /\ hz' = hz
KeepInfo == UNCHANGED <<hknown, hlast>>
HSame == UNCHANGED <<hmode, hpos, heof, dirty, hknown, hlast>>
\* h looks the file information up (n = the size found, -1: no such file) / h forgets it
Learn(n) == hknown' = n /\ hlast' = (IF n # -1 THEN n ELSE hlast)
Forget == hknown' = -1 /\ UNCHANGED hlast
\* another object may write path x (h is bound to p)
Free(x) == IF x = "p" THEN hmode = "closed" ELSE TRUE
\* the bytes of x are all on disk
Settled(x) == IF x = "p" THEN ~dirty ELSE TRUE
Cur(x) == IF Exists(x) THEN fs[x] ELSE <<>>

(* calls through temporary objects *)
\* File(x).put(data)  /  TextFile(x).put(s), write(s), printf("%s", s), << s : create or replace
Put(x, data, api) == /\ Free(x)
                     /\ fs' = [fs EXCEPT ![x] = data] /\ HSame
                     /\ Log([op |-> "put", x |-> x, d |-> data, api |-> api])
\* TextFile(x).append(s): create or extend
AppendTo(x, data) == /\ Free(x)
                     /\ fs' = [fs EXCEPT ![x] = Cur(x) \o data] /\ HSame
                     /\ Log([op |-> "append", x |-> x, d |-> data])
\* TextFile(x) << a << b  (one temporary: opened for writing by the first operator, the second continues)
StreamTo(x, a, b) == /\ Free(x)
                     /\ fs' = [fs EXCEPT ![x] = a \o b] /\ HSame
                     /\ Log([op |-> "stream", x |-> x, d |-> a, d2 |-> b])
RemoveFile(x) == /\ Free(x) /\ Exists(x)
             /\ fs' = [fs EXCEPT ![x] = NoFile] /\ HSame
             /\ Log([op |-> "remove", x |-> x])
\* Directory::copy(x, y) / File(x).copy(y); y = "d" names the directory: the file lands at r with the name of the source
Land(x, y) == IF y = "d" THEN "r" ELSE y
Copy(x, y) == /\ x \in {"p", "q"} /\ y \in {"p", "q", "d"} /\ x # y /\ (y = "d" => x = "p")
              /\ Exists(x) /\ Settled(x) /\ Free(Land(x, y))
              /\ fs' = [fs EXCEPT ![Land(x, y)] = fs[x]] /\ HSame
              /\ Log([op |-> "copy", x |-> x, y |-> y, r |-> TRUE])
Move(x, y) == /\ x \in {"p", "q"} /\ y \in {"p", "q", "d"} /\ x # y /\ (y = "d" => x = "p")
              /\ Exists(x) /\ Free(x) /\ Free(Land(x, y))
              /\ fs' = [fs EXCEPT ![Land(x, y)] = fs[x], ![x] = NoFile] /\ HSame
              /\ Log([op |-> "move", x |-> x, y |-> y, r |-> TRUE])

(* the long-lived object h on path p *)
HOpen(m) == /\ hmode = "closed" /\ m \in {"r", "w", "a"}
            /\ IF m = "r" /\ ~Exists("p")
               THEN /\ UNCHANGED <<fs, hmode, hpos, heof, dirty>>
                    /\ Log([op |-> "open", m |-> m, r |-> FALSE])
               ELSE /\ fs' = [fs EXCEPT !["p"] = IF m = "w" THEN <<>> ELSE Cur("p")]
                    /\ hmode' = m /\ hpos' = 0 /\ heof' = FALSE /\ dirty' = FALSE
                    /\ Log([op |-> "open", m |-> m, r |-> TRUE])
            /\ KeepInfo
\* h.write(ptr, n) / h << ByteArray / TextFile: h << s, h.printf: at the end of the file (no seeking is modelled)
HWrite(data, api) == /\ hmode \in {"w", "a"}
                     /\ fs' = [fs EXCEPT !["p"] = fs["p"] \o data]
                     /\ dirty' = TRUE /\ UNCHANGED <<hmode, hpos, heof>> /\ KeepInfo
                     /\ Log([op |-> "hwrite", d |-> data, api |-> api])
\* h.put(data) / h.write(s) on a closed object opens it for writing and leaves it open; h.append(s) opens for appending
HPutClosed(data, api) == /\ hmode = "closed" /\ api \in {"put", "write", "append"}
                         /\ fs' = [fs EXCEPT !["p"] = IF api = "append" THEN Cur("p") \o data ELSE data]
                         /\ hmode' = (IF api = "append" THEN "a" ELSE "w") /\ hpos' = 0 /\ heof' = FALSE /\ dirty' = TRUE
                         /\ KeepInfo
                         /\ Log([op |-> "hput", d |-> data, api |-> api])
HFlush == /\ hmode \in {"w", "a"}
          /\ dirty' = FALSE /\ UNCHANGED <<fs, hmode, hpos, heof>> /\ KeepInfo
          /\ Log([op |-> "flush"])
\* h.close(): whatever h was doing is over, its data is on disk, and it forgets what it knew about the file
HClose == /\ hmode # "closed"
          /\ hmode' = "closed" /\ dirty' = FALSE /\ hpos' = 0 /\ heof' = FALSE /\ UNCHANGED fs
          /\ Forget
          /\ Log([op |-> "close"])
\* h.close() on an object that is not open: nothing happens to the file; h forgets what it knew about it
HCloseClosed == /\ hmode = "closed"
                /\ UNCHANGED <<fs, hmode, hpos, heof, dirty>>
                /\ Forget
                /\ Log([op |-> "close"])
\* h.read(buf, n): the next n bytes, fewer at the end of the file
HRead(n) == /\ hmode = "r"
            /\ LET rest == Len(fs["p"]) - hpos
                   k == IF n <= rest THEN n ELSE rest
               IN /\ hpos' = hpos + k
                  /\ heof' = (heof \/ n > rest)
                  /\ Log([op |-> "hread", n |-> n, r |-> SubSeq(fs["p"], hpos + 1, hpos + k)])
            /\ UNCHANGED <<fs, hmode, dirty>> /\ KeepInfo
\* while(!h.end()) lines << h.readLine();   /  h.lines()   - the rest of the file as lines
HReadLines(api) == /\ hmode = "r" /\ ~heof /\ NulFree(fs["p"])
                   /\ hpos' = Len(fs["p"]) /\ heof' = TRUE
                   /\ Log([op |-> "hlines", api |-> api, r |-> Lines(SubSeq(fs["p"], hpos + 1, Len(fs["p"])))])
                   /\ UNCHANGED <<fs, hmode, dirty>> /\ KeepInfo

(* observations through fresh objects (trace validation; in model-checking mode they are part of Obs) *)
Content(x)       == IF Exists(x) THEN fs[x] ELSE <<>>
FirstBytes(x, n) == SubSeq(Content(x), 1, IF n <= Len(Content(x)) THEN n ELSE Len(Content(x)))
SizeOf(x)        == IF Exists(x) THEN Len(fs[x]) ELSE -1
Observe(x, what, n) == /\ Settled(x) /\ UNCHANGED <<fs, hmode, hpos, heof, dirty, hknown, hlast>>
                       /\ (IF what = "text" THEN TextDefined(Content(x)) ELSE IF what \in {"lines", "readlines"} THEN NulFree(Content(x)) ELSE TRUE)
                       /\ Log([op |-> what, x |-> x, n |-> n,
                               r |-> IF what = "content" THEN Content(x)
                                     ELSE IF what = "first" THEN FirstBytes(x, n)
                                     ELSE IF what = "size" THEN <<SizeOf(x)>>
                                     ELSE IF what = "text" THEN TextOf(Content(x))
                                     ELSE Lines(Content(x))])       \* "lines" / "readlines"

(* queries through the long-lived object h itself.  size(), isFile(), content() and text() rely on the file information
   h remembers (looked up when h knows nothing); exists() always looks it up afresh.  content(), firstBytes(), text(),
   lines() and the readLine loop on a closed object open it for reading and leave it open (at the position where the
   call stopped reading; text() of a file with a byte-order mark reads until the stream reports its end).  On a missing
   file they return nothing and h stays closed.  Whatever the history of h - earlier queries, writes through h, close
   and reopen - the result is what the path holds now. *)
SizeIn(fsx, x) == IF fsx[x] = NoFile THEN -1 ELSE Len(fsx[x])
InfoOKOf(k, fsx) == k = -1 \/ k = SizeIn(fsx, "p")
InfoOK == InfoOKOf(hknown, fs)
AtStart == hmode = "closed" \/ (hmode = "r" /\ hpos = 0 /\ ~heof)
HasBom(b) == IsUtf16(b) \/ (Len(b) >= 3 /\ b[1] = 239 /\ b[2] = 187 /\ b[3] = 191)
AllQueryKinds == {"size", "exists", "isfile", "content", "first", "text", "lines", "loop"}
QueryResult(what, n) == IF what = "size" THEN <<SizeOf("p")>>
                        ELSE IF what \in {"exists", "isfile"} THEN <<IF Exists("p") THEN 1 ELSE 0>>
                        ELSE IF what = "content" THEN Content("p")
                        ELSE IF what = "first" THEN FirstBytes("p", n)
                        ELSE IF what = "text" THEN TextOf(Content("p"))
                        ELSE IF Exists("p") THEN Lines(Content("p")) ELSE <<>>       \* "lines" / "loop"
HQuery(what, n) ==
    /\ what \in AllQueryKinds /\ Settled("p")
    /\ (what \in {"size", "isfile", "content", "text"} => InfoOK)
    /\ (what \in {"content", "first", "text"} => AtStart)
    /\ (what \in {"lines", "loop"} => hmode = "closed" /\ NulFree(Content("p")))
    /\ (what = "text" => TextDefined(Content("p")))
    /\ UNCHANGED <<fs, dirty>>
    /\ LET b == Content("p")
           opens == what \in {"content", "first", "text", "lines", "loop"} /\ Exists("p")
       IN /\ hmode' = (IF opens THEN "r" ELSE hmode)
          /\ hpos' = (IF ~opens THEN hpos ELSE IF what = "first" THEN (IF n <= Len(b) THEN n ELSE Len(b)) ELSE Len(b))
          /\ heof' = (IF ~opens THEN heof ELSE IF what = "first" THEN n > Len(b)
                      ELSE IF what = "text" THEN HasBom(b) ELSE what \in {"lines", "loop"})
    /\ IF what \in {"size", "exists", "isfile", "content", "text"} THEN Learn(SizeOf("p")) ELSE KeepInfo
    \* (the lines come under a field name of their own: TLC compares two records with the same fields field by field and
    \*  cannot compare a sequence of lines with a sequence of bytes)
    /\ Log(IF what \in {"lines", "loop"} THEN [op |-> "hq", k |-> what, n |-> n, ls |-> QueryResult(what, n)]
           ELSE [op |-> "hq", k |-> what, n |-> n, r |-> QueryResult(what, n)])

-------------------------------------------------------------------------------
(* model-checking mode: named actions (coverage is reported per action) *)
CanStep == Len(hist) < MaxOps
Bin  == {Expand(t) : t \in BinChunks}
Txt  == {Expand(t) : t \in TextChunks}
Fits(x, d) == Len(Cur(x)) + Len(d) <= MaxLen
\* which of the equivalent API spellings the replayer uses is part of the call record
MCPutBin    == CanStep /\ \E x \in TmpPaths, d \in Bin : Put(x, d, "bin")
\* (text calls have several equivalent spellings; which one is used rotates with the history length and the data)
TextApi(d) == <<"put", "write", "printf", "shl">>[((Len(hist) + Len(d)) % 4) + 1]
MCPutText   == CanStep /\ \E x \in TmpPaths, d \in Txt : Put(x, d, TextApi(d))
MCAppend    == CanStep /\ \E x \in TmpPaths, d \in Txt : Fits(x, d) /\ AppendTo(x, d)
MCStream    == CanStep /\ "q" \in TmpPaths /\ \E d \in Txt, d2 \in Txt : Len(d) + Len(d2) <= MaxLen /\ Len(d) = (Len(hist) % 3) /\ StreamTo("q", d, d2)
MCRemove    == CanStep /\ \E x \in TmpPaths : RemoveFile(x)
MCCopy      == CanStep /\ \E x \in TmpPaths, y \in TmpPaths \cup {"d"} : Copy(x, y)
MCMove      == CanStep /\ \E x \in TmpPaths, y \in TmpPaths \cup {"d"} : Move(x, y)
MCOpen      == CanStep /\ \E m \in {"r", "w", "a"} : HOpen(m)
HApi(d) == <<"write", "shl", "append">>[((Len(hist) + Len(d)) % 3) + 1]
MCHWrite    == CanStep /\ \/ \E d \in Bin : Fits("p", d) /\ HWrite(d, "bin")
                          \/ \E d \in Txt : Fits("p", d) /\ HWrite(d, HApi(d))
MCHPut      == CanStep /\ \/ \E d \in Bin : HPutClosed(d, "put")
                          \/ \E d \in Txt : HPutClosed(d, "write")
                          \/ \E d \in Txt : Fits("p", d) /\ HPutClosed(d, "append")
MCHFlush    == CanStep /\ HFlush
MCHClose    == CanStep /\ HClose
MCHRead     == CanStep /\ \E n \in ReadSizes : HRead(n)
MCHLines    == CanStep /\ \E api \in {"loop", "lines"} : HReadLines(api)
\* queries through h in every state the discipline allows; close() of the closed object only where it has something to forget
MCHQuery    == CanStep /\ \E what \in QueryKinds : \E n \in (IF what = "first" THEN ReadSizes ELSE {0}) : HQuery(what, n)
MCHCloseClosed == CanStep /\ QueryKinds # {} /\ hknown # -1 /\ HCloseClosed

\* line shapes at the real chunk size: segments "run of n bytes, then LF / CR LF / CR / nothing"
Terminators == {<<LF>>, <<CR, LF>>, <<CR>>, <<>>}
ShapeSeg == {Run(97, n) \o t : n \in ShapeRuns, t \in Terminators}
ShapeTexts == {Flat(s) : s \in SeqsUpTo(ShapeSeg, ShapeSegs)}
MCPutShape  == CanStep /\ ShapeRuns # {} /\ \E d \in ShapeTexts : Put("q", d, "put")
MCPutEnc    == CanStep /\ EncScalars # {} /\ \E enc \in Encodings, s \in EncTexts :
                   /\ Put("q", EncodeFile(enc, s), "bin")

Next == \/ MCPutBin \/ MCPutText \/ MCAppend \/ MCStream \/ MCRemove \/ MCCopy \/ MCMove
        \/ MCOpen \/ MCHWrite \/ MCHPut \/ MCHFlush \/ MCHClose \/ MCHRead \/ MCHLines
        \/ MCHQuery \/ MCHCloseClosed
        \/ MCPutShape \/ MCPutEnc
Spec == Init /\ [][Next]_vars

-------------------------------------------------------------------------------
(* properties of the specification itself *)
TypeOK == /\ \A x \in Paths : fs[x] = NoFile \/ \A i \in 1..Len(fs[x]) : fs[x][i] \in Byte
          /\ hmode \in {"closed", "r", "w", "a"} /\ hpos \in Nat /\ heof \in BOOLEAN /\ dirty \in BOOLEAN
          /\ hknown \in Nat \cup {-1} /\ hlast \in Nat \cup {-1}
HandleOK == /\ (hmode # "closed") => Exists("p")
            /\ dirty => hmode \in {"w", "a"}
            /\ hmode = "r" => hpos <= Len(fs["p"])
            /\ hknown # -1 => hlast = hknown
\* lines: joining the lines with LF gives the text back up to the removed CRs; their number is the number of LFs + 1
LinesOK == \A x \in Paths : (Exists(x) /\ NulFree(fs[x])) =>
              LET ls == Lines(fs[x]) IN
              /\ Len(ls) = Cardinality({i \in 1..Len(fs[x]) : fs[x][i] = LF}) + 1
              /\ \A k \in 1..Len(ls) : LET ln == ls[k] IN \A i \in 1..Len(ln) : ln[i] # LF
\* a call through one path never changes another path, except copy/move which change exactly their target
Independence ==
    [][(hist' # hist /\ hist' # <<>>) =>
        LET rec == hist'[Len(hist')]
            touched == IF rec.op \in {"copy", "move"} THEN {rec.x, Land(rec.x, rec.y)}
                       ELSE IF "x" \in DOMAIN rec THEN {rec.x} ELSE {"p"}
        IN \A x \in Paths \ touched : fs'[x] = fs[x]]_vars
\* copy and move preserve content byte for byte
CopyExact == [][(hist' # hist /\ hist' # <<>> /\ hist'[Len(hist')].op \in {"copy", "move"}) =>
                  LET rec == hist'[Len(hist')] IN fs'[Land(rec.x, rec.y)] = fs[rec.x]]_vars

\* a query through h changes no file, answers with what the path holds, is asked within the discipline, and what h
\* remembers afterwards is true
QueryFresh == [][(hist' # hist /\ hist' # <<>> /\ hist'[Len(hist')].op = "hq") =>
                   LET rec == hist'[Len(hist')] IN
                   /\ fs' = fs
                   /\ (rec.k = "size" => rec.r = <<SizeOf("p")>>)
                   /\ (rec.k = "content" => rec.r = Content("p"))
                   /\ (rec.k \in {"size", "isfile", "content", "text"} => InfoOK)
                   /\ (rec.k \in {"size", "exists", "isfile", "content", "text"} => hknown' = SizeIn(fs', "p"))]_vars

-------------------------------------------------------------------------------
(* observation emitted with every transition: what fresh File/TextFile objects must report for every path *)
\* byte strings are emitted run-length coded (<<b1, n1, b2, n2, ...>>, maximal runs): long lines stay small
Rle(s) == LET starts == SetToSortSeq({i \in 1..Len(s) : i = 1 \/ s[i] # s[i - 1]}, <)
              n == Len(starts)
          IN Flat([k \in 1..n |-> <<s[starts[k]], (IF k = n THEN Len(s) + 1 ELSE starts[k + 1]) - starts[k]>>])
RleAll(ss) == [i \in 1..Len(ss) |-> Rle(ss[i])]
ObsPath(fsx, x, settled) ==
    [x |-> x, ex |-> fsx[x] # NoFile, settled |-> settled,
     c |-> IF fsx[x] = NoFile THEN <<>> ELSE Rle(fsx[x]),
     size |-> IF fsx[x] = NoFile THEN -1 ELSE Len(fsx[x]),
     txt |-> fsx[x] # NoFile /\ NulFree(fsx[x]),
     lines |-> IF fsx[x] # NoFile /\ NulFree(fsx[x]) THEN RleAll(Lines(fsx[x])) ELSE <<>>,
     tdef |-> fsx[x] # NoFile /\ TextDefined(fsx[x]),
     text |-> IF fsx[x] # NoFile /\ TextDefined(fsx[x]) THEN Rle(TextOf(fsx[x])) ELSE <<>>]
ObsOf(fsx, d) == <<ObsPath(fsx, "p", ~d), ObsPath(fsx, "q", TRUE), ObsPath(fsx, "r", TRUE)>>
PackRec(r) == [f \in DOMAIN r |-> IF f \in {"d", "d2"} THEN Rle(r[f])
                                  ELSE IF f = "r" /\ r.op = "hread" THEN Rle(r[f])
                                  ELSE IF f = "r" /\ r.op = "hlines" THEN RleAll(r[f])
                                  ELSE IF f = "r" /\ r.op = "hq" /\ r.k \in {"content", "first", "text"} THEN Rle(r[f])
                                  ELSE IF f = "ls" THEN RleAll(r[f])
                                  ELSE r[f]]
View == <<fs, hmode, hpos, heof, dirty, hknown, hlast, Len(hist)>>
\* hq: in the state reached h is closed and what it remembers (if anything) still describes the file, i.e. HQuery is
\* enabled for size / isfile / exists / content / text / lines and (queries do not change the file) stays enabled after
\* each of them and a close(); their results are the fields of the observation of p: the replayer asks h itself
Emit == PrintT(ToJson([hist |-> [i \in 1..Len(hist') |-> PackRec(hist'[i])], exp |-> ObsOf(fs', dirty'), hm |-> hmode',
                       hq |-> (hmode' = "closed" /\ InfoOKOf(hknown', fs')), hz |-> hz']))
===============================================================================
