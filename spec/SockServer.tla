-------------------------------- MODULE SockServer --------------------------------
(* C14 - asl::SocketServer: accept loop, per-connection handler threads (concurrent mode) or inline serving
   (sequential mode), stop(true) and destruction, as interleaved processes whose steps are the library's steps.

   Processes: clients (connect), the accept thread (select/accept/++count/spawn-or-serve/stop-flag check/
   running:=false/thread-flag store), one handler thread per accepted connection (serve, close, --count, end of the
   thread object), the stopper (stop(true): set flag, poll running \/ count > 0, return) and the destructor
   (cancel/join the accept thread, delete its thread object, free the server).  Objects have alive bits; any step that
   reads or writes an object whose alive bit is off sets `uaf`.

   Two design switches reproduce the pinned tree's defects as counterexamples (they are FALSE/TRUE for the repaired
   design that the code is bound to):
     SelfDeleteFirst = TRUE : the handler's run() does `delete this` and Thread::begin then stores the finished flag
                              into the freed object (every concurrent-mode connection);
     JoinInDtor = FALSE     : the destructor cancels and deletes the accept thread object without waiting for it, so
                              its last step (the finished-flag store after running:=false) can hit freed memory.   *)
EXTENDS Naturals, FiniteSets, Sequences, TLC

CONSTANTS NC,               \* client connections 1..NC
          Sequential,       \* TRUE: connections are served inline by the accept thread
          SelfDeleteFirst, JoinInDtor

C == 1..NC

VARIABLES conn,        \* per connection: "none" -> "pending" (in the listen backlog) -> "accepted" -> "serving" -> "served" -> "closed"
          hpc,         \* handler thread per connection: "none","start","serving","close","dec","fin","gone"
          hobj,        \* handler thread object alive
          apc,         \* accept thread: "off","loop","check","ending","flag","done"
          tobj,        \* accept-thread object alive
          srv,         \* server object alive
          running, reqStop, count,
          spc,         \* stopper: "idle","polling","returned"
          dpc,         \* destructor: "idle","killed","deleted"
          served,      \* number of serve() calls per connection
          uaf
vars == <<conn, hpc, hobj, apc, tobj, srv, running, reqStop, count, spc, dpc, served, uaf>>

Init == /\ conn = [c \in C |-> "none"] /\ hpc = [c \in C |-> "none"] /\ hobj = [c \in C |-> FALSE]
        /\ apc = "loop" /\ tobj = TRUE /\ srv = TRUE
        /\ running = TRUE /\ reqStop = FALSE /\ count = 0
        /\ spc = "idle" /\ dpc = "idle" /\ served = [c \in C |-> 0] /\ uaf = FALSE

Touch(alive) == uaf' = (uaf \/ ~alive)

(* clients *)
Connect(c) == /\ conn[c] = "none" /\ srv            \* the listening socket exists while the server object does
              /\ conn' = [conn EXCEPT ![c] = "pending"]
              /\ UNCHANGED <<hpc, hobj, apc, tobj, srv, running, reqStop, count, spc, dpc, served, uaf>>

(* accept thread *)
Accept(c) == /\ apc = "loop" /\ conn[c] = "pending"
             /\ Touch(srv)
             /\ count' = count + 1
             /\ IF Sequential
                THEN /\ conn' = [conn EXCEPT ![c] = "serving"] /\ served' = [served EXCEPT ![c] = @ + 1]
                     /\ apc' = "inline" /\ UNCHANGED <<hpc, hobj>>
                ELSE /\ conn' = [conn EXCEPT ![c] = "accepted"]
                     /\ hpc' = [hpc EXCEPT ![c] = "start"] /\ hobj' = [hobj EXCEPT ![c] = TRUE]
                     /\ apc' = "check" /\ UNCHANGED served
             /\ UNCHANGED <<tobj, srv, running, reqStop, spc, dpc>>
InlineDone == /\ apc = "inline"                    \* serve returned, client.close(), --count
              /\ Touch(srv)
              /\ \E c \in C : /\ conn[c] = "serving" /\ hpc[c] = "none"
                              /\ conn' = [conn EXCEPT ![c] = "closed"]
              /\ count' = count - 1 /\ apc' = "check"
              /\ UNCHANGED <<hpc, hobj, tobj, srv, running, reqStop, spc, dpc, served>>
Timeout == /\ apc = "loop" /\ apc' = "check"        \* select returned nothing within its 2 s
           /\ UNCHANGED <<conn, hpc, hobj, tobj, srv, running, reqStop, count, spc, dpc, served, uaf>>
Check == /\ apc = "check"
         /\ Touch(srv)
         /\ IF reqStop THEN running' = FALSE /\ apc' = "flag" ELSE apc' = "loop" /\ UNCHANGED running
         /\ UNCHANGED <<conn, hpc, hobj, tobj, srv, reqStop, count, spc, dpc, served>>
AFlag == /\ apc = "flag"                             \* Thread::begin: t->_threadFinished = true
         /\ Touch(tobj)
         /\ apc' = "done"
         /\ UNCHANGED <<conn, hpc, hobj, tobj, srv, running, reqStop, count, spc, dpc, served>>

(* handler threads (concurrent mode) *)
HServe(c) == /\ hpc[c] = "start"
             /\ Touch(srv)                            \* _server->serve(_client)
             /\ hpc' = [hpc EXCEPT ![c] = "serving"] /\ conn' = [conn EXCEPT ![c] = "serving"]
             /\ served' = [served EXCEPT ![c] = @ + 1]
             /\ UNCHANGED <<hobj, apc, tobj, srv, running, reqStop, count, spc, dpc>>
HServeEnd(c) == /\ hpc[c] = "serving"
                /\ hpc' = [hpc EXCEPT ![c] = "close"] /\ conn' = [conn EXCEPT ![c] = "served"]
                /\ UNCHANGED <<hobj, apc, tobj, srv, running, reqStop, count, spc, dpc, served, uaf>>
HClose(c) == /\ hpc[c] = "close"
             /\ hpc' = [hpc EXCEPT ![c] = "dec"] /\ conn' = [conn EXCEPT ![c] = "closed"]
             /\ UNCHANGED <<hobj, apc, tobj, srv, running, reqStop, count, spc, dpc, served, uaf>>
HDec(c) == /\ hpc[c] = "dec"
           /\ Touch(srv)                              \* --_server->_numClients
           /\ count' = count - 1
           /\ hpc' = [hpc EXCEPT ![c] = "fin"]
           /\ hobj' = [hobj EXCEPT ![c] = IF SelfDeleteFirst THEN FALSE ELSE @]     \* run(): delete this
           /\ UNCHANGED <<conn, apc, tobj, srv, running, reqStop, spc, dpc, served>>
HFin(c) == /\ hpc[c] = "fin"                          \* Thread::begin stores the finished flag into the handler object
           /\ Touch(hobj[c])
           /\ hobj' = [hobj EXCEPT ![c] = FALSE]      \* (repaired design: the object is released after the store)
           /\ hpc' = [hpc EXCEPT ![c] = "gone"]
           /\ UNCHANGED <<conn, apc, tobj, srv, running, reqStop, count, spc, dpc, served>>

(* stop(true) *)
StopRequest == /\ spc = "idle" /\ srv
               /\ reqStop' = TRUE /\ spc' = "polling"
               /\ UNCHANGED <<conn, hpc, hobj, apc, tobj, srv, running, count, dpc, served, uaf>>
StopPoll == /\ spc = "polling" /\ ~running /\ count = 0
            /\ spc' = "returned"
            /\ UNCHANGED <<conn, hpc, hobj, apc, tobj, srv, running, reqStop, count, dpc, served, uaf>>

(* destruction, only after stop(true) returned *)
DKill == /\ spc = "returned" /\ dpc = "idle"
         /\ dpc' = "killed"
         /\ UNCHANGED <<conn, hpc, hobj, apc, tobj, srv, running, reqStop, count, spc, served, uaf>>
DDelete == /\ dpc = "killed"
           /\ (JoinInDtor => apc = "done")            \* join: wait until the accept thread has really ended
           /\ tobj' = FALSE /\ srv' = FALSE /\ dpc' = "deleted"
           /\ UNCHANGED <<conn, hpc, hobj, apc, running, reqStop, count, spc, served, uaf>>

Next == \/ \E c \in C : Connect(c) \/ Accept(c) \/ HServe(c) \/ HServeEnd(c) \/ HClose(c) \/ HDec(c) \/ HFin(c)
        \/ InlineDone \/ Timeout \/ Check \/ AFlag \/ StopRequest \/ StopPoll \/ DKill \/ DDelete
Spec == Init /\ [][Next]_vars
FairSpec == Spec /\ WF_vars(Timeout \/ Check \/ AFlag \/ InlineDone) /\ WF_vars(StopPoll)
                 /\ \A c \in C : WF_vars(Accept(c)) /\ WF_vars(HServe(c) \/ HServeEnd(c) \/ HClose(c) \/ HDec(c) \/ HFin(c))

-------------------------------------------------------------------------------
ServedAtMostOnce == \A c \in C : served[c] <= 1
\* the connection's socket is open for the whole serve() call and closed afterwards
ValidWhileServing == \A c \in C : conn[c] = "serving" => served[c] = 1
ClosedOnlyAfterServe == \A c \in C : conn[c] = "closed" => served[c] = 1
\* stop(true) returned: the loop has ended, nothing is in flight, nothing starts later
StopIsClean == spc = "returned" =>
                 /\ ~running /\ apc \in {"flag", "done"}
                 /\ \A c \in C : conn[c] \notin {"accepted", "serving", "served"}
NoServeAfterStop == [][spc = "returned" => \A c \in C : served'[c] = served[c]]_vars
NoTouchAfterFree == ~uaf
EveryAcceptedServed == \A c \in C : [](conn[c] \in {"accepted", "serving"} => <>(conn[c] = "closed"))
StopReturns == [](spc = "polling" => <>(spc = "returned"))
===============================================================================
