----------------------------- MODULE LinAlgCases ------------------------------
(* C20 - generator of exact linear-algebra cases over a small prime field, with the algebraic identities of the
   property checked on every case by TLC itself.  Each initial state is the parameters of one case; the action Gen
   publishes it (one transition per case, printed by ACTION_CONSTRAINT Emit for harness/c20_replay, which runs
   Matrix3_/Matrix4_/Matrix_ instantiated over the harness scalar type Z_p on it).

   kind "sq"  : an N x N matrix (all of them, or a scattered sample), its determinant, its inverse when
                it has one, and the solution of A X = B for a two-column right-hand side;
   kind "mul" : a pair of N x N matrices, their product and the three determinants (second operand also in an affine
                variant with last row 0..0 1; general 3 x 3 right operands carry the hazard tag Matrix3GeneralProduct);
   kind "lsq" : an over-determined (N+1) x (N-1) system with the solution of its normal equations when they are regular.

   Invariants (on the published case):
     InverseIdentity : A adj(A) = det(A) I,  and  A inverse(A) = inverse(A) A = I  when det(A) # 0
     TwoFormulations : Laplace determinant = elimination determinant; adjugate inverse = elimination solution
     SolveIdentity   : A X = B
     DetProduct      : det(A B) = det(A) det(B)
     NormalEquations : (A^T A) X = A^T B                                                                           *)
EXTENDS LinAlg, TLC, Json

CONSTANTS N,         \* size of the square matrices
          NSq,       \* number of N x N matrices published as "sq" cases (P^(N*N): all of them)
          NMul,      \* pairs: NMul x NMul matrices
          NLsqA, NLsqB   \* least-squares systems: number of (N+1) x (N-1) matrices and of right-hand sides (0: none)

VARIABLES c, phase
vars == <<c, phase>>

Ix == 1..N
\* matrices are addressed by an index (their entries are its base-P digits); a case takes the index (i * Stride + o) mod
\* the number of matrices, which for i = 0..total-1 is a permutation of all of them and otherwise a scattered sample
MatOfIndex(idx, r, cc) == [i \in 1..r |-> [j \in 1..cc |-> (idx \div (P ^ ((i - 1) * cc + j - 1))) % P]]
Stride == 7919
Pick(i, o, r, cc) == MatOfIndex((i * Stride + o) % (P ^ (r * cc)), r, cc)
ASSUME P \notin {7919} /\ P ^ (N * N) < 100000000 /\ NSq <= P ^ (N * N)
Affine(B) == [B EXCEPT ![N] = [j \in Ix |-> IF j = N THEN 1 % P ELSE 0]]
Rhs2 == [i \in Ix |-> <<(i * i + 1) % P, IF i = 2 THEN 1 % P ELSE 0>>]      \* a fixed N x 2 right-hand side

Init == /\ phase = "gen"
        /\ \/ c \in [k : {"sq"}, i : 0..(NSq - 1)]
           \/ c \in [k : {"mul", "mulaff"}, i : 0..(NMul - 1), j : 0..(NMul - 1)]
           \/ c \in [k : {"lsq"}, i : 0..(NLsqA - 1), j : 0..(NLsqB - 1)]

\* the published case: everything the replayer compares against
Case(q) ==
    IF q.k = "sq" THEN
        LET A == Pick(q.i, 0, N, N) d == Det(A) reg == d # 0 IN
        [k |-> "sq", p |-> P, n |-> N, a |-> Flat(A), det |-> d,
         inv |-> IF reg THEN Flat(AdjInverse(A)) ELSE <<>>,
         b |-> Flat(Rhs2), x |-> IF reg THEN Flat(MatMul(AdjInverse(A), Rhs2)) ELSE <<>>]
    ELSE IF q.k \in {"mul", "mulaff"} THEN
        LET A == Pick(q.i, 11, N, N)
            B0 == Pick(q.j, 4242, N, N)
            B == IF q.k = "mul" THEN B0 ELSE Affine(B0) IN
        [k |-> "mul", p |-> P, n |-> N, a |-> Flat(A), b |-> Flat(B), ab |-> Flat(MatMul(A, B)),
         deta |-> Det(A), detb |-> Det(B), detab |-> Det(MatMul(A, B)), aff |-> IF B[N] = Affine(B)[N] THEN 1 ELSE 0,
         \* hazard tag: a 3 x 3 product whose right operand is not affine (Matrix3_::operator* used to ignore its last row)
         hz |-> IF N = 3 /\ B[N] # Affine(B)[N] THEN <<"Matrix3GeneralProduct">> ELSE <<>>]
    ELSE
        LET A == Pick(q.i, 5, N + 1, N - 1)
            B == Pick(q.j, 3, N + 1, 1)
            na == NormalA(A) reg == Det(na) # 0 IN
        [k |-> "lsq", p |-> P, r |-> N + 1, n |-> N - 1, a |-> Flat(A), b |-> Flat(B), reg |-> IF reg THEN 1 ELSE 0,
         x |-> IF reg THEN Flat(MatMul(AdjInverse(na), NormalB(A, B))) ELSE <<>>]

Gen == phase = "gen" /\ phase' = "done" /\ c' = Case(c)
Spec == Init /\ [][Gen]_vars

-------------------------------------------------------------------------------
Pub(kind) == phase = "done" /\ c.k = kind
Mat(flat, r, cc) == Reshape(flat, r, cc)
InverseIdentity == Pub("sq") =>
    LET A == Mat(c.a, N, N) IN
    /\ MatMul(A, Adj(A)) = Scale(c.det, Ident(N))
    /\ c.det # 0 => LET V == Mat(c.inv, N, N) IN MatMul(A, V) = Ident(N) /\ MatMul(V, A) = Ident(N)
TwoFormulations == Pub("sq") =>
    LET A == Mat(c.a, N, N) IN
    /\ DetGauss(A) = c.det
    /\ c.det # 0 => /\ SolveGauss(A, Ident(N)) = Mat(c.inv, N, N)
                    /\ SolveGauss(A, Mat(c.b, N, 2)) = Mat(c.x, N, 2)
SolveIdentity == Pub("sq") /\ c.det # 0 => MatMul(Mat(c.a, N, N), Mat(c.x, N, 2)) = Mat(c.b, N, 2)
DetProduct == Pub("mul") => c.detab = MulP(c.deta, c.detb) /\ DetGauss(Mat(c.ab, N, N)) = c.detab
NormalEquations == Pub("lsq") /\ c.reg = 1 =>
    LET A == Mat(c.a, N + 1, N - 1) B == Mat(c.b, N + 1, 1) X == Mat(c.x, N - 1, 1) IN
    /\ MatMul(NormalA(A), X) = NormalB(A, B)
    /\ X = SolveGauss(NormalA(A), NormalB(A, B))

Emit == PrintT(ToJson(c'))
===============================================================================
