SPECIFICATION FairSpec
CONSTANTS
 NC = 3
 Sequential = FALSE
 SelfDeleteFirst = FALSE
 JoinInDtor = TRUE
INVARIANTS ServedAtMostOnce ValidWhileServing ClosedOnlyAfterServe StopIsClean NoTouchAfterFree
PROPERTIES NoServeAfterStop EveryAcceptedServed StopReturns
CHECK_DEADLOCK FALSE
