SPECIFICATION Spec
CONSTANTS
 MaxDepth = 2
 MaxItems = 2
 MaxLen = 10
 MaxVar = 1
 MaxStr = 1
 Linear = FALSE
 Stride = 1
 QKeySlashIsComment = FALSE
INVARIANTS TypeOK GenRecAgree PrefixRejected SMAgree SMPrefix SMNoUnderflow SMChunks
CHECK_DEADLOCK FALSE
