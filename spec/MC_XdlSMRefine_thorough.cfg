SPECIFICATION Spec
CONSTANTS
 MaxDepth = 2
 MaxItems = 2
 MaxLen = 11
 MaxVar = 1
 MaxStr = 2
 Linear = FALSE
 Stride = 1
 QKeySlashIsComment = FALSE
INVARIANTS TypeOK GenRecAgree PrefixRejected SMAll
CHECK_DEADLOCK FALSE
