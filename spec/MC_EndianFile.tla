---------------------------- MODULE MC_EndianFile ----------------------------
(* constants of the EndianFile configurations (configuration files cannot spell tuples) *)
EXTENDS EndianFile
\* an existing file: an int32 length 2 (LITTLE) + "hi", a big-endian u16, 3 more bytes
FilesQ   == { <<-1>>, <<2, 0, 0, 0, 104, 105, 1, 130, 9, 8, 7>> }
FilesT   == { <<-1>>, <<2, 0, 0, 0, 104, 105, 1, 130, 9, 8, 7>>, <<0, 0, 0, 1, 65, 255>> }
ChunksQ  == { <<7, 0, 9>> }
ChunksT  == { <<>>, <<7>>, <<7, 0, 9, 200, 5>> }
StringsQ == { <<104, 105, 255>> }
StringsT == { <<>>, <<104, 105, 255>> }
SeeksQ   == { <<0, "start">>, <<4, "start">>, <<-2, "here">>, <<-3, "end">>, <<2, "end">> }
SeeksT   == { <<0, "start">>, <<4, "start">>, <<-2, "here">>, <<1, "here">>, <<-3, "end">>, <<2, "end">> }
===============================================================================
