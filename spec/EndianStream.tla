----------------------------- MODULE EndianStream -----------------------------
(* C16 - endian-aware binary streams (asl::StreamBuffer / StreamBufferReader, File and Socket operators << and >>).

   A stream is a FIFO of bytes with a byte order in force on the writing side and one on the reading side.
   Values are bit patterns: a scalar of type t is the tuple of its sizeof(t) bytes, most significant byte first
   (so NaN payloads, signalling NaNs and extreme integers need no arithmetic and no floating point).
   The property:   the bytes a value contributes are its bytes in the order in force when it was written
                   (sizeof(T) per scalar, length x sizeof(T) per array, the raw characters of a string);
                   reading the same types in the same byte order returns the values;
                   changing the order only affects what is written / read afterwards.

   Writer actions (one per public call): SetOrder, Write (scalar), WriteArray, WriteString.
   Reader actions: RSetOrder, Read (scalar), ReadRaw (n bytes) - used by the trace specification; in model-checking
   mode the read side is checked as the invariant ReadBack (decoding everything written so far, item by item, in the
   byte order each item was written with, yields the items).
   R: MC_EndianStream_*.cfg emit one case per transition (history + expected bytes)  -> harness/c16_replay
   V: Trace_EndianStream validates recorded executions of the real classes                -> harness/c16_record  *)
EXTENDS Naturals, Sequences, FiniteSets, TLC, Json, SequencesExt

CONSTANTS Native,     \* "LITTLE" or "BIG": the byte order ENDIAN_NATIVE stands for on the host (asserted by the harnesses)
          ScalarTypes,\* scalar types generated in model-checking mode
          ArrayTypes, \* element types of generated arrays
          ArrayLens,  \* lengths of generated arrays
          NVals,      \* number of sample bit patterns tried per scalar type
          MaxOps,     \* bound on the history length (model checking)
          KeepHist    \* TRUE: whole history kept (model checking / replay); FALSE: only the last call (trace validation)

VARIABLES worder,     \* byte order in force on the writing side
          rorder,     \* byte order in force on the reading side
          out,        \* bytes written and not yet read
          hist,       \* the calls (model checking: all of them)
          hz          \* spec-level hazard tags of the history (matching of known findings)
vars == <<worder, rorder, out, hist, hz>>

Orders == {"BIG", "LITTLE", "NATIVE"}
Byte   == 0..255

AllTypes == {"u8", "i8", "ch", "bool", "i16", "u16", "i32", "u32", "f32", "i64", "u64", "f64"}
Size(t) == IF t \in {"u8", "i8", "ch", "bool"} THEN 1
           ELSE IF t \in {"i16", "u16"} THEN 2
           ELSE IF t \in {"i32", "u32", "f32"} THEN 4
           ELSE 8

-------------------------------------------------------------------------------
(* the definition of the wire format *)
Effective(o)  == IF o = "NATIVE" THEN Native ELSE o
Rev(s)        == [i \in 1..Len(s) |-> s[Len(s) + 1 - i]]
\* bytes of one scalar (v = its bytes, most significant first) under byte order o
ScalarBytes(v, o) == IF Effective(o) = "BIG" THEN v ELSE Rev(v)
\* concatenation of a sequence of sequences (balanced recursion: depth log n, so long run lists do not exhaust the stack)
RECURSIVE FlatR(_, _, _)
FlatR(ss, lo, hi) == IF lo > hi THEN <<>> ELSE IF lo = hi THEN ss[lo]
                     ELSE LET mid == (lo + hi) \div 2 IN FlatR(ss, lo, mid) \o FlatR(ss, mid + 1, hi)
Flat(ss) == FlatR(ss, 1, Len(ss))
ArrayBytes(a, o) == Flat([i \in 1..Len(a) |-> ScalarBytes(a[i], o)])
\* the value a reader in byte order o assembles from the next bytes (the code's read2/read4/read8 spelled positionally)
Assemble(bs, o) == [i \in 1..Len(bs) |-> IF Effective(o) = "BIG" THEN bs[i] ELSE bs[Len(bs) + 1 - i]]

\* independent arithmetic formulation for 16-bit values (numbers instead of tuples), checked by ASSUME below
Num16(v)           == v[1] * 256 + v[2]
Num16Bytes(n, o)   == IF Effective(o) = "BIG" THEN <<n \div 256, n % 256>> ELSE <<n % 256, n \div 256>>
ASSUME \A hi \in {0, 1, 127, 128, 255}, lo \in {0, 2, 128, 254, 255}, o \in Orders :
          /\ ScalarBytes(<<hi, lo>>, o) = Num16Bytes(Num16(<<hi, lo>>), o)
          /\ Num16(Assemble(ScalarBytes(<<hi, lo>>, o), o)) = hi * 256 + lo
ASSUME Native \in {"LITTLE", "BIG"}

-------------------------------------------------------------------------------
(* sample bit patterns (model checking); asymmetric ones first so that every byte position is distinguishable *)
Samples(t) ==
    IF t = "bool" THEN << <<1>>, <<0>> >>
    ELSE IF Size(t) = 1 THEN << <<129>>, <<0>>, <<255>>, <<127>>, <<1>> >>
    ELSE IF Size(t) = 2 THEN << <<1, 130>>, <<128, 0>>, <<255, 255>>, <<127, 255>>, <<0, 0>> >>
    ELSE IF t = "f32" THEN << <<127, 192, 0, 1>>,      \* quiet NaN with payload
                              <<63, 128, 0, 0>>,       \* 1.0
                              <<255, 128, 0, 1>>,      \* signalling NaN, negative
                              <<0, 0, 0, 1>>,          \* smallest subnormal
                              <<128, 0, 0, 0>> >>      \* -0.0
    ELSE IF Size(t) = 4 THEN << <<1, 2, 3, 132>>, <<128, 0, 0, 0>>, <<255, 255, 255, 255>>, <<127, 255, 255, 255>>, <<0, 0, 0, 0>> >>
    ELSE IF t = "f64" THEN << <<127, 248, 0, 0, 0, 0, 0, 1>>,   \* quiet NaN with payload
                              <<63, 240, 0, 0, 0, 0, 0, 0>>,    \* 1.0
                              <<255, 240, 0, 0, 0, 0, 0, 1>>,   \* signalling NaN, negative
                              <<0, 0, 0, 0, 0, 0, 0, 1>>,       \* smallest subnormal
                              <<128, 0, 0, 0, 0, 0, 0, 0>> >>   \* -0.0
    ELSE << <<1, 2, 3, 4, 5, 6, 7, 136>>, <<128, 0, 0, 0, 0, 0, 0, 0>>, <<255, 255, 255, 255, 255, 255, 255, 255>>,
            <<127, 255, 255, 255, 255, 255, 255, 255>>, <<0, 0, 0, 0, 0, 0, 0, 0>> >>
NSamples(t) == Len(Samples(t))
\* the array of length n whose elements walk the sample patterns starting at offset s
SampleArray(t, n, s) == [i \in 1..n |-> Samples(t)[((i + s - 1) % NSamples(t)) + 1]]
SampleStrings == { <<>>, <<97>>, <<104, 105, 32, 255, 1, 10>> }

-------------------------------------------------------------------------------
Init == /\ worder = "NATIVE" /\ rorder = "NATIVE"     \* File and Socket start in ENDIAN_NATIVE; the harness constructs buffers likewise
        /\ out = <<>>
        /\ hist = <<>>
        /\ hz = {}

Log(rec, tags) == /\ hist' = IF KeepHist THEN Append(hist, rec) ELSE <<rec>>
                  /\ hz' = IF KeepHist THEN hz \cup tags ELSE tags

SetOrder(o) == /\ worder' = o
               /\ UNCHANGED <<rorder, out>>
               /\ Log([op |-> "set", o |-> o], {})

Write(t, v) == /\ Len(v) = Size(t)
               /\ out' = out \o ScalarBytes(v, worder)
               /\ UNCHANGED <<worder, rorder>>
               /\ Log([op |-> "w", t |-> t, v |-> v, o |-> worder], {})

\* operator<<(const Array<T>&): length x sizeof(T) bytes, each element in the order in force
WriteArray(t, a) == /\ {i \in 1..Len(a) : Len(a[i]) # Size(t)} = {}
                    /\ out' = out \o ArrayBytes(a, worder)
                    /\ UNCHANGED <<worder, rorder>>
                    /\ Log([op |-> "wa", t |-> t, a |-> a, o |-> worder],
                           \* the code's unswapped path (one write() of the whole block) - DESIGN.md section 7
                           IF Size(t) > 1 /\ Len(a) > 0 /\ Effective(worder) = Native THEN {"NativeOrderArrayLength"} ELSE {})

\* operator<<(const String&) / (const char*): the characters, no length, no terminator, no byte order
WriteString(s) == /\ out' = out \o s
                  /\ UNCHANGED <<worder, rorder>>
                  /\ Log([op |-> "ws", s |-> s, o |-> worder], {})

(* reading side (trace validation) *)
RSetOrder(o) == /\ rorder' = o
                /\ UNCHANGED <<worder, out>>
                /\ Log([op |-> "rset", o |-> o], {})
ReadValue(t)  == Assemble(SubSeq(out, 1, Size(t)), rorder)
Read(t) == /\ Len(out) >= Size(t)
           /\ out' = SubSeq(out, Size(t) + 1, Len(out))
           /\ UNCHANGED <<worder, rorder>>
           /\ Log([op |-> "r", t |-> t, v |-> ReadValue(t), o |-> rorder], {})
ReadRaw(n) == /\ Len(out) >= n
              /\ out' = SubSeq(out, n + 1, Len(out))
              /\ UNCHANGED <<worder, rorder>>
              /\ Log([op |-> "rs", s |-> SubSeq(out, 1, n)], {})

\* model-checking mode: one named action per kind of call (so that coverage is reported per kind)
CanStep       == Len(hist) < MaxOps
MCSetOrder    == CanStep /\ \E o \in Orders : SetOrder(o)
MCWrite       == CanStep /\ \E t \in ScalarTypes : \E k \in 1..NVals : k <= NSamples(t) /\ Write(t, Samples(t)[k])
MCWriteArray  == CanStep /\ \E t \in ArrayTypes, n \in ArrayLens : WriteArray(t, SampleArray(t, n, Len(hist)))
MCWriteString == CanStep /\ \E s \in SampleStrings : WriteString(s)
Next == MCSetOrder \/ MCWrite \/ MCWriteArray \/ MCWriteString

Spec == Init /\ [][Next]_vars

-------------------------------------------------------------------------------
(* the property, as invariants / action properties of the specification *)
TypeOK == /\ worder \in Orders /\ rorder \in Orders
          /\ \A i \in 1..Len(out) : out[i] \in Byte

Writes == SelectSeq(hist, LAMBDA r : r.op \in {"w", "wa", "ws"})
ItemSize(r) == IF r.op = "w" THEN Size(r.t) ELSE IF r.op = "wa" THEN Len(r.a) * Size(r.t) ELSE Len(r.s)
RECURSIVE SumSizes(_)
SumSizes(ws) == IF ws = <<>> THEN 0 ELSE ItemSize(Head(ws)) + SumSizes(Tail(ws))
\* sizeof(T) bytes per scalar, length x sizeof(T) per array
LengthOK == KeepHist => Len(out) = SumSizes(Writes)

\* decoding the stream item by item, each in the order it was written with, returns the items
RECURSIVE DecodeAll(_, _)
DecodeAll(bs, ws) ==
    IF ws = <<>> THEN <<>>
    ELSE LET r == Head(ws)
             n == ItemSize(r)
             chunk == SubSeq(bs, 1, n)
             val == IF r.op = "w" THEN Assemble(chunk, r.o)
                    ELSE IF r.op = "wa" THEN [i \in 1..Len(r.a) |-> Assemble(SubSeq(chunk, (i - 1) * Size(r.t) + 1, i * Size(r.t)), r.o)]
                    ELSE chunk
         IN <<val>> \o DecodeAll(SubSeq(bs, n + 1, Len(bs)), Tail(ws))
Items == [i \in 1..Len(Writes) |-> IF Writes[i].op = "w" THEN Writes[i].v ELSE IF Writes[i].op = "wa" THEN Writes[i].a ELSE Writes[i].s]
ReadBack == KeepHist => DecodeAll(out, Writes) = Items

\* what has been written never changes: a later call (in particular a change of byte order) only appends
AppendOnly == [][KeepHist => (Len(out') >= Len(out) /\ SubSeq(out', 1, Len(out)) = out)]_vars
OrderOnlyLater == [][(hist' # hist /\ hist' # <<>> /\ hist'[Len(hist')].op = "set") => out' = out]_vars

-------------------------------------------------------------------------------
View == <<worder, rorder, out, Len(hist), hz>>
Emit == PrintT(ToJson([hist |-> hist', out |-> out', hz |-> hz']))
===============================================================================
