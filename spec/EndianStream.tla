----------------------------- MODULE EndianStream -----------------------------
(* C16 - endian-aware binary streams (asl::StreamBuffer / StreamBufferReader, File and Socket operators << and >>).

   A stream is a FIFO of bytes with a byte order in force on the writing side and one on the reading side.
   Values are bit patterns: a scalar of type t is the tuple of its sizeof(t) bytes, most significant byte first
   (so NaN payloads, signalling NaNs and extreme integers need no arithmetic and no floating point).
   The property:   the bytes a value contributes are its bytes in the order in force when it was written
                   (sizeof(T) per scalar, length x sizeof(T) per array, the raw characters of a string);
                   reading the same types in the same byte order returns the values;
                   changing the order only affects what is written / read afterwards.

   The values written are INPUTS: operator<< takes them by const reference and must leave them as they are, so the
   caller may write the same object (scalar variable, Array<T> - a shared, reference-counted buffer -, String) again
   and again and gets the bytes of its value every time.  The caller's objects are the variable `pool`; WriteObj(i)
   writes object i and leaves the pool unchanged, PoolSet is the caller assigning to (an element of) its own object.

   Writer actions (one per public call): SetOrder, Write (scalar), WriteArray, WriteString, WriteObj (any of the three
   applied to a long-lived object of the caller); caller actions on its objects: NewObj, PoolSet.
   Reader actions: RSetOrder, Read (scalar), ReadRaw (n bytes) - used by the trace specification; in model-checking
   mode the read side is checked as the invariant ReadBack (decoding everything written so far, item by item, in the
   byte order each item was written with, yields the items).
   R: MC_EndianStream_*.cfg emit one case per transition (history + expected bytes)  -> harness/c16_replay
   V: Trace_EndianStream validates recorded executions of the real classes                -> harness/c16_record  *)
EXTENDS Naturals, Sequences, FiniteSets, TLC, Json, SequencesExt

CONSTANTS Native,     \* "LITTLE" or "BIG": the byte order ENDIAN_NATIVE stands for on the host (asserted by the harnesses)
          ScalarTypes,\* scalar types generated in model-checking mode
          ArrayTypes, \* element types of generated arrays
          ArrayLens,  \* lengths of generated arrays
          NVals,      \* number of sample bit patterns tried per scalar type
          MaxOps,     \* bound on the number of calls in a history (model checking)
          PoolTypeSeqs,\* model checking: one initial pool of caller objects per sequence of element types in this set ({}: no pool)
          PoolLens,   \* model checking: lengths of the Array objects of a pool (a sequence, one array per entry and type)
          PoolSetIdx, \* model checking: element positions the caller assigns to (PoolSet)
          KeepHist    \* TRUE: whole history kept (model checking / replay); FALSE: only the last call (trace validation)

VARIABLES worder,     \* byte order in force on the writing side
          rorder,     \* byte order in force on the reading side
          out,        \* bytes written and not yet read
          hist,       \* the calls (model checking: all of them)
          hz,         \* spec-level hazard tags of the history (matching of known findings)
          pool        \* the caller's long-lived value objects: [k |-> "w" (scalar) | "wa" (Array<T>) | "ws" (String),
                      \*   t |-> element type ("ch" for strings), a |-> its elements as bit patterns (one for a scalar)]
vars == <<worder, rorder, out, hist, hz, pool>>

Orders == {"BIG", "LITTLE", "NATIVE"}
Byte   == 0..255

AllTypes == {"u8", "i8", "ch", "bool", "i16", "u16", "i32", "u32", "f32", "i64", "u64", "f64"}
Size(t) == IF t \in {"u8", "i8", "ch", "bool"} THEN 1
           ELSE IF t \in {"i16", "u16"} THEN 2
           ELSE IF t \in {"i32", "u32", "f32"} THEN 4
           ELSE 8

-------------------------------------------------------------------------------
(* the definition of the wire format *)
Effective(o)  == IF o = "NATIVE" THEN Native ELSE o
Rev(s)        == [i \in 1..Len(s) |-> s[Len(s) + 1 - i]]
\* bytes of one scalar (v = its bytes, most significant first) under byte order o
ScalarBytes(v, o) == IF Effective(o) = "BIG" THEN v ELSE Rev(v)
\* concatenation of a sequence of sequences (balanced recursion: depth log n, so long run lists do not exhaust the stack)
RECURSIVE FlatR(_, _, _)
FlatR(ss, lo, hi) == IF lo > hi THEN <<>> ELSE IF lo = hi THEN ss[lo]
                     ELSE LET mid == (lo + hi) \div 2 IN FlatR(ss, lo, mid) \o FlatR(ss, mid + 1, hi)
Flat(ss) == FlatR(ss, 1, Len(ss))
ArrayBytes(a, o) == Flat([i \in 1..Len(a) |-> ScalarBytes(a[i], o)])
\* the value a reader in byte order o assembles from the next bytes (the code's read2/read4/read8 spelled positionally)
Assemble(bs, o) == [i \in 1..Len(bs) |-> IF Effective(o) = "BIG" THEN bs[i] ELSE bs[Len(bs) + 1 - i]]

\* independent arithmetic formulation for 16-bit values (numbers instead of tuples), checked by ASSUME below
Num16(v)           == v[1] * 256 + v[2]
Num16Bytes(n, o)   == IF Effective(o) = "BIG" THEN <<n \div 256, n % 256>> ELSE <<n % 256, n \div 256>>
ASSUME \A hi \in {0, 1, 127, 128, 255}, lo \in {0, 2, 128, 254, 255}, o \in Orders :
          /\ ScalarBytes(<<hi, lo>>, o) = Num16Bytes(Num16(<<hi, lo>>), o)
          /\ Num16(Assemble(ScalarBytes(<<hi, lo>>, o), o)) = hi * 256 + lo
ASSUME Native \in {"LITTLE", "BIG"}

-------------------------------------------------------------------------------
(* sample bit patterns (model checking); asymmetric ones first so that every byte position is distinguishable *)
Samples(t) ==
    IF t = "bool" THEN << <<1>>, <<0>> >>
    ELSE IF Size(t) = 1 THEN << <<129>>, <<0>>, <<255>>, <<127>>, <<1>> >>
    ELSE IF Size(t) = 2 THEN << <<1, 130>>, <<128, 0>>, <<255, 255>>, <<127, 255>>, <<0, 0>> >>
    ELSE IF t = "f32" THEN << <<127, 192, 0, 1>>,      \* quiet NaN with payload
                              <<63, 128, 0, 0>>,       \* 1.0
                              <<255, 128, 0, 1>>,      \* signalling NaN, negative
                              <<0, 0, 0, 1>>,          \* smallest subnormal
                              <<128, 0, 0, 0>> >>      \* -0.0
    ELSE IF Size(t) = 4 THEN << <<1, 2, 3, 132>>, <<128, 0, 0, 0>>, <<255, 255, 255, 255>>, <<127, 255, 255, 255>>, <<0, 0, 0, 0>> >>
    ELSE IF t = "f64" THEN << <<127, 248, 0, 0, 0, 0, 0, 1>>,   \* quiet NaN with payload
                              <<63, 240, 0, 0, 0, 0, 0, 0>>,    \* 1.0
                              <<255, 240, 0, 0, 0, 0, 0, 1>>,   \* signalling NaN, negative
                              <<0, 0, 0, 0, 0, 0, 0, 1>>,       \* smallest subnormal
                              <<128, 0, 0, 0, 0, 0, 0, 0>> >>   \* -0.0
    ELSE << <<1, 2, 3, 4, 5, 6, 7, 136>>, <<128, 0, 0, 0, 0, 0, 0, 0>>, <<255, 255, 255, 255, 255, 255, 255, 255>>,
            <<127, 255, 255, 255, 255, 255, 255, 255>>, <<0, 0, 0, 0, 0, 0, 0, 0>> >>
NSamples(t) == Len(Samples(t))
\* the array of length n whose elements walk the sample patterns starting at offset s
SampleArray(t, n, s) == [i \in 1..n |-> Samples(t)[((i + s - 1) % NSamples(t)) + 1]]
SampleStrings == { <<>>, <<97>>, <<104, 105, 32, 255, 1, 10>> }

\* the caller's objects (model checking): per element type one scalar variable and one Array per entry of PoolLens,
\* and one String at the end
ObjsOf(t)  == << [k |-> "w", t |-> t, a |-> <<Samples(t)[1]>>] >> \o
              [n \in 1..Len(PoolLens) |-> [k |-> "wa", t |-> t, a |-> SampleArray(t, PoolLens[n], n - 1)]]
StrObj     == [k |-> "ws", t |-> "ch", a |-> << <<104>>, <<105>>, <<255>>, <<1>> >>]
PoolOf(ts) == Flat([i \in 1..Len(ts) |-> ObjsOf(ts[i])]) \o <<StrObj>>
\* values for the constants PoolTypeSeqs / PoolLens (configuration files cannot spell tuples: `PoolLens <- Lens31`)
PoolsNone   == {}
PoolsSingle == {<<t>> : t \in AllTypes}
LensNone == <<>>
Lens31   == <<3, 1>>
InitPools  == IF PoolTypeSeqs = {} THEN {<<>>} ELSE {PoolOf(ts) : ts \in PoolTypeSeqs}
\* the value the caller assigns next: the sample pattern after the current one (strings: the next non-NUL character)
Succ(k, t, v) == IF k = "ws" THEN <<(v[1] % 255) + 1>>
                 ELSE LET S == Samples(t)
                          c == {x \in 1..Len(S) : S[x] = v}
                      IN  IF c = {} THEN S[1] ELSE S[((CHOOSE x \in c : TRUE) % Len(S)) + 1]

-------------------------------------------------------------------------------
NewRec(i, o) == [op |-> "new", i |-> i, k |-> o.k, t |-> o.t, a |-> o.a]
Init == /\ worder = "NATIVE" /\ rorder = "NATIVE"     \* File and Socket start in ENDIAN_NATIVE; the harness constructs buffers likewise
        /\ out = <<>>
        /\ hz = {}
        /\ pool \in InitPools
        /\ hist = IF KeepHist THEN [i \in 1..Len(pool) |-> NewRec(i, pool[i])] ELSE <<>>   \* the caller creates its objects first

Log(rec, tags) == /\ hist' = IF KeepHist THEN Append(hist, rec) ELSE <<rec>>
                  /\ hz' = IF KeepHist THEN hz \cup tags ELSE tags

SetOrder(o) == /\ worder' = o
               /\ UNCHANGED <<rorder, out, pool>>
               /\ Log([op |-> "set", o |-> o], {})

\* Every write takes its argument by const reference: whatever object of the caller the value lives in (src = its pool
\* index, 0 = a temporary) is the same afterwards - UNCHANGED pool.
WriteFrom(t, v, src) == /\ Len(v) = Size(t)
                        /\ out' = out \o ScalarBytes(v, worder)
                        /\ UNCHANGED <<worder, rorder, pool>>
                        /\ Log([op |-> "w", t |-> t, v |-> v, o |-> worder, src |-> src], {})
Write(t, v) == WriteFrom(t, v, 0)

\* operator<<(const Array<T>&): length x sizeof(T) bytes, each element in the order in force
WriteArrayFrom(t, a, src) ==
                    /\ {i \in 1..Len(a) : Len(a[i]) # Size(t)} = {}
                    /\ out' = out \o ArrayBytes(a, worder)
                    /\ UNCHANGED <<worder, rorder, pool>>
                    /\ Log([op |-> "wa", t |-> t, a |-> a, o |-> worder, src |-> src],
                           \* the code's unswapped path (one write() of the whole block) - DESIGN.md section 7
                           IF Size(t) > 1 /\ Len(a) > 0 /\ Effective(worder) = Native THEN {"NativeOrderArrayLength"} ELSE {})
WriteArray(t, a) == WriteArrayFrom(t, a, 0)

\* operator<<(const String&) / (const char*): the characters, no length, no terminator, no byte order
WriteStringFrom(s, src) == /\ out' = out \o s
                           /\ UNCHANGED <<worder, rorder, pool>>
                           /\ Log([op |-> "ws", s |-> s, o |-> worder, src |-> src], {})
WriteString(s) == WriteStringFrom(s, 0)

(* the caller's long-lived objects *)
ObjOK(o) == /\ o.k \in {"w", "wa", "ws"} /\ o.t \in AllTypes
            /\ (o.k = "w" => Len(o.a) = 1) /\ (o.k = "ws" => o.t = "ch")
            /\ {j \in 1..Len(o.a) : Len(o.a[j]) # Size(o.t)} = {}
\* the characters of a String object (one 1-byte element each)
Chars(a) == [j \in 1..Len(a) |-> a[j][1]]
NewObj(k, t, a) == /\ ObjOK([k |-> k, t |-> t, a |-> a])
                   /\ pool' = Append(pool, [k |-> k, t |-> t, a |-> a])
                   /\ UNCHANGED <<worder, rorder, out>>
                   /\ Log(NewRec(Len(pool) + 1, [k |-> k, t |-> t, a |-> a]), {})
\* the caller assigns v to element j of its object i (a scalar variable has the single element 1)
PoolSet(i, j, v) == /\ i \in 1..Len(pool)
                    /\ IF i \in 1..Len(pool) THEN j \in 1..Len(pool[i].a) /\ Len(v) = Size(pool[i].t) ELSE FALSE
                    /\ pool' = [pool EXCEPT ![i].a[j] = v]
                    /\ UNCHANGED <<worder, rorder, out>>
                    /\ Log([op |-> "pset", i |-> i, j |-> j, v |-> v], {})
\* stream << object i: the bytes of its present value; the object is an input (the write actions leave pool unchanged)
WriteObj(i) == /\ i \in 1..Len(pool)
               /\ IF i \in 1..Len(pool)
                  THEN LET o == pool[i] IN
                       IF o.k = "w" THEN WriteFrom(o.t, o.a[1], i)
                       ELSE IF o.k = "wa" THEN WriteArrayFrom(o.t, o.a, i)
                       ELSE WriteStringFrom(Chars(o.a), i)
                  ELSE FALSE

(* reading side (trace validation) *)
RSetOrder(o) == /\ rorder' = o
                /\ UNCHANGED <<worder, out, pool>>
                /\ Log([op |-> "rset", o |-> o], {})
ReadValue(t)  == Assemble(SubSeq(out, 1, Size(t)), rorder)
Read(t) == /\ Len(out) >= Size(t)
           /\ out' = SubSeq(out, Size(t) + 1, Len(out))
           /\ UNCHANGED <<worder, rorder, pool>>
           /\ Log([op |-> "r", t |-> t, v |-> ReadValue(t), o |-> rorder], {})
ReadRaw(n) == /\ Len(out) >= n
              /\ out' = SubSeq(out, n + 1, Len(out))
              /\ UNCHANGED <<worder, rorder, pool>>
              /\ Log([op |-> "rs", s |-> SubSeq(out, 1, n)], {})

\* model-checking mode: one named action per kind of call (so that coverage is reported per kind)
CanStep       == Len(hist) < MaxOps + Len(pool)       \* the "new" records of the initial pool do not count
MCSetOrder    == CanStep /\ \E o \in Orders : SetOrder(o)
MCWrite       == CanStep /\ \E t \in ScalarTypes : \E k \in 1..NVals : k <= NSamples(t) /\ Write(t, Samples(t)[k])
MCWriteArray  == CanStep /\ \E t \in ArrayTypes, n \in ArrayLens : WriteArray(t, SampleArray(t, n, Len(hist)))
MCWriteString == CanStep /\ \E s \in SampleStrings : WriteString(s)
Next == MCSetOrder \/ MCWrite \/ MCWriteArray \/ MCWriteString

Spec == Init /\ [][Next]_vars

\* histories over the caller's objects: the same object written repeatedly, between changes of byte order, assignments
\* by the caller and writes of temporaries (MC_EndianStream_pool_*.cfg)
MCWriteObj    == CanStep /\ \E i \in 1..Len(pool) : WriteObj(i)
MCPoolSet     == CanStep /\ \E i \in 1..Len(pool), j \in PoolSetIdx :
                               /\ j <= Len(pool[i].a)
                               /\ IF j <= Len(pool[i].a) THEN PoolSet(i, j, Succ(pool[i].k, pool[i].t, pool[i].a[j])) ELSE FALSE
NextPool == MCSetOrder \/ MCWriteObj \/ MCPoolSet \/ MCWrite
SpecPool == Init /\ [][NextPool]_vars

-------------------------------------------------------------------------------
(* the property, as invariants / action properties of the specification *)
TypeOK == /\ worder \in Orders /\ rorder \in Orders
          /\ \A i \in 1..Len(out) : out[i] \in Byte
          /\ \A i \in 1..Len(pool) : ObjOK(pool[i])

Writes == SelectSeq(hist, LAMBDA r : r.op \in {"w", "wa", "ws"})
ItemSize(r) == IF r.op = "w" THEN Size(r.t) ELSE IF r.op = "wa" THEN Len(r.a) * Size(r.t) ELSE Len(r.s)
RECURSIVE SumSizes(_)
SumSizes(ws) == IF ws = <<>> THEN 0 ELSE ItemSize(Head(ws)) + SumSizes(Tail(ws))
\* sizeof(T) bytes per scalar, length x sizeof(T) per array
LengthOK == KeepHist => Len(out) = SumSizes(Writes)

\* decoding the stream item by item, each in the order it was written with, returns the items
RECURSIVE DecodeAll(_, _)
DecodeAll(bs, ws) ==
    IF ws = <<>> THEN <<>>
    ELSE LET r == Head(ws)
             n == ItemSize(r)
             chunk == SubSeq(bs, 1, n)
             val == IF r.op = "w" THEN Assemble(chunk, r.o)
                    ELSE IF r.op = "wa" THEN [i \in 1..Len(r.a) |-> Assemble(SubSeq(chunk, (i - 1) * Size(r.t) + 1, i * Size(r.t)), r.o)]
                    ELSE chunk
         IN <<val>> \o DecodeAll(SubSeq(bs, n + 1, Len(bs)), Tail(ws))
Items == [i \in 1..Len(Writes) |-> IF Writes[i].op = "w" THEN Writes[i].v ELSE IF Writes[i].op = "wa" THEN Writes[i].a ELSE Writes[i].s]
ReadBack == KeepHist => DecodeAll(out, Writes) = Items

\* what has been written never changes: a later call (in particular a change of byte order) only appends
AppendOnly == [][KeepHist => (Len(out') >= Len(out) /\ SubSeq(out', 1, Len(out)) = out)]_vars
OrderOnlyLater == [][(hist' # hist /\ hist' # <<>> /\ hist'[Len(hist')].op = "set") => out' = out]_vars

\* the written objects are inputs: no stream call changes any object of the caller (only the caller itself does)
LastOp(h) == h[Len(h)].op
InputsUntouched == [][(hist' # hist /\ hist' # <<>> /\ LastOp(hist') \notin {"new", "pset"}) => pool' = pool]_vars
\* ... so right after `stream << object` the object still holds exactly the value whose bytes went out,
ObjItem(o) == IF o.k = "w" THEN o.a[1] ELSE IF o.k = "wa" THEN o.a ELSE Chars(o.a)
RecItem(r) == IF r.op = "w" THEN r.v ELSE IF r.op = "wa" THEN r.a ELSE r.s
WrittenObjectIntact == hist # <<>> =>
    LET r == hist[Len(hist)] IN
    IF r.op \in {"w", "wa", "ws"} THEN (r.src # 0 => (r.src \in 1..Len(pool) /\ ObjItem(pool[r.src]) = RecItem(r))) ELSE TRUE
\* ... and writing one object twice with no assignment to it in between contributes the same bytes whenever the byte
\* order in force is the same (and the reversed bytes per element when it is the opposite one - covered by ReadBack)
RECURSIVE Chunks(_, _)
Chunks(bs, ws) == IF ws = <<>> THEN <<>>
                  ELSE <<SubSeq(bs, 1, ItemSize(Head(ws)))>> \o Chunks(SubSeq(bs, ItemSize(Head(ws)) + 1, Len(bs)), Tail(ws))
WriteIdx == {i \in 1..Len(hist) : hist[i].op \in {"w", "wa", "ws"}}
RepeatableWrites == KeepHist =>
    LET wi == SetToSeq(WriteIdx)                 \* positions of the writes in hist (any order; paired with cs below through SortSeq)
        ws == SortSeq(wi, LAMBDA x, y : x < y)
        cs == Chunks(out, Writes)
    IN \A x, y \in 1..Len(ws) :
          (/\ x < y /\ hist[ws[x]].src # 0 /\ hist[ws[x]].src = hist[ws[y]].src
           /\ Effective(hist[ws[x]].o) = Effective(hist[ws[y]].o)
           /\ {z \in ws[x]..ws[y] : hist[z].op = "pset" /\ hist[z].i = hist[ws[x]].src} = {})
          => cs[x] = cs[y]

-------------------------------------------------------------------------------
View == <<worder, rorder, out, Len(hist), hz, pool>>
Emit == PrintT(ToJson([hist |-> hist', out |-> out', hz |-> hz', pool |-> pool']))
===============================================================================
