------------------------------- MODULE WsFrame -------------------------------
(* C11 - RFC 6455 WebSocket framing, reassembly and handshake as executable operators (property level, no variables).

     Header / Encode      frame -> bytes (three length classes, masking)
     Decode / DecodeAll   bytes -> frames (recognizer, independent of Encode; reports how the stream ends)
     RxFrame / RxAll      the receiver as a reassembly machine: data fragments, interleaved control frames, close
     Accept               Sec-WebSocket-Accept = Base64(SHA-1(key ++ GUID))   (Codecs.tla)
     HandshakeRequest / HandshakeResponse   the HTTP upgrade exchange as bytes
     PayloadByte          the deterministic content of large payloads (len, seed), expanded identically by the harness

   Frames are records [fin, rsv, op, masked, key, pl]; bytes are 0..255; lengths are naturals below 2^31 (TLC integers are
   32-bit: 64-bit length fields beyond that are handled as explicit byte strings, see WsFrameStreams!Hostile).
   Used by WsFrameStreams (exhaustive small streams, every cut, hostile headers), WsFrameSizes (header boundaries),
   WsFrameHs (handshake) and Trace_WsFrame (validation of what the library put on the wire).                        *)
EXTENDS Naturals, Integers, Sequences, FiniteSets, TLC, Bitwise

Cd == INSTANCE Codecs

OpCont == 0  OpText == 1  OpBin == 2  OpClose == 8  OpPing == 9  OpPong == 10
IsDataOp(op)    == op \in {0, 1, 2}
IsControlOp(op) == op \in {8, 9, 10}

RECURSIVE Flat(_)
Flat(ss) == IF ss = <<>> THEN <<>> ELSE Head(ss) \o Flat(Tail(ss))

--------------------------------------------------------------------------------
(* encoder *)
B2(n) == <<n \div 256, n % 256>>
B8(n) == <<0, 0, 0, 0, n \div 16777216, (n \div 65536) % 256, (n \div 256) % 256, n % 256>>
LenCode(n)  == IF n < 126 THEN n ELSE IF n < 65536 THEN 126 ELSE 127
LenField(n) == IF n < 126 THEN <<>> ELSE IF n < 65536 THEN B2(n) ELSE B8(n)
Header(fin, rsv, op, masked, key, n) ==
    <<fin * 128 + rsv * 16 + op, (IF masked THEN 128 ELSE 0) + LenCode(n)>> \o LenField(n) \o (IF masked THEN key ELSE <<>>)
HeaderLen(masked, n) == 2 + (IF n < 126 THEN 0 ELSE IF n < 65536 THEN 2 ELSE 8) + (IF masked THEN 4 ELSE 0)
MaskBytes(pl, key) == [i \in 1..Len(pl) |-> pl[i] ^^ key[((i - 1) % 4) + 1]]
Encode(f) == Header(f.fin, f.rsv, f.op, f.masked, f.key, Len(f.pl)) \o (IF f.masked THEN MaskBytes(f.pl, f.key) ELSE f.pl)
EncodeAll(fs) == Flat([i \in 1..Len(fs) |-> Encode(fs[i])])
Frame(fin, op, masked, key, pl) == [fin |-> fin, rsv |-> 0, op |-> op, masked |-> masked, key |-> IF masked THEN key ELSE <<0, 0, 0, 0>>, pl |-> pl]

\* what RFC 6455 5.2 / 5.5 allow
ValidFrame(f) == /\ f.rsv = 0 /\ (IsDataOp(f.op) \/ IsControlOp(f.op))
                 /\ (IsControlOp(f.op) => f.fin = 1 /\ Len(f.pl) <= 125)

--------------------------------------------------------------------------------
(* recognizer.  Decode(s, p) = [st, f, p]: st = "ok" (frame f ends before p), "inc" (s ends inside the frame),
   "absurd" (a 64-bit length that does not fit 31 bits).                                                          *)
\* the header alone: [st, fin, rsv, op, masked, key, n, pp] with pp = position of the first payload byte
DecodeHeader(s, p) ==
    LET none(st) == [st |-> st, fin |-> 0, rsv |-> 0, op |-> 0, masked |-> FALSE, key |-> <<0, 0, 0, 0>>, n |-> 0, pp |-> 0] IN
    IF p + 1 > Len(s) THEN none("inc") ELSE
    LET b0 == s[p]  b1 == s[p + 1]
        code == b1 % 128
        masked == b1 >= 128
        extn == IF code = 126 THEN 2 ELSE IF code = 127 THEN 8 ELSE 0
    IN IF p + 1 + extn > Len(s) THEN none("inc") ELSE
    LET ext == SubSeq(s, p + 2, p + 1 + extn) IN
    IF code = 127 /\ (ext[1] # 0 \/ ext[2] # 0 \/ ext[3] # 0 \/ ext[4] # 0 \/ ext[5] >= 128) THEN none("absurd") ELSE
    LET n  == IF code < 126 THEN code ELSE IF code = 126 THEN ext[1] * 256 + ext[2] ELSE ((ext[5] * 256 + ext[6]) * 256 + ext[7]) * 256 + ext[8]
        kp == p + 2 + extn
    IN IF masked /\ kp + 3 > Len(s) THEN none("inc") ELSE
       [st |-> "ok", fin |-> b0 \div 128, rsv |-> (b0 \div 16) % 8, op |-> b0 % 16, masked |-> masked,
        key |-> IF masked THEN SubSeq(s, kp, kp + 3) ELSE <<0, 0, 0, 0>>, n |-> n, pp |-> kp + (IF masked THEN 4 ELSE 0)]
Decode(s, p) ==
    LET h == DecodeHeader(s, p) IN
    IF h.st # "ok" THEN [st |-> h.st, f |-> <<>>, p |-> 0]
    ELSE IF h.pp + h.n - 1 > Len(s) THEN [st |-> "inc", f |-> <<>>, p |-> 0]
    ELSE LET raw == SubSeq(s, h.pp, h.pp + h.n - 1) IN
         [st |-> "ok", p |-> h.pp + h.n,
          f |-> [fin |-> h.fin, rsv |-> h.rsv, op |-> h.op, masked |-> h.masked, key |-> h.key,
                 pl |-> IF h.masked THEN MaskBytes(raw, h.key) ELSE raw]]

RECURSIVE DecodeFrom(_, _, _)
DecodeFrom(s, p, acc) ==
    IF p > Len(s) THEN [fs |-> acc, st |-> "end"]
    ELSE LET d == Decode(s, p) IN
         IF d.st # "ok" THEN [fs |-> acc, st |-> d.st] ELSE DecodeFrom(s, d.p, Append(acc, d.f))
DecodeAll(s) == DecodeFrom(s, 1, <<>>)

--------------------------------------------------------------------------------
(* receiver: what the application gets from a sequence of frames.
   out = delivered messages (payload bytes; the library's message object carries no type), pongs = payloads of the pongs
   the receiver owes (RFC 6455 5.5.2 / 5.5.3: one per ping, with the ping's payload - also when that is empty; a receiver
   that drops the reply to an empty ping is the hazard EmptyPingNoPong), closed/code/reason after a close frame,
   bad = protocol violation seen (result then open).                                                                  *)
Rx0 == [open |-> FALSE, part |-> <<>>, out |-> <<>>, pongs |-> <<>>, closed |-> FALSE, code |-> 0, reason |-> <<>>, bad |-> FALSE]
RxFrame(r, f) ==
    IF r.closed \/ r.bad THEN r
    ELSE IF ~ValidFrame(f) THEN [r EXCEPT !.bad = TRUE]
    ELSE IF f.op \in {OpText, OpBin} THEN
         (IF r.open THEN [r EXCEPT !.bad = TRUE]
          ELSE IF f.fin = 1 THEN [r EXCEPT !.out = Append(@, f.pl)]
          ELSE [r EXCEPT !.open = TRUE, !.part = f.pl])
    ELSE IF f.op = OpCont THEN
         (IF ~r.open THEN [r EXCEPT !.bad = TRUE]
          ELSE IF f.fin = 1 THEN [r EXCEPT !.out = Append(@, r.part \o f.pl), !.open = FALSE, !.part = <<>>]
          ELSE [r EXCEPT !.part = @ \o f.pl])
    ELSE IF f.op = OpPing THEN [r EXCEPT !.pongs = Append(@, f.pl)]
    ELSE IF f.op = OpPong THEN r
    ELSE [r EXCEPT !.closed = TRUE, !.code = IF Len(f.pl) >= 2 THEN f.pl[1] * 256 + f.pl[2] ELSE 1005,
                   !.reason = IF Len(f.pl) >= 2 THEN SubSeq(f.pl, 3, Len(f.pl)) ELSE <<>>]
RECURSIVE RxFold(_, _)
RxFold(r, fs) == IF fs = <<>> THEN r ELSE RxFold(RxFrame(r, Head(fs)), Tail(fs))
RxAll(fs) == RxFold(Rx0, fs)

--------------------------------------------------------------------------------
(* handshake *)
GUID == <<50,53,56,69,65,70,65,53,45,69,57,49,52,45,52,55,68,65,45,57,53,67,65,45,67,53,65,66,48,68,67,56,53,66,49,49>>  \* 258EAFA5-E914-47DA-95CA-C5AB0DC85B11
Accept(key) == Cd!B64Enc(Cd!Sha1Bytes(key \o GUID))
\* RFC 6455 1.3: key "dGhlIHNhbXBsZSBub25jZQ==" -> accept "s3pPLMBiTxaQ9kYGzzhZRbK+xOo="
SampleKey    == <<100,71,104,108,73,72,78,104,98,88,66,115,90,83,66,117,98,50,53,106,90,81,61,61>>
SampleAccept == <<115,51,112,80,76,77,66,105,84,120,97,81,57,107,89,71,122,122,104,90,82,98,75,43,120,79,111,61>>

CRLF == <<13, 10>>
L_Get       == <<71,69,84,32>>                                                     \* "GET "
L_Http11    == <<32,72,84,84,80,47,49,46,49>>                                      \* " HTTP/1.1"
N_Host      == <<72,111,115,116>>                                                  \* Host
N_Upgrade   == <<85,112,103,114,97,100,101>>                                       \* Upgrade
N_Conn      == <<67,111,110,110,101,99,116,105,111,110>>                           \* Connection
N_Key       == <<83,101,99,45,87,101,98,83,111,99,107,101,116,45,75,101,121>>      \* Sec-WebSocket-Key
N_Version   == <<83,101,99,45,87,101,98,83,111,99,107,101,116,45,86,101,114,115,105,111,110>>  \* Sec-WebSocket-Version
N_Accept    == <<83,101,99,45,87,101,98,83,111,99,107,101,116,45,65,99,99,101,112,116>>        \* Sec-WebSocket-Accept
V_websocket == <<119,101,98,115,111,99,107,101,116>>                               \* websocket
V_Upgrade   == <<85,112,103,114,97,100,101>>                                       \* Upgrade
V_KaUpgrade == <<107,101,101,112,45,97,108,105,118,101,44,32,85,112,103,114,97,100,101>> \* keep-alive, Upgrade
V_13        == <<49,51>>
L_101       == <<72,84,84,80,47,49,46,49,32,49,48,49,32,83,119,105,116,99,104,105,110,103,32,80,114,111,116,111,99,111,108,115>> \* HTTP/1.1 101 Switching Protocols

ToLowerB(c) == IF c \in 65..90 THEN c + 32 ELSE c
LowerB(s) == [i \in 1..Len(s) |-> ToLowerB(s[i])]
\* hs = sequence of [n, sep, v]
HeaderLines(hs) == Flat([i \in 1..Len(hs) |-> hs[i].n \o <<58>> \o hs[i].sep \o hs[i].v \o CRLF])
HandshakeRequest(path, hs) == L_Get \o path \o L_Http11 \o CRLF \o HeaderLines(hs) \o CRLF
HandshakeResponse(accept) ==
    L_101 \o CRLF \o HeaderLines(<< [n |-> N_Upgrade, sep |-> <<32>>, v |-> V_websocket], [n |-> N_Conn, sep |-> <<32>>, v |-> V_Upgrade],
                                   [n |-> N_Accept, sep |-> <<32>>, v |-> accept] >>) \o CRLF

\* text lines of an HTTP head (up to the blank line): sequence of lines without CRLF, and the position after the blank line
RECURSIVE HeadLines(_, _, _)
HeadLines(s, p, acc) ==
    LET RECURSIVE Eol(_)
        Eol(q) == IF q + 1 > Len(s) THEN 0 ELSE IF s[q] = 13 /\ s[q + 1] = 10 THEN q ELSE Eol(q + 1)
        e == Eol(p)
    IN IF e = 0 THEN [ok |-> FALSE, lines |-> acc, p |-> 0]
       ELSE IF e = p THEN [ok |-> TRUE, lines |-> acc, p |-> p + 2]
       ELSE HeadLines(s, e + 2, Append(acc, SubSeq(s, p, e - 1)))
RECURSIVE TrimB(_)
TrimB(s) == IF s # <<>> /\ s[1] \in {32, 9} THEN TrimB(Tail(s)) ELSE IF s # <<>> /\ s[Len(s)] \in {32, 9} THEN TrimB(SubSeq(s, 1, Len(s) - 1)) ELSE s
\* value of the header named lname (lower case) among the lines (first line = start line), <<>> if absent
HeadValue(lines, lname) ==
    LET idx == {i \in 2..Len(lines) : Len(lines[i]) > Len(lname) /\ LowerB(SubSeq(lines[i], 1, Len(lname))) = lname /\ lines[i][Len(lname) + 1] = 58}
    IN IF idx = {} THEN <<>> ELSE LET i == CHOOSE j \in idx : TRUE IN TrimB(SubSeq(lines[i], Len(lname) + 2, Len(lines[i])))

--------------------------------------------------------------------------------
(* large payloads are described by (len, seed); byte i (0-based) is: *)
PayloadByte(seed, i) == (seed + 31 * i + 7 * (i \div 256)) % 256
Payload(len, seed) == [i \in 1..len |-> PayloadByte(seed, i - 1)]
================================================================================
