------------------------------ MODULE MC_UtfWide ------------------------------
(* C08 growth: UTF-16 as the library reads it.  Every string of code units up to MaxLen over WAlpha (0 = an embedded
   terminator, the ends of the 1/2/3-byte ranges, the four surrogate range ends and their neighbours), one state per
   string: surrogates at the start, in the middle and at the very end of the buffer, paired, unpaired, reversed.
   Invariants: every round of utf16toUtf8 consumes one or two units and reads at most the terminator, the output fits
   the 4 * wcslen bytes the String constructors reserve, well-formed UTF-16 is converted to the standard UTF-8 of its
   scalar values, ill-formed UTF-16 to that of its longest well-formed prefix (WideOK16), and what comes back through
   utf8toUtf16 is that prefix again.
   The laws are laws of the transcription (what the present loops do).  The header documents nothing for ill-formed
   UTF-16, so the replayer treats a different result on the rows with wf = FALSE as a deviation, not as a failure.
   Emit: the units, the bytes the String constructors from wide strings and utf16toUtf8 must produce, the output
   after k rounds for every k (the function's count argument), and the units dataw() must give back.              *)
EXTENDS UtfLax, TLC, Json
CONSTANTS WAlpha, MaxLen
VARIABLES w
Init == w = <<>>
Next == Len(w) < MaxLen /\ \E u \in WAlpha : w' = Append(w, u)
Spec == Init /\ [][Next]_w

WideLaws == /\ WideStepsOK(w) /\ WideOK16(w)
            /\ LET v == CStr(w)  k == Wf16Prefix(v, 1) IN U16Seq(W8Seq(w)) = SubSeq(v, 1, k)
            /\ WellFormed8(W8Seq(w))
ASSUME \A u \in WAlpha : u \in 0..65535

Emit == LET v == CStr(w') IN
        PrintT(ToJson([k |-> "wide", w |-> w', b8 |-> W8Seq(w'), lim |-> [i \in 1..Len(v) |-> W8SeqN(w', i)],
                       back |-> U16Seq(W8Seq(w')),
                       \* the wide C string is well-formed UTF-16: only then is the result what the standard says
                       wf |-> Dec16Seq(v).ok]))
===============================================================================
