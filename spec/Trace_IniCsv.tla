----------------------------- MODULE Trace_IniCsv -----------------------------
(* V binding for C18.  Each event is one complete execution of the real code, logged by harness/c18_replay (on the
   cases TLC generated) or harness/c18_record (random texts, edit histories of up to 20 set() calls, tables up to
   30x8):
     {"op":"ini","text":bytes,"sets":[{sec,key,val}],"w":bytes of the file after IniFile wrote it,
      "got":[{sec,key,val}] values a fresh IniFile returned}
     {"op":"csv","cols":n,"rows":[[{t,s}]] cells written (numbers as their %.15g text),
      "file":bytes TabularDataFile wrote,"got":[[{t,s}]] cells a fresh TabularDataFile returned}
   TLC evaluates the requirement of IniCsv on the real bytes: IniOK(text, sets, w) (values and relative order of
   comments / untouched entries), the returned values against Expected, the specification's CSV reader on the
   written file, and the rows read back against the rows written.                                                 *)
EXTENDS IniCsv, IOUtils

T == ndJsonDeserialize(IOEnv.TRACE)
VARIABLE l
tvars == <<vars, l>>
TInit == Init /\ l = 1

IniEventOK(e) ==
    LET at == Assigns(e.text) \o e.sets IN
    /\ IniOK(e.text, e.sets, e.w)
    /\ {i \in 1..Len(e.got) : e.got[i].val # Lookup(at, e.got[i].sec, e.got[i].key)} = {}
    /\ KeysOf(at) \subseteq {<<e.got[i].sec, e.got[i].key>> : i \in 1..Len(e.got)}          \* every key was queried
CsvEventOK(e) ==
    /\ {i \in 1..Len(e.rows) : Len(e.rows[i]) # e.cols} = {}
    /\ {p \in {<<i, j>> : i \in 1..Len(e.rows), j \in 1..e.cols} :
            (e.rows[p[1]][p[2]].t = "n") # IsNumText(e.rows[p[1]][p[2]].s)} = {}            \* numbers are %.15g texts, strings are not
    /\ CsvRows(e.file) = e.rows                \* what the real writer produced parses (specification's reader) to the rows written
    /\ e.got = e.rows                          \* what the real reader returned

TStep ==
  /\ l <= Len(T)
  /\ l' = l + 1
  /\ UNCHANGED vars
  /\ LET e == T[l] IN
     \/ e.op = "reset"
     \/ e.op = "ini" /\ IniEventOK(e)
     \/ e.op = "csv" /\ CsvEventOK(e)

TraceSpec == TInit /\ [][TStep]_tvars
TraceAccepted == TLCGet("stats").diameter - 1 = Len(T)
===============================================================================
