----------------------------- MODULE Trace_IniCsv -----------------------------
(* V binding for C18.  Each event is one complete execution of the real code, logged by harness/c18_replay (on the
   cases TLC generated) or harness/c18_record (random texts, edit histories of up to 20 set() calls, tables up to
   30x8):
     {"op":"ini","text":bytes,"sets":[{sec,key,val}],"w":bytes of the file after IniFile wrote it,
      "got":[{sec,key,val}] values a fresh IniFile returned}
     {"op":"csv","cols":n,"rows":[[{t,s}]] cells written (numbers as their %.15g text),
      "file":bytes TabularDataFile wrote,"got":[[{t,s}]] cells a fresh TabularDataFile returned}
   TLC evaluates the requirement of IniCsv on the real bytes: IniOK(text, sets, w) (values and relative order of
   comments / untouched entries), the returned values against Expected, the specification's CSV reader on the
   written file, and the rows read back against the rows written.
   Growth events:
     a.* - one event per call on an asl::IniFile object (harness/c18_common.h, ApiSession): a.new (file), a.open, a.set, a.get,
           a.cur, a.asize, a.aget, a.write / a.writeTo / a.writeBad / a.close (with the bytes on disk afterwards), a.obs (the
           const queries).  They are the actions of the object state machine of IniCsv (variable ast, ApiStep) on the *real*
           bytes: every write must satisfy WriteOK relative to the text the object was opened on and the set() calls since
           then; results and observations must be what ApiRet / ApiObs say in the state reached.
     csvw - one table written by TabularDataFile with options (separator, decimal symbol, useQuotes, flushEvery, short rows,
           ARFF) + the bytes written + snapshots of the file after each row + what a fresh object read back;
     csvr - a file produced by "another tool" read by TabularDataFile (columns(), nextRow()/row(), data(), file[name]).     *)
EXTENDS IniCsv, IOUtils

T == ndJsonDeserialize(IOEnv.TRACE)
VARIABLE l
tvars == <<vars, l>>
TInit == Init /\ l = 1       \* (Part = "trace": every generator variable has its neutral value)

IniEventOK(e) ==
    LET at == Assigns(e.text) \o e.sets IN
    /\ IniOK(e.text, e.sets, e.w)
    /\ {i \in 1..Len(e.got) : e.got[i].val # Lookup(at, e.got[i].sec, e.got[i].key)} = {}
    /\ KeysOf(at) \subseteq {<<e.got[i].sec, e.got[i].key>> : i \in 1..Len(e.got)}          \* every key was queried
CsvEventOK(e) ==
    /\ {i \in 1..Len(e.rows) : Len(e.rows[i]) # e.cols} = {}
    /\ {p \in {<<i, j>> : i \in 1..Len(e.rows), j \in 1..e.cols} :
            (e.rows[p[1]][p[2]].t = "n") # IsNumText(e.rows[p[1]][p[2]].s)} = {}            \* numbers are %.15g texts, strings are not
    /\ CsvRows(e.file) = e.rows                \* what the real writer produced parses (specification's reader) to the rows written
    /\ e.got = e.rows                          \* what the real reader returned


(* growth: a table written with options.  The file must be what CsvWOK / ArffOK say for the options; a snapshot of the file taken
   after row r is a prefix of the final file and, when r is a multiple of flushEvery(n), holds all r rows; what a fresh object
   read back is what the specification's reader (with inference) reads from those bytes, and - for the dialects the inference
   recovers - the table that was written. *)
ArffCols(e) == [j \in 1..Len(e.names) |-> [name |-> e.names[j], ty |-> IF j <= Len(e.types) THEN e.types[j] ELSE <<>>]]
SnapOK(e, o, sn) == /\ IsPrefix(sn.file, e.file)
                    /\ (IF e.flush > 0 /\ sn.r % e.flush = 0
                        THEN (IF e.arff THEN ArffOK(sn.file, e.rel, ArffCols(e), SubSeq(e.rows, 1, sn.r), e.q)
                              ELSE CsvFileRows(sn.file, o) = NormRows(SubSeq(e.rows, 1, sn.r)))
                        ELSE TRUE)
CsvWEventOK(e) ==
    LET o == [sep |-> e.sep, dec |-> e.dec, q |-> e.q] IN
    /\ (IF e.arff THEN ArffOK(e.file, e.rel, ArffCols(e), e.rows, e.q) ELSE CsvWOK(e.file, e.names, e.rows, o))
    /\ {k \in 1..Len(e.snaps) : ~SnapOK(e, o, e.snaps[k])} = {}
    /\ (IF e.readable THEN LET r == CsvRead(e.file, <<>>) IN
                           /\ e.got = r.rows
                           /\ r.rows = ReadBack(e.names, e.rows)
                           /\ (r.named => e.gotnames = r.names)
        ELSE TRUE)
(* growth: a file of another tool read by the real reader: rows (nextRow()/row() and data()), column names and file[name] *)
CsvREventOK(e) ==
    IF ReadUnspec(e.file, e.types) THEN TRUE
    ELSE LET r == CsvRead(e.file, e.types) IN
         /\ DropEmpty(e.rows) = DropEmpty(r.rows)
         /\ e.data = e.rows
         /\ e.past
         /\ (IF r.named THEN /\ e.names = r.names /\ e.ncols = Len(r.names)
                             /\ {i \in 1..Len(e.rows) : e.byname[i] # ByName(e.names, e.rows[i])} = {}
             ELSE TRUE)

(* the IniFile object *)
Pairs(vs) == {<<vs[i].name, vs[i].val>> : i \in {j \in 1..Len(vs) : ~(IF Len(vs[j].name) >= 2 THEN vs[j].name[1] = 45 /\ vs[j].name[2] = Slash ELSE FALSE)}}
ValsOK(vs, o) == LET got == Pairs(vs)
                     must == {<<o.vals[i].name, o.vals[i].val>> : i \in 1..Len(o.vals)}
                 IN /\ must \subseteq got
                    /\ (got \ must) \subseteq {<<n, <<>>>> : n \in ToSet(o.valsMay)}
                    /\ Cardinality({p[1] : p \in got}) = Cardinality(got)                  \* one value per name
ObsOK(e, a) ==
    LET o == ApiObs(a, [i \in 1..Len(e.q) |-> [sec |-> e.q[i].sec, key |-> e.q[i].key]]) IN
    /\ Len(o.q) = Len(e.q)
    /\ {i \in 1..Len(e.q) : ~(/\ e.q[i].v = o.q[i].v
                              /\ (o.q[i].has = "u" \/ e.q[i].has = o.q[i].has)
                              /\ e.q[i].dflt \in ToSet(o.q[i].dflt))} = {}
    /\ ToSet(o.secs) \subseteq ToSet(e.secs)
    /\ ToSet(e.secs) \subseteq (ToSet(o.secs) \cup ToSet(o.secsMay))
    /\ Cardinality(ToSet(e.secs)) = Len(e.secs)
    /\ ValsOK(e.vals, o)
    /\ ValsOK(e.vals2, o)
\* the bytes a write left: unchanged when nothing was set, otherwise WriteOK relative to the text the object was opened on
\* (nothing needs to be written when every set() left the value as the file has it - a new key without value included)
Untouched(a, w, exists) == exists = a.exists /\ (a.exists => w = a.disk)
NoNeed(a) == \A k \in KeysOf(a.sets) : Trim(Lookup(a.sets, k[1], k[2])) = Lookup(a.bmem, k[1], k[2])
\* (a file that gives a key twice with two values: whether destroying the object alone rewrites it is not documented)
DupConflict(as) == \E i \in 1..Len(as) : as[i].val # Lookup(as, as[i].sec, as[i].key)
WroteOK(a, w, exists) == IF a.sets = <<>> THEN (IF Untouched(a, w, exists) THEN TRUE ELSE DupConflict(a.bmem) /\ exists /\ WriteOK(a.base, <<>>, w))
                         ELSE IF Untouched(a, w, exists) /\ NoNeed(a) THEN TRUE
                         ELSE exists /\ WriteOK(a.base, a.sets, w)
D(e) == [bytes |-> e.w, exists |-> e.exists]
None == [bytes |-> <<>>, exists |-> FALSE]
TApi(e) ==
    CASE e.op = "a.new"   -> ast' = ApiStart(e.text, e.exists)
      [] e.op = "a.open"  -> LET m == [m |-> "open", sw |-> e.sw] IN
                             ApiEnabled(ast, m) /\ e.ok = ast.exists /\ e.fname /\ ast' = ApiStep(ast, m, None)
      [] e.op = "a.set"   -> LET m == [m |-> "set", sec |-> e.sec, key |-> e.key, val |-> e.val] IN
                             ApiEnabled(ast, m) /\ ast' = ApiStep(ast, m, None)
      [] e.op = "a.get"   -> LET m == [m |-> "get", sec |-> e.sec, key |-> e.key] IN
                             ApiEnabled(ast, m) /\ e.r = ApiRet(ast, m) /\ ast' = ApiStep(ast, m, None)
      [] e.op = "a.cur"   -> ast.open /\ ast' = ApiStep(ast, [m |-> "cur", sec |-> e.sec], None)
      \* (arraysize(): the number the key "size" holds; what it returns for a value that is not a number is not documented)
      [] e.op = "a.asize" -> LET m == [m |-> "asize", sec |-> e.sec]
                                 v == Lookup(ApiMem(ast), e.sec, <<115, 105, 122, 101>>) IN
                             /\ ast.open
                             /\ (IF v = <<>> \/ (AllDigits(v) /\ Len(v) <= 9) THEN e.r = ApiRet(ast, m) ELSE TRUE)
                             /\ ast' = ApiStep(ast, m, None)
      [] e.op = "a.aget"  -> LET m == [m |-> "aget", field |-> e.field, idx |-> e.idx] IN
                             ApiEnabled(ast, m) /\ e.r = ApiRet(ast, m) /\ ast' = ast
      [] e.op = "a.write" -> ApiEnabled(ast, [m |-> "write"]) /\ WroteOK(ast, e.w, e.exists) /\ ast' = ApiStep(ast, [m |-> "write"], D(e))
      [] e.op = "a.writeTo" -> /\ ApiEnabled(ast, [m |-> "writeTo"]) /\ (IF NoNeed(ast) /\ ~e.made THEN TRUE ELSE e.made /\ WriteOK(ast.base, ast.sets, e.w))
                               /\ ast' = ApiStep(ast, [m |-> "writeTo"], None)
      \* a write that cannot succeed reports nothing and leaves the object's own file alone
      [] e.op = "a.writeBad" -> ast.open /\ e.exists = ast.exists /\ (ast.exists => e.w = ast.disk) /\ ast' = ApiStep(ast, [m |-> "writeBad"], None)
      [] e.op = "a.close" -> /\ ast.open
                             /\ (IF ast.sw THEN WroteOK(ast, e.w, e.exists) ELSE e.exists = ast.exists /\ (ast.exists => e.w = ast.disk))
                             /\ ast' = ApiStep(ast, [m |-> "close"], D(e))
      [] e.op = "a.obs"   -> ast.open /\ ObsOK(e, ast) /\ ast' = ast
      [] OTHER -> FALSE

TStep ==
  /\ l <= Len(T)
  /\ l' = l + 1
  /\ UNCHANGED <<itext, istyle, isets, crows, ccols, ibom, copt, ahist>>
  /\ LET e == T[l] IN
     IF e.op \in {"a.new", "a.open", "a.set", "a.get", "a.cur", "a.asize", "a.aget", "a.write", "a.writeTo", "a.writeBad", "a.close", "a.obs"}
     THEN TApi(e)
     ELSE /\ ast' = ast
          /\ \/ e.op = "reset"
             \/ e.op = "ini" /\ IniEventOK(e)
             \/ e.op = "csv" /\ CsvEventOK(e)
             \/ e.op = "csvw" /\ CsvWEventOK(e)
             \/ e.op = "csvr" /\ CsvREventOK(e)

TraceSpec == TInit /\ [][TStep]_tvars
TraceAccepted == TLCGet("stats").diameter - 1 = Len(T)
===============================================================================
