-------------------------------- MODULE XdlSM --------------------------------
(* C06 - implementation-shaped model of asl::XdlParser (src/Xdl.cpp, parse/value/decode): the 21 parser states,
   the context stack (ROOT/ARRAY/OBJECT and the four comment contexts), the stack of open containers, the stack of
   pending property names, the token buffer, the one-character push-back and the \u accumulator, transcribed
   statement by statement as a pure step function  Step(s, c)  on byte codes.

     Run(s, chunk)   = XdlParser::parse(chunk)          Result(s) = XdlParser::value()
     Decode(text)    = XdlParser::decode(text) = parse(text); parse(Flush); value()      Flush = "\n" (pinned tree: " ")

   Values are the tagged records of JsonText (numbers stay tokens: the buffer handed to atof/myatoiz).
   The record field  bad  is a ghost: it is set when the design would read or pop an empty Stack (Stack::top()/pop()
   have no emptiness check - that would be a memory error in the implementation).  NoUnderflow is checked as an
   invariant by the exploring modules.

   This module is the *design* of the implementation, not the oracle: the oracle stays JsonText!Doc / the generators.
   XdlSMRefine checks that the design refines them on every generator state; XdlSMExplore walks the design's own
   state graph to produce inputs that reach every transition of the real state machine.                      *)
EXTENDS JsonText

CONSTANT QKeySlashIsComment   \* TRUE = the pinned tree: a '/' inside a quoted property name starts a comment (defect
                              \* SlashInQuotedKey, C05/C06); FALSE = the repaired design (fixes/C06-slash-in-quoted-key.diff)

CtxComment == {"COMMENT1", "COMMENT", "LINECOMMENT", "ENDCOMMENT"}

SMInit == [st |-> "WAIT_VALUE", prev |-> "WAIT_VALUE", ctx |-> <<"ROOT">>,
           lists |-> << [k |-> "a", items |-> <<>>] >>, props |-> <<>>, buf |-> <<>>,
           inC |-> FALSE, uc |-> 0, uni |-> <<0, 0, 0, 0>>, wch |-> 0, bad |-> FALSE]

IsSpace(c) == c \in {32, 10, 13, 9}
IsDigit(c) == c \in 48..57
IsAlnum(c) == c \in 65..90 \/ c \in 97..122 \/ c \in 48..57

TopOf(q) == q[Len(q)]
PopSeq(q) == SubSeq(q, 1, Len(q) - 1)

\* ---- Stack<Context> ----
CtxTop(s) == IF s.ctx = <<>> THEN "NONE" ELSE TopOf(s.ctx)
CtxPush(s, x) == [s EXCEPT !.ctx = Append(@, x)]
CtxPop(s) == IF s.ctx = <<>> THEN [s EXCEPT !.bad = TRUE] ELSE [s EXCEPT !.ctx = PopSeq(@)]

\* ---- put(): attach a finished value to the innermost open container ----
SetKey(items, key, x) ==
    IF \E i \in 1..Len(items) : items[i][1] = key
    THEN [i \in 1..Len(items) |-> IF items[i][1] = key THEN <<key, x>> ELSE items[i]]
    ELSE Append(items, <<key, x>>)
Put(s, x) ==
    IF s.lists = <<>> THEN [s EXCEPT !.bad = TRUE]
    ELSE LET top == TopOf(s.lists) IN
         IF top.k = "a" THEN [s EXCEPT !.lists[Len(s.lists)].items = Append(@, x)]
         ELSE IF s.props = <<>> THEN [s EXCEPT !.bad = TRUE]
         ELSE [s EXCEPT !.lists[Len(s.lists)].items = SetKey(@, TopOf(s.props), x), !.props = PopSeq(@)]

\* value_end(): next state depends on the context that is on top *now*
ValueEnd(s) == [s EXCEPT !.st = IF CtxTop(s) = "ROOT" THEN "WAIT_VALUE" ELSE "WAIT_SEP", !.buf = <<>>]

NewNumber(s) == Put(s, [n |-> s.buf])
NewString(s) == Put(s, [s |-> s.buf])
BeginArray(s) == [s EXCEPT !.lists = Append(@, [k |-> "a", items |-> <<>>])]
TypeKey == <<36, 116, 121, 112, 101>>                                       \* $type
BeginObject(s) == [s EXCEPT !.lists = Append(@, [k |-> "o", items |-> IF s.buf = <<>> THEN <<>> ELSE << <<TypeKey, [s |-> s.buf]>> >>])]
EndContainer(s) ==   \* end_array()/end_object(): Var v = _lists.top(); _lists.pop(); put(v)
    IF s.lists = <<>> THEN [s EXCEPT !.bad = TRUE]
    ELSE LET top == TopOf(s.lists)
             v == IF top.k = "a" THEN [a |-> top.items] ELSE [o |-> top.items]
         IN Put([s EXCEPT !.lists = PopSeq(@)], v)
Err(s) == [s EXCEPT !.st = "ERR"]
AddBuf(s, c) == [s EXCEPT !.buf = Append(@, c)]

\* closing a container from WAIT_VALUE / WAIT_SEP / WAIT_PROPERTY:  _context.pop(); value_end(); end_xxx();
CloseContainer(s) == EndContainer(ValueEnd(CtxPop(s)))

\* \uXXXX: strtoul on the four collected characters (hexadecimal prefix), then UTF-16 -> UTF-8
HexPrefixVal(u) ==
    LET h(i) == Hex(u[i]) IN
    IF h(1) < 0 THEN 0 ELSE IF h(2) < 0 THEN h(1) ELSE IF h(3) < 0 THEN 16 * h(1) + h(2)
    ELSE IF h(4) < 0 THEN 256 * h(1) + 16 * h(2) + h(3) ELSE 4096 * h(1) + 256 * h(2) + 16 * h(3) + h(4)
Utf16ToUtf8One(w) == IF w = 0 THEN <<>> ELSE Utf8Enc(w)          \* a lone surrogate comes out as a 3-byte sequence
Utf16ToUtf8Pair(hi, lo) ==
    IF lo \in 56320..57343 THEN Utf8Enc(65536 + (hi - 55296) * 1024 + (lo - 56320))
    ELSE Utf16ToUtf8One(hi) \o Utf16ToUtf8One(lo)                  \* not a pair (outside the property)

RECURSIVE Step(_, _), Dispatch(_, _)

\* ---- the switch(_state) part; ctx is re-read because push-back re-enters at the top of the loop ----
Dispatch(s, c) ==
  LET ctx == CtxTop(s)
      st == s.st
      \* the WAIT_VALUE body (shared with WAIT_COMMA_OR_VALUE by fall-through; the state is only changed explicitly)
      WaitValue ==
        IF IsDigit(c) THEN AddBuf([s EXCEPT !.st = "INT"], c)
        ELSE IF c = 45 THEN AddBuf([s EXCEPT !.st = "MINUS"], c)
        ELSE IF c = 34 THEN [s EXCEPT !.st = "STRING"]
        ELSE IF c = 91 THEN CtxPush(BeginArray(s), "ARRAY")
        ELSE IF c = 123 THEN [CtxPush(BeginObject(s), "OBJECT") EXCEPT !.st = "WAIT_PROPERTY", !.buf = <<>>]
        ELSE IF c = 125 /\ ctx = "OBJECT" THEN CloseContainer(s)
        ELSE IF IsAlnum(c) \/ c = 95 \/ c = 36 THEN AddBuf([s EXCEPT !.st = "IDENTIFIER"], c)
        ELSE IF c = 93 /\ ctx = "ARRAY" THEN CloseContainer(s)
        ELSE IF ~IsSpace(c) THEN Err(s)
        ELSE s
      WaitProperty ==
        IF IsAlnum(c) \/ c = 95 \/ c = 36 THEN AddBuf([s EXCEPT !.st = "PROPERTY"], c)
        ELSE IF c = 34 THEN [s EXCEPT !.st = "QPROPERTY"]
        ELSE IF c = 125 THEN CloseContainer(s)
        ELSE IF ~IsSpace(c) THEN Err(s)
        ELSE s
      NumberDone == Step(ValueEnd(NewNumber(s)), c)                       \* new_number(); value_end(); s--;
  IN
  IF st = "MINUS" THEN (IF IsDigit(c) THEN AddBuf([s EXCEPT !.st = "INT"], c) ELSE Err(s))
  ELSE IF st = "INT" THEN
     IF IsDigit(c) THEN AddBuf(s, c)
     ELSE IF c = 46 THEN AddBuf([s EXCEPT !.st = "NUMBER_DOT"], c)
     ELSE IF c \in {101, 69} THEN AddBuf([s EXCEPT !.st = "NUMBER_E"], c)
     ELSE IF s.buf # <<45>> THEN
        LET b == s.buf
            lead0 == IF b[1] = 45 THEN (Len(b) >= 3 /\ b[2] = 48) ELSE (Len(b) >= 2 /\ b[1] = 48)
        IN IF lead0 THEN Err(s) ELSE NumberDone
     ELSE Err(s)
  ELSE IF st = "NUMBER_DOT" THEN (IF IsDigit(c) THEN AddBuf([s EXCEPT !.st = "NUMBER"], c) ELSE Err(s))
  ELSE IF st = "NUMBER_E" THEN
     IF c \in {45, 43} THEN AddBuf([s EXCEPT !.st = "NUMBER_ES"], c)
     ELSE IF IsDigit(c) THEN AddBuf([s EXCEPT !.st = "NUMBER_EV"], c)
     ELSE Err(s)
  ELSE IF st = "NUMBER_ES" THEN (IF IsDigit(c) THEN AddBuf([s EXCEPT !.st = "NUMBER_EV"], c) ELSE Err(s))
  ELSE IF st = "NUMBER_EV" THEN
     IF IsDigit(c) THEN AddBuf(s, c)
     ELSE IF c = 44 \/ IsSpace(c) \/ c = 93 \/ c = 125 THEN NumberDone
     ELSE Err(s)
  ELSE IF st = "NUMBER" THEN
     IF IsDigit(c) THEN AddBuf(s, c)
     ELSE IF c \in {101, 69} THEN AddBuf([s EXCEPT !.st = "NUMBER_E"], c)
     ELSE IF c = 44 \/ IsSpace(c) \/ c = 93 \/ c = 125 THEN NumberDone
     ELSE Err(s)
  ELSE IF st = "STRING" THEN
     IF c = 92 THEN [s EXCEPT !.st = "ESCAPE", !.prev = "STRING"]
     ELSE IF c = 34 THEN ValueEnd(NewString(s))
     ELSE IF c < 32 THEN Err(s)                                           \* unsigned(c) < ' '
     ELSE AddBuf(s, c)
  ELSE IF st = "PROPERTY" THEN
     IF c = 61 \/ IsSpace(c)
     THEN Step([s EXCEPT !.props = Append(@, s.buf), !.st = "WAIT_EQUAL", !.buf = <<>>], c)      \* s--
     ELSE AddBuf(s, c)
  ELSE IF st = "QPROPERTY" THEN
     IF c = 92 THEN [s EXCEPT !.st = "ESCAPE", !.prev = "QPROPERTY"]
     ELSE IF c # 34 THEN AddBuf(s, c)
     ELSE [s EXCEPT !.props = Append(@, s.buf), !.st = "WAIT_EQUAL", !.buf = <<>>]
  ELSE IF st = "WAIT_COMMA_OR_VALUE" THEN (IF c = 44 THEN [s EXCEPT !.st = "WAIT_VALUE"] ELSE WaitValue)
  ELSE IF st = "WAIT_VALUE" THEN WaitValue
  ELSE IF st = "WAIT_SEP" THEN
     IF c = 44 THEN [s EXCEPT !.st = IF ctx = "OBJECT" THEN "WAIT_PROPERTY" ELSE "WAIT_VALUE"]
     ELSE IF c = 10 THEN [s EXCEPT !.st = IF ctx = "OBJECT" THEN "WAIT_COMMA_OR_PROPERTY" ELSE "WAIT_COMMA_OR_VALUE"]
     ELSE IF c = 125 /\ ctx = "OBJECT" THEN CloseContainer(s)
     ELSE IF c = 93 /\ ctx = "ARRAY" THEN CloseContainer(s)
     ELSE IF ~IsSpace(c) THEN Err(s)
     ELSE s
  ELSE IF st = "WAIT_OBJ" THEN
     IF c = 123 THEN [CtxPush(BeginObject(s), "OBJECT") EXCEPT !.st = "WAIT_PROPERTY", !.buf = <<>>]
     ELSE IF ~IsSpace(c) THEN Err(s)
     ELSE s
  ELSE IF st = "WAIT_COMMA_OR_PROPERTY" THEN (IF c = 44 THEN [s EXCEPT !.st = "WAIT_PROPERTY"] ELSE WaitProperty)
  ELSE IF st = "WAIT_PROPERTY" THEN WaitProperty
  ELSE IF st = "ESCAPE" THEN
     IF c = 92 THEN AddBuf([s EXCEPT !.st = s.prev], 92)
     ELSE IF c = 34 THEN AddBuf([s EXCEPT !.st = s.prev], 34)
     ELSE IF c = 110 THEN AddBuf([s EXCEPT !.st = s.prev], 10)
     ELSE IF c = 47 THEN AddBuf([s EXCEPT !.st = s.prev], 47)
     ELSE IF c = 114 THEN AddBuf([s EXCEPT !.st = s.prev], 13)
     ELSE IF c = 116 THEN AddBuf([s EXCEPT !.st = s.prev], 9)
     ELSE IF c = 102 THEN AddBuf([s EXCEPT !.st = s.prev], 12)
     ELSE IF c = 98 THEN AddBuf([s EXCEPT !.st = s.prev], 8)
     ELSE IF c = 117 THEN [s EXCEPT !.st = "UNICODECHAR"]
     ELSE Err(s)
  ELSE IF st = "IDENTIFIER" THEN
     IF ~IsAlnum(c) /\ c # 95 /\ c # 46 THEN
        LET id == s.buf IN
        IF id \in {<<89>>, <<78>>, <<102,97,108,115,101>>, <<116,114,117,101>>}
        THEN Step(ValueEnd(Put(s, [b |-> id \in {<<116,114,117,101>>, <<89>>}])), c)
        ELSE IF id = <<110,117,108,108>> THEN Step(ValueEnd(Put(s, [z |-> 0])), c)
        ELSE Step([s EXCEPT !.st = "WAIT_OBJ"], c)
     ELSE AddBuf(s, c)
  ELSE IF st = "WAIT_EQUAL" THEN
     IF c = 58 \/ c = 61 THEN [s EXCEPT !.st = "WAIT_VALUE"]
     ELSE IF ~IsSpace(c) THEN Err(s)
     ELSE s
  ELSE IF st = "UNICODECHAR" THEN
     LET u2 == [s.uni EXCEPT ![(s.uc % 4) + 1] = c]
         n == s.uc + 1
         s1 == [s EXCEPT !.uni = u2, !.uc = n]
     IN IF n = 8 THEN [s1 EXCEPT !.buf = @ \o Utf16ToUtf8Pair(s.wch, HexPrefixVal(u2)), !.uc = 0, !.st = s.prev]
        ELSE IF n = 4 THEN
           LET w == HexPrefixVal(u2) IN
           IF w < 55296 \/ w >= 56320 THEN [s1 EXCEPT !.buf = @ \o Utf16ToUtf8One(w), !.uc = 0, !.st = s.prev]
           ELSE [s1 EXCEPT !.wch = w, !.st = s.prev]
        ELSE s1
  ELSE s   \* ERR

\* ---- one iteration of  while(char c = *s++)  ----
Step(s, c) ==
  IF s.st = "ERR" THEN s
  ELSE IF ~s.inC THEN
     IF c = 47 /\ s.st # "STRING" /\ s.st # "ESCAPE" /\ (QKeySlashIsComment \/ s.st # "QPROPERTY")
     THEN CtxPush([s EXCEPT !.inC = TRUE], "COMMENT1")
     ELSE Dispatch(s, c)
  ELSE
     LET ctx == CtxTop(s)
         \* after the switch(ctx): re-read the context and either stay in the comment or fall into the state switch
         After(s2) == IF CtxTop(s2) \in CtxComment THEN [s2 EXCEPT !.inC = TRUE] ELSE Dispatch([s2 EXCEPT !.inC = FALSE], c)
     IN IF ctx = "COMMENT1" THEN
           LET p == CtxPop(s) IN
           After(IF c = 47 THEN CtxPush(p, "LINECOMMENT") ELSE IF c = 42 THEN CtxPush(p, "COMMENT") ELSE Err(p))
        ELSE IF ctx = "LINECOMMENT" THEN After(IF c \in {10, 13} THEN CtxPop([s EXCEPT !.inC = FALSE]) ELSE s)
        ELSE IF ctx = "COMMENT" THEN After(IF c = 42 THEN CtxPush(s, "ENDCOMMENT") ELSE s)
        ELSE IF ctx = "ENDCOMMENT" THEN
           LET p == CtxPop(s) IN
           IF c = 47 THEN CtxPop([p EXCEPT !.inC = FALSE]) ELSE After(p)
        ELSE IF c = 47 /\ s.st # "STRING" THEN CtxPush([s EXCEPT !.inC = TRUE], "COMMENT1")
        ELSE s

RECURSIVE RunFrom(_, _, _)
RunFrom(s, t, i) == IF i > Len(t) THEN s ELSE RunFrom(Step(s, t[i]), t, i + 1)
Run(s, chunk) == RunFrom(s, chunk, 1)

Result(s) ==   \* XdlParser::value()
    IF s.st = "ERR" THEN [ok |-> FALSE, v |-> [z |-> 0]]
    ELSE LET l == s.lists[1].items IN
         IF CtxTop(s) = "ROOT" /\ s.st = "WAIT_VALUE" /\ Len(l) > 0 THEN [ok |-> TRUE, v |-> l[Len(l)]]
         ELSE [ok |-> FALSE, v |-> [z |-> 0]]
\* the end of the text: decode() and Xdl::read() finish with parse(Flush).  The repaired tree flushes with a line feed, which
\* ends a pending token *and* a line comment that runs to the end of the text; the pinned tree flushed with a blank, so
\* that  [1] // done  (no final newline) had no value (defect TrailingLineComment, fixes/C06-trailing-line-comment.diff)
Flush == <<10>>
FlushPinned == <<32>>
Decode(text) == Result(Run(Run(SMInit, text), Flush))

\* ---- the object API beyond one decode (XdlParserApi explores it) ----
\* XdlParser::decode(text) on an object that may have been used before: parse(text); parse(" "); the caller reads value()
DecodeOn(s, text) == Run(Run(s, text), Flush)
\* XdlParser::reset(): the repaired design re-initializes every member the constructor sets ...
ResetFull(s) == SMInit
\* ... the pinned tree only the context stack, the state and the token buffer: open containers, pending property names,
\* the comment flag and the \u accumulator of the abandoned text stay behind (defect ResetKeepsState, fixes/C06-reset-keeps-state.diff)
ResetPinned(s) == [s EXCEPT !.ctx = <<"ROOT">>, !.st = "WAIT_VALUE", !.buf = <<>>]

\* the design never touches an empty stack
NoUnderflowS(s) == ~s.bad /\ s.ctx # <<>> /\ s.lists # <<>>
===============================================================================
