SPECIFICATION Spec
CONSTANTS
 Type = "smart"
 NT = 3
 NO = 2
 NS = 3
 NB = 2
 Shape = "flat"
 Ext = {}
 MaxOps = 1
VIEW View
ACTION_CONSTRAINT Emit
INVARIANTS NoUseAfterFree AliveWhileHandles DestroyedOnce CountsMatch ReleasedWithLastHandle NoHalfDestroyed SubtreeAlive
CHECK_DEADLOCK FALSE
