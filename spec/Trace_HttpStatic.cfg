SPECIFICATION TraceSpec
CONSTANTS
 ReqSet = {}
 ImsFiles = {}
 Deltas = {}
 Mutable <- AllFiles
 Slack = 0
 Dts = {1, 2, 3, 5, 60}
 MaxOps = 100000
POSTCONDITION TraceAccepted
CHECK_DEADLOCK FALSE
