SPECIFICATION Spec
CONSTANTS
 NH = 2
 K = {2,3,4,5}
 V = {1}
 MaxOps = 6
 KeepHist = TRUE
 MapOps = FALSE
 SetOps = FALSE
VIEW View
ACTION_CONSTRAINT Emit
INVARIANTS TypeOK NoOrphan SomeLive SetValues
PROPERTIES LastCallOK Independence CloneFresh
CHECK_DEADLOCK FALSE
