SPECIFICATION LRSpec
CONSTANTS
 Chunks = {2, 3, 4, 5}
 Alphabet = {97, 13, 10}
 MaxText = 9
 BinChunks = {}
 TextChunks = {}
 ReadSizes = {}
 ShapeRuns = {}
 ShapeSegs = 0
 EncScalars = {}
 EncMaxLen = 0
 MaxLen = 0
 MaxOps = 0
 TmpPaths = {}
 QueryKinds = {}
 KeepHist = FALSE
INVARIANTS LinesRefined ReturnsOK Consumed
CHECK_DEADLOCK FALSE
