SPECIFICATION Spec
CONSTANTS
 ByteAlpha = {0, 1, 32, 37, 43, 65, 126, 128, 251, 255}
 MaxBytes = 5
 RandMax = 1024
 Stride = 8
 ShaMax = 400
 B64Alpha = {65, 47, 61, 32, 33}
 MaxB64 = 8
 HexAlpha = {48, 57, 97, 70, 103, 32}
 MaxHex = 7
 HexChainMax = 300
 PctAlpha = {37, 52, 49, 103, 97, 43}
 MaxPct = 7
 QAlpha = {97, 61, 38, 43, 37, 50, 98}
 MaxQ = 6
 DKeys <- KeysLarge
 DVals <- ValsLarge
 MaxPairs = 3
ACTION_CONSTRAINT Emit
INVARIANTS TypeOK B64Shape B64TwoFormulations B64RoundTrip B64WsTolerant B64TextAgree HexRoundTrip HexTextOK
           PctRoundTrip PctTextOK QueryRoundTrip QueryTextOK ShaPadding ShaTwoFormulations
CHECK_DEADLOCK FALSE
