SPECIFICATION Spec
CONSTANTS
 YLo = 2024
 YHi = 2025
 ChunkYears = 2
 Extra = {1, 1969, 1970, 2000, 2037, 2038, 2100, 9999}
 RuleSet = {1, 2, 3, 4, 5, 6, 7, 8}
VIEW View
ACTION_CONSTRAINT Emit
INVARIANTS CalendarAgree DstAgree ChangeAgree OffsetSteps GapAndOverlap LocalBijection LocalTextReadsBack
CHECK_DEADLOCK FALSE
