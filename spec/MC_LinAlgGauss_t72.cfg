SPECIFICATION Spec
CONSTANTS
 P = 7
 N = 2
 NRhs = 0
INVARIANTS Solves AgreesAdjugate FormulationsAgree RowEquivalent PermOK PivotExists Triangular
CHECK_DEADLOCK FALSE
