SPECIFICATION Spec
CONSTANTS
 MaxDepth = 2
 MaxItems = 2
 MaxLen = 9
 MaxVar = 1
 MaxStr = 1
 Linear = FALSE
 Stride = 1
 QKeySlashIsComment = TRUE
INVARIANTS TypeOK GenRecAgree PrefixRejected SMAgree
CHECK_DEADLOCK FALSE
