SPECIFICATION Spec
CONSTANTS
 PairHi = 2100
INVARIANTS TableOK PairsOK BeyondOK
ACTION_CONSTRAINT Emit
CHECK_DEADLOCK FALSE
