---------------------------- MODULE XdlSMRefineXdl ----------------------------
(* C06 - the design of asl::XdlParser (XdlSM) against the XDL dialect generator JsonTextXdl: every generated
   document is accepted with the generated value, every prefix that ends inside a container is rejected, no stack
   underflow, chunk boundaries invisible.  (Counterpart of XdlSMRefine for the XDL extensions.)               *)
EXTENDS JsonTextXdl, XdlSM

CONSTANT PinnedFlush     \* TRUE: decode() ends with parse(" ") as in the pinned tree - refuted by TLC with a document that ends in
                         \* a line comment without newline (MC_XdlSMRefineXdl_defect.cfg, expected violation of SMAll)

RECURSIVE SameVal(_, _)
\* the machine stores members by name (assignment), the generator lists them in text order: compare as maps
SameVal(a, b) ==
    IF Kind(a) # Kind(b) THEN FALSE
    ELSE IF Kind(a) = "a" THEN Len(a.a) = Len(b.a) /\ \A i \in 1..Len(a.a) : SameVal(a.a[i], b.a[i])
    ELSE IF Kind(a) = "o" THEN /\ Len(a.o) = Len(b.o)
                               /\ \A i \in 1..Len(a.o) : \E j \in 1..Len(b.o) : a.o[i][1] = b.o[j][1] /\ SameVal(a.o[i][2], b.o[j][2])
    ELSE a = b
SMAgree == done => LET r == Decode(text) IN r.ok /\ SameVal(r.v, val)
SMPrefix == (~done /\ Inside) => ~Decode(text).ok
SMNoUnderflow == NoUnderflowS(Run(Run(SMInit, text), Flush))
SMChunks == \A k \in 0..Len(text) :
               Run(Run(SMInit, SubSeq(text, 1, k)), SubSeq(text, k + 1, Len(text))) = Run(SMInit, text)

\* the four invariants in one evaluation (the machine is run once per prefix): this is what the configurations check
RECURSIVE PrefixStates(_, _, _)
PrefixStates(s, t, i) == IF i > Len(t) THEN <<s>> ELSE <<s>> \o PrefixStates(Step(s, t[i]), t, i + 1)
SMAll == LET ps == PrefixStates(SMInit, text, 1)                    \* ps[k+1] = state after the first k bytes
             full == ps[Len(text) + 1]
             endst == Run(full, IF PinnedFlush THEN FlushPinned ELSE Flush)
             r == Result(endst)
         IN /\ NoUnderflowS(endst)
            /\ done => (r.ok /\ SameVal(r.v, val))
            /\ (~done /\ Inside) => ~r.ok
            /\ \A k \in 0..Len(text) : RunFrom(ps[k + 1], text, k + 1) = full
===============================================================================
