---------------------------- MODULE Trace_CmdArgs ----------------------------
(* V binding for CmdArgs (C18 growth).  harness/c18_cmdargs_record logs sessions on real asl::CmdArgs objects:
     {"op":"new","self":0|1,"toks":[bytes],"flags":[bytes],"vopts":[bytes],"all":[bytes],"rest":[bytes],"len":n,
      "idx":[bytes] operator[](0..len-1),"past":bytes of operator[](len),"opts":[{name,val,multi}],"unt":[bytes]}
     {"op":"q","kind":"has|get|dflt|multi|is","x":bytes,"r":{"b":"t|f"} | {"s":bytes} | {"l":[bytes]},"unt":[bytes]}
   ("self":1 = the object was built by CmdArgs(spec) from the arguments of a re-executed process.)
   A "new" event is the Build action on the logged command line, a "q" event the Query action: TLC evaluates the
   specification's parser on the logged tokens and compares every answer; untested() is the state variable unused.
   Command lines the documentation does not define (Unspec) are accepted as they are: built stays FALSE and the
   queries that follow are not compared.                                                                          *)
EXTENDS CmdArgs, IOUtils

T == ndJsonDeserialize(IOEnv.TRACE)
VARIABLE l
tvars == <<vars, l>>
NoProbes == <<>>
NoSpecs == {}
NoTokens == {}

TInit == /\ l = 1 /\ toks = <<>> /\ sp = [flags |-> {}, vopts |-> {}] /\ built = FALSE /\ unused = <<>> /\ qs = <<>>

NewOK(e, ts, s) ==
    LET p == Parse(ts, s)
        os == p.opts IN
    /\ e.all = ts
    /\ e.rest = p.rest
    /\ e.len = Len(p.rest)
    /\ e.idx = p.rest
    /\ e.past = <<>>
    /\ {[name |-> e.opts[i].name, val |-> e.opts[i].val, multi |-> e.opts[i].multi] : i \in 1..Len(e.opts)}
         = {[name |-> x, val |-> Val(os, x, <<>>), multi |-> Multi(os, x)] : x \in Names(os)}
    /\ Len(e.opts) = Cardinality(Names(os))
    /\ e.unt = FirstNames(os)

TNew(e) == LET ts == e.toks
               s == [flags |-> ToSet(e.flags), vopts |-> ToSet(e.vopts)] IN
           /\ toks' = ts /\ sp' = s
           /\ built' = ~Unspec(ts, s)
           /\ unused' = e.unt
           /\ (IF Unspec(ts, s) THEN TRUE ELSE NewOK(e, ts, s))
           /\ UNCHANGED qs

AnswerOK(e, os) == LET a == Answer(os, e.kind, e.x) IN
                   CASE e.kind \in {"has", "is"} -> (a.b = "u" \/ e.r.b = a.b)
                     [] e.kind \in {"get", "dflt"} -> e.r.s = a.s
                     [] OTHER -> e.r.l = a.l
TQuery(e) == /\ unused' = (IF built THEN Without(unused, e.x) ELSE e.unt)
             /\ (IF built THEN e.unt = unused' /\ AnswerOK(e, Parse(toks, sp).opts) ELSE TRUE)
             /\ UNCHANGED <<toks, sp, built, qs>>

TStep == /\ l <= Len(T)
         /\ l' = l + 1
         /\ LET e == T[l] IN
            \/ e.op = "new" /\ TNew(e)
            \/ e.op = "q" /\ TQuery(e)

TraceSpec == TInit /\ [][TStep]_tvars
TraceAccepted == TLCGet("stats").diameter - 1 = Len(T)
===============================================================================
