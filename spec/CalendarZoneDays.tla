--------------------------- MODULE CalendarZoneDays ----------------------------
(* C19 (growth) - local time with daylight saving as a state machine.  For each zone rule of CalendarZone.tla the
   machine walks the LOCAL STANDARD calendar day by day (the successor rule of CalendarDays) and keeps
       occ : how often each week day has occurred in the current month (counted, not computed),
       dst : whether daylight time was in force in the last microsecond before this local day began.
   A day is a "start day" / "end day" when the counting says it is the sw-th (last) such week day of the month; dst
   is toggled when such a day is left.  Invariants: the counted change days and the toggled flag agree with the
   closed forms NthWeekday / StartUTC / EndUTC / IsDst of CalendarZone.tla on every day; on the change days the hour
   that the local clock skips / repeats is where the set-based InstantsOfNaive says it is (GapAndOverlap), and every
   instant is one of the instants denoted by its own local time (LocalBijection).

   R (ACTION_CONSTRAINT Emit), replayed by harness/c19_zone_replay.cpp with TZ = TzString(rule):
     {"k":"zmonth", tz, rows: [[dn, sod, alts, acc] ...]}   one instant per day (a quarter of an hour that varies):
            alts = the (offset, local fields) pairs Date::localOffset()/split() may report (one, or two outside the
            time_t range close to a change), acc = the instants Date(LOCAL, fields) may give back
     {"k":"zchange", tz, ins: [...], loc: [...]}            on a change day: instants every 15 minutes (and the seconds
            next to the change) two hours either side of the change with offset, fields, the five local texts and
            what reading the LONG/SHORT/FULL text back (no zone designator: a local time) may give; and naive local times across the skipped / repeated hour
            with the instants they denote                                                                         *)
EXTENDS CalendarZone, TLC, Json

CONSTANTS YLo, YHi, ChunkYears,
          Extra,        \* further single years (each its own chain)
          RuleSet       \* indices into Rules

VARIABLES r, dn, y, m, d, wd, occ, dst, rows
vars == <<r, dn, y, m, d, wd, occ, dst, rows>>

R == Rules[r]
Years == (YLo..YHi) \cup Extra
ChunkStarts == {yy \in YLo..YHi : (yy - YLo) % ChunkYears = 0} \cup Extra
Unit(w) == [k \in 1..7 |-> IF k = w + 1 THEN 1 ELSE 0]
\* the UTC instant at which local standard day n begins
DayStart(rr, n) == AddSeconds(Inst(n, 0, 0), -60 * rr.std)

\* the instant of the day that is looked at on ordinary days: some quarter of an hour
Sample(rr, n) == AddSeconds(Inst(n, 0, 0), 900 * ((n * 37 + rr.std) % 96))
Seq2(i) == <<i.dn, i.sod>>
Seq3(i) == <<i.dn, i.sod, i.us>>
FSeq(f) == <<f.y, f.m, f.d, f.h, f.mi, f.s, f.wd>>
SetToSeq(S) == IF S = {} THEN <<>> ELSE LET a == CHOOSE x \in S : \A z \in S : ~Before(z, x) IN
                                        IF S = {a} THEN <<Seq3(a)>> ELSE <<Seq3(a), Seq3(CHOOSE x \in S : x # a)>>
AltsOf(rr, i) == LET O == AllowedOffsets(rr, i)  lo == CHOOSE o \in O : \A p \in O : o <= p IN
                 [k \in 1..Cardinality(O) |-> LET o == IF k = 1 THEN lo ELSE CHOOSE p \in O : p # lo IN <<o>> \o FSeq(Fields(AddSeconds(i, o)))]
\* Date(LOCAL, local fields of i): vouched for when the offset is (a single alternative)
RowOf(rr, i) == <<i.dn, i.sod, AltsOf(rr, i),
                  IF Cardinality(AllowedOffsets(rr, i)) = 1 THEN SetToSeq(AllowedOfNaive(rr, LocalNaive(rr, i))) ELSE <<>> >>

Init == /\ r \in RuleSet /\ y \in ChunkStarts /\ m = 1 /\ d = 1
        /\ dn = DaysFromCivil(y, 1, 1)
        /\ wd = Weekday(dn)
        /\ occ = Unit(wd)
        /\ dst = IsDst(R, AddMicros(DayStart(R, dn), -1))
        /\ rows = <<RowOf(R, Sample(R, dn))>>

\* counted: today is the day the rule names
IsNth(w, wday) == wd = wday /\ (IF w < 5 THEN occ[wd + 1] = w ELSE d + 7 > DaysInMonth(y, m))
IsStartDay == R.hasDst /\ m = R.sm /\ IsNth(R.sw, R.swd)
IsEndDay == R.hasDst /\ m = R.em /\ IsNth(R.ew, R.ewd)

NextDay ==
    /\ rows # <<>>
    /\ r' = r
    /\ dn' = dn + 1
    /\ wd' = (wd + 1) % 7
    /\ IF d < DaysInMonth(y, m) THEN d' = d + 1 /\ m' = m /\ y' = y
       ELSE IF m < 12 THEN d' = 1 /\ m' = m + 1 /\ y' = y
       ELSE d' = 1 /\ m' = 1 /\ y' = y + 1
    /\ occ' = IF d' = 1 THEN Unit(wd') ELSE [occ EXCEPT ![wd' + 1] = @ + 1]
    /\ dst' = IF IsStartDay THEN TRUE ELSE IF IsEndDay THEN FALSE ELSE dst
    /\ rows' = IF d' = 1 /\ m' = 1 /\ (y' \in ChunkStarts \/ y' \notin Years) THEN <<>>
               ELSE IF d' = 1 THEN <<RowOf(R, Sample(R, dn'))>> ELSE Append(rows, RowOf(R, Sample(R, dn')))

Spec == Init /\ [][NextDay]_vars

-------------------------------------------------------------------------------
\* the change of today as a UTC instant (counted day + the rule's clock time)
StartToday == AddSeconds(Inst(dn, 0, 0), R.st - 60 * R.std)
EndToday == AddSeconds(Inst(dn, 0, 0), R.et - 60 * R.dst)
ChangeToday == IF IsStartDay THEN StartToday ELSE EndToday

CalendarAgree == dn = DaysFromCivil(y, m, d) /\ wd = Weekday(dn) /\ occ[wd + 1] = (d - 1) \div 7 + 1
DstAgree == dst = IsDst(R, AddMicros(DayStart(R, dn), -1))
ChangeAgree == /\ IsStartDay <=> (R.hasDst /\ m = R.sm /\ d = NthWeekday(y, m, R.sw, R.swd))
               /\ IsEndDay <=> (R.hasDst /\ m = R.em /\ d = NthWeekday(y, m, R.ew, R.ewd))
               /\ IsStartDay => StartToday = StartUTC(R, y)
               /\ IsEndDay => EndToday = EndUTC(R, y)
\* the offset changes at the change instant and nowhere else on this day
OffsetSteps == (IsStartDay \/ IsEndDay) =>
                  LET T == ChangeToday IN
                  /\ OffsetAt(R, AddMicros(T, -1)) = 60 * (IF IsStartDay THEN R.std ELSE R.dst)
                  /\ OffsetAt(R, T) = 60 * (IF IsStartDay THEN R.dst ELSE R.std)
\* naive local times around the change: k quarters of an hour after the local standard time of the change
NaiveAt(k) == AddSeconds(ChangeToday, 60 * R.std + 900 * k)
GapAndOverlap == (IsStartDay \/ IsEndDay) => \A k \in -8..12 :
                    LET L == NaiveAt(k)  inHour == k >= 0 /\ 15 * k < R.dst - R.std IN
                    NaiveKind(R, L) = IF ~inHour THEN "unique" ELSE IF IsStartDay THEN "skipped" ELSE "repeated"
WindowInstants == {AddSeconds(ChangeToday, 900 * k) : k \in -8..8} \cup {AddSeconds(ChangeToday, -1), AddSeconds(ChangeToday, 1)}
LocalBijection == /\ LET i == Sample(R, dn) IN i \in InstantsOfNaive(R, LocalNaive(R, i))
                  /\ (IsStartDay \/ IsEndDay) => \A i \in WindowInstants : i \in InstantsOfNaive(R, LocalNaive(R, i))

WindowSeq == [k \in 1..19 |-> IF k <= 17 THEN AddSeconds(ChangeToday, 900 * (k - 9))
                              ELSE IF k = 18 THEN AddSeconds(ChangeToday, -1) ELSE AddSeconds(ChangeToday, 1)]
\* milliseconds shown by FULL: the window instants carry some
WithMs(k, i) == [i EXCEPT !.us = 1000 * ((k * 137) % 1000)]
\* the local texts of an instant, read back as local times, denote that instant (among others in the repeated hour)
LocalTextReadsBack == (IsStartDay \/ IsEndDay) => \A k \in 1..19 :
                          LET i == WithMs(k, WindowSeq[k]) IN
                          /\ i \in ReadLocal(R, FormatLocal(R, "FULL", i))
                          /\ TruncSecond(i) \in ReadLocal(R, FormatLocal(R, "LONG", i))
                          /\ TruncSecond(i) \in ReadLocal(R, FormatLocal(R, "SHORT", i))

-------------------------------------------------------------------------------
View == <<r, dn, y, m, d, wd, occ, dst, rows = <<>> >>

InsOf(i) ==
    IF Cardinality(AllowedOffsets(R, i)) = 1
    THEN [i |-> Seq3(i), alts |-> AltsOf(R, i),
          texts |-> [j \in 1..Len(LocalFormats) |->
                       LET t == FormatLocal(R, LocalFormats[j], i) IN
                       [fmt |-> LocalFormats[j], t |-> t, back |-> IF j <= 3 THEN SetToSeq(ReadLocal(R, t)) ELSE <<>>]],
          dateutc |-> LET S == DateOnlyUTC(i) a == CHOOSE x \in S : Len(x) = 10 IN <<a, CHOOSE x \in S : x # a>>,
          acc |-> SetToSeq(AllowedOfNaive(R, LocalNaive(R, i)))]
    ELSE [i |-> Seq3(i), alts |-> AltsOf(R, i), texts |-> <<>>, dateutc |-> <<>>, acc |-> <<>>]
LocOf(L) == LET f == Fields(L) IN
            [f |-> <<f.y, f.m, f.d, f.h, f.mi, f.s>>, t |-> ExtText(f), kind |-> NaiveKind(R, L), acc |-> SetToSeq(AllowedOfNaive(R, L))]
NaiveSeq == [k \in 1..25 |-> IF k <= 21 THEN NaiveAt(k - 9)
                             ELSE IF k = 22 THEN AddSeconds(NaiveAt(0), -1)
                             ELSE IF k = 23 THEN AddSeconds(NaiveAt(0), 1)
                             ELSE IF k = 24 THEN AddSeconds(NaiveAt(0), 60 * (R.dst - R.std) - 1)
                             ELSE AddSeconds(NaiveAt(0), 60 * (R.dst - R.std))]
Emit == /\ (IsStartDay \/ IsEndDay) =>
               PrintT(ToJson([k |-> "zchange", tz |-> TzString(R), y |-> y, start |-> IF IsStartDay THEN 1 ELSE 0,
                              ins |-> [k \in 1..19 |-> InsOf(WithMs(k, WindowSeq[k]))],
                              loc |-> [k \in 1..25 |-> LocOf(NaiveSeq[k])]]))
        /\ (d' = 1) => PrintT(ToJson([k |-> "zmonth", tz |-> TzString(R), y |-> y, m |-> m, rows |-> rows]))
===============================================================================
