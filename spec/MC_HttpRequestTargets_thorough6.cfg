SPECIFICATION Spec
CONSTANTS
 MaxTok = 8
 TokSet = {1, 2, 3, 5, 6, 7}
ACTION_CONSTRAINT Emit
INVARIANTS NoDotDot TwoFormulations Idempotent SegmentsSafe SplitOK Shrinks
CHECK_DEADLOCK FALSE
