------------------------------ MODULE LinAlgGeom ------------------------------
(* C20 (growth) - the small geometry layer around the matrices of the property, as exact algebra over the prime field
   Z_P (operators of LinAlg.tla): the vector classes Vec2_/Vec3_/Vec4_, Matrix4_ / Matrix3_ used as affine (and
   projective) transforms of 3-D / 2-D space, the quaternion algebra behind Quaternion_ (and Pose_), Complex as the
   ring Z_P[i] (a field when P = 3 mod 4) and the dimension rules / element-wise operations of the dynamic Matrix_.

   The module is a case generator in the style of LinAlgCases.tla: every initial state is the index of one case, the
   action Gen publishes the case with all expected values (printed by ACTION_CONSTRAINT Emit and executed on the real
   templates, instantiated over the harness scalar Zp, by harness/c20_geom_replay.cpp), and the invariants state the
   laws the published values obey - so an expected value is never just "what the formula says", it is tied to the
   algebra (Lagrange identity, triple product = determinant, inverse transform undoes the transform, the quaternion
   product is associative, has a multiplicative norm and maps to the product of the rotation matrices, ...).

   kind "vec" : Vec3 a b c, scalar s, Vec4 a4 b4, Vec2 u w: + - unary- scalar* / dot cross component-wise length2,
                triple product, lexicographic compare / == (operands sharing a prefix), homogeneous -> cartesian
   kind "aff" : affine G = (L | t), G2, a general 4 x 4 M, translate / scale, point p, homogeneous point h:
                products, M * Vec3 (point: translation applied), M % Vec3 (direction: linear part only),
                M ^ Vec3 (projective, division by w), M * Vec4, inverse, transpose, translation / column accessors,
                trace, Frobenius norm squared, sum / difference / scalar multiple; the same for Matrix3 in 2-D
   kind "quat": quaternions q1 q2 q3 (any norm) and the unit quaternions u1 = q1^2/|q1|^2, u2: product, conjugate,
                norm, inverse, dot, sum, scalar multiple, rotation matrix, rotation of a vector, Pose(position, u).matrix()
   kind "cplx": z1 z2 in Z_P[i], scalar s: + - * / conj |z|^2 scalar * and /
   kind "dyn" : Matrix_ A (r x c), B (r2 x c2): product / sum / difference with the dimension rule of the code
                (mismatch: the empty 0 x 0 matrix), A^T, A^T B, trace (0 when not square), rows / columns / slices,
                identity, Frobenius norm squared, scalar multiple, negation

   What the library leaves undocumented is left unconstrained: division by a zero scalar, h2c with w = 0, the inverse
   of a singular matrix, 1/|q|^2 for an isotropic q (|q|^2 = 0 mod P) - the case then carries an empty expected value
   and the replayer does not look at the result.                                                                  *)
EXTENDS LinAlg, TLC, Json

CONSTANTS NVec, NAff, NQuat, NCplx, NDyn       \* number of cases of each kind

VARIABLES c, phase
vars == <<c, phase>>

-------------------------------------------------------------------------------
(* deterministic scattered values: stream k of case i; every fifth case draws from {0, 1, -1, 2} only, which makes
   coincidences (zero scalars, w = 0, singular linear parts, equal operands) frequent *)
Hash(i, k) == LET x0 == (i * 31 + k * 1009 + 17) % 46337              \* (46336^2 + 10^5 < 2^31: no overflow in TLC)
                  x1 == (x0 * x0 + i) % 46337
                  x2 == (x1 * x1 + k * 7 + 1) % 46337
              IN (x2 * x2 + x0) % 46337
Val(i, k) == IF i % 5 = 0 THEN <<0, 1 % P, P - 1, 2 % P>>[(Hash(i, k) % 4) + 1] ELSE Hash(i, k) % P
V(i, k, n) == [j \in 1..n |-> Val(i, k + j)]
MatV(i, k, r, cc) == [a \in 1..r |-> [b \in 1..cc |-> Val(i, k + (a - 1) * cc + b)]]
\* a second operand that shares the first (i \div 5) % (n + 1) components with a (for compare / ==)
Sharing(a, i, k) == [j \in 1..Len(a) |-> IF j <= (i \div 5) % (Len(a) + 1) THEN a[j] ELSE Val(i, k + j)]

(* vectors: sequences over Fp *)
VAdd(a, b) == [j \in 1..Len(a) |-> AddP(a[j], b[j])]
VSub(a, b) == [j \in 1..Len(a) |-> SubP(a[j], b[j])]
VNeg(a) == [j \in 1..Len(a) |-> NegP(a[j])]
VScale(k, a) == [j \in 1..Len(a) |-> MulP(k, a[j])]
VCw(a, b) == [j \in 1..Len(a) |-> MulP(a[j], b[j])]
Len2(a) == Dot(a, a)
Cross3(a, b) == << SubP(MulP(a[2], b[3]), MulP(a[3], b[2])),
                   SubP(MulP(a[3], b[1]), MulP(a[1], b[3])),
                   SubP(MulP(a[1], b[2]), MulP(a[2], b[1])) >>
Cross2(a, b) == SubP(MulP(a[1], b[2]), MulP(a[2], b[1]))
Triple(a, b, d) == Dot(a, Cross3(b, d))
\* lexicographic comparison of the representatives 0..P-1 (the order the harness scalar implements): -1, 0, 1
RECURSIVE CmpFrom(_, _, _)
CmpFrom(a, b, k) == IF k > Len(a) THEN 0 ELSE IF a[k] < b[k] THEN -1 ELSE IF a[k] > b[k] THEN 1 ELSE CmpFrom(a, b, k + 1)
Cmp(a, b) == CmpFrom(a, b, 1)
\* homogeneous -> cartesian: divide the leading components by the last one (<<>>: undefined, last component 0)
H2C(a) == LET n == Len(a) IN IF a[n] = 0 THEN <<>> ELSE VScale(InvP(a[n]), SubSeq(a, 1, n - 1))
Opt(defined, v) == IF defined THEN v ELSE <<>>

(* affine / projective transforms: n x n matrices acting on (n-1)-dimensional points *)
Diag(s) == [a \in 1..Len(s) |-> [b \in 1..Len(s) |-> IF a = b THEN s[a] ELSE 0]]
Affine(L, t) == LET n == Len(L) IN
    [a \in 1..(n + 1) |-> IF a <= n THEN L[a] \o <<t[a]>> ELSE [b \in 1..(n + 1) |-> IF b = n + 1 THEN 1 % P ELSE 0]]
Translate(t) == Affine(Ident(Len(t)), t)
ScaleM(s) == Affine(Diag(s), [j \in 1..Len(s) |-> 0])
Linear(M) == LET n == Rows(M) - 1 IN [a \in 1..n |-> SubSeq(M[a], 1, n)]
TranslationOf(M) == LET n == Rows(M) - 1 IN [a \in 1..n |-> M[a][n + 1]]
\* M * point: the point is (p, 1); the code evaluates the first n rows only ("this affine transform")
Point(M, p) == LET n == Rows(M) - 1 IN [a \in 1..n |-> Dot(M[a], p \o <<1 % P>>)]
\* M % direction: the linear part only
Direction(M, p) == MatVec(Linear(M), p)
\* M ^ point: projective transform, division by the last homogeneous coordinate
Project(M, p) == H2C(MatVec(M, p \o <<1 % P>>))
TraceM(M) == LET RECURSIVE S(_)  S(k) == IF k > Rows(M) THEN 0 ELSE AddP(M[k][k], S(k + 1)) IN S(1)
NormSq(M) == Len2(Flat(M))
MAdd(A, B) == [a \in 1..Rows(A) |-> VAdd(A[a], B[a])]
MSub(A, B) == [a \in 1..Rows(A) |-> VSub(A[a], B[a])]

(* quaternions <<w, x, y, z>> over Z_P *)
QMul(p, q) == << SubP(SubP(SubP(MulP(p[1], q[1]), MulP(p[2], q[2])), MulP(p[3], q[3])), MulP(p[4], q[4])),
                 SubP(AddP(AddP(MulP(p[1], q[2]), MulP(p[2], q[1])), MulP(p[3], q[4])), MulP(p[4], q[3])),
                 AddP(AddP(SubP(MulP(p[1], q[3]), MulP(p[2], q[4])), MulP(p[3], q[1])), MulP(p[4], q[2])),
                 AddP(SubP(AddP(MulP(p[1], q[4]), MulP(p[2], q[3])), MulP(p[3], q[2])), MulP(p[4], q[1])) >>
QConj(q) == <<q[1], NegP(q[2]), NegP(q[3]), NegP(q[4])>>
QOne == <<1 % P, 0, 0, 0>>
Pure(v) == <<0, v[1], v[2], v[3]>>
\* the rotation of a unit quaternion is conjugation v -> q v conj(q); column j is the image of the basis vector e_j
E3(j) == [a \in 1..3 |-> IF a = j THEN 1 % P ELSE 0]
RotOf(q) == [a \in 1..3 |-> [b \in 1..3 |-> QMul(QMul(q, Pure(E3(b))), QConj(q))[a + 1]]]
\* q^2 / |q|^2 has norm one (|q|^2 # 0)
UnitOf(q) == VScale(InvP(Len2(q)), QMul(q, q))

(* complex numbers <<re, im>> over Z_P *)
CMul(z, y) == <<SubP(MulP(z[1], y[1]), MulP(z[2], y[2])), AddP(MulP(z[1], y[2]), MulP(z[2], y[1]))>>
CConj(z) == <<z[1], NegP(z[2])>>
CDiv(z, y) == VScale(InvP(Len2(y)), CMul(z, CConj(y)))          \* |y|^2 # 0

(* dynamic matrices: [r, c, d] with d the row-major entries; the empty matrix stands for "dimension mismatch" *)
Dyn(A) == [r |-> Rows(A), c |-> Cols(A), d |-> Flat(A)]
NoMatrix == [r |-> 0, c |-> 0, d |-> <<>>]
DynIf(ok, A) == IF ok THEN Dyn(A) ELSE NoMatrix
Slice(A, i1, i2, j1, j2) == [a \in 1..(i2 - i1) |-> [b \in 1..(j2 - j1) |-> A[i1 + a][j1 + b]]]    \* rows [i1, i2), 0-based

-------------------------------------------------------------------------------
Init == /\ phase = "gen"
        /\ \/ c \in [k : {"vec"}, i : 0..(NVec - 1)]
           \/ c \in [k : {"aff"}, i : 0..(NAff - 1)]
           \/ c \in [k : {"quat"}, i : 0..(NQuat - 1)]
           \/ c \in [k : {"cplx"}, i : 0..(NCplx - 1)]
           \/ c \in [k : {"dyn"}, i : 0..(NDyn - 1)]

VecCase(i) ==
    LET a == V(i, 0, 3) b == V(i, 3, 3) d == V(i, 6, 3) s == Val(i, 10)
        e == Sharing(a, i, 40)
        a4 == V(i, 11, 4) b4 == V(i, 15, 4) e4 == Sharing(a4, i, 50)
        u == V(i, 19, 2) w == V(i, 21, 2) e2 == Sharing(u, i, 60)
    IN [k |-> "vec", p |-> P, a |-> a, b |-> b, c |-> d, s |-> s, e |-> e,
        add |-> VAdd(a, b), sub |-> VSub(a, b), neg |-> VNeg(a), scl |-> VScale(s, a), div |-> Opt(s # 0, VScale(InvP(s), a)),
        dot |-> Dot(a, b), cross |-> Cross3(a, b), cw |-> VCw(a, b), len2 |-> Len2(a), triple |-> Triple(a, b, d),
        cmp |-> Cmp(a, e), h2c |-> H2C(a),
        a4 |-> a4, b4 |-> b4, e4 |-> e4,
        add4 |-> VAdd(a4, b4), sub4 |-> VSub(a4, b4), neg4 |-> VNeg(a4), scl4 |-> VScale(s, a4), div4 |-> Opt(s # 0, VScale(InvP(s), a4)),
        dot4 |-> Dot(a4, b4), cw4 |-> VCw(a4, b4), len24 |-> Len2(a4), cmp4 |-> Cmp(a4, e4), h2c4 |-> H2C(a4),
        u |-> u, w |-> w, e2 |-> e2,
        add2 |-> VAdd(u, w), sub2 |-> VSub(u, w), neg2 |-> VNeg(u), scl2 |-> VScale(s, u), div2 |-> Opt(s # 0, VScale(InvP(s), u)),
        dot2 |-> Dot(u, w), crs2 |-> Cross2(u, w), perp2 |-> <<NegP(u[2]), u[1]>>, cw2 |-> VCw(u, w), len22 |-> Len2(u), cmp2 |-> Cmp(u, e2)]

AffCase(i) ==
    LET L == MatV(i, 0, 3, 3) t == V(i, 9, 3) s == V(i, 12, 3) pt == V(i, 15, 3) h == V(i, 18, 4)
        M == MatV(i, 22, 4, 4) L2 == MatV(i, 38, 3, 3) t2 == V(i, 47, 3) k == Val(i, 50)
        G == Affine(L, t) G2 == Affine(L2, t2) T == Translate(t) S == ScaleM(s)
        \* 2-D: Matrix3
        K == MatV(i, 51, 2, 2) tk == V(i, 55, 2) s2 == V(i, 57, 2) p2 == V(i, 59, 2) N == MatV(i, 61, 3, 3)
        A == Affine(K, tk)
    IN [k |-> "aff", p |-> P, l |-> Flat(L), t |-> t, s |-> s, pt |-> pt, h |-> h, m |-> Flat(M), l2 |-> Flat(L2), t2 |-> t2, f |-> k,
        g |-> Flat(G), tr |-> Flat(T), sc |-> Flat(S), scu |-> Flat(ScaleM(<<k, k, k>>)), scu3 |-> Flat(ScaleM(<<k, k>>)), ts |-> Flat(MatMul(T, S)), st |-> Flat(MatMul(S, T)),
        tls |-> Flat(MatMul(MatMul(T, Affine(L, <<0, 0, 0>>)), S)),
        gg2 |-> Flat(MatMul(G, G2)), mg |-> Flat(MatMul(M, G)),
        gp |-> Point(G, pt), gd |-> Direction(G, pt), gh |-> MatVec(G, h),
        mp |-> Point(M, pt), md |-> Direction(M, pt), mproj |-> Project(M, pt), mh |-> MatVec(M, h),
        detg |-> Det(G), ginv |-> Opt(Det(L) # 0, Flat(AdjInverse(G))),
        detm |-> Det(M), minv |-> Opt(Det(M) # 0, Flat(AdjInverse(M))),
        mt |-> Flat(Transpose(M)), mtr |-> TraceM(M), mnsq |-> NormSq(M),
        msum |-> Flat(MAdd(M, G)), mdif |-> Flat(MSub(M, G)), mscl |-> Flat(Scale(k, M)),
        \* Matrix3 as 2-D transform
        kk |-> Flat(K), tk |-> tk, s2 |-> s2, p2 |-> p2, n |-> Flat(N),
        a3 |-> Flat(A), tr3 |-> Flat(Translate(tk)), sc3 |-> Flat(ScaleM(s2)), ts3 |-> Flat(MatMul(Translate(tk), ScaleM(s2))),
        a3p |-> Point(A, p2), a3d |-> Direction(A, p2), np |-> Point(N, p2), nproj |-> Project(N, p2), nv |-> MatVec(N, pt),
        a3inv |-> Opt(Det(K) # 0, Flat(AdjInverse(A))), ntr |-> TraceM(N), nnsq |-> NormSq(N),
        nsum |-> Flat(MAdd(N, A)), nscl |-> Flat(Scale(k, N)), nt |-> Flat(Transpose(N))]

QuatCase(i) ==
    LET q1 == V(i, 0, 4) q2 == V(i, 4, 4) q3 == V(i, 8, 4) v == V(i, 12, 3) s == Val(i, 16) pos == V(i, 17, 3)
        n1 == Len2(q1) n2 == Len2(q2) un == n1 # 0 /\ n2 # 0
        u1 == UnitOf(q1) u2 == UnitOf(q2)
    IN [k |-> "quat", p |-> P, q1 |-> q1, q2 |-> q2, q3 |-> q3, v |-> v, s |-> s, pos |-> pos,
        p12 |-> QMul(q1, q2), p123 |-> QMul(QMul(q1, q2), q3), conj |-> QConj(q1), n1 |-> n1,
        inv |-> Opt(n1 # 0, VScale(InvP(n1), QConj(q1))), dot |-> Dot(q1, q2), sum |-> VAdd(q1, q2), scl |-> VScale(s, q1), neg |-> VNeg(q1),
        u1 |-> Opt(un, u1), u2 |-> Opt(un, u2),
        m1 |-> Opt(un, Flat(Affine(RotOf(u1), <<0, 0, 0>>))),
        m12 |-> Opt(un, Flat(Affine(RotOf(QMul(u1, u2)), <<0, 0, 0>>))),
        rv |-> Opt(un, MatVec(RotOf(u1), v)),
        u1c |-> Opt(un, QConj(u1)), m1t |-> Opt(un, Flat(Affine(Transpose(RotOf(u1)), <<0, 0, 0>>))),
        pose |-> Opt(un, Flat(Affine(RotOf(u1), pos)))]

CplxCase(i) ==
    LET z == V(i, 0, 2) y == V(i, 2, 2) s == Val(i, 5) IN
    [k |-> "cplx", p |-> P, z |-> z, y |-> y, s |-> s,
     sum |-> VAdd(z, y), dif |-> VSub(z, y), prd |-> CMul(z, y), quo |-> Opt(Len2(y) # 0, CDiv(z, y)),
     conj |-> CConj(z), mag2 |-> Len2(z), scl |-> VScale(s, z), dvs |-> Opt(s # 0, VScale(InvP(s), z)), neg |-> VNeg(z),
     eq |-> IF z = Sharing(z, i, 20) THEN 1 ELSE 0, e |-> Sharing(z, i, 20)]

DynCase(i) ==
    LET r == 1 + (i % 3) cc == 1 + ((i \div 3) % 3) r2 == 1 + ((i \div 9) % 3) c2 == 1 + ((i \div 27) % 3)
        A == MatV(i, 0, r, cc) B == MatV(i, 9, r2, c2) s == Val(i, 20)
        ri == (i \div 81) % r ci == (i \div 243) % cc            \* 0-based row / column picked
    IN [k |-> "dyn", p |-> P, a |-> Dyn(A), b |-> Dyn(B), s |-> s, ri |-> ri, ci |-> ci,
        prod |-> DynIf(cc = r2, MatMul(A, B)),
        sum |-> DynIf(r = r2 /\ cc = c2, IF r = r2 /\ cc = c2 THEN MAdd(A, B) ELSE A),
        dif |-> DynIf(r = r2 /\ cc = c2, IF r = r2 /\ cc = c2 THEN MSub(A, B) ELSE A),
        at |-> Dyn(Transpose(A)),
        atb |-> DynIf(r = r2, IF r = r2 THEN MatMul(Transpose(A), B) ELSE A),
        tra |-> IF r = cc THEN TraceM(A) ELSE 0,
        row |-> Dyn(<<A[ri + 1]>>), col |-> Dyn([a \in 1..r |-> <<A[a][ci + 1]>>]),
        sl |-> Dyn(Slice(A, ri, r, ci, cc)),
        nsq |-> NormSq(A), scl |-> Dyn(Scale(s, A)), neg |-> Dyn([a \in 1..r |-> VNeg(A[a])]),
        id |-> Dyn(Ident(r))]

Case(q) == IF q.k = "vec" THEN VecCase(q.i) ELSE IF q.k = "aff" THEN AffCase(q.i)
           ELSE IF q.k = "quat" THEN QuatCase(q.i) ELSE IF q.k = "cplx" THEN CplxCase(q.i) ELSE DynCase(q.i)
Gen == phase = "gen" /\ phase' = "done" /\ c' = Case(c)
Spec == Init /\ [][Gen]_vars

-------------------------------------------------------------------------------
Pub(kind) == phase = "done" /\ c.k = kind
M4(f) == Reshape(f, 4, 4)
M3(f) == Reshape(f, 3, 3)

VecLaws == Pub("vec") =>
    LET a == c.a b == c.b d == c.c x == c.cross IN
    /\ Dot(x, x) = SubP(MulP(Len2(a), Len2(b)), MulP(c.dot, c.dot))            \* Lagrange: |a x b|^2 = |a|^2 |b|^2 - (a.b)^2
    /\ Dot(x, a) = 0 /\ Dot(x, b) = 0                                             \* a x b is orthogonal to both
    /\ Cross3(b, a) = VNeg(x)                                                      \* anticommutative
    /\ c.triple = Det(<<a, b, d>>)                                                 \* a . (b x c) = det [a; b; c]
    /\ c.triple = Triple(b, d, a) /\ c.triple = NegP(Triple(b, a, d))              \* cyclic, alternating
    /\ Cross3(a, Cross3(b, d)) = VSub(VScale(Dot(a, d), b), VScale(Dot(a, b), d))  \* a x (b x c) = b (a.c) - c (a.b)
    /\ Dot(c.add, d) = AddP(Dot(a, d), Dot(b, d))                                  \* bilinear
    /\ VAdd(c.sub, b) = a /\ VAdd(a, c.neg) = <<0, 0, 0>>
    /\ c.len2 = Dot(a, a) /\ Len2(c.scl) = MulP(MulP(c.s, c.s), c.len2)
    /\ c.s # 0 => VScale(c.s, c.div) = a
    /\ c.h2c # <<>> => VScale(a[3], c.h2c) = SubSeq(a, 1, 2)
    /\ c.h2c4 # <<>> => VScale(c.a4[4], c.h2c4) = SubSeq(c.a4, 1, 3)
    /\ (c.cmp = 0) = (a = c.e) /\ (c.cmp4 = 0) = (c.a4 = c.e4) /\ (c.cmp2 = 0) = (c.u = c.e2)   \* compare agrees with ==
    /\ Cmp(c.e, a) = -c.cmp /\ Cmp(c.e4, c.a4) = -c.cmp4                          \* antisymmetric
    /\ c.crs2 = Det(<<c.u, c.w>>) /\ Dot(c.perp2, c.u) = 0 /\ Cross2(c.u, c.perp2) = c.len22
    /\ AddP(MulP(c.dot2, c.dot2), MulP(c.crs2, c.crs2)) = MulP(c.len22, Len2(c.w)) \* Lagrange in 2-D

AffLaws == Pub("aff") =>
    LET G == M4(c.g) M == M4(c.m) L == M3(c.l) T == M4(c.tr) S == M4(c.sc) IN
    /\ G = Affine(L, c.t) /\ TranslationOf(G) = c.t /\ Linear(G) = L
    /\ c.detg = Det(L)                                                             \* det of an affine map = det of its linear part
    /\ c.gp = VAdd(c.gd, c.t)                                                      \* point = direction + translation
    /\ c.gp = SubSeq(MatVec(G, c.pt \o <<1>>), 1, 3) /\ MatVec(G, c.pt \o <<1>>)[4] = 1
    /\ Point(M4(c.gg2), c.pt) = Point(G, Point(Affine(M3(c.l2), c.t2), c.pt))      \* product = composition (right factor first)
    /\ M4(c.ts) = Affine(Diag(c.s), c.t) /\ M4(c.st) = Affine(Diag(c.s), VCw(c.s, c.t))
    /\ M4(c.tls) = Affine(MatMul(L, Diag(c.s)), c.t)
    /\ c.ginv # <<>> => LET W == M4(c.ginv) IN
           /\ MatMul(G, W) = Ident(4) /\ MatMul(W, G) = Ident(4)
           /\ Point(W, c.gp) = c.pt /\ Direction(W, c.gd) = c.pt                   \* the inverse transform undoes the transform
           /\ W = Affine(AdjInverse(L), VNeg(MatVec(AdjInverse(L), c.t)))          \* (L | t)^-1 = (L^-1 | -L^-1 t)
           /\ W = SolveGauss(G, Ident(4))                                          \* formulation 2 of LinAlg.tla
    /\ c.minv # <<>> => MatMul(M, M4(c.minv)) = Ident(4) /\ MatMul(M4(c.minv), M) = Ident(4)
    /\ (c.mproj # <<>>) => VScale(Dot(M[4], c.pt \o <<1>>), c.mproj) = c.mp        \* projective = affine part / w
    /\ Transpose(M4(c.mt)) = M /\ c.mtr = TraceM(M4(c.mt)) /\ Det(M4(c.mt)) = c.detm
    /\ Det(M4(c.mg)) = MulP(c.detm, c.detg)
    /\ M4(c.mdif) = MAdd(M4(c.msum), Scale(P - 2, G))                              \* (M + G) - 2G = M - G
    \* 2-D
    /\ LET A == M3(c.a3) K == Reshape(c.kk, 2, 2) IN
       /\ c.a3p = VAdd(c.a3d, c.tk)
       /\ M3(c.ts3) = Affine(Diag(c.s2), c.tk)
       /\ c.a3inv # <<>> => /\ MatMul(A, M3(c.a3inv)) = Ident(3) /\ Point(M3(c.a3inv), c.a3p) = c.p2
                            /\ M3(c.a3inv) = Affine(AdjInverse(K), VNeg(MatVec(AdjInverse(K), c.tk)))
       /\ (c.nproj # <<>>) => VScale(Dot(M3(c.n)[3], c.p2 \o <<1>>), c.nproj) = c.np

QuatLaws == Pub("quat") =>
    LET q1 == c.q1 q2 == c.q2 q3 == c.q3 IN
    /\ c.p123 = QMul(q1, QMul(q2, q3))                                             \* associative
    /\ Len2(c.p12) = MulP(c.n1, Len2(q2))                                          \* the norm is multiplicative
    /\ QConj(c.p12) = QMul(QConj(q2), QConj(q1))                                   \* conjugation reverses products
    /\ QMul(q1, c.conj) = <<c.n1, 0, 0, 0>>
    /\ c.inv # <<>> => QMul(q1, c.inv) = QOne /\ QMul(c.inv, q1) = QOne
    /\ QMul(q1, VAdd(q2, q3)) = VAdd(c.p12, QMul(q1, q3))                          \* distributive
    /\ c.u1 # <<>> =>
        LET R1 == RotOf(c.u1) R2 == RotOf(c.u2) IN
        /\ Len2(c.u1) = 1 /\ Len2(c.u2) = 1
        /\ M4(c.m1) = Affine(R1, <<0, 0, 0>>)
        /\ M4(c.m12) = MatMul(M4(c.m1), Affine(R2, <<0, 0, 0>>))                   \* (u1 u2).matrix() = u1.matrix() u2.matrix()
        /\ MatMul(R1, Transpose(R1)) = Ident(3) /\ Det(R1) = 1                     \* a proper rotation
        /\ Pure(c.rv) = QMul(QMul(c.u1, Pure(c.v)), QConj(c.u1))                   \* q * v = q v conj(q)
        /\ Len2(c.rv) = Len2(c.v)
        /\ QMul(c.u1, c.u1c) = QOne /\ MatMul(M4(c.m1), M4(c.m1t)) = Ident(4)       \* inverse of a unit quaternion / rotation = conjugate / transpose
        /\ M4(c.pose) = MatMul(Translate(c.pos), M4(c.m1))
        \* the closed form the code uses
        /\ LET w == c.u1[1] x == c.u1[2] y == c.u1[3] z == c.u1[4]
               D(a, b) == SubP(1, MulP(2, AddP(MulP(a, a), MulP(b, b))))
               T2(a, b, e, f) == MulP(2, AddP(MulP(a, b), MulP(e, f))) IN
           R1 = << <<D(y, z), T2(x, y, NegP(w), z), T2(x, z, w, y)>>,
                   <<T2(x, y, w, z), D(x, z), T2(y, z, NegP(w), x)>>,
                   <<T2(x, z, NegP(w), y), T2(y, z, w, x), D(x, y)>> >>

CplxLaws == Pub("cplx") =>
    LET z == c.z y == c.y IN
    /\ c.quo # <<>> => CMul(c.quo, y) = z
    /\ Len2(c.prd) = MulP(c.mag2, Len2(y))
    /\ CConj(c.prd) = CMul(c.conj, CConj(y))
    /\ CMul(z, c.conj) = <<c.mag2, 0>>
    /\ c.prd = CMul(y, z)
    /\ CMul(z, VAdd(y, c.scl)) = VAdd(c.prd, CMul(z, c.scl))
    /\ VAdd(c.dif, y) = z
    /\ (P % 4 = 3 /\ y # <<0, 0>>) => c.quo # <<>>                                  \* Z_P[i] is a field when P = 3 mod 4
    /\ (c.eq = 1) = (z = c.e)

DynLaws == Pub("dyn") =>
    LET A == Reshape(c.a.d, c.a.r, c.a.c) B == Reshape(c.b.d, c.b.r, c.b.c) IN
    /\ c.prod.r # 0 => /\ c.prod.r = c.a.r /\ c.prod.c = c.b.c
                       /\ Transpose(Reshape(c.prod.d, c.prod.r, c.prod.c)) = MatMul(Transpose(B), Transpose(A))
    /\ (c.prod.r = 0) = (c.a.c # c.b.r)
    /\ c.atb.r # 0 => c.atb.d = Flat(MatMul(Reshape(c.at.d, c.at.r, c.at.c), B))
    /\ c.at.r = c.a.c /\ c.at.c = c.a.r
    /\ c.sum.r # 0 => Reshape(c.dif.d, c.a.r, c.a.c) = MSub(Reshape(c.sum.d, c.a.r, c.a.c), MAdd(B, B))
    /\ c.nsq = TraceM(MatMul(A, Transpose(A)))                                      \* |A|_F^2 = tr(A A^T)
    /\ MatMul(Reshape(c.id.d, c.a.r, c.a.r), A) = A

Emit == PrintT(ToJson(c'))
===============================================================================
