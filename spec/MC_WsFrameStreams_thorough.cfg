SPECIFICATION Spec
CONSTANTS
 MaxFrames = 5
 MaxMsgs = 2
 MaxFrag = 4
 Chunks = {0, 2}
 WithCuts = TRUE
 HostileUpTo = 2
 HostileUsed = {"ReservedOp3", "ReservedOp11", "ReservedOpNoFin", "RsvBits", "Len64LowSign", "Len64LowSignBit", "Len64HighBit", "Len64AllOnes", "Len64Wraps5", "Len64Huge", "Len64Big", "Len64ContNeg", "PingNoFin", "PingLong", "Len16NonMinimal", "CloseOneByte"}
ACTION_CONSTRAINT Emit
INVARIANTS RoundTrip CutAgrees ExactlyOnce TypeOK
PROPERTIES PrefixMono
CHECK_DEADLOCK FALSE
