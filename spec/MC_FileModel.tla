------------------------------ MODULE MC_FileModel ------------------------------
(* constant definitions for the model-checking configurations of FileModel (TLC configuration files cannot spell
   sequences).  Tokens: 0..255 literal byte, 1000+n run of n 'a', 2000+n run of n 'b' (FileModel!Expand). *)
EXTENDS FileModel

\* quick / thorough histories: empty, NUL and high bytes, LF inside binary data; lines with LF, CR LF, lone CR
QBin == { <<>>, <<0>>, <<255, 0, 10>> }
QTxt == { <<>>, <<98, 10>>, <<13, 10>>, <<99, 13>> }
TBin == { <<>>, <<0>>, <<255, 0, 10>>, <<97, 98, 99>> }
TTxt == { <<>>, <<97>>, <<98, 10>>, <<13, 10>>, <<99, 13>>, <<10>> }
\* sizes around the 65536-byte copy block (A(n) / B(n): run of n bytes 'a' (n < 1000) / 'b')
A(n) == 1000 + n
B(n) == 2000 + n
BigQ == { <<B(65535), 0>>, <<10, B(65535), 255>>, <<B(65536), A(1)>> }
BigT == BigQ \cup { <<B(65536)>>, <<A(255), 13, 10, B(131072), 10>>, <<0, B(199999)>> }
\* handle histories (queries through the long-lived object between its own writes): binary data with NUL, files with
\* a UTF-8 / UTF-16LE byte-order mark (text() reads those to the end of the stream), text with LF, CR LF, lone CR
HBinQ == { <<255, 0, 10>>, <<239, 187, 191, 97>> }
HTxtQ == { <<98, 10>>, <<13>> }
HBinT == { <<>>, <<255, 0, 10>>, <<239, 187, 191, 97>>, <<255, 254, 97, 0>> }
HTxtT == { <<>>, <<98, 10>>, <<13, 10>>, <<99, 13>> }
AllKinds == {"size", "exists", "isfile", "content", "first", "text", "lines", "loop"}
NoChunks == {}
\* scalar values at the encoding-length boundaries of UTF-8 and UTF-16
Scalars == {10, 13, 65, 127, 128, 233, 2047, 2048, 8364, 55295, 57344, 65533, 65535, 65536, 128512, 1114111}
ScalarsQ == {10, 13, 65, 128, 2047, 2048, 65535, 65536, 1114111}
NoScalars == {}
RunsQ == {0, 1, 253, 254, 255, 509}
RunsT == {0, 1, 2, 252, 253, 254, 255, 256, 507, 508, 509, 510}
NoRuns == {}
===============================================================================
