----------------------------- MODULE CalendarZone ------------------------------
(* C19 (growth) - local time of asl::Date: zone rules with daylight saving on top of Calendar.tla, as constant-level
   operators (no variables).  CalendarZoneDays (R), CalendarPattern (R), CalendarArith (R) and Trace_CalendarZone (V)
   are built from it.

   A zone rule is a record
       [std, dst : minutes east of UTC in standard / daylight time, hasDst,
        sm, sw, swd, st : daylight time starts on the sw-th (5 = last) week day swd (0 = Sunday) of month sm when the
                          local STANDARD clock shows st seconds after midnight,
        em, ew, ewd, et : and ends on the ew-th week day ewd of month em when the local DAYLIGHT clock shows et]
   which is exactly what a POSIX TZ string "VST-1VDT-2,M3.5.0/2,M10.5.0/3" says; TzString(r) renders a rule as that
   string and the harnesses put it into the environment of the real library (TZ), so that the C library's zone and
   the specification's zone are the same object by construction (no zoneinfo data base is involved).

   The rule applies to every year (proleptic, like the calendar).  asl::Date asks the C library for the offset only
   for instants that fit a 32-bit time_t (1970-01-01 .. 2038-01-01) and "approximates" it elsewhere by moving the
   instant a whole number of mean Gregorian years into 1972/73: the daylight period then begins/ends up to a week
   off.  Nothing in the documentation promises more, so outside the time_t range the specification only requires the
   rule's offset on instants at least ApproxDays days away from every change of the offset, and one of the two
   offsets of the zone closer to a change (AllowedOffsets).                                                        *)
EXTENDS Calendar, FiniteSets

Before(a, b) == a.dn < b.dn \/ (a.dn = b.dn /\ (a.sod < b.sod \/ (a.sod = b.sod /\ a.us < b.us)))

Zone(std, dst, sm, sw, swd, st, em, ew, ewd, et) ==
    [std |-> std, dst |-> dst, hasDst |-> TRUE, sm |-> sm, sw |-> sw, swd |-> swd, st |-> st,
     em |-> em, ew |-> ew, ewd |-> ewd, et |-> et]
FixedZone(std) ==
    [std |-> std, dst |-> std, hasDst |-> FALSE, sm |-> 1, sw |-> 1, swd |-> 0, st |-> 0, em |-> 1, ew |-> 1, ewd |-> 0, et |-> 0]

Rules == << Zone(60, 120, 3, 5, 0, 7200, 10, 5, 0, 10800),      \* 1 central Europe: last Sunday of March / October, 01:00 UTC
            Zone(-300, -240, 3, 2, 0, 7200, 11, 1, 0, 7200),    \* 2 US eastern: 2nd Sunday of March, 1st Sunday of November, 02:00 local
            Zone(600, 660, 10, 1, 0, 7200, 4, 1, 0, 10800),     \* 3 Sydney: daylight time across the new year
            FixedZone(330),                                     \* 4 India: no daylight time, half-hour offset
            Zone(-210, -150, 3, 2, 0, 7200, 11, 1, 0, 7200),    \* 5 Newfoundland: half-hour offset with daylight time
            Zone(630, 660, 10, 1, 0, 7200, 4, 1, 0, 7200),      \* 6 Lord Howe: daylight time shifts the clock 30 minutes
            FixedZone(-480),                                    \* 7 fixed, west
            Zone(120, 180, 3, 5, 5, 0, 10, 5, 6, 3600) >>       \* 8 changes at local midnight on a Friday / Saturday (day roll-over)
NRules == Len(Rules)

\* the rule's end time is late enough for the local standard and the local daylight calendar day to be the same
ASSUME \A k \in 1..NRules : Rules[k].hasDst => /\ Rules[k].et >= 60 * (Rules[k].dst - Rules[k].std)
                                               /\ Rules[k].dst > Rules[k].std /\ Rules[k].dst - Rules[k].std <= 60

\* day of the month of the w-th (5 = last) week day wd of month m
NthWeekday(y, m, w, wd) ==
    LET first == 1 + ((wd - Weekday(DaysFromCivil(y, m, 1))) % 7) IN
    IF w < 5 THEN first + 7 * (w - 1) ELSE IF first + 28 <= DaysInMonth(y, m) THEN first + 28 ELSE first + 21
ASSUME NthWeekday(2021, 3, 5, 0) = 28 /\ NthWeekday(2021, 10, 5, 0) = 31 /\ NthWeekday(2021, 3, 2, 0) = 14 /\ NthWeekday(2021, 11, 1, 0) = 7

\* the UTC instants at which daylight time starts / ends in year y
StartUTC(r, y) == AddSeconds(Inst(DaysFromCivil(y, r.sm, NthWeekday(y, r.sm, r.sw, r.swd)), 0, 0), r.st - 60 * r.std)
EndUTC(r, y)   == AddSeconds(Inst(DaysFromCivil(y, r.em, NthWeekday(y, r.em, r.ew, r.ewd)), 0, 0), r.et - 60 * r.dst)
ASSUME StartUTC(Rules[1], 2021) = InstantOf(2021, 3, 28, 1, 0, 0) /\ EndUTC(Rules[1], 2021) = InstantOf(2021, 10, 31, 1, 0, 0)
ASSUME StartUTC(Rules[2], 2021) = InstantOf(2021, 3, 14, 7, 0, 0) /\ EndUTC(Rules[2], 2021) = InstantOf(2021, 11, 7, 6, 0, 0)
ASSUME StartUTC(Rules[3], 2021) = InstantOf(2021, 10, 2, 16, 0, 0) /\ EndUTC(Rules[3], 2021) = InstantOf(2021, 4, 3, 16, 0, 0)

\* is daylight time in force at instant i (the year is that of the UTC date: no rule changes within a day of new year)
IsDst(r, i) ==
    IF ~r.hasDst THEN FALSE
    ELSE LET y == CivilFromDays(i.dn).y  s == StartUTC(r, y)  e == EndUTC(r, y) IN
         IF Before(s, e) THEN ~Before(i, s) /\ Before(i, e)          \* northern: daylight time between s and e
         ELSE ~(~Before(i, e) /\ Before(i, s))                        \* southern: standard time between e and s
\* seconds east of UTC of the local clock at instant i: what Date::localOffset() reports
OffsetAt(r, i) == 60 * (IF IsDst(r, i) THEN r.dst ELSE r.std)

\* what the local clock shows at i, as an instant on the UTC scale ("naive" local time) / as fields
LocalNaive(r, i) == AddSeconds(i, OffsetAt(r, i))
LocalFields(r, i) == Fields(AddSeconds(RoundMilli(i), OffsetAt(r, i)))
\* the instants at which the local clock shows naive time L: none in the hour skipped when daylight time starts, two
\* in the hour repeated when it ends, one otherwise
Candidates(r, L) == {AddSeconds(L, -60 * r.std), AddSeconds(L, -60 * r.dst)}
InstantsOfNaive(r, L) == {c \in Candidates(r, L) : LocalNaive(r, c) = L}
NaiveKind(r, L) == LET n == Cardinality(InstantsOfNaive(r, L)) IN IF n = 0 THEN "skipped" ELSE IF n = 2 THEN "repeated" ELSE "unique"
\* what Date(LOCAL, fields) may denote: the instant(s) with that local time; for a local time that does not exist the
\* documentation is silent - any sensible reading is one of the two shifted by a zone offset, so that is all we ask
DenotedByNaive(r, L) == IF InstantsOfNaive(r, L) = {} THEN Candidates(r, L) ELSE InstantsOfNaive(r, L)

-------------------------------------------------------------------------------
(* the range in which the library consults the C library, and the tolerance outside it *)
TimeTLo == Inst(0, 0, 0)
TimeTHi == Inst(24837, 0, 0)            \* 2038-01-01T00:00:00Z = 2 145 916 800 s
ASSUME TimeTHi = InstantOf(2038, 1, 1, 0, 0, 0)
\* comfortably inside: the local constructor also evaluates the offset at the naive time and at a first estimate
InTimeT(i) == i.dn >= 2 /\ i.dn <= 24834
ApproxDays == 10
NearChange(r, i) ==
    r.hasDst /\ LET y == CivilFromDays(i.dn).y IN
                \E yy \in {y - 1, y, y + 1} : \E T \in {StartUTC(r, yy), EndUTC(r, yy)} :
                    T.dn - i.dn <= ApproxDays /\ i.dn - T.dn <= ApproxDays
Exact(r, i) == InTimeT(i) \/ ~NearChange(r, i)
AllowedOffsets(r, i) == IF Exact(r, i) THEN {OffsetAt(r, i)} ELSE {60 * r.std, 60 * r.dst}
AllowedOfNaive(r, L) == IF \A c \in Candidates(r, L) : Exact(r, c) THEN DenotedByNaive(r, L) ELSE Candidates(r, L)

-------------------------------------------------------------------------------
(* the POSIX TZ string of a rule *)
cSlash == 47  cM == 77
StdName == <<86, 83, 84>>     \* "VST"
DstName == <<86, 68, 84>>     \* "VDT"
\* hours[:minutes] of a number of minutes, sign first
HM(mins) == LET a == IF mins < 0 THEN -mins ELSE mins IN
            (IF mins < 0 THEN <<cDash>> ELSE <<>>) \o Unpadded(a \div 60) \o (IF a % 60 = 0 THEN <<>> ELSE <<cColon>> \o Pad2(a % 60))
ChangeText(m, w, wd, t) == <<cM>> \o Unpadded(m) \o <<cDot, Dg(w), cDot, Dg(wd), cSlash>> \o HM(t \div 60)
\* POSIX counts offsets west of Greenwich
TzString(r) == StdName \o HM(-r.std) \o
               (IF r.hasDst THEN DstName \o HM(-r.dst) \o <<cComma>> \o ChangeText(r.sm, r.sw, r.swd, r.st) \o <<cComma>> \o
                                 ChangeText(r.em, r.ew, r.ewd, r.et)
                ELSE <<>>)
\* "VST-1VDT-2,M3.5.0/2,M10.5.0/3" and "VST3:30VDT2:30,M3.2.0/2,M11.1.0/2" and "VST-5:30"
ASSUME TzString(Rules[1]) = <<86,83,84,45,49,86,68,84,45,50,44,77,51,46,53,46,48,47,50,44,77,49,48,46,53,46,48,47,51>>
ASSUME TzString(Rules[5]) = <<86,83,84,51,58,51,48,86,68,84,50,58,51,48,44,77,51,46,50,46,48,47,50,44,77,49,49,46,49,46,48,47,50>>
ASSUME TzString(Rules[4]) = <<86,83,84,45,53,58,51,48>>
RuleOfTz(t) == IF \E k \in 1..NRules : TzString(Rules[k]) = t THEN CHOOSE k \in 1..NRules : TzString(Rules[k]) = t ELSE 0

-------------------------------------------------------------------------------
(* local texts: Date::toString(fmt) shows the local fields and no zone designator; the HTTP format is GMT by
   definition ("HTTP long format in GMT"); DATE_ONLY is the date part (toUTCString(DATE_ONLY): whether a 'Z' follows
   the date is not specified - the documentation says "just the date part", the code appends it) *)
DateText(f) == Pad4(f.y) \o <<cDash>> \o Pad2(f.m) \o <<cDash>> \o Pad2(f.d)
FormatFields(fmt, f, ms) ==
    CASE fmt = "LONG"  -> ExtText(f)
      [] fmt = "SHORT" -> BasicText(f)
      [] fmt = "FULL"  -> ExtText(f) \o <<cDot>> \o Pad3(ms)
      [] fmt = "DATE"  -> DateText(f)
FormatLocal(r, fmt, i) ==
    IF fmt = "HTTP" THEN FormatUTC("HTTP", i)
    ELSE LET x == RoundMilli(i) IN FormatFields(fmt, Fields(AddSeconds(x, OffsetAt(r, i))), x.us \div 1000)
LocalFormats == <<"LONG", "SHORT", "FULL", "DATE", "HTTP">>
DateOnlyUTC(i) == LET t == DateText(Fields(RoundMilli(i))) IN {t, t \o <<cZ>>}

\* format-driven reading (see Calendar.tla) with the years the class can hold and show as digits: 0 .. 99 999
ValidDateX(y, m, d) == y \in 0..99999 /\ m \in 1..12 /\ d \in 1..DaysInMonth(y, m)
ReadPatternX(t, f) ==
    LET w == PatWalk(t, f, 1, 1, <<-1, -1, -1, 0, 0, 0>>) g == w.fld IN
    IF w.ok /\ g[1] >= 0 /\ g[2] >= 0 /\ g[3] >= 0 /\ ValidDateX(g[1], g[2], g[3]) /\ g[4] \in 0..23 /\ g[5] \in 0..59 /\ g[6] \in 0..59
    THEN [ok |-> TRUE, i |-> InstantOf(g[1], g[2], g[3], g[4], g[5], g[6])]
    ELSE NoRead

\* reading an ISO 8601 date-time WITHOUT zone designator: it is a local time ("Date(String) ... local").  The set of
\* instants it may denote; {} = the specification does not vouch for the text
ReadLocal(r, t) == LET z == Read(t \o <<cZ>>) IN
                   IF t = <<>> \/ t[Len(t)] \in {cZ, cPlus, cDash} \/ ~z.ok THEN {} ELSE AllowedOfNaive(r, z.i)
===============================================================================
