SPECIFICATION Spec
CONSTANTS
 MaxTok = 14
 TokSet = {1, 7}
ACTION_CONSTRAINT Emit
INVARIANTS NoDotDot TwoFormulations Idempotent SegmentsSafe SplitOK Shrinks
CHECK_DEADLOCK FALSE
