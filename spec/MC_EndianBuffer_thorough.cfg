SPECIFICATION BSpec
CONSTANTS
 Native = "LITTLE"
 ScalarTypes = {"i16", "u32", "f64"}
 ArrayTypes = {"u64"}
 ArrayLens = {2}
 NVals = 1
 MaxOps = 5
 PoolTypeSeqs <- PoolsNone
 PoolLens <- LensNone
 PoolSetIdx = {}
 KeepHist = TRUE
 BufCtors = {"DEFAULT", "BIG"}
 ReaderCtors = {"DEFAULT", "BIG"}
 RawChunks <- ChunksQ
 Windows <- WindowsM
 ReadTypes = {"u8", "bool", "i16", "f32", "i64"}
 ByteCounts = {0, 1, 3}
VIEW BView
ACTION_CONSTRAINT BEmit
INVARIANTS BTypeOK ContentOK ReaderFaithful ExhaustionReported
PROPERTIES BOrderOnlyLater Independent Forward
CHECK_DEADLOCK FALSE
