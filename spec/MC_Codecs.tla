------------------------------ MODULE MC_Codecs ------------------------------
(* C15 - exhaustive small-scope model of the codec properties over Codecs.tla, and generator of the replay cases.

   The state is one codec input: (mode, x).  Each mode enumerates one input space as its reachable states
       bytes   every byte string over ByteAlpha up to MaxBytes          (Base64 / hex / percent round trips, all tail cases)
       rand    one pseudo-random byte string per length 0..RandMax      (every length)
       sha     one message per length 0..ShaMax                          (every SHA-1 padding case)
       b64t    every text over B64Alpha up to MaxB64                     (symbols, '=', white space, junk: decoder totality)
       hext    every text over HexAlpha up to MaxHex                     (odd/even length, non-digits)
       hexc    one text of hex digits per length 0..HexChainMax          (odd and even lengths around allocation sizes)
       pctt    every text over PctAlpha up to MaxPct                     (truncated / malformed escapes)
       qry     every text over QAlpha up to MaxQ                         (query strings)
       dict    every dictionary with distinct keys from DKeys, values from DVals, up to MaxPairs pairs
   The invariants below ARE the property (on the specification's functions); ACTION_CONSTRAINT Emit prints one JSON
   case per transition (input + the values the standard prescribes), which harness/c15_replay.cpp runs on asl.   *)
EXTENDS Codecs, FiniteSets, TLC, Json

CONSTANTS ByteAlpha, MaxBytes, RandMax, ShaMax, Stride, B64Alpha, MaxB64, HexAlpha, MaxHex, HexChainMax,
          PctAlpha, MaxPct, QAlpha, MaxQ, DKeys, DVals, MaxPairs

VARIABLES mode, x
vars == <<mode, x>>

\* constant values that a .cfg file cannot spell (tuples): keys/values with the delimiters & = + % blank and a non-ASCII byte
KeysSmall == {<<97>>, <<38, 61>>, <<43, 32, 37>>}
ValsSmall == {<<>>, <<98, 61, 38>>, <<32, 43, 233>>}
KeysLarge == KeysSmall \cup {<<107, 49>>, <<35, 47, 63>>}
ValsLarge == ValsSmall \cup {<<37, 50, 48>>, <<255, 1, 126>>}

Modes == {"bytes", "rand", "sha", "b64t", "hext", "hexc", "pctt", "qry", "dict"}

\* deterministic "random" content (depends on the length so that consecutive lengths differ everywhere)
Msg(n)      == [i \in 1..n |-> (i * 37 + n * 101 + ((i * i) % 199) * 7 + 11) % 256]
HexChain(n) == [i \in 1..n |-> HexDigit((i * 7 + n) % 16)]

Init == mode = "boot" /\ x = <<>>
\* the three "one input per length" modes run as Stride interleaved chains (lengths r, r + Stride, ...), so that the
\* breadth-first search has Stride states per level to work on in parallel instead of one
Chained     == {"rand", "sha", "hexc"}
ChainMsg(m, n) == IF m = "hexc" THEN HexChain(n) ELSE Msg(n)
Boot(m)     == /\ mode = "boot" /\ mode' = m
               /\ IF m \in Chained THEN \E r \in 0..(Stride - 1) : x' = ChainMsg(m, r) ELSE x' = <<>>
GrowBytes   == mode = "bytes" /\ Len(x) < MaxBytes /\ \E b \in ByteAlpha : x' = Append(x, b) /\ UNCHANGED mode
GrowRand    == mode = "rand" /\ Len(x) + Stride <= RandMax /\ x' = Msg(Len(x) + Stride) /\ UNCHANGED mode
GrowSha     == mode = "sha" /\ Len(x) + Stride <= ShaMax /\ x' = Msg(Len(x) + Stride) /\ UNCHANGED mode
GrowB64T    == mode = "b64t" /\ Len(x) < MaxB64 /\ \E c \in B64Alpha : x' = Append(x, c) /\ UNCHANGED mode
GrowHexT    == mode = "hext" /\ Len(x) < MaxHex /\ \E c \in HexAlpha : x' = Append(x, c) /\ UNCHANGED mode
GrowHexC    == mode = "hexc" /\ Len(x) + Stride <= HexChainMax /\ x' = HexChain(Len(x) + Stride) /\ UNCHANGED mode
GrowPctT    == mode = "pctt" /\ Len(x) < MaxPct /\ \E c \in PctAlpha : x' = Append(x, c) /\ UNCHANGED mode
GrowQry     == mode = "qry" /\ Len(x) < MaxQ /\ \E c \in QAlpha : x' = Append(x, c) /\ UNCHANGED mode
GrowDict    == mode = "dict" /\ Len(x) < MaxPairs
               /\ \E k \in DKeys, v \in DVals : (\A i \in 1..Len(x) : x[i][1] # k) /\ x' = Append(x, <<k, v>>)
               /\ UNCHANGED mode
Next == (\E m \in Modes : Boot(m)) \/ GrowBytes \/ GrowRand \/ GrowSha \/ GrowB64T \/ GrowHexT \/ GrowHexC
        \/ GrowPctT \/ GrowQry \/ GrowDict
Spec == Init /\ [][Next]_vars

-------------------------------------------------------------------------------
(* the property, on the specification's own functions *)
IsBytes(s) == \A i \in 1..Len(s) : s[i] \in 0..255
NoNul(s)   == \A i \in 1..Len(s) : s[i] # 0
Data       == mode \in {"bytes", "rand"}
WsChars    == {32, 9, 10, 13}
InsertAtPos(t, p, c) == SubSeq(t, 1, p) \o <<c>> \o SubSeq(t, p + 1, Len(t))       \* p = 0..Len(t)

TypeOK == /\ mode \in Modes \cup {"boot"}
          /\ mode \in {"bytes", "rand", "sha", "b64t", "hext", "hexc", "pctt", "qry"} => IsBytes(x)

\* Base64: text shape (length, alphabet, padding only at the end, as much as the tail case needs)
B64Shape == Data =>
    LET t == B64Enc(x)
        n == Len(x)
        np == IF n % 3 = 0 THEN 0 ELSE 3 - (n % 3)
    IN /\ Len(t) = 4 * ((n + 2) \div 3)
       /\ \A i \in 1..(Len(t) - np) : IsB64Sym(t[i])
       /\ \A i \in (Len(t) - np + 1)..Len(t) : t[i] = Pad
B64TwoFormulations == Data => B64Enc(x) = B64EncBits(x)
B64RoundTrip == Data => /\ B64DecNoWs(B64Enc(x)) = [ok |-> TRUE, v |-> x]
                        /\ B64DecMachine(B64Enc(x)) = [ok |-> TRUE, v |-> x]
                        /\ B64Canon(B64Enc(x))
\* white space anywhere in the text does not change the decoded value
B64WsTolerant == (mode = "bytes") =>
    LET t == B64Enc(x) IN
    \A p \in 0..Len(t), c \in WsChars : /\ B64DecWs(InsertAtPos(t, p, c)) = [ok |-> TRUE, v |-> x]
                                        /\ B64DecMachine(InsertAtPos(t, p, c)) = [ok |-> TRUE, v |-> x]
\* on arbitrary text the two decoder formulations have the same domain and value; canonical texts re-encode to themselves
B64TextAgree == (mode = "b64t") =>
    LET a == B64DecWs(x)
        b == B64DecMachine(x)
    IN /\ a = b
       /\ a.ok => Len(a.v) <= B64Bound(x)
       /\ B64Canon(x) => B64Enc(a.v) = StripWs(x)
HexRoundTrip == Data => /\ HexDec(HexEnc(x)) = [ok |-> TRUE, v |-> x]
                        /\ HexDec(HexEncU(x)) = [ok |-> TRUE, v |-> x]
                        /\ Len(HexEnc(x)) = 2 * Len(x)
                        /\ \A i \in 1..(2 * Len(x)) : HexEnc(x)[i] \in (48..57) \cup (97..102)
HexTextOK == (mode \in {"hext", "hexc"}) =>
    LET r == HexDec(x) IN /\ r.ok <=> (Len(x) % 2 = 0 /\ \A i \in 1..Len(x) : IsHex(x[i]))
                          /\ r.ok => (HexEnc(r.v) = [i \in 1..Len(x) |-> IF x[i] \in 65..70 THEN x[i] + 32 ELSE x[i]])
PctRoundTrip == (Data /\ NoNul(x)) =>
    \A comp \in BOOLEAN : /\ PctDec(PctEnc(x, comp)) = [ok |-> TRUE, v |-> x]
                          /\ PctDec(PctEncL(x, comp)) = [ok |-> TRUE, v |-> x]
                          /\ PctEncodes(PctEnc(x, comp), x, comp)
                          /\ PctEncodes(PctEncAll(x), x, comp)
PctTextOK == (mode = "pctt") =>
    LET r == PctDec(x) IN r.ok => (Len(r.v) <= Len(x) /\ PctDec(PctEncAll(r.v)).v = r.v)
QueryRoundTrip == (mode = "dict") =>
    LET q == ParseQuery(Params(x)) IN q.ok /\ q.v = DictSet(x)
QueryTextOK == (mode = "qry") =>
    LET q == ParseQuery(x) IN q.ok => (\A p \in q.v : p[1] # <<>>) /\ Cardinality(q.v) <= Len(x) \div 2
\* SHA-1: padding rule, and the two formulations of the compression function agree
ShaPadding == (mode = "sha") =>
    LET p == ShaPad(x)
        n == Len(x)
    IN /\ Len(p) % 64 = 0
       /\ Len(p) = 64 * ((n + 8) \div 64 + 1)
       /\ SubSeq(p, 1, n) = x /\ p[n + 1] = 128
       /\ \A i \in (n + 2)..(Len(p) - 8) : p[i] = 0
       /\ LET L == SubSeq(p, Len(p) - 3, Len(p)) IN ((L[1] * 256 + L[2]) * 256 + L[3]) * 256 + L[4] = 8 * n
ShaTwoFormulations == (mode = "sha") => Sha1(x) = Sha1Circ(x)

\* FIPS 180-4 / RFC 3174 test vectors: "abc", "", "abcdbcdecdefdefgefghfghighijhijkijkljklmklmnlmnomnopnopq" (two blocks)
Abc   == <<97, 98, 99>>
Abc56 == [i \in 1..56 |-> 97 + ((i - 1) \div 4) + ((i - 1) % 4)]
ASSUME ShaVectors ==
    /\ Sha1Hex(Abc) = <<97,57,57,57,51,101,51,54,52,55,48,54,56,49,54,97,98,97,51,101,50,53,55,49,55,56,53,48,99,50,54,99,57,99,100,48,100,56,57,100>>
    /\ Sha1Hex(<<>>) = <<100,97,51,57,97,51,101,101,53,101,54,98,52,98,48,100,51,50,53,53,98,102,101,102,57,53,54,48,49,56,57,48,97,102,100,56,48,55,48,57>>
    /\ Sha1Hex(Abc56) = <<56,52,57,56,51,101,52,52,49,99,51,98,100,50,54,101,98,97,97,101,52,97,97,49,102,57,53,49,50,57,101,53,101,53,52,54,55,48,102,49>>
\* RFC 4648 section 10 vectors: "", "f", "fo", "foo", "foob", "fooba", "foobar"
ASSUME B64Vectors ==
    /\ B64Enc(<<>>) = <<>>
    /\ B64Enc(<<102>>) = <<90, 103, 61, 61>>
    /\ B64Enc(<<102, 111>>) = <<90, 109, 56, 61>>
    /\ B64Enc(<<102, 111, 111>>) = <<90, 109, 57, 118>>
    /\ B64Enc(<<102, 111, 111, 98>>) = <<90, 109, 57, 118, 89, 103, 61, 61>>
    /\ B64Enc(<<102, 111, 111, 98, 97>>) = <<90, 109, 57, 118, 89, 109, 69, 61>>
    /\ B64Enc(<<102, 111, 111, 98, 97, 114>>) = <<90, 109, 57, 118, 89, 109, 70, 121>>
    /\ HexEnc(<<0, 171, 255>>) = <<48, 48, 97, 98, 102, 102>>
    /\ PctEnc(<<97, 32, 47, 37, 233>>, TRUE) = <<97, 37, 50, 48, 37, 50, 70, 37, 50, 53, 37, 69, 57>>
    /\ PctEnc(<<97, 32, 47, 37, 233>>, FALSE) = <<97, 37, 50, 48, 47, 37, 50, 53, 37, 69, 57>>

-------------------------------------------------------------------------------
(* replay cases: the input and what the standard prescribes for it *)
\* white space sprinkled through a text: CR LF after every e characters, a leading blank and a trailing newline
Sprinkle(t, e) == <<32>> \o Cat([i \in 1..Len(t) |-> IF i % e = 0 THEN <<t[i], 13, 10>> ELSE <<t[i]>>]) \o <<10>>
PairSeq(S) == LET RECURSIVE Go(_)
                  Go(T) == IF T = {} THEN <<>> ELSE LET p == CHOOSE p \in T : TRUE IN <<p>> \o Go(T \ {p})
              IN Go(S)
CaseOf(m, y) ==
    IF m \in {"bytes", "rand"} THEN
        [k |-> "bytes", in |-> y, b64 |-> B64Enc(y), b64ws |-> Sprinkle(B64Enc(y), 1 + (Len(y) % 7)),
         hex |-> HexEnc(y), hexu |-> HexEncU(y), nz |-> NoNul(y),
         pc |-> IF NoNul(y) THEN PctEnc(y, TRUE) ELSE <<>>, pu |-> IF NoNul(y) THEN PctEnc(y, FALSE) ELSE <<>>,
         pl |-> IF NoNul(y) THEN PctEncL(y, TRUE) ELSE <<>>, pa |-> IF NoNul(y) THEN PctEncAll(y) ELSE <<>>]
    ELSE IF m = "sha" THEN [k |-> "sha", in |-> y, sha |-> Sha1Bytes(y)]
    ELSE IF m = "b64t" THEN [k |-> "b64t", in |-> y, ok |-> B64Canon(y), v |-> IF B64Canon(y) THEN B64DecWs(y).v ELSE <<>>, bound |-> B64Bound(y)]
    ELSE IF m \in {"hext", "hexc"} THEN [k |-> "hext", in |-> y, ok |-> HexDec(y).ok, v |-> HexDec(y).v, bound |-> HexBound(y)]
    ELSE IF m = "pctt" THEN LET r == PctDec(y) IN [k |-> "pctt", in |-> y, ok |-> r.ok /\ NoNul(r.v), v |-> r.v, bound |-> Len(y)]
    ELSE IF m = "qry" THEN LET q == ParseQuery(y) IN [k |-> "qry", in |-> y, ok |-> q.ok, v |-> PairSeq(q.v), bound |-> Len(y)]
    ELSE [k |-> "dict", d |-> y, text |-> Params(y)]
Emit == PrintT(ToJson(CaseOf(mode', x')))
===============================================================================
