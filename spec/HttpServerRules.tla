---------------------------- MODULE HttpServerRules ----------------------------
(* C10 (growth) - what HttpServer does by itself around the application's handler, per connection.

   A server configuration is [cors, extra]: setCrossDomain(cors) and the methods added with addMethod().  A request is
       [method, ver, conn, origin, acrh, expect, clen, blen, hcode, hblen]
       ver     "1.0" / "1.1"                   conn   the Connection header in lower case ("" = none)
       origin  bytes of the Origin header      acrh   bytes of Access-Control-Request-Headers   (<<>> = header absent)
       expect  TRUE: "Expect: 100-continue"    clen   the Content-Length announced   blen  the body bytes actually sent
       hcode / hblen   status and body length the application's handler produces when it is called
   Answer(cfg, r) is what must come back on the wire:
       interim  the 1xx responses before the final one (<<100>> when the client asked and the length is acceptable)
       handler  whether the application's handler runs (not for OPTIONS, not for a refused expectation)
       code, blen, must (headers that must be present with a value), mustnot (headers that must be absent)
       closes   whether the server closes the connection after this exchange
   Header values are [name, kind, v]: kind "text" = exactly these bytes; kind "list" = a comma separated list with
   exactly these members (Allow, Access-Control-Allow-Methods).
   The connection is the transition system: Exchange(r) is enabled while the connection is open; `closes` ends it
   (HTTP/1.0 without keep-alive, "Connection: close" in any capitalisation, a refused expectation).
   Bindings: R  MC_HttpServerRules*.cfg prints every connection history -> harness/c10_site_replay.cpp plays it on a raw
   socket against real HttpServers (one per configuration);  V  Trace_HttpServerRules.tla validates recorded connections. *)
EXTENDS Naturals, Sequences, FiniteSets, TLC, Json

CONSTANTS Configs,      \* server configurations explored
          ReqSet,       \* request shapes explored
          MaxReqs       \* requests per connection

BaseMethods == <<"GET", "POST", "OPTIONS", "PUT", "DELETE", "PATCH", "HEAD">>
TooBig == 128000000                     \* announced lengths from here on are refused when the client asks first
AllowList(cfg) == BaseMethods \o cfg.extra
SeqSet(s) == {s[i] : i \in 1..Len(s)}

Text(name, v) == [name |-> name, kind |-> "text", v |-> v, l |-> <<>>]
List(name, l) == [name |-> name, kind |-> "list", v |-> <<>>, l |-> l]
TRUEBYTES == <<116, 114, 117, 101>>     \* "true"
KEEPALIVE == <<107, 101, 101, 112, 45, 97, 108, 105, 118, 101>>   \* "keep-alive"

Refused(r) == r.expect /\ r.clen >= TooBig
HandlerRuns(r) == ~Refused(r) /\ r.method # "OPTIONS"
Closes(r) == Refused(r) \/ r.conn = "close" \/ (r.ver = "1.0" /\ r.conn # "keep-alive")
Cors(cfg, r) == cfg.cors /\ r.origin # <<>>
CorsHeaders(cfg, r) == IF Cors(cfg, r) THEN <<Text("Access-Control-Allow-Origin", r.origin),
                                              Text("Access-Control-Allow-Credentials", TRUEBYTES)>> ELSE <<>>
KeepHeader(r) == IF r.ver = "1.0" /\ r.conn = "keep-alive" THEN <<Text("Connection", KEEPALIVE)>> ELSE <<>>

Answer(cfg, r) ==
    IF Refused(r)
    THEN [interim |-> <<>>, handler |-> FALSE, code |-> 417, blen |-> 0, must |-> <<>>, mustnot |-> {}, closes |-> TRUE]
    ELSE LET interim == IF r.expect THEN <<100>> ELSE <<>>
             nocors == IF cfg.cors THEN {} ELSE {"Access-Control-Allow-Origin", "Access-Control-Allow-Credentials"}
         IN IF r.method = "OPTIONS"
            THEN [interim |-> interim, handler |-> FALSE, code |-> 200, blen |-> 0,
                  must |-> <<List("Allow", AllowList(cfg))>>
                           \o (IF r.origin # <<>> THEN <<List("Access-Control-Allow-Methods", AllowList(cfg))>> ELSE <<>>)
                           \o (IF r.acrh # <<>> THEN <<Text("Access-Control-Allow-Headers", r.acrh)>> ELSE <<>>)
                           \o CorsHeaders(cfg, r) \o KeepHeader(r),
                  mustnot |-> nocors, closes |-> Closes(r)]
            ELSE [interim |-> interim, handler |-> TRUE, code |-> r.hcode, blen |-> r.hblen,
                  must |-> (IF r.hcode = 405 THEN <<List("Allow", AllowList(cfg))>> ELSE <<>>)
                           \o CorsHeaders(cfg, r) \o KeepHeader(r),
                  mustnot |-> nocors, closes |-> Closes(r)]

-----------------------------------------------------------------------------
VARIABLES cfg, open, hist
vars == <<cfg, open, hist>>
NoCfg == [cors |-> FALSE, extra |-> <<"-">>]

Init == cfg = NoCfg /\ open = FALSE /\ hist = <<>>
Connect == /\ cfg = NoCfg
           /\ \E c \in Configs : cfg' = c
           /\ open' = TRUE /\ hist' = <<>>
Exchange(r) == /\ open /\ Len(hist) < MaxReqs
               /\ hist' = Append(hist, [req |-> r, ans |-> Answer(cfg, r)])
               /\ open' = ~Answer(cfg, r).closes
               /\ UNCHANGED cfg
Next == Connect \/ \E r \in ReqSet : Exchange(r)
Spec == Init /\ [][Next]_vars

-----------------------------------------------------------------------------
(* properties of every connection *)
Last == hist[Len(hist)]
\* nothing is answered on a connection after an exchange that closes it
ClosedIsFinal == \A k \in 1..Len(hist) : hist[k].ans.closes => k = Len(hist)
OpenIffLastKeeps == (hist # <<>>) => (open <=> ~Last.ans.closes)
\* a refused expectation never reaches the application and is the only final answer the request gets
RefusalIsFinal == \A k \in 1..Len(hist) : hist[k].ans.code = 417 =>
                      (~hist[k].ans.handler /\ hist[k].ans.closes /\ hist[k].ans.interim = <<>>)
\* the application never sees OPTIONS; the server answers it with the methods it allows, at least the built-in ones
OptionsBuiltIn == \A k \in 1..Len(hist) : hist[k].req.method = "OPTIONS" =>
                      /\ ~hist[k].ans.handler /\ hist[k].ans.code \in {200, 417}
                      /\ (hist[k].ans.code = 200 =>
                             \E h \in SeqSet(hist[k].ans.must) : h.name = "Allow" /\ SeqSet(BaseMethods) \subseteq SeqSet(h.l))
\* CORS headers exactly when the server was told to and the request names an origin, echoing that origin
CorsEcho == \A k \in 1..Len(hist) :
                LET a == hist[k].ans  r == hist[k].req IN
                a.code # 417 =>
                   /\ (cfg.cors /\ r.origin # <<>>) => Text("Access-Control-Allow-Origin", r.origin) \in SeqSet(a.must)
                   /\ ~cfg.cors => "Access-Control-Allow-Origin" \in a.mustnot
\* an HTTP/1.0 peer is kept only when it asked for it, and is told so
Http10 == \A k \in 1..Len(hist) :
              LET a == hist[k].ans  r == hist[k].req IN
              (r.ver = "1.0" /\ ~a.closes) => Text("Connection", KEEPALIVE) \in SeqSet(a.must)

View == <<cfg, open, hist>>
Emit == IF hist' # <<>> /\ hist' # hist
        THEN PrintT(ToJson([kind |-> "rules", cfg |-> cfg', hist |-> hist', open |-> open',
                            hz |-> IF \E k \in 1..Len(hist') : Refused(hist'[k].req)
                                   THEN {"ExpectRefusedStillDispatched"} ELSE {}]))
        ELSE TRUE
=============================================================================
