-------------------------- MODULE Trace_CalendarZone ---------------------------
(* V binding for the growth part of C19: validates executions recorded from the real asl::Date running in a zone with
   daylight saving (harness/c19_zone_record.cpp sets TZ to the POSIX string of one of the rules of CalendarZone.tla and
   says so in its first line) with the operators of CalendarZone.tla.  One ndjson line per public call; instants are
   logged as [dn, sod, us] (projected from the double the Date holds), texts as arrays of character codes.

     reset  : tz = the TZ string the process runs with; the rule it denotes becomes the zone of the trace
     lsplit : Date(t).localOffset() and Date(t).split()          off, f = [y, m, d, h, mi, s, wd]
     lmake  : Date(LOCAL, y, m, d, h, mi, s).time()              (valid fields)
     ltext  : Date(t).toString(fmt)                              fmt in LONG SHORT FULL DATE HTTP, t on the millisecond grid
     lread  : Date(String)                                       with or without zone designator
     lpread : Date(text, format)                                 a local time
     now    : Date::now() between two readings of the system clock taken by the recorder
     add    : (Date(a) + s).time()        diff : Date(a) - Date(b)        cmp : a < b, a <= b, a > b, a == b, a != b

   Outside the time_t range the offset close to a change of the offset may be either offset of the zone
   (AllowedOffsets); all fields of one split must still belong to one offset.  Date::now() has to lie between the
   two clock readings that bracket the call and therefore never runs backwards while the clock itself does not.   *)
EXTENDS CalendarZone, Json, IOUtils, TLC

T == ndJsonDeserialize(IOEnv.TRACE)
VARIABLES l, zone, last
vars == <<l, zone, last>>

I3(a) == Inst(a[1], a[2], a[3])
FSeq(f) == <<f.y, f.m, f.d, f.h, f.mi, f.s, f.wd>>
Z == Rules[zone]
\* years -100 000 .. 100 000
InRange(i) == i.dn \in -37250000..35810000 /\ i.sod \in 0..86399 /\ i.us \in 0..999999
Resolved(i) == {RoundMilli(i), TruncMilli(i)}
ValidClock(h, mi, s) == h \in 0..23 /\ mi \in 0..59 /\ s \in 0..59

SplitOK(e) == LET i == I3(e.i) IN
              /\ InRange(i)
              /\ e.off \in AllowedOffsets(Z, i)
              /\ \E x \in Resolved(i) : e.f = FSeq(Fields(AddSeconds(x, e.off)))
MakeOK(e) == (ValidDateX(e.f[1], e.f[2], e.f[3]) /\ ValidClock(e.f[4], e.f[5], e.f[6])) =>
                 /\ e.ok = 1
                 /\ I3(e.i) \in AllowedOfNaive(Z, InstantOf(e.f[1], e.f[2], e.f[3], e.f[4], e.f[5], e.f[6]))
TextOK(e) == LET i == I3(e.i) IN
             /\ InRange(i) /\ i.us % 1000 = 0
             /\ IF e.fmt = "HTTP" THEN e.t = FormatUTC("HTTP", i)
                ELSE \E o \in AllowedOffsets(Z, i) : e.t = FormatFields(e.fmt, Fields(AddSeconds(i, o)), i.us \div 1000)
ReadOK(e) == LET S == ReadLocal(Z, e.t)  a == Read(e.t) IN
             /\ S # {} => (e.ok = 1 /\ \E x \in S : Near(I3(e.i), x, 100))
             /\ a.ok => (e.ok = 1 /\ Near(I3(e.i), a.i, 100))
PatReadOK(e) == LET rd == ReadPatternX(e.t, e.f) IN rd.ok => (e.ok = 1 /\ I3(e.i) \in AllowedOfNaive(Z, rd.i))
\* lo - 2 us <= now <= hi + 2 us (the projections round to the microsecond), and not before the previous now()
NowOK(e) == LET i == I3(e.i) IN
            /\ ~Before(AddMicros(i, 2), I3(e.lo)) /\ ~Before(AddMicros(I3(e.hi), 2), i)
            /\ ~Before(AddMicros(i, 2), last)
AddOK(e) == Near(I3(e.r), AddSeconds(I3(e.a), e.s), IF e.a[3] = 0 THEN 0 ELSE 100)
\* d = [days, seconds, microseconds] of the difference, all of one sign or zero
DiffOK(e) == Near(AddMicros(AddSeconds([I3(e.b) EXCEPT !.dn = @ + e.d[1]], e.d[2]), e.d[3]), I3(e.a), 100)
\* the recorder keeps instants either identical or at least 100 us apart, and at least 100 us away from "1 ms apart"
CmpOK(e) == LET a == I3(e.a) b == I3(e.b) IN
            /\ (a = b \/ ~Near(a, b, 50)) => /\ e.lt = (IF Before(a, b) THEN 1 ELSE 0)
                                             /\ e.gt = (IF Before(b, a) THEN 1 ELSE 0)
                                             /\ e.le = 1 - e.gt
            /\ Near(a, b, 900) => (e.eq = 1 /\ e.ne = 0)
            /\ ~Near(a, b, 1100) => (e.eq = 0 /\ e.ne = 1)

TInit == l = 1 /\ zone = 1 /\ last = Inst(0, 0, 0)
TStep ==
  /\ l <= Len(T)
  /\ l' = l + 1
  /\ LET e == T[l] IN
     IF e.e = "reset" THEN RuleOfTz(e.tz) # 0 /\ zone' = RuleOfTz(e.tz) /\ last' = Inst(0, 0, 0)
     ELSE IF e.e = "now" THEN NowOK(e) /\ last' = I3(e.i) /\ zone' = zone
     ELSE /\ UNCHANGED <<zone, last>>
          /\ CASE e.e = "lsplit" -> SplitOK(e)
               [] e.e = "lmake" -> MakeOK(e)
               [] e.e = "ltext" -> TextOK(e)
               [] e.e = "lread" -> ReadOK(e)
               [] e.e = "lpread" -> PatReadOK(e)
               [] e.e = "add" -> AddOK(e)
               [] e.e = "diff" -> DiffOK(e)
               [] e.e = "cmp" -> CmpOK(e)
               [] OTHER -> FALSE

TraceSpec == TInit /\ [][TStep]_vars
TraceAccepted == TLCGet("stats").diameter - 1 = Len(T)
===============================================================================
