------------------------------- MODULE HashChains -------------------------------
(* C02, implementation-shaped: asl::HashMap as the code builds it (include/asl/HashMap.h) - a table of NB bins (a
   power of two), each bin a singly linked chain, new entries appended at the tail of their chain, the entry
   count n and the reference count rc stored in the table, operator[] calling rehash() first (table rebuilt 8 times
   larger when n >= (NB+2)*7/8, chains refilled in enumeration order), remove() unlinking a chain node,
   dup()/clone() refilling a table of the same size, operator== walking both enumerations.  Keys are
   non-negative integers and hash(int) is the identity, so bin = key mod NB.

   The module runs the property-level specification FiniteMap in lock-step on ghost variables (FM!...): every
   HashChains action is the conjunction of the transcribed code step and the FiniteMap action of the same call.
   TLC then checks that every handle's table abstracts to the FiniteMap block of that handle (Refines), that
   length() is the number of distinct keys, chains hold each key once and in its own bin, reference counts agree,
   and that operator== agrees with equality of the abstract maps.

   Five switches transcribe the code as it is on the pinned tree / re-open a design question; with all of them
   FALSE the module is the repaired design and every invariant holds:
     HeadBug            remove() of the first node of a chain stores 0 in the bin (a[bin] = 0) instead of the successor
     EqLockstep         operator== compares the two enumerations position by position
     AllowSharedRehash  operator[] may rebuild the table while other handles share it (open finding RehashWhileShared:
                        the rebuilt table goes to the calling handle only; the nodes are relinked under the others)
     ZeroBins           HashMap(n) with n < 1 builds a table of nextPoT(n) = 0 bins (every later access computes
                        hash & (0 - 1) and indexes past the end of the table) instead of one bin
     SelfAssignClears   operator= releases the own table before it looks at the argument: m = m with a reference
                        count of 1 clears the map
   checks/C02.py model-checks the repaired design (must hold) and each switch on its own (TLC must produce the
   counterexample) - the latter shows that the invariants really see these defects.

   R: the histories (same vocabulary as FiniteMap, expected observation taken from the FiniteMap ghost state) are
   replayed on HashMap<int,int>(NB0) with the integer keys themselves, so the real table goes through exactly
   these chain shapes and growth steps; the emitted bin count and enumeration order are compared as well
   (reported as shape agreement, not as a property failure).                                                    *)
EXTENDS Integers, Sequences, FiniteSets, TLC, Json, SequencesExt

CONSTANTS NH, K, V, MaxOps, MapOps,  \* as in FiniteMap (K: non-negative integer keys = their hash values)
          NB0,                   \* bins of a freshly constructed table: HashMap(NB0)
          Sizes,                 \* arguments n of HashMap(n) in NewSized (expected number of entries)
          HeadBug, EqLockstep, AllowSharedRehash, ZeroBins, SelfAssignClears

VARIABLES ht,      \* handle -> table id (0: dead)
          tab,     \* table id -> [bins : Seq(chain), n : Int, rc : Int]; chain = Seq([k, v])
          ghb, gblk, hist, hz     \* the FiniteMap state run in lock-step (ghost) and the shared history
vars == <<ht, tab, ghb, gblk, hist, hz>>

FM == INSTANCE FiniteMap WITH hb <- ghb, blk <- gblk, KeepHist <- TRUE, SetOps <- FALSE

H    == 1..NH
T    == 1..(NH+1)
Skip == 2                                     \* ASL_HMAP_SKIP: slots 0 and 1 of the array hold n and rc
NoTab == [bins |-> <<>>, n |-> 0, rc |-> 0]
NewTab(nb) == [bins |-> [i \in 1..nb |-> <<>>], n |-> 0, rc |-> 1]
NBins(t) == Len(t.bins)
Bin(k, nb) == (k % nb) + 1                     \* hash & (nb-1), 1-based
\* nextPoT(n): the least power of two >= n; 0 for n < 1
RECURSIVE PoT(_, _)
PoT(n, p) == IF p >= n THEN p ELSE PoT(n, 2 * p)
NextPoT(n) == IF n < 1 THEN 0 ELSE PoT(n, 1)
\* HashMap(int n): a.resize(nextPoT(n) + ASL_HMAP_SKIP) - repaired: at least one bin
BinsFor(n) == IF ZeroBins THEN NextPoT(n) ELSE NextPoT(IF n < 1 THEN 1 ELSE n)
RECURSIVE Flatten(_, _)
Flatten(bins, i) == IF i > Len(bins) THEN <<>> ELSE bins[i] \o Flatten(bins, i + 1)
Enum(t) == Flatten(t.bins, 1)                  \* enumeration order: bins ascending, each chain from its head
ChainPos(c, k) == IF \E i \in 1..Len(c) : c[i].k = k THEN CHOOSE i \in 1..Len(c) : c[i].k = k /\ \A j \in 1..(i-1) : c[j].k # k ELSE 0

\* rehash(): called at the start of every non-const operator[]
Pending(t) == t.n >= ((NBins(t) + Skip) * 7) \div 8 /\ NBins(t) + Skip <= 280000
Rehash(t) == IF ~Pending(t) THEN t
             ELSE LET nb == NBins(t) * 8
                      e == Enum(t) IN
                  [t EXCEPT !.bins = [j \in 1..nb |-> SelectSeq(e, LAMBDA x : Bin(x.k, nb) = j)]]
\* T& operator[](key): rehash, walk the chain, append a default-valued node at the tail when absent
IndexT(t0, k) == LET t == Rehash(t0)
                     b == Bin(k, NBins(t)) IN
                 IF ChainPos(t.bins[b], k) # 0 THEN t
                 ELSE [t EXCEPT !.bins[b] = Append(@, [k |-> k, v |-> 0]), !.n = @ + 1]
AssignT(t, k, v) == LET b == Bin(k, NBins(t))
                        p == ChainPos(t.bins[b], k) IN
                    [t EXCEPT !.bins[b][p].v = v]
SetT(t, k, v) == AssignT(IndexT(t, k), k, v)      \* (*this)[key] = value
ValT(t, k) == LET c == t.bins[Bin(k, NBins(t))] IN c[ChainPos(c, k)].v
\* remove(key)
RemoveT(t, k) == LET b == Bin(k, NBins(t))
                     c == t.bins[b]
                     p == ChainPos(c, k) IN
                 IF p = 0 THEN t
                 ELSE IF p = 1 THEN [t EXCEPT !.bins[b] = IF HeadBug THEN <<>> ELSE Tail(c), !.n = @ - 1]
                 ELSE [t EXCEPT !.bins[b] = SubSeq(c, 1, p - 1) \o SubSeq(c, p + 1, Len(c)), !.n = @ - 1]
ClearT(t) == [t EXCEPT !.bins = [i \in 1..NBins(t) |-> <<>>], !.n = 0]
\* dup(): HashMap b(sameSize); foreach2(k, v, *this) b[k] = v;
RECURSIVE Fill(_, _, _)
Fill(t, e, i) == IF i > Len(e) THEN t ELSE Fill(SetT(t, e[i].k, e[i].v), e, i + 1)
DupT(t) == Fill(NewTab(NBins(t)), Enum(t), 1)
\* find / has
FindT(t, k) == LET c == t.bins[Bin(k, NBins(t))] IN IF ChainPos(c, k) = 0 THEN 0 ELSE c[ChainPos(c, k)].v + 1
\* operator==
EqT(a, b) == IF a.n # b.n THEN FALSE
             ELSE IF EqLockstep
                  THEN LET ea == Enum(a) eb == Enum(b) IN
                       \A i \in 1..Len(ea) : i <= Len(eb) => ea[i] = eb[i]
                  ELSE \A i \in 1..Len(Enum(a)) : FindT(b, Enum(a)[i].k) = Enum(a)[i].v + 1
\* the finite map a table stands for
AbsT(t) == LET e == Enum(t) IN [k \in {e[i].k : i \in 1..Len(e)} |-> e[CHOOSE i \in 1..Len(e) : e[i].k = k].v]

-------------------------------------------------------------------------------
Live == {h \in H : ht[h] # 0}
TT(h) == tab[ht[h]]
FreeTab(htx) == CHOOSE t \in T : (\A h \in H : htx[h] # t) /\ \A u \in T : (\A h \in H : htx[h] # u) => t <= u
\* unreferenced tables are reset so that equal states coincide
GcT(htx, tabx) == [t \in T |-> IF \E h \in H : htx[h] = t THEN tabx[t] ELSE NoTab]
\* releasing one reference to table id t: --rc == 0 -> clear() and the storage goes away
Release(tabx, t) == [tabx EXCEPT ![t].rc = @ - 1]

Init == /\ ht = [h \in H |-> IF h = 1 THEN 1 ELSE 0]
        /\ tab = [t \in T |-> IF t = 1 THEN NewTab(NB0) ELSE NoTab]
        /\ FM!Init

SharedPending(h) == TT(h).rc > 1 /\ Pending(TT(h))
\* an in-place call through h; rebuilt: the call went through rehash() with a pending rebuild
InPlaceT(h, t2, rebuilt) ==
    IF rebuilt /\ TT(h).rc > 1
    THEN \* open finding: the new table (with a copy of n and rc) goes to h alone; the old one keeps its bin heads, whose
         \* nodes now continue into the chains of the new table
         LET old == TT(h)
             nt == FreeTab(ht)
             seen(i) == LET c == old.bins[i] IN
                        IF c = <<>> THEN <<>>
                        ELSE LET nc == t2.bins[Bin(c[1].k, NBins(t2))]
                                 p == ChainPos(nc, c[1].k) IN
                             IF p = 0 THEN <<>> ELSE SubSeq(nc, p, Len(nc)) IN
         /\ ht' = [ht EXCEPT ![h] = nt]
         /\ tab' = [tab EXCEPT ![nt] = t2, ![ht[h]].bins = [i \in 1..NBins(old) |-> seen(i)]]
    ELSE /\ tab' = [tab EXCEPT ![ht[h]] = t2]
         /\ UNCHANGED ht

SetKV(h, k, v) == /\ FM!SetKV(h, k, v)
                  /\ (AllowSharedRehash \/ ~SharedPending(h))
                  /\ InPlaceT(h, SetT(TT(h), k, v), Pending(TT(h)))
Index(h, k) == /\ FM!Index(h, k)
               /\ (AllowSharedRehash \/ ~SharedPending(h))
               /\ InPlaceT(h, IndexT(TT(h), k), Pending(TT(h)))
RemoveK(h, k) == /\ FM!RemoveK(h, k) /\ InPlaceT(h, RemoveT(TT(h), k), FALSE)
Clear(h) == /\ FM!Clear(h) /\ InPlaceT(h, ClearT(TT(h)), FALSE)
\* HashMap(const HashMap&): shares the table, ++rc
CopyHandle(h, g) == /\ FM!CopyHandle(h, g)
                    /\ ht' = [ht EXCEPT ![g] = ht[h]]
                    /\ tab' = [tab EXCEPT ![ht[h]].rc = @ + 1]
\* operator=: release the own table, share b's, ++rc
AssignHandle(h, g) == /\ FM!AssignHandle(h, g)
                      /\ LET ht2 == [ht EXCEPT ![g] = ht[h]]
                             t1 == Release(tab, ht[g])
                             t2 == [t1 EXCEPT ![ht[h]].rc = @ + 1] IN
                         /\ ht' = ht2 /\ tab' = GcT(ht2, t2)
\* ~HashMap
DropHandle(h) == /\ FM!DropHandle(h)
                 /\ LET ht2 == [ht EXCEPT ![h] = 0] IN
                    /\ ht' = ht2 /\ tab' = GcT(ht2, Release(tab, ht[h]))
\* dup(): the refilled table replaces the own one (swap), the temporary releases the old one
Dup(h) == /\ FM!Dup(h)
          /\ LET nt == FreeTab(ht)
                 ht2 == [ht EXCEPT ![h] = nt] IN
             /\ ht' = ht2
             /\ tab' = GcT(ht2, [Release(tab, ht[h]) EXCEPT ![nt] = DupT(TT(h))])
\* g = h.clone()
Clone(h, g) == /\ FM!Clone(h, g)
               /\ LET t1 == IF ht[g] # 0 THEN Release(tab, ht[g]) ELSE tab
                      ht1 == [ht EXCEPT ![g] = 0]
                      nt == FreeTab(ht1)
                      ht2 == [ht EXCEPT ![g] = nt] IN
                  /\ ht' = ht2
                  /\ tab' = GcT(ht2, [t1 EXCEPT ![nt] = DupT(TT(h))])

\* a default-constructed table bound to g
NewEmpty(g) == /\ FM!NewEmpty(g)
               /\ LET t1 == IF ht[g] # 0 THEN Release(tab, ht[g]) ELSE tab
                      ht1 == [ht EXCEPT ![g] = 0]
                      nt == FreeTab(ht1)
                      ht2 == [ht EXCEPT ![g] = nt] IN
                  /\ ht' = ht2
                  /\ tab' = GcT(ht2, [t1 EXCEPT ![nt] = NewTab(NB0)])

\* HashMap(n) bound to g
NewSized(g, n) == /\ FM!NewSized(g, n)
                  /\ LET t1 == IF ht[g] # 0 THEN Release(tab, ht[g]) ELSE tab
                         ht1 == [ht EXCEPT ![g] = 0]
                         nt == FreeTab(ht1)
                         ht2 == [ht EXCEPT ![g] = nt] IN
                     /\ ht' = ht2
                     /\ tab' = GcT(ht2, [t1 EXCEPT ![nt] = NewTab(BinsFor(n))])
\* m = m: operator= called with the object itself
AssignSelf(h) == /\ FM!AssignSelf(h)
                 /\ UNCHANGED ht
                 /\ tab' = IF SelfAssignClears /\ TT(h).rc = 1 THEN [tab EXCEPT ![ht[h]] = ClearT(@)] ELSE tab

Next == /\ Len(hist) < MaxOps
        /\ \/ \E h \in H, k \in K, v \in V : SetKV(h, k, v)
           \/ \E h \in H, k \in K : Index(h, k) \/ RemoveK(h, k)
           \/ \E h \in H : Clear(h) \/ Dup(h) \/ DropHandle(h) \/ NewEmpty(h) \/ AssignSelf(h)
           \/ \E h \in H, n \in Sizes : NewSized(h, n)
           \/ \E h, g \in H : Clone(h, g) \/ CopyHandle(h, g) \/ AssignHandle(h, g)
Spec == Init /\ [][Next]_vars

-------------------------------------------------------------------------------
(* what TLC checks: the transcribed design implements FiniteMap *)
\* every table has at least one bin (with none, binOf() indexes past the end of the array)
BinsOK       == \A h \in Live : NBins(TT(h)) >= 1
Refines      == \A h \in Live : AbsT(TT(h)) = gblk[ghb[h]]
LengthOK     == \A h \in Live : TT(h).n = Len(Enum(TT(h))) /\ TT(h).n = FM!MapLen(gblk[ghb[h]])
ChainsOK     == \A h \in Live : LET t == TT(h) IN
                   /\ \A b \in 1..NBins(t) : \A i \in 1..Len(t.bins[b]) : Bin(t.bins[b][i].k, NBins(t)) = b
                   /\ \A i, j \in 1..Len(Enum(t)) : i # j => Enum(t)[i].k # Enum(t)[j].k
LookupOK     == \A h \in Live : \A k \in K : FindT(TT(h), k) = FM!FindR(gblk[ghb[h]], k)
SharingOK    == /\ \A h, g \in Live : (ht[h] = ht[g]) <=> (ghb[h] = ghb[g])
                /\ \A h \in Live : TT(h).rc = Cardinality({g \in H : ht[g] = ht[h]})
EqualOK      == \A h, g \in Live : EqT(TT(h), TT(g)) <=> (gblk[ghb[h]] = gblk[ghb[g]])
GhostOK      == FM!TypeOK /\ FM!NoOrphan

-------------------------------------------------------------------------------
LiveSeq == SelectSeq([i \in 1..NH |-> i], LAMBDA h : ht'[h] # 0)
Shape == [i \in 1..Len(LiveSeq) |-> LET t == tab'[ht'[LiveSeq[i]]] IN
             [h |-> LiveSeq[i], nb |-> NBins(t), order |-> [j \in 1..Len(Enum(t)) |-> Enum(t)[j].k]]]
View == <<ht, tab, ghb, gblk, Len(hist), hz>>
Emit == PrintT(ToJson([hist |-> hist', exp |-> FM!ObsOf(ghb', gblk'), pairs |-> FM!PairsOf(ghb', gblk'),
                       live |-> FM!LiveEntries(ghb', gblk'), set |-> IF MapOps THEN 0 ELSE 1, hz |-> hz',
                       impl |-> [nb0 |-> NB0, shape |-> Shape]]))
===============================================================================
