--------------------------- MODULE MC_ByteStringFmt ---------------------------
(* C03, formatting: every format made of up to MaxItems items (literal text, %%, %d %i %x %c %s with widths and the
   "0" / "-" flags) over boundary arguments; the %s arguments have the lengths StrLens, chosen so that the output
   straddles the inline limit (15/16), the constructor's default buffer (100/101) and the 255/256-byte stack buffer
   of String::f with its retry.  Emit prints the items and Render(items); harness/c03_replay.cpp builds the C format
   string and the argument list from the items and calls String::f and the String(n, fmt, ...) constructor with the
   initial sizes N0.                                                                                            *)
EXTENDS ByteStringOps, TLC, Json, FiniteSets
CONSTANTS MaxItems, StrLens, IntArgs, HexArgs, N0
VARIABLE items
Init == items = <<>>

Word == <<97, 98, 99, 100, 101, 102, 103, 104, 105, 106>>
NumFmt == {<<0, "">>, <<5, "">>, <<5, "-">>, <<5, "0">>, <<12, "0">>}
HexFmt == {<<0, "">>, <<8, "0">>, <<6, "-">>}
TxtFmt == {<<0, "">>, <<20, "">>, <<20, "-">>}
ItemSet ==
    {[t |-> "lit", s |-> Cyc(<<45, 62, 32>>, n)] : n \in {2, 20}} \cup {[t |-> "pct"]}
    \cup {[t |-> "d", w |-> wf[1], f |-> wf[2], n |-> n] : wf \in NumFmt, n \in IntArgs}
    \cup {[t |-> "i", w |-> 0, f |-> "", n |-> n] : n \in IntArgs}
    \cup {[t |-> "x", w |-> wf[1], f |-> wf[2], n |-> n] : wf \in HexFmt, n \in HexArgs}
    \cup {[t |-> "c", w |-> wf[1], f |-> wf[2], n |-> 65] : wf \in {<<0, "">>, <<3, "">>, <<3, "-">>}}
    \cup {[t |-> "s", w |-> wf[1], f |-> wf[2], s |-> Cyc(Word, n)] : wf \in TxtFmt, n \in StrLens}
Next == Len(items) < MaxItems /\ \E it \in ItemSet : items' = Append(items, it)
Spec == Init /\ [][Next]_items

\* value of a decimal / hexadecimal digit string (second formulation: the rendering read back)
RECURSIVE ValOf(_, _)
ValOf(t, base) == IF t = <<>> THEN 0 ELSE ValOf(SubSeq(t, 1, Len(t) - 1), base) * base + (IF t[Len(t)] >= 97 THEN t[Len(t)] - 87 ELSE t[Len(t)] - 48)
ItemOK(it) ==
    LET r == RenderItem(it) IN
    /\ (it.t \in {"d", "i", "x", "c", "s"}) => Len(r) >= it.w
    /\ (it.t \in {"d", "i"} /\ it.w = 0) => (IF it.n < 0 THEN r[1] = 45 /\ ValOf(Tail(r), 10) = 0 - it.n ELSE ValOf(r, 10) = it.n)
    /\ (it.t = "x" /\ it.w = 0) => ValOf(r, 16) = it.n
    /\ (it.t \in {"d", "x"} /\ it.f = "0" /\ it.n >= 0) => ValOf(r, IF it.t = "d" THEN 10 ELSE 16) = it.n     \* zero padding keeps the value
    /\ (it.t = "s" /\ it.f = "-") => SubSeq(r, 1, Len(it.s)) = it.s
    /\ (it.t = "s" /\ it.f = "") => SubSeq(r, Len(r) - Len(it.s) + 1, Len(r)) = it.s
RenderOK == /\ \A k \in 1..Len(items) : ItemOK(items[k])
            /\ items # <<>> => Render(items) = Render(SubSeq(items, 1, Len(items) - 1)) \o RenderItem(items[Len(items)])
            /\ \A k \in 1..Len(Render(items)) : Render(items)[k] \in 1..255
IntsA == {0, 7, 0 - 7, 12345, 0 - 2147483647, 2147483647}
HexA == {0, 255, 48879, 2147483647}
IntsB == {0, 0 - 7, 2147483647}          \* (smaller argument sets for the depth-3 configuration)
HexB == {0, 48879}
Emit == PrintT(ToJson([k |-> "fmt", items |-> items', out |-> Render(items'), n0 |-> N0]))
===============================================================================
