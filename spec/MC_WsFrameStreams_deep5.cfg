SPECIFICATION Spec
CONSTANTS
 MaxFrames = 5
 MaxMsgs = 2
 MaxFrag = 4
 Chunks = {0, 1}
 WithCuts = FALSE
 HostileUpTo = 0
 HostileUsed = {}
ACTION_CONSTRAINT Emit
INVARIANTS RoundTrip CutAgrees ExactlyOnce TypeOK
CHECK_DEADLOCK FALSE
