SPECIFICATION Spec
CONSTANTS
 K = {1,2,3}
 V = {1,2}
 MaxLen = 4
 KeyText <- KT
 ValText <- VT
 Seps <- SepList
 Convs <- ConvList
ACTION_CONSTRAINT Emit
INVARIANTS TypeOK LastWins LengthOK RoundTrip ConvOK
CHECK_DEADLOCK FALSE
