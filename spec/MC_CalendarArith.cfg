SPECIFICATION Spec
ACTION_CONSTRAINT Emit
INVARIANTS AddLaws DiffLaws OrderLaws FarLaws OldFormsUnvouched OorAreInvalid UnitsAgree
CHECK_DEADLOCK FALSE
