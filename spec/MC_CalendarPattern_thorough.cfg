SPECIFICATION Spec
CONSTANTS
 MaxLen = 6
 NBases = 8
 RuleSet = {1, 2, 3, 4, 5, 6, 7, 8}
ACTION_CONSTRAINT Emit
INVARIANTS FormatParseLaw Sound PermsInjective
CHECK_DEADLOCK FALSE
