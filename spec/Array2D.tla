------------------------------- MODULE Array2D --------------------------------
(* C01, sibling container asl::Array2<T> (include/asl/Array2.h): a rows x cols array stored row-major in an
   Array<T>; copies of an Array2 share the element storage like Array handles do, the dimensions are per object.

   REFINEMENT of the sequence model: the state is ArraySeq's state (handles, blocks, history) plus, per handle, the
   dimensions.  An Array2 object IS a sequence handle; element (i, j) is element i*cols + j of the sequence (index map
   checked as the invariant DimsOK and used to emit the expected rows).  Every action is an ArraySeq action on the
   underlying sequence conjoined with the update of the dimensions,
     New2      CtorN / CtorFill / FromList      Array2(r,c) / Array2(r,c,x) / Array2(r,c,p) / (r,c,Array) / (r,c,{..}) / {{..},..}
     Set2      SetElem(h, i*cols + j, v)        a(i, j) = v
     Resize2   Resize(h, r*c)                   resize(r, c)
     Clone2    Clone        Copy2 / Assign2 / Drop2   CopyHandle / AssignHandle / DropHandle (copy constructor, =, destructor)
     With2     Convert(.., "with")              with<K>()
     AssignList2   AssignList                   a = {..} (one column)  /  a = {{..},..}
     EnumRange, Join ...                        range-for over all elements
   except three that have no counterpart on a plain sequence and are written with the same building blocks:
     Fill2 (set(x)), Slice2 (slice(i1,i2,j1,j2): gathers a sub-matrix into a fresh block), Cmp2 (== compares the
     dimensions too) and Indices2 (indices()).  RefinesSeq2 states exactly this and is checked by TLC.
   The arguments that only concern the dimensions are logged in a second history dh, parallel to hist.

   Left open on purpose (the documentation of Array2 says nothing about them, see the report in checks/C01.py):
     * resize(r, c) / assignment from a list while ANOTHER object shares the storage: the other object keeps its
       old rows()/cols() over a storage of a different length.  Not generated (guard RC = 1).
     * resize(r, c) that changes cols of a non-empty array: which old elements end up where.  Not generated.      *)
EXTENDS ArraySeq

VARIABLES dims, dh
vars2 == <<vars, dims, dh>>

D0 == [r |-> 0, c |-> 0]
DLog(rec) == dh' = IF KeepHist THEN Append(dh, rec) ELSE <<rec>>
Dim(h) == dims[h]
\* row-major index map
Idx(h, i, j) == i * Dim(h).c + j
RowsOf(s, r, c) == [i \in 1..r |-> SubSeq(s, (i - 1) * c + 1, i * c)]

Init2 == /\ Init
         /\ dims = [h \in H |-> D0]
         /\ dh = <<>>

MaxDim == 3
\* every non-empty shape that fits, and three empty ones
Shapes == {d \in [r : 0..MaxDim, c : 0..MaxDim] : d.r * d.c <= MaxLen /\ (d.r * d.c > 0 \/ d.r = d.c \/ d.r + d.c = 2)}

\* the quick configuration says  Shapes <- ShapesQ
ShapesQ == {[r |-> 0, c |-> 0], [r |-> 1, c |-> 2], [r |-> 2, c |-> 1], [r |-> 2, c |-> 2], [r |-> 3, c |-> 1]}

(* construction *)
New2N(g, d) == /\ CtorN(g, d.r * d.c) /\ dims' = [dims EXCEPT ![g] = d] /\ DLog([r |-> d.r, c |-> d.c])
New2Fill(g, d, v) == /\ CtorFill(g, d.r * d.c, v) /\ dims' = [dims EXCEPT ![g] = d] /\ DLog([r |-> d.r, c |-> d.c])
\* via: "ptr" Array2(r,c,p)   "arrayfn" Array2(r,c,array(a0,..))   "comma" Array2(r,c,(Array<T>(),a0,..))
\*      "init" Array2(r,c,{..})   "arrayinit" Array2{{..},{..}} (a list of non-empty rows)
New2List(g, d, s, via) == /\ Len(s) = d.r * d.c /\ (via = "arrayinit" => d.r >= 1 /\ d.c >= 1)
                          /\ FromList(g, s, via) /\ dims' = [dims EXCEPT ![g] = d] /\ DLog([r |-> d.r, c |-> d.c])

(* elements *)
Set2(h, i, j, v) == /\ h \in Live /\ i \in 0..(Dim(h).r - 1) /\ j \in 0..(Dim(h).c - 1)
                    /\ SetElem(h, Idx(h, i, j), v) /\ UNCHANGED dims /\ DLog([i |-> i, j |-> j])
Fill2(h, v) == /\ h \in Live
               /\ InPlace(h, SeqFill(Len(S(h)), v), [op |-> "fill", h |-> h, v |-> v], {})
               /\ UNCHANGED dims /\ DLog([r |-> Dim(h).r, c |-> Dim(h).c])

(* shape *)
Resize2(h, d) == /\ h \in Live /\ RC(hb[h]) = 1
                 /\ (d.c = Dim(h).c \/ S(h) = <<>> \/ d.r * d.c = 0)
                 /\ Resize(h, d.r * d.c) /\ dims' = [dims EXCEPT ![h] = d] /\ DLog([r |-> d.r, c |-> d.c])
\* a = {x0, x1, ..}: one column;   a = {{..},{..}}: rows (nested = 1)
AssignList2(h, d, s, nested) == /\ h \in Live /\ Len(s) = d.r * d.c
                                /\ (nested = 0 => d.c = 1) /\ (nested = 1 => d.r >= 1 /\ d.c >= 1)
                                /\ AssignList(h, s) /\ dims' = [dims EXCEPT ![h] = d]
                                /\ DLog([r |-> d.r, c |-> d.c, nested |-> nested])

(* whole arrays and handles *)
Clone2(h, g) == /\ Clone(h, g) /\ dims' = [dims EXCEPT ![g] = Dim(h)] /\ DLog(Dim(h))
With2(h, g) == /\ Convert(h, g, "with") /\ dims' = [dims EXCEPT ![g] = Dim(h)] /\ DLog(Dim(h))
Copy2(h, g) == /\ CopyHandle(h, g) /\ dims' = [dims EXCEPT ![g] = Dim(h)] /\ DLog(Dim(h))
Assign2(h, g) == /\ AssignHandle(h, g) /\ dims' = [dims EXCEPT ![g] = Dim(h)] /\ DLog(Dim(h))
Drop2(h) == /\ DropHandle(h) /\ dims' = [dims EXCEPT ![h] = D0] /\ DLog(D0)
\* slice(i1, i2, j1, j2): rows [i1, i2) x columns [j1, j2) gathered into a new array
Gather(h, i1, i2, j1, j2) ==
    LET nr == i2 - i1
        nc == j2 - j1
    IN [k \in 1..(nr * nc) |-> S(h)[Idx(h, i1 + ((k - 1) \div nc), j1 + ((k - 1) % nc)) + 1]]
Slice2(h, g, i1, i2, j1, j2) ==
    /\ h \in Live /\ g \in H /\ i1 \in 0..Dim(h).r /\ i2 \in i1..Dim(h).r /\ j1 \in 0..Dim(h).c /\ j2 \in j1..Dim(h).c
    /\ NewBlock(g, Gather(h, i1, i2, j1, j2), [op |-> "slice2", h |-> h, g |-> g], {})
    /\ dims' = [dims EXCEPT ![g] = [r |-> i2 - i1, c |-> j2 - j1]]
    /\ DLog([i1 |-> i1, i2 |-> i2, j1 |-> j1, j2 |-> j2])

(* reading *)
Cmp2(h, g) == /\ h \in Live /\ g \in Live
              /\ ReadOnly([op |-> "cmp2", h |-> h, g |-> g, eq |-> IF Dim(h) = Dim(g) /\ S(h) = S(g) THEN 1 ELSE 0])
              /\ UNCHANGED dims /\ DLog(D0)
\* indices(): all (i, j) in row-major order
Indices2(h) == /\ h \in Live
               /\ ReadOnly([op |-> "idx2", h |-> h,
                            ij |-> [k \in 1..(Dim(h).r * Dim(h).c) |-> <<(k - 1) \div Dim(h).c, (k - 1) % Dim(h).c>>]])
               /\ UNCHANGED dims /\ DLog(D0)
\* a(i, j) (trace validation only: in model checking every element is part of the emitted observation)
Get2(h, i, j) == /\ h \in Live /\ i \in 0..(Dim(h).r - 1) /\ j \in 0..(Dim(h).c - 1)
                 /\ ReadOnly([op |-> "get2", h |-> h, r |-> S(h)[Idx(h, i, j) + 1]])
                 /\ UNCHANGED dims /\ DLog([i |-> i, j |-> j])
Enum2(h) == /\ EnumRange(h, 0, 0, "for") /\ UNCHANGED dims /\ DLog(D0)

Lits2 == {<<>>, <<2>>, <<2, 1>>, <<1, 2, 2>>, <<1, 2, 1, 2>>}      \* the cfg files say  Lits <- Lits2
Lits2T == Lits2 \cup {<<1, 2, 2, 1, 2, 1>>}                         \* thorough: 2 x 3 and 3 x 2
Next2 == /\ Len(hist) < MaxOps
         /\ \/ \E g \in H, d \in Shapes : New2N(g, d)
            \/ \E g \in H, d \in Shapes, v \in V : New2Fill(g, d, v)
            \/ \E g \in H, d \in Shapes, s \in Lits, via \in ListVias : New2List(g, d, s, via)
            \/ \E h \in H, i, j \in 0..(MaxDim - 1), v \in V : Set2(h, i, j, v)
            \/ \E h \in H, v \in V : Fill2(h, v)
            \/ \E h \in H, d \in Shapes : Resize2(h, d)
            \/ \E h \in H, d \in Shapes, s \in Lits, nested \in 0..1 : AssignList2(h, d, s, nested)
            \/ \E h, g \in H : Clone2(h, g) \/ With2(h, g) \/ Copy2(h, g) \/ Assign2(h, g) \/ Cmp2(h, g)
            \/ \E h \in H : Drop2(h) \/ Indices2(h) \/ Enum2(h)
            \/ \E h, g \in H, i1, i2, j1, j2 \in 0..MaxDim : Slice2(h, g, i1, i2, j1, j2)
Spec2 == Init2 /\ [][Next2]_vars2

\* The shape that is left open, for the record: resize(r, c) through one object while another one shares the storage.
\* With it the index map of the OTHER object no longer fits its storage - MC_Array2D_sharedresize.cfg lets TLC exhibit
\* the counterexample to DimsOK (b = a; a.resize(..); b.rows() * b.cols() # b.array().length()).
Resize2Shared(h, d) == /\ h \in Live /\ RC(hb[h]) > 1
                       /\ Resize(h, d.r * d.c) /\ dims' = [dims EXCEPT ![h] = d] /\ DLog([r |-> d.r, c |-> d.c])
Spec2U == Init2 /\ [][Next2 \/ (Len(hist) < MaxOps /\ \E h \in H, d \in Shapes : Resize2Shared(h, d))]_vars2

-------------------------------------------------------------------------------
\* the index map is total and onto: every object's dimensions describe exactly its storage
DimsOK == \A h \in H : IF hb[h] = 0 THEN dims[h] = D0 ELSE Dim(h).r * Dim(h).c = Len(S(h))
\* every step is a call of the sequence model on the underlying array, or one of the 2-D-only calls
RefinesSeq2 == [][NextAll \/ (hist' # <<>> /\ hist'[Len(hist')].op \in {"fill", "slice2", "cmp2", "idx2", "get2"})]_vars

Obs2(hbx, blkx, dimsx) ==
    LET ls == LiveSeq(hbx) IN
    [i \in 1..Len(ls) |-> [h |-> ls[i], r |-> dimsx[ls[i]].r, c |-> dimsx[ls[i]].c, s |-> blkx[hbx[ls[i]]],
                           rows |-> RowsOf(blkx[hbx[ls[i]]], dimsx[ls[i]].r, dimsx[ls[i]].c),
                           rc |-> Cardinality({x \in H : hbx[x] = hbx[ls[i]]})]]
View2 == <<hb, blk, dims, Len(hist), hz>>
Emit2 == PrintT(ToJson([k |-> "a2", hist |-> hist', dh |-> dh', exp |-> Obs2(hb', blk', dims'),
                        live |-> LiveElems(hb', blk'), hz |-> hz']))
===============================================================================
