SPECIFICATION Spec
CONSTANTS
 Fill = {0, 1, 9999, 32767, 32768, 65535}
INVARIANTS RoundTrip Native NativeNeg Sizes
ACTION_CONSTRAINT Emit
CHECK_DEADLOCK FALSE
