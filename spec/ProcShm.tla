------------------------------ MODULE ProcShm ------------------------------
(* X01 / SharedMem: named memory segments shared between objects and between processes.

   Documented (SharedMem.h): an object is created with a name and a size; "if a segment with that name does not exist
   it will be created, otherwise a reference to it will be made"; other processes use the same memory by creating an
   object with the same name and size; ptr() is the base of the block (or NULL on error).  So: all objects attached to
   a name - in this process or in a child process - read and write one and the same byte array, which starts zeroed.
   What happens to a name once one of its objects has been destroyed is not documented (the POSIX implementation
   unlinks the name in every destructor): such a name is `retired` here and never attached again; objects that are
   already attached keep sharing.  Descriptor hygiene: when no object is alive, no descriptor remains open (IdleFds). *)
EXTENDS Integers, Sequences, FiniteSets, TLC

CONSTANTS Names, Objs, Size, Vals, MaxOps

VARIABLES seg,      \* name -> byte array (<<>> = does not exist)
          att,      \* object -> name it is attached to (0 = not alive)
          retired,  \* names some object of which has been destroyed
          nops
vars == <<seg, att, retired, nops>>

Zeros == [i \in 1..Size |-> 0]
Init == seg = [n \in Names |-> <<>>] /\ att = [o \in Objs |-> 0] /\ retired = {} /\ nops = 0

Exists(n) == seg[n] # <<>>
Patch(a, off, bs) == [i \in 1..Len(a) |-> IF i > off /\ i <= off + Len(bs) THEN bs[i - off] ELSE a[i]]
Slice(a, off, k) == SubSeq(a, off + 1, off + k)

\* SharedMem o(name, Size): creates the segment (zero-filled) or refers to the existing one; ok = (ptr() # NULL)
Attach(o, n, ok) ==
  /\ att[o] = 0 /\ n \in Names \ retired
  /\ ok = TRUE
  /\ att' = [att EXCEPT ![o] = n]
  /\ seg' = [seg EXCEPT ![n] = IF Exists(n) THEN @ ELSE Zeros]
  /\ UNCHANGED retired
\* memcpy(o.ptr() + off, bs, Len(bs))
Put(o, off, bs) ==
  /\ att[o] # 0 /\ off >= 0 /\ off + Len(bs) <= Size
  /\ seg' = [seg EXCEPT ![att[o]] = Patch(@, off, bs)]
  /\ UNCHANGED <<att, retired>>
\* memcpy(r, o.ptr() + off, k)
Get(o, off, k, r) ==
  /\ att[o] # 0 /\ off >= 0 /\ k >= 0 /\ off + k <= Size
  /\ r = Slice(seg[att[o]], off, k)
  /\ UNCHANGED <<seg, att, retired>>
\* a child process creates its own object for the name, reads k bytes at off (r), writes bs at woff, and exits
\* (its object is destroyed: the name is retired); only for names some object of the parent is attached to
ChildUse(n, off, k, r, woff, bs) ==
  /\ n \in Names \ retired /\ \E o \in Objs : att[o] = n
  /\ off >= 0 /\ k >= 0 /\ off + k <= Size /\ woff >= 0 /\ woff + Len(bs) <= Size
  /\ r = Slice(seg[n], off, k)
  /\ seg' = [seg EXCEPT ![n] = Patch(@, woff, bs)]
  /\ retired' = retired \cup {n}
  /\ UNCHANGED att
Destroy(o) ==
  /\ att[o] # 0
  /\ retired' = retired \cup {att[o]}
  /\ att' = [att EXCEPT ![o] = 0]
  /\ seg' = IF \E p \in Objs \ {o} : att[p] = att[o] THEN seg ELSE [seg EXCEPT ![att[o]] = <<>>]
\* open descriptors beyond those open at reset, observed while no object is alive
IdleFds(n) == (\A o \in Objs : att[o] = 0) /\ n = 0 /\ UNCHANGED <<seg, att, retired>>

Chunks == {<<v>> : v \in Vals} \cup {<<v, w>> : v, w \in Vals}
Op ==
  \/ \E o \in Objs, n \in Names : Attach(o, n, TRUE)
  \/ \E o \in Objs, off \in 0..(Size - 1), bs \in Chunks : Put(o, off, bs)
  \/ \E o \in Objs, off \in 0..(Size - 1), k \in 1..2 : off + k <= Size /\ Get(o, off, k, Slice(seg[att[o]], off, k))
  \/ \E n \in Names, off \in 0..(Size - 1), bs \in Chunks : (~(n \in retired) /\ Exists(n)) /\ ChildUse(n, off, 1, Slice(seg[n], off, 1), off, bs)
  \/ \E o \in Objs : Destroy(o)
  \/ IdleFds(0)
Next == nops < MaxOps /\ nops' = nops + 1 /\ Op
Spec == Init /\ [][Next]_vars

TypeOK == \A n \in Names : seg[n] = <<>> \/ Len(seg[n]) = Size
\* a segment exists exactly as long as an object is attached to it, and everybody attached to a name sees one array
Attached == \A n \in Names : Exists(n) <=> \E o \in Objs : att[o] = n
NoReuse == \A o \in Objs : att[o] # 0 => (att[o] \in retired => Exists(att[o]))
=============================================================================
