---------------------------- MODULE Trace_FileModelPath ----------------------------
(* V binding for the path algebra: harness/c17_fs_record.cpp (--mode 2) asks the real asl::Path about random paths of up to
   ten tokens (the alphabet of FileModelPath plus '\', upper-case letters and longer names) from changing current directories
   and logs every answer; TLC evaluates the operators of FileModelPath on the logged inputs.  Values the documentation fixes
   must be equal; where it fixes a relation only (operator/ when more than two separators meet: the glued path up to repeated
   separators; removeDDots of a relative path: same meaning from every directory and no removable ".." left) the library's own
   answer must satisfy the relation.                                                                                   *)
EXTENDS FileModelPath

T == ndJsonDeserialize(IOEnv.TRACE)
VARIABLE l
tvars == <<vars, l>>
TInit == Init /\ l = 1

TStep ==
  /\ l <= Len(T)
  /\ l' = l + 1
  /\ UNCHANGED vars
  /\ LET e == T[l]
         a == IF e.op = "reset" THEN <<>> ELSE Slashed(e.raw)
     IN
     \/ e.op = "reset"
     \/ /\ e.op = "path"
        /\ e.str = a /\ e.name = Name(a) /\ e.dir = DirOf(a) /\ e.ext = Ext(a) /\ e.noext = NoExt(a) /\ e.nne = NameNoExt(a)
        /\ e.hasdir = HasDir(a) /\ e.hasdirectory = HasDir(a) /\ e.isabs = IsAbs(a) /\ e.hasext = HasExt(a, Alts)
        /\ (~Unc(a) => e.abs = AbsIn(e.cwd, a) /\ e.absabs = e.abs)
        /\ (~Unc(a) => RemoveDDOK(a, e.rdd) /\ (RemoveDDExact(a) => e.rdd = AbsIn(e.cwd, a)))
     \/ /\ e.op = "pair"
        /\ LET b == Slashed(e.raw2) IN
           /\ JoinOK(a, b, e.join)
           /\ (~Unc(a) /\ ~Unc(b) => e.eq = (AbsIn(e.cwd, a) = AbsIn(e.cwd, b)))
           /\ e.same = (a = b)

TraceSpec == TInit /\ [][TStep]_tvars
TraceAccepted == TLCGet("stats").diameter - 1 = Len(T)
===============================================================================
