------------------------------ MODULE MC_IntText ------------------------------
(* C03, integers: one state per entry of a boundary table of 32-bit and 64-bit patterns - 0, +-1, every 10^k-1, 10^k, 10^k+1, every
   2^k-1, 2^k, 2^k+1, their negations, the extreme values of the signed and unsigned ranges, and Extra (arbitrary
   16-bit fillers combined into patterns) - checks the round-trip identities and prints (limbs, signed text, unsigned
   text) for harness/c03_replay.cpp.                                                                            *)
EXTENDS IntText, TLC, Json, FiniteSets
CONSTANTS Fill          \* limb values used to build further patterns (all combinations for 32 bit, diagonal ones for 64 bit)
VARIABLE pat            \* <<>> at the root, otherwise the pattern under test (2 or 4 limbs)
vars == <<pat>>

RECURSIVE Pow10(_, _)   \* 10^e as k limbs
Pow10(e, k) == IF e = 0 THEN MulAdd(Zero(k), 1, 1) ELSE MulAdd(Pow10(e - 1, k), 10, 0)
Pow2(e, k) == [j \in 1..k |-> IF j = k - (e \div 16) THEN 2 ^ (e % 16) ELSE 0]
Inc(x) == MulAdd(x, 1, 1)
Dec(x) == Neg(Inc(Neg(x)))
Around(x) == {Dec(x), x, Inc(x)}
Base(k) == UNION {Around(Pow10(e, k)) : e \in 0..(IF k = 2 THEN 9 ELSE 19)} \cup UNION {Around(Pow2(e, k)) : e \in 0..(16 * k - 1)}
             \cup {Zero(k)}
             \cup (IF k = 2 THEN {<<a, b>> : a, b \in Fill} ELSE {<<a, b, b, a>> : a, b \in Fill} \cup {<<0, 0, a, b>> : a, b \in Fill})
Patterns(k) == Base(k) \cup {Neg(x) : x \in Base(k)}

Init == pat = <<>>
Next == pat = <<>> /\ \E k \in {2, 4} : \E y \in Patterns(k) : pat' = y
Spec == Init /\ [][Next]_vars
X == pat
w == Len(pat)
i == Len(pat)        \* > 0 for every pattern state

RoundTrip == i > 0 => /\ ParseS(SText(X), w) = X
                      /\ ParseU(UText(X), w) = X
                      /\ ParseS(UText(X), w) = X          \* reading the unsigned text with the signed scanner wraps to the same pattern
                      /\ Canonical(SText(X), TRUE) /\ Canonical(UText(X), FALSE)
                      /\ Len(SText(X)) <= (IF w = 2 THEN 11 ELSE 20) /\ Len(UText(X)) <= (IF w = 2 THEN 10 ELSE 20)
                      /\ (IsNeg(X) = (SText(X)[1] = 45))
\* agreement with native arithmetic where the value fits into a TLC integer
Native == (i > 0 /\ w = 2 /\ ~IsNeg(X)) =>
             LET n == X[1] * B + X[2] IN /\ UText(X) = NatDec(n) /\ SText(X) = NatDec(n) /\ NatLimbs(n, 2) = X
NativeNeg == (i > 0 /\ w = 2 /\ IsNeg(X) /\ X # <<32768, 0>>) =>
             LET m == Neg(X) n == m[1] * B + m[2] IN SText(X) = <<45>> \o NatDec(n)
Sizes == pat = <<>> => (Cardinality(Patterns(2)) > 100 /\ Cardinality(Patterns(4)) > 300)

\* hazard tag: the most negative 64-bit value (its magnitude is not representable as a signed 64-bit integer)
Emit == PrintT(ToJson([k |-> "int", w |-> 16 * Len(pat'), x |-> pat', st |-> SText(pat'), ut |-> UText(pat'),
                       hz |-> IF pat' = <<32768, 0, 0, 0>> THEN {"LongMin"} ELSE {}]))
===============================================================================
