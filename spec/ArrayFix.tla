------------------------------- MODULE ArrayFix -------------------------------
(* C01, sibling container asl::Array_<T,N> (include/asl/Array_.h): an array whose length N is fixed at compile
   time and whose elements live inside the object (value semantics: copies are independent).

   The module is a REFINEMENT of the sequence model ArraySeq by construction: its state is ArraySeq's state, every
   action below IS an ArraySeq action (restricted to the shapes an Array_ can take), so each behaviour of FSpec is a
   behaviour of ArraySeq's calls started in a state with one array of N default elements
   (TLC re-checks this as the action property RefinesSeq).  What the restriction adds is checked as invariants:
     FixedOK    no two objects ever share storage (value semantics) and every length is one of the instantiated N
     LenStable  no call changes the length of an existing object
   Correspondence of calls (the replayer harness/c01_sib_replay.cpp executes them on Array_<T,N>, N in Ns):
     SetElem          a[i] = v
     Clone            copy constructor                         Convert   Array_<T,N>(Array_<K,N>) / with<K>()
     CopyFrom         operator= (element-wise, same N)         Reversed  reversed()
     Slice            slice<M>(i1), M = i2 - i1                Sort / SortDesc  sort() / sort(Less)
     FromList         Array_{...} / array_(a0, ..)             DropHandle  destructor
     IndexOfFrom, Compare (== != <), Join, EnumRange (all(), range-for, foreach)
   operator< of Array_ is as undocumented (and as non-lexicographic) as Array's: see Lt3 in ArraySeq.            *)
EXTENDS ArraySeq

CONSTANT Ns        \* the lengths N the replayer instantiates
VARIABLE n0        \* the N of the initial object (constant along a behaviour; tells the replayer what to start from)
fvars == <<vars, n0>>

FInit == /\ hb = [h \in H |-> IF h = 1 THEN 1 ELSE 0]
         /\ n0 \in Ns
         /\ blk = [b \in 1..(NH+1) |-> IF b = 1 THEN SeqFill(n0, 0) ELSE <<>>]
         /\ hist = <<>>
         /\ hz = {}

\* the target of a call that yields a new array is a new object, or an existing one of the same N that is assigned
Target(g, n) == g \in Dead \/ (g \in Live /\ Len(S(g)) = n)

FLits == {<<2>>, <<2, 1>>, <<1, 2, 1>>, <<2, 2, 1, 1>>}      \* the cfg files say  Lits <- FLits

FNext == /\ Len(hist) < MaxOps
         /\ UNCHANGED n0
         /\ \/ \E h \in H, i \in 0..MaxLen, v \in V : SetElem(h, i, v)
            \/ \E h, g \in H : g \in Dead /\ Clone(h, g)
            \/ \E h, g \in H, via \in {"ctor", "with"} : h \in Live /\ Target(g, Len(S(h))) /\ Convert(h, g, via)
            \/ \E h, g \in H : h \in Live /\ g \in Live /\ Len(S(h)) = Len(S(g)) /\ CopyFrom(h, g)
            \/ \E h, g \in H : h \in Live /\ Target(g, Len(S(h))) /\ Reversed(h, g)
            \/ \E h, g \in H, i1 \in 0..MaxLen, i2 \in 1..MaxLen : i1 < i2 /\ (i2 - i1) \in Ns /\ Target(g, i2 - i1) /\ Slice(h, g, i1, i2)
            \/ \E h \in H : Sort(h) \/ SortDesc(h) \/ DropHandle(h)
            \/ \E g \in H, s \in Lits, via \in {"init", "arrayfn"} :
                  Len(s) \in Ns /\ (via = "arrayfn" => Len(s) \in 2..5) /\ Target(g, Len(s)) /\ FromList(g, s, via)
            \/ \E h \in H, v \in V, j \in 0..MaxLen : IndexOfFrom(h, v, j)
            \/ \E h, g \in H : h \in Live /\ g \in Live /\ Len(S(h)) = Len(S(g)) /\ Compare(h, g)
            \/ \E h \in H, tt \in 0..2, sep \in Seps : Join(h, tt, sep)
            \/ \E h \in H, via \in {"all", "for", "foreach"} : EnumRange(h, 0, 0, via)

FSpec == FInit /\ [][FNext]_fvars

FixedOK == \A h \in Live : RC(hb[h]) = 1 /\ Len(S(h)) \in Ns
LenStable == [][\A h \in H : (hb[h] # 0 /\ hb'[h] # 0) => Len(blk'[hb'[h]]) = Len(blk[hb[h]])]_vars
RefinesSeq == [][NextAll]_vars

EmitFix == PrintT(ToJson([k |-> "fix", n0 |-> n0, hist |-> hist', exp |-> ObsOf(hb', blk'), live |-> LiveElems(hb', blk'), hz |-> hz']))
===============================================================================
