SPECIFICATION Spec
CONSTANTS
 N = 2
 MaxOps = 6
 MaxSend = 2
 Lens = {126}
VIEW View
ACTION_CONSTRAINT Emit
INVARIANTS TypeOK Isolation NoLoss Registered
PROPERTIES BroadcastAll
CHECK_DEADLOCK FALSE
