SPECIFICATION FSpec
CONSTANTS
 Caps = {1, 2, 3, 4, 5, 8, 13, 40}
 ProbeRewinds = TRUE
 QKeySlashIsComment = FALSE
ACTION_CONSTRAINT FEmit
INVARIANTS FileLaw PadLaw
CHECK_DEADLOCK FALSE
