--------------------------- MODULE RegistryShared ---------------------------
(* X01 part `registry` - asl::Shared<T> (Pointer.h): reference-counted shared ownership.

   Abstract heap: objects Objs (each constructed at most once in a history), pointer variables Slots, each empty (None) or
   referring to one object.  Slots in DerivedSlots are Shared<Derived>, the others Shared<Base>; objects in DerivedObjs are
   of class Derived (a subclass of Base), the others plain Base.  An object is alive exactly while some slot refers to
   it; its destructor runs exactly once, when the last reference goes - never before.  One action per public call:
       new      s = new X / s = Shared<T>(new X)         (the previous referent of s loses a reference)
       assign   s = t (same type: operator=, also s = s; Base <- Derived: converting operator=; Derived <- Base: t.as<Derived>())
       copy     s = Shared<T>(t) through the (converting) copy constructor
       release  s = Shared<T>()
       temp     { Shared<T> x(t); observe refcount }    (a temporary copy: one more reference while it lives)
   Pointer.h carries no documentation; what is required here is what "shared pointer with a reference count" means.
   Not generated: get()/refcount()/as<>() on an empty pointer (they dereference the control block without a check -
   nothing says they may be called), multiple inheritance, two control blocks for one raw pointer.               *)
EXTENDS Integers, Sequences, FiniteSets, TLC, Json

CONSTANTS Slots, Objs, DerivedSlots, DerivedObjs, MaxOps, KeepHist
None == 0
ASSUME /\ Slots \subseteq 1..9 /\ Objs \subseteq 1..9 /\ DerivedSlots \subseteq Slots /\ DerivedObjs \subseteq Objs

VARIABLES ptr,      \* Slots -> Objs \cup {None}
          made,     \* objects constructed so far
          dtor,     \* Objs -> number of destructor runs
          hist      \* the calls, each with the observation the implementation must show after it
vars == <<ptr, made, dtor, hist>>

Refs(p, o)  == {s \in Slots : p[s] = o}
Alive(p, m, o) == o \in m /\ Refs(p, o) # {}
Obs(p, m, d) == [ptr |-> [s \in 1..Cardinality(Slots) |-> p[s]],
                 rc |-> [s \in 1..Cardinality(Slots) |-> IF p[s] = None THEN 0 ELSE Cardinality(Refs(p, p[s]))],
                 alive |-> [o \in 1..Cardinality(Objs) |-> IF Alive(p, m, o) THEN 1 ELSE 0],
                 dt |-> [o \in 1..Cardinality(Objs) |-> d[o]]]

Init == /\ ptr = [s \in Slots |-> None] /\ made = {} /\ dtor = [o \in Objs |-> 0] /\ hist = <<>>

\* the destructor of every object that was alive and has no reference left runs
DtorAfter(p2, m2) == [o \in Objs |-> IF o \in m2 /\ Refs(p2, o) = {} /\ (o \notin made \/ Refs(ptr, o) # {})
                                      THEN dtor[o] + 1 ELSE dtor[o]]
Step(rec, p2, m2) ==
    /\ ptr' = p2 /\ made' = m2
    /\ dtor' = DtorAfter(p2, m2)
    /\ hist' = LET r == [rec EXCEPT !.exp = Obs(p2, m2, DtorAfter(p2, m2))]
               IN IF KeepHist THEN Append(hist, r) ELSE <<r>>
\* hazard tag of a call (matched against open known findings): converting an empty Shared<Derived> into a Shared<Base>
ConvHz(s, t) == IF s \notin DerivedSlots /\ t \in DerivedSlots /\ ptr[t] = None THEN "SharedConvertEmpty" ELSE ""
Rec(op, s, t, o, x) == [op |-> op, s |-> s, t |-> t, o |-> o, x |-> x, exp |-> <<>>,
                        hz |-> IF op \in {"assign", "copy"} THEN ConvHz(s, t) ELSE ""]

Fits(s, o) == s \in DerivedSlots => o \in DerivedObjs
\* what a pointer of slot s's type sees of slot t's referent (dynamic cast downwards, plain conversion upwards)
Seen(s, t) == IF Fits(s, ptr[t]) \/ ptr[t] = None THEN ptr[t] ELSE None

New(s, o, how) == /\ o \notin made /\ Fits(s, o)
                  /\ Step(Rec("new", s, 0, o, how), [ptr EXCEPT ![s] = o], made \cup {o})
Assign(s, t) == /\ (s \in DerivedSlots /\ t \notin DerivedSlots) => ptr[t] # None          \* as<>() needs a referent
                /\ Step(Rec("assign", s, t, 0, 0), [ptr EXCEPT ![s] = Seen(s, t)], made)
Copy(s, t) == /\ s # t
              /\ (s \in DerivedSlots /\ t \notin DerivedSlots) => ptr[t] # None
              /\ Step(Rec("copy", s, t, 0, 0), [ptr EXCEPT ![s] = Seen(s, t)], made)
Release(s) == Step(Rec("release", s, 0, 0, 0), [ptr EXCEPT ![s] = None], made)
\* a temporary copy of t: x = the reference count observed while it lives
Temp(t) == Step(Rec("temp", 0, t, 0, IF ptr[t] = None THEN 0 ELSE Cardinality(Refs(ptr, ptr[t])) + 1), ptr, made)

Next == /\ Len(hist) < MaxOps
        /\ \/ \E s \in Slots, o \in Objs, how \in {1, 2} : New(s, o, how)
           \/ \E s \in Slots, t \in Slots : Assign(s, t)
           \/ \E s \in Slots, t \in Slots : Copy(s, t)
           \/ \E s \in Slots : Release(s)
           \/ \E t \in Slots : Temp(t)
Spec == Init /\ [][Next]_vars

-----------------------------------------------------------------------------
TypeOK == /\ ptr \in [Slots -> Objs \cup {None}] /\ made \subseteq Objs /\ dtor \in [Objs -> 0..MaxOps]
          /\ \A s \in Slots : ptr[s] # None => ptr[s] \in made /\ Fits(s, ptr[s])
\* an object is alive iff something refers to it; it is destroyed at most once, and exactly once when made and unreferenced
AliveIffReferenced == \A o \in Objs : (o \in made /\ dtor[o] = 0) <=> Refs(ptr, o) # {}
DestroyedOnce == \A o \in Objs : dtor[o] <= 1 /\ (dtor[o] = 1 => o \in made /\ Refs(ptr, o) = {})
\* no call destroys an object that is still referenced afterwards, and the count of a slot is the number of co-owners
NeverEarly == [][\A o \in Objs : dtor'[o] > dtor[o] => Refs(ptr', o) = {} /\ Refs(ptr, o) # {}]_vars
NoResurrection == [][\A o \in Objs : dtor[o] = 1 => Refs(ptr', o) = {}]_vars

View == <<ptr, made, dtor, Len(hist)>>
Emit == PrintT(ToJson([part |-> "registry", k |-> "shared", hist |-> hist', nslots |-> Cardinality(Slots), nobjs |-> Cardinality(Objs),
                       dslots |-> DerivedSlots, dobjs |-> DerivedObjs,
                       hz |-> {hist'[i].hz : i \in 1..Len(hist')} \ {""}]))
=============================================================================
