----------------------------- MODULE JsonTextXdl -----------------------------
(* C06 (and C05) - generator of the XDL dialect accepted by asl::Xdl/Json::decode beyond RFC 8259: identifier
   property names, '=' as well as ':', Y/N booleans, newline as item separator (with or without a comma), typed
   objects  Name{...}  (the name becomes the "$type" member), // and C-style comments wherever white space may
   stand, a line comment also at the very end of the text without a final line end.  Same construction as JsonTextGen: a pushdown transition system that emits tokens and builds the value
   the text denotes; non-default lexical choices are paid from the budget MaxVar.

   The language is the one documented for Xdl (and what XdlEncoder emits in its compact and pretty XDL modes);
   there is no independent grammar for it, so the second formulation it is checked against is the design of the
   parser itself (XdlSMRefineXdl: the state machine accepts every generated document with the generated value
   and rejects every prefix that ends inside a container or string), and the real parser through c06_replay.  *)
EXTENDS JsonText, Json

CONSTANTS MaxDepth, MaxItems, MaxLen, MaxVar
VARIABLES text, stack, done, val, var,
          act,    \* ghost: name of the action that produced the state
          fin     \* length of the text when the document became complete (position of its last significant character)
vars == <<text, stack, done, val, var, fin, act>>
NoVal == [z |-> 0]

Scal == <<
  [t |-> <<49>>, v |-> [n |-> <<49>>], c |-> 0],                                   \* 1
  [t |-> <<89>>, v |-> [b |-> TRUE], c |-> 0],                                     \* Y
  [t |-> <<78>>, v |-> [b |-> FALSE], c |-> 1],                                    \* N
  [t |-> <<116,114,117,101>>, v |-> [b |-> TRUE], c |-> 1],
  [t |-> <<102,97,108,115,101>>, v |-> [b |-> FALSE], c |-> 1],
  [t |-> <<110,117,108,108>>, v |-> NoVal, c |-> 1],
  [t |-> <<45,50,46,53>>, v |-> [n |-> <<45,50,46,53>>], c |-> 1],                 \* -2.5
  [t |-> <<49,101,50>>, v |-> [n |-> <<49,101,50>>], c |-> 1],                     \* 1e2
  [t |-> <<34,34>>, v |-> [s |-> <<>>], c |-> 1],
  [t |-> <<34,97,34>>, v |-> [s |-> <<97>>], c |-> 0],                             \* "a"
  [t |-> <<34,97,47,98,34>>, v |-> [s |-> <<97,47,98>>], c |-> 1],                 \* "a/b"
  [t |-> <<34,47,47,34>>, v |-> [s |-> <<47,47>>], c |-> 1],                       \* "//"
  [t |-> <<34,92,117,48,48,101,57,34>>, v |-> [s |-> <<195,169>>], c |-> 1] >>
\* property names with the separator that follows them: [t, k = key bytes, c]
KeyToks == <<
  [t |-> <<107,61>>, k |-> <<107>>, c |-> 0],                                      \* k=
  [t |-> <<106,61>>, k |-> <<106>>, c |-> 0],                                      \* j=
  [t |-> <<97,49,61>>, k |-> <<97,49>>, c |-> 1],                                  \* a1=
  [t |-> <<95,120,61>>, k |-> <<95,120>>, c |-> 1],                                \* _x=
  [t |-> <<107,95,50,32,61>>, k |-> <<107,95,50>>, c |-> 1],                       \* k_2 =
  [t |-> <<109,32,58>>, k |-> <<109>>, c |-> 1],                                   \* m :
  [t |-> <<110,10,61>>, k |-> <<110>>, c |-> 1],                                   \* n<newline>=
  [t |-> <<34,113,34,58>>, k |-> <<113>>, c |-> 1],                                \* "q":
  [t |-> <<34,114,34,61>>, k |-> <<114>>, c |-> 1],                                \* "r"=
  [t |-> <<34,97,47,98,34,32,61>>, k |-> <<97,47,98>>, c |-> 1],                   \* "a/b" =
  [t |-> <<34,34,58>>, k |-> <<>>, c |-> 1] >>                                     \* "":
ClassToks == << [t |-> <<>>, n |-> <<>>, c |-> 0], [t |-> <<84>>, n |-> <<84>>, c |-> 1],
                [t |-> <<67,108,115,95,49,32>>, n |-> <<67,108,115,95,49>>, c |-> 1],          \* Cls_1 {
                [t |-> <<110,115,46,84,10>>, n |-> <<110,115,46,84>>, c |-> 1] >>              \* ns.T<newline>{
WsVariants == << <<32>>, <<9>>, <<10>>, <<13,10>>, <<47,47,99,10>>, <<47,47,10>>, <<47,42,99,42,47>>, <<47,42,42,47>>,
                 <<47,42,97,42,98,10,47,47,42,47>> >>                              \* /*a*b<nl>//*/
\* separators between two items: [t, c]
Seps == << [t |-> <<44>>, c |-> 0], [t |-> <<10>>, c |-> 1], [t |-> <<10,44>>, c |-> 1], [t |-> <<44,10>>, c |-> 1],
           [t |-> <<32,10,9>>, c |-> 1], [t |-> <<13,10>>, c |-> 1], [t |-> <<47,47,99,10>>, c |-> 1],
           [t |-> <<32,44,32>>, c |-> 1] >>
TypeKeyB == <<36, 116, 121, 112, 101>>

Top == stack[Len(stack)]
CanValue == /\ ~done
            /\ IF stack = <<>> THEN TRUE
               ELSE IF Top.k = "a" THEN Top.st \in {"first", "sep"} ELSE Top.st = "afterKey"
Deliver(stk, v) ==
    IF stk = <<>> THEN [stack |-> stk, done |-> TRUE, val |-> v]
    ELSE LET f == stk[Len(stk)]
             f2 == IF f.k = "a" THEN [f EXCEPT !.st = "afterItem", !.items = Append(@, v), !.n = @ + 1]
                   ELSE [f EXCEPT !.st = "afterItem", !.items = Append(@, <<f.key, v>>), !.key = <<>>, !.n = @ + 1]
         IN [stack |-> [stk EXCEPT ![Len(stk)] = f2], done |-> FALSE, val |-> NoVal]
Apply(r) == stack' = r.stack /\ done' = r.done /\ val' = r.val /\ fin' = IF r.done THEN Len(text') ELSE 0
Room == Len(text) < MaxLen
Budget(c) == var + c <= MaxVar
\* a token that begins with an identifier character would merge with a preceding identifier-like token: at the top
\* level and after '=' nothing precedes, inside arrays a separator precedes, so no guard is needed.

Init == text = <<>> /\ stack = <<>> /\ done = FALSE /\ val = NoVal /\ var = 0 /\ fin = 0 /\ act = "Init"
Scalar(i) == /\ act' = "Scalar" /\ CanValue /\ Room /\ Budget(Scal[i].c)
             /\ text' = text \o Scal[i].t /\ var' = var + Scal[i].c
             /\ Apply(Deliver(stack, Scal[i].v))
BeginArr == /\ act' = "BeginArr" /\ CanValue /\ Room /\ Len(stack) < MaxDepth
            /\ text' = Append(text, 91) /\ UNCHANGED <<done, val, var, fin>>
            /\ stack' = Append(stack, [k |-> "a", st |-> "first", items |-> <<>>, key |-> <<>>, n |-> 0])
BeginObj(i) == /\ act' = "BeginObj" /\ CanValue /\ Room /\ Len(stack) < MaxDepth /\ Budget(ClassToks[i].c)
               /\ text' = text \o ClassToks[i].t \o <<123>> /\ var' = var + ClassToks[i].c /\ UNCHANGED <<done, val, fin>>
               /\ stack' = Append(stack, [k |-> "o", st |-> "first", key |-> <<>>, n |-> 0,
                                          items |-> IF ClassToks[i].n = <<>> THEN <<>> ELSE << <<TypeKeyB, [s |-> ClassToks[i].n]>> >>])
Key(i) == /\ act' = "Key" /\ ~done /\ Room /\ Budget(KeyToks[i].c)
          /\ (IF stack = <<>> THEN FALSE ELSE Top.k = "o" /\ Top.st \in {"first", "sep"})
          /\ \A j \in 1..Len(Top.items) : Top.items[j][1] # KeyToks[i].k
          /\ text' = text \o KeyToks[i].t /\ var' = var + KeyToks[i].c /\ UNCHANGED <<done, val, fin>>
          /\ stack' = [stack EXCEPT ![Len(stack)] = [@ EXCEPT !.st = "afterKey", !.key = KeyToks[i].k]]
End == /\ act' = "End" /\ ~done /\ (IF stack = <<>> THEN FALSE ELSE Top.st \in {"first", "afterItem"})
       /\ text' = Append(text, IF Top.k = "a" THEN 93 ELSE 125) /\ UNCHANGED var
       /\ Apply(Deliver(SubSeq(stack, 1, Len(stack) - 1), IF Top.k = "a" THEN [a |-> Top.items] ELSE [o |-> Top.items]))
Sep(i) == /\ act' = "Sep" /\ ~done /\ Room /\ Budget(Seps[i].c)
          /\ (IF stack = <<>> THEN FALSE ELSE Top.st = "afterItem" /\ Top.n < MaxItems)
          /\ text' = text \o Seps[i].t /\ var' = var + Seps[i].c /\ UNCHANGED <<done, val, fin>>
          /\ stack' = [stack EXCEPT ![Len(stack)] = [@ EXCEPT !.st = "sep"]]
\* white space and comments between tokens (after a number a comment would be glued to the token by the next digit,
\* which cannot follow here: after a value only a separator, a closing bracket or the end can come)
Ws(i) == /\ act' = "Ws" /\ Budget(1) /\ (done \/ Room)
         /\ (IF text = <<>> THEN TRUE ELSE text[Len(text)] \notin {32, 9, 10, 13, 47})
         /\ text' = text \o WsVariants[i] /\ var' = var + 1
         /\ UNCHANGED <<stack, done, val, fin>>
\* a line comment that runs to the end of the text (only after the document is complete: whatever follows up to the next
\* line end belongs to the comment, so the value stays what it is)
EndComments == << <<47, 47, 99>>, <<47, 47>>, <<32, 47, 47, 32, 100, 111, 110, 101>> >>             \* //c   //   sp//sp done
WsEnd(i) == /\ act' = "WsEnd" /\ done /\ Budget(1)
            /\ (IF text = <<>> THEN TRUE ELSE text[Len(text)] # 47)
            /\ text' = text \o EndComments[i] /\ var' = var + 1
            /\ UNCHANGED <<stack, done, val, fin>>
Next == \/ \E i \in 1..Len(EndComments) : WsEnd(i)
        \/ \E i \in 1..Len(Scal) : Scalar(i)
        \/ BeginArr \/ End
        \/ \E i \in 1..Len(ClassToks) : BeginObj(i)
        \/ \E i \in 1..Len(KeyToks) : Key(i)
        \/ \E i \in 1..Len(Seps) : Sep(i)
        \/ \E i \in 1..Len(WsVariants) : Ws(i)
Spec == Init /\ [][Next]_vars

Inside == stack # <<>>
TypeOK == var \in 0..MaxVar /\ Len(stack) <= MaxDepth /\ (done => stack = <<>>)
\* plain-JSON documents of this generator are documents of the strict recognizer too, with the same value
JsonSubset == (done /\ Doc(text).ok) => Doc(text).v = val

RECURSIVE Expect(_)
Expect(v) ==
    LET k == Kind(v) IN
    IF k = "n" THEN LET sd == SimpleDbl(Canon(v.n)) IN [n |-> v.n, d |-> IF sd.ok THEN sd.d ELSE <<>>]
    ELSE IF k = "a" THEN [a |-> [i \in 1..Len(v.a) |-> Expect(v.a[i])]]
    ELSE IF k = "o" THEN [o |-> [i \in 1..Len(v.o) |-> <<v.o[i][1], Expect(v.o[i][2])>>]]
    ELSE IF k = "b" THEN [b |-> IF v.b THEN 1 ELSE 0]
    ELSE v
View == <<text, stack, done, var>>
Emit == PrintT(ToJson([t |-> text', k |-> IF done' THEN "doc" ELSE IF stack' # <<>> THEN "prefix" ELSE "open", act |-> act', v |-> Expect(val'), fin |-> fin']))
===============================================================================
