SPECIFICATION Spec
CONSTANTS
 LoNeg = 3
 Hi = 40
 MaxN = 12
 MaxGroup = 8
 MaxNest = 3
INVARIANTS CaseOK EmitInv
CHECK_DEADLOCK FALSE
