SPECIFICATION Spec
CONSTANTS
 Part = "csvw"
 IniLines <- NoLines
 MaxLines = 0
 SetNames <- NoNames
 SetValues <- Values
 MaxSets = 0
 Cells <- CellsWQ
 MaxCols = 1
 MaxCells = 4
 CsvOpts <- CsvOptsQ
ACTION_CONSTRAINT Emit
INVARIANTS CsvWLaw
CHECK_DEADLOCK FALSE
