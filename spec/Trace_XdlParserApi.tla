-------------------------- MODULE Trace_XdlParserApi --------------------------
(* V binding for the object API of asl::XdlParser (spec/XdlParserApi.tla): a real parser object driven through random
   parse / reset / decode / new calls by harness/c06_api_record.  The trace specification keeps the abstract state of
   XdlParserApi - fed, the text passed since construction or the last reset (decode(t) = t and one line feed) - and accepts
   a call line iff
      (a) the recorder's account of the fed text (which it gave to a brand-new parser) is the specification's   [fin = fed]
      (b) value() of the used object equals value() of that new parser                                   [ApiRefines]
      (c) after reset() / construction there is no value                                                 [ResetIsNew]
      (d) when fed is a complete RFC 8259 document of the property's domain followed by a delimiter, value() is the
          recognizer's value (numbers: exact decimal / IEEE comparison as in Trace_JsonTextDec)           [ApiValue]
      (e) decode() returned what value() says right after it.
   Nothing else is demanded of value() on other texts (left open by the documentation).                        *)
EXTENDS JsonText, Json, IOUtils

T == ndJsonDeserialize(IOEnv.TRACE)
VARIABLES l, fed

Valid(r) == r.ok /\ ~r.ex /\ ~DupKeys(r.v)
Delimited(t) == t # <<>> /\ t[Len(t)] \in {32, 10, 13, 9, 93, 125, 34}
NoValue(x) == LKind(x) = "none"
FedAfter(e) == IF e.op \in {"reset", "new"} THEN <<>> ELSE IF e.op = "decode" THEN fed \o e.t \o <<10>> ELSE fed \o e.t
CallOK(e) ==
    LET f == FedAfter(e)
        r == Doc(f)
    IN /\ e.fin = f
       /\ e.val = e.fresh
       /\ (e.op \in {"reset", "new"}) => NoValue(e.val)
       /\ (Valid(r) /\ Delimited(f)) => (~NoValue(e.val) /\ ValMatches(r.v, e.val, TRUE))
       /\ (e.op = "decode") => e.ret = e.val

TInit == l = 1 /\ fed = <<>>
TStep == /\ l <= Len(T)
         /\ l' = l + 1
         /\ LET e == T[l] IN
            \/ e.e = "reset" /\ fed' = <<>>
            \/ e.e = "call" /\ CallOK(e) /\ fed' = FedAfter(e)
TraceSpec == TInit /\ [][TStep]_<<l, fed>>
TraceAccepted == TLCGet("stats").diameter - 1 = Len(T)
===============================================================================
