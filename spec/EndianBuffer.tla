----------------------------- MODULE EndianBuffer -----------------------------
(* C16 (growth) - asl::StreamBuffer and asl::StreamBufferReader as objects (include/asl/StreamBuffer.h).

   The wire format (ScalarBytes / ArrayBytes / Assemble, byte orders, bit patterns) is that of EndianStream; this module
   adds the objects around it:

   StreamBuffer   a growing byte array (it IS an Array<byte>) with a byte order:
       StreamBuffer(e = ENDIAN_LITTLE)            the documented default order is LITTLE
       setEndian(e)                               "can be changed at any moment": affects only what is written afterwards
       << scalar / Array<T> / String / const char*    (EndianStream!Write, WriteArray, WriteString)
       write(ptr, n), << ByteArray                 n raw bytes, no byte order
       length(), *buffer (the content as a ByteArray), clear(), *buffer = array (content replaced; writing goes on after it)
     `out` is the content.  `cap` is a ghost: the capacity Array<byte> has by its growth rule (3 at first, then
     max(2 x capacity, needed)); nothing observable depends on it, it classifies the histories (a write that fits / that
     makes the array grow by allocating anew (< 2 KiB) / by realloc) so that the configurations and the recorder are known to
     cross those classes.

   StreamBufferReader   a window [lo, lo+n) over bytes that exist when it is constructed, a position and a byte order:
       StreamBufferReader(array, e = ENDIAN_LITTLE), StreamBufferReader(ptr, n, e = ENDIAN_LITTLE)   (a sub-range of a buffer)
       setEndian(e)                               "can be changed on the fly": affects only what is read afterwards
       >> x / read<T>()                           the next sizeof(T) bytes assembled in the order in force
       read(n) / read()                           the next n / all remaining bytes as a ByteArray
       skip(n)                                    position += n
       length(), operator bool, ptr(), end()      remaining bytes / "not exhausted" / position
     "You have to make sure you don't read past the bounds of the buffer" (documentation): reading or skipping beyond the
     window is a precondition violation and is never generated; what the reader must do is REPORT exhaustion (length() = 0,
     operator bool false, ptr() = end()) exactly when everything in the window has been consumed.
     The reader refers to the bytes, it does not own them: in this module it reads a snapshot (`win`) taken at construction,
     and later writes to the buffer do not show in it (the harness gives the reader its own copy of the window).

   R: MC_EndianBuffer_*.cfg emit one case per transition (k = "buf")      -> harness/c16_obj_replay
   V: Trace_EndianBuffer validates recorded random executions              -> harness/c16_obj_record --mode 0           *)
EXTENDS EndianStream, Integers

CONSTANTS BufCtors,     \* model checking: constructor arguments of the StreamBuffer ("DEFAULT" = none)
          ReaderCtors,  \* model checking: byte-order arguments of the reader's constructors
          RawChunks,    \* model checking: byte strings written with write(ptr, n) / << ByteArray / assigned with *buffer = a
          Windows,      \* model checking: sub-ranges <<lo, n>> a reader is constructed over (those that fit are taken); <<0, -1>> = all
          ReadTypes,    \* model checking: scalar types read
          ByteCounts    \* model checking: arguments of read(n) / skip(n)

VARIABLES cap,      \* ghost: capacity of the array behind the StreamBuffer
          grow,     \* ghost: growth class of the last write: "fit", "malloc", "realloc" ("" for other calls)
          ropen,    \* a reader exists
          win,      \* the bytes of its window
          rpos      \* bytes consumed
bvars == <<cap, grow, ropen, win, rpos>>
allvars == <<vars, bvars>>

Ctors == {"DEFAULT", "BIG", "LITTLE", "NATIVE"}
CtorOrder(o) == IF o = "DEFAULT" THEN "LITTLE" ELSE o        \* documented default of both constructors

\* the array's growth rule (Array<T>::reserve): ghost
CapAfter(c, need) == IF need <= c THEN c ELSE IF 2 * c >= need THEN 2 * c ELSE need
GrowClass(c, need) == IF need <= c THEN "fit" ELSE IF c < 2048 THEN "malloc" ELSE "realloc"
Grows == /\ cap' = CapAfter(cap, Len(out'))
         /\ grow' = GrowClass(cap, Len(out'))
ReaderSame == UNCHANGED <<ropen, win, rpos>>
BufferSame == UNCHANGED <<cap, out, worder>> /\ grow' = ""

BInit == /\ \E o \in (IF KeepHist THEN BufCtors ELSE {"DEFAULT"}) : /\ worder = CtorOrder(o)
                             /\ hist = <<[op |-> "ctor", o |-> o]>>
         /\ rorder = "LITTLE" /\ out = <<>> /\ hz = {} /\ pool = <<>>
         /\ cap = 3 /\ grow = "" /\ ropen = FALSE /\ win = <<>> /\ rpos = 0

-------------------------------------------------------------------------------
(* StreamBuffer *)
BSetOrder(o)      == SetOrder(o) /\ UNCHANGED bvars
BWrite(t, v)      == Write(t, v) /\ Grows /\ ReaderSame
BWriteArray(t, a) == WriteArray(t, a) /\ Grows /\ ReaderSame
BWriteString(s)   == WriteString(s) /\ Grows /\ ReaderSame
\* write(ptr, n) (api "raw") / operator<<(const ByteArray&) (api "bytes"): the bytes as they are
BWriteRaw(d, api) == /\ out' = out \o d
                     /\ UNCHANGED <<worder, rorder, pool>>
                     /\ Log([op |-> "wr", d |-> d, api |-> api], {})
                     /\ Grows /\ ReaderSame
\* length() and the content as a ByteArray (`ByteArray a = *buffer;`)
BLength  == /\ UNCHANGED <<worder, rorder, out, pool>> /\ UNCHANGED bvars
            /\ Log([op |-> "len", r |-> Len(out)], {})
BContent == /\ UNCHANGED <<worder, rorder, out, pool>> /\ UNCHANGED bvars
            /\ Log([op |-> "content", r |-> out], {})
\* clear() (inherited from Array<byte>): empty again, the byte order stays; the capacity is kept
BClear   == /\ out' = <<>> /\ UNCHANGED <<worder, rorder, pool>>
            /\ UNCHANGED cap /\ grow' = "" /\ ReaderSame
            /\ Log([op |-> "clear"], {})
\* `*buffer = a` (an Array<byte> becomes the content: the buffer now refers to the array's storage); the byte order stays and
\* writing goes on after the last byte.  The caller drops its own handle `a` before writing again (an array that is grown
\* while another handle shares it is the open finding GrowWhileShared of C01, not this property's business).
BAssign(d) == /\ out' = d /\ UNCHANGED <<worder, rorder, pool>>
              /\ cap' = (IF Len(d) < 3 THEN 3 ELSE Len(d)) /\ grow' = "" /\ ReaderSame
              /\ Log([op |-> "assign", d |-> d], {})

(* StreamBufferReader *)
\* constructed over bytes lo .. lo+n-1 of the present content (via = "array": a ByteArray holding exactly those bytes,
\* via = "ptr": (buffer.data() + lo, n)); o = "DEFAULT": the constructor's default byte order
BOpenReader(via, lo, n, o) ==
    /\ lo >= 0 /\ n >= 0 /\ lo + n <= Len(out)
    /\ ropen' = TRUE /\ win' = SubSeq(out, lo + 1, lo + n) /\ rpos' = 0
    /\ rorder' = CtorOrder(o)
    /\ UNCHANGED <<worder, out, pool, cap>> /\ grow' = ""
    /\ Log([op |-> "ropen", via |-> via, lo |-> lo, n |-> n, o |-> o], {})
Left == Len(win) - rpos
BRSetOrder(o) == ropen /\ RSetOrder(o) /\ UNCHANGED <<cap, ropen, win, rpos>> /\ grow' = ""
ReaderStep(k) == /\ rpos' = rpos + k
                 /\ UNCHANGED <<worder, rorder, out, pool, cap, ropen, win>> /\ grow' = ""
\* (a bool read from a byte other than 0 and 1 - never the case for bytes written as a bool - has no specified value: ok = FALSE)
BRead(t) == /\ ropen /\ Size(t) <= Left
            /\ ReaderStep(Size(t))
            /\ Log([op |-> "r", t |-> t, v |-> Assemble(SubSeq(win, rpos + 1, rpos + Size(t)), rorder), o |-> rorder,
                    ok |-> (t # "bool" \/ win[rpos + 1] \in {0, 1})], {})
BReadBytes(n) == /\ ropen /\ n >= 0 /\ n <= Left
                 /\ ReaderStep(n)
                 /\ Log([op |-> "rb", n |-> n, r |-> SubSeq(win, rpos + 1, rpos + n)], {})
BReadAll == /\ ropen
            /\ ReaderStep(Left)
            /\ Log([op |-> "rall", r |-> SubSeq(win, rpos + 1, Len(win))], {})
BSkip(n) == /\ ropen /\ n >= 0 /\ n <= Left
            /\ ReaderStep(n)
            /\ Log([op |-> "skip", n |-> n], {})
\* length(), operator bool, ptr() - start, end() - ptr()
BQuery == /\ ropen
          /\ ReaderStep(0)
          /\ Log([op |-> "rq", len |-> Left, more |-> (Left > 0), pos |-> rpos], {})

-------------------------------------------------------------------------------
(* model checking *)
BCanStep == Len(hist) <= MaxOps            \* (the constructor record does not count)
FitWindows == {w \in Windows : w[1] + (IF w[2] < 0 THEN 0 ELSE w[2]) <= Len(out)}
\* (after a reader has been constructed the histories go on with the reader; of the buffer's calls only raw writes and
\*  clear() stay, to see that the reader is independent of them)
MCBSetOrder    == BCanStep /\ ~ropen /\ \E o \in Orders : o # worder /\ BSetOrder(o)
MCBWrite       == BCanStep /\ ~ropen /\ \E t \in ScalarTypes : \E k \in 1..NVals : k <= NSamples(t) /\ BWrite(t, Samples(t)[k])
MCBWriteArray  == BCanStep /\ ~ropen /\ \E t \in ArrayTypes, n \in ArrayLens : BWriteArray(t, SampleArray(t, n, Len(hist)))
MCBWriteString == BCanStep /\ ~ropen /\ BWriteString(<<104, 105, 255>>)
MCBWriteRaw    == BCanStep /\ \E d \in RawChunks : BWriteRaw(d, IF (Len(hist) + Len(d)) % 2 = 0 THEN "raw" ELSE "bytes")
MCBLength      == BCanStep /\ ~ropen /\ hist[Len(hist)].op \notin {"len", "content"} /\ BLength
MCBContent     == BCanStep /\ ~ropen /\ hist[Len(hist)].op \notin {"len", "content"} /\ BContent
MCBClear       == BCanStep /\ out # <<>> /\ BClear
MCBAssign      == BCanStep /\ ~ropen /\ \E d \in RawChunks : BAssign(d)
MCBOpenReader  == BCanStep /\ ~ropen /\ \E w \in FitWindows : \E o \in ReaderCtors :
                        BOpenReader(IF (w[1] + Len(hist)) % 2 = 0 THEN "array" ELSE "ptr", w[1], IF w[2] < 0 THEN Len(out) - w[1] ELSE w[2], o)
MCBRSetOrder   == BCanStep /\ \E o \in Orders : o # rorder /\ BRSetOrder(o)
MCBRead        == BCanStep /\ \E t \in ReadTypes : BRead(t)
MCBReadBytes   == BCanStep /\ \E n \in ByteCounts : BReadBytes(n)
MCBReadAll     == BCanStep /\ BReadAll
MCBSkip        == BCanStep /\ \E n \in ByteCounts : BSkip(n)
MCBQuery       == BCanStep /\ hist[Len(hist)].op # "rq" /\ BQuery
BNext == \/ MCBSetOrder \/ MCBWrite \/ MCBWriteArray \/ MCBWriteString \/ MCBWriteRaw \/ MCBLength \/ MCBContent \/ MCBClear \/ MCBAssign
         \/ MCBOpenReader \/ MCBRSetOrder \/ MCBRead \/ MCBReadBytes \/ MCBReadAll \/ MCBSkip \/ MCBQuery
BSpec == BInit /\ [][BNext]_allvars

-------------------------------------------------------------------------------
(* properties *)
BTypeOK == /\ worder \in Orders /\ rorder \in Orders
           /\ {i \in 1..Len(out) : out[i] \notin Byte} = {}
           /\ cap >= 3 /\ Len(out) <= cap /\ grow \in {"", "fit", "malloc", "realloc"}
           /\ rpos \in 0..Len(win) /\ (~ropen => win = <<>>)

\* the content is the concatenation of what was written since the buffer was last cleared / assigned to, each item with
\* its bytes in the order in force when it was written (sizeof(T) per scalar, length x sizeof(T) per array)
IsWrite(r) == r.op \in {"w", "wa", "ws", "wr"}
BytesOf(r) == IF r.op = "w" THEN ScalarBytes(r.v, r.o) ELSE IF r.op = "wa" THEN ArrayBytes(r.a, r.o) ELSE IF r.op = "ws" THEN r.s ELSE r.d
LastReset == LET R == {i \in 1..Len(hist) : hist[i].op \in {"clear", "assign"}} IN IF R = {} THEN 0 ELSE CHOOSE i \in R : \A j \in R : j <= i
ContentOK == KeepHist =>
    LET k    == LastReset
        base == IF k = 0 THEN <<>> ELSE IF hist[k].op = "assign" THEN hist[k].d ELSE <<>>
        ws   == SelectSeq(SubSeq(hist, k + 1, Len(hist)), IsWrite)
    IN out = base \o Flat([i \in 1..Len(ws) |-> BytesOf(ws[i])])

\* what a reader has delivered so far (values re-encoded in the order they were read with, raw bytes, skipped bytes as they
\* are in the window) is exactly the consumed prefix of its window: nothing invented, nothing lost, nothing from outside
ReaderRecs == LET R == {i \in 1..Len(hist) : hist[i].op = "ropen"}
                  k == IF R = {} THEN Len(hist) ELSE CHOOSE i \in R : \A j \in R : j <= i
              IN SubSeq(hist, k + 1, Len(hist))
RECURSIVE Delivered(_, _)
Delivered(rs, at) ==
    IF rs = <<>> THEN <<>>
    ELSE LET r == Head(rs)
             d == IF r.op = "r" THEN ScalarBytes(r.v, r.o)       \* (r.v is what the specification assembled, also when ok = FALSE)
                  ELSE IF r.op \in {"rb", "rall"} THEN r.r
                  ELSE IF r.op = "skip" THEN SubSeq(win, at + 1, at + r.n)
                  ELSE <<>>
         IN d \o Delivered(Tail(rs), at + Len(d))
ReaderFaithful == (KeepHist /\ ropen) => Delivered(ReaderRecs, 0) = SubSeq(win, 1, rpos)
\* exhaustion is reported exactly when the window is used up
ExhaustionReported == hist # <<>> =>
    LET r == hist[Len(hist)] IN r.op = "rq" => ((r.more <=> rpos < Len(win)) /\ r.len = Len(win) - rpos /\ r.pos = rpos)

\* a change of byte order (either side) changes nothing that exists: content, window, position
BOrderOnlyLater == [][(hist' # hist /\ hist' # <<>> /\ hist'[Len(hist')].op \in {"set", "rset"}) => (out' = out /\ win' = win /\ rpos' = rpos)]_allvars
\* the reader never changes the buffer, writes never change the reader (it has its own bytes)
Independent == [][(hist' # hist /\ hist' # <<>>) =>
                    LET op == hist'[Len(hist')].op IN
                    /\ (op \in {"r", "rb", "rall", "skip", "rq", "rset", "ropen"} => out' = out /\ worder' = worder)
                    /\ (op \in {"w", "wa", "ws", "wr", "set", "clear", "assign", "len", "content"} => (win' = win /\ rpos' = rpos /\ rorder' = rorder))]_allvars
\* the position only moves forward, by exactly the size of what was asked for
Forward == [][rpos' >= rpos \/ hist' = <<>> \/ (hist' # hist /\ hist'[Len(hist')].op = "ropen")]_allvars

BView == <<worder, rorder, out, Len(hist), IF hist = <<>> THEN "" ELSE hist[Len(hist)].op, cap, grow, ropen, win, rpos>>
BEmit == PrintT(ToJson([k |-> "buf", hist |-> hist', out |-> out', g |-> grow', cap |-> cap']))
===============================================================================
