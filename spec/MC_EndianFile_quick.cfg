SPECIFICATION FSpec
CONSTANTS
 Native = "LITTLE"
 ScalarTypes = {"i16", "u32"}
 ArrayTypes = {"i16"}
 ArrayLens = {2}
 NVals = 1
 MaxOps = 4
 PoolTypeSeqs <- PoolsNone
 PoolLens <- LensNone
 PoolSetIdx = {}
 KeepHist = TRUE
 InitFiles <- FilesQ
 RawChunks <- ChunksQ
 Strings <- StringsQ
 ReadTypes = {"u8", "i16", "i32", "f64"}
 ByteCounts = {3, 16}
 Seeks <- SeeksQ
VIEW FView
ACTION_CONSTRAINT FEmit
INVARIANTS FTypeOK
PROPERTIES LocalWrite ReadBackAtPos ReadOnlyReads ShortReadFlagged ReadModeProtects FOrderOnlyLater LenStringInverse
CHECK_DEADLOCK FALSE
