SPECIFICATION FairSpec
CONSTANTS
 NProd = 1
 NCons = 1
 PerProd = 2
 NTimed = 0
 NWait = 1
 NTimedW = 1
 Poller = FALSE
 AtomicWait = TRUE
 Interrupts = TRUE
 EintrReturns = FALSE
INVARIANTS NoPhantomWake Conservation MutexInv TimeoutOnlyUnsignalled
PROPERTIES AllConsumed AllWoken
CHECK_DEADLOCK FALSE
