SPECIFICATION FairSpec
CONSTANTS
 NProd = 2
 NCons = 2
 PerProd = 2
 NWait = 2
INVARIANTS NoPhantomWake
PROPERTIES AllConsumed AllWoken
CHECK_DEADLOCK FALSE
